#!/usr/bin/env python3
"""C17 - a Track is always chronological; slicing and speed filtering are exact.
See DESIGN.md section 5 / C17.  Model: coq/theories/Model/CollM.v, checker: Corr/CollK.v."""
import itertools
import json
import math
import os
import sys
from datetime import datetime, time as dtime, timedelta, timezone
from fractions import Fraction

sys.path.insert(0, os.path.dirname(os.path.abspath(__file__)))
from lib import Check, REPO, guarded, zlit, blit, listlit   # noqa: E402
import gen_track                                                # noqa: E402  (tools/: translator tie for class Track)

import logging                                                  # noqa: E402
logging.disable(logging.CRITICAL)
from geostructures import Coordinate, GeoPoint, GeoBox         # noqa: E402  (the implementation)
from geostructures.collections import Track, FeatureCollection  # noqa: E402
from geostructures.time import TimeInterval                    # noqa: E402
from geostructures.calc import haversine_distance_meters       # noqa: E402

EPOCH = datetime(2020, 1, 1, tzinfo=timezone.utc)
US = timedelta(microseconds=1)
DAY = 86_400_000_000
SEC = 1_000_000


def to_dt(z, style):
    """style: 'utc' | 'naive' | int minutes of offset"""
    d = EPOCH + timedelta(microseconds=z)
    if style == 'utc':
        return d
    if style == 'naive':
        return d.replace(tzinfo=None)
    return d.astimezone(timezone(timedelta(minutes=style)))


def of_dt(d):
    if d.tzinfo is None:
        d = d.replace(tzinfo=timezone.utc)
    return (d - EPOCH) // US


def off_us(style):
    return 0 if style in ('utc', 'naive') else style * 60 * SEC


def qlit(fr):
    """exact rational as a Gallina Q term (no notation scopes needed)"""
    return f'(Qmake {zlit(fr.numerator)} {fr.denominator})'


def newid(i):
    return -1 - i if i >= 0 else i - 1000


# --------------------------------------------------------------------------- one case
class World:
    """Names the implementation's objects: id by Python identity, payload by centroid value."""

    def __init__(self):
        self.keep = []            # keeps every object alive so id() is never reused
        self.idmap = {}
        self.pos = {}             # (lon, lat) -> index
        self.coords = []          # index -> Coordinate (the implementation's own object)
        self.merge = {}           # tuple of member payloads -> payload of the created ping
        self.next_id = 0

    def payload(self, shape):
        c = shape.centroid
        k = (c.longitude, c.latitude)
        if k not in self.pos:
            self.pos[k] = len(self.coords)
            self.coords.append(c)
        return self.pos[k]

    def register(self, shape, ident=None):
        if ident is None:
            ident = self.next_id
            self.next_id += 1
        self.keep.append(shape)
        self.idmap[id(shape)] = ident
        self.payload(shape)
        return ident

    def obs(self, shape):
        """(id, st, en, ost, oen, pl) of an implementation object"""
        s, e = shape.start, shape.end
        return (self.idmap[id(shape)], of_dt(s), of_dt(e),
                s.utcoffset() // US, e.utcoffset() // US, self.payload(shape))


def build_shape(spec, n):
    c = Coordinate(spec['pos'][0], spec['pos'][1])
    if spec['kind'] == 'nodt':
        return GeoPoint(c, properties={'n': n})
    s, e = to_dt(spec['st'], spec['so']), to_dt(spec['en'], spec['eo'])
    props = {'n': n, 'tag%d' % (n % 3): n}
    if spec['kind'] == 'inst':           # dt given as a bare datetime (set_dt wraps it)
        return GeoPoint(c, dt=s, properties=props)
    if spec['kind'] == 'box':
        return GeoBox(Coordinate(spec['pos'][0] - 0.25, spec['pos'][1] + 0.25),
                      Coordinate(spec['pos'][0] + 0.25, spec['pos'][1] - 0.25),
                      dt=TimeInterval(s, e), properties=props)
    return GeoPoint(c, dt=TimeInterval(s, e), properties=props)


def item_lit(o):
    return 'I ' + ' '.join(zlit(v) for v in o)


def raw_lit(w, shape, ident):
    if shape.dt is None:
        return f'U {zlit(ident)} {zlit(w.payload(shape))}'
    return 'T ' + ' '.join(zlit(v) for v in w.obs(shape))


def opt_lit(v):
    return 'None' if v is None else f'(Some {zlit(v)})'


def res_ids(w, r):
    """guarded Track result -> ('Ok', [ids]) / ('Err', kind)"""
    if r[0] != 'Ok':
        return r
    return ('Ok', [w.idmap[id(x)] for x in r[1].geoshapes])


def res_ids_lit(r):
    return f'(Ok {listlit([zlit(i) for i in r[1]])})' if r[0] == 'Ok' else f'(Err {r[1]})'


# ---- the property itself, on the implementation's answers -------------------------------
def mem(t, s, e):
    return t == s if s == e else s <= t < e


def sets_meet(a, b, s, e):
    pts = sorted({Fraction(x) for x in (a, b, s, e)})
    pts = pts + [(x + y) / 2 for x, y in zip(pts, pts[1:])]
    return any(mem(t, a, b) and mem(t, s, e) for t in pts)


def exact_speed_ok(dx, dt_us, v):
    sp = Fraction(0) if dx == 0 else Fraction(dx) / Fraction(dt_us, SEC)
    return sp <= Fraction(v)


def float_speed_ok(dx, dt_us, v):
    dt = dt_us / 10 ** 6                      # what timedelta.total_seconds() computes
    sp = 0 if dx == 0 else dx / dt
    return sp <= v


def greedy_exact(w, cur_obs, v):
    """kept ids by the property's greedy rule in exact arithmetic; near_tie if a float decision
    on an examined pair differs from the exact one"""
    kept = [cur_obs[0]]
    near = False
    ties = 0
    for x in cur_obs[1:]:
        p = kept[-1]
        dt_us = x[1] - p[1]
        if dt_us <= 0:
            continue
        dx = haversine_distance_meters(w.coords[p[5]], w.coords[x[5]])
        ok = exact_speed_ok(dx, dt_us, v)
        if ok != float_speed_ok(dx, dt_us, v):
            near = True
        if dx != 0 and Fraction(dx) / Fraction(dt_us, SEC) == Fraction(v):
            ties += 1
        if ok:
            kept.append(x)
    return [k[0] for k in kept], near, ties


# ---- the same greedy rule judged with an INDEPENDENT distance ------------------------------
# greedy_exact above (and the Coq model, through the case's distance table) take the
# implementation's own haversine_distance_meters values as given: they cannot see a hop that the
# implementation MEASURES differently from the sphere (a longitude difference taken without the
# wrap at +-180, a planar shortcut near a pole, ...).  This reference measures every hop itself:
# unit vectors from its own trigonometry, angle = atan2(|a x b|, a . b), its own radius constant.
# It never compares a speed that lies within REF_MARGIN of the limit (such a step is skipped and
# counted), so the two distance formulas / float roundings can never disagree on a verdict.
R_REF = 6_371_000.0
REF_MARGIN = 0.01


def unit_vec(lon, lat):
    lo, la = math.radians(lon), math.radians(lat)
    return (math.cos(la) * math.cos(lo), math.cos(la) * math.sin(lo), math.sin(la))


def gc_dist_ref(p, q):
    a, b = unit_vec(*p), unit_vec(*q)
    cx = (a[1] * b[2] - a[2] * b[1], a[2] * b[0] - a[0] * b[2], a[0] * b[1] - a[1] * b[0])
    return R_REF * math.atan2(math.sqrt(cx[0] ** 2 + cx[1] ** 2 + cx[2] ** 2), a[0] * b[0] + a[1] * b[1] + a[2] * b[2])


def hop_class(p, q):
    """which line a hop p -> q (lon, lat) crosses: 'anti' (+-180), 'prime' (0), 'pole' (either end
    within 1 degree of a pole), or None"""
    if max(abs(p[1]), abs(q[1])) > 89.0:
        return 'pole'
    if abs(p[0] - q[0]) > 180:
        return 'anti'
    if (p[0] < 0) != (q[0] < 0):
        return 'prime'
    return None


def greedy_indep(w, cur_obs, v):
    """kept ids by the property's greedy rule with the reference's own distances, plus the kept hops;
    None when an examined hop's speed is within REF_MARGIN of the limit"""
    kept, hops = [cur_obs[0]], []
    for x in cur_obs[1:]:
        p = kept[-1]
        dt_us = x[1] - p[1]
        if dt_us <= 0:
            continue
        cp, cx = w.coords[p[5]], w.coords[x[5]]
        pp, px = (cp.longitude, cp.latitude), (cx.longitude, cx.latitude)
        if pp == px:
            ok = 0 <= v                      # same place: speed exactly 0
        else:
            sp = gc_dist_ref(pp, px) / (dt_us / SEC)
            if abs(sp - v) <= REF_MARGIN * max(sp, abs(v)):
                return None
            ok = sp < v
        if ok:
            kept.append(x)
            hops.append((pp, px))
    return [k[0] for k in kept], hops


# ---- live-object histories -----------------------------------------------------------------
# Mechanism class covered: a Track carries cached observations (has_duplicate_timestamps, time_start_diffs,
# centroid_distances, bounds, convex_hull, geospan) and every derivation can be SPELLED several ways - `t + o`, `t += o`
# (rebinds the name on a class without __iadd__, mutates the object on one with it), sum(others, t), reduce(add, [t, ...]),
# `t = t[a:b]` - any of which may reuse the object or part of its state (an in-place extension that forgets to re-sort,
# to drop a cache, to re-validate; a sum that carries a cache over).  Such a shortcut shows only when the observation was
# READ on that very object BEFORE the derivation and is asked again AFTER.  Histories therefore follow ONE name: reads
# (each compared with the same observation on a Track freshly built from the same shapes), derivations in every spelling
# (the rebinding is followed: the object the name is bound to afterwards is the track), read-only queries in between
# (convolve, slices, speed filter: compared with the model in Coq and with the property).
LIVE_READS = ['has_duplicate_timestamps', 'has_duplicate_timestamps', 'convolve', 'first', 'last', 'start', 'end', 'len',
              'time_start_diffs', 'centroid_distances', 'bounds', 'convex_hull', 'geospan']


def canon_obs(w, t, name):
    """a comparable value of observation `name` on track t (same shapes => same value, whatever the object's past)"""
    if name == 'len':
        return len(t)
    if name == 'convolve':
        return [(of_dt(x.start), of_dt(x.end), x.centroid.longitude, x.centroid.latitude) for x in t.convolve_duplicate_timestamps().geoshapes]
    v = getattr(t, name)
    if name in ('first', 'last'):
        return w.idmap[id(v)]
    if name in ('start', 'end'):
        return of_dt(v)
    if name == 'time_start_diffs':
        return [d // US for d in v]
    if name == 'centroid_distances':
        return [float(d) for d in v]
    if name == 'convex_hull':
        return [(c.longitude, c.latitude) for c in v.outline]
    if name == 'bounds':
        return tuple(v)
    return v


def run_case(spec):
    """spec: {'items': [...], 'ops': [...]} (JSON-able).  Drives the implementation, returns
    (gallina literal or None, meta, failures of the property itself, counters)"""
    w = World()
    shapes = []
    for n, it in enumerate(spec['items']):
        sh = build_shape(it, n)
        w.register(sh)
        shapes.append(sh)
    raws = [raw_lit(w, sh, w.idmap[id(sh)]) for sh in shapes]
    fails, stats = [], {'near_ties': 0, 'exact_ties': 0, 'merged': 0, 'steps': 0, 'classes': [],
                    'ref_judged': 0, 'ref_skipped': 0, 'ref_hops': {'anti': 0, 'prime': 0, 'pole': 0}, 'ref_dropped': 0, 'live_reads': 0}
    r0 = guarded(lambda: Track(list(shapes)))
    first = res_ids(w, r0)
    meta = {'spec': spec, 'first': first, 'steps': []}
    # oracle: construction
    timed = all(it['kind'] != 'nodt' for it in spec['items'])
    if not timed:
        if first != ('Err', 'ValueError'):
            fails.append(('mk_rejects_nodt', f'Track(...) with a shape lacking dt gave {first}'))
    else:
        if first[0] != 'Ok':
            fails.append(('mk', f'Track(...) raised {first[1]}'))
        else:
            sts = [of_dt(s.start) for s in shapes]
            exp = sorted(range(len(shapes)), key=lambda i: (sts[i], i))
            if first[1] != exp:
                fails.append(('mk_sorted/mk_stable', f'order {first[1]}, stable chronological order is {exp}'))
    steps_lit = []
    has_fij = False
    if r0[0] == 'Ok' and timed:       # (an accepted untimed shape is already a failure; its track cannot be observed)
        cur = r0[1]
        for op in spec['ops']:
            kind = op[0]
            adv = bool(op[-1])
            before = list(cur.geoshapes)
            cur_obs = [w.obs(x) for x in before]
            news_lit = '[]'
            hd_lit = 'None'
            exp = None          # expected ids by the property
            if kind == 'read':
                # an observation on the live object against the same observation on a Track freshly built from its shapes
                name = op[1]
                fresh = Track(list(before))
                got, want = guarded(lambda: canon_obs(w, cur, name)), guarded(lambda: canon_obs(w, fresh, name))
                stats['live_reads'] += 1
                done = [s_['op'][0] for s_ in meta['steps'] if s_['op'][-1]]
                if got != want:
                    fails.append(('live-object:' + name, f'after {done}: {name} on the track object is {got}; on Track(<the same '
                                                         f'{len(before)} shapes>) it is {want}'))
                keys = [(o[1], o[2]) for o in cur_obs]
                if name == 'has_duplicate_timestamps' and got[0] == 'Ok' and got[1] != (len(set(keys)) != len(keys)):
                    fails.append(('convolve_spec', f'after {done}: has_duplicate_timestamps={got[1]} on timestamps {keys}'))
                if name == 'convolve' and got[0] == 'Ok' and (len({g[:2] for g in got[1]}) != len(got[1]) or {g[:2] for g in got[1]} != set(keys)):
                    fails.append(('convolve_spec', f'after {done}: convolving timestamps {keys} leaves {[g[:2] for g in got[1]]}'))
                if [id(x) for x in cur.geoshapes] != [id(x) for x in before]:
                    fails.append((kind, f'reading {name} modified the track'))
                meta['steps'].append({'op': op, 'result': got, 'fresh_track': want})
                continue
            if kind in ('iadd', 'sum', 'reduce'):
                # the other spellings of concatenation: `t += o` | sum([o1, o2..], t) | reduce(add, [t, o1, o2..]); op[2] names the
                # observations read on the other operand(s) beforehand.  Stable sorting makes the chain equal ONE concatenation
                # with the others' shapes in sequence, which is how it is handed to the model (OAdd)
                import functools
                import operator
                groups = [op[1]] if kind == 'iadd' else op[1]
                others, extra_obs, sorted_obs = [], [], []
                for g in groups:
                    ex = []
                    for it in g:
                        sh = build_shape(it, w.next_id)
                        w.register(sh)
                        ex.append(sh)
                    others.append(Track(list(ex)))
                    go = [w.obs(x) for x in ex]
                    extra_obs += go
                    sorted_obs += sorted(go, key=lambda o: o[1])
                for o_, names in zip(others, op[2]):
                    for nm in names:
                        guarded(lambda: canon_obs(w, o_, nm))
                if kind == 'iadd':
                    def spell():
                        x = cur
                        x += others[0]
                        return x                      # whatever the name is bound to now
                elif kind == 'sum':
                    def spell():
                        return sum(others, cur)
                else:
                    def spell():
                        return functools.reduce(operator.add, [cur] + others)
                r = guarded(spell)
                lit = f'OAdd {listlit([item_lit(o) for o in extra_obs])}'
                exp = ('Ok', [o[0] for o in sorted(cur_obs + sorted_obs, key=lambda o: o[1])])
                if kind == 'iadd' and r[0] == 'Ok' and r[1] is cur:
                    before = list(cur.geoshapes)      # extended in place: allowed; what matters is what the name now holds
            elif kind == 'add':
                extra = []
                for it in op[1]:
                    sh = build_shape(it, w.next_id)
                    w.register(sh)
                    extra.append(sh)
                extra_obs = [w.obs(x) for x in extra]
                r = guarded(lambda: cur + Track(list(extra)))
                lit = f'OAdd {listlit([item_lit(o) for o in extra_obs])}'
                allo = cur_obs + sorted(extra_obs, key=lambda o: o[1])
                exp = ('Ok', [o[0] for o in sorted(allo, key=lambda o: o[1])])
            elif kind == 'addother':
                r = guarded(lambda: cur + FeatureCollection(list(before)))
                lit = 'OAddOther'
                exp = ('Err', 'ValueError')
            elif kind == 'slice':
                a, b, sty = op[1], op[2], op[3]
                sl = slice(None if a is None else to_dt(a, sty), None if b is None else to_dt(b, sty))
                r = guarded(lambda: cur[sl])
                lit = f'OSlice {opt_lit(a)} {opt_lit(b)}'
                exp = ('Ok', [o[0] for o in cur_obs if (a is None or a <= o[1]) and (b is None or o[2] < b)])
            elif kind == 'fdt':
                d, sty = op[1], op[2]
                r = guarded(lambda: cur.filter_by_dt(to_dt(d, sty)))
                lit = f'OFilterDt {zlit(d)}'
                exp = ('Ok', [o[0] for o in cur_obs if o[1] == d and o[2] == d])
            elif kind == 'fiv':
                a, b, sty = op[1], op[2], op[3]
                r = guarded(lambda: cur.filter_by_dt(TimeInterval(to_dt(a, sty), to_dt(b, sty))))
                lit = f'OFilterIv {zlit(a)} {zlit(b)}'
                exp = ('Ok', [o[0] for o in cur_obs if sets_meet(a, b, o[1], o[2])])
            elif kind == 'ftime':
                s, e = op[1], op[2]
                ts, te = (EPOCH + timedelta(microseconds=s)).time(), (EPOCH + timedelta(microseconds=e)).time()
                r = guarded(lambda: cur.filter_by_time(ts, te))
                lit = f'OFilterTime {zlit(s)} {zlit(e)}'
                if s <= e:
                    # same-day shapes: the closed daily window [s,e] meets [tod start, tod end]
                    ee = []
                    for o in cur_obs:
                        ta, tb = (o[1] + o[3]) % DAY, (o[2] + o[4]) % DAY
                        if ta <= tb:
                            ee.append(max(s, ta) <= min(e, tb))
                        else:
                            ee = None
                            break
                    if ee is not None:
                        exp = ('Ok', [o[0] for o, k in zip(cur_obs, ee) if k])
            elif kind == 'conv':
                # has_duplicate_timestamps is a cached_property: read it on a fresh copy of the track
                hd = Track(list(before)).has_duplicate_timestamps
                keys = [(o[1], o[2]) for o in cur_obs]
                if hd != (len(set(keys)) != len(keys)):
                    fails.append(('convolve_spec', f'has_duplicate_timestamps={hd} on timestamps {keys}'))
                hd_lit = f'(Some {blit(hd)})'
                r = guarded(lambda: cur.convolve_duplicate_timestamps())
                lit = 'OConvolve'
                if r[0] == 'Ok':
                    news = []
                    for x in r[1].geoshapes:
                        if id(x) not in w.idmap:
                            key = (of_dt(x.start), of_dt(x.end))
                            members = [o for o in cur_obs if (o[1], o[2]) == key]
                            if not members:
                                fails.append(('convolve_spec', f'created ping with a timestamp {key} not in the track'))
                                w.register(x, -999999)
                                continue
                            w.register(x, newid(members[0][0]))
                            mk = tuple(o[5] for o in members)
                            pl = w.payload(x)
                            if w.merge.setdefault(mk, pl) != pl:
                                fails.append(('convolve_spec', 'two groups with the same member positions got different centroids'))
                            # mean position / merged properties (not part of the property's text; reported as model tie only)
                            want_props = {}
                            for mobj, o in zip(before, cur_obs):
                                if (o[1], o[2]) == key:
                                    want_props.update(mobj._properties)
                            if x._properties != want_props:
                                fails.append(('convolve_spec', f'created ping has properties {x._properties}, merged group properties are {want_props}'))
                            lons = [w.coords[p].longitude for p in mk]
                            lats = [w.coords[p].latitude for p in mk]
                            c = x.centroid
                            if abs(c.longitude - sum(lons) / len(lons)) > 1e-9 or abs(c.latitude - sum(lats) / len(lats)) > 1e-9:
                                fails.append(('convolve_spec', f'created ping at {c}, mean of the group is {sum(lons)/len(lons), sum(lats)/len(lats)}'))
                        if w.idmap[id(x)] < 0:
                            news.append(w.obs(x))
                    news_lit = listlit([item_lit(o) for o in news])
                    stats['merged'] += len(news)
                    out_obs = [w.obs(x) for x in r[1].geoshapes]
                    keys_in = [(o[1], o[2]) for o in cur_obs]
                    keys_out = [(o[1], o[2]) for o in out_obs]
                    if len(set(keys_out)) != len(keys_out):
                        fails.append(('convolve_spec', f'two shapes share a timestamp after convolution: {keys_out}'))
                    if set(keys_out) != set(keys_in):
                        fails.append(('convolve_spec', 'the set of timestamps changed'))
                    for o in cur_obs:
                        if keys_in.count((o[1], o[2])) == 1 and o not in out_obs:
                            fails.append(('convolve_spec', f'shape {o[0]} with a unique timestamp was not kept as is'))
            elif kind == 'fij':
                v = op[1]
                has_fij = True
                if cur_obs:
                    exp_ids, near, ties = greedy_exact(w, cur_obs, v)
                    if near:
                        stats['near_ties'] += 1
                        continue        # excluded: float and exact decisions differ on an examined pair
                    stats['exact_ties'] += ties
                    exp = ('Ok', exp_ids)
                else:
                    exp = ('Err', 'IndexError')
                r = guarded(lambda: cur.filter_impossible_journeys(v))
                lit = f'OFij {qlit(Fraction(v))}'
            else:
                raise AssertionError(kind)
            rid = res_ids(w, r)
            stats['steps'] += 1
            stats['classes'].append(kind + ('' if rid[0] == 'Ok' else ':' + rid[1]))
            # oracle common to every operation
            if [id(x) for x in cur.geoshapes] != [id(x) for x in before]:
                fails.append((kind, 'the source track was modified'))
            if r[0] == 'Ok':
                if not isinstance(r[1], Track):
                    fails.append((kind, f'result is a {type(r[1]).__name__}, not a Track'))
                sts = [of_dt(x.start) for x in r[1].geoshapes]
                if any(a > b for a, b in zip(sts, sts[1:])):
                    fails.append(('ops_sorted', f'{kind}: result not chronological: ids {rid[1]}'))
            if exp is not None and rid != exp:
                fails.append(({'slice': 'slice_spec', 'fij': 'fij_spec', 'add': 'ops_sorted/add', 'iadd': 'ops_sorted/add',
                               'sum': 'ops_sorted/add', 'reduce': 'ops_sorted/add', 'fdt': 'filter_by_dt',
                               'fiv': 'filter_by_dt', 'ftime': 'filter_by_time_spec'}.get(kind, kind),
                              f'{op}: implementation gives {rid}, the property demands {exp}'))
            if kind == 'fij' and cur_obs and rid[0] == 'Ok':
                ref = greedy_indep(w, cur_obs, op[1])
                if ref is None:
                    stats['ref_skipped'] += 1
                else:
                    stats['ref_judged'] += 1
                    stats['ref_dropped'] += len(cur_obs) - len(ref[0])
                    for a, b in ref[1]:
                        hc = hop_class(a, b)
                        if hc:
                            stats['ref_hops'][hc] += 1
                    if rid[1] != ref[0]:
                        fails.append(('fij_spec (independent great-circle reference)',
                                      f'{op}: implementation keeps {rid[1]}; measuring every hop on the unit sphere '
                                      f'(no hop within {REF_MARGIN:.0%} of the limit) the reachable shapes are {ref[0]}; '
                                      f'positions {[(w.coords[o[5]].longitude, w.coords[o[5]].latitude) for o in cur_obs]}'))
            steps_lit.append(f'({lit}, {blit(adv)}, {res_ids_lit(rid)}, {news_lit}, {hd_lit})')
            meta['steps'].append({'op': op, 'result': rid})
            if adv and r[0] == 'Ok':
                cur = r[1]
    dist_lit = '[]'
    if has_fij:
        ent = []
        for i, ci in enumerate(w.coords):
            for j, cj in enumerate(w.coords):
                ent.append(f'({i}, {j}, {qlit(Fraction(haversine_distance_meters(ci, cj)))})')
        dist_lit = listlit(ent)
    merge_lit = listlit([f'({listlit([zlit(p) for p in k])}, {zlit(v)})' for k, v in w.merge.items()])
    lit = f'K {listlit(raws)} {dist_lit} {merge_lit} {res_ids_lit(first)} {listlit(steps_lit)}'
    return lit, meta, fails, stats


# --------------------------------------------------------------------------- generators
STYLES = ['utc', 'utc', 'naive', 120, -330, 345]
POOL = [(0.0, 0.0), (0.001, 0.0), (0.002, 0.0), (0.5, 0.25), (1.0, 0.0), (1.0, 1.0), (-3.5, 40.0), (179.5, -10.0)]


def gen_items(rng, n, allow_nodt=False):
    unit = rng.choice([SEC, SEC, 60 * SEC, 3600 * SEC, 250_000, 1, 2 * SEC, 4 * SEC, 8 * SEC])
    nslots = rng.randint(1, max(1, min(n, 8)))
    slots = sorted(rng.sample(range(0, 30), nslots))
    npos = rng.randint(1, 4)
    pool = rng.sample(POOL, npos)
    uniform_style = rng.choice([None, None, 'utc'])
    items = []
    for _ in range(n):
        s = rng.choice(slots) * unit
        if rng.random() < 0.08:
            s += rng.choice([-1, 1])
        k = rng.random()
        if k < 0.5:
            e = s
        elif k < 0.75:
            e = s + rng.choice([1, 2, 3]) * unit
        else:
            s = slots[0] * unit if rng.random() < 0.6 else s      # long, early starting
            e = s + rng.choice([40, 100]) * unit + rng.choice([0, 0, 1])
        so = uniform_style or rng.choice(STYLES)
        eo = uniform_style or rng.choice(STYLES)
        if (so == 'naive') != (eo == 'naive'):      # TimeInterval(naive, aware) is a TypeError in Python itself
            eo = so
        kind = 'pt'
        u = rng.random()
        if s == e and u < 0.3:
            kind, eo = 'inst', so
        elif u > 0.9:
            kind = 'box'
        if allow_nodt and rng.random() < 0.15:
            kind = 'nodt'
        items.append({'st': s, 'en': e, 'so': so, 'eo': eo, 'pos': list(rng.choice(pool)), 'kind': kind})
    return items


def events(items):
    return sorted({it[k] for it in items for k in ('st', 'en')})


def bounds_around(items):
    ev = events(items)
    out = {None}
    for e in ev:
        out.update((e - 1, e, e + 1))
    m = max(it['en'] for it in items)
    out.update((m + SEC - 1, m + SEC, m + SEC + 1))
    return sorted(out, key=lambda x: (x is not None, x))


def speed_limits(rng, items, k):
    """limits at / just below / just above pairwise float speeds, plus 0 and far values"""
    sp = set()
    for a, b in itertools.combinations(items, 2):
        dt_us = abs(b['st'] - a['st'])
        if dt_us == 0:
            continue
        dx = haversine_distance_meters(Coordinate(*a['pos']), Coordinate(*b['pos']))
        sp.add(0 if dx == 0 else dx / (dt_us / 10 ** 6))
    sp = sorted(sp)
    if len(sp) > k:
        sp = rng.sample(sp, k)
    out = [0.0, 1e12]
    for s in sp:
        out += [s, math.nextafter(s, math.inf), math.nextafter(s, -math.inf) if s > 0 else -1.0, s * 0.5, s * 2 + 1]
    return out


def random_op(rng, items, nid):
    ev = events(items)
    r = rng.random()
    sty = rng.choice(['utc', 'naive', 120])

    def bound():
        if rng.random() < 0.25:
            return None
        return rng.choice(ev) + rng.choice([-1, 0, 0, 1, SEC])
    if r < 0.25:
        return ['slice', bound(), bound(), sty, 1]
    if r < 0.40:
        v = rng.choice(speed_limits(rng, items, 3))
        return ['fij', v, 1]
    if r < 0.55:
        return ['conv', 1]
    if r < 0.70:
        extra = gen_items(rng, rng.randint(1, 4))
        # land some of the added shapes on existing timestamps
        for it in extra:
            if rng.random() < 0.5:
                src = rng.choice(items)
                it.update(st=src['st'], en=src['en'])
                if it['kind'] == 'inst' and it['st'] != it['en']:
                    it['kind'] = 'pt'
        return ['add', extra, 1]
    if r < 0.78:
        return ['fdt', rng.choice(ev), sty, 1]
    if r < 0.88:
        a, b = sorted((rng.choice(ev) + rng.choice([0, 0, 1]), rng.choice(ev) + rng.choice([0, 0, -1, SEC])))
        return ['fiv', a, b, sty, 1]
    if r < 0.97:
        s, e = sorted(((rng.choice(ev) + rng.choice([0, 1, -1])) % DAY, (rng.choice(ev) + rng.choice([0, 3600 * SEC])) % DAY))
        if rng.random() < 0.1:
            s, e = e, s
        return ['ftime', s, e, 1]
    return ['addother', 1]


# ---- G. routes across a meridian / over a pole ------------------------------------------
# Mechanism class: anything in the speed filter that measures a hop by differences of the bounded
# [-180, 180) / [-90, 90] coordinates instead of on the sphere (pre-rejections, bounding-box
# shortcuts, planar distances, a distance call fed unwrapped longitudes).  A vessel sails a route
# that crosses a chosen meridian (the +-180 one, the prime one, a seeded one) once or several times,
# east- or westbound, at latitudes from the equator to 88.5 degrees, or passes within metres to
# kilometres of a pole (longitudes jump by up to 180 degrees there); legs run at the nominal speed
# s0 or at 0.13 / 0.07 of it, sampling is irregular, some pings repeat a timestamp and some are
# displaced far off the route (outliers, possibly to the other side of the line).  Limits are
# s0 x {0.031, 0.29, 3.7, 41} and 0 / 1e12: well under and well over the leg speeds.
def wrap_lon(lon):
    return (lon + 180.0) % 360.0 - 180.0


ROUTE_LATS = [0.0, 5.0, -5.0, 30.0, -30.0, 52.0, -52.0, 66.0, -66.0, 78.0, -78.0, 84.0, -84.0, 88.5, -88.5]
ROUTE_FACTORS = [0.031, 0.29, 3.7, 41.0]


def gen_route(rng, n, where):
    """-> (items in chronological order, nominal speed s0)"""
    s0 = rng.choice([0.5, 8.0, 8.0, 30.0, 250.0, 900.0])
    unit = rng.choice([1, 10, 60, 600])
    pole = where in ('npole', 'spole')
    if pole:
        lat0 = 90.0
        while s0 * unit > 20_000:                      # stay within a few hundred km of the pole
            unit = max(1, unit // 10)
    else:
        lat0 = rng.choice(ROUTE_LATS) + rng.uniform(-0.4, 0.4)
        while s0 * unit > 0.1 * R_REF * math.cos(math.radians(lat0)) and unit > 1:
            unit = max(1, unit // 10)                  # a leg stays short against the parallel's radius
    step = s0 * unit
    mer = {'anti': 180.0, 'prime': 0.0}.get(where)
    if mer is None:
        mer = rng.uniform(-180.0, 180.0) if not pole or rng.random() < 0.5 else rng.choice([0.0, 90.0, 180.0, -90.0, 179.9])
    east = rng.choice([1, -1])
    kc = rng.randint(1, max(1, n - 1))                 # the line is crossed just before ping kc
    a = -east * step * (kc - rng.uniform(0.2, 0.8))    # metres east of the line (pole: along the pass)
    b = rng.choice([0.0, 3.0, -40.0, 700.0, -9000.0]) if pole else 0.0   # pole: lateral offset of the pass; else: metres north
    t = rng.randint(0, 1000) * SEC
    style = rng.choice([None, None, 'utc'])
    items = []
    for k in range(n):
        if k:
            dup = rng.random() < 0.08
            dt = 0 if dup else unit * rng.choice([1, 1, 1, 2, 5])
            m = rng.choice([1.0, 1.0, 1.0, 0.13, 0.07])
            if rng.random() < 0.12:
                east = -east                            # turns back: crosses the line again
            h = rng.uniform(-0.5, 0.5)
            leg = s0 * m * (dt if dt else unit * 0.01)
            a += east * leg * math.cos(h)
            if not pole:
                b += leg * math.sin(h)
            t += dt * SEC
        x, y = a, b
        if rng.random() < 0.14:                         # an outlier: recorded far off the route
            j = min(8.0e6, step * rng.choice([30, 100, 400]))
            g = rng.uniform(0, 2 * math.pi)
            x, y = a + j * math.cos(g), b + j * math.sin(g)
        if pole:
            colat = math.degrees(math.hypot(x, y) / R_REF)
            lat = (90.0 - colat) * (1 if where == 'npole' else -1)
            lon = wrap_lon(mer + math.degrees(math.atan2(y, x)))
        else:
            lat = max(-89.9, min(89.9, lat0 + math.degrees(y / R_REF)))
            lon = wrap_lon(mer + math.degrees(x / (R_REF * math.cos(math.radians(lat0)))))
        so = style or rng.choice(STYLES)
        u = rng.random()
        kind, en = ('inst', t) if u < 0.3 else ('pt', t) if u < 0.8 else ('pt', t + rng.choice([1, 2]) * unit * SEC)
        items.append({'st': t, 'en': en, 'so': so, 'eo': so, 'pos': [lon, lat], 'kind': kind})
    return items, s0


def route_spec(rng, n, where):
    items, s0 = gen_route(rng, n, where)
    lims = [s0 * f for f in ROUTE_FACTORS] + [0.0, 1e12, s0 * math.exp(rng.uniform(-4, 4))]
    ops = [['fij', v, 0] for v in lims]
    ev = events(items)
    # the filter applied to its own result and to a slice (the previously kept ping is then another one)
    ops += [['fij', s0 * 3.7, 1], ['fij', s0 * 0.29, 0], ['fij', s0 * 41.0, 0],
            ['slice', rng.choice(ev), rng.choice(ev) + 1, 'utc', 1], ['fij', s0 * 3.7, 0], ['fij', s0 * 0.031, 0]]
    if rng.random() < 0.3:
        rng.shuffle(items)                              # Track sorts; input order must not matter
    return {'items': items, 'ops': ops}


# ---- H. live-object histories (see LIVE_READS above) -----------------------------------------
def live_spec(rng):
    n = rng.choice([1, 2, 3, 3, 4, 5, 6, 8, 10])
    items = gen_items(rng, n)
    if rng.random() < 0.65:                 # no repeated timestamp to begin with: the flag starts out False
        unit = rng.choice([SEC, 60 * SEC, 3600 * SEC, 250_000])
        for it, sl in zip(items, rng.sample(range(0, 40), n)):
            d = it['en'] - it['st']
            it['st'], it['en'] = sl * unit, sl * unit + d
    pool = [dict(it) for it in items]

    def extras():
        ex = gen_items(rng, rng.randint(1, 3))
        mode = rng.choice(['land', 'land', 'self', 'apart', 'any'])
        for j, it in enumerate(ex):
            if mode == 'land' and rng.random() < 0.7 or mode == 'any' and rng.random() < 0.4:
                src = rng.choice(pool)                       # repeats a timestamp the track already has
                it.update(st=src['st'], en=src['en'])
            elif mode == 'self' and j:                       # the added shapes repeat a timestamp among themselves
                it.update(st=ex[0]['st'], en=ex[0]['en'])
            elif mode == 'apart':                            # brings no repeated timestamp
                t = (max(p_['en'] for p_ in pool) // SEC + 1 + rng.randint(0, 50) + 60 * j) * SEC
                it.update(st=t, en=t)
            if it['kind'] == 'inst' and it['st'] != it['en']:
                it['kind'] = 'pt'
        pool.extend(dict(it) for it in ex)
        return ex

    def query():
        ev = events(pool)
        u = rng.random()
        if u < 0.3:
            return ['conv', 0]
        if u < 0.5:
            return ['read', 'has_duplicate_timestamps', 0]
        if u < 0.65:
            b = lambda: None if rng.random() < 0.3 else rng.choice(ev) + rng.choice([-1, 0, 0, 1, SEC])     # noqa: E731
            return ['slice', b(), b(), rng.choice(['utc', 'naive', 120]), 0]
        if u < 0.8:
            return ['fij', rng.choice(speed_limits(rng, pool[-12:], 3)), 0]
        return ['read', rng.choice(LIVE_READS), 0]
    ops = []
    for _ in range(rng.randint(2, 6)):
        for _ in range(rng.choice([0, 1, 1, 2, 3])):
            ops.append(query())
        k = rng.choice(['iadd', 'iadd', 'iadd', 'iadd', 'add', 'add', 'sum', 'reduce', 'slice', 'conv'])
        rd = lambda: rng.sample(LIVE_READS, rng.choice([0, 0, 1, 2]))       # noqa: E731
        if k == 'iadd':
            ops.append(['iadd', extras(), [rd()], 1])
        elif k == 'add':
            ops.append(['add', extras(), 1])
        elif k in ('sum', 'reduce'):
            gs = [extras() for _ in range(rng.randint(2, 4))]
            ops.append([k, gs, [rd() for _ in gs], 1])
        elif k == 'slice':
            ev = events(pool)
            a, b = sorted((rng.choice(ev) + rng.choice([-1, 0, 0]), rng.choice(ev) + rng.choice([1, SEC, 2 * SEC])))
            ops.append(['slice', rng.choice([a, None]), rng.choice([b, b, None]), rng.choice(['utc', 'naive']), 1])
        else:
            ops.append(['conv', 1])
        for _ in range(rng.randint(1, 3)):
            ops.append(query())
    return {'items': items, 'ops': ops, 'live': True}


def main():
    ck = Check('C17')
    ck.build_theories(['theories/Props/C17.vo', 'theories/Corr/CollK.vo'])
    rep = gen_track.main(REPO, os.path.join(ck.rundir, 'TrackGen.v'))     # class Track regenerated from collections.py ...
    ck.gen('TrackGen.v', rep, 'TrackGenEq.v')                              # ... equals the model CollM.v for all arguments
    ck.props('Props/C17.v')
    rng = ck.rng
    quick = ck.tier == 'quick'
    specs = []

    # A. every input order of small multisets (construction only + one open slice)
    for n, reps in ((1, 2), (2, 6), (3, 12), (4, 12 if quick else 60), (5, 2 if quick else 12)):
        for _ in range(reps):
            items = gen_items(rng, n)
            seen = set()
            for perm in itertools.permutations(range(n)):
                pi = [items[i] for i in perm]
                key = json.dumps(pi, sort_keys=True)
                if key in seen:
                    continue
                seen.add(key)
                specs.append(('perm', {'items': pi, 'ops': [['slice', None, None, 'utc', 0]]}))
    # B. slice sweeps: every pair of bounds at / just before / just after every event, and None
    for _ in range(25 if quick else 300):
        items = gen_items(rng, rng.randint(1, 4))
        bs = bounds_around(items)
        pairs = [(a, b) for a in bs for b in bs]
        if len(pairs) > 400:
            pairs = rng.sample(pairs, 400) + [(None, None)] + [(None, b) for b in bs] + [(a, None) for a in bs]
        specs.append(('slice-sweep', {'items': items, 'ops': [['slice', a, b, rng.choice(['utc', 'naive', -330]), 0] for a, b in pairs]}))
    for _ in range(40 if quick else 600):
        items = gen_items(rng, rng.randint(5, 30))
        bs = bounds_around(items)
        pairs = [(rng.choice(bs), rng.choice(bs)) for _ in range(40)] + [(None, None)] + \
                [(None, rng.choice(bs)) for _ in range(5)] + [(rng.choice(bs), None) for _ in range(5)]
        specs.append(('slice-sweep', {'items': items, 'ops': [['slice', a, b, 'utc', 0] for a, b in pairs]}))
    # B2. time-filter sweeps: instants / intervals / time-of-day windows at and around every event
    for _ in range(40 if quick else 600):
        items = gen_items(rng, rng.randint(1, 6))
        ev = events(items)
        around = sorted({e + d for e in ev for d in (-1, 0, 1)})
        ops = [['fdt', t, rng.choice(['utc', 'naive', 120]), 0] for t in around]
        ivs = [(a, b) for a in around for b in around if a <= b]
        ops += [['fiv', a, b, rng.choice(['utc', 'naive', -330]), 0] for a, b in (ivs if len(ivs) <= 80 else rng.sample(ivs, 80))]
        tods = sorted({(it[k] + off_us(it[o]) + d) % DAY for it in items for k, o in (('st', 'so'), ('en', 'eo')) for d in (-1, 0, 1)})
        tp = [(a, b) for a in tods for b in tods]
        ops += [['ftime', a, b, 0] for a, b in (tp if len(tp) <= 80 else rng.sample(tp, 80))]
        specs.append(('time-filter-sweep', {'items': items, 'ops': ops}))
    # C. speed-limit sweeps
    for _ in range(120 if quick else 2500):
        items = gen_items(rng, rng.choice([2, 3, 4, 5, 6, 8, 12, 20, 30]))
        lim = speed_limits(rng, items, 6 if len(items) > 5 else 100)
        specs.append(('fij-sweep', {'items': items, 'ops': [['fij', v, 0] for v in lim]}))
    # D. chains of up to 6 operations
    for _ in range(500 if quick else 12000):
        n = rng.choice([1, 2, 3, 4, 5, 6, 8, 10, 15, 20, 30])
        items = gen_items(rng, n)
        ops = [random_op(rng, items, n) for _ in range(rng.randint(1, 6))]
        specs.append(('chain', {'items': items, 'ops': ops}))
    # E. refusal of shapes without time bounds; empty tracks
    for _ in range(40 if quick else 400):
        items = gen_items(rng, rng.randint(1, 8), allow_nodt=True)
        specs.append(('nodt', {'items': items, 'ops': [['conv', 1]]}))
    # every small list with one untimed shape at every position (a single untimed shape included: the
    # refusal must not depend on there being something to sort) and all-untimed lists
    for n in (1, 2, 3):
        base = gen_items(rng, n)
        for pos in range(n):
            items = [dict(it, kind='nodt') if j == pos else dict(it) for j, it in enumerate(base)]
            specs.append(('nodt', {'items': items, 'ops': [['conv', 1]]}))
        specs.append(('nodt', {'items': [dict(it, kind='nodt') for it in base], 'ops': [['conv', 1]]}))
    # G. routes across the +-180 / prime / a seeded meridian and over the poles (see gen_route)
    for where, reps in (('anti', 70), ('prime', 25), ('mer', 15), ('npole', 25), ('spole', 20)):
        for _ in range(reps if quick else reps * 10):
            n = rng.choice([2, 3, 4, 5, 6, 8, 10, 12, 14]) if rng.random() < 0.9 else rng.choice([18, 24])
            specs.append(('route:' + where, route_spec(rng, n, where)))
    # H. live-object histories: one name through reads, `+`, `+=`, sum(), reduce, slices, with queries in between
    for _ in range(350 if quick else 6000):
        specs.append(('live', live_spec(rng)))
    # fixed: every observation read, then a ping repeating the middle timestamp arrives by every spelling, then every observation again
    mins = [{'st': k * 60 * SEC, 'en': k * 60 * SEC, 'so': 'utc', 'eo': 'utc', 'pos': list(POOL[k]), 'kind': 'pt'} for k in range(3)]
    late = [dict(mins[1], pos=list(POOL[4]))]
    new_ = [{'st': 9 * 60 * SEC, 'en': 9 * 60 * SEC, 'so': 'utc', 'eo': 'utc', 'pos': list(POOL[5]), 'kind': 'pt'}]
    every = [['read', nm, 0] for nm in sorted(set(LIVE_READS))] + [['conv', 0], ['slice', None, None, 'utc', 0], ['fij', 1e12, 0]]
    for der in (['iadd', late, [[]], 1], ['add', late, 1], ['sum', [new_, late], [[], []], 1], ['reduce', [late, new_], [['has_duplicate_timestamps'], []], 1]):
        specs.append(('live-fixed', {'items': mins, 'ops': every + [der] + every + [['iadd', new_, [[]], 1]] + every +
                                     [['slice', 60 * SEC, None, 'utc', 1]] + every, 'live': True}))
    # F. fixed regression corpus: D18 (open slice must keep a long shape that starts early and
    #    ends after the last-starting shape), duplicate timestamps with distinct ends, exact tie
    HOUR = 3600 * SEC
    p0, p1 = [0.0, 0.0], [0.001, 0.0]
    d18 = [{'st': 0, 'en': 100 * HOUR, 'so': 'utc', 'eo': 'utc', 'pos': p0, 'kind': 'pt'},
           {'st': HOUR, 'en': HOUR, 'so': 'utc', 'eo': 'utc', 'pos': p1, 'kind': 'pt'},
           {'st': HOUR, 'en': 2 * HOUR, 'so': 'utc', 'eo': 'utc', 'pos': p1, 'kind': 'pt'},
           {'st': HOUR, 'en': HOUR, 'so': 120, 'eo': 120, 'pos': p0, 'kind': 'inst'}]
    tie = haversine_distance_meters(Coordinate(*p0), Coordinate(*p1)) / 3600.0
    for perm in itertools.permutations(range(4)):
        specs.append(('fixed', {'items': [d18[i] for i in perm],
                                'ops': [['slice', 0, None, 'utc', 0], ['slice', None, None, 'utc', 0],
                                        ['slice', HOUR, None, 'naive', 0], ['slice', None, 100 * HOUR, 'utc', 0],
                                        ['slice', None, 100 * HOUR + 1, 'utc', 0], ['conv', 0],
                                        ['fij', tie, 0], ['fij', math.nextafter(tie, 0), 0], ['fij', 0.0, 0],
                                        ['conv', 1], ['fij', tie, 1], ['slice', 1, None, 'utc', 1]]}))
    # D30 regression: Track([p@5us])[10us:20us][:] and the other open slices of an emptied track
    one = [{'st': 5, 'en': 5, 'so': 'utc', 'eo': 'utc', 'pos': p0, 'kind': 'pt'}]
    specs.append(('fixed', {'items': one, 'ops': [['slice', 10, 20, 'utc', 1], ['slice', None, None, 'utc', 0],
                                                 ['slice', None, 7, 'utc', 0], ['slice', 3, None, 'naive', 0],
                                                 ['slice', None, None, 'utc', 1], ['conv', 1], ['fij', 1.0, 0],
                                                 ['add', one, 1], ['slice', None, None, 'utc', 1]]}))
    specs.append(('empty', {'items': [], 'ops': [['slice', None, None, 'utc', 0], ['slice', 5, None, 'utc', 0],
                                                 ['slice', None, 5, 'utc', 0], ['slice', 0, 5, 'utc', 0],
                                                 ['fij', 1.0, 0], ['conv', 0], ['fdt', 0, 'utc', 0],
                                                 ['add', gen_items(rng, 3), 1], ['fij', 5.0, 1]]}))

    cases, meta, failing = [], [], {}
    near = steps = ties = merged = live_reads = 0
    ref = {'judged': 0, 'skipped': 0, 'dropped': 0, 'anti': 0, 'prime': 0, 'pole': 0}
    distinct = set()
    for cls, spec in specs:
        lit, m, fails, stats = run_case(spec)
        m['class'] = cls
        cases.append(lit)
        meta.append(m)
        if fails:
            failing[len(cases) - 1] = fails
        near += stats['near_ties']
        ties += stats['exact_ties']
        merged += stats['merged']
        steps += stats['steps']
        ref['judged'] += stats['ref_judged']
        ref['skipped'] += stats['ref_skipped']
        ref['dropped'] += stats['ref_dropped']
        live_reads += stats['live_reads']
        for k in ('anti', 'prime', 'pole'):
            ref[k] += stats['ref_hops'][k]
        ck.count(cls)
        for c in stats['classes']:
            ck.count('op:' + c)
        # non-trivial: the track has two shapes sharing a start or a timestamp, or a shape that
        # ends after a later-starting one starts, and at least one operation result drops a shape
        its = spec['items']
        sts = [i['st'] for i in its]
        if len(set(sts)) < len(sts) or any(a['en'] > b['st'] > a['st'] for a in its for b in its):
            if any(s['op'][0] != 'read' and s['result'][0] == 'Ok' and len(s['result'][1]) < len(its) for s in m['steps']):
                distinct.add(json.dumps(spec, sort_keys=True))
    ck.cov['evaluations'] = len(cases) + steps
    ck.cov['tracks'] = len(cases)
    ck.cov['operation_results_compared'] = steps
    ck.cov['distinct_nontrivial'] = len(distinct)
    ck.cov['near_ties_excluded'] = near
    ck.cov['exact_speed_ties_examined'] = ties
    ck.cov['pings_created_by_convolve'] = merged
    ck.cov['observations_on_a_live_track_compared_with_a_fresh_one'] = live_reads
    ck.cov['speed_filters_judged_by_the_independent_reference'] = ref['judged']
    ck.cov['speed_filters_not_judged_by_it_(a_hop_within_1pct_of_the_limit)'] = ref['skipped']
    ck.cov['shapes_it_dropped'] = ref['dropped']
    ck.cov['kept_hops_across_the_antimeridian'] = ref['anti']
    ck.cov['kept_hops_across_the_prime_meridian'] = ref['prime']
    ck.cov['kept_hops_within_1deg_of_a_pole'] = ref['pole']
    for i in (0, len(cases) // 3, len(cases) - 50):
        ck.sample(cases[max(0, min(i, len(cases) - 1))][:1500])

    bad, broken = ck.corr('track', 'From Coq Require Import QArith.\nFrom GV Require Import Prelude CollM CollK.\nOpen Scope Z_scope.',
                          'check', cases, chunk=120)
    reported = 0
    for i in sorted(set(bad) | set(failing)):
        if reported >= 5:
            break
        m = meta[i]
        rep = {'kind': 'property-fails-on-implementation' if i in failing else 'model-vs-implementation',
               'case': m, 'gallina_case': cases[i][:20000],
               'theorems': 'C17_* (Props/C17.v): the model value on this input is the one the theorems pin to the property',
               'how_to_replay': 'bin/check C17 --replay <this file>'}
        if i in failing:
            rep['property_clauses_violated'] = [list(f) for f in failing[i][:10]]
        ck.violation(rep)
        reported += 1

    ck.finish(rule='seeded multisets of 1..30 time-bounded shapes (instants, short and long early-starting intervals, '
                   'duplicate starts/timestamps, mixed time zones, points and boxes) in every input order for <= 5 items '
                   '(random order beyond); slice sweeps over every bound at/1us before/1us after every event, max(end)+1s '
                   'and None; speed limits at/one ulp below/one ulp above pairwise speeds (cases where the float decision '
                   'differs from the exact one on an examined pair are excluded and counted in near_ties_excluded); chains '
                   'of <= 6 add/slice/filter/convolve/speed-filter operations; shapes without dt; empty tracks. '
                   'live-object histories: ONE name through 2-6 derivations in every spelling (`t + o`, `t += o` with the rebinding followed, '
                   'sum(others, t), reduce(add, [t, ..]), `t = t[a:b]`, convolve) whose added shapes repeat a timestamp of the track / among '
                   'themselves / not at all, with cached and uncached observations read on the object (and on the other operands) before and '
                   'after each one - every read compared with the same observation on a Track freshly built from the same shapes - and '
                   'convolve / slice / speed-filter queries in between. '
                   'routes of 2..24 pings crossing the +-180 / prime / a seeded meridian (both directions, latitudes 0..88.5, turning '
                   'back, irregular sampling, repeated timestamps, far outliers) or passing a pole at 0 m..9 km, with limits well under '
                   'and well over the leg speeds, filtered directly, after a first filter and after a slice; EVERY speed-filter result '
                   '(all families) is also compared with a greedy reference that measures each hop itself on the unit sphere, skipping '
                   'results where an examined hop is within 1% of the limit. '
                   'evaluations = tracks constructed + operation results compared. non-trivial = the input has shapes sharing '
                   'a start, or one that overlaps a later start, and some operation drops a shape (distinct specs counted)',
              assumptions=['datetime -> integer microseconds UTC (+ utcoffset for .time()) is a faithful abstraction of Python datetime comparison/subtraction/equality/hash',
                           'the distance function is the table of values haversine_distance_meters itself returned on the case\'s centroids (Section variable dist in the theorems)',
                           'speed comparison is modelled in exact rationals; float rounding of dx/dt is outside the model (near-ties excluded and counted)',
                           'the independent reference uses a sphere of radius 6 371 000 m (the documented EARTH_RADIUS) and never decides a hop whose speed is within 1% of the limit',
                           'NaN speeds, datetime overflow and non-slice indices are not modelled'])


def replay(path):
    r = json.load(open(path))
    m = r.get('case')
    if not m or 'spec' not in m:
        print(json.dumps(r, indent=1))
        return
    lit, m2, fails, stats = run_case(m['spec'])
    print('implementation now: first =', m2['first'])
    for s in m2['steps']:
        print('  ', s['op'][:4], '->', s['result'])
    print('property clauses violated now:', fails)
    print('gallina case:', lit[:5000])


if __name__ == '__main__':
    if '--replay' in sys.argv:
        replay(sys.argv[sys.argv.index('--replay') + 1])
    else:
        main()
