#!/usr/bin/env python3
"""C16 - queries are pure; observations stay coherent under in-place updates.
See DESIGN.md section 5 / C16.  Model: coq/theories/Model/StateM.v, checker Corr/StateK.v.

A history = a shape of some kind (with 0-2 holes, a dt, properties) and <= 8 operations.  After every
operation the harness records (a) the abstract state the model predicts (dt, _properties in order,
hole count, which caches are filled, what was returned) -> compared with the model inside Coq;
(b) the property itself, on the implementation: reads leave the public state alone and repeat,
inplace=False leaves the receiver alone, arguments are not modified, and every observation of the
receiver (and of a returned shape) is bit-identical to that of a freshly constructed object with
the same geometry, dt and properties."""
import copy as _copy
import json
import os
import sys
from datetime import datetime, timedelta, timezone

sys.path.insert(0, os.path.dirname(os.path.abspath(__file__)))
from lib import Check, REPO, zlit, blit, listlit   # noqa: E402
import gen_state                                    # noqa: E402  (tools/: translator tie for the mutators / getters)

import logging                                      # noqa: E402
logging.disable(logging.CRITICAL)
from geostructures import (GeoPolygon, GeoBox, GeoCircle, GeoEllipse, GeoRing, GeoLineString,   # noqa: E402
                           GeoPoint, Coordinate)
from geostructures.multistructures import MultiGeoPoint, MultiGeoLineString, MultiGeoPolygon     # noqa: E402
from geostructures.time import TimeInterval                                                      # noqa: E402
from geostructures.collections import FeatureCollection                                          # noqa: E402
import pickle                                                                                    # noqa: E402

EPOCH = datetime(2020, 1, 1, tzinfo=timezone.utc)
US = timedelta(microseconds=1)
H = 3_600_000_000
KINDS = ['KPolygon', 'KBox', 'KCircle', 'KEllipse', 'KRing', 'KWedge', 'KLine', 'KPoint', 'KMPoint', 'KMLine', 'KMPoly']
READS = ['RBounds', 'RCentroid', 'RArea', 'RVolume', 'RProps', 'RGeoJson', 'RWkt', 'RShapely', 'RDt', 'RHoles']


def C(x, y):
    return Coordinate(x, y)


def mk_holes(n):
    hs = [GeoPolygon([C(2, 2), C(3, 2), C(3, 3), C(2, 3), C(2, 2)]), GeoBox(C(6, 7), C(7, 6))]
    return hs[:n]


def mk_dt(d):
    if d is None:
        return None
    return TimeInterval(EPOCH + d[0] * US, EPOCH + d[1] * US)


def of_dt(t):
    return None if t is None else ((t.start - EPOCH) // US, (t.end - EPOCH) // US)


def construct(kind, nholes, d, props, raw_props=None):
    """a freshly constructed shape of the kind with the given dt and properties (the fixed geometry per kind);
    raw_props: the properties dict itself (family V: values of any type), handed to the constructor as it is"""
    kw = {'dt': mk_dt(d), 'properties': {f'k{k}': v for k, v in props} if raw_props is None else raw_props}
    hs = mk_holes(nholes) or None
    if kind == 'KPolygon':
        return GeoPolygon([C(0, 0), C(10, 0), C(10, 10), C(0, 10), C(0, 0)], holes=hs, **kw)
    if kind == 'KBox':
        return GeoBox(C(0, 10), C(10, 0), holes=hs, **kw)
    if kind == 'KCircle':
        return GeoCircle(C(5, 5), 600000, holes=hs, **kw)
    if kind == 'KEllipse':
        return GeoEllipse(C(5, 5), 700000, 400000, 30, holes=hs, **kw)
    if kind == 'KRing':
        return GeoRing(C(5, 5), 100000, 700000, holes=hs, **kw)
    if kind == 'KWedge':
        return GeoRing(C(5, 5), 100000, 700000, 20, 110, holes=hs, **kw)
    if kind == 'KLine':
        return GeoLineString([C(0, 0), C(4, 1), C(7, 5)], **kw)
    if kind == 'KPoint':
        return GeoPoint(C(3, 4), **kw)
    if kind == 'KMPoint':
        return MultiGeoPoint([GeoPoint(C(1, 1)), GeoPoint(C(4, 2))], **kw)
    if kind == 'KMLine':
        return MultiGeoLineString([GeoLineString([C(0, 0), C(1, 1)]), GeoLineString([C(3, 3), C(5, 4), C(6, 6)])], **kw)
    return MultiGeoPolygon([GeoPolygon([C(0, 0), C(2, 0), C(2, 2), C(0, 0)]), GeoBox(C(4, 6), C(6, 4))], **kw)


def has_holes(kind):
    return kind in KINDS[:6]


def call(fn):
    try:
        return ('Ok', fn())
    except ValueError as ex:
        return ('Err', 'ValueError', str(ex)[:60])
    except AttributeError as ex:
        return ('Err', 'OtherError', str(ex)[:60])
    except Exception as ex:   # noqa
        return ('Err', 'OtherError', repr(ex)[:80])


def canon(v):
    if isinstance(v, Coordinate):
        return ['coord', repr(v.to_float()), repr(v.z), repr(v.m)]
    if isinstance(v, float):
        return repr(v)
    if isinstance(v, (tuple, list)):
        return [canon(x) for x in v]
    if isinstance(v, dict):
        return {str(k): canon(x) for k, x in v.items()}
    if isinstance(v, (datetime, TimeInterval)):
        return repr(v)
    if hasattr(v, 'wkt'):
        return v.wkt
    return v if isinstance(v, (int, str, bool, type(None))) else repr(v)


READ_FN = {
    'RBounds': lambda s: s.bounds, 'RCentroid': lambda s: s.centroid, 'RArea': lambda s: s.area,
    'RVolume': lambda s: s.volume, 'RProps': lambda s: s.properties, 'RGeoJson': lambda s: s.to_geojson(),
    'RWkt': lambda s: s.to_wkt(), 'RShapely': lambda s: s.to_shapely(), 'RDt': lambda s: s.dt,
    'RHoles': lambda s: len(getattr(s, 'holes', [])),
}


def do_read_arg(s, o, arg):
    """a read called with its documented arguments; [arg] is the properties dict handed to to_geojson"""
    kw = {} if o[3] is None else {'k': o[3]}
    if o[1] == 'RGeoJsonArgs':
        x = call(lambda: s.to_geojson(properties=arg, **kw))
    elif o[1] == 'RWktK':
        x = call(lambda: s.to_wkt(**kw))
    elif o[1] == 'RCoordsK':
        x = call(lambda: s.bounding_coords(**kw))
    else:
        x = call(lambda: s.linear_rings(**kw))
    return (x[0], canon(x[1])) if x[0] == 'Ok' else x[:2]


ARGLESS = ['RProps', 'RGeoJson', 'RWkt', 'RDt', 'RHoles']     # reads that fill no cache


def with_others(s):
    """read-only operations that take another shape / a coordinate / go through a collection, run on a
    structural clone of s (pickle round trip: same dt, properties, holes, geometry, empty caches), so the
    receiver's caches - which the model tracks - are not disturbed.  Returns the clauses that fail."""
    fails = []
    c = pickle.loads(pickle.dumps(s))
    others = [GeoPoint(Coordinate(5, 5)), GeoPoint(Coordinate(5, 5), dt=EPOCH, properties={'o': 1}),
              GeoBox(Coordinate(4, 6), Coordinate(6, 4), dt=TimeInterval(EPOCH, EPOCH + timedelta(hours=1))),
              GeoLineString([Coordinate(-1, -1), Coordinate(11, 11)], properties={'o': 2}),
              MultiGeoPoint([GeoPoint(Coordinate(5, 5)), GeoPoint(Coordinate(50, 50))])]
    base = {r: do_read(c, r) for r in ARGLESS}
    st_c = public_state(c)
    for j, other in enumerate(others):
        st_o = public_state(other)
        for nm, f in (('contains', lambda: c.contains(other)), ('intersects', lambda: c.intersects(other)),
                      ('contains_shape', lambda: c.contains_shape(other)), ('intersects_shape', lambda: c.intersects_shape(other)),
                      ('other.intersects', lambda: other.intersects(c))):
            r1, r2 = call(f), call(f)
            if r1[:2] != r2[:2]:
                fails.append(('read_repeat', f'{nm}(other {j}) answered {r1[:2]} then {r2[:2]}'))
            if public_state(c) != st_c:
                fails.append(('read_pure', f'{nm}(other {j}) changed the public state of the receiver'))
                st_c = public_state(c)
            if public_state(other) != st_o:
                fails.append(('args_untouched', f'{nm}(other {j}) changed the public state of its argument'))
                st_o = public_state(other)
    call(lambda: c.contains(Coordinate(5, 5)))
    call(lambda: c.contains_coordinate(Coordinate(0, 0)))
    for extra in ({'extra': 1}, {}, {'k0': 'x', 'datetime_start': 'mine'}):
        arg, arg0 = dict(extra), dict(extra)
        o = others[1]
        st_o = public_state(o)
        r1 = call(lambda: FeatureCollection([c, o]).to_geojson(properties=arg, k=6))
        r2 = call(lambda: FeatureCollection([c, o]).to_geojson(properties=arg))
        if r1[0] != 'Ok' or r2[0] != 'Ok':
            fails.append(('collection', f'FeatureCollection.to_geojson(properties={extra}) raised {r1[1:]}{r2[1:]}'))
        if arg != arg0:
            fails.append(('args_untouched', f'FeatureCollection.to_geojson changed the dict passed as properties: {arg0} -> {arg}'))
        if public_state(o) != st_o:
            fails.append(('read_pure', f'FeatureCollection.to_geojson(properties={extra}) changed another member shape'))
        if public_state(c) != st_c:
            fails.append(('read_pure', f'FeatureCollection.to_geojson(properties={extra}) changed the public state of the shape'))
            st_c = public_state(c)
    after = {r: do_read(c, r) for r in ARGLESS}
    for r in ARGLESS:
        if after[r] != base[r]:
            fails.append(('read_repeat', f'{r} answered {str(base[r])[:80]} before and {str(after[r])[:80]} after read-only calls with arguments'))
    return fails


# ---- V. properties whose VALUES are containers -------------------------------------------------
# Mechanism class: a read-only operation (format conversion, export through a collection, copy / pickle, derived
# shapes, predicates, cached geometry) that works on the shape's OWN property values instead of on values of its own -
# in-place normalisation / sanitising / rounding / sorting of nested lists and dicts, a shallow copy handed to a helper
# that mutates below the top level, default-filling of nested dicts, caching a converted tree back into the shape.  The
# histories above only hold integers as property values, where a shallow copy protects everything; here the values are
# trees (lists, dicts, tuples, nested up to 3 deep) with datetimes (aware / naive), ints, floats, bools, strings and
# None at the leaves.  The property tree is described by a JSON spec and BUILT INDEPENDENTLY three times: one tree is
# handed to the shape, one is the reference the library never sees, one goes to the fresh twin.  After every
# operation of the catalogue the shape's _properties and .properties must be deep-equal AND type-equal to the reference
# (a datetime stays a datetime, a tuple a tuple, key order kept), the same for dicts passed as arguments and for the
# other members of an exporting collection; value-returning reads repeat; at the end properties / to_geojson / wkt of
# the shape equal those of the twin.
def gen_tree(rng, depth, want_dt):
    """a value spec: ['dt', us, tz-minutes|None] ['int', v] ['float', v] ['str', v] ['bool', v] ['none'] ['list', [..]]
    ['tuple', [..]] ['dict', [[key, spec], ..]]"""
    def leaf():
        u = rng.random()
        if u < (0.45 if want_dt else 0.0):
            return ['dt', rng.randint(-10**6, 10**7) * 1_000_000 + rng.choice([0, 0, 250_000]), rng.choice([0, 0, 120, -330, None])]
        return rng.choice([['int', rng.randint(-5, 99)], ['float', rng.choice([0.5, -1.25, 3.0, 1e-3])], ['str', rng.choice(['a', 'site-7', '', '2021-03-04T05:06:07+00:00'])],
                           ['bool', rng.random() < 0.5], ['none']])
    if depth <= 0 or rng.random() < 0.25:
        return leaf()
    n = rng.choice([0, 1, 2, 2, 3])
    k = rng.choice(['list', 'list', 'dict', 'dict', 'tuple'])
    kids = [gen_tree(rng, depth - 1, want_dt) for _ in range(n)]
    if k == 'dict':
        return ['dict', [[rng.choice(['created', 'tags', 'when', 'x', 'y']) + str(i), c] for i, c in enumerate(kids)]]
    return [k, kids]


def build_tree(t):
    k = t[0]
    if k == 'dt':
        d = EPOCH + t[1] * US
        return d.replace(tzinfo=None) if t[2] is None else d.astimezone(timezone(timedelta(minutes=t[2])))
    if k == 'none':
        return None
    if k == 'list':
        return [build_tree(c) for c in t[1]]
    if k == 'tuple':
        return tuple(build_tree(c) for c in t[1])
    if k == 'dict':
        return {key: build_tree(c) for key, c in t[1]}
    return t[1]


def tree_has_nested_dt(t, depth=0):
    if t[0] == 'dt':
        return depth > 0
    if t[0] in ('list', 'tuple'):
        return any(tree_has_nested_dt(c, depth + 1) for c in t[1])
    if t[0] == 'dict':
        return any(tree_has_nested_dt(c, depth + 1) for _, c in t[1])
    return False


def build_props(spec):
    return {key: build_tree(t) for key, t in spec}


def deep_diff(got, want, path='properties'):
    """None when got is deep-equal and type-equal to want (dict key order included), else the first difference"""
    if type(got) is not type(want):
        return f'{path}: {type(want).__name__} {want!r:.80} became {type(got).__name__} {got!r:.80}'
    if isinstance(want, dict):
        if list(got) != list(want):
            return f'{path}: keys {list(want)} became {list(got)}'
        for k in want:
            d = deep_diff(got[k], want[k], f'{path}[{k!r}]')
            if d:
                return d
        return None
    if isinstance(want, (list, tuple)):
        if len(got) != len(want):
            return f'{path}: length {len(want)} became {len(got)}'
        for i, (a, b) in enumerate(zip(got, want)):
            d = deep_diff(a, b, f'{path}[{i}]')
            if d:
                return d
        return None
    if isinstance(want, datetime):
        return None if (got == want and got.utcoffset() == want.utcoffset()) else f'{path}: {want!r} became {got!r}'
    return None if repr(got) == repr(want) else f'{path}: {want!r} became {got!r}'


V_OPS = ['properties', 'to_geojson', 'to_geojson(k)', 'to_geojson(include_bbox)', 'to_geojson(properties=arg)', '__geo_interface__',
         'to_geo_interface', 'to_wkt', 'to_shapely', 'bounds', 'centroid', 'area', 'volume', 'hash/repr/eq', 'copy', 'copy().to_geojson',
         'pickle', 'pickle.to_geojson', 'to_polygon', 'to_polygon().to_geojson', 'circumscribing.to_geojson', 'bounding_coords/linear_rings',
         'predicates', 'set_property(inplace=False).to_geojson', 'set_dt(inplace=False).to_geojson', 'strip_dt(inplace=False).to_geojson',
         'buffer_dt(inplace=False).to_geojson', 'collection.to_geojson', 'collection.to_geojson(properties=arg)', 'track.to_geojson',
         'collection.copy().to_geojson', 'collection.filter_by_property']


def run_container_case(kind, nholes, d0, pspec, ops, ospec, aspec):
    """family V on the implementation: -> list of (op index, clause, detail)"""
    from geostructures.collections import Track
    s = construct(kind, nholes, d0, [], raw_props=build_props(pspec))
    ref = build_props(pspec)                                   # never handed to the library
    other = GeoPoint(Coordinate(5, 5), dt=EPOCH, properties=build_props(ospec))
    oref = build_props(ospec)
    fails = []

    def want_public(sh, r):
        w = dict(r)
        if sh.dt is not None:
            w.update({'datetime_start': sh.dt.start, 'datetime_end': sh.dt.end})
        return w

    for i, op in enumerate(ops):
        arg, aref = build_props(aspec), build_props(aspec)
        dt_before, wkt_before = repr(s.dt), s.to_wkt()
        g = lambda sh: sh.to_geojson()                          # noqa: E731
        fns = {
            'properties': lambda: s.properties, 'to_geojson': lambda: s.to_geojson(), 'to_geojson(k)': lambda: s.to_geojson(k=8),
            'to_geojson(include_bbox)': lambda: s.to_geojson(include_bbox=True),
            'to_geojson(properties=arg)': lambda: s.to_geojson(properties=arg),
            '__geo_interface__': lambda: s.__geo_interface__, 'to_geo_interface': lambda: s.to_geo_interface(),
            'to_wkt': lambda: s.to_wkt(), 'to_shapely': lambda: s.to_shapely().wkt, 'bounds': lambda: s.bounds,
            'centroid': lambda: s.centroid, 'area': lambda: s.area, 'volume': lambda: s.volume,
            'hash/repr/eq': lambda: (hash(s), repr(s), s == s.copy()),
            'copy': lambda: s.copy().properties, 'copy().to_geojson': lambda: g(s.copy()),
            'pickle': lambda: pickle.loads(pickle.dumps(s)).properties, 'pickle.to_geojson': lambda: g(pickle.loads(pickle.dumps(s))),
            'to_polygon': lambda: s.to_polygon().properties, 'to_polygon().to_geojson': lambda: g(s.to_polygon()),
            'circumscribing.to_geojson': lambda: (g(s.circumscribing_circle()), g(s.circumscribing_rectangle())),
            'bounding_coords/linear_rings': lambda: (s.bounding_coords(), s.linear_rings()),
            'predicates': lambda: (s.contains(other), s.intersects(other), other.intersects(s), s.contains_coordinate(Coordinate(5, 5))),
            'set_property(inplace=False).to_geojson': lambda: g(s.set_property('zz', [EPOCH], inplace=False)),
            'set_dt(inplace=False).to_geojson': lambda: g(s.set_dt(TimeInterval(EPOCH, EPOCH + timedelta(hours=2)), inplace=False)),
            'strip_dt(inplace=False).to_geojson': lambda: g(s.strip_dt(inplace=False)),
            'buffer_dt(inplace=False).to_geojson': lambda: g(s.buffer_dt(timedelta(hours=1), inplace=False)),
            'collection.to_geojson': lambda: FeatureCollection([other, s]).to_geojson(),
            'collection.to_geojson(properties=arg)': lambda: FeatureCollection([s, other]).to_geojson(properties=arg, k=6),
            'track.to_geojson': lambda: Track([other, s]).to_geojson(),
            'collection.copy().to_geojson': lambda: FeatureCollection([s, other]).copy().to_geojson(),
            'collection.filter_by_property': lambda: len(FeatureCollection([s]).filter_by_property(pspec[0][0], lambda v: bool(v))) if pspec else 0,
        }
        r1 = call(fns[op])
        c1 = (r1[0], canon(r1[1])) if r1[0] == 'Ok' else r1[:2]
        checks = [('read_pure', f'{op}: the shape\'s ', s._properties, ref),
                  ('read_pure', f'{op}: what the shape\'s .properties returns: ', call(lambda: s.properties)[1], want_public(s, ref)),
                  ('args_untouched', f'{op}: the other shape\'s ', other._properties, oref),
                  ('args_untouched', f'{op}: the dict passed as properties= : ', arg, aref)]
        for clause, what, got, want in checks:
            d = deep_diff(got, want)
            if d:
                fails.append((i, clause, what + d))
        if repr(s.dt) != dt_before or s.to_wkt() != wkt_before:
            fails.append((i, 'read_pure', f'{op} changed the time bounds / geometry of the shape'))
        arg2 = build_props(aspec)
        arg = arg2                                              # the lambdas read `arg` when called: a pristine dict again
        r2 = call(fns[op])
        c2 = (r2[0], canon(r2[1])) if r2[0] == 'Ok' else r2[:2]
        if c1 != c2:
            fails.append((i, 'read_repeat', f'{op}: {str(c1)[:120]} then {str(c2)[:120]}'))
        if fails:
            break
    if not fails:
        fresh = construct(kind, nholes, of_dt(s.dt), [], raw_props=build_props(pspec))
        for r in ('RProps', 'RGeoJson', 'RWkt', 'RDt'):
            a, b = do_read(s, r), do_read(fresh, r)
            if a != b:
                fails.append((len(ops) - 1, 'obs_as_fresh', f'{r} after {ops}: receiver {str(a)[:160]} vs fresh twin {str(b)[:160]}'))
    return fails


def gen_container_case(rng, kind):
    nh = rng.choice([0, 0, 1]) if has_holes(kind) else 0
    a = rng.randint(-2, 3)
    d0 = rng.choice([None, [a * H, a * H], [a * H, (a + rng.randint(1, 3)) * H]])
    want_dt = rng.random() < 0.85
    keys = rng.sample(['name', 'visits', 'meta', 'first_seen', 'score', 'log'], rng.randint(1, 4))
    pspec = [[k, gen_tree(rng, rng.choice([0, 1, 2, 3]), want_dt)] for k in keys]
    ospec = [[k, gen_tree(rng, 2, True)] for k in rng.sample(['o', 'visits', 'seen'], rng.randint(0, 2))]
    aspec = [[k, gen_tree(rng, 2, True)] for k in rng.sample(['extra', 'visits', 'meta', 'datetime_start'], rng.randint(0, 2))]
    ops = rng.sample(V_OPS, rng.randint(2, 5))
    return {'k': 'container-props', 'kind': kind, 'nholes': nh, 'dt0': d0, 'props_spec': pspec, 'other_props_spec': ospec,
            'arg_props_spec': aspec, 'ops': ops}


def do_read(s, r):
    x = call(lambda: READ_FN[r](s))
    return (x[0], canon(x[1])) if x[0] == 'Ok' else x[:2]


def observe_all(s):
    """every observation, WITHOUT disturbing the caches of s: taken on a pickle-free clone? No - the
    observations themselves are reads, and reads are part of the property; they are taken on s."""
    return {r: do_read(s, r) for r in READS}


def public_state(s):
    return json.dumps([repr(s.dt), list(s._properties.items()), [id(h) for h in getattr(s, 'holes', [])],
                       [repr(h.dt) for h in getattr(s, 'holes', [])], s.to_wkt()], default=str)


def cache_flags(s):
    d = s.__dict__
    return ('bounds' in d, 'centroid' in d, 'area' in d, s.to_shapely.cache_info().currsize > 0)


def gen_ops(rng, n):
    ops = []
    for _ in range(n):
        t = rng.random()
        ip = rng.random() < .6
        if t < .30:
            ops.append(['Read', rng.choice(READS)])
        elif t < .42:
            k = rng.choice([None, 5, 12])
            r = rng.choice(['RGeoJsonArgs', 'RGeoJsonArgs', 'RWktK', 'RCoordsK', 'RRingsK'])
            if r == 'RGeoJsonArgs':
                extra = [[key, rng.randint(10, 19)] for key in rng.sample(range(5), rng.choice([0, 1, 2]))]
                ops.append(['ReadArg', r, extra, k])
            else:
                ops.append(['ReadArg', r, [], k or 7])
        elif t < .5:
            ops.append(['ToPolygon'] if rng.random() < .5 else ['ToPolygon', rng.choice([5, 12])])
        elif t < .64:
            a = rng.randint(-3, 6)
            d = rng.choice([None, [a * H, a * H], [a * H, (a + rng.randint(1, 4)) * H]])
            ops.append(['SetDt', d, ip, rng.random() < .3])          # last: pass a bare datetime for an instant
        elif t < .78:
            ops.append(['BufferDt', rng.choice([H, 2 * H, -H, -2 * H, 0, 30_000_000, -5 * H]), ip])
        elif t < .86:
            ops.append(['StripDt', ip])
        else:
            ops.append(['SetProp', rng.randint(0, 3), rng.randint(0, 9), ip])
    return ops


def oplit(o):
    if o[0] == 'Read':
        return f'(Read {o[1]})'
    if o[0] == 'ToPolygon':
        return 'ToPolygon'
    if o[0] == 'ReadArg':
        if o[1] == 'RGeoJsonArgs':
            return '(Read (RGeoJsonArgs ' + listlit([f'({k}, {v})' for k, v in o[2]]) + '))'
        return f'(Read {o[1]})'
    if o[0] == 'SetDt':
        return f'(SetDt {dlit(o[1])} {blit(o[2])})'
    if o[0] == 'BufferDt':
        return f'(BufferDt {zlit(o[1])} {blit(o[2])})'
    if o[0] == 'StripDt':
        return f'(StripDt {blit(o[1])})'
    return f'(SetProp {o[1]} {o[2]} {blit(o[3])})'


def dlit(d):
    return 'None' if d is None else f'(Some ({zlit(d[0])}, {zlit(d[1])}))'


def plit(items):
    return listlit([f'({int(k[1:])}, {zlit(v)})' for k, v in items])


def run_history(kind, nholes, d0, p0, ops, obs_at=None):
    """runs the history on the implementation; returns (trace for the model, list of property failures)"""
    s = construct(kind, nholes, d0, p0)
    fails, trace = [], []
    for i, o in enumerate(ops):
        before = public_state(s)
        arg, arg_before = None, None
        if o[0] == 'Read':
            r1 = do_read(s, o[1])
            mid = public_state(s)
            r2 = do_read(s, o[1])
            res = ('Ok', None) if r1[0] == 'Ok' else r1
            if r1 != r2:
                fails.append((i, 'read_repeat', f'{o[1]}: {str(r1)[:80]} then {str(r2)[:80]}'))
            if mid != before or public_state(s) != before:
                fails.append((i, 'read_pure', f'{o[1]} changed the public state of the receiver'))
            ret = None
        elif o[0] == 'ReadArg':
            base = {r: do_read(s, r) for r in ARGLESS}
            arg = {f'k{k}': v for k, v in o[2]}
            arg0 = dict(arg)
            r1 = do_read_arg(s, o, arg)
            mid = public_state(s)
            r2 = do_read_arg(s, o, arg)
            res = ('Ok', None) if r1[0] == 'Ok' else r1
            if r1 != r2:
                fails.append((i, 'read_repeat', f'{o[1]} with arguments: {str(r1)[:80]} then {str(r2)[:80]}'))
            if mid != before or public_state(s) != before:
                fails.append((i, 'read_pure', f'{o[1]} called with arguments {arg0}, k={o[3]} changed the public state of the receiver'))
            if arg != arg0:
                fails.append((i, 'args_untouched', f'{o[1]} changed the dict passed as properties: {arg0} -> {arg}'))
            for r in ARGLESS:
                again = do_read(s, r)
                if again != base[r]:
                    fails.append((i, 'read_repeat', f'{r} answered {str(base[r])[:80]} before and {str(again)[:80]} after {o[1]} with arguments'))
            fr = construct(kind, nholes, of_dt(s.dt), [(int(k[1:]), v) for k, v in s._properties.items() if k[1:].isdigit()])
            rf = do_read_arg(fr, o, dict(arg0))
            if rf != r1:
                fails.append((i, 'obs_as_fresh', f'{o[1]} with arguments: receiver {str(r1)[:90]} vs fresh {str(rf)[:90]}'))
            ret = None
        else:
            if o[0] == 'ToPolygon':
                res = call(lambda: s.to_polygon(**({'k': o[1]} if len(o) > 1 else {})))
            elif o[0] == 'SetDt':
                d = o[1]
                arg = mk_dt(d)
                if d is not None and d[0] == d[1] and o[3]:
                    arg = EPOCH + d[0] * US
                arg_before = repr(arg)
                res = call(lambda: s.set_dt(arg, inplace=o[2]))
            elif o[0] == 'BufferDt':
                arg = timedelta(microseconds=o[1])
                arg_before = repr(arg)
                res = call(lambda: s.buffer_dt(arg, inplace=o[2]))
            elif o[0] == 'StripDt':
                res = call(lambda: s.strip_dt(inplace=o[1]))
            else:
                res = call(lambda: s.set_property(f'k{o[1]}', o[2], inplace=o[3]))
            if arg is not None and repr(arg) != arg_before:
                fails.append((i, 'args_untouched', f'{o[0]} modified its argument'))
            ret = res[1] if res[0] == 'Ok' else None
            pure = o[0] == 'ToPolygon' or res[0] != 'Ok' or (o[-1] is False if o[0] != 'SetDt' else o[2] is False)
            if pure and public_state(s) != before:
                fails.append((i, 'not_inplace_untouched' if o[0] != 'ToPolygon' else 'read_pure',
                              f'{o[0]} changed the public state of the receiver'))
        flags = cache_flags(s)
        dt_now, props_now = of_dt(s.dt), list(s._properties.items())
        nh = len(getattr(s, 'holes', []))
        seen_ret = 'None'
        if ret is not None:
            seen_ret = (f'(Some ({blit(ret is s)}, {dlit(of_dt(ret.dt))}, {plit(list(ret._properties.items()))}, '
                        f'{len(getattr(ret, "holes", []))}))')
        err = 'None' if res[0] == 'Ok' else f'(Some {res[1]})'
        observe = i == len(ops) - 1 or obs_at is None or obs_at[i]
        trace.append(f'(mkseen {err} {dlit(dt_now)} {plit(props_now)} {nh} {blit(flags[0])} {blit(flags[1])} '
                     f'{blit(flags[2])} {blit(flags[3])} {seen_ret} {blit(observe)})')
        if not observe:
            continue
        # the property's right-hand side: a freshly constructed object with the same geometry, dt, properties
        fresh = construct(kind, nholes, dt_now, [(int(k[1:]), v) for k, v in props_now])
        if list(fresh._properties.items()) != props_now:
            fresh._properties = dict(props_now)
        if i == len(ops) - 1 or i % 3 == 0:
            for f in with_others(s):
                fails.append((i,) + f)
        # `properties` by its definition (a fresh object runs the same code, so a consistent slip in the getter is
        # invisible to the differential): the user properties plus the two time keys, as they are now
        want_p = dict(s._properties)
        if s.dt is not None:
            want_p.update({'datetime_start': s.dt.start, 'datetime_end': s.dt.end})
        got_p = call(lambda: s.properties)
        if got_p[0] != 'Ok' or got_p[1] != want_p or list(got_p[1]) != list(want_p):
            fails.append((i, 'obs_as_fresh', f'properties after {o}: {str(got_p[1:])[:120]} but _properties + time bounds give {str(want_p)[:120]}'))
        of, os_ = observe_all(fresh), observe_all(s)
        for r in READS:
            if of[r] != os_[r]:
                fails.append((i, 'obs_as_fresh', f'{r} after {o}: receiver {str(os_[r])[:90]} vs fresh {str(of[r])[:90]}'))
        if ret is not None and ret is not s:
            if o[0] == 'ToPolygon':
                fr = call(lambda: fresh.to_polygon(**({'k': o[1]} if len(o) > 1 else {})))
                fresh_ret = fr[1] if fr[0] == 'Ok' else None
            else:
                fresh_ret = construct(kind, nholes, of_dt(ret.dt), [(int(k[1:]), v) for k, v in ret._properties.items()])
            if fresh_ret is not None:
                a, b = observe_all(ret), observe_all(fresh_ret)
                for r in READS:
                    if a[r] != b[r]:
                        fails.append((i, 'returned_as_fresh', f'{r} of the object returned by {o}: {str(a[r])[:90]} vs {str(b[r])[:90]}'))
            # the returned object is a separate shape: updating it in place must not show through the receiver
            if ret._properties is s._properties:
                # (not exercised by mutation: the stray key would then pollute the rest of the history)
                fails.append((i, 'returned_object_aliases_receiver',
                              f'the object returned by {o} shares the receiver\'s _properties dict: set_property on it changes the receiver'))
            else:
                st0 = public_state(s)
                ret.set_property('zz', 1)
                if ret.dt is not None:
                    guarded_call(lambda: ret.buffer_dt(timedelta(hours=1)))      # widens the RETURNED object's time bounds only
                ret.set_dt(TimeInterval(EPOCH + timedelta(days=30), EPOCH + timedelta(days=31)))
                if public_state(s) != st0:
                    fails.append((i, 'returned_object_aliases_receiver',
                                  f'in-place updates of the object returned by {o} changed the receiver'))
    # shapes DERIVED from the receiver by read-only operations are separate shapes too: widening their time bounds in
    # place (buffer_dt) must not show through the receiver (the library hands `dt=self.dt` to them)
    if s.dt is not None:
        for nm, fn in (('to_polygon', lambda: s.to_polygon()), ('circumscribing_circle', lambda: s.circumscribing_circle()),
                       ('circumscribing_rectangle', lambda: s.circumscribing_rectangle())):
            d = call(fn)
            if d[0] != 'Ok' or d[1] is s or d[1].dt is None:
                continue
            st0 = public_state(s)
            guarded_call(lambda: d[1].buffer_dt(timedelta(hours=2)))
            if public_state(s) != st0:
                fails.append((len(ops) - 1, 'returned_object_aliases_receiver',
                              f'buffer_dt on the shape returned by {nm}() changed the receiver\'s time bounds'))
                break
    return trace, fails


def guarded_call(fn):
    try:
        return fn()
    except Exception:   # noqa
        return None


def shrink(kind, nholes, d0, p0, ops):
    """greedy removal of operations while the property still fails on the implementation"""
    cur = list(ops)
    changed = True
    while changed and len(cur) > 1:
        changed = False
        for i in range(len(cur)):
            cand = cur[:i] + cur[i + 1:]
            try:
                if run_history(kind, nholes, d0, p0, cand)[1]:
                    cur, changed = cand, True
                    break
            except Exception:   # noqa
                pass
    return cur


# fixed regression histories (repaired defects D17): must be reported as violations if they return
CORPUS = [
    ('KRing', 0, None, [], [['ToPolygon'], ['Read', 'RHoles'], ['ToPolygon'], ['Read', 'RHoles'], ['Read', 'RWkt']]),
    ('KRing', 1, None, [], [['ToPolygon'], ['ToPolygon'], ['Read', 'RHoles'], ['Read', 'RGeoJson']]),
    ('KWedge', 2, None, [], [['Read', 'RCentroid'], ['ToPolygon'], ['Read', 'RHoles']]),
    ('KCircle', 0, [0, 2 * H], [], [['Read', 'RVolume'], ['BufferDt', H, True], ['Read', 'RVolume']]),
    ('KBox', 1, [0, H], [[1, 2]], [['Read', 'RVolume'], ['SetDt', [0, 5 * H], True, False], ['Read', 'RVolume'], ['StripDt', True], ['Read', 'RVolume']]),
    ('KPolygon', 1, [0, H], [], [['Read', 'RVolume'], ['SetDt', None, True, False], ['Read', 'RVolume'], ['SetDt', [H, H], True, True], ['Read', 'RVolume']]),
    ('KPolygon', 0, None, [[0, 1]], [['BufferDt', H, True], ['BufferDt', H, False], ['Read', 'RProps']]),
    ('KEllipse', 0, [0, 2 * H], [], [['BufferDt', -2 * H, True], ['BufferDt', -H, True], ['BufferDt', -H, False], ['Read', 'RDt']]),
    ('KMPoly', 0, [0, H], [], [['Read', 'RVolume'], ['BufferDt', H, True], ['Read', 'RVolume'], ['Read', 'RArea']]),
    ('KLine', 0, [0, H], [[2, 3]], [['ToPolygon'], ['SetProp', 2, 4, True], ['Read', 'RGeoJson'], ['Read', 'RArea']]),
    # to_geojson(properties=...) on a shape WITHOUT dt must not write the caller's keys into the shape
    ('KPolygon', 0, None, [], [['ReadArg', 'RGeoJsonArgs', [[4, 1]], None], ['Read', 'RProps'], ['SetDt', [0, H], True, False], ['Read', 'RGeoJson']]),
    ('KPoint', 0, None, [[0, 1]], [['ReadArg', 'RGeoJsonArgs', [[0, 7], [4, 1]], 5], ['Read', 'RProps'], ['ReadArg', 'RGeoJsonArgs', [], None], ['Read', 'RGeoJson']]),
    ('KCircle', 1, [0, H], [[1, 1]], [['ReadArg', 'RGeoJsonArgs', [[1, 9]], 12], ['ReadArg', 'RWktK', [], 5], ['ReadArg', 'RCoordsK', [], 5], ['ReadArg', 'RRingsK', [], 5], ['ToPolygon', 5], ['Read', 'RProps']]),
    ('KMLine', 0, None, [], [['ReadArg', 'RGeoJsonArgs', [[2, 3]], None], ['ReadArg', 'RCoordsK', [], 5], ['Read', 'RProps']]),
    # D32: the polygon returned by GeoRing.to_polygon() shared the ring's _properties dict
    ('KRing', 1, None, [[1, 2]], [['ToPolygon'], ['Read', 'RProps']]),
    ('KWedge', 0, [0, H], [[0, 4], [2, 7]], [['ToPolygon'], ['Read', 'RGeoJson'], ['ToPolygon']]),
]


def main():
    ck = Check('C16')
    ck.build_theories(['theories/Props/C16.vo', 'theories/Corr/StateK.vo'])
    rep = gen_state.main(REPO, os.path.join(ck.rundir, 'StateGen.v'))     # mutators, getters, copy() regenerated from /repo ...
    ck.gen('StateGen.v', rep, 'StateGenEq.v')                              # ... equal StateM.step / read / copy for all arguments
    ck.props('Props/C16.v')
    rng = ck.rng
    thorough = ck.tier == 'thorough'
    cases, meta = [], []
    hist = [(k, n, d, [tuple(x) for x in p], ops) for k, n, d, p, ops in CORPUS]
    nrand = 140 if not thorough else 1200
    for kind in KINDS:
        for _ in range(nrand):
            nh = rng.choice([0, 0, 1, 2]) if has_holes(kind) else 0
            a = rng.randint(-2, 3)
            d0 = rng.choice([None, [a * H, a * H], [a * H, (a + rng.randint(1, 3)) * H]])
            p0 = [(k, rng.randint(0, 9)) for k in rng.sample(range(4), rng.choice([0, 0, 1, 2]))]
            hist.append((kind, nh, d0, p0, gen_ops(rng, rng.randint(1, 8))))
    distinct = set()
    nfail = 0
    for kind, nh, d0, p0, ops in hist:
        m = {'k': 'history', 'kind': kind, 'nholes': nh, 'dt0': d0, 'props0': [list(x) for x in p0], 'ops': ops}
        try:
            obs_at = [rng.random() < .5 for _ in ops]
            m['observe_at'] = obs_at
            trace, fails = run_history(kind, nh, d0, p0, ops, obs_at)
        except Exception as ex:   # noqa: an operation the property promises to work raised something unexpected
            ck.violation({'kind': 'implementation-raises', 'case': m, 'exception': repr(ex)})
            continue
        if fails and nfail < 5:
            small = shrink(kind, nh, d0, p0, ops)
            m['shrunk_ops'] = small
            m['property_clauses_violated'] = [list(f) for f in run_history(kind, nh, d0, p0, small)[1]][:6] or [list(f) for f in fails][:6]
            nfail += 1
        elif fails:
            m['property_clauses_violated'] = [list(f) for f in fails][:6]
        lit = (f'KHist {kind} {nh} {dlit(d0)} {listlit([f"({k}, {v})" for k, v in p0])} '
               f'{listlit([oplit(o) for o in ops])} {listlit(trace)}')
        cases.append(lit)
        meta.append(m)
        ck.count(kind)
        if any(o[0] not in ('Read', 'ReadArg', 'ToPolygon') for o in ops) and any(o[0] in ('Read', 'ReadArg') for o in ops):
            distinct.add(json.dumps([kind, nh, d0, p0, ops]))
    ck.cov['evaluations'] = sum(len(m['ops']) for m in meta)
    ck.cov['histories'] = len(cases)
    ck.cov['distinct_nontrivial'] = len(distinct)
    for i in (0, 3, 40, len(cases) - 1):
        ck.sample(cases[min(i, len(cases) - 1)][:700])
    bad, broken = ck.corr('state', 'From GV Require Import Prelude StateM StateK.', 'check', cases, chunk=150)
    bad = set(bad)
    for i, m in enumerate(meta):
        if 'property_clauses_violated' in m:
            bad.add(i)
    for i in sorted(bad)[:5]:
        m = meta[i]
        ck.violation({'kind': 'property-fails-on-implementation' if 'property_clauses_violated' in m else 'model-vs-implementation',
                      'case': m, 'gallina_case': cases[i][:4000],
                      'theorems': 'C16_* (Props/C16.v)', 'how_to_replay': 'bin/check C16 --replay <this file>'})
    # V. container-valued properties (see run_container_case): implementation side only
    v_n = v_nested = v_ops = v_reported = 0
    for kind in KINDS:
        for _ in range(30 if not thorough else 240):
            m = gen_container_case(rng, kind)
            try:
                vf = run_container_case(kind, m['nholes'], m['dt0'], m['props_spec'], m['ops'], m['other_props_spec'], m['arg_props_spec'])
            except Exception as ex:   # noqa
                ck.violation({'kind': 'implementation-raises', 'case': m, 'exception': repr(ex)})
                continue
            v_n += 1
            v_ops += len(m['ops'])
            v_nested += any(tree_has_nested_dt(t) for _, t in m['props_spec'])
            ck.count('container-props:' + kind)
            if vf and v_reported < 5:
                v_reported += 1
                m['properties_as_built'] = repr(build_props(m['props_spec']))[:600]
                m['property_clauses_violated'] = [list(f) for f in vf][:6]
                ck.violation({'kind': 'property-fails-on-implementation', 'case': m, 'theorems': 'C16_read_pure / C16_args_untouched / C16_obs_as_fresh',
                              'how_to_replay': 'bin/check C16 --replay <this file>'})
    ck.cov['container_property_cases'] = v_n
    ck.cov['container_property_cases_with_a_datetime_below_the_top_level'] = v_nested
    ck.cov['container_property_operations'] = v_ops
    # membership of a coordinate does not depend on which cached values the shape happens to hold: wedges whose outer arc
    # passes through a cardinal direction between two drawn vertices (the arc bulges out of the box of the drawn polygon),
    # probed just inside the arc at that direction, before and after `bounds` / the rectangle / a bbox export were read
    from geostructures.calc import inverse_haversine_degrees as _dest
    sliver_n = 0
    for (a0, a1, card) in ((40, 135, 90), (-33, 40, 0), (100, 275, 180), (100, 275, 270), (10, 80, 45)):
        for lat0 in (0.0, 40.0, -60.0):
            mkw = lambda: GeoRing(Coordinate(12.0, lat0), 500.0, 20000.0, a0, a1)      # noqa: E731
            w = mkw()
            probes = [_dest(Coordinate(12.0, lat0), card, 20000.0 * f) for f in (0.9996, 0.9999, 0.99)]
            before = [w.contains_coordinate(q) for q in probes]
            guarded_call(lambda: (w.bounds, w.circumscribing_rectangle(), w.to_geojson(include_bbox=True), w.centroid, w.area))
            after = [w.contains_coordinate(q) for q in probes]
            fresh = [mkw().contains_coordinate(q) for q in probes]
            sliver_n += len(probes)
            if not (before == after == fresh):
                ck.violation({'kind': 'property-fails-on-implementation',
                              'case': {'wedge': [a0, a1], 'centre': [12.0, lat0], 'probe_bearing': card,
                                       'contains_before_reads': before, 'after_reads': after, 'fresh_object': fresh},
                              'detail': 'contains_coordinate changes after bounds / circumscribing_rectangle / bbox export were read on the same wedge',
                              'theorems': 'C16_read_pure / C16_read_repeat'})
                break
    ck.cov['cached_bounds_membership_probes'] = sliver_n
    # VI. shapes DERIVED from the receiver (to_polygon, circumscribing_circle, circumscribing_rectangle, a hull of a multi-shape,
    # copy) carry the receiver's time bounds and properties AS THEY ARE NOW: every derivation is asked once (which may leave a
    # remembered result behind), the receiver is updated in place, and the derivations are asked again and compared - time
    # bounds, user properties, the `properties` view - with those of a freshly constructed twin in the new state.
    # (Geometry of the derived shape is not compared: the enclosing-circle search is randomised.)
    DERIVE = [('to_polygon', lambda x: x.to_polygon()), ('circumscribing_circle', lambda x: x.circumscribing_circle()),
              ('circumscribing_rectangle', lambda x: x.circumscribing_rectangle()), ('convex_hull', lambda x: x.convex_hull()),
              ('copy', lambda x: x.copy())]

    def dview(r):
        if r[0] != 'Ok':
            return r[:2]
        d = r[1]
        return ('Ok', type(d).__name__, of_dt(d.dt), canon(dict(d._properties)), canon(d.properties))
    der_n, der_bad = 0, []
    for kind in KINDS:
        for rep_ in range(4 if not thorough else 30):
            nh = rng.choice([0, 1]) if has_holes(kind) else 0
            a = rng.randint(-2, 3)
            d0 = rng.choice([[a * H, a * H], [a * H, (a + 2) * H]])
            p0 = [(k, rng.randint(0, 9)) for k in rng.sample(range(4), rng.choice([0, 1, 2]))]
            for upd in ('strip_dt', 'set_dt_none', 'set_dt', 'buffer_dt', 'set_property'):
                x = construct(kind, nh, d0, p0)
                for _nm, f in DERIVE:
                    call(lambda: f(x))
                if upd == 'strip_dt':
                    x.strip_dt()
                elif upd == 'set_dt_none':
                    x.set_dt(None)
                elif upd == 'set_dt':
                    x.set_dt(mk_dt([(a + 5) * H, (a + 6) * H]))
                elif upd == 'buffer_dt':
                    x.buffer_dt(timedelta(hours=1))
                else:
                    x.set_property('k9', 99)
                fresh = construct(kind, nh, of_dt(x.dt), [(int(k[1:]), v) for k, v in x._properties.items()])
                for nm, f in DERIVE:
                    der_n += 1
                    got, want = dview(call(lambda: f(x))), dview(call(lambda: f(fresh)))
                    if got != want:
                        der_bad.append({'kind': kind, 'nholes': nh, 'dt0': d0, 'props0': p0, 'history': [n_ for n_, _ in DERIVE] + [upd, nm],
                                        'derived_after_update': str(got)[:300], 'derived_from_fresh_twin': str(want)[:300]})
    for b in der_bad[:3]:
        ck.violation({'kind': 'property-fails-on-implementation', 'case': b,
                      'detail': 'a shape derived from the updated receiver differs (time bounds / properties) from the one derived from a freshly constructed twin',
                      'theorems': 'C16_obs_as_fresh'})
    ck.cov['derived_after_update_checks'] = der_n
    ck.finish(rule='histories: per shape kind (11 kinds, 0-2 holes, dt None/instant/interval, 0-2 properties) seeded sequences of 1-8 '
                   'operations drawn from 10 reads, to_polygon, set_dt / buffer_dt / strip_dt / set_property in both inplace modes '
                   '(buffers include negative ones that invert the interval, buffer_dt without dt); after EVERY operation: model '
                   'comparison of dt, ordered properties, hole count, cache flags, returned object; implementation-side checks of '
                   'purity, repeatability, argument integrity and bit-identical agreement of all 10 observations with a freshly '
                   'constructed object (receiver and returned shape); fixed D17 regression histories; then (family V, implementation side) '
                   'shapes of every kind whose property VALUES are trees (lists / dicts / tuples nested up to 3 deep, datetimes aware and naive, '
                   'numbers, strings, None), 2-5 operations of a 32-entry read-only catalogue (exports with and without caller properties, '
                   'collection / Track export, geo interface, wkt, shapely, cached geometry, copy / pickle / derived shapes and THEIR export, '
                   'predicates, inplace=False updates), after each: _properties and .properties deep- and type-equal to an independently '
                   'built reference tree, argument dicts and other collection members likewise, repeatability, twin comparison. evaluations = operations; '
                   'non-trivial = distinct histories containing at least one update and one read',
              assumptions=['geometry is fixed per kind (it cannot change through the public API); geometry-valued observations are compared between '
                           'implementation objects of the same run, never against Coq',
                           'property values are integers, keys k0..k3 in the modelled histories (family V: arbitrary value trees, implementation side only)',
                           'caches of member shapes of a multi-shape and of hole objects are not modelled'])


def replay(path):
    r = json.load(open(path))
    m = r.get('case') or {}
    if m.get('k') == 'container-props':
        print('properties as built:', build_props(m['props_spec']))
        print('operations:', m['ops'])
        print('property clauses violated now:', run_container_case(m['kind'], m['nholes'], m['dt0'], m['props_spec'], m['ops'],
                                                                   m['other_props_spec'], m['arg_props_spec']))
        return
    if m.get('k') != 'history':
        print(json.dumps(r, indent=1))
        return
    ops = m.get('shrunk_ops') or m['ops']
    trace, fails = run_history(m['kind'], m['nholes'], m['dt0'], [tuple(x) for x in m['props0']], ops,
                               m.get('observe_at') if ops == m['ops'] else None)
    print('operations:', ops)
    print('property clauses violated now:', fails)
    print('trace:', *trace, sep='\n  ')


if __name__ == '__main__':
    if '--replay' in sys.argv:
        replay(sys.argv[sys.argv.index('--replay') + 1])
    else:
        main()
