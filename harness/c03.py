#!/usr/bin/env python3
"""C03 - Curved shapes follow their geodesic definition, analytically and as polygons.
See DESIGN.md section 5 / C03 and coq/theories/Props/C03.v.

Tie of the model (Model/CurveM.v over Model/SphereM.v) to /repo on every run:
  T  tools/gen_sphere.py regenerates CurveGen.v (contains_coordinate of GeoCircle/GeoEllipse/
     GeoRing incl. the hole loop, GeoEllipse._radius_at_angle) and SphereGen.v (the calculator);
     coq/geneq/CurveGenEq.v and SphereGenEq.v prove Gen.f = Model.f for all arguments.
     bounding_coords/_draw_bounds (loops appending to lists) abstain and are tied by K.
  K  per case Coq proves with `interval`: each sampled boundary coordinate returned by
     bounding_coords(k) is within 5.1e-8 deg of the model's generator at the scheduled index,
     and each sampled membership decision equals the model's (decisions within 2 cm of the
     boundary skipped and counted).
Oracle: the statement itself evaluated on the implementation with an independent geodesic
computation (unit vectors): boundary points on the curve within 2 cm, at the scheduled
bearings, in angular order, first = last; decisions at 0.5x..2x the boundary distance at
every bearing; holes removed; polygon form carries the same ring.
The chord-error clause (polygon form vs analytic test) is NOT proved; it is exercised on a
fixed corpus only (same verdict for every seed).
"""
import json
import math
import os
import re
import sys

sys.path.insert(0, os.path.dirname(os.path.abspath(__file__)))
from lib import Check, REPO, guarded   # noqa: E402
import gen_sphere                       # noqa: E402
import c07                              # noqa: E402  (literals, interval runner, geodesic reference)
from c07 import rlit, plit, epslit, canon, great_circle_ref, ref_bearing, cdiff, wrap_choice, hav_a_float, R_EARTH  # noqa: E402

from geostructures.structures import GeoCircle, GeoEllipse, GeoRing     # noqa: E402
from geostructures.coordinates import Coordinate                        # noqa: E402

K_HEADER = ('From GV Require Import Prelude SphereM SphereP1 SphereP2 SphereP3 SphereK CurveM CurveP CurveK.\n'
            'From Coq Require Import Reals Lra.\nFrom Interval Require Import Tactic.\nOpen Scope R_scope.\n')
KS = [None, 3, 4, 7, 36, 360]


def C(p):
    return Coordinate(p[0], p[1])


# ------------------------------------------------------------------ independent geodesy (unit vectors)
def direct(p, b_deg, d):
    f1, l1, t, r = math.radians(p[1]), math.radians(p[0]), math.radians(b_deg), d / R_EARTH
    n = (-math.sin(f1) * math.cos(l1), -math.sin(f1) * math.sin(l1), math.cos(f1))
    e = (-math.sin(l1), math.cos(l1), 0.0)
    u = (math.cos(f1) * math.cos(l1), math.cos(f1) * math.sin(l1), math.sin(f1))
    v = [math.cos(r) * u[i] + math.sin(r) * (math.cos(t) * n[i] + math.sin(t) * e[i]) for i in range(3)]
    return canon(math.degrees(math.atan2(v[1], v[0])), math.degrees(math.atan2(v[2], math.hypot(v[0], v[1]))))


def inv(p, q):
    """(distance m, bearing deg in [0,360)) of q seen from p, by the reference formulas"""
    d, x, y = great_circle_ref(p, q)
    return d, ref_bearing(x, y)


def radius_at(a, b, ang_deg):
    t = math.radians(ang_deg)
    return a * b / math.sqrt(a * a * math.sin(t) ** 2 + b * b * math.cos(t) ** 2)


# ------------------------------------------------------------------ shapes: description <-> implementation <-> Gallina
def build(sh, holes=()):
    c = C(sh['c'])
    hs = [build(h) for h in holes] or None
    if sh['t'] == 'circle':
        return GeoCircle(c, sh['r'], holes=hs)
    if sh['t'] == 'ellipse':
        return GeoEllipse(c, sh['a'], sh['b'], sh['rot'], holes=hs)
    return GeoRing(c, sh['rin'], sh['rout'], sh['amin'], sh['amax'], holes=hs)


def glit(sh):
    if sh['t'] == 'circle':
        return f'(mkcircle {plit(sh["c"])} {rlit(sh["r"])} [])'
    if sh['t'] == 'ellipse':
        return f'(mkellipse {plit(sh["c"])} {rlit(sh["a"])} {rlit(sh["b"])} {rlit(sh["rot"])} [])'
    return f'(mkring {plit(sh["c"])} {rlit(sh["rin"])} {rlit(sh["rout"])} {rlit(sh["amin"])} {rlit(sh["amax"])} [])'


def is_full(sh):
    return sh['t'] == 'ring' and sh['amin'] == 0 and sh['amax'] == 360


def default_k(sh):
    if sh['t'] == 'circle':
        return 36
    if sh['t'] == 'ellipse':
        return math.ceil(36 * sh['a'] / sh['b'])
    return max(math.ceil((sh['amax'] - sh['amin']) / 10), 10)


def schedule(sh, k, i):
    """(bearing deg, distance, angle-in-radians as the code computes it) of the point of index i"""
    if sh['t'] == 'circle':
        ang = math.pi * 2 / k * i
        return math.degrees(ang), sh['r'], ang
    if sh['t'] == 'ellipse':
        ang = (math.pi * 2 / k) * i
        return math.degrees(ang) + sh['rot'], radius_at(sh['a'], sh['b'], math.degrees(ang)), ang + math.radians(sh['rot'])
    a = sh['amin'] + (sh['amax'] - sh['amin']) / k * i
    return a, None, math.pi * a / 180


def boundary_rho(sh, beta):
    """analytic boundary distance(s) at bearing beta (deg): (inner, outer)"""
    if sh['t'] == 'circle':
        return 0.0, sh['r']
    if sh['t'] == 'ellipse':
        return 0.0, radius_at(sh['a'], sh['b'], beta - sh['rot'])
    return sh['rin'], sh['rout']


def expected_contains(sh, q, holes=()):
    """(decision, margin_ok) by the documented definition with the independent geodesy; margin_ok False
    when the point is within 2 cm (or the equivalent angle) of a boundary"""
    d, beta = inv(sh['c'], q)
    ok = True
    inside = True
    if sh['t'] == 'ring' and sh['amax'] - sh['amin'] < 360:
        ang_tol = math.degrees(0.02 / max(d, 1e-3)) + 2e-5
        # the documented angle range read modulo full turns (a range through north such as 350..370 or -10..10
        # included): independent of the code's expression - the bearing's offset from angle_min, reduced to [0, 360)
        width = sh['amax'] - sh['amin']
        off = math.fmod(math.fmod(beta - sh['amin'], 360.0) + 360.0, 360.0)
        if min(off, 360.0 - off, abs(off - width)) < ang_tol or beta < ang_tol or beta > 360 - ang_tol:
            ok = False
        inside = off <= width
    lo, hi = boundary_rho(sh, beta)
    slack = 0.02
    if sh['t'] == 'ellipse':
        # the code evaluates the radius at the bearing rounded to 1e-5 deg
        slack += abs(radius_at(sh['a'], sh['b'], beta - sh['rot'] + 1e-5) - hi) + 1e-9 * hi
    if abs(d - hi) < slack or (lo > 0 and abs(d - lo) < slack):
        ok = False
    inside = inside and lo <= d <= hi
    for h in holes:
        hin, hok = expected_contains(h, q)
        ok = ok and hok
        inside = inside and not hin
    return inside, ok


# ------------------------------------------------------------------ K lemma builders
def dest_goal_numbers(c, ang, d, out):
    """quadrant / turn count for the destination reduction; None if ill-conditioned"""
    f1, r = math.radians(c[1]), d / R_EARTH
    s2 = math.sin(f1) * math.cos(r) + math.cos(f1) * math.sin(r) * math.cos(ang)
    if abs(s2) > 1 - 1e-13:
        return None
    Y = math.sin(ang) * math.sin(r) * math.cos(f1)
    X = math.cos(r) - math.sin(f1) * s2
    h = math.hypot(X, Y)
    if h < 1e-9:
        return None
    if X > 1e-12 * h:
        qd = 'Qpos'
    elif X < -1e-12 * h and abs(Y) > 1e-12 * h:
        qd = 'Qnegnn' if Y >= 0 else 'Qnegneg'
    else:
        return None
    mlon = c[0] + math.degrees(math.atan2(Y, X))
    return qd, round((mlon - out[0]) / 360), 5.0e-8 + 1e-9 + 1e-13 / h


def k_boundary(name, sh, k, i, out, outer=True):
    """the boundary coordinate of index i (as returned, rounded) against the model generator"""
    b, d, ang = schedule(sh, k, i)
    if sh['t'] == 'ring':
        d = sh['rout'] if outer else sh['rin']
    nums = dest_goal_numbers(sh['c'], ang, d, out)
    if nums is None:
        return None, 'boundary-illconditioned'
    qd, z, eps = nums
    if sh['t'] == 'circle':
        fn, lem, tgt = 'K_circle_pt', 'K_circle_pt', f'circle_pt {glit(sh)} {k} {i}'
    elif sh['t'] == 'ellipse':
        lem, tgt = 'K_ellipse_pt', f'ellipse_pt {glit(sh)} {k} {i}'
    else:
        lem = f'K_ring_pt {"true" if outer else "false"}'
        tgt = f'{"ring_outer_pt" if outer else "ring_inner_pt"} {glit(sh)} {k} {i}'
    stmt = (f'Rabs (lon ({tgt}) - 360 * IZR ({z})%Z - {rlit(out[0])}) <= {epslit(eps)} /\\\n'
            f'  Rabs (lat ({tgt}) - {rlit(out[1])}) <= {epslit(eps)}')
    return (f'Lemma {name} : {stmt}.\n'
            f'Proof. apply ({lem} {glit(sh)} {k} {i} {k} {i} {qd} ({z})%Z); [c_inr | c_inr | c_ivl]. Qed.\n'), None


def bearing_encl(c, q):
    """(quadrant, wrap, B0) for K_bearing_encl, or None"""
    _, x, y = great_circle_ref(c, q)
    h = math.hypot(x, y)
    if h < 1e-7:
        return None
    t = math.degrees(math.atan2(x, y)) + 360
    w = 1 if t >= 360 else 0
    B0 = t - 360 * w
    if not 0.02 < B0 < 359.98:
        return None
    if y > 1e-9 * h:
        qd = 'Qpos'
    elif y < -1e-9 * h and abs(x) > 1e-9 * h:
        qd = 'Qnegnn' if x >= 0 else 'Qnegneg'
    else:
        return None
    return qd, w, float(f'{B0:.9f}')


def k_decision(name, sh, q, dec):
    """the membership decision returned by the implementation against the model (no holes)"""
    c = sh['c']
    w, l2w = wrap_choice(q[0], c[0]) if sh['t'] == 'circle' else wrap_choice(c[0], q[0])
    a = hav_a_float(c, q)
    if 1 - a < 1e-6:
        return None, 'decision-antipodal'
    b = 'true' if dec else 'false'
    if sh['t'] == 'circle':
        # the code calls haversine(coord, centre): K_circle_dec is stated for that order through hdist_sym
        w, _ = wrap_choice(c[0], q[0])
        return (f'Lemma {name} : circle_contains {glit(sh)} {plit(q)} = {b}.\n'
                f'Proof. apply (K_circle_dec {w}); [k_side | c_ivl | c_ivl]. Qed.\n'), None
    if sh['t'] == 'ring' and sh['amax'] - sh['amin'] >= 360:
        return (f'Lemma {name} : ring_contains {glit(sh)} {plit(q)} = {b}.\n'
                f'Proof. apply (K_ring_dec_full {w}); [lra | k_side | c_ivl | c_unf; try (left; interval with (i_prec 80)); '
                f'try (right; interval with (i_prec 80)); repeat split; interval with (i_prec 80)]. Qed.\n'), None
    enc = bearing_encl(c, q)
    if enc is None:
        return None, 'decision-bearing-illconditioned'
    qd, bw, B0 = enc
    encl = (f'  assert (HB : Rabs (bearing {plit(c)} {plit(q)} - {rlit(B0)}) <= / 10 ^ 5)\n'
            f'    by (apply (K_bearing_encl {qd} {bw}%Z); [c_ivl | c_ivl | c_ivl | split; lra]).\n')
    if sh['t'] == 'ellipse':
        d, beta = inv(c, q)
        rho = radius_at(sh['a'], sh['b'], beta - sh['rot'])
        slope = abs(radius_at(sh['a'], sh['b'], beta - sh['rot'] + 1e-3) - rho) / 1e-3      # m per degree
        if abs(d - rho) < 0.05 + 40 * slope * 2e-5:
            return None, 'decision-ellipse-margin-below-enclosure'
        return (f'Lemma {name} : ellipse_contains {glit(sh)} {plit(q)} = {b}.\nProof.\n{encl}'
                f'  apply (K_ellipse_dec {w} _ _ _ _ _ _ _ {rlit(B0)}); [exact HB | k_side | c_ivl | ].\n'
                f'  intros bb Hbb. c_unf. interval with (i_prec 80).\nQed.\n'), None
    width = sh['amax'] - sh['amin']
    turns = -math.floor((B0 - sh['amin']) / 360.0)          # v = B0 - amin + 360*turns lies in [0, 360)
    v = B0 - sh['amin'] + 360.0 * turns
    inang = 2e-5 <= v <= width - 2e-5
    outang = width + 2e-5 < v < 360 - 2e-5
    if not (inang or outang):
        return None, 'decision-at-wedge-edge'
    if inang:
        side = 'c_unf; try (left; interval with (i_prec 80)); try (right; interval with (i_prec 80)); repeat split; interval with (i_prec 80)'
    else:
        side = 'reflexivity'
    return (f'Lemma {name} : ring_contains {glit(sh)} {plit(q)} = {b}.\nProof.\n{encl}'
            f'  apply (K_wedge_dec {w} _ _ _ _ _ _ _ _ {rlit(B0)} ({turns})%Z {"true" if inang else "false"}); '
            f'[lra | exact HB | cbv beta iota zeta; split; interval | k_side | c_ivl | {side}].\nQed.\n'), None


def through_north(sh):
    """a wedge whose angle range reaches or passes north (angle_max >= 360 or angle_min < 0): the class of the
    repaired defect D36 (the bearing used to be compared with the raw range); generated on purpose below"""
    return sh['t'] == 'ring' and not is_full(sh) and (sh['amax'] >= 360 or sh['amin'] < 0)


# ------------------------------------------------------------------ generators
def gen_shapes(rng, n):
    out = [
        {'t': 'circle', 'c': (10.0, 45.0), 'r': 5000.0},
        {'t': 'circle', 'c': (179.95, -30.0), 'r': 20000.0},
        {'t': 'circle', 'c': (-179.99, 70.0), 'r': 100000.0},
        {'t': 'circle', 'c': (0.0, 0.0), 'r': 10.0},
        {'t': 'ellipse', 'c': (10.0, 45.0), 'a': 5000.0, 'b': 2000.0, 'rot': 30.0},
        {'t': 'ellipse', 'c': (-179.97, -60.0), 'a': 30000.0, 'b': 30000.0, 'rot': 0.0},
        {'t': 'ellipse', 'c': (100.0, 75.0), 'a': 90000.0, 'b': 9000.0, 'rot': 275.5},
        {'t': 'ring', 'c': (10.0, 45.0), 'rin': 1000.0, 'rout': 5000.0, 'amin': 0.0, 'amax': 360.0},
        {'t': 'ring', 'c': (179.9, 10.0), 'rin': 20000.0, 'rout': 60000.0, 'amin': 0.0, 'amax': 360.0},
        {'t': 'ring', 'c': (10.0, 45.0), 'rin': 1000.0, 'rout': 5000.0, 'amin': 30.0, 'amax': 120.0},
        {'t': 'ring', 'c': (-179.99, 38.7), 'rin': 500.0, 'rout': 984.0, 'amin': 200.0, 'amax': 340.0},
        {'t': 'ring', 'c': (50.0, -75.0), 'rin': 10.0, 'rout': 100000.0, 'amin': 0.0, 'amax': 90.0},
        # regression D36: angle ranges through north
        {'t': 'ring', 'c': (0.0, 0.0), 'rin': 100.0, 'rout': 1000.0, 'amin': 350.0, 'amax': 370.0},
        {'t': 'ring', 'c': (20.0, 30.0), 'rin': 500.0, 'rout': 9000.0, 'amin': -40.0, 'amax': 25.0},
        {'t': 'ring', 'c': (-120.0, -50.0), 'rin': 50.0, 'rout': 700.0, 'amin': 270.0, 'amax': 360.0},
        {'t': 'ring', 'c': (75.0, 10.0), 'rin': 2000.0, 'rout': 40000.0, 'amin': 200.0, 'amax': 520.0},
        # one full turn whose ends are not 0 / 360 (and more than a turn): every bearing is inside the range
        {'t': 'ring', 'c': (12.0, 40.0), 'rin': 300.0, 'rout': 2500.0, 'amin': -180.0, 'amax': 180.0},
        {'t': 'ring', 'c': (-60.0, -20.0), 'rin': 1000.0, 'rout': 30000.0, 'amin': 90.0, 'amax': 450.0},
        {'t': 'ring', 'c': (100.0, 5.0), 'rin': 50.0, 'rout': 900.0, 'amin': -90.0, 'amax': 300.0},
    ]
    while len(out) < n:
        c = (rng.uniform(-180, 180), rng.uniform(-75, 75))
        if rng.random() < 0.3:
            c = (rng.choice([1, -1]) * (180 - 10 ** rng.uniform(-3, -0.5)), c[1])
        c = canon(*c)
        r = 10 ** rng.uniform(1, 5)
        t = rng.choice(['circle', 'ellipse', 'ring', 'wedge'])
        if t == 'circle':
            out.append({'t': 'circle', 'c': c, 'r': r})
        elif t == 'ellipse':
            ratio = rng.choice([1.0, rng.uniform(1, 3), rng.uniform(3, 10)])
            out.append({'t': 'ellipse', 'c': c, 'a': r, 'b': r / ratio, 'rot': rng.choice([0.0, 90.0, rng.uniform(0, 360)])})
        elif t == 'ring':
            out.append({'t': 'ring', 'c': c, 'rin': r * rng.uniform(0.05, 0.95), 'rout': r, 'amin': 0.0, 'amax': 360.0})
        else:
            if rng.random() < 0.3:                      # through north: 300..400, -60..30, ...
                a0 = rng.choice([rng.uniform(200, 355), rng.uniform(-170, -5)])
                a1 = rng.uniform(max(a0 + 5, 5 if a0 < 0 else 365), a0 + 300)
            else:
                a0 = rng.uniform(0, 350)
                a1 = rng.uniform(a0 + 5, min(a0 + 300, 359.5))
            out.append({'t': 'ring', 'c': c, 'rin': r * rng.uniform(0.05, 0.95), 'rout': r, 'amin': a0, 'amax': a1})
    return out


# ------------------------------------------------------------------ oracle on one shape
def oracle_boundary(sh, kreq, pts, stats):
    """pts: list of (lon, lat) returned by bounding_coords(k=kreq)"""
    bad = []
    k = kreq or default_k(sh)
    wedge = sh['t'] == 'ring' and not is_full(sh)
    want = 2 * (k + 1) + 1 if wedge else k + 1
    if len(pts) != want:
        return [('pts_count', f'{len(pts)} points for k={k}, expected {want}')]
    if wedge:
        outer, inner_rev, closing = pts[:k + 1], pts[k + 1:2 * k + 2], pts[-1]
        if closing != outer[0]:
            bad.append(('ring_closed', f'closing point {closing!r} is not the first point {outer[0]!r}'))
        arcs = [(outer, sh['rout'], 'outer'), (inner_rev[::-1], sh['rin'], 'inner')]
    elif sh['t'] == 'ring':
        arcs = [(pts, sh['rout'], 'outer')]
    else:
        arcs = [(pts, None, 'curve')]
    for arc, rad, nm in arcs:
        prev_b, prev_tol = None, 0.0
        for j, pt in enumerate(arc):
            i = k - j
            b_sched, d_sched, _ = schedule(sh, k, i)
            d_want = rad if rad is not None else d_sched
            d, beta = inv(sh['c'], pt)
            if sh['t'] == 'ellipse':
                # the curve: distance = radius at (bearing - rotation), with the independent bearing
                d_curve = radius_at(sh['a'], sh['b'], beta - sh['rot'])
                if abs(d - d_curve) > 0.02 + abs(radius_at(sh['a'], sh['b'], beta - sh['rot'] + math.degrees(0.02 / d)) - d_curve):
                    bad.append(('pt_on_curve', f'{nm} point {j} {pt!r}: distance {d!r}, curve radius at its bearing {d_curve!r}'))
            if abs(d - d_want) > 0.02:
                bad.append(('pt_on_curve', f'{nm} point {j} {pt!r}: distance {d!r} from the centre, curve is at {d_want!r}'))
            tol_b = math.degrees(0.02 / d_want) + 1e-6
            if cdiff(beta, b_sched) > tol_b:
                bad.append(('pt_bearing', f'{nm} point {j} {pt!r}: bearing {beta!r}, scheduled {b_sched % 360!r}'))
            # angular order: bearings decrease along the list (by the schedule step), checked circularly
            if prev_b is not None:
                step = (prev_b - beta + 180) % 360 - 180          # signed, circular
                want_step = (schedule(sh, k, i + 1)[0] - b_sched) % 360
                # strict order is demanded only where the schedule step exceeds what 2 cm (and the 1e-7 deg
                # rounding) can blur; below that consecutive points may coincide
                tol_s = tol_b + prev_tol + 1e-9
                if want_step > 1e-9 and want_step < 180 and not (abs(step - want_step) < tol_s
                                                                 and (step > 0 or want_step <= tol_s)):
                    bad.append(('pts_angular_order', f'{nm} points {j - 1},{j}: bearing step {step!r}, schedule {want_step!r}'))
            prev_b, prev_tol = beta, tol_b
        if not wedge and cdiff(arc[0][0], arc[-1][0]) * math.cos(math.radians(arc[0][1])) > 2e-7 or \
                (not wedge and abs(arc[0][1] - arc[-1][1]) > 2e-7):
            bad.append(('first_last', f'first point {arc[0]!r} differs from last {arc[-1]!r}'))
    return bad


def query_points(sh, rng, n_bearings):
    """(q, factor) placed by the independent direct solution around the boundary"""
    out = []
    base = [360.0 * j / 16 + 3.0 for j in range(16)] if n_bearings >= 16 else []
    bearings = base + [rng.uniform(0, 360) for _ in range(max(0, n_bearings - len(base)))]
    for beta in bearings:
        lo, hi = boundary_rho(sh, beta)
        for f in (0.5, 0.9, 0.999, 1.001, 1.1, 2.0):
            out.append((direct(sh['c'], beta, f * hi), ('outer', f)))
        if lo > 0:
            for f in (0.5, 0.999, 1.001):
                out.append((direct(sh['c'], beta, f * lo), ('inner', f)))
    return out


# ------------------------------------------------------------------ fixed corpus for the chord-error clause (not proved)
CHORD_CORPUS = [
    ({'t': 'circle', 'c': (10.0, 45.0), 'r': 5000.0}, 36),
    ({'t': 'circle', 'c': (-60.0, -30.0), 'r': 20000.0}, 7),
    ({'t': 'ellipse', 'c': (10.0, 45.0), 'a': 5000.0, 'b': 2000.0, 'rot': 30.0}, 90),
    ({'t': 'ring', 'c': (10.0, 45.0), 'rin': 1000.0, 'rout': 5000.0, 'amin': 0.0, 'amax': 360.0}, 36),
    ({'t': 'ring', 'c': (10.0, 45.0), 'rin': 1000.0, 'rout': 5000.0, 'amin': 30.0, 'amax': 120.0}, 12),
]


def chord_corpus_check():
    """polygon form vs analytic test at points farther than the chord sagitta (+5 %) from the curve"""
    bad, n = [], 0
    for sh, k in CHORD_CORPUS:
        shape = build(sh)
        poly = shape.to_polygon(k=k)
        step = 360.0 / k if not (sh['t'] == 'ring' and not is_full(sh)) else (sh['amax'] - sh['amin']) / k
        sag = 1 - math.cos(math.radians(step / 2))
        for jb in range(24):
            beta = 7.5 + 15.0 * jb
            lo, hi = boundary_rho(sh, beta)
            fs = [0.3, 0.6, (1 - sag) * 0.93, 1.07, 1.5]
            for f in fs:
                q = direct(sh['c'], beta, f * hi)
                if lo > 0 and abs(f * hi - lo) < 0.07 * lo + sag * lo:
                    continue
                if sh['t'] == 'ring' and not is_full(sh):
                    edge = min(abs(beta - sh['amin']), abs(beta - sh['amax']))
                    if edge < 3.0:
                        continue
                a = shape.contains_coordinate(C(q))
                p = poly.contains_coordinate(C(q))
                n += 1
                if a != p:
                    bad.append({'shape': sh, 'k': k, 'q': q, 'analytic': a, 'polygon': p, 'factor': f, 'bearing': beta})
    return bad, n


# ------------------------------------------------------------------ look-alike export histories
# Mechanism class covered: cross-INSTANCE state keyed by something coarser than a shape's full definition (a module
# level / class level cache or memo of drawn rings, WKT, GeoJSON, shapely geometry, area ... whose key leaves out holes,
# or collides for different field values).  A run builds several look-alike shapes one after the other - same kind,
# centre, size, dt and k, differing only in their holes (none / A / B / a smaller A / A+B / B+A / an elliptic hole), or
# differing in a field for which the library's hashes collide (hash(-1.0) == hash(-2.0): rotation, angle_min, centre
# longitude / latitude) - and exports each through randomly chosen entry points in random order.  Every export is judged
# on its own, against the definition only: ring count = 1 (+1 inner circle of a full ring) + number of holes of THIS
# shape, the shell on THIS shape's curve (oracle_boundary), every interior ring on the curve of one of THIS shape's
# holes, and the even-odd reading of the exported rings equal to the analytic definition with holes removed at query
# coordinates placed by the independent direct solution in the body, outside, and inside / around every hole of the
# whole pool (a hole the shape does not have must not appear), away from every chord-error zone.
EXPORTS_K = ['linear_rings', 'to_wkt', 'to_geojson', 'to_geo_interface', 'edges', 'to_polygon']
EXPORTS_NOK = ['__geo_interface__', 'to_shapely', 'area', 'to_pyshp']
LOOK_DT = None


def _look_dt():
    global LOOK_DT
    if LOOK_DT is None:
        from datetime import datetime, timezone
        LOOK_DT = datetime(2021, 3, 4, 5, 6, 7, tzinfo=timezone.utc)
    return LOOK_DT


def build2(sh, holes, with_dt):
    shape = build(sh, holes)
    if with_dt:
        dt = _look_dt()
        hs = [build(h) for h in holes] or None
        c = C(sh['c'])
        if sh['t'] == 'circle':
            shape = GeoCircle(c, sh['r'], holes=hs, dt=dt)
        elif sh['t'] == 'ellipse':
            shape = GeoEllipse(c, sh['a'], sh['b'], sh['rot'], holes=hs, dt=dt)
        else:
            shape = GeoRing(c, sh['rin'], sh['rout'], sh['amin'], sh['amax'], holes=hs, dt=dt)
    return shape


class _CapWriter:
    """stands in for a shapefile.Writer: to_pyshp hands it the rings"""
    def poly(self, rings):
        return rings
    polyz = polym = poly


def read_export(shape, name, kreq):
    """the rings [[(lon, lat), ...], ...] carried by one export entry point (or the area value)"""
    kw = {'k': kreq} if kreq else {}
    fl = lambda ring: [tuple(c.to_float()[:2]) for c in ring]      # noqa: E731
    if name == 'linear_rings':
        return [fl(r) for r in shape.linear_rings(**kw)]
    if name == 'to_wkt':
        return [[tuple(float(v) for v in c.split()[:2]) for c in ring.split(',')]
                for ring in re.findall(r'\(([^()]+)\)', shape.to_wkt(**kw))]
    if name == 'to_geojson':
        return [[tuple(c[:2]) for c in ring] for ring in shape.to_geojson(**kw)['geometry']['coordinates']]
    if name == 'to_geo_interface':
        return [[tuple(c[:2]) for c in ring] for ring in shape.to_geo_interface(**kw)['coordinates']]
    if name == '__geo_interface__':
        return [[tuple(c[:2]) for c in ring] for ring in shape.__geo_interface__['coordinates']]
    if name == 'edges':
        return [fl([e[0] for e in ring] + [ring[-1][1]]) for ring in shape.edges(**kw)]
    if name == 'to_polygon':
        poly = shape.to_polygon(**kw)
        return [fl(poly.outline)] + [fl(h.bounding_coords()) for h in poly.holes]
    if name == 'to_shapely':
        g = shape.to_shapely()
        return [[tuple(c[:2]) for c in g.exterior.coords]] + [[tuple(c[:2]) for c in i.coords] for i in g.interiors]
    if name == 'to_pyshp':
        return [[tuple(c[:2]) for c in ring[::-1]] for ring in shape.to_pyshp(_CapWriter())]      # ESRI order, turned back
    if name == 'area':
        return float(shape.area)
    raise KeyError(name)


def chord_rho(sh, k, beta):
    """distance from the centre, at bearing beta, of the chord polygon through the k scheduled boundary points (outer
    arc for ring kinds); a lower estimate is enough"""
    if sh['t'] == 'circle':
        return sh['r'] * math.cos(math.pi / k)
    if sh['t'] == 'ellipse':
        step = 360.0 / k
        if step >= 180:
            return 0.0
        th = (beta - sh['rot']) % 360.0
        t1 = math.floor(th / step) * step
        r1, r2 = radius_at(sh['a'], sh['b'], t1), radius_at(sh['a'], sh['b'], t1 + step)
        den = r1 * math.sin(math.radians(th - t1)) + r2 * math.sin(math.radians(t1 + step - th))
        return r1 * r2 * math.sin(math.radians(step)) / den
    step = (sh['amax'] - sh['amin']) / k
    return sh['rout'] * math.cos(math.radians(step / 2)) if step < 180 else 0.0


def clear_of_chords(sh, k, q, margin=0.08):
    """q is not between the curve of sh and its k-point chord polygon (with a relative margin), nor near a wedge edge"""
    d, beta = inv(sh['c'], q)
    lo, hi = boundary_rho(sh, beta)
    if (1 - margin) * chord_rho(sh, k, beta) < d < (1 + margin) * hi:
        return False
    if sh['t'] == 'ring':
        step = (sh['amax'] - sh['amin']) / k
        if step >= 180 or (1 - margin) * lo * math.cos(math.radians(step / 2)) < d < (1 + margin) * lo:
            return False
        width = sh['amax'] - sh['amin']
        if width < 360:
            off = (beta - sh['amin']) % 360.0
            if min(off, abs(off - width), 360.0 - off) < 3.0 or d < 1.0:
                return False
    return True


def even_odd(pt, ring, ref):
    unwrap = lambda x: (x - ref + 180.0) % 360.0 - 180.0       # noqa: E731
    x, y = unwrap(pt[0]), pt[1]
    pts = [(unwrap(a), b) for a, b in ring]
    inside = False
    for (x1, y1), (x2, y2) in zip(pts, pts[1:] + pts[:1]):
        if (y1 > y) != (y2 > y) and x < x1 + (y - y1) * (x2 - x1) / (y2 - y1):
            inside = not inside
    return inside


def on_curve(h, pt):
    """pt within 2 cm of the boundary curve of the hole h (circle / ellipse)"""
    d, beta = inv(h['c'], pt)
    _, rho = boundary_rho(h, beta)
    tol = 0.02
    if h['t'] == 'ellipse':
        tol += abs(radius_at(h['a'], h['b'], beta - h['rot'] + math.degrees(0.02 / max(d, 1e-3))) - rho)
    return abs(d - rho) <= tol


def hole_pool(sh, rng):
    """A, B disjoint and inside the body; A2 = A shrunk; E = an elliptic hole where B is"""
    if sh['t'] == 'circle' or sh['t'] == 'ellipse':
        b1 = sh.get('rot', rng.uniform(0, 360))
        small = sh['r'] if sh['t'] == 'circle' else sh['b']
        big = sh['r'] if sh['t'] == 'circle' else sh['a']
        pa, pb, rad = direct(sh['c'], b1, 0.5 * big), direct(sh['c'], b1 + 180.0, 0.5 * big), 0.3 * small
    else:
        mid, w, span = (sh['rin'] + sh['rout']) / 2, sh['rout'] - sh['rin'], sh['amax'] - sh['amin']
        if is_full(sh) or span >= 360:
            b1 = rng.uniform(0, 360)
            pa, pb, rad = direct(sh['c'], b1, mid), direct(sh['c'], b1 + 180.0, mid), 0.3 * w
        else:
            pa, pb = direct(sh['c'], sh['amin'] + span / 4, mid), direct(sh['c'], sh['amin'] + 3 * span / 4, mid)
            rad = min(0.3 * w, 0.4 * mid * math.sin(math.radians(min(span / 4, 90.0))))
    rad = max(rad, 0.5)
    return {'A': {'t': 'circle', 'c': pa, 'r': rad}, 'B': {'t': 'circle', 'c': pb, 'r': 0.9 * rad},
            'A2': {'t': 'circle', 'c': pa, 'r': 0.6 * rad},
            'E': {'t': 'ellipse', 'c': pb, 'a': rad, 'b': 0.6 * rad, 'rot': float(rng.randrange(0, 360, 15))}}


HOLE_VARIANTS = [[], ['A'], ['B'], ['A2'], ['A', 'B'], ['B', 'A'], ['E'], ['A', 'E'], ['A2', 'B']]


def gen_history(rng, sh0):
    """pure data: {'variants': [shape...], 'pools': [...], 'kreq', 'dt', 'steps': [(variant index, hole names, exports)]}"""
    variants = [sh0]
    if rng.random() < 0.35:
        # fields whose hashes collide although the values differ: hash(-1.0) == hash(-2.0)
        opts = ['lon', 'lat']
        if sh0['t'] == 'ellipse':
            opts += ['rot', 'rot']
        if sh0['t'] == 'ring' and not is_full(sh0):
            opts += ['amin', 'amin']
        f = rng.choice(opts)
        variants = []
        for v in (-1.0, -2.0):
            s = dict(sh0)
            if f == 'lon':
                s['c'] = (v, sh0['c'][1])
            elif f == 'lat':
                s['c'] = (sh0['c'][0], v)
            elif f == 'rot':
                s['rot'] = v
            else:
                s['amin'], s['amax'] = v, v + min(sh0['amax'] - sh0['amin'], 300.0)
            variants.append(s)
    pools = [hole_pool(s, rng) for s in variants]
    kreq = rng.choice(KS + [5, 12, 24])
    steps = []
    hv = rng.sample(HOLE_VARIANTS, 5)
    if [] not in hv and rng.random() < 0.7:
        hv[rng.randrange(len(hv))] = []
    for names in hv:
        for vi in (rng.sample(range(len(variants)), len(variants)) if len(variants) > 1 else [0]):
            ex = rng.sample(EXPORTS_K + EXPORTS_NOK, rng.choice([2, 3, 4]))
            steps.append((vi, names, ex))
    return {'variants': variants, 'pools': pools, 'kreq': kreq, 'dt': rng.random() < 0.3, 'steps': steps}


def history_queries(sh, pools):
    qs = []
    wedge = sh['t'] == 'ring' and sh['amax'] - sh['amin'] < 360
    for j in range(8):
        beta = 360.0 * j / 8 + 11.0 if not wedge else sh['amin'] + (sh['amax'] - sh['amin']) * (j + 0.5) / 8
        lo, hi = boundary_rho(sh, beta)
        if lo > 0:
            qs += [direct(sh['c'], beta, (lo + hi) / 2), direct(sh['c'], beta, 0.5 * lo), direct(sh['c'], beta, 0.55 * lo + 0.45 * hi)]
        else:
            qs += [direct(sh['c'], beta, 0.4 * hi), direct(sh['c'], beta, 0.2 * hi)]
        qs.append(direct(sh['c'], beta, 1.3 * hi))
    for pool in pools:
        for h in pool.values():
            qs.append(h['c'])
            for b in (20.0, 110.0, 200.0, 290.0):
                rho = boundary_rho(h, b)[1]
                qs += [direct(h['c'], b, 0.3 * rho), direct(h['c'], b, 1.4 * rho)]
    return qs


def geod_area(rings):
    """|area| of each ring on WGS84 by pyproj (the same third-party routine the library uses, on rings of our own)"""
    from pyproj import Geod
    g = Geod(ellps='WGS84')
    return [abs(g.polygon_area_perimeter([p[0] for p in r], [p[1] for p in r])[0]) for r in rings]


def judge_export(sh, holes, kreq, name, got):
    """[(clause, detail)] for one export of the shape sh with the holes `holes` (descriptions)"""
    k = (kreq if name in EXPORTS_K else None) or default_k(sh)
    full = sh['t'] == 'ring' and is_full(sh)
    if name == 'area':
        sched = lambda s, kk, rad=None: [direct(s['c'], schedule(s, kk, i)[0], rad if rad is not None else schedule(s, kk, i)[1])     # noqa: E731
                                         for i in range(kk, -1, -1)]
        if sh['t'] != 'ring':
            parts = [sched(sh, k)]
        elif full:
            parts = [sched(sh, k, sh['rout']), sched(sh, k, sh['rin'])]
        else:
            parts = [sched(sh, k, sh['rout']) + sched(sh, k, sh['rin'])[::-1]]
        parts += [sched(h, default_k(h)) for h in holes]
        ar = geod_area(parts)
        want = ar[0] - sum(ar[1:])
        size = lambda s: s.get('r') or s.get('a') or s['rout']       # noqa: E731
        perim = sum(2 * math.pi * size(s) for s in [sh] + list(holes)) + (2 * math.pi * sh['rin'] if sh['t'] == 'ring' else 0)
        tol = 0.03 * perim + 1e-6 * ar[0]
        if abs(got - want) > tol:
            return [('holes_removed', f'area={got!r}; the rings of the definition (shell minus {len(holes)} hole(s)) have area {want!r} (tolerance {tol:.3g})')]
        return []
    bad = []
    n_want = 1 + (1 if full else 0) + len(holes)
    if len(got) != n_want:
        bad.append(('holes_removed', f'{name}(k={kreq if name in EXPORTS_K else None}) carries {len(got)} ring(s); the shape has {len(holes)} hole(s)'
                                     f'{" and an inner circle" if full else ""}: expected {n_want}'))
    shell = list(got[0])
    if sh['t'] == 'ring' and is_full(sh) and len(shell) == k + 2 and shell[-1] == shell[0]:
        shell = shell[:-1]
    for clause, detail in oracle_boundary(sh, k, shell, {})[:2]:
        bad.append(('polygon_form_carries_ring', f'{name}: shell ring: {detail}'))
    interior = list(got[1:])
    if full and interior:
        inner = [r for r in interior if all(abs(inv(sh['c'], p)[0] - sh['rin']) <= 0.02 for p in r)]
        if not inner:
            bad.append(('polygon_form_carries_ring', f'{name}: no interior ring lies on the inner circle'))
        else:
            interior.remove(inner[0])
    for h in holes:
        m = [r for r in interior if len(r) >= 4 and all(on_curve(h, p) for p in r)]
        if not m:
            bad.append(('holes_removed', f'{name}: no interior ring lies on the curve of the hole {h!r}'))
        else:
            interior.remove(m[0])
    if interior and len(got) == n_want:
        bad.append(('holes_removed', f'{name}: {len(interior)} interior ring(s) on no hole of the shape, first vertex {interior[0][0]!r}'))
    return bad


def judge_enclosure(sh, holes, kreq, name, got, queries, stats):
    k = (kreq if name in EXPORTS_K else None) or default_k(sh)
    bad = []
    for q in queries:
        want, ok = expected_contains(sh, q, holes)
        if not ok or not clear_of_chords(sh, k, q) or \
                not all(clear_of_chords(h, min(k, default_k(h)), q) and clear_of_chords(h, default_k(h), q) for h in holes):
            stats['skipped'] += 1
            continue
        obs = even_odd(q, got[0], sh['c'][0]) and not any(even_odd(q, r, sh['c'][0]) for r in got[1:])
        stats['judged'] += 1
        if any(expected_contains(h, q)[0] for h in holes):
            stats['in_a_hole'] += 1
        if obs != want:
            bad.append(('holes_removed', f'{name}(k={kreq if name in EXPORTS_K else None}): the exported rings '
                                         f'{"enclose" if obs else "do not enclose"} {q!r}; the definition with holes removed gives {want}'))
            break
    return bad


def run_history(hist, stats=None, count=None):
    """executes a history; returns the violations (dicts) in the order met"""
    stats = stats if stats is not None else {'skipped': 0, 'judged': 0, 'in_a_hole': 0, 'exports': 0}
    out, done = [], []
    queries = [history_queries(s, hist['pools']) for s in hist['variants']]
    for vi, names, exports in hist['steps']:
        sh = hist['variants'][vi]
        holes = [hist['pools'][vi][n] for n in names]
        built = guarded(lambda: build2(sh, holes, hist['dt']))
        m = {'k': 'lookalike', 'shape': sh, 'holes': holes, 'hole_names': names, 'kreq': hist['kreq'], 'dt': hist['dt'],
             'exports_before_in_this_process': list(done), 'history': hist}
        if built[0] != 'Ok':
            out.append(dict(m, clause='no_exception', detail=f'constructor raised {built[1]}'))
            continue
        for name in exports:
            got = guarded(lambda: read_export(built[1], name, hist['kreq']))
            stats['exports'] += 1
            if count:
                count('lookalike export:' + name)
            mm = dict(m, export=name)
            if got[0] != 'Ok':
                out.append(dict(mm, clause='no_exception', detail=f'{name} raised {got[1]}'))
            else:
                bad = judge_export(sh, holes, hist['kreq'], name, got[1])
                if name != 'area' and got[1]:
                    bad += judge_enclosure(sh, holes, hist['kreq'], name, got[1], queries[vi], stats)
                for clause, detail in bad:
                    out.append(dict(mm, clause=clause, detail=detail))
            done.append({'variant': vi, 'holes': names, 'export': name})
    return out


def lookalike_family(rng, n, count):
    base = gen_shapes(rng, 19 + n)[19:]
    stats = {'skipped': 0, 'judged': 0, 'in_a_hole': 0, 'exports': 0}
    out = []
    for sh0 in base:
        hist = gen_history(rng, sh0)
        count('lookalike history:' + ('hash-colliding fields' if len(hist['variants']) > 1 else 'holes only'))
        out += run_history(hist, stats, count)
    return out, stats


# ------------------------------------------------------------------ main
def main():
    ck = Check('C03')
    ck.build_theories(['theories/Props/C03.vo', 'theories/Corr/CurveK.vo'])
    rep = gen_sphere.main(REPO, os.path.join(ck.rundir, 'SphereGen.v'))
    ok1 = ck.gen('SphereGen.v', rep, 'SphereGenEq.v')
    rep2 = gen_sphere.main_curve(REPO, os.path.join(ck.rundir, 'CurveGen.v'))
    ok2 = ck.gen('CurveGen.v', rep2, 'CurveGenEq.v')
    ck.props('Props/C03.v')
    if ck.tier == 'thorough':
        c07.run_coqchk(ck, 'GV.Props.C03')

    rng = ck.rng
    quick = ck.tier == 'quick'
    n_shapes, n_shapes_k = (160, 26) if quick else (2500, 200)
    if not (ok1 and ok2):
        n_shapes *= 6
    shapes = gen_shapes(rng, n_shapes)
    lemmas, meta, skipped, stats, violations = [], {}, {}, {}, []
    nontrivial = set()
    evals = 0

    def addk(kind, built, m):
        txt, why = built
        if txt is None:
            skipped[why] = skipped.get(why, 0) + 1
            return
        nm = re.match(r'Lemma (\w+)', txt).group(1)
        lemmas.append((nm, txt))
        meta[nm] = dict(m, kind=kind, lemma=txt)

    for si, sh in enumerate(shapes):
        if through_north(sh):
            ck.count('shape:wedge-through-north (regression D36)')
        kind = 'wedge' if (sh['t'] == 'ring' and not is_full(sh)) else sh['t']
        ck.count('shape:' + kind)
        shape = build(sh)
        kreq = KS[si % len(KS)] if si >= 12 else [None, 36, 7, 3, 4, 360, None, 36, 7, 12, 3, None][si]
        k = kreq or default_k(sh)
        kw = {'k': kreq} if kreq else {}
        got = guarded(lambda: [(c.longitude, c.latitude) for c in shape.bounding_coords(**kw)])
        m = {'k': 'boundary', 'shape': sh, 'kreq': kreq}
        if got[0] != 'Ok':
            violations.append(dict(m, clause='no_exception', detail=f'bounding_coords raised {got[1]}'))
            continue
        pts = got[1]
        evals += len(pts)
        nontrivial.add((json.dumps(sh, sort_keys=True), k))
        for clause, detail in oracle_boundary(sh, kreq, pts, stats):
            violations.append(dict(m, clause=clause, detail=detail))
        # the polygon form / linear ring carry the same coordinates
        if si % 2 == 1:
            # the polygon form for the requested k must not depend on what was asked of the same object before
            guarded(lambda: (shape.to_polygon(k=5), hash(shape), shape.centroid, shape.circumscribing_circle(), shape.to_polygon()))
            ck.count('polygon form after other queries on the same object')
        poly = guarded(lambda: [(c.longitude, c.latitude) for c in shape.to_polygon(**kw).outline])
        ring0 = guarded(lambda: [(c.longitude, c.latitude) for c in shape.linear_rings(**kw)[0]])
        want_ring = pts if not is_full(sh) else pts + [pts[0]]
        if poly[0] != 'Ok' or ring0[0] != 'Ok' or poly[1] != want_ring or ring0[1] != want_ring:
            violations.append(dict(m, clause='polygon_form_carries_ring',
                                   detail=f'to_polygon/linear_rings outline differs from bounding_coords (k={k})'))
        # interval tie on a few boundary indices
        if si < n_shapes_k and len(pts) == (2 * k + 3 if kind == 'wedge' else k + 1):
            for i in sorted({0, k, k // 3, (2 * k) // 3 + 1 if k > 2 else 1}):
                if i > k:
                    continue
                j = k - i
                mm = dict(m, index=i, out=pts[j])
                addk('boundary', k_boundary(f'k_b_{si}_{i}', sh, k, i, pts[j], True), mm)
                if kind == 'wedge':
                    inner = pts[k + 1:2 * k + 2][::-1]
                    addk('boundary', k_boundary(f'k_bi_{si}_{i}', sh, k, i, inner[j], False), dict(mm, out=inner[j]))
        # membership decisions
        qs = query_points(sh, rng, 16 if si < 40 else 6)
        for qi, (q, tag) in enumerate(qs):
            dec = guarded(lambda: shape.contains_coordinate(C(q)))
            evals += 1
            mq = {'k': 'contains', 'shape': sh, 'q': q, 'placed': tag, 'obs': dec[1]}
            if dec[0] != 'Ok':
                violations.append(dict(mq, clause='no_exception', detail=f'contains_coordinate raised {dec[1]}'))
                continue
            want, ok = expected_contains(sh, q)
            if not ok:
                stats['decision-within-2cm-of-boundary'] = stats.get('decision-within-2cm-of-boundary', 0) + 1
                continue
            if dec[1] != want:
                violations.append(dict(mq, clause='contains_def',
                                       detail=f'contains_coordinate={dec[1]} but the definition gives {want} '
                                              f'(distance/bearing from centre {inv(sh["c"], q)!r})'))
            if si < n_shapes_k and qi % 7 == si % 7:
                addk('decision:' + kind, k_decision(f'k_d_{si}_{qi}', sh, q, dec[1]), mq)
        # holes removed (a circular hole placed inside the shape)
        if si % 3 == 0:
            lo, hi = boundary_rho(sh, 45.0 if kind != 'wedge' else (sh['amin'] + sh['amax']) / 2)
            beta = 45.0 if kind != 'wedge' else (sh['amin'] + sh['amax']) / 2
            hc = direct(sh['c'], beta, (lo + hi) / 2)
            hole = {'t': 'circle', 'c': hc, 'r': (hi - lo) / 5}
            holed = build(sh, [hole])
            for f in (0.0, 0.5, 0.9, 1.1, 1.5):
                q = direct(hc, 200.0, f * hole['r'])
                dec = guarded(lambda: holed.contains_coordinate(C(q)))
                evals += 1
                want, ok = expected_contains(sh, q, [hole])
                if not ok:
                    stats['decision-within-2cm-of-boundary'] = stats.get('decision-within-2cm-of-boundary', 0) + 1
                elif dec != ('Ok', want):
                    violations.append({'k': 'contains', 'shape': sh, 'hole': hole, 'q': q, 'obs': dec[1], 'clause': 'holes_removed',
                                       'detail': f'contains_coordinate={dec[1]} with a hole at {hc!r} r={hole["r"]!r}; definition gives {want}'})

    # observed, outside the theorems and outside the corpus (DESIGN section 7: antimeridian-spanning polygons are not
    # verified): the polygon form of a curved shape whose outline straddles +-180 does not even contain the centre.
    # Deterministic replay; reported as KNOWN-FINDING only if KNOWN_FINDINGS.json lists the signature.
    am = {'t': 'circle', 'c': (179.95, -30.0), 'r': 20000.0}
    am_rep = guarded(lambda: (build(am).contains_coordinate(C(am['c'])), build(am).to_polygon(k=7).contains_coordinate(C(am['c']))))
    ck.cov['antimeridian_polygon_form'] = {'shape': am, 'k': 7, 'analytic_contains_centre': am_rep[1][0] if am_rep[0] == 'Ok' else am_rep[1],
                                           'polygon_contains_centre': am_rep[1][1] if am_rep[0] == 'Ok' else am_rep[1]}
    for f in ck.findings:
        if f.get('status') == 'open' and f.get('signature') == 'curved_polygon_form_straddles_antimeridian' and am_rep == ('Ok', (True, False)):
            ck.known(f)
    # D36 (repaired: 50821a8): a wedge whose angle range passes through north.  Deterministic regression: the
    # analytic test must accept what the polygon form contains; the violation is reported again if it returns.
    wsh = {'t': 'ring', 'c': (0.0, 0.0), 'rin': 100.0, 'rout': 1000.0, 'amin': 350.0, 'amax': 370.0}
    wq = direct(wsh['c'], 5.0, 550.0)
    wrep = guarded(lambda: (build(wsh).contains_coordinate(C(wq)), build(wsh).to_polygon().contains_coordinate(C(wq))))
    ck.cov['D36_regression'] = {'shape': wsh, 'q': wq, 'analytic': wrep[1][0] if wrep[0] == 'Ok' else wrep[1],
                                'polygon_form': wrep[1][1] if wrep[0] == 'Ok' else wrep[1]}
    if wrep != ('Ok', (True, True)):
        violations.append({'k': 'contains', 'shape': wsh, 'q': wq, 'clause': 'contains_def',
                           'detail': f'wedge 350..370 at bearing 5: analytic/polygon-form answers {wrep[1]!r}, expected (True, True) [D36]'})
    # chord-error clause: fixed corpus only
    cbad, cn = chord_corpus_check()
    ck.cov['chord_corpus'] = {'queries': cn, 'disagreements': len(cbad)}
    for b in cbad[:2]:
        violations.append({'k': 'chord', 'clause': 'polygon_vs_analytic_fixed_corpus', 'detail': json.dumps(b), **b})
    # look-alike export histories (cross-instance state keyed coarser than the definition)
    lbad, lstats = lookalike_family(rng, 70 if quick else 700, ck.count)
    ck.cov['lookalike_histories'] = lstats
    evals += lstats['exports'] + lstats['judged']
    violations.extend(lbad)

    per_file = max(6, -(-len(lemmas) // 14))
    badk, broken = c07.run_lemmas(ck, 'curve', lemmas, per_file, header=K_HEADER)

    ck.cov['evaluations'] = evals
    ck.cov['interval_lemmas'] = len(lemmas)
    byk = {}
    for nm, _ in lemmas:
        byk[meta[nm]['kind']] = byk.get(meta[nm]['kind'], 0) + 1
    ck.cov['interval_lemmas_by_kind'] = byk
    ck.cov['distinct_nontrivial'] = len(nontrivial)
    ck.cov['skipped_in_interval_tie'] = skipped
    ck.cov['oracle_exclusions'] = stats
    for nm, txt in lemmas[:2] + lemmas[-2:]:
        ck.sample(txt)

    reported = 0
    for nm in sorted(badk):
        if reported >= 3:
            break
        m = meta[nm]
        ck.violation({'kind': 'model-vs-implementation', 'case': {k: v for k, v in m.items() if k != 'lemma'},
                      'gallina_case': m['lemma'], 'coq_output': badk[nm],
                      'theorems': 'C03_* (Props/C03.v): the model value at this input is the one the theorems tie to the definition',
                      'how_to_replay': 'bin/check C03 --replay <this file>'})
        reported += 1
    seen = set()
    for v in violations:
        if reported >= 6:
            break
        if v['clause'] in seen:
            continue
        seen.add(v['clause'])
        ck.violation({'kind': 'property-fails-on-implementation', 'case': v, 'theorems': 'C03_' + v['clause'],
                      'how_to_replay': 'bin/check C03 --replay <this file>'})
        reported += 1

    ck.finish(
        level='proof',
        rule='seeded shapes (circle / ellipse with axis ratio 1..10 and any rotation / ring / wedge; centres |lat| <= 75 incl. within '
             '0.001..0.3 deg of the antimeridian; radii 10 m..100 km; k cycled over default,3,4,7,36,360) + a fixed corpus of 12. '
             'Per shape: every boundary coordinate through the oracle (on curve within 2 cm, scheduled bearing, angular order, first=last, '
             'count, polygon form identical), 6-16 bearings x 6-9 radial factors of membership queries placed by an independent direct '
             'solution, every third shape with a hole; the first n shapes also through the interval tie (4 boundary indices, ~1/7 of the '
             'decisions). Look-alike export histories (70 quick / 700 thorough): within one process, shapes of one kind, centre, size, '
             'dt and k differing only in their holes (none/A/B/smaller A/A+B/B+A/elliptic) or in a field whose hashes collide '
             '(-1.0 / -2.0 as rotation, angle_min, centre longitude or latitude), each exported through 2-4 of the 10 export entry '
             'points in random order; every export judged against the definition alone (ring count, shell and hole rings on their '
             'curves, even-odd enclosure of ~90 placed coordinates incl. every hole of the pool, area). non-trivial = distinct (shape, k)',
        assumptions=['float -> real abstraction (IEEE rounding, libm not modelled); tolerances: 5.1e-8 deg on boundary coordinates, '
                     'decisions within 2 cm of a boundary (or the equivalent angle for wedge edges) skipped',
                     'a hole is abstracted to its membership predicate; the interval tie uses shapes without holes, holes are covered by '
                     'the translator tie (the hole loop) and the oracle',
                     'the chord-error clause (polygon form vs analytic test) is not proved: fixed corpus only'],
        extra={'tie': {'translator_sphere': rep, 'translator_curve': rep2, 'interval_broken_files': [b[0] for b in broken]}})


def replay(path):
    r = json.load(open(path))
    m = r.get('case') or {}
    print(json.dumps({k: v for k, v in m.items() if k not in ('lemma', 'history')}, indent=1, default=str))
    sh = m.get('shape')
    if sh:
        sh['c'] = tuple(sh['c'])
        shape = build(sh)
        if m.get('k') == 'contains':
            q = tuple(m['q'])
            print('implementation now:', shape.contains_coordinate(C(q)), ' definition (independent geodesy):', expected_contains(sh, q))
        elif m.get('k') == 'lookalike':
            alone = build2(sh, m['holes'], m.get('dt'))
            print('the same export made FIRST in this fresh process, on a new instance of the shape alone:',
                  [c for c, _ in judge_export(sh, m['holes'], m.get('kreq'), m['export'], read_export(alone, m['export'], m.get('kreq')))] or 'agrees with the definition')
            print('then re-running the recorded history; violations met, in order:')
            for v in run_history(m['history']):
                print('*', v['clause'], '| after', len(v['exports_before_in_this_process']), 'exports | holes', v['hole_names'], '|', v['detail'][:240])
        elif m.get('k') == 'boundary':
            kw = {'k': m['kreq']} if m.get('kreq') else {}
            pts = [(c.longitude, c.latitude) for c in shape.bounding_coords(**kw)]
            print('clauses violated now:', oracle_boundary(sh, m.get('kreq'), pts, {}))
    if 'gallina_case' in r:
        print('model side (Coq lemma the run could not prove):\n' + r['gallina_case'])


if __name__ == '__main__':
    if '--replay' in sys.argv:
        replay(sys.argv[sys.argv.index('--replay') + 1])
    else:
        main()
