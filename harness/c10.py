#!/usr/bin/env python3
"""C10 - convex hull is the exact hull of the input coordinates.  See DESIGN.md section 5 / C10.

Tie (K): every input below is run through geostructures' `_geometry.convex_hull` and through the
public entry points (MultiGeoPoint / MultiGeoLineString / MultiGeoPolygon .convex_hull(),
FeatureCollection / Track .convex_hull); inputs and the implementation's vertex lists are written
as Gallina literals and compared with the model `HullM.hull` / `HullM.hull_of_members` by
vm_compute.

Coordinates and scales.  A configuration is a list of small integer pairs k.  The library is fed
the coordinates `base + k * 2**-s` (a "frame": s in {0,1,2,5,10,16,20,24,30,40,100}, integer or
dyadic bases), i.e. the same configuration from a 170-degree spread down to far below a millimetre.  The model
over Z is invariant under translation and uniform scaling (only signs of cross products of
differences matter), so it is evaluated on the integers k.  That is only legitimate when the
float computation is exact: per case `frame_exact` checks with fractions.Fraction that every
coordinate is representable and stored unchanged by Coordinate, that all differences/products
stay below 2**53 units of 2**-2s, and that sampled float cross products equal the exact ones;
only then is equality with the model demanded (otherwise the case is skipped and counted).
In addition the property itself is evaluated on the implementation's answers with exact
arithmetic (`oracle`, on the actual coordinate values as Fractions), so that a disagreement
becomes a concrete failing input.
"""
import itertools
import json
import logging
import os
import sys
from datetime import datetime, timedelta
from fractions import Fraction

sys.path.insert(0, os.path.dirname(os.path.abspath(__file__)))
from lib import Check, REPO, COQ, sh, guarded, reslit, zlit, listlit   # noqa: E402
import gen_hull                                               # noqa: E402  (tools/)

logging.disable(logging.CRITICAL)
from geostructures import (Coordinate, GeoBox, GeoLineString, GeoPoint, GeoPolygon,        # noqa: E402
                           MultiGeoLineString, MultiGeoPoint, MultiGeoPolygon)
from geostructures.collections import FeatureCollection, Track                           # noqa: E402
from geostructures import _geometry                                                      # noqa: E402

T0 = datetime(2020, 1, 1)
_CC = {}


class Inexact(Exception):
    pass


# (base_lon, base_lat, s): the library sees base + k * 2**-s, the model and the literals see k
FRAME = (Fraction(0), Fraction(0), 0)
IDENT = (Fraction(0), Fraction(0), 0)


_CUR = _CC.setdefault(FRAME, ({}, {}))     # per frame: grid point -> Coordinate, (lon, lat) floats -> grid point


def set_frame(fr):
    global FRAME, _CUR
    fr = (Fraction(fr[0]), Fraction(fr[1]), int(fr[2]))
    if fr != FRAME:
        FRAME = fr
        _CUR = _CC.setdefault(FRAME, ({}, {}))


def val(p):
    """the exact coordinate value of grid point p in the current frame"""
    bx, by, s = FRAME
    return (bx + Fraction(p[0], 1 << s), by + Fraction(p[1], 1 << s))


def C(p):
    c = _CUR[0].get(p)
    if c is None:
        x, y = val(p)
        xf, yf = float(x), float(y)
        if Fraction(xf) != x or Fraction(yf) != y:
            raise Inexact('coordinate not representable')
        c = Coordinate(xf, yf)
        if Fraction(c.longitude) != x or Fraction(c.latitude) != y:
            raise Inexact('Coordinate() changed the value')
        _CUR[0][p] = c
        _CUR[1][(xf, yf)] = p
    return c


def of_coord(c):
    if c.z is None:
        p = _CUR[1].get((c.longitude, c.latitude))      # the float pair of a grid point already built (exact)
        if p is not None:
            return p
    bx, by, s = FRAME
    kx, ky = (Fraction(c.longitude) - bx) * (1 << s), (Fraction(c.latitude) - by) * (1 << s)
    if kx.denominator != 1 or ky.denominator != 1 or c.z is not None:
        raise ValueError('output coordinate is not a point of the input grid')
    return (int(kx), int(ky))


def frame_exact(pts, rng):
    """exactness of the float computation on this configuration in the current frame"""
    try:
        cs = [C(p) for p in pts]
    except Inexact:
        return False
    dx = max(p[0] for p in pts) - min(p[0] for p in pts)
    dy = max(p[1] for p in pts) - min(p[1] for p in pts)
    if 2 * max(dx, 1) * max(dy, 1) >= 1 << 53:
        return False
    for _ in range(min(12, len(pts))):          # sampled float cross products against exact ones
        o, a, b = (rng.randrange(len(pts)) for _ in range(3))
        fo, fa, fb = cs[o], cs[a], cs[b]
        fl = ((fa.longitude - fo.longitude) * (fb.latitude - fo.latitude) -
              (fa.latitude - fo.latitude) * (fb.longitude - fo.longitude))
        if Fraction(fl) != cross(val(pts[o]), val(pts[a]), val(pts[b])):
            return False
    return True


def ptlit(p):
    return f'({zlit(p[0])}, {zlit(p[1])})'


def ptslit(ps):
    return listlit([ptlit(p) for p in ps])


def cross(o, a, b):
    return (a[0] - o[0]) * (b[1] - o[1]) - (a[1] - o[1]) * (b[0] - o[0])


# ----------------------------------------------------------------------------- implementation drivers
def of_float_coord(c):
    return (c.longitude, c.latitude)


def impl_hull(pts):
    return [of_coord(c) for c in _geometry.convex_hull([C(p) for p in pts])]


def chunks(pts, rng, lo):
    """split pts into consecutive members of at least `lo` points (the last may take the rest)"""
    out, i = [], 0
    while i < len(pts):
        k = rng.randint(lo, lo + 4)
        if len(pts) - (i + k) < lo:
            k = len(pts) - i
        out.append(pts[i:i + k])
        i += k
    return out


def box_of(p, q):
    """GeoBox from two grid points with distinct lon and lat; returns (shape, its corner list)"""
    w, e = min(p[0], q[0]), max(p[0], q[0])
    s, n = min(p[1], q[1]), max(p[1], q[1])
    return GeoBox(C((w, n)), C((e, s))), [(w, n), (e, n), (e, s), (w, s), (w, n)]


def build_entry(kind, pts, rng):
    """returns (callable producing the GeoPolygon, members as lists of grid points).  The members
    are the vertex lists the shapes were CONSTRUCTED from (a polygon member may store them
    reversed; the hull does not depend on order or multiplicity)."""
    if kind == 'mline' and len(pts) < 2:
        kind = 'mpoint'
    if kind == 'mpoly' and len(pts) < 3:
        kind = 'mpoint'
    if kind == 'mpoint':
        ms = [[p] for p in pts]
        shape = MultiGeoPoint([GeoPoint(C(p)) for p in pts])
        return (lambda: shape.convex_hull()), ms
    if kind == 'mline':
        ms = chunks(pts, rng, 2)
        shape = MultiGeoLineString([GeoLineString([C(p) for p in m]) for m in ms])
        return (lambda: shape.convex_hull()), ms
    if kind == 'mpoly':
        ms = [m + [m[0]] for m in chunks(pts, rng, 3)]
        shape = MultiGeoPolygon([GeoPolygon([C(p) for p in m]) for m in ms])
        return (lambda: shape.convex_hull()), ms
    if kind == 'track':
        ms = [[p] for p in pts]
        order = list(range(len(pts)))
        rng.shuffle(order)     # Track sorts by time: give the times in a different order
        shapes = [GeoPoint(C(p), dt=T0 + timedelta(hours=order[i])) for i, p in enumerate(pts)]
        ms = [ms[i] for i in sorted(range(len(pts)), key=lambda i: order[i])]
        col = Track(shapes)
        return (lambda: col.convex_hull), ms
    # 'fc': a FeatureCollection mixing points, linestrings, polygons, boxes and nested multi-shapes
    ms, shapes, i = [], [], 0
    while i < len(pts):
        left = len(pts) - i
        ch = rng.choice(['pt', 'pt', 'line', 'poly', 'box', 'mpt', 'mline', 'mpoly'])
        if ch == 'line' and left >= 2:
            k = min(left, rng.randint(2, 5)); m = pts[i:i + k]
            shapes.append(GeoLineString([C(p) for p in m])); ms.append(m)
        elif ch == 'poly' and left >= 3:
            k = min(left, rng.randint(3, 6)); m = pts[i:i + k] + [pts[i]]
            shapes.append(GeoPolygon([C(p) for p in m])); ms.append(m)
        elif ch == 'box' and left >= 2 and pts[i][0] != pts[i + 1][0] and pts[i][1] != pts[i + 1][1]:
            k = 2; b, corners = box_of(pts[i], pts[i + 1])
            shapes.append(b); ms.append(corners)
        elif ch == 'mpt' and left >= 2:
            k = min(left, rng.randint(2, 4)); m = pts[i:i + k]
            shapes.append(MultiGeoPoint([GeoPoint(C(p)) for p in m])); ms.append(m)
        elif ch == 'mline' and left >= 4:
            k = 4; m = pts[i:i + 4]
            shapes.append(MultiGeoLineString([GeoLineString([C(m[0]), C(m[1])]), GeoLineString([C(m[2]), C(m[3])])]))
            ms.append(m)
        elif ch == 'mpoly' and left >= 6:
            k = 6; a, b = pts[i:i + 3], pts[i + 3:i + 6]
            shapes.append(MultiGeoPolygon([GeoPolygon([C(p) for p in a + [a[0]]]), GeoPolygon([C(p) for p in b + [b[0]]])]))
            ms.append(a + [a[0]] + b + [b[0]])
        else:
            k = 1
            shapes.append(GeoPoint(C(pts[i]))); ms.append([pts[i]])
        i += k
    col = FeatureCollection(shapes)
    return (lambda: col.convex_hull), ms


# ----------------------------------------------------------------------------- collections of members of every size
# Mechanism class covered: how a collection (FeatureCollection, Track) or a multi-shape GATHERS the coordinates of its
# members before hulling them - the recursion into multi-shape members, per-member pre-reduction (hull of hulls, dropping
# a "closing" coordinate, de-duplication, bounding coordinates instead of vertices), special cases by member type or
# size.  Any such step is an identity on members with two or more distinct positions that form a closed ring, and goes
# wrong on the small ones: a multi-shape with exactly ONE distinct position (one point; the same point repeated; a
# linestring whose vertices coincide), with two, with collinear ones, single points, members that only contribute interior
# points.  The families below put such members at hull vertices, on hull edges, inside, on top of each other, and make
# them the whole collection (one position -> the one-point ring [c]; no members -> IndexError: HullM.hull_of_members).
DEGENERATE = ('mpt1', 'mptrep', 'mline1', 'mlinerep')          # multi-shapes with exactly one distinct position
SMALL_KINDS = DEGENERATE + ('pt', 'mline2', 'mptcol')
MEMBER_NEEDS = {'pt': 1, 'mpt1': 1, 'mptrep': 1, 'mline1': 1, 'mlinerep': 1, 'mline2': 2, 'mptcol': 2, 'mpt': 2, 'line': 2,
                'mline': 4, 'poly': 3, 'mpoly': 6, 'box': 2}


def mk_member(kind, m, rep=2, dt=None, props=None):
    """member kind + the grid points it is made of -> (shape, the member's vertex list as the library stores it)"""
    kw = {} if dt is None else {'dt': dt}
    if props is not None:
        kw['properties'] = props
    if kind == 'pt':
        return GeoPoint(C(m[0]), **kw), [m[0]]
    if kind == 'mpt1':                                   # GeoJSON MultiPoint with one position
        return MultiGeoPoint([GeoPoint(C(m[0]))], **kw), [m[0]]
    if kind == 'mptrep':                                 # several points at one place
        return MultiGeoPoint([GeoPoint(C(m[0])) for _ in range(rep)], **kw), [m[0]] * rep
    if kind == 'mline1':                                 # a linestring whose vertices coincide
        return MultiGeoLineString([GeoLineString([C(m[0])] * rep)], **kw), [m[0]] * rep
    if kind == 'mlinerep':                               # several such linestrings
        return MultiGeoLineString([GeoLineString([C(m[0]), C(m[0])]) for _ in range(rep)], **kw), [m[0]] * (2 * rep)
    if kind == 'mline2':                                 # two distinct positions: the hull ring is [a, b, a]
        return MultiGeoLineString([GeoLineString([C(m[0]), C(m[1])])], **kw), [m[0], m[1]]
    if kind == 'mptcol':                                 # collinear positions (a, b and points between them)
        a, b = m[0], m[1]
        mid = [(a[0] + (b[0] - a[0]) * t // rep, a[1] + (b[1] - a[1]) * t // rep) for t in range(1, rep)
               if (b[0] - a[0]) * t % rep == 0 and (b[1] - a[1]) * t % rep == 0]
        v = [a] + mid + [b]
        return MultiGeoPoint([GeoPoint(C(p)) for p in v], **kw), v
    if kind == 'mpt':
        return MultiGeoPoint([GeoPoint(C(p)) for p in m], **kw), list(m)
    if kind == 'line':
        return GeoLineString([C(p) for p in m], **kw), list(m)
    if kind == 'mline':
        h = len(m) // 2
        return MultiGeoLineString([GeoLineString([C(p) for p in m[:h]]), GeoLineString([C(p) for p in m[h:]])], **kw), list(m)
    if kind == 'poly':
        v = list(m) + [m[0]]
        return GeoPolygon([C(p) for p in v], **kw), v
    if kind == 'mpoly':
        h = len(m) // 2
        a, b = list(m[:h]) + [m[0]], list(m[h:]) + [m[h]]
        return MultiGeoPolygon([GeoPolygon([C(p) for p in a]), GeoPolygon([C(p) for p in b])], **kw), a + b
    if kind == 'box':
        w, e = min(m[0][0], m[1][0]), max(m[0][0], m[1][0])
        s, n = min(m[0][1], m[1][1]), max(m[0][1], m[1][1])
        return GeoBox(C((w, n)), C((e, s)), **kw), [(w, n), (w, s), (e, s), (e, n), (w, n)]
    raise ValueError(kind)


def build_collection(entry, specs):
    """entry: 'fc' | 'track' | 'mpoint' | 'mline'; specs: [(kind, points, rep, hour)] ->
    (callable returning the hull polygon, member vertex lists in the collection's own order)"""
    if entry == 'mpoint':              # MultiGeoPoint.convex_hull(): every spec is one position, repeated `rep` times
        ms = [[s[1][0]] * s[2] for s in specs]
        shape = MultiGeoPoint([GeoPoint(C(p)) for m in ms for p in m])
        return (lambda: shape.convex_hull()), ms
    if entry == 'mline':               # MultiGeoLineString.convex_hull(): linestrings, some with coinciding vertices
        ms = [([s[1][0]] * max(2, s[2]) if MEMBER_NEEDS[s[0]] == 1 else list(s[1])) for s in specs]
        shape = MultiGeoLineString([GeoLineString([C(p) for p in m]) for m in ms])
        return (lambda: shape.convex_hull()), ms
    built = []
    for kind, m, rep, hour in specs:
        dt = T0 + timedelta(hours=hour) if entry == 'track' else None
        built.append((hour, mk_member(kind, m, rep, dt)))
    if entry == 'track':
        col = Track([sh_ for _, (sh_, _) in built])
        built.sort(key=lambda x: x[0])           # Track orders its members by time
    else:
        col = FeatureCollection([sh_ for _, (sh_, _) in built])
    return (lambda: col.convex_hull), [v for _, (_, v) in built]


def distinct_box(a, b):
    return a[0] != b[0] and a[1] != b[1]


def gen_collection(rng):
    """-> (class, [(kind, points, rep, hour)]) in grid units"""
    form = rng.choice(['lone', 'lone', 'stacked', 'only-degenerate', 'base+extreme', 'base+extreme', 'base+extreme',
                       'base+inside', 'base+edge', 'mixed', 'mixed', 'mixed'])
    ox, oy = rng.randint(-5, 5), rng.randint(-5, 5)
    R = rng.choice([1, 2, 3, 6, 12])
    rp = lambda: (ox + rng.randint(-R, R), oy + rng.randint(-R, R))        # noqa: E731
    deg = lambda p: (rng.choice(DEGENERATE), [p], rng.randint(2, 4))         # noqa: E731
    specs = []
    if form == 'lone':                     # the whole collection is one member with one distinct position
        specs = [deg(rp())]
    elif form == 'stacked':                # several one-position members at the same place
        p = rp()
        specs = [(rng.choice(DEGENERATE + ('pt',)), [p], rng.randint(2, 4)) for _ in range(rng.randint(2, 4))]
    elif form == 'only-degenerate':        # every position comes from a one-position multi-shape
        specs = [deg(rp()) for _ in range(rng.randint(2, 7))]
    elif form in ('base+extreme', 'base+inside', 'base+edge'):
        k = rng.randint(1, 3)
        w, h = k * rng.randint(1, 3) * 2, k * rng.randint(1, 3) * 2
        corners = [(ox, oy), (ox + w, oy), (ox + w, oy + h), (ox, oy + h)]
        rot = rng.randrange(4)
        corners = corners[rot:] + corners[:rot]
        bk = rng.choice(['poly', 'box', 'line', 'mpt', 'mline', 'pts', 'tri'])
        if bk == 'box':
            specs.append(('box', [corners[0], corners[2]], 2))
        elif bk == 'pts':
            specs += [('pt', [c], 2) for c in corners]
        elif bk == 'tri':
            specs.append(('poly', corners[:3], 2))
        else:
            specs.append((bk, corners, 2))
        for _ in range(rng.randint(1, 3)):
            if form == 'base+extreme':     # outside the base: a hull vertex that no other member supplies
                side = rng.choice([(-1, 0), (1, 0), (0, -1), (0, 1), (1, 1), (-1, -1), (1, -1), (-1, 1)])
                p = (ox + w // 2 + side[0] * (w // 2 + rng.randint(1, 4)) + (rng.randint(-2, 2) if side[0] == 0 else 0),
                     oy + h // 2 + side[1] * (h // 2 + rng.randint(1, 4)) + (rng.randint(-2, 2) if side[1] == 0 else 0))
            elif form == 'base+inside':    # contributes interior points only
                p = (ox + rng.randint(1, w - 1), oy + rng.randint(1, h - 1))
            else:                          # on an edge of the base
                p = rng.choice([(ox + rng.randint(0, w), oy), (ox, oy + rng.randint(0, h)), (ox + w, oy + rng.randint(0, h)),
                                (ox + w // 2, oy + h)])
            specs.append(rng.choice([deg(p), deg(p), ('pt', [p], 2), ('mline2', [p, rng.choice(corners)], 2),
                                     ('mptcol', [p, rng.choice(corners)], rng.choice([2, 3, 4]))]))
    else:                                  # mixed: random members of every kind over a random configuration
        pts = [rp() for _ in range(rng.randint(2, 16))]
        i = 0
        while i < len(pts):
            kind = rng.choice(SMALL_KINDS + SMALL_KINDS + ('mpt', 'line', 'mline', 'poly', 'mpoly', 'box'))
            need = MEMBER_NEEDS[kind]
            if len(pts) - i < need or (kind == 'box' and not distinct_box(pts[i], pts[i + 1])):
                kind, need = rng.choice(DEGENERATE + ('pt',)), 1
            take = need if kind in SMALL_KINDS + ('box', 'mpoly') else min(len(pts) - i, need + rng.randint(0, 2))
            specs.append((kind, pts[i:i + take], rng.randint(2, 4)))
            i += take
    rng.shuffle(specs)
    hours = list(range(len(specs)))
    rng.shuffle(hours)
    return form, [(k, m, r, hours[i]) for i, (k, m, r) in enumerate(specs)]


# ----------------------------------------------------------------------------- call histories on collections
# Mechanism class covered: a collection's convex_hull is a cached observation, and a DERIVED collection (a + b, a += b,
# sum()/reduce chains, filters, slices, copy) may take a shortcut through what its operands already hold - carry a cached
# hull over, pre-seed the sum's hull from the operands' cached rings, keep a cache across an in-place change, invalidate
# too little.  Any such shortcut is invisible unless the observations were READ on the operands BEFORE the derivation, and
# goes wrong first on the operands whose hull is not a closed ring of 3+ vertices: a single ping / pings repeating one
# position / a one-position multi-shape (hull ring [c]), two positions or collinear ones (ring [a, b, a]).  A history is
# a list of operand collections (FeatureCollection or Track; every member timed and numbered) and a program over a growing
# pool of collections: reads of cached and uncached observations, `+` in both orders, `+=` (the rebinding is followed),
# builtin sum() / reduce chains of 2-4 sums with or without reading the intermediates, copy, time filters, property
# filters, slices.  At the end EVERY collection of the pool (operands and derived) is asked for its hull; it is judged by
# the model (hull_of_members of the vertex lists of ITS OWN members, KEntry) and by the property on the exact coordinates;
# a sum must hold exactly the shapes of its operands, a filter / slice a sub-multiset of its source.
HIST_READS = {'fc': ['convex_hull', 'convex_hull', 'convex_hull', 'bounds', 'geospan', 'centroid', 'len'],
              'track': ['convex_hull', 'convex_hull', 'convex_hull', 'bounds', 'geospan', 'centroid', 'len', 'has_duplicate_timestamps',
                        'centroid_distances', 'time_start_diffs', 'first', 'last', 'convolve']}


def hist_read(col, name):
    if name == 'len':
        return len(col)
    if name == 'convolve':
        return col.convolve_duplicate_timestamps()
    return getattr(col, name)


def gen_operand(rng):
    """-> (class, [(kind, points, rep)]): biased to the collections whose hull is not a proper ring"""
    u = rng.random()
    p = lambda: (rng.randint(-14, 14), rng.randint(-14, 14))            # noqa: E731
    if u < 0.18:
        return 'one-ping', [('pt', [p()], 2)]
    if u < 0.30:                         # several pings / members repeating one position
        q = p()
        return 'one-position', [(rng.choice(DEGENERATE + ('pt', 'pt', 'pt')), [q], rng.randint(2, 4)) for _ in range(rng.randint(2, 4))]
    if u < 0.36:
        return 'one-position', [(rng.choice(DEGENERATE), [p()], rng.randint(2, 4))]
    if u < 0.52:                         # the hull is a segment
        a = p()
        d = rng.choice([(1, 0), (0, 1), (1, 1), (2, -1), (-3, 2), (0, -2), (4, 0)])
        k = rng.choice([2, 2, 4, 6])
        b = (a[0] + k * d[0], a[1] + k * d[1])
        mid = (a[0] + k // 2 * d[0], a[1] + k // 2 * d[1])
        return 'segment', rng.choice([[('pt', [a], 2), ('pt', [b], 2)], [('mline2', [a, b], 2)], [('mptcol', [a, b], 2)],
                                      [('pt', [b], 2), ('pt', [mid], 2), ('pt', [a], 2), ('pt', [mid], 2)], [('line', [a, mid, b], 2)],
                                      [('pt', [a], 2), ('mline2', [mid, b], 2)]])
    form, specs = gen_collection(rng)
    return form, [(k_, m_, r_) for k_, m_, r_, _ in specs]


def gen_history(rng, entry):
    """-> (form, history): history = {'entry', 'operands': [[(kind, points, rep, hour)]], 'program': [op]} (JSON-able).
    ops: ['read', i, what] | ['add', i, j] | ['iadd', i, j] | ['sum', [i..]] | ['reduce', [i..]] | ['copy', i] |
    ['fdt', i, h0, h1] | ['fprop', i, m, r] | ['slice', i, a, b]; every op but read/iadd appends one collection to the pool"""
    reads = HIST_READS[entry]
    form = rng.choice(['pair', 'pair', 'pair', 'chain', 'chain', 'chain', 'mixed', 'mixed'])
    nops = 2 if form == 'pair' else rng.randint(3, 5) if form == 'chain' else rng.randint(2, 4)
    ops_ = [gen_operand(rng) for _ in range(nops)]
    total = sum(len(o[1]) for o in ops_)
    hours = rng.sample(range(0, 3 * total + 2), total)
    operands, h = [], 0
    for _, specs in ops_:
        operands.append([(k_, [list(q) for q in m_], r_, hours[h + i]) for i, (k_, m_, r_) in enumerate(specs)])
        h += len(specs)
    prog, n = [], nops                     # n = size of the pool
    p_hull = rng.choice([1.0, 0.85, 0.85, 0.5])

    def read_some(i):
        if rng.random() < p_hull:
            prog.append(['read', i, 'convex_hull'])
        for _ in range(rng.choice([0, 0, 1, 2])):
            prog.append(['read', i, rng.choice(reads)])
    if form == 'pair':
        order = [0, 1]
        rng.shuffle(order)
        for i in order:
            read_some(i)
        a, b = rng.choice([(0, 1), (1, 0)])
        prog.append([rng.choice(['add', 'add', 'add', 'iadd']), a, b])
        if rng.random() < 0.5:             # ... and the sum goes on to be an operand itself
            last = a if prog[-1][0] == 'iadd' else n
            n += prog[-1][0] != 'iadd'
            read_some(last)
            other = rng.choice([0, 1])
            read_some(other)
            prog.append(['add', last, other] if rng.random() < 0.5 else ['add', other, last])
            n += 1
    elif form == 'chain':                  # 2-4 sums over 3-5 operands, spelled step by step / sum() / reduce
        idx = list(range(nops))
        rng.shuffle(idx)
        for i in idx:
            read_some(i)
        spell = rng.choice(['steps', 'steps', 'steps-read', 'steps-read', 'sum', 'reduce', 'iadd-steps'])
        if spell in ('sum', 'reduce'):
            prog.append([spell, idx])
            n += 1
        else:
            acc = idx[0]
            for j in idx[1:]:
                if spell == 'iadd-steps':
                    prog.append(['iadd', acc, j])
                else:
                    prog.append(['add', acc, j] if rng.random() < 0.7 else ['add', j, acc])
                    acc = n
                    n += 1
                if spell == 'steps-read' or rng.random() < 0.3:
                    read_some(acc)
    else:                                  # mixed: anything on anything
        for _ in range(rng.randint(3, 9)):
            i = rng.randrange(n)
            k = rng.choice(['read', 'read', 'read', 'add', 'add', 'iadd', 'copy', 'fdt', 'fprop', 'slice', 'sum'])
            if k == 'read':
                read_some(i)
                continue
            if k in ('add', 'iadd'):
                prog.append([k, i, rng.randrange(n)])
            elif k == 'sum':
                prog.append(['sum', [rng.randrange(n) for _ in range(rng.randint(2, 4))]])
            elif k == 'copy':
                prog.append(['copy', i])
            elif k == 'fdt':
                a = rng.randint(-1, 3 * total)
                prog.append(['fdt', i, a, a + rng.randint(0, 2 * total)])
            elif k == 'fprop':
                m = rng.choice([2, 3])
                prog.append(['fprop', i, m, rng.randrange(m)])
            else:
                a = rng.randint(-1, 3 * total) if entry == 'track' else rng.randint(0, 3)
                prog.append(['slice', i, a, a + rng.randint(1, 2 * total)])
            n += k != 'iadd'
    return form, {'entry': entry, 'operands': operands, 'program': prog}


def run_history(hist):
    """drives the implementation through the history; -> [(how the collection was obtained, members or None, hull result,
    clauses about the derivation itself)] for every collection of the pool.  Raises Inexact when a member vertex is not
    representable in the current frame."""
    import functools
    import operator
    from geostructures.time import TimeInterval
    entry = hist['entry']
    cls_ = Track if entry == 'track' else FeatureCollection
    verts, keep, pool, n = {}, [], [], 0
    for oi, specs in enumerate(hist['operands']):
        shapes = []
        for kind, m, rep, hour in specs:
            sh_, v = mk_member(kind, [tuple(q) for q in m], rep, T0 + timedelta(hours=hour), {'n': n})
            n += 1
            verts[id(sh_)] = v
            keep.append(sh_)
            shapes.append(sh_)
        pool.append({'col': cls_(shapes), 'how': f'operand {oi}', 'ids': sorted(id(s) for s in shapes), 'sub': None, 'err': None})

    def derived(how, r, ids=None, sub=None):
        pool.append({'col': r[1] if r[0] == 'Ok' else None, 'how': how, 'ids': ids, 'sub': sub, 'err': None if r[0] == 'Ok' else r[1]})

    def allids(ix):
        return None if any(pool[i]['ids'] is None for i in ix) else sorted(x for i in ix for x in pool[i]['ids'])
    for op in hist['program']:
        k = op[0]
        ix = list(op[1]) if k in ('sum', 'reduce') else [op[1], op[2]] if k in ('add', 'iadd') else [op[1]]
        if any(pool[i]['col'] is None for i in ix):            # an operand that could not be built: already reported
            if k not in ('read', 'iadd'):
                derived(f'{op} (operand missing)', ('Err', 'skipped'))
                pool[-1]['err'] = None
            continue
        cs = [pool[i]['col'] for i in ix]
        if k == 'read':
            guarded(lambda: hist_read(cs[0], op[2]))
        elif k == 'add':
            derived(f'pool[{op[1]}] + pool[{op[2]}]', guarded(lambda: cs[0] + cs[1]), allids(ix))
        elif k == 'iadd':
            def iadd():
                x = cs[0]
                x += cs[1]
                return x
            r = guarded(iadd)
            e = pool[op[1]]
            e['how'] = f'({e["how"]}) += pool[{op[2]}]'
            e['ids'] = allids(ix)
            e['sub'] = None
            if r[0] == 'Ok':
                e['col'] = r[1]                                  # whatever the name is bound to now
            else:
                e['col'], e['err'] = None, r[1]
        elif k == 'sum':
            derived(f'sum(pool{ix[1:]}, pool[{ix[0]}])', guarded(lambda: sum(cs[1:], cs[0])), allids(ix))
        elif k == 'reduce':
            derived(f'reduce(add, pool{ix})', guarded(lambda: functools.reduce(operator.add, cs)), allids(ix))
        elif k == 'copy':
            derived(f'pool[{op[1]}].copy()', guarded(lambda: cs[0].copy()), pool[op[1]]['ids'])
        elif k == 'fdt':
            iv = TimeInterval(T0 + timedelta(hours=op[2]), T0 + timedelta(hours=op[3]))
            derived(f'pool[{op[1]}].filter_by_dt({op[2]}h..{op[3]}h)', guarded(lambda: cs[0].filter_by_dt(iv)), sub=op[1])
        elif k == 'fprop':
            derived(f'pool[{op[1]}].filter_by_property(n % {op[2]} == {op[3]})',
                    guarded(lambda: cs[0].filter_by_property('n', lambda v: v % op[2] == op[3])), sub=op[1])
        elif k == 'slice':
            if entry == 'track':
                derived(f'pool[{op[1]}][{op[2]}h:{op[3]}h]',
                        guarded(lambda: cs[0][T0 + timedelta(hours=op[2]):T0 + timedelta(hours=op[3])]), sub=op[1])
            else:
                derived(f'FeatureCollection(pool[{op[1]}][{op[2]}:{op[3]}])', guarded(lambda: FeatureCollection(cs[0][op[2]:op[3]])), sub=op[1])
        else:
            raise AssertionError(op)
    out = []
    for i, e in enumerate(pool):
        col, cl = e['col'], []
        if col is None:
            if e['err'] is not None:           # the derivation itself raised: judged against the shapes it should hold
                ms = None if e['ids'] is None else [verts[x] for x in e['ids']]
                out.append((e['how'], ms, ('Err', e['err']), [('raises', f'{e["how"]} raised {e["err"]}')]))
            else:
                out.append((e['how'], None, None, []))
            continue
        got = [id(s) for s in col.geoshapes]
        if any(x not in verts for x in got):
            cl.append(('members', f'{e["how"]} holds a shape that none of its operands held'))
            out.append((e['how'], None, None, cl))
            continue
        if e['ids'] is not None and sorted(got) != e['ids']:
            cl.append(('members', f'{e["how"]} holds {len(got)} shapes, not exactly the {len(e["ids"])} shapes of its operands'))
        if e['sub'] is not None and pool[e['sub']]['col'] is not None:
            src = [id(s) for s in pool[e['sub']]['col'].geoshapes]
            if any(got.count(x) > src.count(x) for x in set(got)):
                cl.append(('members', f'{e["how"]} holds a shape its source does not'))
        if not isinstance(col, cls_):
            cl.append(('members', f'{e["how"]} is a {type(col).__name__}'))
        out.append((e['how'], [verts[x] for x in got], guarded(lambda: [of_coord(c) for c in col.convex_hull.outline]), cl))
    return out


def impl_entry(kind, pts, rng):
    fn, ms = build_entry(kind, pts, rng)
    return guarded(lambda: [of_coord(c) for c in fn().outline]), ms


# ----------------------------------------------------------------------------- the property, on the implementation's output
def all_collinear(S):
    S = sorted(S)
    if len(S) < 3:
        return True
    a, b = S[0], S[-1]
    return all(cross(a, b, p) == 0 for p in S)


def oracle(pts, h):
    """clauses of C10 violated by the vertex list h returned for the input pts (exact integers)"""
    bad = []
    S = set(pts)
    if not set(h) <= S:
        bad.append(('subset', f'hull vertices {sorted(set(h) - S)} are not input coordinates'))
    if len(S) == 0:
        if h != []:
            bad.append(('empty', f'hull of nothing is {h}'))
        return bad
    if len(S) == 1:
        if h != [next(iter(S))]:
            bad.append(('one-point', f'hull of one distinct point is {h}'))
        return bad
    if not h or h[0] != h[-1]:
        bad.append(('closed', f'ring {h} is not closed'))
        return bad
    ring = h[:-1]
    if len(set(ring)) != len(ring):
        bad.append(('nodup', f'ring {h} repeats a vertex'))
    lo, hi = min(S), max(S)
    if all_collinear(S):
        if h != [lo, hi, lo]:
            bad.append(('collinear', f'collinear input: hull is {h}, expected the two extreme points {[lo, hi, lo]}'))
        return bad
    m = len(ring)
    if m < 3:
        bad.append(('shape', f'non-collinear input but ring {h} has fewer than 3 vertices'))
        return bad
    for i in range(m):
        a, b, c = ring[i], ring[(i + 1) % m], ring[(i + 2) % m]
        if cross(a, b, c) <= 0:
            bad.append(('strict-left', f'turn {a}->{b}->{c} is not a strict left turn (cross={cross(a, b, c)})'))
            break
    for i in range(m):
        a, b = ring[i], ring[(i + 1) % m]
        out = [p for p in S if cross(a, b, p) < 0]
        if out:
            bad.append(('contains', f'input {out[0]} is strictly right of hull edge {a}->{b}'))
            break
    if h[0] != lo:
        bad.append(('start', f'ring starts at {h[0]}, the reference starts at the lexicographic minimum {lo}'))
    return bad


def ref_hull(pts):
    """pure-Python mirror of HullM.hull, used only to shrink failing inputs and in messages (the
    comparison that counts is done by Coq)"""
    s = sorted(set(pts))
    if len(s) <= 1:
        return s

    def ch(seq):
        st = []
        for c in seq:
            while len(st) >= 2 and cross(st[-2], st[-1], c) <= 0:
                st.pop()
            st.append(c)
        return st
    return ch(s)[:-1] + ch(s[::-1])


def shrink(pts, fails):
    """greedy: drop points, then pull coordinates toward 0, while `fails` stays true"""
    pts = list(pts)
    changed = True
    while changed:
        changed = False
        for i in range(len(pts)):
            q = pts[:i] + pts[i + 1:]
            if q and fails(q):
                pts, changed = q, True
                break
    def toward0(v):
        return [w for w in ({0, v // 2 if v > 0 else -((-v) // 2), v - (v > 0) + (v < 0)}) if abs(w) < abs(v)]
    for _ in range(3):
        for i in range(len(pts)):
            for cand in [(x, pts[i][1]) for x in toward0(pts[i][0])] + [(pts[i][0], y) for y in toward0(pts[i][1])]:
                q = pts[:i] + [cand] + pts[i + 1:]
                if fails(q):
                    pts = q
                    break
    return pts


def impl_fails(pts):
    try:
        h = impl_hull(pts)
    except Exception:   # noqa
        return True
    return bool(oracle(pts, h)) or h != ref_hull(pts)


# ----------------------------------------------------------------------------- generators
def gen_random(rng, nmax=40):
    n = rng.randint(1, nmax)
    R = rng.choice([1, 2, 3, 4, 6, 10, 30, 80])
    ox, oy = rng.randint(-5, 5), rng.randint(-5, 5)
    return [(ox + rng.randint(-R, R), oy + rng.randint(-R, R)) for _ in range(n)], 'random'


def gen_collinear(rng):
    n = rng.randint(1, 40)
    dx, dy = rng.choice([(1, 0), (0, 1), (1, 1), (1, -1), (2, 1), (1, 2), (-3, 2), (3, 5), (0, -1), (-1, 0)])
    ox, oy = rng.randint(-5, 5), rng.randint(-5, 5)
    K = rng.choice([1, 2, 5, 12])
    return [(ox + dx * k, oy + dy * k) for k in (rng.randint(-K, K) for _ in range(n))], 'collinear'


def gen_on_edges(rng):
    """a convex polygon with lattice points on its edges, interior points and repeats"""
    k = rng.randint(2, 6)
    base = rng.choice([
        [(0, 0), (2, 0), (2, 2), (0, 2)],
        [(0, 0), (4, 0), (0, 4)],
        [(0, 0), (3, 0), (5, 2), (3, 4), (0, 4), (-2, 2)],
        [(-1, 0), (0, -1), (1, 0), (0, 1)],
        [(0, 0), (6, 2), (8, 8), (2, 6)],
        [(0, 0), (1, 0), (0, 1)],
    ])
    base = [(x * k, y * k) for x, y in base]
    pts = list(base)
    m = len(base)
    for i in range(m):
        a, b = base[i], base[(i + 1) % m]
        for t in range(1, k):
            if rng.random() < 0.7:
                pts.append((a[0] + (b[0] - a[0]) * t // k, a[1] + (b[1] - a[1]) * t // k))
    cx = sum(p[0] for p in base) // m
    cy = sum(p[1] for p in base) // m
    for _ in range(rng.randint(0, 6)):
        a = rng.choice(base)
        pts.append(((a[0] + cx) // 2, (a[1] + cy) // 2))
    pts += [rng.choice(pts) for _ in range(rng.randint(0, 5))]
    if rng.random() < 0.3:         # drop a corner so that an edge point becomes a vertex
        pts.remove(rng.choice(base))
    rng.shuffle(pts)
    return pts[:40], 'on-edges'


def gen_grid(rng):
    w, h = rng.randint(1, 6), rng.randint(1, 6)
    sx, sy = rng.choice([1, 2, 3]), rng.choice([1, 2, 3])
    pts = [(i * sx, j * sy) for i in range(w) for j in range(h)]
    if rng.random() < 0.5:
        for _ in range(rng.randint(0, 3)):
            if len(pts) > 1:
                pts.remove(rng.choice(pts))
    rng.shuffle(pts)
    return pts, 'axis-grid'


def gen_vertical(rng):
    """few distinct longitudes: the lexicographic sort is decided by latitude"""
    xs = rng.sample(range(-3, 4), rng.randint(1, 3))
    n = rng.randint(2, 30)
    return [(rng.choice(xs), rng.randint(-6, 6)) for _ in range(n)], 'vertical-ties'


def gen_sliver(rng):
    """near-degenerate: points within one grid step of a long segment (all turns are tiny)"""
    dx, dy = rng.choice([(1, 0), (0, 1), (7, 1), (1, 9), (5, -3), (12, 5), (-3, 11), (20, 1), (1, -20)])
    n = rng.randint(3, 30)
    K = min(rng.choice([2, 4, 7]), 75 // max(abs(dx), abs(dy)))     # stay within +-85 grid units
    ox, oy = rng.randint(-5, 5), rng.randint(-5, 5)
    pts = []
    for _ in range(n):
        t = rng.randint(-K, K)
        ex, ey = rng.choice([(0, 0), (0, 0), (0, 1), (1, 0), (0, -1), (-1, 0), (1, 1), (-1, 1)])
        pts.append((ox + t * dx + ex, oy + t * dy + ey))
    return pts, 'sliver'


GENS = [gen_random, gen_sliver, gen_collinear, gen_on_edges, gen_grid, gen_vertical, gen_random]
FR = Fraction
FRAMES = [   # (base_lon, base_lat, s)
    (0, 0, 0), (1, -3, 0), (FR(1, 2), FR(1, 4), 0), (0, 0, 1), (0, 0, 2),
    (FR(75, 2), FR(49, 4), 5), (0, 0, 5), (FR(-569, 8), FR(91, 2), 10), (3, -60, 10),
    (FR(201, 2), FR(-133, 4), 16), (0, 0, 16), (FR(-1921, 16), FR(121, 2), 20), (1, 1, 20),
    (FR(75, 2), FR(49, 4), 24), (0, 0, 24), (FR(-1, 2), 89, 24), (-179, 0, 24),
    (0, 0, 30), (FR(75, 2), FR(49, 4), 30), (1, -3, 40), (0, 0, 40), (0, 0, 100),
]
MULTI_S = [0, 5, 10, 16, 20, 24, 30, 40, 100]
ENTRY_KINDS = ['mpoint', 'mline', 'mpoly', 'fc', 'track']
FIXED = [
    [(0, 0)], [(0, 0), (0, 0)], [(0, 0), (1, 1)], [(1, 1), (0, 0), (1, 1)], [(0, 0), (0, 1)], [(0, 1), (0, 0)],
    [(0, 0), (1, 1), (2, 2)], [(0, 0), (0, 1), (0, 2)], [(2, 0), (1, 0), (0, 0), (1, 0)],
    [(0, 0), (1, 0), (2, 0), (2, 2), (0, 2), (1, 1), (0, 0), (2, 1), (1, 2)],
    [(0, 0), (1, 0), (1, 1), (0, 1), (0, 0)],            # the library's own test: unit square
    [(0, 0), (2, 0), (1, 0), (1, 1)], [(0, 0), (0, 2), (0, 1), (1, 1)], [(0, 0), (1, 1), (2, 2), (2, 0)],
    [(0, 0), (1, 2), (2, 4), (3, 6), (3, 0)], [(-1, -1), (1, 1), (-1, 1), (1, -1), (0, 0)],
    [(0, 0), (0, 3), (3, 0), (3, 3), (1, 0), (2, 0), (0, 1), (0, 2), (3, 1), (3, 2), (1, 3), (2, 3)],
    [(-80, -80), (80, 80), (-80, 80), (80, -80)], [(0, 0), (1, 0), (0, 1)], [(0, 1), (1, 0), (0, 0)],
]


def nontrivial(pts):
    S = sorted(set(pts))
    if len(S) < 3:
        return False
    if len(S) != len(pts):
        return True
    if len({p[0] for p in S}) < len(S):
        return True
    h = ref_hull(pts)[:-1]
    return len(h) < len(S) and any(cross(h[i], h[(i + 1) % len(h)], p) == 0 for i in range(len(h)) for p in S
                                   if p not in (h[i], h[(i + 1) % len(h)]))


def frame_json(fr):
    return [str(Fraction(fr[0])), str(Fraction(fr[1])), int(fr[2])]


def oracle_here(pts, h):
    """the property on the implementation's answer, on the actual coordinate values (exact Fractions)"""
    if FRAME == IDENT:
        return oracle(pts, h)
    return oracle([val(p) for p in pts], [val(v) for v in h])


def main():
    ck = Check('C10')
    ck.build_theories(['theories/Props/C10.vo', 'theories/Props/C10b.vo', 'theories/Props/C10c.vo', 'theories/Corr/HullK.vo'])
    # translator tie (T): the orientation test, convex_hull itself (sort key, early return, the condition / pop /
    # iteration of both chain loops, the assembly) and the Multi* / collection callers are regenerated from the
    # working tree and proved equal to HullM for all arguments; an abstention makes the GenEq lemmas fail (closed)
    rep = gen_hull.main(REPO, os.path.join(ck.rundir, 'HullGen.v'))
    ck.gen('HullGen.v', rep, 'HullGenEq.v')
    ck.props('Props/C10.v')
    ck.props('Props/C10b.v')     # the hull ring is strictly convex; point-in-polygon of the hull polygon = open convex hull
    ck.props('Props/C10c.v')     # the domain assumption (no hull edge spans > 180 degrees) stated; D55 refuted on the composed model
    rng = ck.rng
    thorough = ck.tier == 'thorough'
    if thorough:       # independent re-check of the compiled property file and everything it depends on
        rc, out = sh(['coqchk', '-silent', '-o', '-Q', os.path.join(COQ, 'theories'), 'GV', 'GV.Props.C10'], cwd=COQ, timeout=1500)
        ok = rc == 0 and 'Axioms: <none>' in out
        ck.obligations.append({'name': 'coqchk GV.Props.C10 (no axioms, no unsafe features)', 'kind': 'coqchk', 'ok': ok,
                               'detail': '' if ok else out[-800:]})

    cases, meta = [], []
    seen_nontrivial = set()
    skipped = [0]

    def add_direct(pts, cls, frame=IDENT):
        """returns the implementation's answer in grid units, or None when the frame is not exact"""
        set_frame(frame)
        if frame != IDENT and not frame_exact(pts, rng):
            skipped[0] += 1
            return None
        r = guarded(lambda: impl_hull(pts))
        m = {'k': 'hull', 'class': cls, 'pts': pts, 'out': r, 'frame': frame_json(frame)}
        if r[0] == 'Ok':
            cases.append(f'KHull {ptslit(pts)} {ptslit(r[1])}')
            m['clauses'] = oracle_here(pts, r[1])
        else:      # the function never raises on grid input: an exception is a mismatch by itself
            cases.append(f'KHull {ptslit(pts)} [(12345, 12345)]')
            m['clauses'] = [('raises', f'convex_hull raised {r[1]}')]
        meta.append(m)
        ck.count('direct:' + cls)
        ck.count('scale:2^-%d' % frame[2])
        if nontrivial(pts):
            seen_nontrivial.add((tuple(pts), frame[2]))
        return r

    def add_entry(kind, pts, cls, frame=IDENT):
        set_frame(frame)
        if frame != IDENT and pts and not frame_exact(pts, rng):
            skipped[0] += 1
            return
        r, ms = impl_entry(kind, pts, rng)
        m = {'k': 'entry', 'entry': kind, 'class': cls, 'pts': pts, 'members': ms, 'out': r, 'frame': frame_json(frame)}
        cases.append(f'KEntry {listlit([ptslit(x) for x in ms])} {reslit(r, ptslit)}')
        flat = [p for x in ms for p in x]
        m['clauses'] = oracle_here(flat, r[1]) if r[0] == 'Ok' else \
            ([] if not flat and r[1] == 'IndexError' else [('raises', f'{kind} convex hull raised {r[1]}')])
        meta.append(m)
        ck.count('entry:' + kind)

    # -- fixed corpus (regressions, the library's own example, degenerate shapes), every entry point
    for pts in FIXED:
        add_direct(pts, 'fixed')
        for kind in ENTRY_KINDS:
            add_entry(kind, pts, 'fixed')
    for kind in ('mpoint', 'mline', 'mpoly', 'fc'):     # no members at all: GeoPolygon([]) raises IndexError
        add_entry(kind, [], 'empty')

    # -- collections and multi-shapes whose members include the small ones (see DEGENERATE above): FeatureCollection, Track
    #    (every member timed), MultiGeoPoint / MultiGeoLineString directly; judged by the model (hull_of_members on the
    #    members' stored vertex lists) and by the property on the actual coordinates
    def add_collection(entry, form, specs, frame=IDENT):
        set_frame(frame)
        allpts = [p for s_ in specs for p in s_[1]]
        if frame != IDENT and not frame_exact(allpts, rng):
            skipped[0] += 1
            return
        try:
            fn, ms = build_collection(entry, specs)
            flat = [p for x in ms for p in x]
            if frame != IDENT and not frame_exact(flat, rng):      # 'mptcol' adds points between the given ones
                raise Inexact('member vertex not representable')
        except Inexact:
            skipped[0] += 1
            return
        r = guarded(lambda: [of_coord(c) for c in fn().outline])
        m = {'k': 'entry', 'entry': entry, 'class': 'members:' + form, 'pts': flat, 'members': ms, 'out': r, 'frame': frame_json(frame),
             'member_specs': [[k_, [list(p) for p in pts_], rep_, hr_] for k_, pts_, rep_, hr_ in specs]}
        cases.append(f'KEntry {listlit([ptslit(x) for x in ms])} {reslit(r, ptslit)}')
        m['clauses'] = oracle_here(flat, r[1]) if r[0] == 'Ok' else \
            ([] if not flat and r[1] == 'IndexError' else [('raises', f'{entry} convex hull raised {r[1]} on members {ms}')])
        meta.append(m)
        ck.count('members:' + form)
        ck.count('members-entry:' + entry)
        if any(s_[0] in DEGENERATE for s_ in specs):
            ck.count('members:with a one-position multi-shape')
        if len(set(flat)) >= 3:
            seen_nontrivial.add((tuple(flat), entry, frame[2]))

    MEMBER_FRAMES = [IDENT, (1, -3, 0), (FR(75, 2), FR(49, 4), 5), (FR(-569, 8), FR(91, 2), 10), (0, 0, 16), (FR(75, 2), FR(49, 4), 24)]
    for it in range(3000 if thorough else 500):
        form, specs = gen_collection(rng)
        entry = ('fc', 'track', 'fc', 'track', 'fc', 'mpoint', 'mline')[it % 7]
        add_collection(entry, form, specs, MEMBER_FRAMES[(it // 7) % len(MEMBER_FRAMES)])
    # fixed: one position, as every kind of one-position member, alone / twice / next to a box it lies outside of
    for kind in DEGENERATE + ('pt',):
        for entry in ('fc', 'track'):
            add_collection(entry, 'fixed', [(kind, [(2, 6)], 2, 0)])
            add_collection(entry, 'fixed', [(kind, [(2, 6)], 3, 1), (kind, [(2, 6)], 2, 0)])
            add_collection(entry, 'fixed', [('box', [(0, 2), (4, 0)], 2, 0), ('line', [(1, 1), (2, 3)], 2, 2), (kind, [(2, 6)], 2, 1)])

    # -- call histories on collections: observations read on the operands BEFORE `+` / `+=` / sum() / reduce / copy / filters /
    #    slices; every collection of the pool is then asked for its hull (see gen_history / run_history above)
    def add_history(form, hist, frame=IDENT):
        set_frame(frame)
        allpts = [tuple(q) for specs in hist['operands'] for s_ in specs for q in s_[1]]
        if frame != IDENT and not frame_exact(allpts, rng):
            skipped[0] += 1
            return
        try:
            res = run_history(hist)
            if frame != IDENT and not frame_exact([q for _, ms, _, _ in res if ms for x in ms for q in x] or allpts, rng):
                raise Inexact('member vertex not representable')
        except Inexact:
            skipped[0] += 1
            return
        ck.count('history:' + form)
        ck.count('history-entry:' + hist['entry'])
        for op in hist['program']:
            ck.count('history-op:' + op[0] + (':convex_hull' if op[0] == 'read' and op[2] == 'convex_hull' else ''))
        for ti, (how, ms, r, cl) in enumerate(res):
            if r is None and not cl:
                continue
            ms = ms or []
            flat = [q for x in ms for q in x]
            m = {'k': 'entry', 'entry': hist['entry'], 'class': 'history:' + form, 'pts': flat, 'members': ms, 'out': r, 'frame': frame_json(frame),
                 'history': hist, 'target': ti, 'obtained_as': how}
            if r is None:                      # the derived collection does not hold what it should: nothing to hand to the model
                r = ('Err', 'OtherError')
                m['out'] = r
            cases.append(f'KEntry {listlit([ptslit(x) for x in ms])} {reslit(r, ptslit)}')
            m['clauses'] = list(cl) + (oracle_here(flat, r[1]) if r[0] == 'Ok' else
                                       [] if cl or (not flat and r[1] == 'IndexError') else
                                       [('raises', f'convex_hull of {how} raised {r[1]} on members {ms}')])
            meta.append(m)
            ck.count('history-collection:' + ('operand' if how.startswith('operand') else 'derived'))
            if len(set(flat)) >= 3 and not how.startswith('operand'):
                seen_nontrivial.add((tuple(flat), 'history', how, frame[2]))

    for it in range(2400 if thorough else 400):
        entry = ('track', 'fc')[it % 2]
        form, hist = gen_history(rng, entry)
        add_history(form, hist, MEMBER_FRAMES[(it // 2) % len(MEMBER_FRAMES)])
    # fixed: a square and a far ping, two single pings, a ping and a segment - hulls read on both / one / none, both orders, `+` and `+=`
    sq = [('pt', [[0, 0]], 2, 0), ('pt', [[2, 0]], 2, 2), ('pt', [[2, 2]], 2, 4), ('pt', [[0, 2]], 2, 6)]
    for entry in ('track', 'fc'):
        for b_ in ([('pt', [[5, 1]], 2, 3)], [('mptrep', [[5, 1]], 3, 3), ('pt', [[5, 1]], 2, 9)]):
            for a_ in (sq, [('pt', [[-1, 4]], 2, 1)], [('pt', [[-1, 4]], 2, 1), ('pt', [[3, 4]], 2, 7)]):
                for rd in ([0, 1], [1, 0], [0], [1], []):
                    for der in (['add', 0, 1], ['add', 1, 0], ['iadd', 0, 1]):
                        add_history('fixed', {'entry': entry, 'operands': [a_, b_],
                                              'program': [['read', i, 'convex_hull'] for i in rd] + [der, ['add', 2 if der[0] == 'add' else 0, 1]]})

    # -- seeded structured generators, each configuration in one frame of the cycle
    n_gen = 6000 if thorough else 1100
    kinds = itertools.cycle(ENTRY_KINDS)
    perm_checks = 0
    perm_bad = []
    scale_bad = []
    for it in range(n_gen):
        pts, cls = GENS[it % len(GENS)](rng)
        frame = FRAMES[(it // len(GENS)) % len(FRAMES)]
        r = add_direct(pts, cls, frame)
        if r is None:
            continue
        if it % 2 == 0:
            add_entry(next(kinds), pts, cls, frame)
        set_frame(frame)
        # order / multiplicity: a shuffled copy with some points repeated must give the same list
        q = pts[:]
        rng.shuffle(q)
        q += [rng.choice(pts) for _ in range(rng.randint(0, 3))]
        r2 = guarded(lambda: impl_hull(q))
        perm_checks += 1
        if r2 != r:
            perm_bad.append({'pts': pts, 'permuted': q, 'out': r, 'out_permuted': r2, 'frame': frame_json(frame)})

    # -- multi-scale stream: THE SAME configuration at every scale 2^0 .. 2^-100 and 1-3 bases; every
    #    run is compared with the model (on the integers), and the answers must agree across scales
    #    (2^-24 degree is about 7 mm; the smaller steps only guard against absolute tolerances)
    multi = list(FIXED)
    n_multi = 900 if thorough else 150
    mgens = [gen_collinear, gen_on_edges, gen_sliver, gen_random, gen_vertical, gen_sliver]
    for it in range(n_multi):
        pts, _ = mgens[it % len(mgens)](rng)
        multi.append([(max(-40, min(40, x)), max(-40, min(40, y))) for x, y in pts])
    multi_runs = 0
    for ci, pts in enumerate(multi):
        answers = []
        for s_ in MULTI_S:
            if s_ == 0:
                bases = [(0, 0), (1, -3)] + ([(FR(1, 2), FR(1, 4))] if ci % 3 == 0 else [])
            elif s_ <= 24:
                bases = [(0, 0), (FR(75, 2), FR(49, 4))] + ([(FR(-1921, 16), FR(121, 2))] if ci % 3 == 0 else [])
            elif s_ <= 40:      # a non-zero base must leave room for s + 7 bits below it
                bases = [(0, 0), (1, -3)]
            else:
                bases = [(0, 0)]
            for b in bases:
                fr = (FR(b[0]), FR(b[1]), s_)
                r = add_direct(pts, 'multi-scale', fr)
                if r is not None:
                    multi_runs += 1
                    answers.append((frame_json(fr), r))
        for fj, r in answers[1:]:
            if r != answers[0][1]:
                scale_bad.append({'pts': pts, 'frame': fj, 'out': r, 'frame0': answers[0][0], 'out0': answers[0][1]})
                break
    ck.cov['multi_scale_runs'] = multi_runs
    ck.cov['skipped_inexact'] = skipped[0]

    # -- all permutations of small sets: one canonical order is compared with the model in Coq; the
    #    other orders are compared with that answer here (the model is permutation invariant by
    #    theorem C10_hull_perm, so equality with the canonical answer is equality with the model)
    grid = [(x, y) for x in range(4) for y in range(4)]
    subsets = []
    if thorough:
        for k in range(1, 7):
            subsets += [list(c) for c in itertools.combinations(grid, k)]
    else:
        for k in range(1, 4):
            subsets += [list(c) for c in itertools.combinations(grid, k)]
        subsets += [rng.sample(grid, k) for k in (4, 5, 6) for _ in range(150)]
    for si, S in enumerate(subsets):
        S = sorted(S)
        frame = (IDENT, (FR(75, 2), FR(49, 4), 24), (FR(0), FR(0), 16))[si % 3]    # degrees / centimetres / metres
        r = add_direct(S, 'grid4x4-subset', frame)
        set_frame(frame)
        for q in itertools.permutations(S):
            q = list(q)
            r2 = guarded(lambda: impl_hull(q))
            perm_checks += 1
            if r2 != r:
                perm_bad.append({'pts': S, 'permuted': q, 'out': r, 'out_permuted': r2, 'frame': frame_json(frame)})
                break
    ck.cov['permutation_checks'] = perm_checks

    # -- multi-shapes with CURVED members (fixed corpus, implementation side, exact rational arithmetic on the floats the
    #    library itself samples): the hull asked for with a given k is the hull of the coordinates the members have for THAT
    #    k, whatever was asked of the same object before (no k, another k, the same k again)
    from fractions import Fraction as FQ
    from geostructures import GeoEllipse, GeoRing, GeoCircle

    def exact_hull_clauses(coords, ring):
        P = [(FQ(x), FQ(y)) for x, y in coords]
        Rg = [(FQ(x), FQ(y)) for x, y in ring]
        out = []
        if len(Rg) < 4 or Rg[0] != Rg[-1]:
            return [('closed', 'ring is not closed')]
        if any(v not in set(P) for v in Rg):
            out.append(('subset', f'{sum(1 for v in Rg if v not in set(P))} hull vertices are not input coordinates'))
        V = Rg[:-1]
        n = len(V)

        def cr(a, b, c):
            return (b[0] - a[0]) * (c[1] - a[1]) - (b[1] - a[1]) * (c[0] - a[0])
        if any(cr(V[i], V[(i + 1) % n], V[(i + 2) % n]) <= 0 for i in range(n)):
            out.append(('strict_left', 'a vertex is collinear or a right turn'))
        outside = sum(1 for p in set(P) if any(cr(V[i], V[(i + 1) % n], p) < 0 for i in range(n)))
        if outside:
            out.append(('contains', f'{outside} input coordinates lie outside the hull'))
        return out
    curved_checks = 0
    CO = Coordinate
    mk_sets = [lambda: [GeoEllipse(CO(4.0, 50.0), 90000, 30000, 25), GeoPolygon([CO(*p) for p in [(0, 49), (1, 49), (1, 50), (0, 50), (0, 49)]])],
               lambda: [GeoRing(CO(20.0, 20.0), 20000, 80000, 30, 200), GeoCircle(CO(21.5, 20.5), 50000)],
               lambda: [GeoEllipse(CO(-10.0, -35.0), 50000, 10000, 110), GeoRing(CO(-9.0, -35.5), 1000, 60000, 200, 340)]]
    for mi, mk_members in enumerate(mk_sets):
        mp = MultiGeoPolygon(mk_members())
        for kq in [None, 36, 12, None, 36, 7, 12]:
            kw = {'k': kq} if kq else {}
            got = guarded(lambda: [of_float_coord(c) for c in mp.convex_hull(**kw).outline])
            coords = [of_float_coord(c) for m in mk_members() for c in m.bounding_coords(**kw)]
            curved_checks += 1
            cl = [('raises', got[1])] if got[0] != 'Ok' else exact_hull_clauses(coords, got[1])
            if cl:
                ck.violation({'kind': 'property-fails-on-implementation', 'property_clauses_violated': cl,
                              'case': {'k': 'curved-multi-hull', 'members': [repr(m) for m in mk_members()], 'requested_k': kq,
                                       'history': 'convex_hull() with k in [None, 36, 12, None, 36, 7, 12] on ONE object, in this order'},
                              'theorems': 'C10_hull_subset / C10_hull_contains / C10_hull_strict_left (on the coordinates for the requested k)'})
                break
    ck.cov['curved_multi_hull_checks'] = curved_checks

    # 8. WIDE sets: coordinates spread over more than half a turn of longitude (integer degrees, so every cross product is
    #    exact).  The hull is a planar lon/lat notion; GeoPolygon reads an edge spanning more than 180 degrees of longitude
    #    as crossing the antimeridian (ensure_edge_bounds inside is_counter_clockwise), so its right-hand-rule
    #    normalisation turns such a hull CLOCKWISE - finding D55 (signature: the ring is the exact hull reversed and one
    #    of its edges spans more than 180 degrees).  Anything else wrong with a wide hull is a violation.
    d55 = [f for f in ck.findings if f['status'] == 'open' and f['signature'] == 'hull_edge_spans_over_180']
    wide_n = wide_d55 = 0
    wide_sets = [[tuple(p) for p in f['replay']['points']] for f in d55]
    for _ in range(60 if ck.tier == 'quick' else 1500):
        n = rng.randint(3, 12)
        wide_sets.append(list({(rng.randint(-179, 179), rng.randint(-80, 80)) for _ in range(n)}))
    for wi, pts_w in enumerate(wide_sets):
        if len(pts_w) < 3:
            continue
        entry = 'MultiGeoPoint' if wi % 2 == 0 else 'FeatureCollection'
        def hull_w():
            gp = [GeoPoint(CO(float(x), float(y))) for x, y in pts_w]
            h = MultiGeoPoint(gp).convex_hull() if entry == 'MultiGeoPoint' else FeatureCollection(gp).convex_hull
            return [of_float_coord(c) for c in h.outline]
        got = guarded(hull_w)
        wide_n += 1
        cl = [('raises', got[1])] if got[0] != 'Ok' else exact_hull_clauses(pts_w, got[1])
        if cl and got[0] == 'Ok':
            ring_w = got[1]
            rev_ok = not exact_hull_clauses(pts_w, ring_w[::-1])
            spans = any(abs(ring_w[i + 1][0] - ring_w[i][0]) > 180 for i in range(len(ring_w) - 1))
            if rev_ok and spans and d55:
                wide_d55 += 1
                ck.known(d55[0])
                continue
        if cl:
            ck.violation({'kind': 'property-fails-on-implementation', 'property_clauses_violated': cl,
                          'case': {'k': 'wide-hull', 'entry': entry, 'points': pts_w, 'implementation': got},
                          'theorems': 'C10_hull_subset / C10_hull_contains / C10_hull_strict_left / C10_hull_ccw'})
            break
    ck.cov['wide_hull_checks'] = wide_n
    ck.cov['wide_hull_d55'] = wide_d55

    ck.cov['evaluations'] = len(cases) + perm_checks
    ck.cov['distinct_nontrivial'] = len(seen_nontrivial)
    for i in (3, 130, 400, 900, len(cases) - 1):
        ck.sample(cases[min(i, len(cases) - 1)][:400])

    bad, broken = ck.corr('hull', 'From GV Require Import Prelude HullM HullK.', 'check', cases, chunk=300)
    bad = set(bad)

    reported = 0
    order = sorted(range(len(cases)), key=lambda i: (not (i in bad or meta[i]['clauses']), len(meta[i]['pts'])))
    for i in order:
        m = meta[i]
        if not (i in bad or m['clauses']) or reported >= 5:
            break
        flat = m['pts'] if m['k'] == 'hull' else [p for x in m['members'] for p in x]
        set_frame(m['frame'])
        small = shrink(flat, impl_fails) if flat and impl_fails(flat) else None
        rep = {'kind': 'property-fails-on-implementation' if m['clauses'] else 'model-vs-implementation',
               'case': m, 'gallina_case': cases[i], 'property_clauses_violated': m['clauses'],
               'model_differs_in_coq': i in bad,
               'coordinates_fed_to_the_library': [[float(v) for v in val(tuple(p))] for p in flat][:40],
               'theorems': 'C10_* (Props/C10.v): the model value at this input is the one the theorems pin to the hull',
               'how_to_replay': 'bin/check C10 --replay <this file>'}
        if small is not None:
            rs = guarded(lambda: impl_hull(small))
            rep['shrunk'] = {'pts': small, 'frame': frame_json(FRAME), 'implementation': rs, 'reference': ref_hull(small),
                             'coordinates_fed_to_the_library': [[float(v) for v in val(p)] for p in small],
                             'clauses': oracle_here(small, rs[1]) if rs[0] == 'Ok' else [('raises', rs[1])]}
        ck.violation(rep)
        reported += 1
    for pb in perm_bad[:max(0, 5 - reported)]:
        set_frame(pb['frame'])
        small = shrink(pb['pts'], lambda q: impl_fails(q) or impl_fails(q[::-1]) or
                       guarded(lambda: impl_hull(q)) != guarded(lambda: impl_hull(q[::-1])))
        ck.violation({'kind': 'property-fails-on-implementation',
                      'property_clauses_violated': [('permutation', 'the hull depends on the order or multiplicity of the input')],
                      'case': {'k': 'perm', **pb}, 'shrunk': {'pts': small, 'frame': frame_json(FRAME)},
                      'theorems': 'C10_hull_perm / C10_hull_same_set', 'how_to_replay': 'bin/check C10 --replay <this file>'})
        reported += 1
    for sb in scale_bad[:max(0, 5 - reported)]:
        ck.violation({'kind': 'property-fails-on-implementation',
                      'property_clauses_violated': [('scale', 'the same configuration gives different hulls at different scales / offsets '
                                                              '(exact inputs: the hull commutes with translation and uniform scaling)')],
                      'case': {'k': 'hull', **sb}, 'theorems': 'C10_* (the model is evaluated on the integer configuration)',
                      'how_to_replay': 'bin/check C10 --replay <this file>'})

    ck.finish(rule='configurations of 1..40 small integer pairs: fixed corpus x every entry point; seeded generators (random grids of radius 1..80 '
                   'with repeats, all-collinear runs incl. vertical/horizontal, convex polygons with lattice points on their edges and interior, '
                   'thin slivers within one grid step of a long segment, axis-aligned grids, few-distinct-longitude sets), each fed to the library '
                   'as base + k*2^-s in one of 22 frames (s in 0,1,2,5,10,16,20,24,30,40,100; integer and dyadic bases), also through one of MultiGeoPoint/'
                   'MultiGeoLineString/MultiGeoPolygon/FeatureCollection/Track and re-run shuffled with repeats; a multi-scale stream running THE '
                   'SAME configuration at every s in 0,5,10,16,20,24,30,40,100 and 1-3 bases (answers compared with the model and with each other); subsets of '
                   'the 4x4 grid (thorough: all 14892 subsets of <= 6 points; quick: all of <= 3 points and 450 random ones of 4..6) in degree, '
                   'metre and centimetre frames, each in ALL its orders, every order compared with the canonical one (which Coq compares with '
                   'the model); collections (FeatureCollection, Track with timed members) and MultiGeoPoint / MultiGeoLineString whose members '
                   'include multi-shapes with ONE distinct position (one point, a repeated point, linestrings with coinciding vertices), two or '
                   'collinear positions, single points and ordinary members - alone (the whole collection), stacked, only such members, next to a '
                   'base shape as a hull vertex nobody else supplies / on its edge / inside, and mixed - in 6 frames; '
                   'call histories on FeatureCollections / Tracks (2-5 operands biased to one ping, pings repeating one position, one-position '
                   'multi-shapes, segments; cached and uncached observations read on the operands before `+` in both orders, `+=`, sum()/reduce '
                   'chains of 2-4 sums with or without reading the intermediates, copy, time / property filters, slices): EVERY collection of the '
                   'pool is compared with hull_of_members of its own members and with the property on the exact coordinates, a sum must hold '
                   'exactly its operands\' shapes; '
                   'exactness of the float computation checked per case with Fractions (skipped_inexact counts the cases dropped); '
                   'non-trivial = at least 3 distinct points and (a repeated input point, or two points sharing a longitude, or an input point on '
                   'a hull edge); distinct (input tuple, scale) counted',
              assumptions=['coordinates are base + k*2^-s with small integers k (no Z value): representable, differences and cross products exact in '
                           'doubles (checked per case with fractions.Fraction), Coordinate does not wrap, ensure_edge_bounds is the identity',
                           'the model over Z is evaluated on k: the algorithm only tests signs of cross products of coordinate differences, which '
                           'are invariant under translation and uniform positive scaling',
                           'sorted(set(...)) is modelled as the unique strictly increasing list of the distinct inputs'])


def rebuild_entry(kind, members):
    """a deterministic re-creation of an entry-point case from the member vertex lists of a replay
    (the hull only depends on the set of vertices, so any shapes with these vertices will do)"""
    def shape(m, i):
        if len(m) == 1:
            return GeoPoint(C(m[0]), dt=T0 + timedelta(hours=i)) if kind == 'track' else GeoPoint(C(m[0]))
        if len(m) >= 4 and m[0] == m[-1]:
            return GeoPolygon([C(p) for p in m])
        return GeoLineString([C(p) for p in m])
    shapes = [shape(m, i) for i, m in enumerate(members)]
    if kind == 'mpoint':
        return MultiGeoPoint(shapes).convex_hull()
    if kind == 'mline':
        return MultiGeoLineString(shapes).convex_hull()
    if kind == 'mpoly':
        return MultiGeoPolygon(shapes).convex_hull()
    if kind == 'track':
        return Track(shapes).convex_hull
    return FeatureCollection(shapes).convex_hull


def replay(path):
    r = json.load(open(path))
    m = r.get('case') or {}
    pts = (r.get('shrunk') or {}).get('pts') or m.get('pts')
    if pts is None:
        print(json.dumps(r, indent=1)); return
    pts = [tuple(p) for p in pts]
    set_frame((r.get('shrunk') or {}).get('frame') or m.get('frame') or IDENT)
    out = guarded(lambda: impl_hull(pts))
    print(f'configuration (grid units): {pts}; frame base=({FRAME[0]}, {FRAME[1]}) step=2^-{FRAME[2]} degrees')
    print('coordinates fed to the library:', [tuple(float(v) for v in val(p)) for p in pts])
    print('_geometry.convex_hull now:', out)
    print('reference (mirror of the Coq model):', ref_hull(pts))
    if out[0] == 'Ok':
        print('property clauses violated now:', oracle_here(pts, out[1]))
    lits = [f'KHull {ptslit(pts)} {ptslit(out[1]) if out[0] == "Ok" else "[]"}']
    evals = [f'hull {ptslit(pts)}']
    if m.get('k') == 'entry':
        set_frame(m.get('frame') or IDENT)
        ms = [[tuple(p) for p in x] for x in m['members']]
        if m.get('history'):            # a call history: re-run it, show every collection of the pool, judge the target
            print('history:', json.dumps(m['history']))
            res = run_history(m['history'])
            for ti, (how, hms, hr, hcl) in enumerate(res):
                hflat = [p for x in (hms or []) for p in x]
                print(f'  pool[{ti}] = {how}: members {hms} hull {hr} clauses',
                      list(hcl) + (oracle_here(hflat, hr[1]) if hr and hr[0] == 'Ok' else []))
            how, hms, eo, _ = res[m['target']]
            ms = hms or ms
            eo = eo or ('Err', 'OtherError')
        elif m.get('member_specs'):       # the members as they were built (kind, points, repetitions, hour)
            specs = [(k_, [tuple(p) for p in pts_], rep_, hr_) for k_, pts_, rep_, hr_ in m['member_specs']]
            print('members (kind, grid points, repetitions, hour):', specs)
            eo = guarded(lambda: [of_coord(c) for c in build_collection(m['entry'], specs)[0]().outline])
        else:
            eo = guarded(lambda: [of_coord(c) for c in rebuild_entry(m['entry'], ms).outline])
        flat = [p for x in ms for p in x]
        print(f'entry point {m["entry"]} on members {ms} now:', eo)
        if eo[0] == 'Ok':
            print('property clauses violated now:', oracle_here(flat, eo[1]))
        lits.append(f'KEntry {listlit([ptslit(x) for x in ms])} {reslit(eo, ptslit)}')
        evals.append(f'hull_of_members {listlit([ptslit(x) for x in ms])}')
    ck = Check('C10', argv=[])
    fn = os.path.join(ck.rundir, 'replay.v')
    with open(fn, 'w') as f:
        f.write('From GV Require Import Prelude HullM HullK.\n')
        for e in evals:
            f.write(f'Eval vm_compute in ({e}).\n')
        for lit in lits:
            f.write(f'Eval vm_compute in (check ({lit})).\n')
    rc, o = ck.coqc(fn)
    print('Coq model value(s) and verdict(s) of the correspondence check on the current outputs:\n' + o)


if __name__ == '__main__':
    if '--replay' in sys.argv:
        replay(sys.argv[sys.argv.index('--replay') + 1])
    else:
        main()
