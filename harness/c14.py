#!/usr/bin/env python3
"""C14 - GeoJSON export is RFC 7946-shaped and round-trips without touching the input.
See DESIGN.md section 5 / C14.  Model: coq/theories/Model/{RingM,GeoJsonM}.v."""
import copy
import json
import logging
import math
import os
import sys
from datetime import datetime, timedelta, timezone
from fractions import Fraction

sys.path.insert(0, os.path.dirname(os.path.abspath(__file__)))
from lib import Check, guarded, reslit, zlit, blit, listlit, REPO   # noqa: E402
import gen_geojson   # noqa: E402  (tools/: translator tie for the export side: to_geo_interface, linear_rings, properties, to_geojson)
import gen_ring   # noqa: E402  (tools/: translator tie for is_counter_clockwise / GeoPolygon.__init__)

logging.disable(logging.CRITICAL)

from geostructures import (Coordinate, GeoBox, GeoCircle, GeoEllipse, GeoLineString, GeoPoint,   # noqa: E402
                           GeoPolygon, GeoRing, MultiGeoLineString, MultiGeoPoint, MultiGeoPolygon)
from geostructures.collections import FeatureCollection, Track     # noqa: E402
from geostructures.time import TimeInterval                       # noqa: E402
from geostructures.parsers import parse_geojson                   # noqa: E402
from geostructures._geometry import is_counter_clockwise          # noqa: E402

S = 4                       # quarter degrees: the scale of the model's integers
EPOCH = datetime(2020, 1, 1, tzinfo=timezone.utc)
US = timedelta(microseconds=1)
HOUR = 3_600_000_000
SIMPLE = {'point': GeoPoint, 'line': GeoLineString, 'poly': GeoPolygon,
          'mpoint': MultiGeoPoint, 'mline': MultiGeoLineString, 'mpoly': MultiGeoPolygon}
KNAME = {'point': 'KPoint', 'line': 'KLine', 'poly': 'KPoly', 'mpoint': 'KMPoint', 'mline': 'KMLine',
         'mpoly': 'KMPoly'}


# ------------------------------------------------------------------ literals
class Enc:
    """float -> model integer: exact quarter units, or (for curved shapes, whose sampled
    boundary is off every grid and is only moved around by the model) injective labels"""

    def __init__(self, labels=False):
        self.labels = {} if labels else None

    def __call__(self, x):
        if self.labels is not None:
            x = float(x) + 0.0
            return self.labels.setdefault(x, len(self.labels) + 1)
        v = Fraction(x) * S
        if v.denominator != 1:
            raise ValueError(f'{x} is not on the quarter grid')
        return int(v)


def us_of(d):
    if d.tzinfo is None:
        d = d.replace(tzinfo=timezone.utc)
    return (d - EPOCH) // US


def optz(z, enc):
    return 'None' if z is None else f'(Some {zlit(enc(z))})'


def clit(c, enc):
    return f'(mkc {zlit(enc(c[0]))} {zlit(enc(c[1]))} {optz(c[2], enc)})'


def ctuple(co):
    return (co.longitude, co.latitude, co.z)


def rlit(r, enc):
    return listlit([clit(c, enc) for c in r])


def slit(s):
    assert all(32 <= ord(ch) < 127 for ch in s), s
    return '"' + s.replace('"', '""') + '"'


def iso_time(s):
    if 'T' not in s:
        return None
    try:
        return us_of(datetime.fromisoformat(s))
    except ValueError:
        return None


def jlit(o, enc):
    if o is None:
        return 'JNull'
    if isinstance(o, bool):
        return f'(JBool {blit(o)})'
    if isinstance(o, int):
        return f'(JInt {zlit(o)})'
    if isinstance(o, float):
        return f'(JFloat {zlit(enc(o))})'
    if isinstance(o, str):
        t = iso_time(o)
        return f'(JTime {zlit(t)})' if t is not None else f'(JStr {slit(o)})'
    if isinstance(o, datetime):
        return f'(JDt {zlit(us_of(o))})'
    if isinstance(o, (list, tuple)):
        return '(JArr ' + listlit([jlit(x, enc) for x in o]) + ')'
    if isinstance(o, dict):
        return '(JObj ' + dlit(o, enc) + ')'
    raise TypeError(f'no json literal for {type(o)}')


def dlit(d, enc):
    return listlit([f'({slit(k)}, {jlit(v, enc)})' for k, v in d.items()])


def dtlit(dt):
    """dt of a python shape -> option (Z*Z)"""
    if dt is None:
        return 'None'
    return f'(Some ({zlit(us_of(dt.start))}, {zlit(us_of(dt.end))}))'


# ------------------------------------------------------------------ shapes from specs
def Cd(c):
    return Coordinate(c[0], c[1], z=c[2])


def mkdt(d, style=0):
    """None | hours (instant) | (h0, h1); aware / naive / offset datetimes by style"""
    def one(h):
        t = EPOCH + timedelta(hours=h)
        if style % 3 == 1:
            return t.replace(tzinfo=None)
        if style % 3 == 2:
            return t.astimezone(timezone(timedelta(minutes=-330)))
        return t
    if d is None:
        return None
    if isinstance(d, (tuple, list)):
        return TimeInterval(one(d[0]), one(d[1]))
    return one(d)


def build_hole(h):
    if 'o' in h:
        return GeoPolygon([Cd(c) for c in h['o']])
    if 'box' in h:
        return GeoBox(Cd(h['box'][0]), Cd(h['box'][1]))
    return GeoCircle(Cd(h['circle'][0]), h['circle'][1])


def hole_lit(h, hole_obj, enc):
    if 'o' in h:
        return f'(mk_hole 720 {rlit(h["o"], enc)})'
    if 'box' in h:
        return f'(box_ring {clit(h["box"][0], enc)} {clit(h["box"][1], enc)})'
    # a curved hole: its sampled boundary is oracle data
    return rlit([ctuple(c) for c in hole_obj.bounding_coords()], enc)


def build_poly(p, **kw):
    holes = [build_hole(h) for h in p.get('holes', [])]
    return GeoPolygon([Cd(c) for c in p['o']], holes=holes or None, **kw)


def build(spec, style=0):
    k = spec['kind']
    kw = {'dt': mkdt(spec.get('dt'), style), 'properties': copy.deepcopy(spec.get('props') or {})}
    holes = [build_hole(h) for h in spec.get('holes', [])] or None
    if k == 'point':
        return GeoPoint(Cd(spec['c']), **kw)
    if k == 'line':
        return GeoLineString([Cd(c) for c in spec['vs']], **kw)
    if k == 'poly':
        return build_poly(spec, **kw)
    if k == 'mpoint':
        return MultiGeoPoint([GeoPoint(Cd(c)) for c in spec['cs']], **kw)
    if k == 'mline':
        return MultiGeoLineString([GeoLineString([Cd(c) for c in l]) for l in spec['ls']], **kw)
    if k == 'mpoly':
        return MultiGeoPolygon([build_poly(p) for p in spec['ps']], **kw)
    if k == 'box':
        return GeoBox(Cd(spec['nw']), Cd(spec['se']), holes=holes, **kw)
    if k == 'circle':
        return GeoCircle(Cd(spec['c']), spec['r'], holes=holes, **kw)
    if k == 'ellipse':
        return GeoEllipse(Cd(spec['c']), spec['a'], spec['b'], spec['rot'], holes=holes, **kw)
    if k == 'ring':
        return GeoRing(Cd(spec['c']), spec['r0'], spec['r1'], holes=holes, **kw)
    if k == 'wedge':
        return GeoRing(Cd(spec['c']), spec['r0'], spec['r1'], spec['a0'], spec['a1'], holes=holes, **kw)
    raise KeyError(k)


def build_via_history(spec, style=0):
    """the same value as build(spec, style), reached the way long-lived objects reach it: built in an
    older state (other time bounds, stale property values), exported / observed once, then updated IN
    PLACE (set_dt / strip_dt / set_property).  The export that follows must describe the current state
    (C14: 'time bounds and user properties under "properties"'), whatever was observed before."""
    target_dt = mkdt(spec.get('dt'), style)
    target_props = copy.deepcopy(spec.get('props') or {})
    old = dict(spec)
    old['dt'] = (11, 13) if spec.get('dt') is None or style % 2 else None
    old['props'] = {k: 'stale' for k in target_props} if style % 4 < 2 else {}
    obj = build(old, style)
    obj.to_geojson()                      # observed once in the old state (twice: dict and collection paths)
    FeatureCollection([obj]).to_geojson()
    # ... and handed to the other exporters (each is read-only; none may leave a trace in the GeoJSON export)
    def other_exports():
        import io
        import shapefile
        w = shapefile.Writer(shp=io.BytesIO(), shx=io.BytesIO(), dbf=io.BytesIO())
        w.field('ID', 'N')
        w.record(0)
        obj.to_pyshp(w)
        return obj.to_wkt(), obj.to_shapely()
    guarded(other_exports)
    guarded(lambda: (obj.properties, obj.bounds))      # bounds raises for polygons carrying Z
    if target_dt is None:
        obj.strip_dt()
    else:
        obj.set_dt(target_dt)
    for k_, v_ in target_props.items():
        obj.set_property(k_, v_)
    return obj


def poly_lit(p, obj, enc):
    hs = [hole_lit(h, ho, enc) for h, ho in zip(p.get('holes', []), obj.holes)]
    return f'(mk_polygon 720 {rlit(p["o"], enc)} {listlit(hs)})'


def geom_lit(spec, obj, enc, k=None):
    """model literal built from the CONSTRUCTOR arguments (the model normalises itself);
    returns (literal, outer table, inner table)"""
    kd = spec['kind']
    hs = listlit([hole_lit(h, ho, enc) for h, ho in zip(spec.get('holes', []), getattr(obj, 'holes', []))])
    outer, inner = [], []
    if kd == 'point':
        g = f'(GPoint {clit(spec["c"], enc)})'
    elif kd == 'line':
        g = f'(GLine {rlit(spec["vs"], enc)})'
    elif kd == 'poly':
        g = f'(GPoly {poly_lit(spec, obj, enc)})'
    elif kd == 'mpoint':
        g = f'(GMPoint {rlit(spec["cs"], enc)})'
    elif kd == 'mline':
        g = '(GMLine ' + listlit([rlit(l, enc) for l in spec['ls']]) + ')'
    elif kd == 'mpoly':
        g = '(GMPoly ' + listlit([poly_lit(p, o, enc) for p, o in zip(spec['ps'], obj.geoshapes)]) + ')'
    elif kd == 'box':
        g = f'(GBox {clit(spec["nw"], enc)} {clit(spec["se"], enc)} {hs})'
    elif kd in ('circle', 'ellipse'):
        g = f'(GRound 1 {hs})'
        outer = [(1, [ctuple(c) for c in obj.bounding_coords(k=k)])]
    else:
        g = f'({"GRingFull" if kd == "ring" else "GWedge"} 1 {hs})'
        o, i = obj._draw_bounds(k=k)
        outer, inner = [(1, [ctuple(c) for c in o])], [(1, [ctuple(c) for c in i])]
    return g, outer, inner


def tablit(t, enc):
    return listlit([f'({i}, {rlit(r, enc)})' for i, r in t])


def spec_dt_lit(d):
    if d is None:
        return 'None'
    a, b = (d, d) if not isinstance(d, (tuple, list)) else d
    return f'(Some ({zlit(a * HOUR)}, {zlit(b * HOUR)}))'


def shape_lit(spec, obj, enc, k=None):
    g, outer, inner = geom_lit(spec, obj, enc, k)
    props = {kk: v for kk, v in (spec.get('props') or {}).items()}
    return f'(mkshape {g} {spec_dt_lit(spec.get("dt"))} {dlit(props, enc)})', outer, inner


# observed python shape -> model literal (no constructor involved)
def obs_poly(p, enc):
    hs = [rlit([ctuple(c) for c in h.bounding_coords()], enc) for h in p.holes]
    return f'(mkpoly {rlit([ctuple(c) for c in p.outline], enc)} {listlit(hs)})'


def obs_geom(s, enc):
    if isinstance(s, GeoPoint):
        return f'(GPoint {clit(ctuple(s.coordinate), enc)})'
    if isinstance(s, GeoLineString):
        return f'(GLine {rlit([ctuple(c) for c in s.vertices], enc)})'
    if isinstance(s, GeoPolygon):
        return f'(GPoly {obs_poly(s, enc)})'
    if isinstance(s, MultiGeoPoint):
        return f'(GMPoint {rlit([ctuple(p.coordinate) for p in s.geoshapes], enc)})'
    if isinstance(s, MultiGeoLineString):
        return '(GMLine ' + listlit([rlit([ctuple(c) for c in l.vertices], enc) for l in s.geoshapes]) + ')'
    if isinstance(s, MultiGeoPolygon):
        return '(GMPoly ' + listlit([obs_poly(p, enc) for p in s.geoshapes]) + ')'
    if isinstance(s, GeoBox):
        hs = [rlit([ctuple(c) for c in h.bounding_coords()], enc) for h in s.holes]
        return f'(GBox {clit(ctuple(s.nw_bound), enc)} {clit(ctuple(s.se_bound), enc)} {listlit(hs)})'
    raise TypeError(type(s))


def obs_shape(s, enc):
    return f'(mkshape {obs_geom(s, enc)} {dtlit(s.dt)} {dlit(s._properties, enc)})'


def obs_parsed(r, enc):
    if isinstance(r, (FeatureCollection, Track)):
        return '(PShapes ' + listlit([obs_shape(x, enc) for x in r.geoshapes]) + ')'
    return f'(PShape {obs_shape(r, enc)})'


# ------------------------------------------------------------------ generators
def area2(r):
    """doubled signed area of a ring given as (lon, lat, z) tuples, closed implicitly"""
    pts = [(Fraction(c[0]), Fraction(c[1])) for c in r]
    return sum(a[0] * b[1] - b[0] * a[1] for a, b in zip(pts, pts[1:] + pts[:1]))


ZS = [0.25, 5.0, -3.5, 100.0]
REPEAT_P = 0.35
REPEAT_PATTERNS = ['first', 'interior', 'triple', 'last', 'two', 'all', 'zonly', 'zonly-first']


def with_repeats(rng, ring, pattern=None):
    """an OPEN ring (list of (lon, lat, z)) with some vertex written several times IN A ROW.
    Mechanism class: anything between the constructor and the exported / re-imported document that
    normalises a coordinate sequence (drops 'redundant' consecutive positions, de-duplicates, simplifies):
    the outline, `==`, linear_rings, WKT, GeoJSON and the Shapely form all keep every vertex the caller gave.
    'zonly*' repeats the position with another Z: those two are DIFFERENT coordinates (Coordinate.__eq__
    compares Z), so not even a writer that merges equal neighbours may merge them."""
    out = list(ring)
    pat = pattern or rng.choice(REPEAT_PATTERNS)
    if pat.startswith('zonly') and out[0][2] is None:
        pat = 'first' if pat == 'zonly-first' else 'interior'
    i = rng.randrange(1, len(out)) if len(out) > 1 else 0
    if pat == 'first':
        out[0:1] = [out[0]] * 2
    elif pat == 'interior':
        out[i:i + 1] = [out[i]] * 2
    elif pat == 'triple':
        out[i:i + 1] = [out[i]] * rng.choice([3, 3, 4])
    elif pat == 'last':
        out.append(out[-1])
    elif pat == 'two':
        out[i:i + 1] = [out[i]] * 2
        out[0:1] = [out[0]] * rng.choice([2, 3])
    elif pat == 'all':
        out = [c for c in out for _ in (0, 1)]
    else:
        j = 0 if pat == 'zonly-first' else i
        x, y, z = out[j]
        out[j:j + 1] = [out[j], (x, y, rng.choice([v for v in ZS if v != z]))]
    return out


def rand_ring(rng, cx, cy, rad, n, zmode=None, closed=None, orient=None, repeats=0):
    """star-shaped ring on the quarter grid with non-zero area; random start, winding, closing; with probability
    `repeats` (C13 / C14 pass REPEAT_P; 0 = never, and then the random stream is the one other users of this
    generator have always seen) the ring has consecutive repeated vertices (with_repeats), and a closed ring
    may also write its closing vertex twice"""
    for _ in range(50):
        angs = sorted(rng.uniform(0, 2 * math.pi) for _ in range(n))
        pts = []
        for a in angs:
            r = rad * rng.uniform(0.5, 1.0)
            p = (round((cx + r * math.cos(a)) * S) / S, round((cy + r * math.sin(a)) * S) / S)
            if p not in pts:
                pts.append(p)
        if len(pts) >= 3 and area2([(x, y, None) for x, y in pts]) != 0:
            break
    else:
        pts = [(cx, cy), (cx + 1.0, cy), (cx, cy + 1.0)]
    if (rng.random() < 0.5) if orient is None else orient:
        pts.reverse()
    z = None
    if zmode == 'z':
        z = rng.choice(ZS)
    out = [(x, y, z) for x, y in pts]
    rep = bool(repeats) and rng.random() < repeats
    if rep:
        out = with_repeats(rng, out)
    if (rng.random() < 0.7) if closed is None else closed:
        out.append(out[0])
        if rep and rng.random() < 0.2:
            out.append(out[0])          # [A, ..., A, A]: the closing vertex twice
    return out


def rand_center(rng):
    return rng.randrange(-140, 141) * 1.0, rng.randrange(-60, 61) * 1.0


def rand_coord(rng, zmode=None):
    z = None
    if zmode == 'z':
        z = rng.choice([0.25, 5.0, -3.5, 100.0])
    return (rng.randrange(-179 * S, 179 * S + 1) / S, rng.randrange(-89 * S, 89 * S + 1) / S, z)


def rand_path(rng, n, zmode=None):
    """vertices of a linestring; some (REPEAT_P / 2) stand still for a step or more (same mechanism class as
    with_repeats: a path is the sequence of vertices it was given)"""
    vs = [rand_coord(rng, zmode) for _ in range(n)]
    if rng.random() < REPEAT_P / 2:
        vs = with_repeats(rng, vs, rng.choice(['first', 'interior', 'triple', 'last', 'zonly']))
    return vs


def rand_poly_spec(rng, zmode=None, nholes=None):
    cx, cy = rand_center(rng)
    rad = rng.choice([1.0, 3.0, 8.0, 15.0])
    p = {'o': rand_ring(rng, cx, cy, rad, rng.randint(3, 8), zmode, repeats=REPEAT_P)}
    nh = rng.choice([0, 0, 1, 2]) if nholes is None else nholes
    hs = []
    for j in range(nh):
        hx, hy = cx + (j - 0.5) * rad * 0.25, cy
        if rng.random() < 0.8:
            # a hole's Z is independent of the shell's: shell 2-D with a 3-D hole and the other way round
            # (mechanism class: dimension decided from the shell and applied to every ring)
            hs.append({'o': rand_ring(rng, round(hx * S) / S, hy, max(rad * 0.2, 0.75), rng.randint(3, 5),
                                      rng.choice([None, zmode, 'z']), repeats=REPEAT_P)})
        else:
            x0, y0 = round(hx * S) / S, hy
            hs.append({'box': ((x0, y0 + 0.5, None), (x0 + 0.5, y0, None))})
    if hs:
        p['holes'] = hs
    return p


T_A, T_B = EPOCH + timedelta(hours=30), EPOCH + timedelta(days=2, microseconds=5)
PROPS = [None, {}, {'a': 1}, {'name': 'x "q"', 'n': 2.5, 'flag': True, 'none': None},
         {'nested': {'l': [1, 2.25, 'y'], 'd': {'k': False}}, 'b': -7},
         # datetime values at every depth and in every container (JSON-serialisable means all of them become text)
         {'seen': T_A}, {'passes': [T_A, T_B]}, {'id': 7, 'source': {'id': 7, 'passes': [T_A, T_B]}},
         {'log': [[T_A], [1, [T_B]]], 'recs': [{'at': T_B, 'n': 1}, {'n': 2}]}, {'t': T_A, 'l': [T_B], 'd': {'x': [T_A]}}]
UPS = [None, None, {}, {'a': 2}, {'extra': 'v', 'n': 0.5}, {'datetime_start': 'override'}]
DTS = [None, 3, (1, 5), (2, 2), None, 0]


def rand_spec(rng, kind, zmode=None):
    if kind == 'point':
        sp = {'kind': 'point', 'c': rand_coord(rng, zmode)}
    elif kind == 'line':
        sp = {'kind': 'line', 'vs': rand_path(rng, rng.randint(2, 6), zmode)}
    elif kind == 'poly':
        sp = dict(rand_poly_spec(rng, zmode), kind='poly')
    elif kind == 'mpoint':
        cs = []
        while len(cs) < rng.randint(1, 4):
            c = rand_coord(rng, zmode)
            if c not in cs:
                cs.append(c)
        sp = {'kind': 'mpoint', 'cs': cs}
    elif kind == 'mline':
        sp = {'kind': 'mline', 'ls': [rand_path(rng, rng.randint(2, 5), zmode) for _ in range(rng.randint(1, 4))]}
    elif kind == 'mpoly':
        sp = {'kind': 'mpoly', 'ps': [rand_poly_spec(rng, zmode) for _ in range(rng.randint(1, 4))]}
    elif kind == 'box':
        x, y = rand_center(rng)
        w, h = rng.choice([0.25, 1.0, 7.5]), rng.choice([0.25, 2.0, 6.0])
        z1, z2 = (rng.choice([None, 2.0]), rng.choice([None, 3.0, 0.0])) if zmode else (None, None)
        sp = {'kind': 'box', 'nw': (x, y + h, z1), 'se': (x + w, y, z2)}
        if rng.random() < 0.4:
            sp['holes'] = [{'o': rand_ring(rng, x + w / 2, y + h / 2, 0.75, 4, rng.choice([None, zmode, 'z']), repeats=REPEAT_P)}]
    else:
        raise KeyError(kind)
    sp['dt'] = rng.choice(DTS)
    sp['props'] = copy.deepcopy(rng.choice(PROPS))
    return sp


# fixed corpus of curved shapes (closure / orientation of their sampled boundary are float
# facts no theorem decides: never explored with seeded random inputs, DESIGN 2.3)
def curved_corpus():
    out = []
    sqh = {'o': [(10.0, 10.0, None), (10.25, 10.0, None), (10.25, 10.25, None), (10.0, 10.25, None), (10.0, 10.0, None)]}
    for i, (c, r) in enumerate([((0.0, 0.0, None), 1000.0), ((10.0, 10.0, None), 50000.0), ((-120.5, 61.25, None), 250.0),
                                ((100.0, -45.0, None), 123456.0), ((179.0, 0.0, None), 1000.0)]):
        out.append({'kind': 'circle', 'c': c, 'r': r})
        out.append({'kind': 'ellipse', 'c': c, 'a': r * 2, 'b': r, 'rot': 30.0 * i})
        out.append({'kind': 'ring', 'c': c, 'r0': r / 2, 'r1': r})
        out.append({'kind': 'wedge', 'c': c, 'r0': r / 2, 'r1': r, 'a0': 10.0 + 40 * i, 'a1': 100.0 + 50 * i})
    out.append({'kind': 'circle', 'c': (10.125, 10.125, None), 'r': 50000.0, 'holes': [sqh]})
    out.append({'kind': 'circle', 'c': (10.125, 10.125, None), 'r': 50000.0,
                'holes': [{'circle': ((10.125, 10.125, None), 500.0)}]})
    out.append({'kind': 'ring', 'c': (10.125, 10.125, None), 'r0': 30000.0, 'r1': 60000.0, 'holes': [sqh]})
    out.append({'kind': 'wedge', 'c': (10.125, 10.125, None), 'r0': 1000.0, 'r1': 90000.0, 'a0': 0.0, 'a1': 90.0,
                'holes': [sqh]})
    out.append({'kind': 'ellipse', 'c': (10.125, 10.125, None), 'a': 90000.0, 'b': 50000.0, 'rot': 45.0, 'holes': [sqh]})
    sqhz = {'o': [(x, y, 60.0) for x, y, _ in sqh['o']]}      # 3-D hole in a 2-D curved shell
    out.append({'kind': 'circle', 'c': (10.125, 10.125, None), 'r': 50000.0, 'holes': [sqhz]})
    out.append({'kind': 'ring', 'c': (10.125, 10.125, None), 'r0': 30000.0, 'r1': 60000.0, 'holes': [sqhz]})
    out.append({'kind': 'ellipse', 'c': (10.125, 10.125, None), 'a': 90000.0, 'b': 50000.0, 'rot': 45.0, 'holes': [sqhz]})
    # pie slices: a wedge with inner radius 0 draws its centre once per arc step, i.e. its polygon form has a run of
    # k + 1 identical vertices (same mechanism class as with_repeats); appended last so the entries above keep their dt / props
    out.append({'kind': 'wedge', 'c': (10.125, 10.125, None), 'r0': 0.0, 'r1': 50000.0, 'a0': 10.0, 'a1': 100.0})
    out.append({'kind': 'wedge', 'c': (-120.5, 61.25, None), 'r0': 0.0, 'r1': 250.0, 'a0': 300.0, 'a1': 420.0})
    out.append({'kind': 'wedge', 'c': (179.0, 0.0, None), 'r0': 0.0, 'r1': 1000.0, 'a0': 45.0, 'a1': 46.0})
    out.append({'kind': 'wedge', 'c': (100.0, -45.0, 50.0), 'r0': 0.0, 'r1': 123456.0, 'a0': 0.0, 'a1': 359.0})
    out.append({'kind': 'wedge', 'c': (10.125, 10.125, None), 'r0': 0.0, 'r1': 90000.0, 'a0': 0.0, 'a1': 90.0, 'holes': [sqh]})
    for j, sp in enumerate(out):
        sp['dt'] = DTS[j % len(DTS)]
        sp['props'] = copy.deepcopy(PROPS[j % len(PROPS)])
    return out


def repeat_corpus():
    """fixed corpus (every run, every seed): vertex-defined shapes whose rings / paths write a vertex several times in a row -
    every REPEAT_PATTERN on a square shell (both windings, closed and not), with Z, in a hole, in one of two holes, in a
    member of a multi-polygon, in a hole of a box, in linestrings.  On the quarter grid."""
    def C(x, y, z=None):
        return (x, y, z)
    A, B, Cc, D = C(0.0, 0.0), C(4.0, 0.0), C(4.0, 4.0), C(0.0, 4.0)
    h = [C(1.0, 1.0), C(2.0, 1.0), C(2.0, 2.0), C(1.0, 2.0)]
    h2 = [C(2.5, 2.5), C(3.5, 2.5), C(3.0, 3.5)]
    tri = [C(10.0, 10.0), C(11.0, 10.0), C(11.0, 11.0)]
    rings = {
        'first': [A, A, B, Cc, D, A], 'interior': [A, B, B, Cc, D, A], 'triple': [A, B, B, B, Cc, D, A], 'last': [A, B, Cc, D, D, A],
        'closing-twice': [A, B, Cc, D, A, A], 'first-unclosed': [A, A, B, Cc, D], 'last-unclosed': [A, B, Cc, D, D],
        'two': [A, A, B, Cc, Cc, D, A], 'all': [A, A, B, B, Cc, Cc, D, D, A, A], 'clockwise': [A, D, D, Cc, B, A],
        'clockwise-first-unclosed': [A, A, D, Cc, B],
    }
    out = [{'kind': 'poly', 'o': r, 'label': 'shell:' + name} for name, r in rings.items()]
    z = lambda r, v=7.25: [(x, y, v) for x, y, _ in r]      # noqa: E731
    out.append({'kind': 'poly', 'o': z(rings['interior']), 'label': 'shell-z:interior'})
    out.append({'kind': 'poly', 'o': z(rings['first']), 'label': 'shell-z:first'})
    zo = z([A, B, Cc, D, A])
    out.append({'kind': 'poly', 'o': zo[:2] + [(4.0, 0.0, 5.0)] + zo[2:], 'label': 'shell-z:z-only (different coordinates: all kept)'})
    out.append({'kind': 'poly', 'o': [zo[0], (0.0, 0.0, 100.0)] + zo[1:], 'label': 'shell-z:z-only-first'})
    sq = [A, B, Cc, D, A]
    out.append({'kind': 'poly', 'o': sq, 'holes': [{'o': [h[0], h[1], h[1], h[2], h[3], h[0]]}], 'label': 'hole:interior'})
    out.append({'kind': 'poly', 'o': sq, 'holes': [{'o': [h[0], h[0], h[1], h[2], h[3]]}], 'label': 'hole:first-unclosed'})
    out.append({'kind': 'poly', 'o': sq, 'holes': [{'o': h + [h[0]]}, {'o': [h2[0], h2[1], h2[1], h2[1], h2[2], h2[0]]}],
                'label': 'hole:triple in the second of two'})
    out.append({'kind': 'poly', 'o': rings['two'], 'holes': [{'o': z([h[0], h[1], h[2], h[2], h[3], h[0]], 60.0)}],
                'label': 'shell and 3-D hole'})
    out.append({'kind': 'mpoly', 'ps': [{'o': rings['interior'], 'holes': [{'o': [h[0], h[1], h[2], h[3], h[3], h[0]]}]},
                                        {'o': [tri[0], tri[0], tri[1], tri[2]]}], 'label': 'multi-polygon members'})
    out.append({'kind': 'box', 'nw': C(0.0, 4.0), 'se': C(4.0, 0.0), 'holes': [{'o': [h[0], h[1], h[1], h[2], h[3], h[0]]}],
                'label': 'box hole'})
    out.append({'kind': 'line', 'vs': [A, B, B, Cc], 'label': 'line:interior'})
    out.append({'kind': 'line', 'vs': [A, A, A, B], 'label': 'line:first'})
    out.append({'kind': 'line', 'vs': z([A, B, Cc, Cc]), 'label': 'line-z:last'})
    out.append({'kind': 'mline', 'ls': [[A, B, B], [Cc, Cc, D, A]], 'label': 'multi-linestring members'})
    for j, sp in enumerate(out):
        sp['dt'] = DTS[j % len(DTS)]
        sp['props'] = copy.deepcopy(PROPS[j % len(PROPS)])
    return out


# ------------------------------------------------------------------ the property on the implementation
def has_z0(spec):
    def cs():
        for key in ('c', 'nw', 'se'):
            if key in spec and isinstance(spec[key], tuple):
                yield spec[key]
        for key in ('vs', 'cs', 'o'):
            yield from spec.get(key, [])
        for l in spec.get('ls', []):
            yield from l
        for p in spec.get('ps', []):
            yield from p['o']
    return any(c[2] is not None and c[2] == 0 for c in cs())


PREDICATES = {'z_zero': lambda case: has_z0(case['spec'])}


def rfc_shape_violations(g, expect_id=None):
    """RFC 7946 shape of an exported Feature: members, position arity, closed rings, winding"""
    bad = []
    if g.get('type') != 'Feature' or not isinstance(g.get('properties'), dict) or 'geometry' not in g:
        return [('export_shape', 'not a Feature with geometry and properties members')]
    if expect_id is not None and g.get('id') != expect_id:
        bad.append(('export_shape', f'feature id {g.get("id")} is not its index {expect_id}'))
    geom = g['geometry']
    t, cs = geom.get('type'), geom.get('coordinates')
    depth = {'Point': 0, 'LineString': 1, 'MultiPoint': 1, 'Polygon': 2, 'MultiLineString': 2, 'MultiPolygon': 3}
    if t not in depth:
        return bad + [('export_shape', f'geometry type {t!r}')]

    def positions(x, d):
        if d == 0:
            yield x
        else:
            for y in x:
                yield from positions(y, d - 1)
    for p in positions(cs, depth[t]):
        if not (isinstance(p, list) and len(p) in (2, 3) and all(isinstance(v, (int, float)) and not isinstance(v, bool) for v in p)):
            bad.append(('export_shape', f'position {p!r} is not [lon, lat] or [lon, lat, z]'))
            break
    polys = [cs] if t == 'Polygon' else cs if t == 'MultiPolygon' else []
    for rings in polys:
        for i, r in enumerate(rings):
            if len(r) < 2 or r[0] != r[-1]:
                bad.append(('rings_closed', f'ring {i} is not closed: {r[0]} ... {r[-1]}'))
                continue
            a2 = sum(Fraction(a[0]) * Fraction(b[1]) - Fraction(b[0]) * Fraction(a[1]) for a, b in zip(r, r[1:]))
            if i == 0 and a2 < 0:
                bad.append(('exterior_ccw_holes_cw', f'exterior ring is clockwise (2*area = {float(a2)})'))
            if i > 0 and a2 > 0:
                bad.append(('exterior_ccw_holes_cw', f'hole ring {i} is counter-clockwise (2*area = {float(a2)})'))
    return bad


def json_image(o):
    """what a property value is after one trip through JSON (independent of sanitize_json): datetimes at any
    depth become their ISO text, containers are rebuilt"""
    if isinstance(o, datetime):
        return o.isoformat()
    if isinstance(o, dict):
        return {k: json_image(v) for k, v in o.items()}
    if isinstance(o, (list, tuple)):
        return [json_image(v) for v in o]
    return o


def roundtrip_violations(spec, obj, ups):
    """export -> import identity, purity of the import, double import, text path"""
    bad = []
    cls = SIMPLE[spec['kind']]
    g = obj.to_geojson(properties=copy.deepcopy(ups))
    try:
        text = json.dumps(g)
    except (TypeError, ValueError) as ex:
        return [('json_serialisable', f'json.dumps raised {ex!r}')]
    g0 = copy.deepcopy(g)
    want_props = dict(obj._properties)
    want_props.update(ups or {})
    want_props = json_image(want_props)       # datetime VALUES inside properties are text in any JSON document
    results = []
    for how, fn in (('parse_geojson(dict)', lambda: parse_geojson(g)), ('Type.from_geojson(dict)', lambda: cls.from_geojson(g)),
                    ('parse_geojson(dict) again', lambda: parse_geojson(g)), ('parse_geojson(text)', lambda: parse_geojson(text))):
        r = guarded(fn)
        if r[0] != 'Ok':
            bad.append(('geojson_roundtrip', f'{how} raised {r[1]}'))
            continue
        b = r[1]
        results.append(b)
        if g != g0:
            bad.append(('import_pure', f'{how} modified the caller\'s document'))
            g = copy.deepcopy(g0)
        if not (b == obj and obj == b):
            bad.append(('geojson_roundtrip', f'{how}: imported shape != original'))
        if b.dt != obj.dt:
            bad.append(('geojson_roundtrip', f'{how}: dt {b.dt} != {obj.dt}'))
        if b._properties != want_props:
            bad.append(('geojson_roundtrip', f'{how}: properties {b._properties} != {want_props}'))
    if len(results) >= 3 and not (results[0] == results[2] and results[0].dt == results[2].dt
                                  and results[0]._properties == results[2]._properties):
        bad.append(('import_twice_equal', 'two imports of one document object differ'))
    return bad


# ------------------------------------------------------------------ import histories
# Mechanism class: any state that outlives one import and is reachable from the next - a cache of decoded text, memoised
# result shapes, containers of one import handed to another (shallow copies of `properties`), time bounds or property
# dicts shared between results.  The statement makes the import a FUNCTION of the document ("importing the same document
# twice gives equal results"): whatever the program does to the shapes it got from earlier imports - edit nested property
# values in place through the public accessor, set_property, set_dt / strip_dt - a later import of the same (unchanged)
# document still returns what the document says, and the earlier results keep the state their owner gave them.
RESERVED = ('datetime_start', 'datetime_end')
TEXT_ROUTES = ('text', 'text-copy', 'text-spaced', 'fresh-dict')      # the caller keeps no dict that a result could alias
DICT_ROUTES = ('dict', 'type-dict')                                   # imports of one long-lived dict object
EDITS = ('nested', 'nested', 'top', 'dt', 'none')


def rand_json(rng, depth):
    """a JSON value over the model's alphabet (ints, quarter-grid floats, ASCII strings, booleans, null, arrays, objects)"""
    if depth <= 0 or rng.random() < 0.3:
        return rng.choice([1, -7, 0, 2.5, 0.25, 'x', 'tag', '', True, False, None])
    if rng.random() < 0.5:
        return [rand_json(rng, depth - 1) for _ in range(rng.randint(0, 3))]
    return {f'{rng.choice("abcde")}{i}': rand_json(rng, depth - 1) for i in range(rng.randint(0, 3))}


def rand_nested_props(rng):
    """user properties with at least one nested list and one nested dict (lists in dicts in lists ... up to depth 3)"""
    p = {'name': f'shape-{rng.randrange(100)}', 'tags': [rand_json(rng, 1) for _ in range(rng.randint(0, 3))],
         'meta': {'rev': rng.randrange(9), 'history': [rand_json(rng, 2) for _ in range(rng.randint(0, 2))]}}
    for i in range(rng.randint(0, 2)):
        p[f'p{i}'] = rand_json(rng, 3)
    if rng.random() < 0.3:
        p['seen'] = [T_A, {'at': T_B}]           # datetime values: text in the document
    return p


def containers(v):
    """every list / dict strictly inside a mapping or sequence (the objects an in-place edit can reach)"""
    out = []
    for x in (v.values() if isinstance(v, dict) else v):
        if isinstance(x, (list, dict)):
            out.append(x)
            out += containers(x)
    return out


def edit_nested(hr, shape):
    """in-place edits of nested property values, reached the way user code reaches them: shape.properties[...]"""
    cs = containers(shape.properties)
    done = []
    if not cs:
        return done
    for c in hr.sample(cs, hr.randint(1, len(cs))):
        if isinstance(c, list):
            op = hr.choice(['append', 'insert', 'pop', 'clear', 'reverse', 'setitem'])
            if op == 'append':
                c.append('edited-after-import')
            elif op == 'insert':
                c.insert(0, {'by': 'x', 'n': 999})
            elif op == 'pop' and c:
                c.pop()
            elif op == 'clear':
                c.clear()
            elif op == 'reverse' and len(c) > 1 and c != c[::-1]:
                c.reverse()
            elif op == 'setitem' and c:
                c[0] = 'changed'
            else:
                c.append(None)
                op = 'append-null'
        else:
            op = hr.choice(['new-key', 'overwrite', 'delete', 'clear'])
            if op == 'overwrite' and c:
                c[next(iter(c))] = 'changed'
            elif op == 'delete' and c:
                del c[next(iter(c))]
            elif op == 'clear' and c:
                c.clear()
            else:
                c['edited'] = [1]
                op = 'new-key'
        done.append(op)
    return done


def shape_state(s):
    """everything the owner of an imported shape can observe of it (deep copy)"""
    return (copy.deepcopy(s._properties), None if s.dt is None else (s.dt.start, s.dt.end), s.to_wkt())


def make_history_doc(specs, style, fc):
    """the document under test and what it says: built from specs; the truth is the specs' shapes (never handed to
    anything else) and an independent decoding of the text"""
    objs = [build(sp, style + j) for j, sp in enumerate(specs)]
    g = FeatureCollection(objs).to_geojson() if fc else objs[0].to_geojson()
    return {'objs': objs, 'g': g, 'g0': copy.deepcopy(g), 'text': json.dumps(g), 'fc': fc, 'cls': None if fc else SIMPLE[specs[0]['kind']]}


def run_import_history(docs, steps, hseed):
    """steps: (doc index, route, edit).  Returns ([(clause, detail)], counters)."""
    import random
    hr = random.Random(hseed)
    bad, counts = [], {}
    earlier = []          # (label, shapes, [state after its owner's edit])
    imported = [0] * len(docs)

    def truth(d):
        doc = json.loads(d['text'])             # independent decoder, every time
        feats = doc['features'] if d['fc'] else [doc]
        return [{k: v for k, v in (f.get('properties') or {}).items() if k not in RESERVED} for f in feats]

    def do_import(d, route):
        if route == 'text':
            return parse_geojson(d['text'])
        if route == 'text-copy':
            return parse_geojson((d['text'] + ' ')[:-1])           # an equal string, another object
        if route == 'text-spaced':
            return parse_geojson(json.dumps(json.loads(d['text']), indent=1))       # the same document, other text
        if route == 'fresh-dict':
            return parse_geojson(json.loads(d['text']))
        if route == 'dict':
            return parse_geojson(d['g'])
        return (FeatureCollection if d['fc'] else d['cls']).from_geojson(d['g'])

    for n, (di, route, edit) in enumerate(steps):
        d = docs[di]
        label = f'step {n}: import of document {di} ({route})'
        r = guarded(lambda: do_import(d, route))
        if r[0] != 'Ok':
            bad.append(('geojson_roundtrip', f'{label} raised {r[1]}'))
            continue
        shapes = list(r[1].geoshapes) if d['fc'] else [r[1]]
        clause = 'import_twice_equal' if imported[di] else 'geojson_roundtrip'
        imported[di] += 1
        want = truth(d)
        if len(shapes) != len(d['objs']):
            bad.append((clause, f'{label}: {len(shapes)} shapes, the document has {len(d["objs"])}'))
            continue
        for j, (b, o, w) in enumerate(zip(shapes, d['objs'], want)):
            pub = {k: v for k, v in b.properties.items() if k not in RESERVED}
            if b._properties != w or pub != w:
                bad.append((clause, f'{label}: feature {j} has properties {pub}, the document says {w}'))
            if b.dt != o.dt:
                bad.append((clause, f'{label}: feature {j} has dt {b.dt}, the document says {o.dt}'))
            if not (b == o and o == b):
                bad.append((clause, f'{label}: feature {j} != the shape the document was written from'))
        if d['g'] != d['g0']:
            bad.append(('import_pure', f'{label} modified the caller\'s document'))
            d['g'] = copy.deepcopy(d['g0'])
        for elabel, eshapes, estates in earlier:
            if [shape_state(x) for x in eshapes] != estates:
                bad.append(('import_twice_equal', f'{label} changed the result of {elabel}'))
        # the owner of this result now uses it
        if edit == 'nested' and route in DICT_ROUTES:
            edit = 'top'        # (nested values of a dict import are the caller's own objects on the unchanged tree: reported, not judged here)
        done = []
        for b in shapes:
            if edit == 'nested':
                done += edit_nested(hr, b)
            elif edit == 'top':
                b.set_property('edited', n)
                for k in list(b._properties)[:1]:
                    b.set_property(k, 'overwritten')
            elif edit == 'dt':
                if b.dt is None or hr.random() < 0.5:
                    b.set_dt(mkdt((7 + n, 9 + n)))
                else:
                    b.strip_dt()
        counts[f'{route}:{edit}'] = counts.get(f'{route}:{edit}', 0) + 1
        if d['g'] != d['g0']:
            bad.append(('import_pure', f'after {label}, editing the imported shape ({edit}: {done}) changed the caller\'s document'))
            d['g'] = copy.deepcopy(d['g0'])
        for elabel, eshapes, estates in earlier:
            if [shape_state(x) for x in eshapes] != estates:
                bad.append(('import_twice_equal', f'editing the result of {label} ({edit}: {done}) changed the result of {elabel}'))
        earlier.append((label, shapes, [shape_state(x) for x in shapes]))
    return bad, counts


def rand_history(rng, quick):
    """1-3 documents (single features of every kind, collections), each imported 3-6 times, interleaved.  Every document
    is first imported from text and its nested property values edited in place, then imported from text again."""
    kinds = ['point', 'line', 'poly', 'mpoint', 'mline', 'mpoly']
    dspecs = []
    for _ in range(rng.choice([1, 1, 2, 3])):
        fc = rng.random() < 0.3
        specs = [rand_spec(rng, rng.choice(kinds)) for _ in range(rng.randint(1, 3) if fc else 1)]
        for sp in specs:
            sp['props'] = rand_nested_props(rng)
            if has_z0(sp):
                sp.update(rand_spec(rng, 'point'), props=sp['props'])
        dspecs.append({'specs': specs, 'style': rng.randrange(6), 'fc': fc})
    per_doc = []
    for di in range(len(dspecs)):
        seq = [(di, 'text', 'nested'), (di, rng.choice(['text', 'text-copy']), rng.choice(EDITS))]
        seq += [(di, rng.choice(TEXT_ROUTES + DICT_ROUTES), rng.choice(EDITS)) for _ in range(rng.randint(1, 4))]
        seq.append((di, rng.choice(['text', 'dict']), 'none'))
        per_doc.append(seq)
    steps = []
    while any(per_doc):
        seq = rng.choice([q for q in per_doc if q])
        steps.append(seq.pop(0))
    return dspecs, steps, rng.randrange(2 ** 32)


# ------------------------------------------------------------------ main
def main():
    ck = Check('C14')
    ck.build_theories(['theories/Props/C14.vo', 'theories/Corr/GeoJsonK.vo'])
    rep = gen_ring.main(REPO, os.path.join(ck.rundir, 'RingGen.v'))   # the shoelace loop and the outline normalisation regenerated ...
    ck.gen('RingGen.v', rep, 'RingGenEq.v')                           # ... proved equal to RingM.is_ccw / norm_ring (mk_polygon, mk_hole) for all rings
    try:
        rep_gj = gen_geojson.main(REPO, os.path.join(ck.rundir, 'GeoJsonGen.v'))
    except Exception as ex:   # noqa
        rep_gj = {'gen_geojson': f'failed({ex!r})'}
    ck.gen('GeoJsonGen.v', rep_gj, 'GeoJsonGenEq.v')
    ck.props('Props/C14.v')
    rng = ck.rng
    quick = ck.tier == 'quick'
    cases, meta = [], []
    pyviol = []      # (meta, clause, detail)
    nontrivial = set()

    def add(lit, m):
        cases.append(lit)
        meta.append(m)
        ck.count(m['op'] + ':' + str(m.get('kind', '')))

    Q = Enc()

    # ---- 1. is_counter_clockwise and the constructor's normalisation
    n_ring = 250 if quick else 3000
    fixed_rings = [
        [(0.0, 0.0, None), (1.0, 0.0, None), (1.0, 1.0, None), (0.0, 1.0, None), (0.0, 0.0, None)],
        [(0.0, 0.0, None), (0.0, 1.0, None), (1.0, 1.0, None), (1.0, 0.0, None)],
        [(0.0, 0.0, None), (1.0, 1.0, None), (2.0, 2.0, None)],                       # zero area
        [(0.0, 0.0, None), (2.0, 0.0, None), (0.0, 0.0, None)],                       # out and back
        [(0.0, 0.0, 1.0), (1.0, 0.0, 1.0), (0.0, 1.0, 1.0), (0.0, 0.0, 2.0)],         # closing vertex differs in z only
        [(179.0, 0.0, None), (-179.0, 0.0, None), (-179.0, 1.0, None), (179.0, 1.0, None)],       # across the antimeridian
        [(179.0, 0.0, None), (179.0, 1.0, None), (-179.0, 1.0, None), (-179.0, 0.0, None)],
        [(170.0, -5.0, None), (-180.0, -5.0, None), (-180.0, 5.0, None), (170.0, 5.0, None)],      # adjusted end lands on 180
        [(-180.0, -5.0, None), (170.0, -5.0, None), (170.0, 5.0, None), (-180.0, 5.0, None)],
        [(5.0, 5.0, None)],
        [(5.0, 5.0, None), (6.0, 5.0, None)],
        # edges spanning exactly 180 degrees of longitude (the antimeridian adjustment applies beyond 180, not at it)
        [(-90.0, 0.0, None), (90.0, 0.0, None), (90.0, 10.0, None), (-90.0, 10.0, None)],
        [(-90.0, 10.0, None), (90.0, 10.0, None), (90.0, 0.0, None), (-90.0, 0.0, None)],
        [(-180.0, -5.0, None), (0.0, -5.0, None), (0.0, 5.0, None), (-180.0, 5.0, None)],
        [(-170.0, 1.0, None), (10.0, 1.0, None), (10.25, 7.0, None), (-170.0, 7.0, None)],
        [(-170.25, 1.0, None), (10.0, 1.0, None), (10.0, 7.0, None)],
    ]
    rings = list(fixed_rings)
    for _ in range(n_ring):
        cx, cy = rand_center(rng)
        if rng.random() < 0.15:
            cx = rng.choice([175.0, -175.0, 178.0])
            r = rand_ring(rng, cx, cy, 8.0, rng.randint(3, 7), rng.choice([None, 'z']), repeats=REPEAT_P)
            r = [(((x + 180) % 360) - 180, y, z) for x, y, z in r]      # wrapped into [-180, 180)
        else:
            r = rand_ring(rng, cx, cy, rng.choice([1.0, 4.0, 15.0]), rng.randint(3, 8), rng.choice([None, None, 'z']), repeats=REPEAT_P)
        if rng.random() < 0.1:       # degenerate: flatten onto one latitude
            r = [(x, r[0][1], z) for x, y, z in r]
        rings.append(r)
    for r in rings:
        cs = [Cd(c) for c in r]
        o = is_counter_clockwise(cs)
        add(f'KCcw {rlit(r, Q)} {blit(o)}', {'op': 'ccw', 'ring': r, 'out': o})
        for hole in (False, True):
            p = GeoPolygon(list(cs), _is_hole=hole)
            out = [ctuple(c) for c in p.outline]
            add(f'KCtor {rlit(r, Q)} {blit(hole)} {rlit(out, Q)}', {'op': 'ctor', 'ring': r, 'is_hole': hole, 'out': out})
        nontrivial.add(('ring', tuple(r)))
    # very small rings (sides of about 2e-6 degrees, a few decimetres): orientation is scale free.  The vertices are
    # 10 + a * 2**-22 with small integers a (dyadic: the float shoelace sum is exact); the model sees the integers a.
    EPS = Fraction(1, 2 ** 22)

    class Tiny:
        labels = None

        def __call__(self, x):
            v = (Fraction(x) - 10) / EPS
            assert v.denominator == 1, x
            return int(v)
    TQ = Tiny()
    for _ in range(40 if quick else 400):
        ir = rand_ring(rng, 8.0, 8.0, 6.0, rng.randint(3, 7), None)
        ir = [(round(x), round(y)) for x, y, _z in ir]
        ir = [p for i_, p in enumerate(ir) if p != ir[i_ - 1]]
        if len(ir) < 3:
            continue
        r = [(float(10 + Fraction(a) * EPS), float(10 + Fraction(b) * EPS), None) for a, b in ir]
        cs = [Cd(c) for c in r]
        o = is_counter_clockwise(cs)
        add(f'KCcw {rlit(r, TQ)} {blit(o)}', {'op': 'ccw', 'ring': r, 'out': o, 'tiny': True})
        for hole in (False, True):
            p = GeoPolygon(list(cs), _is_hole=hole)
            out = [ctuple(c) for c in p.outline]
            add(f'KCtor {rlit(r, TQ)} {blit(hole)} {rlit(out, TQ)}', {'op': 'ctor', 'ring': r, 'is_hole': hole, 'out': out, 'tiny': True})
        nontrivial.add(('tiny-ring', tuple(ir)))
        ck.count('ring:tiny')

    # ---- 2. export of every kind; import of what was exported; the property itself
    kinds = ['point', 'line', 'poly', 'mpoint', 'mline', 'mpoly', 'box']
    per_kind = 40 if quick else 500
    specs = []
    for kind in kinds:
        for i in range(per_kind):
            specs.append(rand_spec(rng, kind, 'z' if i % 4 == 3 else None))
    # regression corpus: D15 (dt present, imported twice), multi with holes, z = 0 (D14, model faithful)
    specs += [
        {'kind': 'point', 'c': (1.0, 2.0, None), 'dt': 3, 'props': {'a': 1}},
        {'kind': 'point', 'c': (1.0, 2.0, 0.0), 'dt': None, 'props': None},
        {'kind': 'line', 'vs': [(0.0, 0.0, 0.0), (1.0, 1.0, 2.0)], 'dt': (1, 2), 'props': {}},
        {'kind': 'mpoly', 'ps': [{'o': [(0.0, 0.0, None), (10.0, 0.0, None), (10.0, 10.0, None), (0.0, 10.0, None)],
                                  'holes': [{'o': [(2.0, 2.0, None), (3.0, 2.0, None), (3.0, 3.0, None), (2.0, 3.0, None)]},
                                            {'o': [(5.0, 5.0, None), (5.0, 6.0, None), (6.0, 6.0, None)]}]},
                                 {'o': [(20.0, 20.0, None), (20.0, 21.0, None), (21.0, 21.0, None), (20.0, 20.0, None)]}],
         'dt': (0, 4), 'props': {'a': 1}},
    ]
    specs += repeat_corpus()     # consecutive repeated vertices (fixed; the seeded specs above carry random ones)
    exported_docs = []
    for n, spec in enumerate(specs):
        kind = spec['kind']
        via_history = n % 5 == 2
        obj = build_via_history(spec, style=n) if via_history else build(spec, style=n)
        ups = copy.deepcopy(UPS[n % len(UPS)])
        kw = [{}, {'id': n}, {'foo': 'bar', 'id': 'x'}][n % 3]
        k = [None, 4, 9][n % 3]
        g = guarded(lambda: obj.to_geojson(properties=copy.deepcopy(ups), k=k, **kw))
        slit_, outer, inner = shape_lit(spec, obj, Q, k)
        m = {'op': 'export', 'kind': kind, 'spec': spec, 'ups': ups, 'kw': kw, 'k': k, 'style': n, 'via_history': via_history}
        if via_history:
            ck.count('export-after-in-place-updates')
        if g[0] != 'Ok':
            pyviol.append((m, 'export_shape', f'to_geojson raised {g[1]}'))
            continue
        g = g[1]
        upl = 'None' if ups is None else f'(Some {dlit(ups, Q)})'
        kl = 'None' if k is None else f'(Some {k})'
        add(f'KExport {tablit(outer, Q)} {tablit(inner, Q)} {slit_} {upl} {kl} {dlit(kw, Q)} {jlit(g, Q)}', m)
        nontrivial.add(('export', json.dumps(spec, sort_keys=True, default=str), json.dumps(ups), k))
        for cl, d in rfc_shape_violations(g):
            pyviol.append((m, cl, d))
        if kind in SIMPLE:
            exported_docs.append((kind, g))
            z0 = has_z0(spec)
            reserved = bool(ups) and any(kk in ups for kk in ('datetime_start', 'datetime_end'))
            if not z0 and not reserved:
                for cl, d in roundtrip_violations(spec, obj, ups):
                    pyviol.append((m, cl, d))

    # ---- 3. curved shapes (fixed corpus): structure of the export w.r.t. the oracle ring; closure and
    #         winding observed on the emitted floats
    for n, spec in enumerate(curved_corpus()):
        for k in (None, 4, 9):
            L = Enc(labels=True)
            obj = build(spec, style=n)
            g = obj.to_geojson(k=k)
            slit_, outer, inner = shape_lit(spec, obj, L, k)
            m = {'op': 'export', 'kind': spec['kind'], 'spec': spec, 'ups': None, 'kw': {}, 'k': k, 'style': n}
            kl = 'None' if k is None else f'(Some {k})'
            add(f'KExport {tablit(outer, L)} {tablit(inner, L)} {slit_} None {kl} [] {jlit(g, L)}', m)
            nontrivial.add(('curved', n, k))
            try:
                json.dumps(g)
            except (TypeError, ValueError) as ex:
                pyviol.append((m, 'json_serialisable', repr(ex)))
            for cl, d in rfc_shape_violations(g):
                pyviol.append((m, cl, d))

    # ---- 3b. multi-polygons with curved members (fixed corpus) x k: each part is exported with the requested k,
    #          i.e. it is the member's own polygon form for that k (the model receives the members as the rings the
    #          implementation samples for THAT k, observed on the member alone)
    mixed_members = [
        lambda: [GeoCircle(Cd((10.125, 10.125, None)), 50000.0), GeoPolygon([Cd(c) for c in [(30.0, 0.0, None), (31.0, 0.0, None), (31.0, 1.0, None)]])],
        lambda: [GeoPolygon([Cd(c) for c in [(0.0, 0.0, None), (1.0, 0.0, None), (1.0, 1.0, None), (0.0, 1.0, None)]]),
                 GeoEllipse(Cd((20.0, -10.0, None)), 90000.0, 50000.0, 45.0), GeoRing(Cd((-40.0, 25.0, None)), 30000.0, 60000.0)],
        lambda: [GeoRing(Cd((5.0, 5.0, None)), 1000.0, 90000.0, 10.0, 95.0)],
    ]
    for n, mk_members in enumerate(mixed_members):
        for k in (None, 4, 9, 36, 60):
            L = Enc(labels=True)
            mp = MultiGeoPolygon(mk_members(), dt=mkdt(DTS[n % len(DTS)], n))
            kw_ = {'k': k} if k else {}
            g = guarded(lambda: mp.to_geojson(**kw_))
            m = {'op': 'export', 'kind': 'mpoly-curved', 'members': [repr(x) for x in mp.geoshapes], 'k': k, 'corpus': n}
            if g[0] != 'Ok':
                pyviol.append((m, 'export_shape', f'to_geojson raised {g[1]}'))
                continue
            g = g[1]
            parts = [obs_poly(x.to_polygon(**kw_) if not isinstance(x, GeoPolygon) else x, L) for x in mk_members()]
            kl = 'None' if k is None else f'(Some {k})'
            add(f'KExport [] [] (mkshape (GMPoly {listlit(parts)}) {spec_dt_lit(DTS[n % len(DTS)])} []) None {kl} [] {jlit(g, L)}', m)
            nontrivial.add(('mpoly-curved', n, k))
            for cl, d in rfc_shape_violations(g):
                pyviol.append((m, cl, d))
            # each part equals the same member exported alone with the same k
            alone = [x.to_geojson(**kw_)['geometry']['coordinates'] for x in mk_members()]
            if g['geometry'].get('coordinates') != alone:
                pyviol.append((m, 'export_shape', f'a part of the multi-polygon differs from the member exported alone with k={k}'))

    # ---- 4. collections
    n_coll = 24 if quick else 200
    homog = [kd for kd in kinds for _ in (0, 1)]      # every run, every seed: type-homogeneous collections with time bounds,
    for n0 in range(len(homog) + n_coll):             # as FeatureCollection and as Track (mechanism class: a fast path of the
        n = n0 - len(homog)                           # collection import / export taken when all members have one geometry type)
        if n0 < len(homog):
            members = [rand_spec(rng, homog[n0]) for _ in range(2 + n0 % 2)]
            track = n0 % 2 == 1
            for j, sp in enumerate(members):
                sp['dt'] = [1, (0, 3), 7][(n0 + j) % 3]
            n = n0 * 3 + 2 if track else n0 * 3       # (keeps `track = n % 3 == 2` below and the per-n choices deterministic)
        else:
            members = [rand_spec(rng, rng.choice(kinds)) for _ in range(rng.randint(0 if n else 1, 4))]
        track = n % 3 == 2
        if track:
            for j, sp in enumerate(members):
                sp['dt'] = rng.choice([1, 2, (0, 3), (5, 6), 7])
        objs = [(build_via_history if (n + j) % 4 == 1 else build)(sp, style=n + j) for j, sp in enumerate(members)]
        coll = Track(objs) if track else FeatureCollection(objs)
        order = [next(i for i, x in enumerate(objs) if x is o) for o in coll.geoshapes]           # Track sorts by start (stable)
        ups = copy.deepcopy(UPS[n % len(UPS)])
        k = [None, 4][n % 2]
        g = coll.to_geojson(properties=copy.deepcopy(ups), k=k)
        lits = [shape_lit(members[i], objs[i], Q, k)[0] for i in order]
        upl = 'None' if ups is None else f'(Some {dlit(ups, Q)})'
        kl = 'None' if k is None else f'(Some {k})'
        m = {'op': 'fc_export', 'members': [members[i] for i in order], 'ups': ups, 'k': k, 'track': track}
        add(f'KFcExport [] [] {listlit(lits)} {upl} {kl} {jlit(g, Q)}', m)
        if g.get('type') != 'FeatureCollection' or not isinstance(g.get('features'), list):
            pyviol.append((m, 'export_shape', 'not a FeatureCollection with a features list'))
        else:
            for i, f in enumerate(g['features']):
                for cl, d in rfc_shape_violations(f, expect_id=i):
                    pyviol.append((m, cl, d))
        try:
            text = json.dumps(g)
        except (TypeError, ValueError) as ex:
            pyviol.append((m, 'json_serialisable', repr(ex)))
            continue
        if all(sp['kind'] in SIMPLE and not has_z0(sp) for sp in members) and not (ups and 'datetime_start' in ups):
            g0 = copy.deepcopy(g)
            for how, fn in (('dict', lambda: parse_geojson(g)), ('dict again', lambda: parse_geojson(g)),
                            ('text', lambda: parse_geojson(text)), ('FeatureCollection.from_geojson', lambda: FeatureCollection.from_geojson(g))):
                r = guarded(fn)
                if r[0] != 'Ok':
                    pyviol.append((m, 'geojson_roundtrip', f'collection import ({how}) raised {r[1]}'))
                    continue
                if g != g0:
                    pyviol.append((m, 'import_pure', f'collection import ({how}) modified the document'))
                    g = copy.deepcopy(g0)
                back = r[1].geoshapes
                if not (len(back) == len(coll.geoshapes) and all(
                        b == o and b.dt == o.dt and b._properties == json_image({**o._properties, **(ups or {})})
                        for b, o in zip(back, coll.geoshapes))):
                    pyviol.append((m, 'geojson_roundtrip', f'collection import ({how}) differs from the collection'))
        exported_docs.append(('fc', g))

    # ---- 4b. import histories (see run_import_history): repeated imports of one document with the earlier results in use
    hist_counts = {}
    fixed_hist = [   # every run: one feature / a collection, text - nested edit - text; dict - top-level edit - dict; dt edits
        ([{'specs': [{'kind': 'point', 'c': (1.0, 2.0, None), 'dt': 3, 'props': {'name': 'shape-3', 'tags': ['a', 'b'],
                                                                                 'meta': {'rev': 1, 'history': [{'by': 'x', 'n': 1}]}}}],
           'style': 0, 'fc': False}],
         [(0, 'text', 'nested'), (0, 'text', 'nested'), (0, 'text-copy', 'dt'), (0, 'dict', 'top'), (0, 'type-dict', 'dt'), (0, 'dict', 'none'),
          (0, 'fresh-dict', 'nested'), (0, 'text-spaced', 'nested'), (0, 'text', 'none')], 1),
        ([{'specs': [{'kind': 'poly', 'o': [(0.0, 0.0, None), (4.0, 0.0, None), (4.0, 4.0, None)], 'dt': (1, 5), 'props': {'l': [[1], {'k': [2]}]}},
                     {'kind': 'line', 'vs': [(0.0, 0.0, None), (1.0, 1.0, None)], 'dt': None, 'props': {'d': {'e': {}}, 'n': None}}],
           'style': 1, 'fc': True}],
         [(0, 'text', 'nested'), (0, 'text-copy', 'nested'), (0, 'type-dict', 'top'), (0, 'dict', 'dt'), (0, 'text', 'dt'), (0, 'text', 'none')], 2),
    ]
    hists = fixed_hist + [rand_history(rng, quick) for _ in range(40 if quick else 400)]
    for hn, (dspecs, steps, hseed) in enumerate(hists):
        docs = [make_history_doc(ds['specs'], ds['style'], ds['fc']) for ds in dspecs]
        m = {'op': 'import_history', 'kind': 'history', 'docs': dspecs, 'steps': steps, 'hseed': hseed}
        hbad, hc = run_import_history(docs, steps, hseed)
        for cl, d_ in hbad:
            pyviol.append((m, cl, d_))
        for k_, v_ in hc.items():
            hist_counts[k_] = hist_counts.get(k_, 0) + v_
        ck.count('import-history')
        nontrivial.add(('history', json.dumps(dspecs, sort_keys=True, default=str), json.dumps(steps)))
        # ... and the model's reading of the (independently decoded) document against one more import from text
        for di, d in enumerate(docs):
            before = json.loads(d['text'])
            r = guarded(lambda: parse_geojson(d['text']))
            add(f'KParse {jlit(before, Q)} {reslit(r, lambda s: obs_parsed(s, Q))} {jlit(before, Q)}',
                dict(m, op='parse-after-history', doc_index=di, doc=before))
    ck.cov['import_history_steps'] = dict(sorted(hist_counts.items()))
    # observed, not judged (reported): a dict import hands the caller's own nested property values to the shape
    probe = {'type': 'Feature', 'geometry': {'type': 'Point', 'coordinates': [1.0, 2.0]}, 'properties': {'tags': ['a']}}
    GeoPoint.from_geojson(probe).properties['tags'].append('b')
    ck.count('observed: nested property values of a dict import are the caller\'s objects'
             if probe['properties']['tags'] == ['a', 'b'] else 'observed: a dict import copies nested property values')

    # ---- 5. import: model vs implementation on exported documents and on a fixed corpus of edge documents
    sq = [[0.0, 0.0], [1.0, 0.0], [1.0, 1.0], [0.0, 1.0], [0.0, 0.0]]
    sq_cw = list(reversed(sq))
    hole_cw = [[0.25, 0.25], [0.25, 0.5], [0.5, 0.5], [0.5, 0.25], [0.25, 0.25]]
    T0, T1 = '2020-01-01T05:00:00+00:00', '2020-01-02T00:00:00+05:30'
    pt = {'type': 'Point', 'coordinates': [1.0, 2.0]}

    def feat(geom, props='absent', **extra):
        d = {'type': 'Feature', 'geometry': geom}
        if props != 'absent':
            d['properties'] = props
        d.update(extra)
        return d
    edge_docs = [
        ('point', pt), ('point', feat(pt)), ('point', feat(pt, None)), ('point', feat(pt, {})),
        ('point', feat(pt, {'datetime_start': T0})), ('point', feat(pt, {'datetime_end': T1, 'x': 1})),
        ('point', feat(pt, {'datetime_start': T0, 'datetime_end': T1, 'x': [1, {'y': None}]})),
        ('point', feat(pt, {'datetime_start': T0, 'datetime_end': T0})),
        ('point', feat(pt, {'datetime_start': T1, 'datetime_end': T0})),                # end < start
        ('point', feat(pt, {'datetime_start': '', 'datetime_end': None, 'k': 'v'})),
        ('point', feat(pt, {'datetime_start': 0, 'datetime_end': T0})),
        ('point', feat(pt, {'datetime_start': 'not a date'})), ('point', feat(pt, {'datetime_start': 5})),
        ('point', feat(pt, {'datetime_end': [1]})),
        ('point', {'type': 'Feature'}), ('point', feat(None)), ('point', feat({'type': 'Point'})),
        ('point', feat({'type': 'point', 'coordinates': [1.0, 2.0]})),
        ('point', {'type': 'point', 'coordinates': [1.0, 2.0]}),
        ('point', feat({'type': 'Point', 'coordinates': [1.0, 2.0, 3.5]})),
        ('point', feat({'type': 'Point', 'coordinates': [1.0, 2.0, 0.0]})),
        ('point', feat({'type': 'Point', 'coordinates': [1.0, 2.0, None]})),
        ('point', feat({'type': 'Point', 'coordinates': [1.0, 2.0, 3.5, 4.0]})),
        ('point', feat({'type': 'Point', 'coordinates': [1, 2]})),
        ('point', feat({'type': 'Point', 'coordinates': [1.0]})), ('point', feat({'type': 'Point', 'coordinates': []})),
        ('line', feat({'type': 'LineString', 'coordinates': sq[:3]}, {'a': 1})),
        ('line', feat({'type': 'LineString'})), ('line', feat({'type': 'LineString', 'coordinates': []})),
        ('line', feat(pt)), ('point', feat({'type': 'LineString', 'coordinates': sq[:2]})),
        ('poly', feat({'type': 'Polygon', 'coordinates': [sq]})), ('poly', feat({'type': 'Polygon', 'coordinates': [sq_cw]})),
        ('poly', feat({'type': 'Polygon', 'coordinates': [sq[:4]]})),                    # unclosed
        ('poly', feat({'type': 'Polygon', 'coordinates': [sq, hole_cw]}, {'datetime_start': T0})),
        ('poly', feat({'type': 'Polygon', 'coordinates': [sq_cw, list(reversed(hole_cw)), hole_cw]})),
        ('poly', feat({'type': 'Polygon', 'coordinates': []})), ('poly', feat({'type': 'Polygon'})),
        ('poly', feat({'type': 'Polygon', 'coordinates': [[]]})), ('poly', feat({'type': 'Polygon', 'coordinates': [sq, []]})),
        ('poly', feat({'type': 'Polygon', 'coordinates': [sq, []]}, {'datetime_start': 'bad'})),
        ('poly', feat({'type': 'Polygon', 'coordinates': []}, {'datetime_start': 'bad'})),
        ('poly', feat({'type': 'Polygon', 'coordinates': [[[0.0, 0.0], [1.0, 1.0], [2.0, 2.0], [0.0, 0.0]],
                                                          [[0.0, 0.0], [1.0, 1.0], [2.0, 2.0], [0.0, 0.0]]]})),   # zero area
        ('mpoint', feat({'type': 'MultiPoint', 'coordinates': sq[:3]}, {'datetime_end': T1})),
        ('mpoint', feat({'type': 'MultiPoint', 'coordinates': []})),
        ('mline', feat({'type': 'MultiLineString', 'coordinates': [sq[:2], sq[2:]]})),
        ('mpoly', feat({'type': 'MultiPolygon', 'coordinates': [[sq, hole_cw], [sq_cw]]}, {'q': 1})),
        ('mpoly', feat({'type': 'MultiPolygon', 'coordinates': [[sq, list(reversed(hole_cw))]]})),
        ('mpoly', feat({'type': 'MultiPolygon', 'coordinates': [[]]})), ('mpoly', feat({'type': 'MultiPolygon', 'coordinates': []})),
        ('mpoly', feat({'type': 'MultiPolygon', 'coordinates': [[sq, []]]})),
        ('mpoly', feat({'type': 'MultiPolygon', 'coordinates': [[[[0.0, 0.0], [1.0, 1.0], [2.0, 2.0], [0.0, 0.0]],
                                                                [[0.0, 0.0], [1.0, 1.0], [2.0, 2.0], [0.0, 0.0]]]]})),
        ('fc', {'type': 'FeatureCollection', 'features': [feat(pt, {'datetime_start': T0}), feat({'type': 'LineString', 'coordinates': sq[:2]})]}),
        ('fc', {'type': 'FeatureCollection', 'features': []}), ('fc', {'type': 'FeatureCollection'}),
        ('fc', {'type': 'Feature', 'features': []}), ('fc', {'type': 'FeatureCollection', 'features': [feat(pt), {'type': 'Feature'}]}),
        ('fc', {'type': 'Nonsense'}), ('fc', {}),
    ]
    import_docs = [(k, d, 'exported') for k, d in exported_docs] + [(k, d, 'edge') for k, d in edge_docs]
    for n, (kind, doc, origin) in enumerate(import_docs):
        doc = copy.deepcopy(doc)
        before = copy.deepcopy(doc)
        if kind != 'fc':
            r = guarded(lambda: SIMPLE[kind].from_geojson(doc))
            m = {'op': 'import', 'kind': kind, 'doc': before, 'origin': origin}
            add(f'KImport {KNAME[kind]} {jlit(before, Q)} {reslit(r, lambda s: obs_shape(s, Q))} {jlit(doc, Q)}', m)
            if doc != before:
                pyviol.append((m, 'import_pure', 'Type.from_geojson modified the caller\'s document'))
        doc = copy.deepcopy(before)
        r = guarded(lambda: parse_geojson(doc))
        m = {'op': 'parse', 'kind': kind, 'doc': before, 'origin': origin}
        add(f'KParse {jlit(before, Q)} {reslit(r, lambda s: obs_parsed(s, Q))} {jlit(doc, Q)}', m)
        if doc != before:
            pyviol.append((m, 'import_pure', 'parse_geojson modified the caller\'s document'))
        if origin == 'edge':
            nontrivial.add(('edge', n))

    # ---- 6. `==` as used in the round-trip statement
    n_eq = 90 if quick else 600
    eq_pairs = []
    for n in range(n_eq):
        kind = rng.choice(['point', 'line', 'poly', 'poly', 'mpoint', 'mline', 'mpoly'])
        a = rand_spec(rng, kind, rng.choice([None, None, 'z']))
        b = copy.deepcopy(a)
        how = n % 6
        if how == 1:
            b['dt'] = rng.choice(DTS)
        elif how == 2 and kind == 'poly':       # rotate / reverse the outline: still equal
            o = b['o'][:-1] if b['o'][0] == b['o'][-1] else b['o']
            j = rng.randrange(len(o))
            o = o[j:] + o[:j]
            b['o'] = list(reversed(o)) if rng.random() < 0.5 else o
        elif how == 3:
            b = rand_spec(rng, kind)
        elif how == 4 and kind in ('mpoint', 'mline', 'mpoly'):
            key = {'mpoint': 'cs', 'mline': 'ls', 'mpoly': 'ps'}[kind]
            b[key] = list(reversed(b[key]))
        elif how == 5 and kind == 'poly' and b.get('holes'):
            b['holes'] = list(reversed(b['holes']))[: rng.choice([1, 2])]
        eq_pairs.append((a, b))
    for a, b in eq_pairs:
        A, B = build(a), build(b)
        out = A == B
        la, lb = shape_lit(a, A, Q)[0], shape_lit(b, B, Q)[0]
        add(f'KEq {la} {lb} {blit(out)}', {'op': 'eq', 'kind': a['kind'], 'a': a, 'b': b, 'out': out})

    ck.cov['evaluations'] = len(cases)
    ck.cov['distinct_nontrivial'] = len(nontrivial)
    for i in (0, len(fixed_rings) * 3 + n_ring * 3 + 5, len(cases) // 2, len(cases) - 1):
        ck.sample(cases[min(i, len(cases) - 1)][:600])

    bad, broken = ck.corr('geojson', 'From Coq Require Import String.\nFrom GV Require Import Prelude RingM GeoJsonM GeoJsonK.\n'
                          'Open Scope string_scope. Open Scope Z_scope.', 'check', cases, chunk=120)

    reported = 0
    for i in bad:
        if reported >= 5:
            break
        ck.violation({'kind': 'model-vs-implementation', 'case': meta[i], 'gallina_case': cases[i],
                      'theorems': 'C14_* (Props/C14.v) are statements about the model value at this input',
                      'how_to_replay': 'bin/check C14 --replay <this file>'})
        reported += 1
    seen = set()
    for m, clause, detail in pyviol:
        f = ck.finding_for(m, PREDICATES) if 'spec' in m and clause == 'geojson_roundtrip' else None
        if f:
            ck.known(f)
            continue
        if clause in seen or reported >= 8:
            continue
        seen.add(clause)
        ck.violation({'kind': 'property-fails-on-implementation', 'clause': clause, 'detail': detail, 'case': m,
                      'theorems': f'C14_{clause}', 'how_to_replay': 'bin/check C14 --replay <this file>'})
        reported += 1

    # ---- D14: deterministic replay of the known finding (z = 0 dropped by truthiness)
    for f in ck.findings:
        if f.get('status') == 'open' and f.get('signature') == 'z_zero':
            c = f['replay']['c']
            p = GeoPoint(Coordinate(c[0], c[1], z=c[2]))
            back = GeoPoint.from_geojson(p.to_geojson())
            if back != p and back.coordinate.z is None:
                ck.known(f)

    ck.finish(rule='seeded: rings (random star-shaped quarter-grid rings, both windings, closed/unclosed, with Z, across the '
                   'antimeridian, degenerate) through is_counter_clockwise and the GeoPolygon constructor; every vertex-defined '
                   'kind (point, line, polygon with 0-2 holes incl. box holes, the three multi forms, box) x dt {none, instant, '
                   'interval; aware/naive/offset} x properties (nested, overridden, reserved keys) x Z x k {None,4,9} x extra kwargs '
                   'exported, the export imported by Type.from_geojson and parse_geojson (dict, twice, text), collections and '
                   'tracks; about a third of the rings (and a sixth of the paths) write a vertex several times in a row (first, interior, '
                   'tripled, last, closing vertex twice, every vertex, a repeat differing only in Z), plus a fixed corpus of those; import '
                   'histories: 1-3 documents (features, collections, nested random properties) imported 3-6 times each, interleaved, from '
                   'text / an equal string / re-spaced text / a fresh dict / the caller\'s dict / Type.from_geojson, the earlier results '
                   'edited in place between imports (nested property values through .properties, set_property, set_dt / strip_dt): every '
                   'import equals the document (independent json.loads + the spec), no earlier result and not the caller\'s dict change; '
                   'fixed corpora: curved shapes (circle, ellipse, ring, wedge, pie slices with inner radius 0, with holes) x k, 60 edge/malformed documents. '
                   'non-trivial = distinct (ring | shape spec, override, k | curved spec, k | edge document)',
              assumptions=['coordinates are in canonical range (Coordinate.__init__ wrapping is the identity; C08)',
                           'quarter-degree grid: the float arithmetic of is_counter_clockwise is exact there',
                           'datetime.isoformat/fromisoformat and json.dumps/loads are inverse (stdlib; observed on every case)',
                           'curved shapes enter the model only through the ring the implementation sampled on this run',
                           'M values are outside the property (a coordinate with M and no Z exports M in the Z slot)'])


def replay(path):
    r = json.load(open(path))
    m = r.get('case') or {}
    print(json.dumps({k: v for k, v in r.items() if k != 'gallina_case'}, indent=1, default=str)[:3000])

    def tup(x):
        if isinstance(x, list):
            return tuple(tup(y) for y in x) if x and not isinstance(x[0], (list, dict)) and len(x) == 3 and not isinstance(x[0], str) else [tup(y) for y in x]
        if isinstance(x, dict):
            return {k: tup(v) for k, v in x.items()}
        return x
    if 'spec' in m:
        spec = tup(m['spec'])
        obj = (build_via_history if m.get('via_history') else build)(spec, style=m.get('style', 0))
        g = obj.to_geojson(properties=m.get('ups'), k=m.get('k'), **(m.get('kw') or {}))
        print('implementation now exports:', json.dumps(g)[:2000])
        print('RFC-shape violations now:', rfc_shape_violations(g))
        if spec['kind'] in SIMPLE:
            print('round-trip violations now:', roundtrip_violations(spec, obj, m.get('ups')))
    elif m.get('op') in ('import_history', 'parse-after-history'):
        dspecs = [{'specs': [tup(sp) for sp in ds['specs']], 'style': ds['style'], 'fc': ds['fc']} for ds in m['docs']]
        docs = [make_history_doc(ds['specs'], ds['style'], ds['fc']) for ds in dspecs]
        hb = run_import_history(docs, [tuple(st) for st in m['steps']], m['hseed'])[0]
        print(f'import history replayed ({len(m["steps"])} steps): {len(hb)} violation(s) now')
        for cl, d_ in hb:
            print('  ', cl, '-', d_[:600])
    elif 'doc' in m:
        doc = copy.deepcopy(m['doc'])
        print('parse_geojson now:', guarded(lambda: parse_geojson(doc)), 'document unchanged:', doc == m['doc'])


if __name__ == '__main__':
    if '--replay' in sys.argv:
        replay(sys.argv[sys.argv.index('--replay') + 1])
    else:
        main()
