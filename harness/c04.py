#!/usr/bin/env python3
"""C04 - multi-shapes relate as the union of their members."""
import itertools
import os
import sys

sys.path.insert(0, os.path.dirname(os.path.abspath(__file__)))
from lib import Check, REPO, guarded, reslit, zlit, blit, listlit   # noqa: E402
import gen_multi                                                # noqa: E402
from shapes import C, poly, mk_dt, dt_pair, of_dt, H            # noqa: E402
from geostructures import (Coordinate, GeoBox, GeoCircle, GeoLineString, GeoPoint, GeoPolygon,  # noqa: E402
                           MultiGeoLineString, MultiGeoPoint, MultiGeoPolygon)


def sq(x, y, w):
    return [(x, y), (x + w, y), (x + w, y + w), (x, y + w), (x, y)]


POLYS = {
    'big': lambda: poly(sq(0, 0, 10)),
    'bigh': lambda: poly(sq(0, 0, 10), holes=[poly(sq(4, 4, 2))]),
    'small': lambda: poly(sq(1, 1, 2)),
    'inhole': lambda: poly([(4.5, 4.5), (5.5, 4.5), (5.5, 5.5), (4.5, 5.5), (4.5, 4.5)]),
    'far': lambda: poly(sq(20, 20, 3)),
    'cross': lambda: poly([(8, 8), (13, 8), (13, 13), (8, 13), (8, 8)]),
    'tri': lambda: poly([(21, 21), (22, 21), (21, 22), (21, 21)]),
    'touch': lambda: poly(sq(10, 0, 2)),
}
LINES = {
    'in': lambda: GeoLineString([C(1, 1), C(2, 3), C(3, 1)]),
    'x': lambda: GeoLineString([C(-1, 5), C(11, 5)]),
    'farl': lambda: GeoLineString([C(30, 30), C(31, 35)]),
    'sub': lambda: GeoLineString([C(2, 3), C(3, 1)]),
    'infar': lambda: GeoLineString([C(21, 21), C(22, 22)]),
    'out': lambda: GeoLineString([C(5, 2), C(15, 2)]),          # starts inside `big`, leaves it
}
POINTS = {
    'p_in': lambda: GeoPoint(C(2, 2)), 'p_hole': lambda: GeoPoint(C(5, 5)), 'p_far': lambda: GeoPoint(C(21, 21)),
    'p_out': lambda: GeoPoint(C(40, 40)), 'p_v': lambda: GeoPoint(C(2, 3)),
}
OTHERS = {
    'box': lambda: GeoBox(C(0.5, 3.5), C(3.5, 0.5)),
    'boxfar': lambda: GeoBox(C(19, 24), C(24, 19)),
    'circle': lambda: GeoCircle(C(2, 2), 50_000),
}
POOLS = {'poly': (POLYS, MultiGeoPolygon), 'line': (LINES, MultiGeoLineString), 'point': (POINTS, MultiGeoPoint)}


def ibounds(s):
    b = s.bounds
    if not all(float(x).is_integer() or (float(x) * 2).is_integer() for x in b):
        return None
    return tuple(int(round(float(x) * 2)) for x in b)      # halves -> integers


def blist(l):
    return listlit([blit(x) for x in l])


def tlit(t):
    return listlit([blist(r) for r in t])


def bndlit(b):
    return '(' + ', '.join(zlit(x) for x in b) + ')'


def main():
    ck = Check('C04')
    ck.build_theories(['theories/Props/C04.vo', 'theories/Corr/ShapeK.vo'])
    rep = gen_multi.main(REPO, os.path.join(ck.rundir, 'MultiGen.v'))
    ck.gen('MultiGen.v', rep, 'MultiGenEq.v')
    ck.props('Props/C04.v')
    rng = ck.rng
    cases, meta, nontriv = [], [], set()

    def add(lit, m):
        cases.append(lit); meta.append(m)

    singles = {}
    for pool in (POLYS, LINES, POINTS, OTHERS):
        singles.update(pool)
    # member name lists: 1..4 members, every order (sampled in quick)
    multis = []
    for kind, (pool, cls) in POOLS.items():
        names = list(pool)
        sets_ = [c for n in (1, 2, 3, 4) for c in itertools.combinations(names, n)]
        rng.shuffle(sets_)
        for st in sets_[: (8 if ck.tier == 'quick' else len(sets_))]:
            perms = list(itertools.permutations(st))
            if ck.tier == 'quick' and len(perms) > 4:
                perms = rng.sample(perms, 4)
            elif len(perms) > 8:          # thorough: every order up to 3 members, 8 sampled orders of 4 (kept under ~10 min)
                perms = rng.sample(perms, 8)
            for pm in perms:
                multis.append((kind, pm))
    # always present (every tier, every seed): a part that STARTS inside a single receiver and crosses its boundary, at
    # every position - the parts of a multi-shape are judged one by one, each by all of its edges
    fixed_multis = [('poly', ('small', 'cross')), ('poly', ('cross', 'small')), ('poly', ('small', 'inhole', 'cross')),
                    ('poly', ('small', 'cross', 'tri')), ('line', ('in', 'out')), ('line', ('out', 'in')), ('line', ('in', 'sub', 'out'))]
    multis = fixed_multis + [m for m in multis if m not in fixed_multis]
    queries = [Coordinate(x, y) for x, y in ((2, 2), (5, 5), (21, 21.25), (40, 40), (9, 9), (2, 3), (30, 30))]

    def mk(kind, pm, **kw):
        pool, cls = POOLS[kind]
        return cls([pool[n]() for n in pm], **kw)

    # the multi-shape as receiver
    args = [('s', n) for n in singles] + [('m',) + m for m in multis[:: max(1, len(multis) // (10 if ck.tier == 'quick' else 40))]]
    for kind, pm in multis:
        M = mk(kind, pm)
        mem = [POOLS[kind][0][n]() for n in pm]
        for a in args:
            if a[0] == 's':
                X, parts, is_multi = singles[a[1]](), [singles[a[1]]()], False
            else:
                X, parts, is_multi = mk(a[1], a[2]), [POOLS[a[1]][0][n]() for n in a[2]], True
            r = guarded(lambda: ([[m.contains_shape(p) for p in parts] for m in mem],
                                 [[m.intersects_shape(p) for p in parts] for m in mem],
                                 M.contains_shape(X), M.intersects_shape(X)))
            if r[0] != 'Ok':
                ck.violation({'kind': 'implementation-raised', 'case': {'multi': [kind, pm], 'arg': a, 'err': r[1]}})
                continue
            ctab, itab, ocs, ois = r[1]
            add(f'KRecv {len(mem)} {len(parts)} {blit(is_multi)} {tlit(ctab)} {tlit(itab)} {blit(ocs)} {blit(ois)}',
                {'k': 'recv', 'multi': [kind, list(pm)], 'arg': a, 'ctab': ctab, 'itab': itab, 'obs': [ocs, ois]})
            # non-trivial: the deciding member is not the first one
            if any(any(r_) for r_ in itab[1:]) and not any(itab[0]):
                nontriv.add((kind, pm, str(a)))
            exp_is = any(any(r_) for r_ in itab)
            exp_cs = all(any(ctab[i][j] for i in range(len(mem))) for j in range(len(parts)))
            if (ocs, ois) != (exp_cs, exp_is):
                meta[-1]['property_violation'] = {'expected': [exp_cs, exp_is]}
            # symmetric single receiver, multi argument
            if not is_multi:
                x = X
                r2 = guarded(lambda: ([x.intersects_shape(m) for m in mem], [x.contains_shape(m) for m in mem],
                                      x.intersects_shape(M), x.contains_shape(M)))
                if r2[0] != 'Ok':
                    ck.violation({'kind': 'implementation-raised', 'case': {'single': a, 'multi-arg': [kind, pm], 'err': r2[1]}})
                    continue
                xi, xc, o_is, o_cs = r2[1]
                add(f'KArg {blist(xi)} {blist(xc)} {blit(o_is)} {blit(o_cs)}',
                    {'k': 'arg', 'single': a[1], 'multi': [kind, list(pm)], 'xi': xi, 'xc': xc, 'obs': [o_is, o_cs]})
                if (o_is, o_cs) != (any(xi), all(xc)):
                    meta[-1]['property_violation'] = {'expected': [any(xi), all(xc)]}
                if any(xi[1:]) and not xi[0]:
                    nontriv.add(('arg', kind, pm, a[1]))
        for c in queries:
            ccs = [m.contains_coordinate(c) for m in mem]
            o = M.contains_coordinate(c)
            add(f'KCC {blist(ccs)} {blit(o)}', {'k': 'cc', 'multi': [kind, list(pm)], 'coord': c.to_float(), 'ccs': ccs, 'obs': o})
            if o != any(ccs):
                meta[-1]['property_violation'] = {'expected': any(ccs)}
        bs = [ibounds(m) for m in mem]
        ob = guarded(lambda: ibounds(M))
        if all(b is not None for b in bs) and (ob[0] != 'Ok' or ob[1] is not None):
            add(f'KBounds {listlit([bndlit(b) for b in bs])} {reslit(ob, bndlit)}', {'k': 'bounds', 'multi': [kind, list(pm)], 'bs': bs, 'obs': ob})
        # split: members in order, each with the parent's dt and a copy of the parent's properties
        for dts in (None, ('i', 2), ('v', 1, 3)):
            props = {'name': 'parent', 'n': len(pm)}
            Md = mk(kind, pm, dt=mk_dt(dts), properties=dict(props))
            memd = [POOLS[kind][0][n]() for n in pm]
            for k_, m_ in enumerate(memd):
                m_.set_dt(mk_dt(('i', k_ % 4)), inplace=True); m_.set_property('own', k_)
            Md = POOLS[kind][1](memd, dt=mk_dt(dts), properties=dict(props))
            out = Md.split()

            def geom_id(s):
                for i_, n in enumerate(pm):
                    if s.strip_dt(inplace=False) == POOLS[kind][0][n]():
                        return i_
                return -1
            def pid(s):
                return 7 if s._properties == props else (100 + s._properties.get('own', 50))
            def dpair(s):
                return None if s.dt is None else (of_dt(s.dt.start), of_dt(s.dt.end))
            def ol(p):
                return 'None' if p is None else f'(Some ({zlit(p[0])}, {zlit(p[1])}))'
            ms_l = listlit([f'({i_}, {ol(dt_pair(("i", i_ % 4)))}, {100 + i_})' for i_ in range(len(pm))])
            o_l = listlit([f'({geom_id(s)}, {ol(dpair(s))}, {pid(s)})' for s in out])
            add(f'KSplit {ol(dt_pair(dts))} 7 {ms_l} {o_l}', {'k': 'split', 'multi': [kind, list(pm)], 'dt': dts})
            # mutating a split member's properties must not reach the parent or siblings (copy, not alias)
            if out:
                out[0]._properties['mut'] = 1
                if 'mut' in Md._properties or any('mut' in s._properties for s in out[1:]):
                    meta[-1]['property_violation'] = {'expected': 'split members own a copy of the parent properties'}
    # empty multi-shape: bounds raises (min of empty sequence)
    ob = guarded(lambda: MultiGeoPoint([]).bounds)
    add(f'KBounds [] {reslit((ob[0], (0, 0, 0, 0)) if ob[0] == "Ok" else ob, bndlit)}', {'k': 'bounds-empty', 'obs': ob[0]})

    ck.cov['evaluations'] = len(cases)
    ck.cov['distinct_nontrivial'] = len(nontriv)
    for i in (0, 50, 1000, len(cases) - 1):
        ck.sample(cases[min(i, len(cases) - 1)])
    bad, broken = ck.corr('multi', 'From GV Require Import Prelude TimeM TimeK ShapeM ShapeK.', 'mcheck', cases)
    bad = set(bad) | {i for i, m in enumerate(meta) if 'property_violation' in m}
    for i in sorted(bad)[:5]:
        ck.violation({'kind': 'property-fails-on-implementation' if 'property_violation' in meta[i] else 'model-vs-implementation',
                      'case': meta[i], 'gallina_case': cases[i], 'theorems': 'C04_* (Props/C04.v)'})
    ck.finish(rule='multi-polygons / -linestrings / -points built from named member pools, 1..4 members, member orders permuted '
                   '(all orders up to 3 members and 8 sampled orders of 4 in thorough, 4 sampled per set in quick) x every single fixture (polygons incl. with hole, lines, points, boxes, circle) '
                   'and sampled multi-shape arguments, both as receiver and as argument; coordinate queries; bounds; split with dt/properties. '
                   'Member-level answers are the implementation own. non-trivial = the deciding member is NOT the first member (distinct cases counted)',
              assumptions=['member-level predicates are abstract in the theorems (C01/C02 decide them)'])


if __name__ == '__main__':
    if '--replay' in sys.argv:
        import json
        print(json.dumps(json.load(open(sys.argv[sys.argv.index('--replay') + 1])), indent=1))
    else:
        main()
