#!/usr/bin/env python3
"""C04 - multi-shapes relate as the union of their members."""
import itertools
import os
import sys

sys.path.insert(0, os.path.dirname(os.path.abspath(__file__)))
from lib import Check, REPO, guarded, reslit, zlit, blit, listlit   # noqa: E402
import gen_multi                                                # noqa: E402
from shapes import C, poly, mk_dt, dt_pair, of_dt, H            # noqa: E402
from geostructures import (Coordinate, GeoBox, GeoCircle, GeoLineString, GeoPoint, GeoPolygon,  # noqa: E402
                           MultiGeoLineString, MultiGeoPoint, MultiGeoPolygon)


def sq(x, y, w):
    return [(x, y), (x + w, y), (x + w, y + w), (x, y + w), (x, y)]


POLYS = {
    'big': lambda: poly(sq(0, 0, 10)),
    'bigh': lambda: poly(sq(0, 0, 10), holes=[poly(sq(4, 4, 2))]),
    'small': lambda: poly(sq(1, 1, 2)),
    'inhole': lambda: poly([(4.5, 4.5), (5.5, 4.5), (5.5, 5.5), (4.5, 5.5), (4.5, 4.5)]),
    'far': lambda: poly(sq(20, 20, 3)),
    'cross': lambda: poly([(8, 8), (13, 8), (13, 13), (8, 13), (8, 8)]),
    'tri': lambda: poly([(21, 21), (22, 21), (21, 22), (21, 21)]),
    'touch': lambda: poly(sq(10, 0, 2)),
}
LINES = {
    'in': lambda: GeoLineString([C(1, 1), C(2, 3), C(3, 1)]),
    'x': lambda: GeoLineString([C(-1, 5), C(11, 5)]),
    'farl': lambda: GeoLineString([C(30, 30), C(31, 35)]),
    'sub': lambda: GeoLineString([C(2, 3), C(3, 1)]),
    'infar': lambda: GeoLineString([C(21, 21), C(22, 22)]),
    'out': lambda: GeoLineString([C(5, 2), C(15, 2)]),          # starts inside `big`, leaves it
}
POINTS = {
    'p_in': lambda: GeoPoint(C(2, 2)), 'p_hole': lambda: GeoPoint(C(5, 5)), 'p_far': lambda: GeoPoint(C(21, 21)),
    'p_out': lambda: GeoPoint(C(40, 40)), 'p_v': lambda: GeoPoint(C(2, 3)),
}
OTHERS = {
    'box': lambda: GeoBox(C(0.5, 3.5), C(3.5, 0.5)),
    'boxfar': lambda: GeoBox(C(19, 24), C(24, 19)),
    'circle': lambda: GeoCircle(C(2, 2), 50_000),
}
POOLS = {'poly': (POLYS, MultiGeoPolygon), 'line': (LINES, MultiGeoLineString), 'point': (POINTS, MultiGeoPoint)}


def ibounds(s):
    b = s.bounds
    if not all(float(x).is_integer() or (float(x) * 2).is_integer() for x in b):
        return None
    return tuple(int(round(float(x) * 2)) for x in b)      # halves -> integers


def blist(l):
    return listlit([blit(x) for x in l])


def tlit(t):
    return listlit([blist(r) for r in t])


def bndlit(b):
    return '(' + ', '.join(zlit(x) for x in b) + ')'


# ---- optional ordinates (Z / M).  The values are drawn from ONE small pool for both ordinates so that "absent",
# "present but falsy (0.0)" and "a Z on one side equal to an M on the other" all occur between a member and a query.
ORD = (None, 0.0, 1.0, 2.0)
VARIANTS = [(z, m) for z in ORD for m in ORD]                   # 16: none, z, m, z and m, z == 0.0, m == 0.0, ...
ZM_POS = [(1, 1), (2, 3), (5, 5), (7, 2), (3, 6)]               # positions of points / linestring vertices
ZM_SQ = [(0, 0), (6, 0), (0, 6), (6, 6)]                         # lower-left corners of 4x4 squares (hole: 2x2 in the middle)
# time specs (hours, see shapes.mk_dt) for members and for arguments: instants and intervals that nest, overlap, are disjoint
DT_MEMBER = [None, ('i', 0), ('i', 2), ('v', 1, 3), ('v', 0, 4), ('i', 4)]
DT_ARG_IN = [('i', 2), ('v', 1, 3), ('v', 2, 2)]
DT_ARG_OUT = [('i', 50), ('v', 40, 60), ('v', 2, 50)]
DT_MULTI = [None, ('i', 2), ('v', 1, 3), ('i', 50)]


def cz(d):
    return Coordinate(d[0], d[1], z=d[2], m=d[3])


def zm_build(desc):
    """desc -> a fresh member: ['pt', [x, y, z, m]] | ['ln', [[x, y, z, m], ...]] | ['pg', outline (open), [hole (open), ...]]"""
    if desc[0] == 'pt':
        return GeoPoint(cz(desc[1]))
    if desc[0] == 'ln':
        return GeoLineString([cz(d) for d in desc[1]])

    def ring(r):
        return [cz(d) for d in r] + [cz(r[0])]
    return GeoPolygon(ring(desc[1]), holes=[GeoPolygon(ring(h)) for h in desc[2]])


def zm_random(rng, kind):
    def v():
        return list(rng.choice(VARIANTS))
    if kind == 'point':
        return ['pt', list(rng.choice(ZM_POS)) + v()]
    if kind == 'line':
        return ['ln', [list(p) + v() for p in rng.sample(ZM_POS, rng.choice((2, 3)))]]
    # On the unchanged code GeoPolygon.bounds / GeoLineString.bounds raise ValueError when EVERY vertex carries a truthy Z or M
    # (to_float() then has 3-4 entries everywhere and `lons, lats = zip(*...)` cannot unpack; reported), and a polygon's
    # contains_coordinate starts from its bounds.  So every ring keeps one vertex with falsy ordinates; linestrings are not
    # restricted (their contains_coordinate does not need bounds; cases where a member itself raises are counted, not judged).
    def ring(x0, y0, w):
        r = [list(p) + v() for p in sq(x0, y0, w)[:4]]
        r[rng.randrange(4)][2:] = [rng.choice((None, 0.0)), rng.choice((None, 0.0))]
        return r
    x, y = rng.choice(ZM_SQ)
    return ['pg', ring(x, y, 4), [ring(x + 1, y + 1, 2)] if rng.random() < 0.5 else []]


def zm_positions(desc):
    """where to ask: every vertex of the member (+ for polygons a point strictly inside and the middle = inside the hole if any)"""
    if desc[0] == 'pt':
        return [tuple(desc[1][:2])]
    if desc[0] == 'ln':
        return [tuple(d[:2]) for d in desc[1]]
    x, y = desc[1][0][:2]
    return [(x, y), (x + 0.5, y + 0.5), (x + 2, y + 2)] + [tuple(d[:2]) for h in desc[2] for d in h[:1]]


def main():
    ck = Check('C04')
    ck.build_theories(['theories/Props/C04.vo', 'theories/Corr/ShapeK.vo'])
    rep = gen_multi.main(REPO, os.path.join(ck.rundir, 'MultiGen.v'))
    ck.gen('MultiGen.v', rep, 'MultiGenEq.v')
    ck.props('Props/C04.v')
    rng = ck.rng
    cases, meta, nontriv = [], [], set()

    def add(lit, m):
        cases.append(lit); meta.append(m)

    singles = {}
    for pool in (POLYS, LINES, POINTS, OTHERS):
        singles.update(pool)
    # member name lists: 1..4 members, every order (sampled in quick)
    multis = []
    for kind, (pool, cls) in POOLS.items():
        names = list(pool)
        sets_ = [c for n in (1, 2, 3, 4) for c in itertools.combinations(names, n)]
        rng.shuffle(sets_)
        for st in sets_[: (8 if ck.tier == 'quick' else len(sets_))]:
            perms = list(itertools.permutations(st))
            if ck.tier == 'quick' and len(perms) > 4:
                perms = rng.sample(perms, 4)
            elif len(perms) > 8:          # thorough: every order up to 3 members, 8 sampled orders of 4 (kept under ~10 min)
                perms = rng.sample(perms, 8)
            for pm in perms:
                multis.append((kind, pm))
    # always present (every tier, every seed): a part that STARTS inside a single receiver and crosses its boundary, at
    # every position - the parts of a multi-shape are judged one by one, each by all of its edges
    fixed_multis = [('poly', ('small', 'cross')), ('poly', ('cross', 'small')), ('poly', ('small', 'inhole', 'cross')),
                    ('poly', ('small', 'cross', 'tri')), ('line', ('in', 'out')), ('line', ('out', 'in')), ('line', ('in', 'sub', 'out'))]
    multis = fixed_multis + [m for m in multis if m not in fixed_multis]
    queries = [Coordinate(x, y) for x, y in ((2, 2), (5, 5), (21, 21.25), (40, 40), (9, 9), (2, 3), (30, 30))]

    def mk(kind, pm, **kw):
        pool, cls = POOLS[kind]
        return cls([pool[n]() for n in pm], **kw)

    # the multi-shape as receiver
    args = [('s', n) for n in singles] + [('m',) + m for m in multis[:: max(1, len(multis) // (10 if ck.tier == 'quick' else 40))]]
    for kind, pm in multis:
        M = mk(kind, pm)
        mem = [POOLS[kind][0][n]() for n in pm]
        for a in args:
            if a[0] == 's':
                X, parts, is_multi = singles[a[1]](), [singles[a[1]]()], False
            else:
                X, parts, is_multi = mk(a[1], a[2]), [POOLS[a[1]][0][n]() for n in a[2]], True
            r = guarded(lambda: ([[m.contains_shape(p) for p in parts] for m in mem],
                                 [[m.intersects_shape(p) for p in parts] for m in mem],
                                 M.contains_shape(X), M.intersects_shape(X)))
            if r[0] != 'Ok':
                ck.violation({'kind': 'implementation-raised', 'case': {'multi': [kind, pm], 'arg': a, 'err': r[1]}})
                continue
            ctab, itab, ocs, ois = r[1]
            add(f'KRecv {len(mem)} {len(parts)} {blit(is_multi)} {tlit(ctab)} {tlit(itab)} {blit(ocs)} {blit(ois)}',
                {'k': 'recv', 'multi': [kind, list(pm)], 'arg': a, 'ctab': ctab, 'itab': itab, 'obs': [ocs, ois]})
            # non-trivial: the deciding member is not the first one
            if any(any(r_) for r_ in itab[1:]) and not any(itab[0]):
                nontriv.add((kind, pm, str(a)))
            exp_is = any(any(r_) for r_ in itab)
            exp_cs = all(any(ctab[i][j] for i in range(len(mem))) for j in range(len(parts)))
            if (ocs, ois) != (exp_cs, exp_is):
                meta[-1]['property_violation'] = {'expected': [exp_cs, exp_is]}
            # symmetric single receiver, multi argument
            if not is_multi:
                x = X
                r2 = guarded(lambda: ([x.intersects_shape(m) for m in mem], [x.contains_shape(m) for m in mem],
                                      x.intersects_shape(M), x.contains_shape(M)))
                if r2[0] != 'Ok':
                    ck.violation({'kind': 'implementation-raised', 'case': {'single': a, 'multi-arg': [kind, pm], 'err': r2[1]}})
                    continue
                xi, xc, o_is, o_cs = r2[1]
                add(f'KArg {blist(xi)} {blist(xc)} {blit(o_is)} {blit(o_cs)}',
                    {'k': 'arg', 'single': a[1], 'multi': [kind, list(pm)], 'xi': xi, 'xc': xc, 'obs': [o_is, o_cs]})
                if (o_is, o_cs) != (any(xi), all(xc)):
                    meta[-1]['property_violation'] = {'expected': [any(xi), all(xc)]}
                if any(xi[1:]) and not xi[0]:
                    nontriv.add(('arg', kind, pm, a[1]))
        for c in queries:
            ccs = [m.contains_coordinate(c) for m in mem]
            o = M.contains_coordinate(c)
            add(f'KCC {blist(ccs)} {blit(o)}', {'k': 'cc', 'multi': [kind, list(pm)], 'coord': c.to_float(), 'ccs': ccs, 'obs': o})
            if o != any(ccs):
                meta[-1]['property_violation'] = {'expected': any(ccs)}
        bs = [ibounds(m) for m in mem]
        ob = guarded(lambda: ibounds(M))
        if all(b is not None for b in bs) and (ob[0] != 'Ok' or ob[1] is not None):
            add(f'KBounds {listlit([bndlit(b) for b in bs])} {reslit(ob, bndlit)}', {'k': 'bounds', 'multi': [kind, list(pm)], 'bs': bs, 'obs': ob})
        # split: members in order, each with the parent's dt and a copy of the parent's properties
        # (the parent's properties also EMPTY: parts of a parent that carries nothing carry nothing - neither their own
        # earlier time bounds nor their own properties)
        for dts, props in [(d_, p_) for d_ in (None, ('i', 2), ('v', 1, 3)) for p_ in ({'name': 'parent', 'n': len(pm)}, {})]:
            Md = mk(kind, pm, dt=mk_dt(dts), properties=dict(props))
            memd = [POOLS[kind][0][n]() for n in pm]
            for k_, m_ in enumerate(memd):
                m_.set_dt(mk_dt(('i', k_ % 4)), inplace=True); m_.set_property('own', k_)
            Md = POOLS[kind][1](memd, dt=mk_dt(dts), properties=dict(props))
            out = Md.split()

            def geom_id(s):
                for i_, n in enumerate(pm):
                    if s.strip_dt(inplace=False) == POOLS[kind][0][n]():
                        return i_
                return -1
            def pid(s):
                return 7 if s._properties == props else (100 + s._properties.get('own', 50))
            def dpair(s):
                return None if s.dt is None else (of_dt(s.dt.start), of_dt(s.dt.end))
            def ol(p):
                return 'None' if p is None else f'(Some ({zlit(p[0])}, {zlit(p[1])}))'
            ms_l = listlit([f'({i_}, {ol(dt_pair(("i", i_ % 4)))}, {100 + i_})' for i_ in range(len(pm))])
            o_l = listlit([f'({geom_id(s)}, {ol(dpair(s))}, {pid(s)})' for s in out])
            add(f'KSplit {ol(dt_pair(dts))} 7 {ms_l} {o_l}', {'k': 'split', 'multi': [kind, list(pm)], 'dt': dts})
            # mutating a split member's properties must not reach the parent or siblings (copy, not alias)
            if out:
                out[0]._properties['mut'] = 1
                if 'mut' in Md._properties or any('mut' in s._properties for s in out[1:]):
                    meta[-1]['property_violation'] = {'expected': 'split members own a copy of the parent properties'}
    # ================================================================================================================
    # Helpers of the families below.  `mem` is always the harness's OWN list of members (objects built a second time from
    # the same description, never the objects inside the multi-shape), and every expected answer is the union-of-members
    # law evaluated on the members' own purely spatial answers (contains_coordinate / contains_shape / intersects_shape).
    quick = ck.tier == 'quick'

    skipped = [0]

    def member_raised():
        """a MEMBER's own query raised (the law is stated relative to the members' answers, so there is nothing to judge):
        counted, never silent - see 'member_raised' in the coverage record"""
        skipped[0] += 1
        return None

    raised = [0]

    def multi_raised(case):
        """the members answered but the multi-shape raised: at most 5 replays (a changed library can raise on whole families)"""
        raised[0] += 1
        if raised[0] <= 5:
            ck.violation({'kind': 'implementation-raised', 'case': case})

    def recv_case(M, mem, X, parts, is_multi, m):
        rm = guarded(lambda: ([[a.contains_shape(p) for p in parts] for a in mem],
                              [[a.intersects_shape(p) for p in parts] for a in mem]))
        if rm[0] != 'Ok':
            return member_raised()
        r = guarded(lambda: (M.contains_shape(X), M.intersects_shape(X)))
        if r[0] != 'Ok':
            multi_raised(dict(m, err=r[1]))
            return None
        (ctab, itab), (ocs, ois) = rm[1], r[1]
        add(f'KRecv {len(mem)} {len(parts)} {blit(is_multi)} {tlit(ctab)} {tlit(itab)} {blit(ocs)} {blit(ois)}',
            dict(m, ctab=ctab, itab=itab, obs=[ocs, ois]))
        exp_is = any(any(r_) for r_ in itab)
        exp_cs = all(any(ctab[i][j] for i in range(len(mem))) for j in range(len(parts)))
        if (ocs, ois) != (exp_cs, exp_is):
            meta[-1]['property_violation'] = {'expected': [exp_cs, exp_is]}
        return exp_cs, exp_is

    def arg_case(x, M, mem, m):
        rm = guarded(lambda: ([x.intersects_shape(a) for a in mem], [x.contains_shape(a) for a in mem]))
        if rm[0] != 'Ok':
            return member_raised()
        r = guarded(lambda: (x.intersects_shape(M), x.contains_shape(M)))
        if r[0] != 'Ok':
            multi_raised(dict(m, err=r[1]))
            return
        (xi, xc), (o_is, o_cs) = rm[1], r[1]
        add(f'KArg {blist(xi)} {blist(xc)} {blit(o_is)} {blit(o_cs)}', dict(m, xi=xi, xc=xc, obs=[o_is, o_cs]))
        if (o_is, o_cs) != (any(xi), all(xc)):
            meta[-1]['property_violation'] = {'expected': [any(xi), all(xc)]}

    def cc_case(M, mem, c, m):
        """all three entry points of the coordinate test against any(member.contains_coordinate(c))"""
        rm = guarded(lambda: [a.contains_coordinate(c) for a in mem])
        if rm[0] != 'Ok':
            return member_raised()
        r = guarded(lambda: [M.contains_coordinate(c), M.contains(c), c in M])
        if r[0] != 'Ok':
            multi_raised(dict(m, coord=[c.longitude, c.latitude, c.z, c.m], err=r[1]))
            return None
        ccs, o = rm[1], r[1]
        exp = any(ccs)
        shown = next((x for x in o if x != exp), o[0])          # the model is given an entry point that deviates, if one does
        add(f'KCC {blist(ccs)} {blit(shown)}', dict(m, coord=[c.longitude, c.latitude, c.z, c.m], ccs=ccs,
                                                  obs={'contains_coordinate': o[0], 'contains(Coordinate)': o[1], 'in': o[2]}))
        if any(x != exp for x in o):
            meta[-1]['property_violation'] = {'expected': exp}
        return exp

    def bounds_case(M, mem, m):
        rm = guarded(lambda: [ibounds(a) for a in mem])
        if rm[0] != 'Ok':
            return member_raised()
        bs_ = rm[1]
        ob_ = guarded(lambda: ibounds(M))
        if all(b is not None for b in bs_) and (ob_[0] != 'Ok' or ob_[1] is not None):
            add(f'KBounds {listlit([bndlit(b) for b in bs_])} {reslit(ob_, bndlit)}', dict(m, bs=bs_, obs=ob_))

    OPS = ('append', 'insert0', 'extend', 'set', 'pop', 'pop0', 'del', 'rebind')

    def history(cls, descs, build, new_desc, probe, m, nops):
        """Mechanism class: anything a multi-shape derives from its members and keeps (an index, a cached union, cached
        bounds ...).  `geoshapes` is a public, plain list (the library's own tests pop from it), so after an in-place edit
        or a re-assignment of it every query has to answer for the CURRENT members.  The multi-shape is asked everything
        once (so whatever is computed lazily exists), then its member list is edited step by step and asked again."""
        M = cls([build(d) for d in descs])
        cur = list(descs)
        hist = []
        probe(M, cur, dict(m, initial_members=list(descs), members=list(cur), history=[]), True)
        for _ in range(nops):
            op = rng.choice([o for o in OPS if len(cur) > 1 or o not in ('pop', 'pop0', 'del')])
            i = rng.randrange(len(cur))
            if op == 'append':
                d = new_desc(); M.geoshapes.append(build(d)); cur.append(d); hist.append([op, d])
            elif op == 'insert0':
                d = new_desc(); M.geoshapes.insert(0, build(d)); cur.insert(0, d); hist.append([op, d])
            elif op == 'extend':
                ds = [new_desc(), new_desc()]; M.geoshapes.extend([build(d) for d in ds]); cur.extend(ds); hist.append([op, ds])
            elif op == 'set':
                d = new_desc(); M.geoshapes[i] = build(d); cur[i] = d; hist.append([op, i, d])
            elif op == 'pop':
                M.geoshapes.pop(); cur.pop(); hist.append([op])
            elif op == 'pop0':
                M.geoshapes.pop(0); cur.pop(0); hist.append([op])
            elif op == 'del':
                del M.geoshapes[i]; del cur[i]; hist.append([op, i])
            else:                       # the attribute is assigned a new list: the old members reversed, plus one
                d = new_desc(); M.geoshapes = list(reversed(M.geoshapes)) + [build(d)]; cur = list(reversed(cur)) + [d]
                hist.append([op, 'reversed +', d])
            probe(M, cur, dict(m, initial_members=list(descs), members=list(cur), history=[list(h) for h in hist]), False)

    # ================================================================================================================
    # Family "ordinates".  Mechanism class: a multi-shape that answers the coordinate test from anything other than its
    # members' own contains_coordinate - a hash / tuple / text form of the coordinates, a different notion of equality.
    # Coordinates carry optional Z and M; the members decide by Coordinate.__eq__ (points, linestring vertices) or ignore
    # both (areas), so every (z, m) variant on the member side is asked with every variant on the query side, at the
    # member's own positions, for multi-points / -linestrings / -polygons, through contains_coordinate, contains(Coordinate)
    # and `in`.  The same multi-shapes then go through the edit history above.
    zm_kinds = {'point': MultiGeoPoint, 'line': MultiGeoLineString, 'poly': MultiGeoPolygon}

    def zm_probe_for(kind, firsts):
        seen = set()

        def probe(M, cur, m, first):
            mem = [zm_build(d) for d in cur]
            for d in cur:
                seen.update(zm_positions(d))                    # positions of members that were removed are still asked
            pts = sorted(seen) + [(9, 9)]
            qs = [(p, v) for p in pts for v in VARIANTS]
            if not first or kind == 'poly':
                qs = rng.sample(qs, min(len(qs), 12 if quick else 40))
            for p, v in qs:
                c = cz(list(p) + list(v))
                exp = cc_case(M, mem, c, dict(m, k='cc-ordinates', kind=kind))
                if first:
                    firsts[(p, v)] = exp
                if exp is not None and (any(x is not None for d in cur for x in _ords(d, p)) or any(x is not None for x in v)):
                    if first or firsts.get((p, v)) != exp:      # after an edit: only where the edit changed the answer
                        nontriv.add(('zm', kind, str(m['members']), str(m['history']), p, v))
            bounds_case(M, mem, dict(m, k='bounds-ordinates', kind=kind))
            for p in rng.sample(pts, min(len(pts), 2)):
                v = rng.choice(VARIANTS)
                X = GeoPoint(cz(list(p) + list(v)))
                recv_case(M, mem, X, [GeoPoint(cz(list(p) + list(v)))], False,
                          dict(m, k='recv-ordinates', kind=kind, arg=['pt', list(p) + list(v)]))
        return probe

    def _ords(d, p):
        cs = [d[1]] if d[0] == 'pt' else d[1] if d[0] == 'ln' else d[1] + [c for h in d[2] for c in h]
        return [x for c in cs if tuple(c[:2]) == tuple(p) for x in c[2:]]

    for kind, cls in zm_kinds.items():
        # every tier, every seed: a decoy member and a target member carrying each variant, either order; the target's
        # position is asked with all 16 variants (M on one side only, z == 0.0 against None, a Z equal to the other side's M ...)
        for k_, v in enumerate(VARIANTS):
            dv = list(VARIANTS[(5 * k_ + 3) % 16])
            if kind == 'point':
                tgt, decoy = ['pt', [1, 1] + list(v)], ['pt', [5, 5] + dv]
            elif kind == 'line':
                tgt, decoy = ['ln', [[2, 3, None, None], [1, 1] + list(v)]], ['ln', [[5, 5] + dv, [7, 2, None, None]]]
            else:
                tgt = ['pg', [[0, 0] + list(v), [4, 0, None, None], [4, 4] + dv, [0, 4, None, None]], [[[1, 1] + list(v), [3, 1] + dv, [3, 3, None, None], [1, 3, None, None]]]]
                decoy = ['pg', [[6, 6] + dv, [10, 6, None, None], [10, 10, None, None], [6, 10] + list(v)], []]
            descs = [decoy, tgt] if k_ % 2 == 0 else [tgt, decoy]
            M, mem = cls([zm_build(d) for d in descs]), [zm_build(d) for d in descs]
            for p in ([(1, 1)] if kind != 'poly' else [(0, 0), (1, 1)]):
                for q in VARIANTS:
                    cc_case(M, mem, cz(list(p) + list(q)), {'k': 'cc-ordinates', 'kind': kind, 'members': descs, 'history': []})
                    if v != (None, None) or q != (None, None):
                        nontriv.add(('zm', kind, str(descs), p, q))
        # seeded: 1..4 random members (positions repeat, so several members share a position with different ordinates)
        for _ in range(6 if quick else 20):
            descs = [zm_random(rng, kind) for _ in range(rng.choice((1, 2, 3, 4)))]
            history(cls, descs, zm_build, lambda: zm_random(rng, kind), zm_probe_for(kind, {}), {'kind': kind}, 2 if quick else 4)

    # the same edit history on the fixture multi-shapes (2-D members): coordinate queries, bounds, receiver predicates
    def pool_probe_for(kind, firsts):
        pool = POOLS[kind][0]

        def probe(M, cur, m, first):
            mem = [pool[n]() for n in cur]
            for c in queries:
                exp = cc_case(M, mem, c, dict(m, k='cc-history', kind=kind))
                if first:
                    firsts[c.to_float()] = exp
                elif firsts.get(c.to_float()) != exp:
                    nontriv.add(('hist', kind, str(m['members']), str(m['history']), c.to_float()))
            bounds_case(M, mem, dict(m, k='bounds-history', kind=kind))
            for n in rng.sample(sorted(singles), 4 if quick else 10):
                recv_case(M, mem, singles[n](), [singles[n]()], False, dict(m, k='recv-history', kind=kind, arg=['s', n]))
                arg_case(singles[n](), M, mem, dict(m, k='arg-history', kind=kind, single=n))
        return probe

    for kind, (pool, cls) in POOLS.items():
        for _ in range(5 if quick else 16):
            names = [rng.choice(sorted(pool)) for _ in range(rng.choice((1, 2, 3)))]
            history(cls, names, lambda n, pool=pool: pool[n](), lambda pool=pool: rng.choice(sorted(pool)),
                    pool_probe_for(kind, {}), {'kind': kind}, 2 if quick else 4)

    # ================================================================================================================
    # Family "members with their own time bounds".  Mechanism class: the purely spatial predicates of a multi-shape going
    # through a time-aware entry point of its members (`x in member`, member.contains / member.intersects) or otherwise
    # looking at time bounds.  contains_shape / intersects_shape are spatial: whatever dt the members, the multi-shape, the
    # argument or the argument's parts carry (none, instants, nested / overlapping / disjoint intervals), the answer is the
    # union-of-members law over the members' SPATIAL answers.
    def stamp(s, spec):
        return s.set_dt(mk_dt(spec), inplace=True)

    def mk_stamped(kind, pm, stamps, mdt):
        pool, cls = POOLS[kind]
        return cls([stamp(pool[n](), st) for n, st in zip(pm, stamps)], dt=mk_dt(mdt)), [stamp(pool[n](), st) for n, st in zip(pm, stamps)]

    stamped = [(k_, pm, [DT_MEMBER[1 + (i + j) % 5] for j in range(len(pm))], DT_MULTI[i % 4]) for i, (k_, pm) in enumerate(fixed_multis)]
    pick = [m_ for m_ in multis if m_ not in fixed_multis]
    for k_, pm in rng.sample(pick, min(len(pick), 12 if quick else 36)):
        st = [rng.choice(DT_MEMBER) for _ in pm]
        st[rng.randrange(len(pm))] = rng.choice(DT_MEMBER[1:])          # at least one member is stamped
        stamped.append((k_, pm, st, rng.choice(DT_MULTI)))
    multi_args = rng.sample(multis, min(len(multis), 6 if quick else 20)) + fixed_multis[:2]
    for kind, pm, st, mdt in stamped:
        M, mem = mk_stamped(kind, pm, st, mdt)
        base = {'multi': [kind, list(pm)], 'member_dt': st, 'multi_dt': mdt}
        for n in singles:
            specs = ([rng.choice(DT_ARG_OUT), rng.choice(DT_ARG_IN)] + ([None] if rng.random() < 0.34 else [])) if quick \
                else DT_ARG_OUT + DT_ARG_IN + [None]
            for spec in specs:
                e = recv_case(M, mem, stamp(singles[n](), spec), [stamp(singles[n](), spec)], False,
                              dict(base, k='recv-stamped', arg=['s', n], arg_dt=spec))
                if e is not None and spec is not None and e[1]:
                    nontriv.add(('st', kind, pm, str(st), n, spec))
                arg_case(stamp(singles[n](), spec), M, mem, dict(base, k='arg-stamped', single=n, single_dt=spec))
        for k2, pm2 in multi_args:
            for _ in range(1 if quick else 3):
                st2 = [rng.choice(DT_ARG_OUT + DT_ARG_IN + [None]) for _ in pm2]
                mdt2 = rng.choice(DT_MULTI)
                X, parts = mk_stamped(k2, pm2, st2, mdt2)
                e = recv_case(M, mem, X, parts, True, dict(base, k='recv-stamped', arg=['m', k2, list(pm2)], part_dt=st2, arg_dt=mdt2))
                if e is not None and any(s_ is not None for s_ in st2) and e[1]:
                    nontriv.add(('st', kind, pm, str(st), k2, pm2, str(st2)))

    # empty multi-shape: bounds raises (min of empty sequence)
    ob = guarded(lambda: MultiGeoPoint([]).bounds)
    add(f'KBounds [] {reslit((ob[0], (0, 0, 0, 0)) if ob[0] == "Ok" else ob, bndlit)}', {'k': 'bounds-empty', 'obs': ob[0]})

    ck.cov['evaluations'] = len(cases)
    ck.cov['distinct_nontrivial'] = len(nontriv)
    ck.cov['member_raised'] = skipped[0]
    for m_ in meta:
        ck.count(m_['k'])
    ck.cov['multi_raised'] = raised[0]
    for i in (0, 50, 1000, len(cases) - 1):
        ck.sample(cases[min(i, len(cases) - 1)])
    bad, broken = ck.corr('multi', 'From GV Require Import Prelude TimeM TimeK ShapeM ShapeK.', 'mcheck', cases)
    bad = set(bad) | {i for i, m in enumerate(meta) if 'property_violation' in m}
    for i in sorted(bad)[:5]:
        ck.violation({'kind': 'property-fails-on-implementation' if 'property_violation' in meta[i] else 'model-vs-implementation',
                      'case': meta[i], 'gallina_case': cases[i], 'theorems': 'C04_* (Props/C04.v)'})
    ck.finish(rule='multi-polygons / -linestrings / -points built from named member pools, 1..4 members, member orders permuted '
                   '(all orders up to 3 members and 8 sampled orders of 4 in thorough, 4 sampled per set in quick) x every single fixture (polygons incl. with hole, lines, points, boxes, circle) '
                   'and sampled multi-shape arguments, both as receiver and as argument; coordinate queries; bounds; split with dt/properties. '
                   'Ordinates: members and queries carrying every (z, m) variant out of {None, 0.0, 1.0, 2.0}^2 (points, linestring vertices, polygon '
                   'outline/hole vertices), asked at the members\' positions through contains_coordinate, contains(Coordinate) and `in`. '
                   'Edit histories: after a first round of queries the public geoshapes list is appended to / inserted into / extended / item-assigned / '
                   'popped / deleted from / re-assigned, and coordinate queries, bounds and the receiver/argument predicates are judged against the '
                   'current members after every step. Stamped members: members, multi-shape, arguments and argument parts carry their own time bounds '
                   '(none / instant / nested, overlapping, disjoint intervals); contains_shape / intersects_shape are judged against the law over the '
                   'members\' spatial answers. '
                   'Member-level answers are the implementation own. non-trivial = the deciding member is NOT the first member; an ordinate present on the '
                   'member or the query side; an edit that changed the answer; a stamped argument that intersects a stamped multi-shape (distinct cases counted)',
              assumptions=['member-level predicates are abstract in the theorems (C01/C02 decide them)'])


if __name__ == '__main__':
    if '--replay' in sys.argv:
        import json
        print(json.dumps(json.load(open(sys.argv[sys.argv.index('--replay') + 1])), indent=1))
    else:
        main()
