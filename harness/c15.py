#!/usr/bin/env python3
"""C15 - shapes have value semantics: equality, hashing, copy and pickle agree.
See DESIGN.md section 5 / C15.  Model: coq/theories/Model/ValueM.v, checker Corr/ValueK.v."""
import copy as _copy
import io
import itertools
import json
import math
import os
import pickle
import sys
from datetime import datetime, timedelta, timezone
from fractions import Fraction

sys.path.insert(0, os.path.dirname(os.path.abspath(__file__)))
from lib import guarded_alarm, Check, REPO, guarded, reslit, zlit, blit, listlit   # noqa: E402
import gen_value                                                     # noqa: E402  (tools/: translator tie for __eq__/__hash__/copy)

import logging                                                      # noqa: E402
logging.disable(logging.CRITICAL)
from geostructures import (GeoPolygon, GeoBox, GeoCircle, GeoEllipse, GeoRing, GeoLineString,   # noqa: E402
                           GeoPoint, Coordinate)
from geostructures.multistructures import MultiGeoPoint, MultiGeoLineString, MultiGeoPolygon     # noqa: E402
from geostructures.time import TimeInterval                                                      # noqa: E402

EPOCH = datetime(2020, 1, 1, tzinfo=timezone.utc)
US = timedelta(microseconds=1)
H = 3_600_000_000
SCALE = 4           # every float of a generated shape is a multiple of 1/4: exact in doubles


# ------------------------------------------------------------------ building shapes from specs
def mk_dt(spec, style=0):
    """spec: None | ['inst', hours] | ['iv', h0, h1]; style varies the tz representation only"""
    if spec is None:
        return None
    tz = [timezone.utc, timezone(timedelta(minutes=120)), timezone(timedelta(minutes=-330))][style % 3]

    def d(h):
        return (EPOCH + timedelta(microseconds=int(h * H))).astimezone(tz)
    if spec[0] == 'inst':
        if style % 2:
            return d(spec[1])                  # a bare datetime: the constructor makes the instant interval
        return TimeInterval(d(spec[1]), d(spec[1]))
    return TimeInterval(d(spec[1]), d(spec[2]))


def C(p, m=None):
    return Coordinate(p[0], p[1], z=(p[2] if len(p) > 2 else None), m=m)


def build(spec, style=0, props=None):
    """constructor-level description -> implementation object"""
    k = spec[0]
    kw = {}
    if props is not None:
        kw['properties'] = props
    if k == 'point':
        return GeoPoint(C(spec[1], m=(7.0 if style == 2 else None)), dt=mk_dt(spec[2], style), **kw)
    if k == 'line':
        return GeoLineString([C(p) for p in spec[1]], dt=mk_dt(spec[2], style), **kw)
    if k == 'poly':
        return GeoPolygon([C(p) for p in spec[1]], holes=[build(h, style) for h in spec[2]] or None,
                          dt=mk_dt(spec[3], style), **kw)
    if k == 'polyh':            # stored clockwise (the constructor's _is_hole flag)
        return GeoPolygon([C(p) for p in spec[1]], holes=[build(h, style) for h in spec[2]] or None,
                          dt=mk_dt(spec[3], style), _is_hole=True, **kw)
    if k == 'box':
        return GeoBox(C(spec[1]), C(spec[2]), holes=[build(h, style) for h in spec[3]] or None,
                      dt=mk_dt(spec[4], style), **kw)
    if k == 'circle':
        r = spec[2] if style != 1 or spec[2] != int(spec[2]) else int(spec[2])
        return GeoCircle(C(spec[1], m=(3.0 if style == 2 else None)), r,
                         holes=[build(h, style) for h in spec[3]] or None, dt=mk_dt(spec[4], style), **kw)
    if k == 'ellipse':
        return GeoEllipse(C(spec[1]), spec[2], spec[3], spec[4], holes=[build(h, style) for h in spec[5]] or None,
                          dt=mk_dt(spec[6], style), **kw)
    if k == 'ring':
        return GeoRing(C(spec[1]), spec[2], spec[3], spec[4], spec[5],
                       holes=[build(h, style) for h in spec[6]] or None, dt=mk_dt(spec[7], style), **kw)
    cls = {'mpoint': MultiGeoPoint, 'mline': MultiGeoLineString, 'mpoly': MultiGeoPolygon}[k]
    return cls([build(m, style) for m in spec[1]], dt=mk_dt(spec[2], style), **kw)


# ------------------------------------------------------------------ implementation object -> Gallina
# The model is homogeneous in the unit of its numbers (it only tests equalities, the sign of the shoelace sum and z == 0),
# so a case may be written on ANY power-of-two grid: _SC[0] is the factor of the case being written.  It is SCALE unless
# the shapes of the case carry numbers off the quarter grid (the one-field-nudge families: 1 ulp, 1e-12 ... relative),
# in which case exact_scale() picks the smallest power of two that makes every field an integer (exact, no rounding).
_SC = [SCALE]


def zq(x):
    v = Fraction(x) * _SC[0]
    assert v.denominator == 1, f'off-grid number {x!r}'
    return int(v)


def on_grid(x):
    return (Fraction(x) * _SC[0]).denominator == 1


def numbers_of(s):
    """every number stored in a shape (own fields, holes, members)"""
    if hasattr(s, 'geoshapes'):
        for m in s.geoshapes:
            yield from numbers_of(m)
        return
    cs = []
    if isinstance(s, GeoPoint):
        cs = [s.coordinate]
    elif isinstance(s, GeoLineString):
        cs = s.vertices
    elif isinstance(s, GeoPolygon):
        cs = s.outline
    elif isinstance(s, GeoBox):
        cs = [s.nw_bound, s.se_bound]
    else:
        cs = [s.center]
        for f in ('radius', 'semi_major', 'semi_minor', 'rotation', 'inner_radius', 'outer_radius', 'angle_min', 'angle_max'):
            if hasattr(s, f):
                yield getattr(s, f)
    for c in cs:
        yield c.longitude
        yield c.latitude
        if c.z is not None:
            yield c.z
    for h in getattr(s, 'holes', []):
        yield from numbers_of(h)


class exact_scale:
    """with exact_scale([shapes]): literals are written on the smallest power-of-two grid (>= SCALE) holding every field"""
    def __init__(self, shapes):
        self.k = max([SCALE] + [Fraction(x).denominator for s in shapes for x in numbers_of(s)])

    def __enter__(self):
        self.old = _SC[0]
        _SC[0] = self.k

    def __exit__(self, *a):
        _SC[0] = self.old


def colit(c, intern=None):
    trip = (c.longitude, c.latitude, c.z)
    if intern is not None and not all(on_grid(v) for v in trip if v is not None):
        i = intern.setdefault(trip, len(intern))
        return f'({10 ** 9 + i}, 0, None)'
    z = 'None' if c.z is None else f'(Some {zlit(zq(c.z))})'
    return f'({zlit(zq(c.longitude))}, {zlit(zq(c.latitude))}, {z})'


def dtlit(dt):
    if dt is None:
        return 'None'

    def us(d):
        if d.tzinfo is None:
            d = d.replace(tzinfo=timezone.utc)
        return (d - EPOCH) // US
    return f'(Some ({zlit(us(dt.start))}, {zlit(us(dt.end))}))'


def geomlit(s):
    if isinstance(s, GeoPolygon):
        return '(GPoly ' + listlit([colit(c) for c in s.outline]) + ')'
    if isinstance(s, GeoBox):
        return f'(GBox {colit(s.nw_bound)} {colit(s.se_bound)})'
    if isinstance(s, GeoCircle):
        return f'(GCircle {colit(s.center)} {zlit(zq(s.radius))})'
    if isinstance(s, GeoEllipse):
        return f'(GEllipse {colit(s.center)} {zlit(zq(s.semi_major))} {zlit(zq(s.semi_minor))} {zlit(zq(s.rotation))})'
    if isinstance(s, GeoRing):
        return (f'(GRing {colit(s.center)} {zlit(zq(s.inner_radius))} {zlit(zq(s.outer_radius))} '
                f'{zlit(zq(s.angle_min))} {zlit(zq(s.angle_max))})')
    raise TypeError(type(s))


def singlelit(s):
    if isinstance(s, GeoPoint):
        return f'(SPoint {colit(s.coordinate)} {dtlit(s.dt)})'
    if isinstance(s, GeoLineString):
        return f'(SLine {listlit([colit(c) for c in s.vertices])} {dtlit(s.dt)})'
    holes = listlit([f'(mkhole {geomlit(h)} {dtlit(h.dt)})' for h in s.holes])
    return f'(SArea {geomlit(s)} {holes} {dtlit(s.dt)})'


def shapelit(s):
    if isinstance(s, MultiGeoPoint):
        k = 'MPoint'
    elif isinstance(s, MultiGeoLineString):
        k = 'MLine'
    elif isinstance(s, MultiGeoPolygon):
        k = 'MPoly'
    else:
        return f'(One {singlelit(s)})'
    return f'(Multi {k} {listlit([singlelit(m) for m in s.geoshapes])} {dtlit(s.dt)})'


def curve_table(shapes):
    """bounding_coords() of every curved hole of a GeoPolygon among the shapes (the only place the
    model consults [curve]); off-grid coordinates are interned to distinct fresh integers"""
    intern, rows, seen = {}, [], set()
    for s in shapes:
        members = s.geoshapes if hasattr(s, 'geoshapes') else [s]
        for m in members:
            if isinstance(m, GeoPolygon):
                for h in m.holes:
                    if not isinstance(h, (GeoPolygon, GeoBox)):
                        g = geomlit(h)
                        if g not in seen:
                            seen.add(g)
                            rows.append(f'({g}, {listlit([colit(c, intern) for c in h.bounding_coords()])})')
    return listlit(rows)


# ------------------------------------------------------------------ object identities
def is_container(v):
    return isinstance(v, (list, dict, set))


def cell_ids(s):
    return [s, s._properties] + [v for v in s._properties.values() if is_container(v)], s.dt


class Numbering:
    def __init__(self):
        self.num = {}
        self.keep = []

    def get(self, o):
        if id(o) not in self.num:
            self.num[id(o)] = len(self.num)
            self.keep.append(o)
        return self.num[id(o)]

    def cell(self, s):
        objs, dt = cell_ids(s)
        i = self.get(objs[0])
        p = self.get(objs[1])
        ns = [self.get(o) for o in objs[2:]]
        d = None if dt is None else self.get(dt)
        return (i, p, ns, d)


def celllit(c):
    d = 'None' if c[3] is None else f'(Some {c[3]})'
    return f'(mkoc {c[0]} {c[1]} {listlit([str(x) for x in c[2]])} {d})'


def objlit(o):
    if o[0] == 'O1':
        return f'(O1 (mksobj {celllit(o[1])} {listlit([celllit(h) for h in o[2]])}))'
    return ('(OM (mkmobj ' + celllit(o[1]) + ' ' +
            listlit([f'(mksobj {celllit(m[0])} {listlit([celllit(h) for h in m[1]])})' for m in o[2]]) + '))')


def number_obj(nb, s, order):
    """order: 'orig' / 'pickle' = own cell, then holes / members; 'copy' = members first (model's allocation order)"""
    if hasattr(s, 'geoshapes'):
        if order == 'copy':
            ms = [(nb.cell(m), [nb.cell(h) for h in getattr(m, 'holes', [])]) for m in s.geoshapes]
            own = nb.cell(s)
        else:
            own = nb.cell(s)
            ms = [(nb.cell(m), [nb.cell(h) for h in getattr(m, 'holes', [])]) for m in s.geoshapes]
        return ('OM', own, ms)
    own = nb.cell(s)
    return ('O1', own, [nb.cell(h) for h in getattr(s, 'holes', [])])


# ------------------------------------------------------------------ generators
def ring_pts(rng, n, cx, cy, rad, quarter=False, area=True):
    """n distinct grid points in angular order about their centre: a simple ring with non-zero area"""
    for _ in range(200):
        pts = set()
        while len(pts) < n:
            x = cx + rng.randint(-rad, rad)
            y = cy + rng.randint(-rad, rad)
            if quarter and rng.random() < .3:
                x += rng.choice([.25, .5, .75])
            pts.add((x, y))
        pts = sorted(pts)
        mx = sum(p[0] for p in pts) / n
        my = sum(p[1] for p in pts) / n
        if any(p == (mx, my) for p in pts):
            continue
        pts.sort(key=lambda p: math.atan2(p[1] - my, p[0] - mx))
        if len({round(math.atan2(p[1] - my, p[0] - mx), 9) for p in pts}) < n:
            continue
        a2 = sum((pts[(i + 1) % n][0] - pts[i][0]) * (pts[(i + 1) % n][1] + pts[i][1]) for i in range(n))
        if a2 != 0 or not area:
            return [list(p) for p in pts]
    raise RuntimeError('no ring')


def rewrites(rng, ring, limit=None):
    """every rotation x both windings x closed / not closed input of an open ring"""
    out = []
    n = len(ring)
    for k in range(n):
        for rev in (False, True):
            for closed in (True, False):
                q = ring[k:] + ring[:k]
                if rev:
                    q = q[::-1]
                out.append(q + [q[0]] if closed else q)
    if limit and len(out) > limit:
        out = [out[0]] + rng.sample(out[1:], limit - 1)
    return out


DTS = [None, ['inst', 0], ['inst', 2], ['iv', 0, 2], ['iv', 0, 3], ['iv', 1, 2], ['iv', -5.5, 2]]


def other_dt(rng, d):
    return rng.choice([x for x in DTS if x != d])


def hole_specs(rng, cx, cy, kinds=('poly', 'box', 'circle')):
    """up to two small holes near (cx, cy)"""
    hs = []
    for j in range(rng.choice([0, 1, 1, 2])):
        k = rng.choice(kinds)
        ox = cx - 4 + 8 * j
        if k == 'poly':
            hs.append(['poly', ring_pts(rng, rng.choice([3, 4, 5]), ox, cy, 2), [], rng.choice([None, None, ['inst', 1]])])
        elif k == 'box':
            hs.append(['box', [ox - 1, cy + 1], [ox + 1, cy - 1], [], None])
        elif k == 'circle':
            hs.append(['circle', [ox, cy], rng.choice([100, 250.5, 1000]), [], None])
        else:
            hs.append(['ellipse', [ox, cy], 900, 300, 45, [], None])
    return hs


def vary_hole(rng, h):
    """(same-geometry rewrite of a hole, hole with changed geometry)"""
    if h[0] == 'poly':
        same = ['poly', rng.choice(rewrites(rng, h[1])), [], h[3]]
        moved = [list(p) for p in h[1]]
        moved[rng.randrange(len(moved))][0] += 0.25
        return same, ['poly', moved, [], h[3]]
    if h[0] == 'box':
        return list(h), ['box', [h[1][0] - 0.25, h[1][1]], h[2], [], h[4]]
    if h[0] == 'circle':
        return list(h), ['circle', h[1], h[2] + 0.25, [], h[4]]
    return list(h), ['ellipse', h[1], h[2] + 1, h[3], h[4], [], h[6]]


def family(rng, kind, thorough):
    """base spec + variants [(spec, tag, what)]; tag 'same' (must compare equal), 'diff' (must compare
    unequal: exactly one defining field of geometry or time differs), 'any' (no expectation stated by the property)"""
    cx, cy = rng.randint(-30, 30), rng.randint(-30, 30)
    d = rng.choice(DTS)
    V = []
    if kind == 'point':
        p = [cx, cy] + ([rng.choice([0, 5, -1.25])] if rng.random() < .4 else [])
        base = ['point', p, d]
        V.append((base, 'same', 'identical'))
        V.append((['point', [p[0] + .25] + p[1:], d], 'diff', 'longitude'))
        V.append((['point', [p[0], p[1] - 1] + p[2:], d], 'diff', 'latitude'))
        V.append((['point', [p[0], p[1], (p[2] + 1 if len(p) > 2 else 3)], d], 'diff', 'z'))
        V.append((['point', [p[1], p[0]] + p[2:], d], 'diff' if p[0] != p[1] else 'same', 'lon/lat swapped'))
        V.append((['point', p, other_dt(rng, d)], 'diff', 'dt'))
    elif kind == 'line':
        vs = ring_pts(rng, rng.choice([2, 3, 4, 5]), cx, cy, 6, quarter=True, area=False)
        base = ['line', vs, d]
        V.append((base, 'same', 'identical'))
        mv = [list(p) for p in vs]
        mv[rng.randrange(len(mv))][1] += .5
        V.append((['line', mv, d], 'diff', 'vertex moved'))
        V.append((['line', vs[:-1], d], 'diff', 'vertex dropped'))
        V.append((['line', vs + [[cx + 9, cy + 9]], d], 'diff', 'vertex added'))
        V.append((['line', vs[::-1], d], 'any', 'reversed'))
        V.append((['line', vs, other_dt(rng, d)], 'diff', 'dt'))
    elif kind == 'poly':
        n = rng.choice([3, 4, 4, 5, 6])
        ring = ring_pts(rng, n, cx, cy, 12, quarter=rng.random() < .3)
        if rng.random() < .2:
            ring = [p + [rng.choice([0, 2.5])] for p in ring]          # z on every vertex
        hs = hole_specs(rng, cx, cy) if rng.random() < .6 else []
        pinched = n >= 5 and rng.random() < .5
        if pinched:
            # an outline that lists one position twice (two lobes pinched at ring[0]; the library draws such outlines itself:
            # pie-slice wedges).  Every rotation, incl. the ones starting at either occurrence of the repeated position.
            j = rng.randint(3, n - 2)
            ring = ring[:j] + [list(ring[0])] + ring[j:]
            n += 1
        base = ['poly', ring + [ring[0]], hs, d]
        for q in rewrites(rng, ring, None if thorough or pinched else 10):
            V.append((['poly', q, hs, d], 'same', 'outline rewritten' + (' (position listed twice)' if pinched else '')))
        for j, h in enumerate(hs):
            same, moved = vary_hole(rng, h)
            V.append((['poly', ring, hs[:j] + [same] + hs[j + 1:], d], 'same', 'hole outline rewritten'))
            if h[0] == 'poly':
                for q in rewrites(rng, h[1], None if thorough else 4):
                    V.append((['poly', ring, hs[:j] + [['poly', q, [], h[3]]] + hs[j + 1:], d], 'same', 'hole outline rewritten'))
                V.append((['poly', ring, hs[:j] + [['poly', h[1], [], ['iv', 7, 8]]] + hs[j + 1:], d], 'any', 'hole dt'))
            V.append((['poly', ring, hs[:j] + [moved] + hs[j + 1:], d], 'diff', 'hole geometry'))
            V.append((['poly', ring, hs[:j] + hs[j + 1:], d], 'diff', 'hole removed'))
        if len(hs) == 2:
            V.append((['poly', ring, hs[::-1], d], 'same', 'holes reordered'))
        mv = [list(p) for p in ring]
        mv[rng.randrange(n)][0] += .25
        V.append((['poly', mv, hs, d], 'diff', 'vertex moved'))
        if n > 3:
            k = rng.randrange(n)
            V.append((['poly', ring[:k] + ring[k + 1:], hs, d], 'diff', 'vertex dropped'))
        V.append((['poly', ring + [[cx + 40, cy + 40] + ring[0][2:]], hs, d], 'diff', 'vertex added'))
        if n > 3:
            sw = list(ring)
            sw[0], sw[1] = sw[1], sw[0]
            V.append((['poly', sw, hs, d], 'diff', 'two vertices exchanged'))
        V.append((['poly', ring, hs, other_dt(rng, d)], 'diff', 'dt'))
    elif kind in ('box', 'circle', 'ellipse', 'ring', 'wedge'):
        hs = hole_specs(rng, cx, cy) if rng.random() < .5 else []

        def mk(geo, holes=hs, dt=d):
            return [kind if kind != 'wedge' else 'ring'] + geo + [holes, dt]
        if kind == 'box':
            geo = [[cx - 6, cy + 6], [cx + 6, cy - 6]]
            alts = [([[cx - 6.25, cy + 6], geo[1]], 'nw longitude'), ([[cx - 6, cy + 7], geo[1]], 'nw latitude'),
                    ([geo[0], [cx + 6.5, cy - 6]], 'se longitude'), ([geo[0], [cx + 6, cy - 5]], 'se latitude'),
                    ([[cx - 6, cy + 6, 3], geo[1]], 'nw z')]
        elif kind == 'circle':
            r = rng.choice([500, 1000.25, 25000])
            geo = [[cx, cy], r]
            alts = [([[cx + .25, cy], r], 'center longitude'), ([[cx, cy - 1], r], 'center latitude'),
                    ([[cx, cy], r + .25], 'radius'), ([[cx, cy, 1], r], 'center z')]
        elif kind == 'ellipse':
            a, b, t = rng.choice([3000, 4000.5]), rng.choice([1000, 1500.25]), rng.choice([0, 45, 100.5])
            geo = [[cx, cy], a, b, t]
            alts = [([[cx, cy + .5], a, b, t], 'center'), ([[cx, cy], a + 1, b, t], 'semi_major'),
                    ([[cx, cy], a, b + .25, t], 'semi_minor'), ([[cx, cy], a, b, t + 1], 'rotation'),
                    ([[cx, cy], a, a, t], 'any:minor:=major'), ([[cx, cy], b, a, t], 'axes exchanged')]
        else:
            ri, ro = rng.choice([100, 200.5]), rng.choice([900, 2000.25])
            a0, a1 = (0, 360) if kind == 'ring' else (rng.choice([10, 45.5]), rng.choice([90, 200.25]))
            geo = [[cx, cy], ri, ro, a0, a1]
            alts = [([[cx - .25, cy], ri, ro, a0, a1], 'center'), ([[cx, cy], ri + 1, ro, a0, a1], 'inner_radius'),
                    ([[cx, cy], ri, ro + .5, a0, a1], 'outer_radius'), ([[cx, cy], ri, ro, a0 + 1, a1], 'angle_min'),
                    ([[cx, cy], ri, ro, a0, a1 - 1], 'angle_max')]
        base = mk(geo)
        V.append((base, 'same', 'identical'))
        for g, what in alts:
            V.append((mk(g), 'any' if what.startswith('any') else 'diff', what))
        V.append((mk(geo, dt=other_dt(rng, d)), 'diff', 'dt'))
        for j, h in enumerate(hs):
            same, moved = vary_hole(rng, h)
            V.append((mk(geo, hs[:j] + [same] + hs[j + 1:]), 'same', 'hole outline rewritten'))
            V.append((mk(geo, hs[:j] + [moved] + hs[j + 1:]), 'diff', 'hole geometry'))
            V.append((mk(geo, hs[:j] + hs[j + 1:]), 'diff', 'hole removed'))
            V.append((mk(geo, hs[:j] + [h[:-1] + [['iv', 7, 9]]] + hs[j + 1:]), 'any', 'hole dt'))
        if len(hs) == 2:
            V.append((mk(geo, hs[::-1]), 'any', 'holes reordered'))
    else:
        n = rng.choice([1, 2, 3, 3, 4])
        if kind == 'mpoint':
            pts = ring_pts(rng, max(n, 2), cx, cy, 5, area=False)[:n]
            ms = [['point', p, rng.choice([None, None, ['inst', 1]])] for p in pts]
            alt = ['point', [cx + 20, cy], None]
        elif kind == 'mline':
            ms = [['line', ring_pts(rng, rng.choice([2, 3]), cx + 10 * i, cy, 4, area=False), None] for i in range(n)]
            alt = ['line', [[cx, cy + 20], [cx + 1, cy + 21]], None]
        else:
            ms = []
            for i in range(n):
                mk = rng.choice(['poly', 'poly', 'box', 'circle'])
                if mk == 'poly':
                    r = ring_pts(rng, rng.choice([3, 4, 5]), cx + 20 * i, cy, 5)
                    ms.append(['poly', r, hole_specs(rng, cx + 20 * i, cy, ('poly',))[:1] if rng.random() < .3 else [], None])
                elif mk == 'box':
                    ms.append(['box', [cx + 20 * i - 2, cy + 2], [cx + 20 * i + 2, cy - 2], [], None])
                else:
                    ms.append(['circle', [cx + 20 * i, cy], 500, [], None])
            alt = ['box', [cx - 2, cy + 42], [cx + 2, cy + 38], [], None]
        base = [kind, ms, d]
        perms = list(itertools.permutations(range(n)))
        if not thorough and len(perms) > 8:
            perms = [perms[0]] + rng.sample(perms[1:], 7)
        for p in perms:
            V.append(([kind, [ms[i] for i in p], d], 'same', 'members permuted'))
        V.append(([kind, ms + [ms[0]], d], 'any', 'member repeated'))
        V.append(([kind, ms + [alt], d], 'diff', 'member added'))
        V.append(([kind, ms[:-1] + [alt], d], 'diff', 'member replaced'))
        if n > 1:
            V.append(([kind, ms[1:], d], 'diff', 'member removed'))
        V.append(([kind, ms, other_dt(rng, d)], 'diff', 'dt'))
        j = rng.randrange(n)
        m = ms[j]
        if m[0] in ('poly', 'box', 'circle'):
            # a member that differs only in its holes hashes like the original (polygon-like hashes ignore holes)
            hpos = {'poly': 2, 'box': 3, 'circle': 3}[m[0]]
            hx, hy = (m[1][0][0], m[1][0][1]) if m[0] == 'poly' else ((m[1][0], m[1][1]) if m[0] == 'circle' else (m[1][0] + 2, m[1][1] - 2))
            extra = ['circle', [hx, hy], 7, [], None]
            m2 = list(m)
            m2[hpos] = ([] if m[hpos] else [extra])
            V.append(([kind, ms[:j] + [m2] + ms[j + 1:], d], 'diff', 'member differs only in holes'))
        if m[0] == 'poly':
            V.append(([kind, ms[:j] + [['poly', rng.choice(rewrites(rng, m[1])), m[2], m[3]]] + ms[j + 1:], d], 'same', 'member outline rewritten'))
        V.append(([kind, ms[:j] + [m[:-1] + [['iv', 3, 4]]] + ms[j + 1:], d], 'diff', 'member dt'))
    return base, V


KINDS = ['point', 'line', 'poly', 'box', 'circle', 'ellipse', 'ring', 'wedge', 'mpoint', 'mline', 'mpoly']

# regression corpus: inputs of repaired defects (must be reported as violations if they return)
CORPUS = [
    # D23: hole outline rewritten from another start vertex (tuple(set) iteration order)
    (['poly', [[0, 0], [20, 0], [20, 20], [0, 20], [0, 0]], [['poly', [[9, 4], [19, 3], [16, 13], [16, 15], [9, 4]], [], None]], None],
     ['poly', [[0, 0], [20, 0], [20, 20], [0, 20], [0, 0]], [['poly', [[16, 15], [9, 4], [19, 3], [16, 13], [16, 15]], [], None]], None],
     'same', 'D23 hole start vertex moved'),
    # D16: rotated square hashes, permuted multipoint, holes ignored by box equality
    (['poly', [[0, 0], [1, 0], [1, 1], [0, 1]], [], None], ['poly', [[1, 0], [1, 1], [0, 1], [0, 0]], [], None], 'same', 'D16 rotated square'),
    (['poly', [[0, 0], [1, 0], [1, 1], [0, 1]], [], None], ['poly', [[0, 1], [1, 1], [1, 0], [0, 0]], [], None], 'same', 'D16 reversed square'),
    (['mpoint', [['point', [0, 0], None], ['point', [1, 1], None]], None],
     ['mpoint', [['point', [1, 1], None], ['point', [0, 0], None]], None], 'same', 'D16 permuted multipoint'),
    (['box', [0, 4], [4, 0], [['box', [1, 2], [2, 1], [], None]], None], ['box', [0, 4], [4, 0], [], None], 'diff', 'D16 box holes'),
    (['circle', [0, 0], 1000, [['circle', [0, 0], 10, [], None]], None], ['circle', [0, 0], 1000, [], None], 'diff', 'D16 circle holes'),
    # D24: empty multi-shapes of different classes are equal and must hash equally
    (['mpoint', [], None], ['mline', [], None], 'any', 'D24 empty multipoint / multilinestring'),
    (['mpoint', [], ['inst', 0]], ['mpoly', [], ['inst', 0]], 'any', 'D24 empty multipoint / multipolygon with dt'),
    (['mline', [], None], ['mpoly', [], None], 'any', 'empty multilinestring / multipolygon'),
    # outlines stored in opposite windings: zero-area rings (both windings count as counter-clockwise, so the
    # constructor keeps what it is given) and _is_hole=True polygons (stored clockwise); equality must see through it
    (['poly', [[0, 0], [2, 0], [5, 0]], [], None], ['poly', [[5, 0], [2, 0], [0, 0]], [], None], 'same', 'zero-area ring reversed'),
    (['poly', [[0, 0], [2, 2], [5, 5], [1, 1]], [], None], ['poly', [[5, 5], [2, 2], [0, 0], [1, 1]], [], None], 'same', 'zero-area ring reversed and rotated'),
    (['poly', [[0, 0], [4, 0], [4, 4], [0, 4]], [], ['inst', 1]], ['polyh', [[0, 0], [4, 0], [4, 4], [0, 4]], [], ['inst', 1]], 'same', 'stored clockwise vs counter-clockwise'),
    (['polyh', [[4, 4], [0, 4], [0, 0], [4, 0]], [], None], ['poly', [[0, 0], [4, 0], [4, 4], [0, 4]], [], None], 'same', 'stored clockwise vs counter-clockwise, rotated'),
    (['polyh', [[1, 1], [5, 2], [3, 6]], [], None], ['polyh', [[3, 6], [5, 2], [1, 1]], [], None], 'same', 'both stored clockwise'),
    # coordinates whose float hashes collide (hash(-1.0) == hash(-2.0))
    (['point', [-1, 0], None], ['point', [-2, 0], None], 'diff', 'colliding coordinate hashes'),
    # multi-shapes whose members differ but hash alike (polygon-like hashes ignore holes, GeoPolygon hashes the vertex
    # SET, hash(-1.0) == hash(-2.0)): equality must compare the members themselves, not their hashes
    (['mpoly', [['poly', [[0, 0], [20, 0], [20, 20], [0, 20]], [['poly', [[5, 5], [9, 5], [9, 9], [5, 5]], [], None]], None]], None],
     ['mpoly', [['poly', [[0, 0], [20, 0], [20, 20], [0, 20]], [], None]], None], 'diff', 'multipolygon member differs only in a hole'),
    (['mpoly', [['box', [0, 4], [4, 0], [['box', [1, 2], [2, 1], [], None]], None], ['circle', [30, 0], 500, [], None]], None],
     ['mpoly', [['box', [0, 4], [4, 0], [], None], ['circle', [30, 0], 500, [], None]], None], 'diff', 'multipolygon box member differs only in a hole'),
    (['mpoly', [['poly', [[0, 0], [8, 0], [2, 2], [0, 8]], [], None]], None],
     ['mpoly', [['poly', [[0, 0], [2, 2], [8, 0], [0, 8]], [], None]], None], 'diff', 'multipolygon member: same vertices joined in another order'),
    (['mpoint', [['point', [-1, 0], None], ['point', [3, 3], None]], None],
     ['mpoint', [['point', [-2, 0], None], ['point', [3, 3], None]], None], 'diff', 'multipoint member with a colliding coordinate hash'),
    (['mline', [['line', [[-1, 0], [4, 4]], None]], ['inst', 1]], ['mline', [['line', [[-2, 0], [4, 4]], None]], ['inst', 1]], 'diff',
     'multilinestring member with a colliding coordinate hash'),
    # D9: m is not part of coordinate identity (style 2 adds m)
    (['point', [3, 4], None], ['point', [3, 4], None], 'same', 'D9 m ignored'),
]


# ------------------------------------------------------------------ observation
def observe_pair(a, b):
    return {'ab': a == b, 'ba': b == a, 'hasheq': hash(a) == hash(b), 'setlen': len({a, b}),
            'dict': {a: 1}.get(b) == 1}


def pair_lit(a, b, o):
    with exact_scale([a, b]):
        return _pair_lit(a, b, o)


def _pair_lit(a, b, o):
    return (f'KPair {curve_table([a, b])} {shapelit(a)} {shapelit(b)} {blit(o["ab"])} {blit(o["ba"])} '
            f'{blit(o["hasheq"])} {o["setlen"]} {blit(o["dict"])}')


def oracle_pair(o, tag):
    bad = []
    if o['ab'] != o['ba']:
        bad.append(('symmetry', f'a == b is {o["ab"]} but b == a is {o["ba"]}'))
    if o['ab'] and not o['hasheq']:
        bad.append(('eq_hkey', 'a == b but hash(a) != hash(b)'))
    if o['setlen'] != (1 if o['ab'] and o['hasheq'] else 2):
        bad.append(('set', f'len({{a, b}}) = {o["setlen"]}'))
    if o['ab'] and not o['dict']:
        bad.append(('dict', 'a == b but b is not found under key a'))
    if tag == 'same' and not o['ab']:
        bad.append(('rewrite-equal', 'the same shape re-written compares unequal'))
    if tag == 'diff' and o['ab']:
        bad.append(('differ-unequal', 'shapes differing in one defining field compare equal'))
    return bad


PROPS = [None, {'a': 1}, {'name': 'x', 'tags': [1, 2]}, {'n': 2.5, 'inner': {'k': [3]}, 'l': [4]}]


def snapshot(s):
    """public observations used to see that an object did not change"""
    return (repr(s.dt), json.dumps(s._properties, sort_keys=True, default=str), shapelit(s))


def copy_checks(spec, style, props):
    """returns (cases, failures) for copy() / pickle of build(spec)"""
    import copy as _copy
    s = build(spec, style, props=_copy.deepcopy(props))
    fails = []
    before = snapshot(s)
    rc = guarded(lambda: s.copy())
    rp = guarded(lambda: pickle.loads(pickle.dumps(s)))
    if rc[0] != 'Ok' or rp[0] != 'Ok':
        return [f'KCopyVal {shapelit(s)} {shapelit(s)} {shapelit(s)}'], \
               [('copy/pickle raises', f'copy(): {rc[0]} {rc[1] if rc[0] != "Ok" else ""}; pickle round trip: {rp[0]} {rp[1] if rp[0] != "Ok" else ""}')]
    c, p = rc[1], rp[1]
    cases = [f'KCopyVal {shapelit(s)} {shapelit(c)} {shapelit(p)}']
    nb = Numbering()
    o = number_obj(nb, s, 'orig')
    n = len(nb.num)
    nbc = Numbering(); nbc.num = dict(nb.num); nbc.keep = list(nb.keep)
    oc = number_obj(nbc, c, 'copy')
    nbp = Numbering(); nbp.num = dict(nb.num); nbp.keep = list(nb.keep)
    op = number_obj(nbp, p, 'pickle')
    cases.append(f'KCopyObj {objlit(o)} {n} {objlit(oc)} {objlit(op)}')
    for nm, x in (('copy', c), ('pickle', p)):
        if not (x == s and s == x):
            fails.append((nm + '_eq', f'{nm} does not compare equal to the original'))
        if hash(x) != hash(s):
            fails.append((nm + '_hash', f'{nm} hashes differently'))
        if x._properties != s._properties:
            fails.append((nm + '_props', f'{nm} has different properties'))
        if x is s or x._properties is s._properties or (s.dt is not None and x.dt is s.dt):
            fails.append((nm + '_fresh', f'{nm} shares its properties dict or dt object with the original'))
        for k, v in s._properties.items():
            if is_container(v) and x._properties[k] is v:
                fails.append((nm + '_fresh', f'{nm} shares the nested container under {k!r}'))
        # usable: observations that succeed on the original succeed and agree on the round-tripped object
        for what, f in (('bounds', lambda y: y.bounds), ('to_shapely', lambda y: y.to_shapely().wkt),
                        ('contains_coordinate', lambda y: y.contains_coordinate(Coordinate(0.5, 0.5))),
                        ('to_wkt', lambda y: y.to_wkt())):
            r0 = guarded(lambda: f(s))
            if r0[0] == 'Ok':
                r1 = guarded(lambda: f(x))
                if r1 != r0:
                    fails.append((nm + '_usable', f'{what} on the {nm}: {r1} vs original {r0}'))
        # mutate the copy: nothing may show through the original
        x.set_property('zz', 99)
        for k, v in x._properties.items():
            if isinstance(v, list):
                v.append(77)
            elif isinstance(v, dict):
                v['zz'] = 1
        x.set_dt(TimeInterval(EPOCH + timedelta(days=40), EPOCH + timedelta(days=41)))
        if hasattr(x, 'geoshapes') and x.geoshapes:
            x.geoshapes[0].set_property('yy', 1)
            x.geoshapes[0].set_dt(EPOCH + timedelta(days=50))
        if snapshot(s) != before:
            fails.append((nm + '_isolated', f'mutating the {nm} changed the original'))
    # equal => same hash must also hold for an object that was ALREADY hashed (used as a key) before its members were
    # updated in place: compare with a freshly built twin that went through the same updates but was never hashed before
    if hasattr(s, 'geoshapes') and s.geoshapes:
        a = build(spec, style, props=_copy.deepcopy(props))
        b = build(spec, style, props=_copy.deepcopy(props))
        guarded(lambda: ({a: 1}, hash(a), hash(a.copy())))
        for y in (a, b):
            for i_, g in enumerate(y.geoshapes):
                g.set_dt(EPOCH + timedelta(days=60 + i_))
        ra = guarded(lambda: (a == b, b == a, hash(a) == hash(b), hash(a.copy()) == hash(a), len({a, b})))
        if ra[0] != 'Ok':
            fails.append(('eq_hash_after_member_updates', f'raised {ra[1]}'))
        elif ra[1][0] and not (ra[1][2] and ra[1][3] and ra[1][4] == 1):
            fails.append(('eq_hash_after_member_updates',
                          f'a multi-shape hashed before its members were re-timed in place equals its never-hashed twin but '
                          f'(hash equal, copy hash equal, set size) = {ra[1][2:]}'))
    return cases, fails


# ------------------------------------------------------------------ strengthened families (judged by the property alone)
AREA = ('poly', 'box', 'circle', 'ellipse', 'ring', 'wedge')


def plain_holes(rng, cx, cy, n=None):
    """n small untimed holes (polygon / box / circle / ellipse) near (cx, cy)"""
    hs = []
    for j in range(rng.choice([1, 2]) if n is None else n):
        k = rng.choice(['poly', 'box', 'circle', 'ellipse'])
        ox = cx - 3 + 6 * j
        if k == 'poly':
            hs.append(['poly', ring_pts(rng, rng.choice([3, 4]), ox, cy, 2), [], None])
        elif k == 'box':
            hs.append(['box', [ox - 1.25, cy + 1.5], [ox + 1, cy - 1.75], [], None])
        elif k == 'circle':
            hs.append(['circle', [ox + .25, cy - .5], rng.choice([100, 250.5, 1000]), [], None])
        else:
            hs.append(['ellipse', [ox + .5, cy + .25], rng.choice([900, 1200.5]), rng.choice([300, 450.25]), rng.choice([45, 10.5]), [], None])
    return hs


def plain_spec(rng, kind, holes=None):
    """a random untimed shape of the kind on the quarter grid, away from 0, the poles and the antimeridian
    (so that the constructor stores exactly the numbers it is given); area kinds get `holes` holes (None: 0..2)"""
    cx, cy = rng.choice([-1, 1]) * rng.randint(8, 60), rng.choice([-1, 1]) * rng.randint(8, 60)
    fx, fy = rng.choice([0, .25, .5, .75]), rng.choice([0, .25, .5])
    nh = rng.choice([0, 1, 2]) if holes is None else holes
    if kind == 'point':
        return ['point', [cx + fx, cy + fy] + ([rng.choice([5, -1.25, 120.5])] if rng.random() < .5 else []), None]
    if kind == 'line':
        vs = ring_pts(rng, rng.choice([2, 3, 4, 5]), cx, cy, 6, quarter=True, area=False)
        if rng.random() < .3:
            vs = [p + [rng.choice([1, 2.5, 40])] for p in vs]
        return ['line', vs, None]
    if kind == 'poly':
        ring = ring_pts(rng, rng.choice([3, 4, 5, 6]), cx, cy, 7, quarter=True)
        if rng.random() < .3:
            ring = [p + [rng.choice([1, 2.5, 40])] for p in ring]
        return ['poly', ring, plain_holes(rng, cx, cy, nh), None]
    if kind == 'box':
        z = [rng.choice([3, 7.5])] if rng.random() < .3 else []
        return ['box', [cx - 6 + fx, cy + 6 + fy] + z, [cx + 6 + fx, cy - 6 - fy], plain_holes(rng, cx, cy, nh), None]
    c = [cx + fx, cy + fy] + ([rng.choice([2, 9.75])] if rng.random() < .3 else [])
    if kind == 'circle':
        return ['circle', c, rng.choice([500, 1234.5, 25000.25]), plain_holes(rng, cx, cy, nh), None]
    if kind == 'ellipse':
        return ['ellipse', c, rng.choice([3000, 2345.75]), rng.choice([1000, 987.25]), rng.choice([33, 45, 100.5]),
                plain_holes(rng, cx, cy, nh), None]
    if kind in ('ring', 'wedge'):
        # (a wedge with a Z centre could not be hashed before repair D47, eaff09c: its centroid goes through a Z polygon; kept as a regression case)
        a0, a1 = (0, 360) if kind == 'ring' else (rng.choice([15, 45.5]), rng.choice([140, 200.25]))
        return ['ring', c, rng.choice([100, 321.5]), rng.choice([900, 1765.25]), a0, a1, plain_holes(rng, cx, cy, nh), None]
    n = rng.choice([1, 2, 3])
    mk = {'mpoint': ['point'], 'mline': ['line'], 'mpoly': ['poly', 'box', 'circle', 'poly']}[kind]
    ms = []
    for i in range(n):
        m = plain_spec(rng, rng.choice(mk), holes=(rng.choice([0, 0, 1]) if holes is None else holes))
        while any(json.dumps(m) == json.dumps(x) for x in ms):
            m = plain_spec(rng, rng.choice(mk), holes=0)
        ms.append(m)
    return [kind, ms, None]


HOLEPOS = {'poly': 2, 'box': 3, 'circle': 3, 'ellipse': 5, 'ring': 6}


def time_variants(rng, spec):
    """[(what, spec)]: the same geometry with time bounds in every place of the object graph that can carry them"""
    def own(sp, d):
        return sp[:-1] + [d]
    inst, iv = ['inst', rng.choice([0, 2, -5.5])], rng.choice([['iv', 0, 2], ['iv', -5.5, 3], ['iv', 1, 2]])
    out = [('no time bounds', spec), ('instant', own(spec, inst)), ('interval', own(spec, iv))]
    if spec[0] in HOLEPOS:
        hp = HOLEPOS[spec[0]]
        hs = spec[hp] or plain_holes(rng, 0, 0, 1)
        th = [own(hs[0], rng.choice([inst, iv]))] + hs[1:]
        out.append(('only a hole is timed', spec[:hp] + [th] + spec[hp + 1:]))
        out.append(('shape and hole timed', own(spec[:hp] + [th] + spec[hp + 1:], iv)))
    elif spec[0].startswith('m'):
        ms = spec[1]
        j = rng.randrange(len(ms))
        out.append(('only a member is timed', [spec[0], ms[:j] + [own(ms[j], rng.choice([inst, iv]))] + ms[j + 1:], None]))
        out.append(('multi-shape and every member timed', [spec[0], [own(m, rng.choice([inst, iv])) for m in ms], iv]))
        if ms[j][0] in HOLEPOS:
            hp = HOLEPOS[ms[j][0]]
            hs = ms[j][hp] or plain_holes(rng, 0, 0, 1)
            mj = ms[j][:hp] + [[own(hs[0], inst)] + hs[1:]] + ms[j][hp + 1:]
            out.append(('only a hole of a member is timed', [spec[0], ms[:j] + [mj] + ms[j + 1:], None]))
    return out


def subshapes(s):
    out = []
    for m in getattr(s, 'geoshapes', []):
        out.append(m)
        out += list(getattr(m, 'holes', []))
    out += list(getattr(s, 'holes', []))
    return out


def round_trip_routes():
    """(name, function shape -> (result, extra failures), independence promised)
    'deep': nothing mutable is shared anywhere in the object graph (pickle, deepcopy);
    'top': the shape's own properties / dt are fresh (copy(): the property's words); 'shallow': copy.copy (stdlib: a new
    object whose attributes are shared) - only equality, hash, usability and the original staying undisturbed are judged"""
    R = []
    for p in range(pickle.HIGHEST_PROTOCOL + 1):
        R.append((f'pickle.loads(pickle.dumps(s, protocol={p}))', (lambda s, p=p: (pickle.loads(pickle.dumps(s, protocol=p)), [])), 'deep'))

    def pickler(s, p):
        buf = io.BytesIO()
        pickle.Pickler(buf, protocol=p).dump({'l': [s, s], 'd': {s: 'v'}})
        out = pickle.Unpickler(io.BytesIO(buf.getvalue())).load()
        x = out['l'][0]
        bad = []
        if out['l'][1] is not x or next(iter(out['d'])) is not x:
            bad.append('one shape referenced three times in the pickled container came back as several objects')
        if out['d'].get(x) != 'v' or out['d'].get(s) != 'v':
            bad.append('the shape is not found as a key of the unpickled dict')
        return x, bad
    for p in range(pickle.HIGHEST_PROTOCOL + 1):
        R.append((f'pickle.Pickler(protocol={p}) of a list and dict holding s', (lambda s, p=p: pickler(s, p)), 'deep'))
    R.append(('copy.deepcopy(s)', lambda s: (_copy.deepcopy(s), []), 'deep'))
    R.append(('copy.copy(s)', lambda s: (_copy.copy(s), []), 'shallow'))
    R.append(('s.copy()', lambda s: (s.copy(), []), 'top'))
    return R


def usable_observations(s):
    b = guarded(lambda: s.bounds)        # (raises for outlines with z: not this property's subject)
    mid = Coordinate((b[1][0] + b[1][2]) / 2, (b[1][1] + b[1][3]) / 2) if b[0] == 'Ok' else Coordinate(8.25, 8.5)
    return [('bounds', lambda y: y.bounds), ('to_wkt', lambda y: y.to_wkt()), ('to_shapely', lambda y: y.to_shapely().wkt),
            ('contains_coordinate', lambda y: (y.contains_coordinate(mid), y.contains_coordinate(Coordinate(0.5, 0.5)))),
            ('centroid', lambda y: y.centroid.to_float()), ('to_geojson', lambda y: json.dumps(y.to_geojson(), sort_keys=True, default=str)),
            ('copy', lambda y: y.copy() == s and hash(y.copy()) == hash(s)), ('dt', lambda y: repr(y.dt)),
            ('holes / members', lambda y: [repr(z.dt) + shapelit(z) for z in subshapes(y)])]


def round_trip_checks(spec, style, props, warm):
    """Mechanism class: anything that makes a shape (or an object it carries: TimeInterval, Coordinate, holes, members,
    properties) fail to survive ONE of the serialisation routes Python offers - every pickle protocol 0..HIGHEST (protocols
    0/1 go through copyreg and need a __dict__ or __getstate__; 2+ through __reduce_ex__/__getstate__), pickling inside a
    container (memo, dict keys re-hashed on load), copy.copy / copy.deepcopy (reduce protocol 4) and copy() - with time
    bounds in every position that can carry them, before and after the per-instance caches were filled.
    Returns (gallina cases, [(clause, text)])."""
    fails, cases = [], []
    for name, fn, indep in round_trip_routes():
        s = build(spec, style, props=_copy.deepcopy(props))
        if warm:
            guarded(lambda: (s.bounds, s.to_shapely(), hash(s), s.centroid, s.to_wkt()))
        before = snapshot(s)
        try:
            x, extra = fn(s)
        except Exception as ex:       # noqa
            fails.append((name, f'raised {type(ex).__name__}: {ex}'))
            continue
        fails += [(name, e) for e in extra]
        if type(x) is not type(s):
            fails.append((name, f'result is a {type(x).__name__}'))
            continue
        r = guarded(lambda: (x == s, s == x, hash(x) == hash(s), len({x, s}), {s: 1}.get(x), x._properties == s._properties))
        if r != ('Ok', (True, True, True, 1, 1, True)):
            fails.append((name, f'(x == s, s == x, same hash, len({{x, s}}), {{s: 1}}.get(x), same properties) = {r}'))
        if name != 's.copy()' and not name.startswith('pickle.Pickler'):
            c = s.copy()
            cases.append(f'KCopyVal {shapelit(s)} {shapelit(c)} {shapelit(x)}')
        if x is s:
            fails.append((name, 'the result is the original object'))
        if indep in ('deep', 'top'):
            if x._properties is s._properties or (s.dt is not None and x.dt is s.dt):
                fails.append((name, 'the result shares its properties dict or dt object with the original'))
            for k, v in s._properties.items():
                if is_container(v) and x._properties.get(k) is v:
                    fails.append((name, f'the result shares the nested container under {k!r}'))
        if indep == 'deep':
            for y, z in zip(subshapes(x), subshapes(s)):
                if y is z or y._properties is z._properties or (z.dt is not None and y.dt is z.dt):
                    fails.append((name, 'a hole / member of the result (or its dt, properties) is the object of the original'))
        for what, f in usable_observations(s):
            r0 = guarded(lambda: f(s))
            if r0[0] == 'Ok':
                r1 = guarded(lambda: f(x))
                if r1 != r0:
                    fails.append((name, f'{what} on the result: {r1} vs on the original {r0}'))
        # updates of the result must not show through the original
        x.set_dt(TimeInterval(EPOCH + timedelta(days=40), EPOCH + timedelta(days=41)))
        if indep != 'shallow':
            x.set_property('zz', 99)
            for k, v in x._properties.items():
                if isinstance(v, list):
                    v.append(77)
                elif isinstance(v, dict):
                    v['zz'] = 1
            for m in getattr(x, 'geoshapes', []):
                m.set_property('yy', 1)
                m.set_dt(EPOCH + timedelta(days=50))
        if indep == 'deep':
            for y in subshapes(x):
                y.set_property('yy', 2)
                y.set_dt(EPOCH + timedelta(days=51))
        if snapshot(s) != before:
            fails.append((name, 'using / updating the result changed the original'))
    return cases, fails


# numeric defining fields of a spec, as index paths into it
def field_paths(spec):
    k = spec[0]
    P = []

    def coord(path, c, nm):
        for i in range(len(c)):
            P.append((path + (i,), nm + ('.longitude', '.latitude', '.z')[i]))
    if k == 'point':
        coord((1,), spec[1], 'coordinate')
    elif k in ('line', 'poly'):
        for j, c in enumerate(spec[1]):
            coord((1, j), c, f'vertex[{j}]')
    elif k == 'box':
        coord((1,), spec[1], 'nw_bound')
        coord((2,), spec[2], 'se_bound')
    elif k in ('circle', 'ellipse', 'ring'):
        coord((1,), spec[1], 'center')
        names = {'circle': ['radius'], 'ellipse': ['semi_major', 'semi_minor', 'rotation'],
                 'ring': ['inner_radius', 'outer_radius', 'angle_min', 'angle_max']}[k]
        for i, nm in enumerate(names):
            P.append(((2 + i,), nm))
    else:
        for j, m in enumerate(spec[1]):
            P += [((1, j) + p, f'member[{j}].{nm}') for p, nm in field_paths(m)]
    if k in HOLEPOS:
        for j, h in enumerate(spec[HOLEPOS[k]]):
            P += [((HOLEPOS[k], j) + p, f'hole[{j}]({h[0]}).{nm}') for p, nm in field_paths(h)]
    return P


def get_at(spec, path):
    for i in path:
        spec = spec[i]
    return spec


def set_at(spec, path, v):
    spec = _copy.deepcopy(spec)
    t = spec
    for i in path[:-1]:
        t = t[i]
    t[path[-1]] = v
    return spec


def nudges(rng, v):
    """v itself (twice, once as the other number type) and ever larger departures from it: 1 and 3 ulp both ways,
    1e-12 ... 1e-6 relative, the chain v, v(1+6e-10), v(1+1.5e-9) (neighbours closer than 1e-9, ends not), a random
    relative step; absolute steps as well when v is 0"""
    v = float(v)
    up1, dn1 = math.nextafter(v, math.inf), math.nextafter(v, -math.inf)
    up3 = math.nextafter(math.nextafter(up1, math.inf), math.inf)
    sg = rng.choice([1, -1])
    out = [v, (int(v) if v == int(v) else v), up1, dn1, up3,
           v * (1 + sg * 1e-12), v * (1 + 6e-10), v * (1 + 1.5e-9), v * (1 - sg * 1e-9), v * (1 + sg * 3e-10), v * (1 + 1e-6),
           v * (1 + rng.choice([1, -1]) * 10 ** -rng.uniform(5, 15))]
    if v == 0:
        out += [1e-12, -1e-9, 5e-7]
    return out


MULTI_OF = {'point': MultiGeoPoint, 'line': MultiGeoLineString}


def in_curved_hole_of_polygon(spec, path):
    """GeoPolygon.__eq__ compares holes through their bounding_coords(), which inverse_haversine rounds to 1e-7 degrees:
    for a field of a circle / ellipse / ring HOLE OF A GeoPolygon the exact reference does not apply (the model takes those
    coordinates from the implementation, Section variable curve); the family then judges the laws on the observed relation"""
    sp, p = spec, list(path)
    while True:
        k = sp[0]
        if k.startswith('m'):
            sp, p = sp[1][p[1]], p[2:]
            continue
        if k in HOLEPOS and p[0] == HOLEPOS[k] and len(p) > 2:
            return k == 'poly' and sp[p[0]][p[1]][0] in ('circle', 'ellipse', 'ring')
        return False


def nudge_family(rng, spec, path, fname, vals=None, other=None):
    """Mechanism class: a tolerance (math.isclose, round, int, float32, string formatting ...) entering the == or the
    hash of ANY numeric defining field of any shape kind, at top level, inside a hole or inside a member, so that equality
    stops being the exact, transitive relation the hash and the multi-shape comparison are built on.
    All members of the family are the same shape except for the one field; the reference is exact: two members are the
    same iff the field values are the same number.
    Returns (fails [(clause, text, specA, specB)], values, specs, spec of the common second member of the multi-shapes)."""
    vals = nudges(rng, get_at(spec, path)) if vals is None else vals
    if other is None:
        other = plain_spec(rng, {'point': 'point', 'line': 'line'}.get(spec[0], 'box'), holes=0)
    specs = [set_at(spec, path, v) for v in vals]
    objs = [build(sp, i if i < 3 else 0) for i, sp in enumerate(specs)]     # styles: int/float, tz representation, m
    n = len(objs)
    fails = []
    exact = not in_curved_hole_of_polygon(spec, path)
    E = [[objs[i] == objs[j] for j in range(n)] for i in range(n)]
    Hs = [hash(o) for o in objs]
    classes = []
    for i, v in enumerate(vals):
        if not any((v == vals[w]) if exact else E[w][i] for w in classes):
            classes.append(i)
    ncls = len(classes)
    for i in range(n):
        for j in range(n):
            same = vals[i] == vals[j]
            if E[i][j] != E[j][i]:
                fails.append(('symmetry', f'{fname}: a == b is {E[i][j]} but b == a is {E[j][i]}', specs[i], specs[j]))
            if E[i][j] and not same and exact:
                fails.append(('differ-unequal', f'{fname} = {vals[i]!r} and {vals[j]!r} differ but the shapes compare equal', specs[i], specs[j]))
            if same and not E[i][j]:
                fails.append(('rewrite-equal', f'{fname} = {vals[i]!r} and {vals[j]!r} are the same number but the shapes compare unequal', specs[i], specs[j]))
            if E[i][j] and Hs[i] != Hs[j]:
                fails.append(('eq_hkey', f'{fname} = {vals[i]!r} / {vals[j]!r}: a == b but hash(a) != hash(b)', specs[i], specs[j]))
    for i in range(n):
        for j in range(n):
            if E[i][j]:
                for k in range(n):
                    if E[j][k] and not E[i][k]:
                        fails.append(('transitivity', f'{fname} = {vals[i]!r}, {vals[j]!r}, {vals[k]!r}: a == b and b == c but a != c', specs[i], specs[k]))
    if len(set(objs)) != ncls or len(dict.fromkeys(objs)) != ncls:
        fails.append(('set', f'{fname}: {n} shapes of {ncls} distinct values give a set of {len(set(objs))} and a dict of {len(dict.fromkeys(objs))} keys',
                      specs[0], specs[-1]))
    # multi-shapes over the members: equal iff the members are
    if not hasattr(objs[0], 'geoshapes'):
        cls = MULTI_OF.get(spec[0], MultiGeoPolygon)
        ms = [cls([o, build(other)]) if i % 2 else cls([build(other), o]) for i, o in enumerate(objs)]
        ME = [[ms[i] == ms[j] for j in range(n)] for i in range(n)]
        MH = [hash(m) for m in ms]
        for i in range(n):
            for j in range(n):
                if ME[i][j] != E[i][j] or ME[i][j] != ME[j][i] or (ME[i][j] and MH[i] != MH[j]):
                    fails.append(('multi', f'multi-shapes over members with {fname} = {vals[i]!r} / {vals[j]!r} and a common second member: '
                                           f'== is {ME[i][j]} / {ME[j][i]} (members: {E[i][j]}), hashes equal: {MH[i] == MH[j]}', specs[i], specs[j]))
        if len(set(ms)) != ncls:
            fails.append(('multi', f'{fname}: multi-shapes over {ncls} distinct members give a set of {len(set(ms))}', specs[0], specs[-1]))
    return fails, vals, specs, other


# ------------------------------------------------------------------ read-only call histories
# Mechanism class: PER-INSTANCE STATE THAT READ-ONLY CALLS LEAVE BEHIND (a remembered drawing, a cached_property, an lru
# cache, a memo on a hole / member / Coordinate shared with copies) leaking into __eq__ / __hash__ / copy() / pickle, so
# that what a shape compares or hashes to depends on what was ASKED of it before, not only on its defining fields.
# Two identically built twins; one of them (or one of its holes / members / a copy or drawing that shares sub-objects with
# it) receives a history of ordinary public read-only calls, with the default and with explicit resolutions k; the other
# is never touched.  The property is then judged on the pair: equal both ways, equal hash, hash unchanged since before the
# history (found again in the set / dict it was put into), copy() and every pickle / copy-module route equal with equal
# hash, set / dict collapse, multi-shape equality with reordered members using the twin - for the shape itself and for
# every hole / member of it.  Histories: (i) a systematic sweep - every call of the catalogue x {default, k=None, a small
# and a large k} x every place of the object graph, one call each; (ii) random sequences, judged after each of two segments
# (so a later call that happens to "heal" the object does not hide a drift in between).
HKINDS = KINDS + ['wedge0', 'wedgeN', 'polycurved', 'mcurved']
CURVED_HKINDS = ('circle', 'ellipse', 'ring', 'wedge', 'wedge0', 'wedgeN', 'polycurved', 'mcurved')
KS = [3, 4, 8, 10, 17, 36, 60, 90]


def set_angles(spec, a0, a1):
    return spec[:4] + [a0, a1] + spec[6:]


def curved_hole(rng, ox, cy, kind=None):
    k = kind or rng.choice(['circle', 'ellipse', 'ring', 'wedge', 'wedge0'])
    c = [ox + rng.choice([0, .25, .5]), cy + rng.choice([0, .25])]
    if k == 'circle':
        return ['circle', c, rng.choice([100, 250.5, 1000]), [], None]
    if k == 'ellipse':
        return ['ellipse', c, rng.choice([900, 1200.5]), rng.choice([300, 450.25]), rng.choice([45, 10.5]), [], None]
    a0, a1 = {'ring': (0, 360), 'wedge': (rng.choice([15, 45.5]), rng.choice([140, 200.25])), 'wedge0': (0, rng.choice([90, 200.25]))}[k]
    return ['ring', c, rng.choice([50, 120.5]), rng.choice([400, 900.25]), a0, a1, [], None]


def history_spec(rng, kind):
    """plain_spec plus the curved cases it does not draw: wedges starting at 0 degrees (centroid = centre: the other branch of
    GeoRing.centroid), wedges through north / with a negative start / ending at 360, polygons with circle / ellipse / ring /
    wedge holes, multi-polygons of curved members (with holes)"""
    if kind in KINDS:
        return plain_spec(rng, kind)
    if kind == 'wedge0':
        return set_angles(plain_spec(rng, 'wedge'), 0, rng.choice([90, 200.25, 359.75]))
    if kind == 'wedgeN':
        return set_angles(plain_spec(rng, 'wedge'), *rng.choice([(350, 370), (-20.5, 30), (90, 360), (180.25, 540)]))
    if kind == 'polycurved':
        g = plain_spec(rng, 'poly', holes=0)
        cx, cy = int(g[1][0][0]), int(g[1][0][1])
        return ['poly', g[1], [curved_hole(rng, cx - 3 + 6 * j, cy) for j in range(rng.choice([1, 2, 2]))], None]
    ms = []
    for i in range(rng.choice([2, 2, 3])):
        while True:
            mk = rng.choice(['wedge', 'wedge0', 'ring']) if i == 0 else rng.choice(['circle', 'ellipse', 'ring', 'wedge', 'wedge0', 'wedgeN', 'box', 'poly'])
            m = history_spec(rng, mk)
            hp = HOLEPOS[m[0]]
            if rng.random() < .3:
                m = m[:hp] + [[curved_hole(rng, 0, 0)]] + m[hp + 1:]
            elif rng.random() < .6:
                m = m[:hp] + [[]] + m[hp + 1:]
            if not any(json.dumps(m) == json.dumps(x) for x in ms):
                break
        ms.append(m)
    return ['mpoly', ms, None]


def resolve(s, path):
    """a place of the object graph reachable through public attributes: a hole, a member, a copy() (shares holes, coordinates),
    the drawn polygon (shares holes)"""
    for step in path:
        if step[0] == 'hole':
            s = s.holes[step[1]]
        elif step[0] == 'member':
            s = s.geoshapes[step[1]]
        elif step[0] == 'copy':
            s = s.copy()
        elif step[0] == 'polygon':
            s = s.to_polygon()
        else:
            raise ValueError(step)
    return s


def places(s):
    """every hole / member / hole of a member of s, as paths"""
    P = [[]]
    for j, m in enumerate(getattr(s, 'geoshapes', [])):
        P.append([['member', j]])
        P += [[['member', j], ['hole', i]] for i in range(len(getattr(m, 'holes', [])))]
    P += [[['hole', i]] for i in range(len(getattr(s, 'holes', [])))]
    return P


# the catalogue of public read-only calls: name -> (accepts k, call(shape, kwargs, aux)); aux: a probe coordinate, a small box
# and a circle about it (both inside the bounds of the shape under test), a far box, two instants
OPS = {
    'to_polygon': (1, lambda s, kw, x: s.to_polygon(**kw)),
    'to_polygon.centroid': (1, lambda s, kw, x: s.to_polygon(**kw).centroid),
    'to_wkt': (1, lambda s, kw, x: s.to_wkt(**kw)),
    'to_geojson': (1, lambda s, kw, x: s.to_geojson(**kw)),
    'to_geojson(include_bbox)': (1, lambda s, kw, x: s.to_geojson(include_bbox=True, **kw)),
    'to_geo_interface': (1, lambda s, kw, x: s.to_geo_interface(**kw)),
    'bounding_coords': (1, lambda s, kw, x: s.bounding_coords(**kw)),
    'bounding_edges': (1, lambda s, kw, x: s.bounding_edges(**kw)),
    'linear_rings': (1, lambda s, kw, x: s.linear_rings(**kw)),
    'edges': (1, lambda s, kw, x: s.edges(**kw)),
    'convex_hull': (1, lambda s, kw, x: s.convex_hull(**kw)),
    'contains_shape(box)': (1, lambda s, kw, x: s.contains_shape(x['box'], **kw)),
    'contains_shape(circle)': (1, lambda s, kw, x: s.contains_shape(x['circle'], **kw)),
    'intersects_shape(circle)': (1, lambda s, kw, x: s.intersects_shape(x['circle'], **kw)),
    'intersects_shape(far box)': (1, lambda s, kw, x: s.intersects_shape(x['far'], **kw)),
    'intersects(circle)': (1, lambda s, kw, x: s.intersects(x['circle'], **kw)),
    'intersects(box)': (1, lambda s, kw, x: s.intersects(x['box'], **kw)),
    'circle.intersects_shape(s)': (1, lambda s, kw, x: x['circle'].intersects_shape(s, **kw)),
    'circle.contains_shape(s)': (1, lambda s, kw, x: x['circle'].contains_shape(s, **kw)),
    'far box.intersects(s)': (1, lambda s, kw, x: x['far'].intersects(s, **kw)),
    'to_shapely': (1, lambda s, kw, x: s.to_shapely(**kw)),
    'contains(box)': (0, lambda s, kw, x: s.contains(x['box'])),
    'contains(probe)': (0, lambda s, kw, x: s.contains(x['probe'])),
    'contains_coordinate': (0, lambda s, kw, x: s.contains_coordinate(x['probe'])),
    'probe in s': (0, lambda s, kw, x: x['probe'] in s),
    'box in s': (0, lambda s, kw, x: x['box'] in s),
    'contains_time': (0, lambda s, kw, x: (s.contains_time(x['t0']), s.intersects_time(x['t1']))),
    'area': (0, lambda s, kw, x: s.area),
    'volume': (0, lambda s, kw, x: s.volume),
    'bounds': (0, lambda s, kw, x: s.bounds),
    'centroid': (0, lambda s, kw, x: s.centroid),
    'has_z / has_m': (0, lambda s, kw, x: (s.has_z, s.has_m)),
    'circumscribing_circle': (0, lambda s, kw, x: s.circumscribing_circle()),
    'circumscribing_rectangle': (0, lambda s, kw, x: s.circumscribing_rectangle()),
    '__geo_interface__': (0, lambda s, kw, x: s.__geo_interface__),
    'segments': (0, lambda s, kw, x: s.segments),
    'split': (0, lambda s, kw, x: s.split()),
    'iter': (0, lambda s, kw, x: list(s)),
    'properties / start / end': (0, lambda s, kw, x: (s.properties, guarded(lambda: s.start), guarded(lambda: s.end))),
    'repr': (0, lambda s, kw, x: (repr(s), str(s))),
    'hash': (0, lambda s, kw, x: hash(s)),
    's == s.copy()': (0, lambda s, kw, x: (s == s.copy(), s != x['box'], s == 3)),
    'copy': (0, lambda s, kw, x: s.copy()),
    'copy.copy': (0, lambda s, kw, x: _copy.copy(s)),
    'copy.deepcopy': (0, lambda s, kw, x: _copy.deepcopy(s)),
    'pickle.dumps': (0, lambda s, kw, x: pickle.dumps(s)),
    'set_dt(inplace=False)': (0, lambda s, kw, x: s.set_dt(x['t0'], inplace=False)),
    'set_property(inplace=False)': (0, lambda s, kw, x: s.set_property('q', 1, inplace=False)),
}


def history_aux(spec):
    t = build(spec)
    b = guarded(lambda: t.bounds)
    x, y = ((b[1][0] + b[1][2]) / 2, (b[1][1] + b[1][3]) / 2) if b[0] == 'Ok' else (8.25, 8.5)
    return {'probe': Coordinate(x, y), 'box': GeoBox(Coordinate(x - .001, y + .001), Coordinate(x + .001, y - .001)),
            'circle': GeoCircle(Coordinate(x, y), 150), 'far': GeoBox(Coordinate(100, 71), Coordinate(101, 70)),
            't0': EPOCH, 't1': TimeInterval(EPOCH - timedelta(hours=1), EPOCH + timedelta(hours=1))}


def random_history(rng, s, n):
    """n steps [path, call, kwargs]; half of the calls that accept k get an explicit one"""
    P = places(s)
    names = list(OPS)
    taking = [nm for nm in names if OPS[nm][0]]
    steps = []
    for _ in range(n):
        path = list(rng.choice(P)) if rng.random() < .6 else []
        r = rng.random()
        if r < .15:
            path = path + [['copy']]
        elif r < .25:
            path = path + [['polygon']]
            if rng.random() < .5 and getattr(guarded(lambda: resolve(s, path))[1], 'holes', None):
                path = path + [['hole', 0]]
        nm = rng.choice(taking) if rng.random() < .6 else rng.choice(names)
        kw = {}
        if OPS[nm][0]:
            r = rng.random()
            kw = {} if r < .35 else ({'k': None} if r < .45 else {'k': rng.choice(KS)})
        steps.append([path, nm, kw])
    return steps


def multi_class(s):
    return MultiGeoPoint if isinstance(s, GeoPoint) else (MultiGeoLineString if isinstance(s, GeoLineString) else MultiGeoPolygon)


def history_record(a):
    """what is remembered BEFORE the history: the hash, a set and a dict holding the shape, the same for its holes / members"""
    return {'h': hash(a), 'set': {a}, 'dict': {a: 'v'}, 'sub': [(hash(z), {z}) for z in subshapes(a)]}


def history_light(a, b, rec, hb):
    """the judgement made after EVERY call of a sweep: still equal to the twin both ways, same hash as the (never touched) twin,
    same hash as before the calls - for the shape and for each of its holes / members"""
    F = []
    r = guarded(lambda: ((a == b) is True and (b == a) is True, hash(a)))
    if r[0] != 'Ok':
        return [('raises', f'a == b / hash(a) raised {r[1]}')]
    if not r[1][0]:
        F.append(('rewrite-equal', 'an identically built shape no longer compares equal (a == b, b == a)'))
    if r[1][1] != hb:
        F.append(('eq_hkey', 'hash(a) != hash(b) for the identically built, never touched twin b'))
    if rec is not None:
        if r[1][1] != rec['h']:
            F.append(('hash-stable', 'hash(a) changed although no field was modified'))
        for (h, _), z in zip(rec['sub'], subshapes(a)):
            if guarded(lambda: hash(z)) != ('Ok', h):
                F.append(('hash-stable', f'a hole / member ({type(z).__name__}) hashes differently than before the calls'))
    return F


def history_judge(a, b, rec, before, spec, sb, other, routes):
    """the property on (shape with a history, untouched twin).  Returns [(clause, text)]"""
    F = []

    def law(clause, text, f):
        r = guarded(f)
        if r != ('Ok', True):
            F.append((clause, text + ('' if r[0] == 'Ok' else f' (raised {r[1]})')))
    law('reflexivity', 'a == a is not True', lambda: (a == a) is True)
    law('rewrite-equal', 'an identically built shape no longer compares equal (a == b, b == a)', lambda: (a == b) is True and (b == a) is True)
    ha, hb = guarded(lambda: hash(a))[1], guarded(lambda: hash(b))[1]
    law('eq_hkey', 'a == b but hash(a) != hash(b)', lambda: isinstance(ha, int) and ha == hb)
    both = guarded(lambda: {a, b})[1]
    law('set', 'a and its twin do not collapse in a set / as dict keys', lambda: len(both) == 1 and {a: 1}.get(b) == 1)
    if rec is not None:
        law('hash-stable', 'hash(a) changed although no field was modified', lambda: ha == rec['h'])
        law('hash-stable', 'a is not found in the set / dict it was put into before the calls', lambda: a in rec['set'] and rec['dict'].get(a) == 'v')
        law('hash-stable', 'the twin of a is not found in the set a was put into before the calls', lambda: b in rec['set'])
        for (h, st), z in zip(rec['sub'], subshapes(a)):
            law('hash-stable', f'a hole / member ({type(z).__name__}) hashes differently than before the calls', lambda: hash(z) == h and z in st)
    law('unchanged', 'a defining field, dt or the properties changed', lambda: snapshot(a) == before)
    for z, w in zip(subshapes(a), subshapes(b)):
        law('eq_hkey', f'a hole / member ({type(z).__name__}) and the one of the twin: equal both ways, same hash, one set element',
            lambda: (z == w) is True and (w == z) is True and hash(z) == hash(w) and len({z, w}) == 1)
    for name, fn, _ in routes:
        def rt():
            x, extra = fn(a)
            return ((x == a) is True and (a == x) is True and (b == x) is True and hash(x) == ha == hb
                    and x in both and not extra and snapshot(x) == before)
        law(name, 'the result is not equal (both ways) to the original and its twin with the same hash, one set element', rt)
    # multi-shapes: members reordered, the twin (or the twin's members) on the other side
    if hasattr(a, 'geoshapes'):
        b2 = build(spec, sb)
        law('multi', 'the multi-shape does not equal (same hash) the multi-shape of its twin\'s members in reverse order',
            lambda: (lambda m: (a == m) is True and (m == a) is True and ha == hash(m) and len({a, m}) == 1)(type(a)(b2.geoshapes[::-1], dt=b2.dt)))
        law('multi', 'the multi-shape of its own members in reverse order does not equal (same hash) the twin',
            lambda: (lambda m: (b == m) is True and (m == b) is True and hb == hash(m))(type(a)(a.geoshapes[::-1], dt=a.dt)))
    else:
        cls = multi_class(a)
        law('multi', 'multi-shapes [a, other] and [other, twin of a] are not equal both ways with the same hash',
            lambda: (lambda m1, m2: (m1 == m2) is True and (m2 == m1) is True and hash(m1) == hash(m2) and len({m1, m2}) == 1)
            (cls([a, build(other)]), cls([build(other), b])))
    return F


def pick_routes(rng):
    """copy(), and one more route (a pickle protocol, bare or inside a container, copy.copy, copy.deepcopy), by name; all of them
    are exercised on fresh shapes by round_trip_checks"""
    return ['s.copy()', rng.choice([r[0] for r in round_trip_routes() if r[0] != 's.copy()'])]


def history_checks(spec, styles, props, hash_first, segments, other, route_names=None, every_call=False):
    """Returns (observed pairs [(a, b, observation)] after each segment, [(clause, text)], calls that answered).
    every_call: the light judgement after every single call as well (reported for the first call after which it fails)"""
    routes = [r for r in round_trip_routes() if route_names is None or r[0] in route_names]
    a, b = build(spec, styles[0], props=_copy.deepcopy(props)), build(spec, styles[1], props=_copy.deepcopy(props))
    aux = history_aux(spec)
    before = snapshot(a)
    rec = history_record(a) if hash_first else None
    hb = guarded(lambda: hash(b))[1] if every_call else None
    fails, obs, ok, light = [], [], 0, every_call
    for n, steps in enumerate(segments):
        for i, (path, nm, kw) in enumerate(steps):
            takes, fn = OPS[nm]
            ok += guarded_alarm(lambda: fn(resolve(a, path), dict(kw) if takes else {}, aux), 10)[0] == 'Ok'   # (a call that never returns is not C15's subject: counted as not ok)
            if light:
                F = history_light(a, b, rec, hb)
                if F:
                    fails += [(c, f'right after call {i + 1} of segment {n + 1}, {json.dumps([path, nm, kw])}: {t}') for c, t in F]
                    light = False
        F = history_judge(a, b, rec, before, spec, styles[1], other, routes)
        fails += [(c, f'after segment {n + 1} of the history: {t}') for c, t in F]
        o = guarded(lambda: observe_pair(a, b))
        if o[0] == 'Ok':
            obs.append((a, b, o[1]))
        if rec is None and n == 0:
            rec = guarded(lambda: history_record(a))[1]      # from now on the hash must stay
            rec = rec if isinstance(rec, dict) else None
    return obs, fails, ok


def use_then_update(spec, use, upd, style):
    """[(clause, text)] - see family (e) in main"""
    a = build(spec, style)
    d0 = spec[-1]
    lo, hi = (d0[1], d0[1]) if d0[0] == 'inst' else (d0[1], d0[2])
    keep = None
    if use == 'hash':
        keep = hash(a)
    elif use == 'set':
        keep = {a}
    elif use == 'dict':
        keep = {a: 1}
    else:
        keep = multi_class(a)([a]) == multi_class(a)([build(spec, (style + 1) % 3)]) if not spec[0].startswith('m') else hash(a)
    if upd == 'set_dt':
        nd = ['iv', lo + 1, hi + 3]
        a.set_dt(mk_dt(nd, style), inplace=True)
    elif upd == 'strip_dt':
        nd = None
        a.strip_dt(inplace=True)
    else:
        nd = ['iv', lo - 1, hi + 1]
        a.buffer_dt(timedelta(hours=1), inplace=True)
    b = build(spec[:-1] + [nd], (style + 1) % 3)
    del keep
    bad = []
    for who, x in (('the updated shape', a), ('its copy()', a.copy()), ('its pickle', pickle.loads(pickle.dumps(a)))):
        o = observe_pair(x, b)
        bad += [(c, f'{who} after {use} then {upd} vs a twin built with the resulting time bounds: {t}') for c, t in oracle_pair(o, 'same')]
    if not spec[0].startswith('m'):
        M = multi_class(a)
        o = observe_pair(M([a]), M([b]))
        bad += [(c, f'multi-shapes over the updated shape and over the twin: {t}') for c, t in oracle_pair(o, 'same')]
    return bad


def main():
    ck = Check('C15')
    ck.build_theories(['theories/Props/C15.vo', 'theories/Corr/ValueK.vo'])
    rep = gen_value.main(REPO, os.path.join(ck.rundir, 'ValueGen.v'))    # __eq__/__hash__/copy regenerated from the working tree ...
    ck.gen('ValueGen.v', rep, 'ValueGenEq.v')                            # ... proved equal to ValueM for all arguments
    ck.props('Props/C15.v')
    rng = ck.rng
    thorough = ck.tier == 'thorough'
    cases, meta = [], []

    def add(lit, m):
        cases.append(lit)
        meta.append(m)

    def add_pair(sa, sb, tag, what, sty=(0, 0)):
        try:
            a, b = build(sa, sty[0]), build(sb, sty[1])
            o = observe_pair(a, b)
        except Exception as ex:     # noqa: the implementation raised where the property promises an answer
            ck.violation({'kind': 'implementation-raises', 'case': {'k': 'pair', 'a': sa, 'b': sb, 'styles': list(sty), 'tag': tag, 'what': what},
                          'exception': repr(ex), 'how_to_replay': 'bin/check C15 --replay <this file>'})
            ck.finish(rule='aborted: the implementation raised while being observed')
        m = {'k': 'pair', 'a': sa, 'b': sb, 'styles': list(sty), 'tag': tag, 'what': what, 'obs': o}
        add(pair_lit(a, b, o), m)
        bad = oracle_pair(o, tag)
        if bad:
            m['property_clauses_violated'] = bad
        ck.count(f'pair:{sa[0]}:{tag}')
        return a, b, o

    nontrivial = set()
    for sa, sb, tag, what in CORPUS:
        add_pair(sa, sb, tag, what, (0, 2))
        add_pair(sb, sa, tag, what, (2, 1))
    nfam = 20 if not thorough else 80
    bases = []
    for kind in KINDS:
        for _ in range(nfam if kind not in ('poly', 'mpoly') else nfam * 2):
            base, V = family(rng, kind, thorough)
            bases.append(base)
            objs = []
            for i, (spec, tag, what) in enumerate(V):
                sty = (rng.randrange(3), rng.randrange(3))
                a, b, o = add_pair(base, spec, tag, what, sty)
                objs.append((spec, tag, b))
                if tag == 'same' and what != 'identical' or tag == 'diff':
                    nontrivial.add(json.dumps([base, spec]))
            # reflexivity on one object, and with an independently built twin
            a = build(base)
            if not (a == a):
                add(pair_lit(a, a, observe_pair(a, a)), {'k': 'pair', 'a': base, 'b': base, 'tag': 'same', 'what': 'a == a',
                                                          'property_clauses_violated': [('reflexivity', 'a == a is False')]})
            # transitivity / mutual equality inside the family, on the implementation's own answers
            trip = [rng.sample(objs, 3) for _ in range(6 if not thorough else 30)] if len(objs) >= 3 else []
            for (s1, t1, x), (s2, t2, y), (s3, t3, z) in trip:
                if x == y and y == z and not x == z:
                    add(pair_lit(x, z, observe_pair(x, z)), {'k': 'pair', 'a': s1, 'b': s3, 'via': s2, 'tag': 'any', 'what': 'transitivity',
                                                              'property_clauses_violated': [('transitivity', 'x == y and y == z but x != z')]})
                # variant vs variant goes through the model as well
                add_pair(s1, s3, 'same' if t1 == t3 == 'same' else 'any', 'variant vs variant')
            # value of set_dt
            nd = other_dt(rng, base[-1])
            w = build(base).set_dt(mk_dt(nd), inplace=False)
            add(f'KWithDt {shapelit(build(base))} {dtlit(mk_dt(nd))} {shapelit(w)}', {'k': 'withdt', 'a': base, 'd': nd})
    # cross-kind pairs
    for _ in range(60 if not thorough else 600):
        sa, sb = rng.sample(bases, 2)
        add_pair(sa, sb, 'diff' if sa[0] != sb[0] else 'any', 'unrelated shapes')
    # a box against the polygon with the same corners, a ring against its polygon: other class, never equal
    bx = ['box', [0, 4], [4, 0], [], None]
    add_pair(bx, ['poly', [[0, 4], [0, 0], [4, 0], [4, 4], [0, 4]], [], None], 'any', 'box vs its polygon')
    add_pair(['point', [1, 1], None], ['mpoint', [['point', [1, 1], None]], None], 'any', 'point vs multipoint of it')
    add_pair(['mpoint', [['point', [1, 1], None]], None], ['point', [1, 1], None], 'any', 'multipoint vs its point')

    # constructor normalisation: every rewrite of rings, plus degenerate inputs
    for _ in range(12 if not thorough else 150):
        ring = ring_pts(rng, rng.choice([3, 4, 5, 6]), rng.randint(-20, 20), rng.randint(-20, 20), 8, quarter=True)
        for q in rewrites(rng, ring):
            r = guarded(lambda: [c for c in GeoPolygon([C(p) for p in q]).outline])
            add(f'KMk {listlit([colit(C(p)) for p in q])} {reslit(r, lambda l: listlit([colit(c) for c in l]))}',
                {'k': 'mk', 'outline': q})
    for q in ([], [[0, 0], [1, 1]], [[0, 0], [2, 0], [1, 0]], [[0, 0], [1, 0], [1, 1], [0, 1], [0, 0], [0, 0]]):
        r = guarded(lambda: [c for c in GeoPolygon([C(p) for p in q]).outline])
        add(f'KMk {listlit([colit(C(p)) for p in q])} {reslit(r, lambda l: listlit([colit(c) for c in l]))}', {'k': 'mk', 'outline': q})

    # copy / pickle
    ncopy = 0
    for base in bases:
        props = rng.choice(PROPS)
        sty = rng.randrange(3)
        cs, fails = copy_checks(base, sty, props)
        for c in cs:
            m = {'k': 'copy', 'a': base, 'style': sty, 'props': props}
            if fails:
                m['property_clauses_violated'] = fails
                fails = []
            add(c, m)
        ncopy += 1
        ck.count('copy:' + base[0])

    # ---- strengthened families, judged by the property alone (plus the model where a Gallina case exists)
    pure = []
    # (a) every serialisation route x every place time bounds can sit x every kind
    for kind in KINDS:
        for _ in range(1 if not thorough else 6):
            g = plain_spec(rng, kind)
            for what, sp in time_variants(rng, g):
                sty, props, warm = rng.randrange(3), rng.choice(PROPS), rng.random() < .5
                m = {'k': 'roundtrip', 'a': sp, 'style': sty, 'props': props, 'warm': warm, 'what': what}
                try:
                    cs, fails = round_trip_checks(sp, sty, props, warm)
                except Exception as ex:     # noqa
                    cs, fails = [], [('harness', f'the round-trip family stopped: {type(ex).__name__}: {ex}')]
                for c in cs:
                    add(c, m)
                if fails:
                    pure.append(dict(m, property_clauses_violated=fails[:12]))
                nontrivial.add(json.dumps(['rt', sp]))
                ck.count('roundtrip:' + kind + ':' + what)
    # (b) one-field nudges of every numeric field
    for kind in KINDS:
        for _ in range(1 if not thorough else 5):
            g = plain_spec(rng, kind, holes=(None if kind.startswith('m') else rng.choice([1, 2])))
            g = g[:-1] + [rng.choice(DTS)]
            paths = field_paths(g)
            byclass = {}
            for pth in paths:
                byclass.setdefault(''.join(ch for ch in pth[1] if not ch.isdigit()), []).append(pth)
            chosen = [rng.choice(v) for v in byclass.values()]
            rest = [pth for pth in paths if pth not in chosen]
            if not thorough:
                rest = rng.sample(rest, max(0, min(len(rest), 16 - len(chosen))))
            for path, fname in chosen + rest:
                try:
                    fails, vals, specs, other = nudge_family(rng, g, path, fname)
                except Exception as ex:     # noqa
                    pure.append({'k': 'nudge', 'base': g, 'path': list(path), 'field': fname,
                                 'property_clauses_violated': [('raises', f'{type(ex).__name__}: {ex}')]})
                    continue
                if fails:
                    pure.append({'k': 'nudge', 'base': g, 'path': list(path), 'field': fname, 'vals': vals, 'other': other,
                                 'a': fails[0][2], 'b': fails[0][3], 'failures': len(fails),
                                 'property_clauses_violated': list({f[0]: f[:2] for f in reversed(fails)}.values())[::-1]})   # first of each clause
                # the same pairs through the model (exact dyadic encoding)
                n, ex = len(vals), not in_curved_hole_of_polygon(g, path)
                for i, j in [(0, 1), (0, 2), (0, rng.randrange(3, n)), (0, 6), (6, 7), (rng.randrange(n), rng.randrange(n))]:
                    add_pair(specs[i], specs[j], 'same' if vals[i] == vals[j] else ('diff' if ex else 'any'), f'one-field nudge of {fname}',
                             (rng.randrange(3), rng.randrange(3)))
                    if vals[i] != vals[j]:
                        nontrivial.add(json.dumps([specs[i], specs[j]]))
                ck.count('nudge:' + kind)

    # (c) read-only call histories on one of two twins
    def history(kind, spec, what, segments, every_call):
        sty, props, hf = (rng.randrange(3), rng.randrange(3)), rng.choice(PROPS), rng.random() < .7
        other = plain_spec(rng, {'point': 'point', 'line': 'line'}.get(spec[0], 'box'), holes=0)
        rts = pick_routes(rng) if not thorough else None
        m = {'k': 'history', 'a': spec, 'styles': list(sty), 'props': props, 'hash_first': hf, 'segments': segments, 'other': other, 'what': what,
             'routes': rts, 'every_call': every_call}
        try:
            obs, fails, ok = history_checks(spec, sty, props, hf, segments, other, rts, every_call)
        except Exception as ex:     # noqa
            obs, fails, ok = [], [('harness', f'the history family stopped: {type(ex).__name__}: {ex}')], 0
        for a, b, o in obs:
            add(pair_lit(a, b, o), dict(m, tag='same'))
        if fails:
            pure.append(dict(m, calls_that_answered=ok, failures=len(fails),
                             property_clauses_violated=list({f[0]: f for f in reversed(fails)}.values())[::-1][:12]))
        if ok:
            nontrivial.add(json.dumps(['hist', spec, segments]))
        ck.count(f'history:{kind}:{what}')

    for kind in HKINDS:
        curved = kind in CURVED_HKINDS
        # (i) the whole catalogue x resolutions x places on one object, in random order, judged after every call
        for _ in range((2 if curved else 1) * (1 if not thorough else 4)):
            what, sp = rng.choice(time_variants(rng, history_spec(rng, kind)))
            t = build(sp)
            P = places(t)
            if not thorough and len(P) > 3:
                P = [P[0]] + rng.sample(P[1:], 2)
            P = P + [pth + [x] for pth in P for x in (['copy'], ['polygon'])]
            steps = []
            for path in P:
                for nm, (takes, _f) in OPS.items():
                    for kw in ([{}, {'k': None}, {'k': rng.choice(KS[:4])}, {'k': rng.choice(KS[4:])}] if takes else [{}]):
                        steps.append([path, nm, kw])
            rng.shuffle(steps)
            cut = sorted(rng.sample(range(1, len(steps)), 2))
            history(kind, sp, 'every call', [steps[:cut[0]], steps[cut[0]:cut[1]], steps[cut[1]:]], True)
        # (ii) short random sequences, judged after each of two segments
        for _ in range((12 if curved else 4) * (1 if not thorough else 6)):
            what, sp = rng.choice(time_variants(rng, history_spec(rng, kind)))
            t = build(sp)
            history(kind, sp, 'random calls', [random_history(rng, t, rng.randint(1, 6)), random_history(rng, t, rng.randint(1, 4))], False)

    # (e) identity uses followed by an in-place update of the time bounds: a shape that was hashed / kept in a set / used as a
    # dict key / compared inside a multi-shape, then updated in place (set_dt, strip_dt, buffer_dt), against a twin BUILT with the
    # resulting time bounds - a remembered hash or key that an updater forgets to drop shows here
    for kind in KINDS:
        for rep in range(2 if not thorough else 8):
            g = plain_spec(rng, kind)
            g = g[:-1] + [rng.choice([['inst', 1], ['iv', 0, 2], ['iv', 1, 4]])]
            for use in ('hash', 'set', 'dict', 'multi-eq'):
                for upd in ('set_dt', 'strip_dt', 'buffer_dt'):
                    m = {'k': 'use-then-update', 'a': g, 'use': use, 'update': upd}
                    fails = guarded(lambda: use_then_update(g, use, upd, rng.randrange(3)))
                    fails = fails[1] if fails[0] == 'Ok' else [('harness', f'the family stopped: {fails[1]}')]
                    if fails:
                        pure.append(dict(m, property_clauses_violated=fails[:8]))
                    ck.count('use-then-update:' + upd)
            nontrivial.add(json.dumps(['utu', g]))

    ck.cov['evaluations'] = len(cases)
    ck.cov['distinct_nontrivial'] = len(nontrivial)
    for i in (0, 30, 400, len(cases) - 1):
        ck.sample(cases[min(i, len(cases) - 1)][:600])
    bad, broken = ck.corr('value', 'From GV Require Import Prelude ValueM ValueK.', 'check', cases, chunk=250)
    bad = set(bad)
    for i, m in enumerate(meta):
        if 'property_clauses_violated' in m:
            bad.add(i)
    for m in pure[:5]:
        ck.violation({'kind': 'property-fails-on-implementation', 'case': m, 'gallina_case': None,
                      'theorems': 'C15_* (Props/C15.v)', 'how_to_replay': 'bin/check C15 --replay <this file>'})
    for i in sorted(bad)[:5]:
        m = meta[i]
        ck.violation({'kind': 'property-fails-on-implementation' if 'property_clauses_violated' in m else 'model-vs-implementation',
                      'case': m, 'gallina_case': cases[i][:4000],
                      'theorems': 'C15_* (Props/C15.v): the model value at this input is the one the theorems constrain',
                      'how_to_replay': 'bin/check C15 --replay <this file>'})
    ck.finish(rule='per shape kind, seeded families: a base shape and its variants - every rotation x both windings x closed/open '
                   'input of outlines and hole outlines, every member permutation (<= 4 members), one-field edits of every defining '
                   'field (vertex, corner, centre, radius, axis, angle, z, dt, hole, member) - observed a==b, b==a, hash equality, '
                   'len({a,b}), dict lookup; variant-vs-variant pairs and triples (transitivity); cross-kind pairs; constructor '
                   'outputs for every rewrite; copy()/pickle values, object identities (is) of shape/_properties/nested containers/dt/'
                   'holes/members, isolation under mutation, usability after pickle; regression corpus D9/D16/D23/D24; '
                   'round trips of every kind x time bounds in every position (own instant/interval, a hole, a member, a hole of a member) '
                   'through every pickle protocol 0..HIGHEST (bare and inside a list+dict), copy.copy, copy.deepcopy, copy(), with cold '
                   'and warmed caches, judged by the property (equal both ways, hash, set/dict, independence at every level, usability, '
                   'original undisturbed); one-field nudge families of every numeric field of every kind incl. fields of holes and members '
                   '(1/3 ulp, 1e-12..1e-6 relative, chain v, v(1+6e-10), v(1+1.5e-9)) judged against the exact reference (same number or '
                   'not): ==, symmetry, transitivity, eq=>hash, set/dict class counts, multi-shapes over the members; sampled pairs of each '
                   'family also go through the model on an exact power-of-two grid; '
                   'read-only call histories: of two identically built twins of every kind (plus wedges from 0 degrees / through north / '
                   'to 360, polygons with circle / ellipse / ring / wedge holes, multi-polygons of curved members) one receives public '
                   'read-only calls (to_polygon, to_wkt, to_geojson, bounding_coords, linear_rings, edges, contains / intersects both ways, '
                   'to_shapely, area, bounds, centroid, circumscribing_circle ... with default, None and explicit k) on itself, a hole, a '
                   'member, a copy() or its drawn polygon - the whole catalogue in random order judged after every call, and short random '
                   'sequences judged after each of two segments: equal to the twin both ways, same hash, hash as before the calls (found in '
                   'the set / dict it was put into), copy() and a pickle / copy-module route equal with equal hash, set / dict collapse, '
                   'multi-shapes with reordered members using the twin, the same for every hole / member; the observed pair also goes '
                   'through the model. '
                   'non-trivial = distinct (base, variant) with a re-written-but-equal or one-field-different variant',
              assumptions=['coordinates, radii, axes, angles are multiples of 1/4 (exact doubles), in the one-field-nudge pairs arbitrary doubles written exactly '
                           'on a finer power-of-two grid (the model is homogeneous in the unit); NaN and the antimeridian edge adjustment are outside the model',
                           'fields of a curved (circle/ellipse/ring) hole of a GeoPolygon are compared by the library through bounding_coords() rounded to '
                           '1e-7 degrees: no "differ => unequal" expectation is stated for nudges of those fields (the other laws are still judged)',
                           'dt is represented by (start,end) in UTC microseconds (C06 model)',
                           'bounding coordinates of curved holes are taken from the implementation (Section variable curve)',
                           'outlines have >= 2 stored entries (a one-vertex outline is not a ring: reflexivity fails there, D25, outside the property domain)'])


def replay(path):
    r = json.load(open(path))
    m = r.get('case') or {}
    if m.get('k') == 'pair':
        sty = m.get('styles', [0, 0])
        a, b = build(m['a'], sty[0]), build(m['b'], sty[1])
        o = observe_pair(a, b)
        print('implementation now:', o)
        print('property clauses violated now:', oracle_pair(o, m.get('tag', 'any')))
        print('gallina case:', pair_lit(a, b, o))
    elif m.get('k') == 'roundtrip':
        cs, fails = round_trip_checks(m['a'], m.get('style', 0), m.get('props'), m.get('warm', False))
        print('property clauses violated now:', *fails, sep='\n  ')
    elif m.get('k') == 'history':
        obs, fails, ok = history_checks(m['a'], m.get('styles', [0, 0]), m.get('props'), m.get('hash_first', True), m['segments'], m['other'], m.get('routes'), m.get('every_call', False))
        print(f'{ok} calls of the history answered; observations of (a, twin) after each segment:', *[o for _, _, o in obs], sep='\n  ')
        print(f'property clauses violated now ({len(fails)}):', *fails, sep='\n  ')
    elif m.get('k') == 'nudge':
        import random
        fails = nudge_family(random.Random(0), m['base'], tuple(m['path']), m['field'], m.get('vals'), m.get('other'))[0]
        print(f'property clauses violated now ({len(fails)} failures; the first of each clause):',
              *list({f[0]: f[:2] for f in reversed(fails)}.values())[::-1], sep='\n  ')
    elif m.get('k') == 'copy':
        cs, fails = copy_checks(m['a'], m.get('style', 0), m.get('props'))
        print('property clauses violated now:', fails)
        print('gallina cases:', *cs, sep='\n')
    else:
        print(json.dumps(r, indent=1))


if __name__ == '__main__':
    if '--replay' in sys.argv:
        replay(sys.argv[sys.argv.index('--replay') + 1])
    else:
        main()
