(* Proofs about Track operations (C17, part 2): sublists, slices, filters, speed filter. *)
From Coq Require Import QArith Permutation Sorted.
From GV Require Import Prelude CollM CollP.
From GV Require TimeM TimeP.
Open Scope Z_scope.

Lemma ok_inj {A} (a b : A) : @Ok A a = Ok b -> a = b.
Proof. congruence. Qed.

(* ------------------------------------------------------------------ sublists (in order) *)
Inductive sublist {A : Type} : list A -> list A -> Prop :=
| sl_nil : sublist [] []
| sl_keep x l1 l2 : sublist l1 l2 -> sublist (x :: l1) (x :: l2)
| sl_skip x l1 l2 : sublist l1 l2 -> sublist l1 (x :: l2).

Lemma sublist_refl {A} (l : list A) : sublist l l.
Proof. induction l; constructor; assumption. Qed.

Lemma sublist_nil_l {A} (l : list A) : sublist [] l.
Proof. induction l; constructor; assumption. Qed.

Lemma sublist_In {A} (l1 l2 : list A) : sublist l1 l2 -> forall x, In x l1 -> In x l2.
Proof.
  induction 1; intros y Hy; [destruct Hy| |right; auto].
  destruct Hy as [->|Hy]; [left; reflexivity|right; auto].
Qed.

Lemma sublist_length {A} (l1 l2 : list A) : sublist l1 l2 -> (length l1 <= length l2)%nat.
Proof. induction 1; cbn; lia. Qed.

Lemma sublist_trans {A} (l2 : list A) : forall l1 l3, sublist l1 l2 -> sublist l2 l3 -> sublist l1 l3.
Proof.
  intros l1 l3 H12 H23. revert l1 H12.
  induction H23; intros l0 H12.
  - exact H12.
  - inversion H12; subst; constructor; auto.
  - constructor. auto.
Qed.

Lemma filter_sublist {A} (p : A -> bool) l : sublist (filter p l) l.
Proof. induction l as [|x l IH]; cbn; [constructor|]. destruct (p x); constructor; exact IH. Qed.

Lemma sublist_sorted {A} (key : A -> Z) l1 l2 : sublist l1 l2 -> sorted key l2 -> sorted key l1.
Proof.
  induction 1; intros S.
  - constructor.
  - apply sorted_cons in S. destruct S as [S F]. apply sorted_cons. split; [auto|].
    rewrite Forall_forall in *. intros y Hy. apply F. eapply sublist_In; eauto.
  - apply sorted_cons in S. destruct S as [S _]. auto.
Qed.

Lemma sublist_app {A} (a1 a2 b1 b2 : list A) : sublist a1 a2 -> sublist b1 b2 -> sublist (a1 ++ b1) (a2 ++ b2).
Proof. induction 1; intros Hb; cbn; [exact Hb| |]; constructor; auto. Qed.

(* ------------------------------------------------------------------ first start, max end *)
Lemma chron_first_min x l : chron (x :: l) -> forall y, In y (x :: l) -> st x <= st y.
Proof.
  intros H y Hy. apply sorted_cons in H. destruct H as [_ F]. destruct Hy as [->|Hy]; [lia|].
  rewrite Forall_forall in F. apply F. exact Hy.
Qed.

Lemma max_end_ge x l : forall y, In y (x :: l) -> en y <= max_end x l.
Proof.
  revert x. induction l as [|z l IH]; intros x y Hy; cbn.
  - destruct Hy as [->|[]]. lia.
  - destruct Hy as [->|Hy]; [lia|]. specialize (IH z y Hy). lia.
Qed.

Lemma max_end_in x l : exists y, In y (x :: l) /\ en y = max_end x l.
Proof.
  revert x. induction l as [|z l IH]; intros x; cbn [max_end].
  - exists x. split; [left; reflexivity|reflexivity].
  - destruct (IH z) as (y & Hy & E). destruct (Z.max_spec (en x) (max_end z l)) as [[_ ->]|[_ ->]].
    + exists y. split; [right; exact Hy|exact E].
    + exists x. split; [left; reflexivity|reflexivity].
Qed.

(* ------------------------------------------------------------------ slices *)
Definition lo_ok (a : option Z) (x : item) : bool := match a with Some a' => a' <=? st x | None => true end.
Definition hi_ok (b : option Z) (x : item) : bool := match b with Some b' => en x <? b' | None => true end.
Definition slice_want (a b : option Z) (x : item) : bool := lo_ok a x && hi_ok b x.

Lemma rewrap_filter p t : chron t -> rewrap (filter p t) = filter p t.
Proof. intros H. apply rewrap_id. apply sorted_filter. exact H. Qed.

Lemma slice_spec t a b : chron t ->
  slice t a b = Ok (filter (slice_want a b) t).
Proof.
  intros C. destruct t as [|x l]; [reflexivity|].
  unfold slice. f_equal. rewrite rewrap_filter by exact C.
  apply filter_ext_in. intros y Hy. unfold slice_pred, slice_want, lo_ok, hi_ok.
  f_equal.
  - destruct a as [a'|]; [reflexivity|]. pose proof (chron_first_min x l C y Hy). lia.
  - destruct b as [b'|]; [reflexivity|]. pose proof (max_end_ge x l y Hy). lia.
Qed.

(* membership form: exactly the shapes that start at or after a and end before b *)
Lemma slice_exact t a b out : chron t -> slice t a b = Ok out ->
  (forall x, In x out <->
     In x t /\ match a with Some a' => a' <= st x | None => True end
            /\ match b with Some b' => en x < b' | None => True end)
  /\ sublist out t /\ chron out.
Proof.
  intros C H. rewrite slice_spec in H by exact C.
  assert (E : out = filter (slice_want a b) t) by congruence. clear H. subst out.
  split; [|split; [apply filter_sublist|apply sorted_filter; exact C]].
  intros x. rewrite filter_In. unfold slice_want, lo_ok, hi_ok.
  destruct a, b; split; intros [H1 H2]; (split; [exact H1|]); lia.
Qed.

(* slicing never raises, whatever the track (D30 repaired the empty track) *)
Lemma slice_total t a b : exists out, slice t a b = Ok out.
Proof. destruct t; eexists; reflexivity. Qed.

(* the pre-repair rule (stop = end of the LAST-STARTING shape + 1 s) is not exact: D18 *)
Definition slice_hi_old (t : track) (b : option Z) : res Z :=
  match b with
  | Some b' => Ok b'
  | None => match rev t with x :: _ => Ok (en x + 1000000) | [] => Err IndexError end
  end.
Lemma slice_open_old_refuted : exists t x hi, chron t /\ In x t /\
  slice_hi_old t None = Ok hi /\ slice_pred (st x) hi x = false.
Proof.
  exists [mkitem 0 0 360000000000 0 0 0; mkitem 1 3600000000 3600000000 0 0 0],
         (mkitem 0 0 360000000000 0 0 0), 3601000000.
  split; [|split; [left; reflexivity|split; reflexivity]].
  repeat constructor; unfold le_key; cbn; lia.
Qed.

(* ------------------------------------------------------------------ time filters *)
Lemma filter_by_dt_spec t d : chron t ->
  filter_by_dt t d = filter (fun x => (st x =? d) && (en x =? d)) t.
Proof. intros C. unfold filter_by_dt. apply rewrap_filter. exact C. Qed.

Lemma filter_by_iv_spec t a b : chron t -> filter_by_iv t a b = filter (iv_pred a b) t.
Proof. intros C. unfold filter_by_iv. apply rewrap_filter. exact C. Qed.

(* the per-shape predicate of filter_by_dt(TimeInterval): the two time sets share an instant
   (set semantics of C06: [start,end) or the instant {start}) *)
Lemma iv_pred_spec a b x : a <= b -> st x <= en x ->
  (iv_pred a b x = true <->
   exists t : Q, TimeP.mem t (TimeM.mkiv a b) /\ TimeP.mem t (TimeM.mkiv (st x) (en x))).
Proof. intros H1 H2. unfold iv_pred. apply TimeP.intersects_spec; exact H1 || exact H2. Qed.

Lemma filter_by_time_spec t s e : chron t ->
  filter_by_time t s e = filter (tod_pred s e) t.
Proof. intros C. unfold filter_by_time. apply rewrap_filter. exact C. Qed.

(* for a window s <= e and a shape whose time of day does not wrap (start tod <= end tod):
   kept iff the closed daily window meets the shape's closed time-of-day range *)
Lemma tod_pred_spec s e x : s <= e -> tod (st x) (ost x) <= tod (en x) (oen x) ->
  (tod_pred s e x = true <->
   exists u, s <= u <= e /\ tod (st x) (ost x) <= u <= tod (en x) (oen x)).
Proof.
  intros H1 H2. unfold tod_pred.
  set (a := tod (st x) (ost x)) in *. set (b := tod (en x) (oen x)) in *.
  split.
  - intros H.
    destruct ((s <=? b) && (b <=? e)) eqn:E1; [exists b; lia|].
    destruct ((s <=? a) && (a <=? e)) eqn:E2; [exists a; lia|].
    exists s. lia.
  - intros (u & Hu1 & Hu2). lia.
Qed.

Lemma tod_range t off : 0 <= tod t off < DAY.
Proof. unfold tod, DAY. apply Z.mod_pos_bound. lia. Qed.

(* ------------------------------------------------------------------ speed filter *)
Section Fij.
  Variable dist : Z -> Z -> Q.
  Variable merge : list Z -> Z.

  Lemma secs_pos d : 0 < d -> (0 < secs d)%Q.
  Proof.
    intros H. unfold secs. apply Qlt_shift_div_l; [reflexivity|].
    rewrite Qmult_0_l. change (inject_Z 0 < inject_Z d)%Q. rewrite <- Zlt_Qlt. exact H.
  Qed.

  (* x can be reached from p within the speed limit v *)
  Definition reach (v : Q) (p x : item) : Prop :=
    st p < st x /\ (dist (pl p) (pl x) <= v * secs (st x - st p))%Q.

  Lemma div_le_iff (a s v : Q) : (0 < s)%Q -> ((a / s <= v)%Q <-> (a <= v * s)%Q).
  Proof.
    intros Hs. split; intros H.
    - assert (E : (a == (a / s) * s)%Q) by (field; intros E0; rewrite E0 in Hs; discriminate).
      rewrite E. apply Qmult_le_compat_r; [exact H|apply Qlt_le_weak; exact Hs].
    - apply Qle_shift_div_r; assumption.
  Qed.

  Lemma speed_ok_iff v p x : st p < st x ->
    (Qle_bool (speed dist p x) v = true <-> reach v p x).
  Proof.
    intros Hlt. unfold reach, speed. rewrite Qle_bool_iff.
    pose proof (secs_pos (st x - st p) ltac:(lia)) as Hs.
    set (dx := dist (pl p) (pl x)) in *. set (s := secs (st x - st p)) in *.
    destruct (Qeq_bool dx 0) eqn:E.
    - apply Qeq_bool_eq in E. split.
      + intros H. split; [exact Hlt|]. rewrite E.
        apply Qmult_le_0_compat; [exact H|apply Qlt_le_weak; exact Hs].
      + intros [_ H]. rewrite E in H.
        apply (div_le_iff 0 s v Hs) in H. unfold Qdiv in H. rewrite Qmult_0_l in H. exact H.
    - rewrite (div_le_iff dx s v Hs). tauto.
  Qed.

  (* the greedy rule of the property: [greedy v p l k] = "from the previously kept shape p, the
     remaining shapes l yield exactly the kept shapes k" *)
  Inductive greedy (v : Q) : item -> list item -> list item -> Prop :=
  | g_nil p : greedy v p [] []
  | g_keep p x l k : reach v p x -> greedy v x l k -> greedy v p (x :: l) (x :: k)
  | g_skip p x l k : ~ reach v p x -> greedy v p l k -> greedy v p (x :: l) k.

  Lemma greedy_unique v p l k : greedy v p l k -> forall k', greedy v p l k' -> k = k'.
  Proof.
    induction 1; intros k' H'; inversion H'; subst; try reflexivity; try contradiction.
    - f_equal. auto.
    - auto.
  Qed.

  Lemma greedy_inversion v p x l k :
    greedy v p (x :: l) k <->
    (reach v p x /\ exists k', k = x :: k' /\ greedy v x l k') \/
    (~ reach v p x /\ greedy v p l k).
  Proof.
    split.
    - intros H. inversion H; subst; [left|right]; eauto.
    - intros [(R & k' & -> & G)|(R & G)]; [apply g_keep|apply g_skip]; assumption.
  Qed.

  Lemma fij_loop_greedy v : forall l p, Forall (fun x => st p <= st x) l -> chron l ->
    greedy v p l (fij_loop dist v p l).
  Proof.
    induction l as [|x l IH]; intros p F C; cbn [fij_loop]; [constructor|].
    inversion F as [|? ? Hpx F']; subst. apply sorted_cons in C. destruct C as [C Fx].
    destruct (st x - st p =? 0) eqn:E0.
    - apply g_skip; [unfold reach; lia|]. apply IH; assumption.
    - assert (Hlt : st p < st x) by lia.
      destruct (Qle_bool (speed dist p x) v) eqn:E1.
      + apply g_keep; [apply speed_ok_iff; assumption|]. apply IH; [|exact C].
        eapply Forall_impl; [|exact Fx]. unfold le_key. intros; lia.
      + apply g_skip; [|apply IH; assumption].
        intros R. apply (speed_ok_iff v p x Hlt) in R. congruence.
  Qed.

  Lemma fij_loop_sublist v : forall l p, sublist (fij_loop dist v p l) l.
  Proof.
    induction l as [|x l IH]; intros p; cbn [fij_loop]; [constructor|].
    destruct (st x - st p =? 0); [constructor; apply IH|].
    destruct (Qle_bool (speed dist p x) v); constructor; apply IH.
  Qed.

  (* consecutive kept shapes are reachable from one another *)
  Fixpoint chain_ok (v : Q) (p : item) (k : list item) : Prop :=
    match k with
    | [] => True
    | x :: k' => reach v p x /\ chain_ok v x k'
    end.
  Lemma greedy_chain v p l k : greedy v p l k -> chain_ok v p k.
  Proof. induction 1; cbn; auto. Qed.

  Lemma fij_spec v x l : chron (x :: l) ->
    exists k, fij dist (x :: l) v = Ok (x :: k) /\ greedy v x l k /\
              (forall k', greedy v x l k' -> k' = k) /\ sublist (x :: k) (x :: l).
  Proof.
    intros C. exists (fij_loop dist v x l).
    assert (S : sublist (x :: fij_loop dist v x l) (x :: l)) by (constructor; apply fij_loop_sublist).
    assert (G : greedy v x l (fij_loop dist v x l)).
    { apply sorted_cons in C. destruct C as [C F]. apply fij_loop_greedy; [|exact C].
      eapply Forall_impl; [|exact F]. unfold le_key. intros; lia. }
    split; [|split; [exact G|split; [|exact S]]].
    - unfold fij. f_equal. apply rewrap_id. eapply sublist_sorted; eauto.
    - intros k' G'. symmetry. eapply greedy_unique; eauto.
  Qed.

  Lemma fij_empty v : fij dist [] v = Err IndexError.
  Proof. reflexivity. Qed.

  (* ---------------------------------------------------------------- every operation *)
  Lemma apply_op_chron t o t' : apply_op dist merge t o = Ok t' -> chron t'.
  Proof.
    destruct o; cbn [apply_op]; intros H; try discriminate;
      try (apply ok_inj in H; subst t';
           unfold add, filter_by_dt, filter_by_iv, filter_by_time; apply rewrap_chron).
    - unfold slice in H. destruct t; apply ok_inj in H; subst t'; apply rewrap_chron.
    - apply ok_inj in H. subst t'. unfold convolve. destruct (has_dup t); apply rewrap_chron.
    - unfold fij in H. destruct t; [discriminate|]. apply ok_inj in H. subst t'. apply rewrap_chron.
  Qed.

  Lemma run_chron : forall ops t t', chron t -> run dist merge t ops = Ok t' -> chron t'.
  Proof.
    induction ops as [|o ops IH]; cbn; intros t t' C H.
    - injection H as <-. exact C.
    - destruct (apply_op dist merge t o) as [t1|] eqn:E; [|discriminate].
      eapply IH; [|exact H]. eapply apply_op_chron; eauto.
  Qed.

  Lemma ops_sorted raws ops t0 t :
    mk_track raws = Ok t0 -> run dist merge t0 ops = Ok t -> chron t.
  Proof. intros H1 H2. eapply run_chron; [|exact H2]. eapply mk_sorted; eauto. Qed.

  (* slices, filters and the speed filter never reorder: the result is a sublist of the source *)
  Definition selecting (o : op) : bool :=
    match o with OAdd _ | OAddOther | OConvolve => false | _ => true end.
  Lemma selecting_sublist t o t' : chron t -> selecting o = true ->
    apply_op dist merge t o = Ok t' -> sublist t' t.
  Proof.
    intros C S H. destruct o; try discriminate; cbn in H.
    - destruct (slice_exact t a b t' C H) as (_ & S' & _). exact S'.
    - injection H as <-. rewrite filter_by_dt_spec by exact C. apply filter_sublist.
    - injection H as <-. rewrite filter_by_iv_spec by exact C. apply filter_sublist.
    - injection H as <-. rewrite filter_by_time_spec by exact C. apply filter_sublist.
    - destruct t as [|x l]; [discriminate|].
      destruct (fij_spec v x l C) as (k & E & _ & _ & S'). rewrite E in H. injection H as <-. exact S'.
  Qed.

  (* concatenation: chronological, a permutation of both operands, earlier operand first among
     equal starts *)
  Lemma add_spec t u : chron (add t u) /\ Permutation (add t u) (t ++ u) /\
    forall k, filter (keyis st k) (add t u) = filter (keyis st k) t ++ filter (keyis st k) u.
  Proof.
    unfold add, rewrap. split; [apply isort_sorted|split; [apply isort_perm|]].
    intros k. rewrite isort_stable. apply filter_app.
  Qed.
End Fij.
