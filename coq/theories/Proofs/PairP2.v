(* C02 -- full planar truth for the axis-aligned family, over all integers.
   A shape is "rectangle-like" on [x0, x1] x [y0, y1] when its undirected edge set is the four
   sides of that rectangle, the vertex the first-vertex fallback looks at is one of the four
   corners, and its membership test lies between the open and the closed rectangle.  GeoBox
   (closed membership) and every GeoPolygon built from the rectangle outline (any start vertex,
   either winding, after the constructor; open membership, C01b) are rectangle-like.
   For two rectangle-like shapes:
     intersects_shape = "the closed rectangles share a point"     (max lo <= min hi on both axes)
     contains_shape   = "B lies strictly inside A"                (four strict inequalities)
   DERIVED, not guessed (and checked by vm_compute on all 10 000 pairs of boxes with corners in
   0..4 before proving): the documented exception "boundaries that only overlap collinearly do not
   count" never changes the answer for rectangles, because the perpendicular sides meet at the
   end points of a collinear overlap: identical boxes, boxes sharing a side, boxes touching along
   a side or at a single corner all intersect.  Stdlib only; no axioms. *)
From GV Require Import Prelude TimeM GeomM GeomP GeomP2 GeomP3 GeomP4 GeomP6 SweepM SweepP PairM PairP.
Open Scope Z_scope.

(* ------------------------------------------------------------------ hits of axis-aligned segments *)
(* a horizontal and a vertical segment (both of positive length, increasing direction): closed
   interval conditions *)
Lemma hit_hv l r h v b t : l < r -> b < t ->
  hit ((l, h), (r, h)) ((v, b), (v, t)) = (l <=? v) && (v <=? r) && (b <=? h) && (h <=? t).
Proof.
  intros Hlr Hbt. apply eq_true_iff_eq. rewrite hit_spec.
  unfold nonparallel, on_seg_q, on_line, in_box, px, py. cbn [fst snd].
  rewrite !Z.min_l, !Z.max_r by lia. rewrite !Z.sub_diag, !Z.mul_0_l, !Z.mul_0_r, !Z.sub_0_r.
  split.
  - intros (_ & xn & yn & dv & Hd & (L1 & (B1 & B2)) & (L2 & (B3 & B4))).
    rewrite Z.sub_0_l in L2.
    assert (Y : yn - h * dv = 0) by (apply Z.mul_eq_0 in L1; lia).
    assert (X : xn - v * dv = 0).
    { apply Z.opp_inj_wd in L2. rewrite Z.opp_involutive, Z.opp_0 in L2. apply Z.mul_eq_0 in L2. lia. }
    assert (xn = v * dv) by lia. assert (yn = h * dv) by lia. subst xn yn.
    assert (l <= v) by (apply (mul_le_cancel_pos l v dv); lia).
    assert (v <= r) by (apply (mul_le_cancel_pos v r dv); lia).
    assert (b <= h) by (apply (mul_le_cancel_pos b h dv); lia).
    assert (h <= t) by (apply (mul_le_cancel_pos h t dv); lia).
    lia.
  - intro H. split.
    + intro E. apply Z.mul_eq_0 in E. lia.
    + exists v, h, 1. rewrite !Z.mul_1_r, !Z.sub_diag, !Z.mul_0_r. lia.
Qed.

Lemma hit_vh l r h v b t : l < r -> b < t ->
  hit ((v, b), (v, t)) ((l, h), (r, h)) = (l <=? v) && (v <=? r) && (b <=? h) && (h <=? t).
Proof. intros. rewrite hit_sym. now apply hit_hv. Qed.

(* parallel segments never "hit" (find_line_intersection returns None): the documented exception *)
Lemma hit_hh l r h l' r' h' : hit ((l, h), (r, h)) ((l', h'), (r', h')) = false.
Proof.
  destruct (hit _ _) eqn:E; [|reflexivity]. apply hit_spec in E. destruct E as [N _].
  exfalso. apply N. unfold px, py. cbn [fst snd]. ring.
Qed.

Lemma hit_vv v b t v' b' t' : hit ((v, b), (v, t)) ((v', b'), (v', t')) = false.
Proof.
  destruct (hit _ _) eqn:E; [|reflexivity]. apply hit_spec in E. destruct E as [N _].
  exfalso. apply N. unfold px, py. cbn [fst snd]. ring.
Qed.

(* ------------------------------------------------------------------ the four sides *)
(* west, south, east, north; each in increasing direction *)
Definition sides (x0 y0 x1 y1 : Z) : list seg :=
  [((x0, y0), (x0, y1)); ((x0, y0), (x1, y0)); ((x1, y0), (x1, y1)); ((x0, y1), (x1, y1))].

Definition hv (l r h v b t : Z) : bool := (l <=? v) && (v <=? r) && (b <=? h) && (h <=? t).

(* some side of A meets some side of B: a horizontal side of one and a vertical side of the other *)
Definition sides_meet (xa0 ya0 xa1 ya1 xb0 yb0 xb1 yb1 : Z) : bool :=
  hv xa0 xa1 ya0 xb0 yb0 yb1 || hv xa0 xa1 ya0 xb1 yb0 yb1 ||
  hv xa0 xa1 ya1 xb0 yb0 yb1 || hv xa0 xa1 ya1 xb1 yb0 yb1 ||
  hv xb0 xb1 yb0 xa0 ya0 ya1 || hv xb0 xb1 yb0 xa1 ya0 ya1 ||
  hv xb0 xb1 yb1 xa0 ya0 ya1 || hv xb0 xb1 yb1 xa1 ya0 ya1.

Lemma brute_sides xa0 ya0 xa1 ya1 xb0 yb0 xb1 yb1 :
  xa0 < xa1 -> ya0 < ya1 -> xb0 < xb1 -> yb0 < yb1 ->
  brute hit (sides xa0 ya0 xa1 ya1) (sides xb0 yb0 xb1 yb1) =
  sides_meet xa0 ya0 xa1 ya1 xb0 yb0 xb1 yb1.
Proof.
  intros. unfold brute, sides. cbn [existsb].
  rewrite !hit_vv, !hit_hh, !hit_hv, !hit_vh by assumption.
  unfold sides_meet, hv. lia.
Qed.

(* the answers, as formulas in the eight coordinates *)
Definition rects_meet (xa0 ya0 xa1 ya1 xb0 yb0 xb1 yb1 : Z) : bool :=
  (Z.max xa0 xb0 <=? Z.min xa1 xb1) && (Z.max ya0 yb0 <=? Z.min ya1 yb1).
Definition rect_inside (xa0 ya0 xa1 ya1 xb0 yb0 xb1 yb1 : Z) : bool :=
  (xa0 <? xb0) && (xb1 <? xa1) && (ya0 <? yb0) && (yb1 <? ya1).

(* what they mean *)
Lemma rects_meet_spec xa0 ya0 xa1 ya1 xb0 yb0 xb1 yb1 :
  rects_meet xa0 ya0 xa1 ya1 xb0 yb0 xb1 yb1 = true <->
  exists x y, (xa0 <= x <= xa1 /\ ya0 <= y <= ya1) /\ (xb0 <= x <= xb1 /\ yb0 <= y <= yb1).
Proof.
  unfold rects_meet. split.
  - intro H. exists (Z.max xa0 xb0), (Z.max ya0 yb0). lia.
  - intros (x & y & H). lia.
Qed.

(* the same with rational points (xn/dv, yn/dv): nothing is gained by leaving the integer grid *)
Lemma rects_meet_spec_q xa0 ya0 xa1 ya1 xb0 yb0 xb1 yb1 :
  rects_meet xa0 ya0 xa1 ya1 xb0 yb0 xb1 yb1 = true <->
  exists xn yn dv, 0 < dv /\
    (xa0 * dv <= xn <= xa1 * dv /\ ya0 * dv <= yn <= ya1 * dv) /\
    (xb0 * dv <= xn <= xb1 * dv /\ yb0 * dv <= yn <= yb1 * dv).
Proof.
  split.
  - intro H. apply rects_meet_spec in H. destruct H as (x & y & H). exists x, y, 1. lia.
  - intros (xn & yn & dv & Hd & (A1 & A2) & (B1 & B2)). unfold rects_meet.
    assert (xa0 <= xb1) by (apply (mul_le_cancel_pos _ _ dv); lia).
    assert (xb0 <= xa1) by (apply (mul_le_cancel_pos _ _ dv); lia).
    assert (ya0 <= yb1) by (apply (mul_le_cancel_pos _ _ dv); lia).
    assert (yb0 <= ya1) by (apply (mul_le_cancel_pos _ _ dv); lia).
    assert (xa0 <= xa1) by (apply (mul_le_cancel_pos _ _ dv); lia).
    assert (xb0 <= xb1) by (apply (mul_le_cancel_pos _ _ dv); lia).
    assert (ya0 <= ya1) by (apply (mul_le_cancel_pos _ _ dv); lia).
    assert (yb0 <= yb1) by (apply (mul_le_cancel_pos _ _ dv); lia).
    lia.
Qed.

Lemma rect_inside_spec xa0 ya0 xa1 ya1 xb0 yb0 xb1 yb1 : xb0 <= xb1 -> yb0 <= yb1 ->
  (rect_inside xa0 ya0 xa1 ya1 xb0 yb0 xb1 yb1 = true <->
   forall x y, xb0 <= x <= xb1 /\ yb0 <= y <= yb1 -> xa0 < x < xa1 /\ ya0 < y < ya1).
Proof.
  intros Hx Hy. unfold rect_inside. split.
  - intros H x y Hb. lia.
  - intro H. pose proof (H xb0 yb0 ltac:(lia)). pose proof (H xb1 yb1 ltac:(lia)). lia.
Qed.

(* ------------------------------------------------------------------ rectangle-like shapes *)
Record rectlike (w : Z) (s : shape) (x0 y0 x1 y1 : Z) : Prop := {
  rl_valid : valid s;
  rl_area : is_area s = true;
  rl_edges : edge_equiv (all_edges s) (sides x0 y0 x1 y1);
  rl_first : In (first_pt s) (rect x0 y0 x1 y1);
  rl_open : forall p, w <= px p -> open_box x0 y0 x1 y1 p -> contains_coordinate w s p = true;
  rl_closed : forall p, contains_coordinate w s p = true -> x0 <= px p <= x1 /\ y0 <= py p <= y1
}.

Lemma is_area_not_pt s : is_area s = true -> is_pt s = false.
Proof. destruct s; cbn; congruence. Qed.

Section Two.
  Variable w : Z.
  Variables (a b : shape) (xa0 ya0 xa1 ya1 xb0 yb0 xb1 yb1 : Z).
  Hypothesis Ra : rectlike w a xa0 ya0 xa1 ya1.
  Hypothesis Rb : rectlike w b xb0 yb0 xb1 yb1.
  Hypothesis Hxa : xa0 < xa1. Hypothesis Hya : ya0 < ya1.
  Hypothesis Hxb : xb0 < xb1. Hypothesis Hyb : yb0 < yb1.
  Hypothesis Hwa : w <= xa0. Hypothesis Hwb : w <= xb0.

  Lemma edge_part_rect : edge_part a b = sides_meet xa0 ya0 xa1 ya1 xb0 yb0 xb1 yb1.
  Proof.
    unfold edge_part. rewrite (brute_equiv _ _ _ _ (rl_edges _ _ _ _ _ _ Ra) (rl_edges _ _ _ _ _ _ Rb)).
    now apply brute_sides.
  Qed.

  Theorem rect_intersects :
    intersects_shape w a b = Ok (rects_meet xa0 ya0 xa1 ya1 xb0 yb0 xb1 yb1).
  Proof.
    destruct Ra as [Va Aa _ Fa Oa Ca], Rb as [Vb Ab _ Fb Ob Cb].
    rewrite (intersects_edge_truth w a b Va Vb (is_area_not_pt a Aa) (is_area_not_pt b Ab)).
    rewrite edge_part_rect. f_equal.
    destruct (first_pt a) as [fax fay] eqn:EA. destruct (first_pt b) as [fbx fby] eqn:EB.
    cbn [rect In] in Fa, Fb.
    apply eq_true_iff_eq. rewrite !orb_true_iff. split.
    - intros [[H|H]|H].
      + unfold sides_meet, hv in H. unfold rects_meet. lia.
      + apply Ca in H. unfold px, py in H. cbn [fst snd] in H. unfold rects_meet.
        destruct Fb as [E|[E|[E|[E|[]]]]]; injection E as <- <-; lia.
      + apply Cb in H. unfold px, py in H. cbn [fst snd] in H. unfold rects_meet.
        destruct Fa as [E|[E|[E|[E|[]]]]]; injection E as <- <-; lia.
    - intro H. unfold rects_meet in H.
      destruct (sides_meet xa0 ya0 xa1 ya1 xb0 yb0 xb1 yb1) eqn:S; [now left; left|].
      unfold sides_meet, hv in S.
      assert (N : (xa0 < xb0 /\ xb1 < xa1 /\ ya0 < yb0 /\ yb1 < ya1) \/
                  (xb0 < xa0 /\ xa1 < xb1 /\ yb0 < ya0 /\ ya1 < yb1)) by lia.
      destruct N as [N|N].
      + left. right. apply Oa; unfold open_box, px, py; cbn [fst snd];
          destruct Fb as [E|[E|[E|[E|[]]]]]; injection E as <- <-; lia.
      + right. apply Ob; unfold open_box, px, py; cbn [fst snd];
          destruct Fa as [E|[E|[E|[E|[]]]]]; injection E as <- <-; lia.
  Qed.

  Theorem rect_contains :
    contains_shape w a b = Ok (rect_inside xa0 ya0 xa1 ya1 xb0 yb0 xb1 yb1).
  Proof.
    destruct Ra as [Va Aa _ Fa Oa Ca], Rb as [Vb Ab _ Fb Ob Cb].
    rewrite (contains_edge_truth w a b Vb Aa (is_area_not_pt b Ab)).
    rewrite edge_part_rect. f_equal.
    destruct (first_pt b) as [fbx fby] eqn:EB. cbn [rect In] in Fb.
    apply eq_true_iff_eq. rewrite andb_true_iff, negb_true_iff. split.
    - intros [S H]. apply Ca in H. unfold px, py in H. cbn [fst snd] in H.
      unfold sides_meet, hv in S. unfold rect_inside.
      destruct Fb as [E|[E|[E|[E|[]]]]]; injection E as <- <-; lia.
    - intro H. unfold rect_inside in H. split.
      + unfold sides_meet, hv. lia.
      + apply Oa; unfold open_box, px, py; cbn [fst snd];
          destruct Fb as [E|[E|[E|[E|[]]]]]; injection E as <- <-; lia.
  Qed.
End Two.
