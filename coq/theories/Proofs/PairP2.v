(* C02 -- full planar truth for the axis-aligned family, over all integers.
   A shape is "rectangle-like" on [x0, x1] x [y0, y1] when its undirected edge set is the four
   sides of that rectangle, the vertex the first-vertex fallback looks at is one of the four
   corners, and its membership test lies between the open and the closed rectangle.  GeoBox
   (closed membership) and every GeoPolygon built from the rectangle outline (any start vertex,
   either winding, after the constructor; open membership, C01b) are rectangle-like.
   For two rectangle-like shapes:
     intersects_shape = "the closed rectangles share a point"     (max lo <= min hi on both axes)
     contains_shape   = "B lies strictly inside A"                (four strict inequalities)
   DERIVED, not guessed (and checked by vm_compute on all 10 000 pairs of boxes with corners in
   0..4 before proving): the documented exception "boundaries that only overlap collinearly do not
   count" never changes the answer for rectangles, because the perpendicular sides meet at the
   end points of a collinear overlap: identical boxes, boxes sharing a side, boxes touching along
   a side or at a single corner all intersect.  Stdlib only; no axioms. *)
From GV Require Import Prelude TimeM GeomM GeomP GeomP2 GeomP3 GeomP4 GeomP6 SweepM SweepP PairM PairP.
Open Scope Z_scope.

(* ------------------------------------------------------------------ hits of axis-aligned segments *)
Definition inr (a lo hi : Z) : bool := (lo <=? a) && (a <=? hi).

(* a horizontal and a vertical segment (both of positive length, increasing direction): closed
   interval conditions *)
Lemma hit_hv l r h v b t : l < r -> b < t ->
  hit ((l, h), (r, h)) ((v, b), (v, t)) = inr v l r && inr h b t.
Proof.
  intros Hlr Hbt. unfold inr. apply eq_true_iff_eq. rewrite hit_spec.
  unfold nonparallel, on_seg_q, on_line, in_box, px, py. cbn [fst snd].
  rewrite !Z.min_l, !Z.max_r by lia.
  split.
  - intros (_ & xn & yn & dv & Hd & (_ & (B1 & B2)) & (_ & (B3 & B4))).
    assert (xn = v * dv) by lia. assert (yn = h * dv) by lia. subst xn yn.
    assert (l <= v) by (apply (mul_le_cancel_pos l v dv); lia).
    assert (v <= r) by (apply (mul_le_cancel_pos v r dv); lia).
    assert (b <= h) by (apply (mul_le_cancel_pos b h dv); lia).
    assert (h <= t) by (apply (mul_le_cancel_pos h t dv); lia).
    lia.
  - intro H. split.
    + intro E. assert (E' : (l - r) * (b - t) = 0) by lia. apply Z.mul_eq_0 in E'. lia.
    + exists v, h, 1. lia.
Qed.

Lemma hit_vh l r h v b t : l < r -> b < t ->
  hit ((v, b), (v, t)) ((l, h), (r, h)) = inr v l r && inr h b t.
Proof. intros. rewrite hit_sym. now apply hit_hv. Qed.

(* parallel segments never "hit" (find_line_intersection returns None): the documented exception *)
Lemma hit_hh l r h l' r' h' : hit ((l, h), (r, h)) ((l', h'), (r', h')) = false.
Proof.
  destruct (hit _ _) eqn:E; [|reflexivity]. apply hit_spec in E. destruct E as [N _].
  exfalso. apply N. unfold px, py. cbn [fst snd]. ring.
Qed.

Lemma hit_vv v b t v' b' t' : hit ((v, b), (v, t)) ((v', b'), (v', t')) = false.
Proof.
  destruct (hit _ _) eqn:E; [|reflexivity]. apply hit_spec in E. destruct E as [N _].
  exfalso. apply N. unfold px, py. cbn [fst snd]. ring.
Qed.

(* ------------------------------------------------------------------ the four sides *)
(* west, south, east, north; each in increasing direction *)
Definition sides (x0 y0 x1 y1 : Z) : list seg :=
  [((x0, y0), (x0, y1)); ((x0, y0), (x1, y0)); ((x1, y0), (x1, y1)); ((x0, y1), (x1, y1))].

(* some side of A meets some side of B (a horizontal side of one and a vertical side of the
   other): an end of B's x-range lies in A's x-range and an end of A's y-range in B's y-range, or
   the same with A and B exchanged *)
Definition sides_meet (xa0 ya0 xa1 ya1 xb0 yb0 xb1 yb1 : Z) : bool :=
  (inr xb0 xa0 xa1 || inr xb1 xa0 xa1) && (inr ya0 yb0 yb1 || inr ya1 yb0 yb1) ||
  (inr xa0 xb0 xb1 || inr xa1 xb0 xb1) && (inr yb0 ya0 ya1 || inr yb1 ya0 ya1).

Lemma brute_sides xa0 ya0 xa1 ya1 xb0 yb0 xb1 yb1 :
  xa0 < xa1 -> ya0 < ya1 -> xb0 < xb1 -> yb0 < yb1 ->
  brute hit (sides xa0 ya0 xa1 ya1) (sides xb0 yb0 xb1 yb1) =
  sides_meet xa0 ya0 xa1 ya1 xb0 yb0 xb1 yb1.
Proof.
  intros. unfold brute, sides. cbn [existsb].
  rewrite !hit_vv, !hit_hh, !hit_hv, !hit_vh by assumption.
  unfold sides_meet.
  generalize (inr xb0 xa0 xa1) (inr xb1 xa0 xa1) (inr ya0 yb0 yb1) (inr ya1 yb0 yb1)
             (inr xa0 xb0 xb1) (inr xa1 xb0 xb1) (inr yb0 ya0 ya1) (inr yb1 ya0 ya1).
  intros [] [] [] [] [] [] [] []; reflexivity.
Qed.

(* one axis: no end of [lo', hi'] lies in [lo, hi] *)
Lemma no_end_in lo hi lo' hi' : lo < hi -> lo' < hi' ->
  (inr lo' lo hi || inr hi' lo hi = false <-> hi' < lo \/ hi < lo' \/ (lo' < lo /\ hi < hi')).
Proof. unfold inr. lia. Qed.

Lemma sides_meet_false xa0 ya0 xa1 ya1 xb0 yb0 xb1 yb1 :
  xa0 < xa1 -> ya0 < ya1 -> xb0 < xb1 -> yb0 < yb1 ->
  (sides_meet xa0 ya0 xa1 ya1 xb0 yb0 xb1 yb1 = false <->
   ((xb1 < xa0 \/ xa1 < xb0 \/ (xb0 < xa0 /\ xa1 < xb1)) \/
    (ya1 < yb0 \/ yb1 < ya0 \/ (ya0 < yb0 /\ yb1 < ya1))) /\
   ((xa1 < xb0 \/ xb1 < xa0 \/ (xa0 < xb0 /\ xb1 < xa1)) \/
    (yb1 < ya0 \/ ya1 < yb0 \/ (yb0 < ya0 /\ ya1 < yb1)))).
Proof.
  intros. unfold sides_meet. rewrite orb_false_iff, !andb_false_iff, !no_end_in by assumption.
  reflexivity.
Qed.

(* the answers, as formulas in the eight coordinates *)
Definition rects_meet (xa0 ya0 xa1 ya1 xb0 yb0 xb1 yb1 : Z) : bool :=
  (Z.max xa0 xb0 <=? Z.min xa1 xb1) && (Z.max ya0 yb0 <=? Z.min ya1 yb1).
Definition rect_inside (xa0 ya0 xa1 ya1 xb0 yb0 xb1 yb1 : Z) : bool :=
  (xa0 <? xb0) && (xb1 <? xa1) && (ya0 <? yb0) && (yb1 <? ya1).

(* what they mean *)
Lemma rects_meet_spec xa0 ya0 xa1 ya1 xb0 yb0 xb1 yb1 :
  rects_meet xa0 ya0 xa1 ya1 xb0 yb0 xb1 yb1 = true <->
  exists x y, (xa0 <= x <= xa1 /\ ya0 <= y <= ya1) /\ (xb0 <= x <= xb1 /\ yb0 <= y <= yb1).
Proof.
  unfold rects_meet. split.
  - intro H. exists (Z.max xa0 xb0), (Z.max ya0 yb0). lia.
  - intros (x & y & H). lia.
Qed.

(* the same with rational points (xn/dv, yn/dv): nothing is gained by leaving the integer grid *)
Lemma rects_meet_spec_q xa0 ya0 xa1 ya1 xb0 yb0 xb1 yb1 :
  rects_meet xa0 ya0 xa1 ya1 xb0 yb0 xb1 yb1 = true <->
  exists xn yn dv, 0 < dv /\
    (xa0 * dv <= xn <= xa1 * dv /\ ya0 * dv <= yn <= ya1 * dv) /\
    (xb0 * dv <= xn <= xb1 * dv /\ yb0 * dv <= yn <= yb1 * dv).
Proof.
  split.
  - intro H. apply rects_meet_spec in H. destruct H as (x & y & H). exists x, y, 1. lia.
  - intros (xn & yn & dv & Hd & (A1 & A2) & (B1 & B2)). unfold rects_meet.
    assert (xa0 <= xb1) by (apply (mul_le_cancel_pos _ _ dv); lia).
    assert (xb0 <= xa1) by (apply (mul_le_cancel_pos _ _ dv); lia).
    assert (ya0 <= yb1) by (apply (mul_le_cancel_pos _ _ dv); lia).
    assert (yb0 <= ya1) by (apply (mul_le_cancel_pos _ _ dv); lia).
    assert (xa0 <= xa1) by (apply (mul_le_cancel_pos _ _ dv); lia).
    assert (xb0 <= xb1) by (apply (mul_le_cancel_pos _ _ dv); lia).
    assert (ya0 <= ya1) by (apply (mul_le_cancel_pos _ _ dv); lia).
    assert (yb0 <= yb1) by (apply (mul_le_cancel_pos _ _ dv); lia).
    lia.
Qed.

Lemma rect_inside_spec xa0 ya0 xa1 ya1 xb0 yb0 xb1 yb1 : xb0 <= xb1 -> yb0 <= yb1 ->
  (rect_inside xa0 ya0 xa1 ya1 xb0 yb0 xb1 yb1 = true <->
   forall x y, xb0 <= x <= xb1 /\ yb0 <= y <= yb1 -> xa0 < x < xa1 /\ ya0 < y < ya1).
Proof.
  intros Hx Hy. unfold rect_inside. split.
  - intros H x y Hb. lia.
  - intro H. pose proof (H xb0 yb0 ltac:(lia)). pose proof (H xb1 yb1 ltac:(lia)). lia.
Qed.

(* disjoint closed rectangles: no sides meet *)
Lemma disjoint_no_sides xa0 ya0 xa1 ya1 xb0 yb0 xb1 yb1 :
  xa0 < xa1 -> ya0 < ya1 -> xb0 < xb1 -> yb0 < yb1 ->
  xa1 < xb0 \/ xb1 < xa0 \/ ya1 < yb0 \/ yb1 < ya0 ->
  sides_meet xa0 ya0 xa1 ya1 xb0 yb0 xb1 yb1 = false.
Proof. intros ? ? ? ? D. apply sides_meet_false; [assumption..|]. lia. Qed.

(* ------------------------------------------------------------------ rectangle-like shapes *)
Record rectlike (w wb : Z) (s : shape) (x0 y0 x1 y1 : Z) : Prop := {
  rl_valid : valid s;
  rl_area : is_area s = true;
  rl_edges : edge_equiv (all_edges s) (sides x0 y0 x1 y1);
  rl_first : In (first_pt s) (rect x0 y0 x1 y1);
  rl_open : forall p, wb <= px p -> open_box x0 y0 x1 y1 p -> contains_coordinate w s p = true;
  rl_closed : forall p, wb <= px p -> contains_coordinate w s p = true ->
                        x0 <= px p <= x1 /\ y0 <= py p <= y1
}.

Lemma is_area_not_pt s : is_area s = true -> is_pt s = false.
Proof. destruct s; cbn; congruence. Qed.

Section Two.
  Variables w wb : Z.
  Variables (a b : shape) (xa0 ya0 xa1 ya1 xb0 yb0 xb1 yb1 : Z).
  Hypothesis Ra : rectlike w wb a xa0 ya0 xa1 ya1.
  Hypothesis Rb : rectlike w wb b xb0 yb0 xb1 yb1.
  Hypothesis Hxa : xa0 < xa1. Hypothesis Hya : ya0 < ya1.
  Hypothesis Hxb : xb0 < xb1. Hypothesis Hyb : yb0 < yb1.
  Hypothesis Hwa : wb <= xa0. Hypothesis Hwb : wb <= xb0.

  Lemma edge_part_rect : edge_part a b = sides_meet xa0 ya0 xa1 ya1 xb0 yb0 xb1 yb1.
  Proof.
    unfold edge_part. rewrite (brute_equiv _ _ _ _ (rl_edges _ _ _ _ _ _ _ Ra) (rl_edges _ _ _ _ _ _ _ Rb)).
    now apply brute_sides.
  Qed.

  Theorem rect_intersects :
    intersects_shape w a b = Ok (rects_meet xa0 ya0 xa1 ya1 xb0 yb0 xb1 yb1).
  Proof.
    destruct Ra as [Va Aa _ Fa Oa Ca], Rb as [Vb Ab _ Fb Ob Cb].
    rewrite (intersects_edge_truth w a b Va Vb (is_area_not_pt a Aa) (is_area_not_pt b Ab)).
    rewrite edge_part_rect. f_equal.
    destruct (first_pt a) as [fax fay] eqn:EA. destruct (first_pt b) as [fbx fby] eqn:EB.
    cbn [rect In] in Fa, Fb.
    apply eq_true_iff_eq. rewrite !orb_true_iff. split.
    - intros [[H|H]|H].
      + unfold rects_meet.
        destruct (Z.max xa0 xb0 <=? Z.min xa1 xb1) eqn:E1; [destruct (Z.max ya0 yb0 <=? Z.min ya1 yb1) eqn:E2; [reflexivity|]|];
          rewrite (disjoint_no_sides _ _ _ _ _ _ _ _ Hxa Hya Hxb Hyb) in H by lia; discriminate.
      + unfold rects_meet.
        destruct Fb as [E|[E|[E|[E|[]]]]]; injection E as <- <-;
          (apply Ca in H; [|unfold px; cbn [fst]; lia]); unfold px, py in H; cbn [fst snd] in H; lia.
      + unfold rects_meet.
        destruct Fa as [E|[E|[E|[E|[]]]]]; injection E as <- <-;
          (apply Cb in H; [|unfold px; cbn [fst]; lia]); unfold px, py in H; cbn [fst snd] in H; lia.
    - intro H. unfold rects_meet in H.
      destruct (sides_meet xa0 ya0 xa1 ya1 xb0 yb0 xb1 yb1) eqn:S; [now left; left|].
      apply sides_meet_false in S; [|assumption..].
      assert (N : (xa0 < xb0 /\ xb1 < xa1 /\ ya0 < yb0 /\ yb1 < ya1) \/
                  (xb0 < xa0 /\ xa1 < xb1 /\ yb0 < ya0 /\ ya1 < yb1)).
      { destruct S as [[S1|S1] [S2|S2]]; lia. }
      destruct N as [N|N].
      + left. right. apply Oa; unfold open_box, px, py; cbn [fst snd];
          destruct Fb as [E|[E|[E|[E|[]]]]]; injection E as <- <-; lia.
      + right. apply Ob; unfold open_box, px, py; cbn [fst snd];
          destruct Fa as [E|[E|[E|[E|[]]]]]; injection E as <- <-; lia.
  Qed.

  Theorem rect_contains :
    contains_shape w a b = Ok (rect_inside xa0 ya0 xa1 ya1 xb0 yb0 xb1 yb1).
  Proof.
    destruct Ra as [Va Aa _ Fa Oa Ca], Rb as [Vb Ab _ Fb Ob Cb].
    rewrite (contains_edge_truth w a b Vb Aa (is_area_not_pt b Ab)).
    rewrite edge_part_rect. f_equal.
    destruct (first_pt b) as [fbx fby] eqn:EB. cbn [rect In] in Fb.
    apply eq_true_iff_eq. rewrite andb_true_iff, negb_true_iff. split.
    - intros [S H].
      apply sides_meet_false in S; [|assumption..]. unfold rect_inside.
      destruct Fb as [E|[E|[E|[E|[]]]]]; injection E as <- <-;
        (apply Ca in H; [|unfold px; cbn [fst]; lia]); unfold px, py in H; cbn [fst snd] in H;
        destruct S as [[S1|S1] [S2|S2]]; lia.
    - intro H. unfold rect_inside in H. split.
      + apply sides_meet_false; [assumption..|]. lia.
      + apply Oa; unfold open_box, px, py; cbn [fst snd];
          destruct Fb as [E|[E|[E|[E|[]]]]]; injection E as <- <-; lia.
  Qed.
End Two.

(* ------------------------------------------------------------------ instances *)
(* GeoBox without holes *)
Lemma rectlike_box w wb nw se d :
  rectlike w wb (Box nw se [] d) (px nw) (py se) (px se) (py nw).
Proof.
  destruct nw as [x0 y1], se as [x1 y0]. unfold px, py. cbn [fst snd]. constructor.
  - exact I.
  - reflexivity.
  - split; intros e He; cbn in He |- *;
      repeat (destruct He as [<-|He]; [cbn; auto 12|]); destruct He.
  - cbn. auto.
  - intros p _ O. cbn. unfold box_contains, box_in, open_box, px, py in *. cbn [fst snd existsb negb] in *.
    destruct p as [a b]. cbn [fst snd] in *.
    replace ((x0 <=? a) && (a <=? x1) && (y0 <=? b) && (b <=? y1)) with true by lia. reflexivity.
  - intros p _ H. cbn in H. unfold box_contains, box_in, px, py in *. cbn [fst snd existsb negb] in *.
    destruct p as [a b]. cbn [fst snd] in *.
    destruct ((x0 <=? a) && (a <=? x1) && (y0 <=? b) && (b <=? y1)) eqn:E; [lia|discriminate].
Qed.

(* the outline GeoPolygon stores for a rectangle: any start vertex, either winding, closed and
   re-oriented by the constructor *)
Lemma rect_outline_struct x0 y0 x1 y1 k h r :
  r = rect x0 y0 x1 y1 \/ r = rev (rect x0 y0 x1 y1) ->
  let o := norm_outline h (reclose (rot k r)) in
  (2 <= length o)%nat /\ edge_equiv (ring_edges o) (sides x0 y0 x1 y1) /\
  In (hd0 o) (rect x0 y0 x1 y1).
Proof.
  intros [-> | ->]; destruct k as [|[|[|[|k]]]];
    unfold rot; cbn [skipn firstn rev rect app]; rewrite ?skipn_nil, ?firstn_nil; cbn [app reclose];
    unfold norm_outline, close_ring;
    cbn [last]; rewrite !pt_eqb_refl;
    destruct (negb _); cbn [rev app length ring_edges combine tl hd0 hd];
    (split; [lia|]); (split; [|cbn; auto 8]);
    split; intros e He; cbn [In] in He;
      repeat (destruct He as [<-|He]; [cbn; auto 12|]); destruct He.
Qed.

Lemma rectlike_poly w x0 y0 x1 y1 k h d : x0 < x1 -> y0 < y1 -> w <= x0 ->
  rectlike w w (Poly (norm_outline h (reclose (rot k (rect x0 y0 x1 y1)))) [] d) x0 y0 x1 y1 /\
  rectlike w w (Poly (norm_outline h (reclose (rot k (rev (rect x0 y0 x1 y1))))) [] d) x0 y0 x1 y1.
Proof.
  intros Hx Hy Hw.
  destruct (rect_outline_struct x0 y0 x1 y1 k h _ (or_introl eq_refl)) as (L1 & E1 & F1).
  destruct (rect_outline_struct x0 y0 x1 y1 k h _ (or_intror eq_refl)) as (L2 & E2 & F2).
  split; constructor; try assumption; try reflexivity.
  - rewrite all_edges_poly. cbn [map concat]. now rewrite app_nil_r.
  - intros p Hp O. cbn [contains_coordinate].
    now apply (proj1 (poly_contains_rect w x0 y0 x1 y1 p k h Hx Hy Hw Hp)).
  - intros p Hp H. cbn [contains_coordinate] in H.
    apply (proj1 (poly_contains_rect w x0 y0 x1 y1 p k h Hx Hy Hw Hp)) in H. unfold open_box in H. lia.
  - rewrite all_edges_poly. cbn [map concat]. now rewrite app_nil_r.
  - intros p Hp O. cbn [contains_coordinate].
    now apply (proj2 (poly_contains_rect w x0 y0 x1 y1 p k h Hx Hy Hw Hp)).
  - intros p Hp H. cbn [contains_coordinate] in H.
    apply (proj2 (poly_contains_rect w x0 y0 x1 y1 p k h Hx Hy Hw Hp)) in H. unfold open_box in H. lia.
Qed.

(* ------------------------------------------------------------------ the statements *)
(* GeoBox x GeoBox, no hypothesis on the ray end [w] *)
Theorem box_box_intersects w nwA seA dA nwB seB dB :
  px nwA < px seA -> py seA < py nwA -> px nwB < px seB -> py seB < py nwB ->
  intersects_shape w (Box nwA seA [] dA) (Box nwB seB [] dB) =
  Ok (rects_meet (px nwA) (py seA) (px seA) (py nwA) (px nwB) (py seB) (px seB) (py nwB)).
Proof.
  intros. apply (rect_intersects w (Z.min (px nwA) (px nwB))); try assumption; try lia;
    apply rectlike_box.
Qed.

Theorem box_box_contains w nwA seA dA nwB seB dB :
  px nwA < px seA -> py seA < py nwA -> px nwB < px seB -> py seB < py nwB ->
  contains_shape w (Box nwA seA [] dA) (Box nwB seB [] dB) =
  Ok (rect_inside (px nwA) (py seA) (px seA) (py nwA) (px nwB) (py seB) (px seB) (py nwB)).
Proof.
  intros. apply (rect_contains w (Z.min (px nwA) (px nwB))); try assumption; try lia;
    apply rectlike_box.
Qed.

(* the whole family: a GeoBox, or a GeoPolygon of the rectangle outline in any rotation and either
   winding, as the constructor stores it *)
Definition rect_shape (s : shape) (x0 y0 x1 y1 : Z) : Prop :=
  (exists d, s = Box (x0, y1) (x1, y0) [] d) \/
  (exists k h d, s = Poly (norm_outline h (reclose (rot k (rect x0 y0 x1 y1)))) [] d) \/
  (exists k h d, s = Poly (norm_outline h (reclose (rot k (rev (rect x0 y0 x1 y1))))) [] d).

Lemma rect_shape_like w s x0 y0 x1 y1 : x0 < x1 -> y0 < y1 -> w <= x0 ->
  rect_shape s x0 y0 x1 y1 -> rectlike w w s x0 y0 x1 y1.
Proof.
  intros Hx Hy Hw [(d & ->)|[(k & h & d & ->)|(k & h & d & ->)]].
  - apply (rectlike_box w w (x0, y1) (x1, y0) d).
  - now apply rectlike_poly.
  - now apply rectlike_poly.
Qed.

Theorem rect_shapes_relations w a b xa0 ya0 xa1 ya1 xb0 yb0 xb1 yb1 :
  rect_shape a xa0 ya0 xa1 ya1 -> rect_shape b xb0 yb0 xb1 yb1 ->
  xa0 < xa1 -> ya0 < ya1 -> xb0 < xb1 -> yb0 < yb1 -> w <= xa0 -> w <= xb0 ->
  intersects_shape w a b = Ok (rects_meet xa0 ya0 xa1 ya1 xb0 yb0 xb1 yb1) /\
  contains_shape w a b = Ok (rect_inside xa0 ya0 xa1 ya1 xb0 yb0 xb1 yb1).
Proof.
  intros Sa Sb ? ? ? ? ? ?.
  assert (Ra : rectlike w w a xa0 ya0 xa1 ya1) by now apply rect_shape_like.
  assert (Rb : rectlike w w b xb0 yb0 xb1 yb1) by now apply rect_shape_like.
  split; [now apply (rect_intersects w w)|now apply (rect_contains w w)].
Qed.

(* with a point: the box is closed (its frame counts, for intersects AND for contains), the
   rectangle polygon is open *)
Theorem box_pt_relations w nw se d p d' :
  intersects_shape w (Box nw se [] d) (Pt p d') = Ok (box_in nw se p) /\
  intersects_shape w (Pt p d') (Box nw se [] d) = Ok (box_in nw se p) /\
  contains_shape w (Box nw se [] d) (Pt p d') = Ok (box_in nw se p) /\
  (box_in nw se p = true <-> px nw <= px p <= px se /\ py se <= py p <= py nw).
Proof.
  assert (E : box_contains w nw se [] p = box_in nw se p).
  { unfold box_contains. cbn [existsb negb]. destruct (box_in nw se p); reflexivity. }
  destruct (point_rel_spec w) as (_ & B & _). destruct (B nw se [] d p d') as (B1 & B2 & B3).
  rewrite E in B1, B2, B3. split; [exact B1|]. split; [exact B2|]. split; [exact B3|]. apply box_in_spec.
Qed.

Theorem rectpoly_pt_relations w x0 y0 x1 y1 k h d p d' :
  x0 < x1 -> y0 < y1 -> w <= x0 -> w <= px p ->
  let A := Poly (norm_outline h (reclose (rot k (rect x0 y0 x1 y1)))) [] d in
  exists r, intersects_shape w A (Pt p d') = Ok r /\ intersects_shape w (Pt p d') A = Ok r /\
            contains_shape w A (Pt p d') = Ok r /\
            (r = true <-> x0 < px p < x1 /\ y0 < py p < y1).
Proof.
  intros Hx Hy Hw Hp A. destruct (point_rel_spec w) as (P & _).
  destruct (P (norm_outline h (reclose (rot k (rect x0 y0 x1 y1)))) [] d p d') as (P1 & P2 & P3).
  eexists. split; [exact P1|]. split; [exact P2|]. split; [exact P3|].
  apply (proj1 (poly_contains_rect w x0 y0 x1 y1 p k h Hx Hy Hw Hp)).
Qed.

(* the clause "contains = inside WITHOUT touching the boundary" read literally is false of a box
   and a point on its frame (GeoBox.contains_coordinate is documented as closed, C01b) *)
Theorem box_contains_frame_point_refuted :
  exists nw se p, (px p = px nw /\ py se <= py p <= py nw) /\
    contains_shape (-180) (Box nw se [] None) (Pt p None) = Ok true.
Proof. exists (0, 2), (2, 0), (0, 1). split; [cbn; lia|vm_compute; reflexivity]. Qed.

(* the same as planar set statements (integer points suffice, see rects_meet_spec_q) *)
Theorem box_box_intersects_truth w nwA seA dA nwB seB dB :
  px nwA < px seA -> py seA < py nwA -> px nwB < px seB -> py seB < py nwB ->
  (exists r, intersects_shape w (Box nwA seA [] dA) (Box nwB seB [] dB) = Ok r) /\
  (intersects_shape w (Box nwA seA [] dA) (Box nwB seB [] dB) = Ok true <->
   exists p, box_closed nwA seA p /\ box_closed nwB seB p).
Proof.
  intros. rewrite box_box_intersects by assumption. split; [eauto|].
  split.
  - intros [= E]. apply rects_meet_spec in E. destruct E as (x & y & E).
    exists (x, y). unfold box_closed, px, py. cbn [fst snd]. unfold px, py in E. lia.
  - intros ([x y] & A & B). f_equal. apply rects_meet_spec. exists x, y.
    unfold box_closed, px, py in *. cbn [fst snd] in *. lia.
Qed.

Theorem box_box_contains_truth w nwA seA dA nwB seB dB :
  px nwA < px seA -> py seA < py nwA -> px nwB < px seB -> py seB < py nwB ->
  (exists r, contains_shape w (Box nwA seA [] dA) (Box nwB seB [] dB) = Ok r) /\
  (contains_shape w (Box nwA seA [] dA) (Box nwB seB [] dB) = Ok true <->
   forall p, box_closed nwB seB p -> open_box (px nwA) (py seA) (px seA) (py nwA) p).
Proof.
  intros. rewrite box_box_contains by assumption. split; [eauto|].
  assert (Hx : px nwB <= px seB) by lia. assert (Hy : py seB <= py nwB) by lia.
  pose proof (rect_inside_spec (px nwA) (py seA) (px seA) (py nwA) _ _ _ _ Hx Hy) as S.
  split.
  - intros [= E] [x y] B. apply (proj1 S) with (x := x) (y := y) in E.
    + unfold open_box, px, py in *. cbn [fst snd] in *. exact E.
    + unfold box_closed, px, py in *. cbn [fst snd] in *. lia.
  - intro A. f_equal. apply S. intros x y B.
    specialize (A (x, y)). unfold box_closed, open_box, px, py in *. cbn [fst snd] in *. apply A. lia.
Qed.
