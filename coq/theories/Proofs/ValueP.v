(* Proofs about ValueM (C15), part 1: field equalities, cyclic lists (rotation / reversal),
   the rotation search of GeoPolygon.__eq__, set comparisons. *)
From Coq Require Import Permutation.
From GV Require Import Prelude ValueM.
Open Scope Z_scope.

(* ------------------------------------------------------------------ field equalities reflect = *)
Lemma oz_eqb_eq a b : oz_eqb a b = true <-> a = b.
Proof.
  destruct a, b; cbn; split; intro H; try discriminate; try reflexivity.
  - apply Z.eqb_eq in H. now subst.
  - inversion H. apply Z.eqb_refl.
Qed.

Lemma coord_eqb_eq a b : coord_eqb a b = true <-> a = b.
Proof.
  destruct a as [[x y] z], b as [[x' y'] z']. unfold coord_eqb, lon, lat, cz; cbn.
  rewrite !andb_true_iff, !Z.eqb_eq, oz_eqb_eq. split.
  - intros [[-> ->] ->]. reflexivity.
  - intros H. inversion H. auto.
Qed.

Lemma coord_eqb_refl a : coord_eqb a a = true.
Proof. now apply coord_eqb_eq. Qed.

Lemma pair_eqb_eq a b : pair_eqb a b = true <-> a = b.
Proof.
  destruct a, b. unfold pair_eqb; cbn. rewrite andb_true_iff, !Z.eqb_eq. split.
  - intros [-> ->]. reflexivity.
  - intros H. inversion H. auto.
Qed.

Lemma dt_eqb_eq a b : dt_eqb a b = true <-> a = b.
Proof.
  destruct a, b; cbn; split; intro H; try discriminate; try reflexivity.
  - apply pair_eqb_eq in H. now subst.
  - inversion H. now apply pair_eqb_eq.
Qed.

Lemma dt_eqb_refl a : dt_eqb a a = true.
Proof. now apply dt_eqb_eq. Qed.

Lemma list_eqb_eq {A} (eqb : A -> A -> bool) :
  (forall x y, eqb x y = true <-> x = y) ->
  forall l m, list_eqb eqb l m = true <-> l = m.
Proof.
  intros E. induction l as [|a l IH]; destruct m as [|b m]; cbn; split; intro H;
    try discriminate; try reflexivity.
  - apply andb_true_iff in H as [H1 H2]. apply E in H1. apply IH in H2. now subst.
  - inversion H; subst. apply andb_true_iff. split; [now apply E | now apply IH].
Qed.

Lemma clist_eqb_eq l m : clist_eqb l m = true <-> l = m.
Proof. apply list_eqb_eq, coord_eqb_eq. Qed.

Lemma edge_eqb_eq a b : edge_eqb a b = true <-> a = b.
Proof.
  destruct a, b. unfold edge_eqb; cbn. rewrite andb_true_iff, !coord_eqb_eq. split.
  - intros [-> ->]. reflexivity.
  - intros H. inversion H. auto.
Qed.

(* ------------------------------------------------------------------ rotations *)
(* s is o read from another start position *)
Definition Rot {A} (s o : list A) : Prop := exists u v, o = u ++ v /\ s = v ++ u.
(* ... or that, read backwards *)
Definition Cyc {A} (s o : list A) : Prop := Rot s o \/ Rot s (rev o).

Lemma Rot_refl {A} (l : list A) : Rot l l.
Proof. exists [], l. now rewrite app_nil_r. Qed.

Lemma Rot_sym {A} (s o : list A) : Rot s o -> Rot o s.
Proof. intros (u & v & -> & ->). now exists v, u. Qed.

Lemma app_eq_app_split {A} (a b c d : list A) :
  a ++ b = c ++ d ->
  exists w, (a = c ++ w /\ d = w ++ b) \/ (c = a ++ w /\ b = w ++ d).
Proof.
  revert c. induction a as [|x a IH]; intros c H.
  - exists c. right. cbn in *. auto.
  - destruct c as [|y c].
    + exists (x :: a). left. cbn in *. auto.
    + cbn in H. inversion H; subst. destruct (IH c H2) as [w [[-> ->]|[-> ->]]].
      * exists w. left. auto.
      * exists w. right. auto.
Qed.

Lemma Rot_trans {A} (a b c : list A) : Rot a b -> Rot b c -> Rot a c.
Proof.
  intros (u & v & Hb & Ha) (u' & v' & Hc & Hb'). subst a c. rewrite Hb in Hb'. clear Hb.
  (* u ++ v = v' ++ u' *)
  destruct (app_eq_app_split _ _ _ _ Hb') as [w [[-> ->]|[-> ->]]].
  - (* u = v' ++ w, u' = w ++ v *) exists w, (v ++ v'). rewrite <- !app_assoc. auto.
  - (* v' = u ++ w, v = w ++ u' *) exists (u' ++ u), w. rewrite <- !app_assoc. auto.
Qed.

Lemma Rot_rev {A} (s o : list A) : Rot s o -> Rot (rev s) (rev o).
Proof. intros (u & v & -> & ->). exists (rev v), (rev u). now rewrite !rev_app_distr. Qed.

Lemma Rot_length {A} (s o : list A) : Rot s o -> length s = length o.
Proof. intros (u & v & -> & ->). rewrite !app_length. lia. Qed.

Lemma Rot_In {A} (s o : list A) x : Rot s o -> (In x s <-> In x o).
Proof. intros (u & v & -> & ->). rewrite !in_app_iff. tauto. Qed.

Lemma Cyc_refl {A} (l : list A) : Cyc l l.
Proof. left. apply Rot_refl. Qed.

Lemma Cyc_sym {A} (s o : list A) : Cyc s o -> Cyc o s.
Proof.
  intros [H|H].
  - left. now apply Rot_sym.
  - right. apply Rot_sym, Rot_rev in H. now rewrite rev_involutive in H.
Qed.

Lemma Cyc_trans {A} (a b c : list A) : Cyc a b -> Cyc b c -> Cyc a c.
Proof.
  intros [H1|H1] [H2|H2].
  - left. eapply Rot_trans; eauto.
  - right. eapply Rot_trans; eauto.
  - right. apply Rot_rev in H2. eapply Rot_trans; eauto.
  - left. apply Rot_rev in H2. rewrite rev_involutive in H2. eapply Rot_trans; eauto.
Qed.

Lemma Cyc_rev {A} (l : list A) : Cyc (rev l) l.
Proof. right. apply Rot_refl. Qed.

Lemma Cyc_length {A} (s o : list A) : Cyc s o -> length s = length o.
Proof. intros [H|H]; apply Rot_length in H; now rewrite ?rev_length in H. Qed.

Lemma Cyc_In {A} (s o : list A) x : Cyc s o -> (In x s <-> In x o).
Proof.
  intros [H|H]; rewrite (Rot_In _ _ x H); [tauto|]. symmetry. apply in_rev.
Qed.

(* ------------------------------------------------------------------ the search loop *)
Fixpoint rotn (k : nat) (l : list coord) : list coord :=
  match k with O => l | S k' => rotn k' (rotl l) end.

Lemma rotl_Rot l : Rot (rotl l) l.
Proof. destruct l as [|a t]; [apply Rot_refl|]. exists [a], t. auto. Qed.

Lemma rotn_Rot k : forall l, Rot (rotn k l) l.
Proof.
  induction k as [|k IH]; intro l; cbn; [apply Rot_refl|].
  eapply Rot_trans; [apply IH | apply rotl_Rot].
Qed.

Lemma rotn_app u : forall v, rotn (length u) (u ++ v) = v ++ u.
Proof.
  induction u as [|a u IH]; intro v; cbn; [now rewrite app_nil_r|].
  rewrite <- app_assoc, IH, <- app_assoc. reflexivity.
Qed.

Lemma rot_search_spec fuel : forall s o,
  rot_search fuel s o = true <->
  exists k, (k < fuel)%nat /\ (s = rotn k o \/ s = rev (rotn k o)).
Proof.
  induction fuel as [|f IH]; intros s o; cbn.
  - split; [discriminate | intros (k & Hk & _); lia].
  - destruct (clist_eqb s o || clist_eqb s (rev o)) eqn:E.
    + split; [intros _|reflexivity]. exists O. split; [lia|]. cbn.
      apply orb_true_iff in E as [E|E]; apply clist_eqb_eq in E; auto.
    + rewrite IH. apply orb_false_iff in E as [E1 E2]. split.
      * intros (k & Hk & H). exists (S k). split; [lia|]. exact H.
      * intros (k & Hk & H). destruct k as [|k].
        -- cbn in H. destruct H as [H|H]; apply clist_eqb_eq in H; congruence.
        -- exists k. split; [lia|]. exact H.
Qed.

(* the loop finds a match exactly when the open rings are equal up to rotation and reversal
   (and non-empty: with an empty open ring the loop body never runs) *)
Lemma rot_search_Cyc s o :
  rot_search (length o) s o = true <-> (o <> [] /\ Cyc s o).
Proof.
  rewrite rot_search_spec. split.
  - intros (k & Hk & H). split; [destruct o; [cbn in Hk; lia | discriminate]|].
    destruct H as [->| ->].
    + left. apply rotn_Rot.
    + apply Cyc_sym. eapply Cyc_trans; [|apply Cyc_sym, Cyc_rev]. left. apply Rot_sym, rotn_Rot.
  - intros [Hne [H|H]].
    + destruct H as (u & v & -> & ->). destruct v as [|b v].
      * exists O. split; [destruct u; [cbn in Hne; congruence | cbn; lia]|]. left. cbn. now rewrite app_nil_r.
      * exists (length u). split; [rewrite app_length; cbn; lia|]. left. now rewrite rotn_app.
    + (* s = v ++ u, rev o = u ++ v, so o = rev v ++ rev u and rev s = rev u ++ rev v *)
      destruct H as (u & v & Ho & ->).
      assert (Ho' : o = rev v ++ rev u).
      { rewrite <- (rev_involutive o), Ho, rev_app_distr. reflexivity. }
      destruct u as [|a u].
      * exists O. split; [destruct o; [congruence | cbn; lia]|]. right. cbn.
        rewrite Ho. cbn. now rewrite app_nil_r.
      * exists (length (rev v)). split.
        -- rewrite Ho', !app_length; cbn. rewrite app_length. cbn. lia.
        -- right. rewrite Ho', rotn_app, rev_app_distr, !rev_involutive. reflexivity.
Qed.

Lemma removelast_length {A} (l : list A) : length (removelast l) = pred (length l).
Proof.
  induction l as [|a l IH]; [reflexivity|]. destruct l as [|b l]; [reflexivity|].
  cbn [removelast length] in *. rewrite IH. reflexivity.
Qed.

(* outline comparison of GeoPolygon.__eq__ *)
Lemma outline_eqb_spec so oo :
  outline_eqb so oo = true <->
  (length so = length oo /\ removelast oo <> [] /\ Cyc (removelast so) (removelast oo)).
Proof.
  unfold outline_eqb. rewrite andb_true_iff, Nat.eqb_eq, rot_search_Cyc. tauto.
Qed.

(* when both comparisons are meaningful the length test is implied *)
Lemma outline_eqb_Cyc so oo : so <> [] -> oo <> [] ->
  (outline_eqb so oo = true <-> (removelast oo <> [] /\ Cyc (removelast so) (removelast oo))).
Proof.
  intros Hs Ho. rewrite outline_eqb_spec. split; [tauto|]. intros [H1 H2]. split; [|tauto].
  apply Cyc_length in H2. rewrite !removelast_length in H2.
  destruct so, oo; cbn in *; congruence || lia.
Qed.

(* ------------------------------------------------------------------ set comparisons *)
Section Sets.
  Context {A : Type} (R : A -> A -> bool).

  Lemma subset_b_spec s t :
    subset_b R s t = true <-> forall x, In x s -> exists y, In y t /\ R x y = true.
  Proof.
    unfold subset_b. rewrite forallb_forall. split; intros H x Hx.
    - apply H in Hx. apply existsb_exists in Hx. exact Hx.
    - apply existsb_exists. auto.
  Qed.

  Lemma seteq_b_spec s t :
    seteq_b R s t = true <->
    (forall x, In x s -> exists y, In y t /\ R x y = true) /\
    (forall y, In y t -> exists x, In x s /\ R y x = true).
  Proof. unfold seteq_b. now rewrite andb_true_iff, !subset_b_spec. Qed.

  Hypothesis Rrefl : forall x, R x x = true.
  Hypothesis Rsym : forall x y, R x y = true -> R y x = true.
  Hypothesis Rtrans : forall x y z, R x y = true -> R y z = true -> R x z = true.

  Lemma seteq_b_refl s : seteq_b R s s = true.
  Proof. apply seteq_b_spec. split; intros x Hx; exists x; auto. Qed.

  Lemma seteq_b_sym s t : seteq_b R s t = seteq_b R t s.
  Proof. unfold seteq_b. apply andb_comm. Qed.

  Lemma seteq_b_trans s t u : seteq_b R s t = true -> seteq_b R t u = true -> seteq_b R s u = true.
  Proof.
    rewrite !seteq_b_spec. intros [H1 H2] [H3 H4]. split.
    - intros x Hx. destruct (H1 x Hx) as (y & Hy & Hxy). destruct (H3 y Hy) as (z & Hz & Hyz).
      exists z. eauto.
    - intros z Hz. destruct (H4 z Hz) as (y & Hy & Hzy). destruct (H2 y Hy) as (x & Hx & Hyx).
      exists x. eauto.
  Qed.
End Sets.

(* with a structural element equality the comparison is equality of the element sets *)
Lemma seteq_b_leibniz {A} (R : A -> A -> bool) :
  (forall x y, R x y = true <-> x = y) ->
  forall s t, seteq_b R s t = true <-> (forall x, In x s <-> In x t).
Proof.
  intros E s t. rewrite seteq_b_spec. split.
  - intros [H1 H2] x. split; intro Hx.
    + destruct (H1 x Hx) as (y & Hy & Hxy). apply E in Hxy. now subst.
    + destruct (H2 x Hx) as (y & Hy & Hxy). apply E in Hxy. now subst.
  - intros H. split; intros x Hx; exists x; (split; [now apply H | now apply E]).
Qed.

Lemma eset_eqb_spec a b : eset_eqb a b = true <-> (forall e, In e a <-> In e b).
Proof. apply seteq_b_leibniz, edge_eqb_eq. Qed.

Lemma eset_eqb_refl a : eset_eqb a a = true.
Proof. now apply eset_eqb_spec. Qed.
Lemma eset_eqb_sym a b : eset_eqb a b = true -> eset_eqb b a = true.
Proof. rewrite !eset_eqb_spec. intros H e. now rewrite H. Qed.
Lemma eset_eqb_trans a b c : eset_eqb a b = true -> eset_eqb b c = true -> eset_eqb a c = true.
Proof. rewrite !eset_eqb_spec. intros H1 H2 e. now rewrite H1, H2. Qed.
