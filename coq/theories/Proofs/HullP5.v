(* Proofs about the model of the public entry points (HullM.hull_of_members): GeoPolygon's
   constructor leaves the hull untouched - it is already closed and its shoelace sum already has
   the counter-clockwise sign, because every edge has an input point on its left.
   Stdlib only; no axioms. *)
From Coq Require Import Sorted.
From GV Require Import Prelude HullM HullP HullP2 HullP3 HullP4.
Open Scope Z_scope.

(* sum of cross(o, x, y) over the pairs used by is_counter_clockwise *)
Fixpoint cross_sum (o first : pt) (l : list pt) : Z :=
  match l with
  | [] => 0
  | x :: l' =>
      let y := match l' with [] => first | y :: _ => y end in
      cross o x y + cross_sum o first l'
  end.

Definition tele (o v : pt) : Z := (fst v - fst o) * (snd v - snd o) + 2 * snd o * (fst v - fst o).

(* each shoelace term is minus a cross product plus a telescoping difference *)
Lemma shoelace_telescope o first l :
  shoelace_from first l =
  - cross_sum o first l + match l with [] => 0 | x :: _ => tele o first - tele o x end.
Proof.
  induction l as [|x l IH]; [reflexivity|].
  destruct l as [|y l'].
  - cbn. unfold cross, tele. ring.
  - change (shoelace_from first (x :: y :: l'))
      with ((fst y - fst x) * (snd y + snd x) + shoelace_from first (y :: l')).
    change (cross_sum o first (x :: y :: l'))
      with (cross o x y + cross_sum o first (y :: l')).
    rewrite IH. unfold cross, tele. ring.
Qed.

Lemma shoelace_cross_sum o x l : shoelace (x :: l) = - cross_sum o x (x :: l).
Proof. unfold shoelace. rewrite (shoelace_telescope o). ring. Qed.

Lemma cross_sum_nonneg o first l :
  Consec2 (fun a b => cross o a b >= 0) (l ++ [first]) -> cross_sum o first l >= 0.
Proof.
  induction l as [|x l IH]; intros H; [cbn; lia|].
  cbn [cross_sum].
  assert (cross_sum o first l >= 0) by (apply IH; apply (Consec2_tail _ x); exact H).
  assert (cross o x (match l with [] => first | y :: _ => y end) >= 0).
  { destruct l as [|y l'].
    - apply (H [] x first []). reflexivity.
    - apply (H [] x y (l' ++ [first])). reflexivity. }
  lia.
Qed.

Lemma ring_is_ccw S x0 xm L U : IsRing S x0 xm L U -> is_ccw (ring x0 xm L U) = true.
Proof.
  intros HR. unfold is_ccw. apply Z.leb_le.
  unfold ring at 1. rewrite (shoelace_cross_sum x0).
  change (x0 :: L ++ xm :: U ++ [x0]) with (ring x0 xm L U).
  assert (cross_sum x0 x0 (ring x0 xm L U) >= 0); [|lia].
  apply cross_sum_nonneg.
  assert (HE : Consec2 (fun a b => cross x0 a b >= 0) (ring x0 xm L U)).
  { intros l1 a b l2 E. rewrite <- cross_cycle.
    apply (ring_edges S x0 xm L U (ir_L _ _ _ _ _ HR) (ir_U _ _ _ _ _ HR) l1 a b l2 E).
    apply (ir_0 _ _ _ _ _ HR). }
  unfold ring in *.
  replace ((x0 :: L ++ xm :: U ++ [x0]) ++ [x0]) with ((x0 :: L ++ xm :: U) ++ x0 :: [x0]).
  - apply Consec2_glue.
    + replace ((x0 :: L ++ xm :: U) ++ [x0]) with (x0 :: L ++ xm :: U ++ [x0]); [exact HE|].
      cbn. rewrite <- app_assoc. reflexivity.
    + intros l1 a b l2 E. destruct l1 as [|? [|? l1]]; cbn in E;
        [|discriminate|injection E as _ _ E; destruct l1; discriminate].
      injection E as <- <- _. rewrite cross_rep1. lia.
  - cbn. rewrite <- !app_assoc. cbn. rewrite <- app_assoc. reflexivity.
Qed.

Lemma pt_eqb_refl a : pt_eqb a a = true.
Proof. apply pt_eqb_spec. reflexivity. Qed.

(* GeoPolygon(convex_hull(coords)).outline is convex_hull(coords) *)
Lemma poly_outline_hull l : l <> [] -> poly_outline (hull l) = Ok (hull l).
Proof.
  intros Hne.
  destruct (hull_cases l) as [[-> _]|[(x & _ & _ & E)|(x0 & xm & L & U & HR & E)]].
  - tauto.
  - rewrite E. unfold poly_outline. cbn [last]. rewrite pt_eqb_refl.
    unfold is_ccw, shoelace, shoelace_from.
    replace ((fst x - fst x) * (snd x + snd x) + 0 <=? 0) with true; [reflexivity|].
    symmetry. apply Z.leb_le. lia.
  - rewrite E. unfold poly_outline.
    assert (Elast : last (ring x0 xm L U) x0 = x0).
    { unfold ring. replace (x0 :: L ++ xm :: U ++ [x0]) with ((x0 :: L ++ xm :: U) ++ [x0]).
      - apply last_last.
      - cbn. rewrite <- app_assoc. reflexivity. }
    unfold ring at 1. fold (ring x0 xm L U). rewrite Elast, pt_eqb_refl.
    rewrite (ring_is_ccw _ _ _ _ _ HR). reflexivity.
Qed.

Lemma hull_of_members_spec ms :
  hull_of_members ms =
  match concat ms with [] => Err IndexError | _ => Ok (hull (concat ms)) end.
Proof.
  unfold hull_of_members. destruct (concat ms) as [|x l] eqn:E; [reflexivity|].
  apply poly_outline_hull. discriminate.
Qed.
