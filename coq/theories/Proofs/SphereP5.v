(* Small displacements: two coordinates whose longitudes and latitudes differ by at most e degrees are at
   most 2 * Rearth * rad e metres apart (haversine).  Used to turn "within 5e-8 degrees per axis of the curve"
   (the rounding of destination points to 7 decimals) into "within 2 cm" (C03, C07). *)
From GV Require Import Prelude SphereM SphereP1 SphereP2 SphereP3.
From Coq Require Import Reals Lra Ranalysis.
Open Scope R_scope.

Lemma Rabs_le_inv x a : Rabs x <= a -> - a <= x <= a.
Proof. intros H. unfold Rabs in H. destruct (Rcase_abs x); lra. Qed.

Lemma atan_lt_x x : 0 < x -> atan x < x.
Proof.
  intros Hx.
  pose (f := (id - atan)%F).
  cut (f 0 < f x); [unfold f, minus_fct, id; rewrite atan_0; lra|].
  eapply (MVT.derive_increasing_interv 0 (x + 1) (id - atan)%F); try lra.
  intros t Ht.
  rewrite derive_pt_minus, derive_pt_id, derive_pt_atan.
  assert (0 < t * t) by (apply Rmult_lt_0_compat; lra).
  assert (/ (1 + t * t) < 1).
  { rewrite <- Rinv_1 at 2. apply Rinv_lt_contravar; lra. }
  unfold Rsqr, Rdiv. lra.
Qed.

Lemma atan_le_x x : 0 <= x -> atan x <= x.
Proof. intros [H|<-]; [left; apply atan_lt_x; exact H|rewrite atan_0; lra]. Qed.

Lemma sin_abs_le t : Rabs (sin t) <= Rabs t.
Proof.
  assert (P : forall u, 0 <= u -> Rabs (sin u) <= u).
  { intros u [Hu|<-]; [|rewrite sin_0, Rabs_R0; lra].
    pose proof (sin_lt_x u Hu) as H1. pose proof (SIN_bound u) as [B1 B2].
    apply Rabs_le. split; [|lra].
    destruct (Rle_or_lt 1 u) as [H|H]; [lra|].
    pose proof PI2_3_2. assert (0 < sin u) by (apply sin_gt_0; lra). lra. }
  destruct (Rle_or_lt 0 t) as [H|H].
  - rewrite (Rabs_right t) by lra. apply P; exact H.
  - rewrite (Rabs_left t) by lra. replace (sin t) with (- sin (- t)) by (rewrite sin_neg; ring).
    rewrite Rabs_Ropp. apply P. lra.
Qed.

Lemma sin_sq_le t : sin t * sin t <= t * t.
Proof.
  pose proof (sin_abs_le t) as H.
  apply Rsqr_le_abs_1 in H. unfold Rsqr in H. exact H.
Qed.

(* the haversine term is at most r^2/2 when both differences (radians) are at most r in absolute value *)
Lemma hav_a_small l1 f1 l2 f2 r :
  0 <= r -> Rabs (f2 - f1) <= r -> Rabs (l2 - l1) <= r -> 0 <= hav_a l1 f1 l2 f2 <= r * r / 2.
Proof.
  intros Hr Hf Hl. unfold hav_a.
  pose proof (sin_sq_le ((f2 - f1) / 2)) as S1. pose proof (sin_sq_le ((l2 - l1) / 2)) as S2.
  assert (Q1 : (f2 - f1) / 2 * ((f2 - f1) / 2) <= r * r / 4).
  { apply Rabs_le_inv in Hf. nra. }
  assert (Q2 : (l2 - l1) / 2 * ((l2 - l1) / 2) <= r * r / 4).
  { apply Rabs_le_inv in Hl. nra. }
  pose proof (COS_bound f1) as [C1 C2]. pose proof (COS_bound f2) as [C3 C4].
  set (s1 := sin ((f2 - f1) / 2) * sin ((f2 - f1) / 2)) in *.
  set (s2 := sin ((l2 - l1) / 2) * sin ((l2 - l1) / 2)) in *.
  assert (0 <= s1) by (unfold s1; nra). assert (0 <= s2) by (unfold s2; nra).
  assert (K : cos f1 * cos f2 * s2 <= s2).
  { assert (cos f1 * cos f2 <= 1) by nra. nra. }
  split; [|lra].
  (* non-negativity: hav_a is a square sum in disguise only when cos f1 cos f2 >= 0; use the general lemma *)
  pose proof (hav_a_range l1 f1 l2 f2). unfold hav_a in *. fold s1 s2 in H1. lra.
Qed.

Lemma rad_abs x : Rabs (rad x) = rad (Rabs x).
Proof.
  unfold rad. rewrite Rabs_mult. f_equal. apply Rabs_right. pose proof PI_RGT_0. apply Rle_ge.
  apply Rmult_le_pos; [lra|]. left. apply Rinv_0_lt_compat. lra.
Qed.

(* coordinates within e degrees of each other on both axes are at most 2 * Rearth * rad e metres apart *)
Theorem hdist_small c1 c2 e :
  0 <= e <= 1 -> Rabs (lon c2 - lon c1) <= e -> Rabs (lat c2 - lat c1) <= e ->
  hdist c1 c2 <= 2 * Rearth * rad e.
Proof.
  intros He Hl Hf. rewrite hdist_unwrap. unfold hdist_raw. cbv zeta.
  set (a := hav_a (rad (lon c1)) (rad (lat c1)) (rad (lon c2)) (rad (lat c2))).
  set (r := rad e).
  pose proof PI_RGT_0 as Hpi. pose proof PI_4 as Hpi4.
  assert (Hr0 : 0 <= r) by (unfold r, rad; apply Rmult_le_pos; [lra|]; apply Rmult_le_pos; [lra|]; left; apply Rinv_0_lt_compat; lra).
  assert (Hr1 : r <= / 10).
  { unfold r, rad. assert (e * (PI / 180) <= 1 * (PI / 180)) by (apply Rmult_le_compat_r; [unfold Rdiv; apply Rmult_le_pos; [lra|left; apply Rinv_0_lt_compat; lra]|lra]). lra. }
  assert (Ha : 0 <= a <= r * r / 2).
  { apply hav_a_small; [exact Hr0| |].
    - replace (rad (lat c2) - rad (lat c1)) with (rad (lat c2 - lat c1)) by (unfold rad; ring).
      rewrite rad_abs. unfold r, rad. apply Rmult_le_compat_r; [unfold Rdiv; apply Rmult_le_pos; [lra|left; apply Rinv_0_lt_compat; lra]|exact Hf].
    - replace (rad (lon c2) - rad (lon c1)) with (rad (lon c2 - lon c1)) by (unfold rad; ring).
      rewrite rad_abs. unfold r, rad. apply Rmult_le_compat_r; [unfold Rdiv; apply Rmult_le_pos; [lra|left; apply Rinv_0_lt_compat; lra]|exact Hl]. }
  assert (Hrr : r * r <= / 100) by nra.
  assert (H1a : / 2 <= 1 - a) by lra.
  rewrite (Rmax_right 0 (1 - a)) by lra.
  assert (Hs : 0 < sqrt (1 - a)) by (apply sqrt_lt_R0; lra).
  unfold atan2. destruct (Rlt_dec 0 (sqrt (1 - a))) as [_|N]; [|contradiction].
  set (z := sqrt a / sqrt (1 - a)).
  assert (Hz0 : 0 <= z) by (unfold z, Rdiv; apply Rmult_le_pos; [apply sqrt_pos|left; apply Rinv_0_lt_compat; exact Hs]).
  assert (Hz : z <= r).
  { unfold z. rewrite <- sqrt_div_alt by lra. rewrite <- (sqrt_square r Hr0). apply sqrt_le_1_alt.
    assert (0 < 1 - a) by lra. unfold Rdiv.
    apply (Rmult_le_reg_r (1 - a)); [lra|]. rewrite Rmult_assoc, Rinv_l by lra. nra. }
  pose proof (atan_le_x z Hz0) as Hat.
  assert (0 < Rearth) by (unfold Rearth; lra).
  nra.
Qed.

(* the rounding of a destination point to 7 decimals moves it by at most 1.2 cm *)
Corollary hdist_rounding_2cm c1 c2 :
  Rabs (lon c2 - lon c1) <= / 2 / 10 ^ 7 + / 10 ^ 19 -> Rabs (lat c2 - lat c1) <= / 2 / 10 ^ 7 + / 10 ^ 19 ->
  hdist c1 c2 <= 2 / 100.
Proof.
  intros Hl Hf.
  set (e := / 2 / 10 ^ 7 + / 10 ^ 19) in *.
  assert (E0 : 0 <= e <= 51 / 10 ^ 9).
  { unfold e. assert (0 < / 10 ^ 19) by (apply Rinv_0_lt_compat, pow_lt; lra).
    assert (/ 10 ^ 19 <= / 10 ^ 9) by (apply Rinv_le_contravar; [apply pow_lt; lra|simpl; lra]).
    split; simpl in *; lra. }
  assert (E : 0 <= e <= 1) by (simpl in E0; lra).
  pose proof (hdist_small c1 c2 e E Hl Hf) as H.
  eapply Rle_trans; [exact H|]. unfold rad, Rearth.
  pose proof PI_4 as P4. pose proof PI_RGT_0 as P0.
  assert (e * PI <= 51 / 10 ^ 9 * 4) by (simpl in *; nra).
  simpl in *. lra.
Qed.

(* the returned (rounded) destination is within 2 cm of the exact destination, which is exactly d away from
   the start at the requested bearing (dest_dist / dest_bearing): the "within 2 cm" of C07 and C03 in METRES *)
Theorem dest_rounded_within_2cm p theta d :
  hdist (dest_rad_rounded p theta d) (dest_rad p theta d) <= 2 / 100.
Proof.
  destruct (SphereP3.dest_rounding p theta d) as [A B].
  apply hdist_rounding_2cm; rewrite Rabs_minus_sym; assumption.
Qed.

Theorem boundary_within_2cm c theta d :
  -90 <= lat c <= 90 -> 0 <= d <= PI * Rearth ->
  exists q, hdist c q = d /\ hdist (dest_rad_rounded c theta d) q <= 2 / 100.
Proof.
  intros H1 H2. exists (dest_rad c theta d).
  split; [exact (SphereP3.dest_dist c theta d H1 H2) | exact (dest_rounded_within_2cm c theta d)].
Qed.
