(* C12, the concrete neighbourhood: NiemeyerHasher._get_surrounding (FloodM.get_surrounding, through
   the C11 codec model) IS the eight-neighbourhood [FloodP5.nbr8] on the integer indices of the
   geohash grid, away from the border of the grid; hence the flood fill of _hash_polygon /
   _hash_linestring returns EXACTLY the touched cells when they form a rectangle of indices.
     cell_index c gh = (column, row): the longitude bits (even positions of the interleaved bit
       string of gh) and the latitude bits (odd positions) read as binary numbers - an
       independent, purely combinatorial definition (no intervals, no rationals);
     grid_nx / grid_ny c n = 2^ceil(n*b/2) / 2^floor(n*b/2): the size of the grid of length n;
     gi_inv: the cell's interval is [min + i*W/N, min + (i+1)*W/N] (stated without division);
     surrounding_index: map cell_index (get_surrounding c gh) = nbr8 (cell_index gh), in the order
       of the Python list, when the 3 x 3 block around the cell is inside the configuration's
       range and inside [-180, 180] x [-90, 90] where Coordinate(...) keeps its arguments
       (this keeps away from D12 and from the wrap-around at the antimeridian/poles);
     interior3_of_index: for a configuration inside the coordinate range (base 32) that is
       0 < i < nx - 1 and 0 < j < ny - 1;
     cell_index_inj: strings of the alphabet of equal length with equal index are equal;
     niemeyer_rect_exact / _terminates: the flood on a rectangle of indices.
   For every configuration with cfg_ok (bases 16, 32, 64), every length.  Stdlib only; no axioms. *)
From Coq Require Import QArith Qreduction Lqa.
From GV Require Import Prelude GeohashM GeohashP GeohashP2 GeohashP3 FloodM FloodP FloodP3 FloodP4 FloodP5.
Open Scope Z_scope.

Record gi := mkgi { gx : Z; gnx : Z; gy : Z; gny : Z; glc : bool }.
Definition b2z (b : bool) : Z := if b then 1 else 0.
Definition gi_step (b : bool) (g : gi) : gi :=
  if glc g then mkgi (2 * gx g + b2z b) (2 * gnx g) (gy g) (gny g) false
  else mkgi (gx g) (gnx g) (2 * gy g + b2z b) (2 * gny g) true.
Fixpoint gi_run (bl : list bool) (g : gi) : gi :=
  match bl with [] => g | b :: bl' => gi_run bl' (gi_step b g) end.
Definition gi0 : gi := mkgi 0 1 0 1 true.

Lemma gi_run_dims bl : forall g,
  gnx (gi_run bl g) = gnx g * 2 ^ (if glc g then (Z.of_nat (length bl) + 1) / 2 else Z.of_nat (length bl) / 2) /\
  gny (gi_run bl g) = gny g * 2 ^ (if glc g then Z.of_nat (length bl) / 2 else (Z.of_nat (length bl) + 1) / 2).
Proof.
  induction bl as [|b bl IH]; intro g.
  - cbn [gi_run length]. destruct (glc g); cbn; lia.
  - cbn [gi_run length]. destruct (IH (gi_step b g)) as [A B]. rewrite A, B. unfold gi_step.
    rewrite Nat2Z.inj_succ. set (k := Z.of_nat (length bl)). assert (0 <= k) by lia.
    destruct (glc g); cbn [gnx gny glc].
    + replace ((Z.succ k + 1) / 2) with (Z.succ (k / 2)) by lia.
      replace (Z.succ k / 2) with ((k + 1) / 2) by lia.
      rewrite Z.pow_succ_r by lia. lia.
    + replace ((Z.succ k + 1) / 2) with (Z.succ (k / 2)) by lia.
      replace (Z.succ k / 2) with ((k + 1) / 2) by lia.
      rewrite Z.pow_succ_r by lia. lia.
Qed.

Open Scope Q_scope.
Lemma idx1 (N I1 I2 d : Z) (W mn lo1 hi1 lo2 hi2 px : Q) :
  (0 < N)%Z -> 0 < W ->
  inject_Z N * (lo1 - mn) == inject_Z I1 * W -> inject_Z N * (hi1 - lo1) == W ->
  inject_Z N * (lo2 - mn) == inject_Z I2 * W -> inject_Z N * (hi2 - lo2) == W ->
  lo2 <= px -> px <= hi2 -> 2 * px == lo1 + hi1 + inject_Z d * 2 * (hi1 - lo1) ->
  I2 = (I1 + d)%Z.
Proof.
  intros HN HW A1 B1 A2 B2 L U E.
  assert (Hn : 0 < inject_Z N) by (change 0 with (inject_Z 0); now rewrite <- Zlt_Qlt).
  set (n := inject_Z N) in *. set (i1 := inject_Z I1) in *. set (i2 := inject_Z I2) in *. set (dd := inject_Z d) in *.
  assert (L' : n * lo2 <= n * px) by (apply Qmult_le_l; assumption).
  assert (U' : n * px <= n * hi2) by (apply Qmult_le_l; assumption).
  assert (E' : n * (2 * px) == n * (lo1 + hi1 + dd * 2 * (hi1 - lo1))) by (rewrite E; reflexivity).
  assert (E2 : dd * 2 * (n * (hi1 - lo1)) == dd * 2 * W) by (rewrite B1; reflexivity).
  assert (X1 : i2 * W <= (i1 + dd + (1 # 2)) * W) by lra.
  assert (X2 : (i1 + dd + (1 # 2)) * W <= (i2 + 1) * W) by lra.
  apply Qmult_lt_0_le_reg_r in X1; [|exact HW]. apply Qmult_lt_0_le_reg_r in X2; [|exact HW].
  assert (Y1 : inject_Z (2 * I2) <= inject_Z (2 * I1 + 2 * d + 1)).
  { rewrite !inject_Z_plus, !inject_Z_mult. change (inject_Z 2) with 2. change (inject_Z 1) with 1. fold i1 i2 dd. lra. }
  assert (Y2 : inject_Z (2 * I1 + 2 * d + 1) <= inject_Z (2 * I2 + 2)).
  { rewrite !inject_Z_plus, !inject_Z_mult. change (inject_Z 2) with 2. change (inject_Z 1) with 1. fold i1 i2 dd. lra. }
  rewrite <- Zle_Qle in Y1, Y2. lia.
Qed.

(* 1-D border facts *)
Lemma border_lo (N I : Z) (W mn lo hi : Q) :
  (0 < N)%Z -> 0 < W -> (0 < I)%Z ->
  inject_Z N * (lo - mn) == inject_Z I * W -> inject_Z N * (hi - lo) == W ->
  mn <= lo - (hi - lo).
Proof.
  intros HN HW HI A B.
  assert (Hn : 0 < inject_Z N) by (change 0 with (inject_Z 0); now rewrite <- Zlt_Qlt).
  assert (Hi : 1 <= inject_Z I) by (change 1 with (inject_Z 1); rewrite <- Zle_Qle; lia).
  set (n := inject_Z N) in *. set (i := inject_Z I) in *.
  assert (X : 1 * W <= i * W) by (apply Qmult_le_compat_r; lra).
  apply Qmult_lt_0_le_reg_r with (z := n); [exact Hn|]. lra.
Qed.

Lemma border_hi (N I : Z) (W mn mx lo hi : Q) :
  (0 < N)%Z -> 0 < W -> (I + 1 < N)%Z -> mx - mn == W ->
  inject_Z N * (lo - mn) == inject_Z I * W -> inject_Z N * (hi - lo) == W ->
  hi + (hi - lo) <= mx.
Proof.
  intros HN HW HI M A B.
  assert (Hn : 0 < inject_Z N) by (change 0 with (inject_Z 0); now rewrite <- Zlt_Qlt).
  assert (Hi : inject_Z I + 2 <= inject_Z N).
  { change 2 with (inject_Z 2). rewrite <- inject_Z_plus, <- Zle_Qle. lia. }
  set (n := inject_Z N) in *. set (i := inject_Z I) in *.
  assert (X : (i + 2) * W <= n * W) by (apply Qmult_le_compat_r; lra).
  assert (M' : n * (mx - mn) == n * W) by (rewrite M; reflexivity).
  apply Qmult_lt_0_le_reg_r with (z := n); [exact Hn|]. lra.
Qed.

(* same index, same grid => same interval *)
Lemma same_itv (N I : Z) (W mn lo1 hi1 lo2 hi2 : Q) :
  (0 < N)%Z ->
  inject_Z N * (lo1 - mn) == inject_Z I * W -> inject_Z N * (hi1 - lo1) == W ->
  inject_Z N * (lo2 - mn) == inject_Z I * W -> inject_Z N * (hi2 - lo2) == W ->
  lo1 == lo2 /\ hi1 == hi2.
Proof.
  intros HN A1 B1 A2 B2.
  assert (Hn : 0 < inject_Z N) by (change 0 with (inject_Z 0); now rewrite <- Zlt_Qlt).
  set (n := inject_Z N) in *.
  assert (E1 : lo1 * n == lo2 * n) by lra. assert (E2 : hi1 * n == hi2 * n) by lra.
  apply Qmult_inj_r in E1; [|lra]. apply Qmult_inj_r in E2; [|lra]. now split.
Qed.

Section Idx.
  Variable c : cfg.
  Hypothesis OK : cfg_ok c.

  Definition gi_inv (g : gi) (s : cs) : Prop :=
    lonc s = glc g /\ ((0 <= gx g < gnx g)%Z /\ (0 <= gy g < gny g)%Z) /\
    (inject_Z (gnx g) * (fst (lonI s) - minx c) == inject_Z (gx g) * (maxx c - minx c) /\
     inject_Z (gnx g) * (snd (lonI s) - fst (lonI s)) == maxx c - minx c) /\
    (inject_Z (gny g) * (fst (latI s) - miny c) == inject_Z (gy g) * (maxy c - miny c) /\
     inject_Z (gny g) * (snd (latI s) - fst (latI s)) == maxy c - miny c).

  Lemma gi_inv_init : gi_inv gi0 (init_cs c).
  Proof. unfold gi_inv, gi0, init_cs. cbn. repeat split; try lia; ring. Qed.

  Lemma gi_inv_step b g s : gi_inv g s -> gi_inv (gi_step b g) (narrow_cs b s).
  Proof.
    destruct s as [[lo hi] [lo2 hi2] lc], g as [i nx j ny lc'].
    unfold gi_inv, gi_step, narrow_cs, narrow. cbn [lonc lonI latI fst snd gx gnx gy gny glc].
    intros (<- & (Rx & Ry) & (A1 & B1) & (A2 & B2)).
    destruct lc; cbn [lonc lonI latI fst snd gx gnx gy gny glc].
    - pose proof (qmid_spec lo hi) as Hm. set (m := qmid lo hi) in *. clearbody m.
      assert (Hm' : inject_Z nx * (2 * m) == inject_Z nx * (lo + hi)) by (rewrite Hm; reflexivity).
      split; [reflexivity|]. split; [destruct b; cbn [b2z]; lia|]. split; [|split; assumption].
      rewrite !inject_Z_plus, !inject_Z_mult. change (inject_Z 2) with 2.
      set (n := inject_Z nx) in *. set (ii := inject_Z i) in *.
      destruct b; cbn [b2z fst snd]; [change (inject_Z 1) with 1|change (inject_Z 0) with 0]; split; lra.
    - pose proof (qmid_spec lo2 hi2) as Hm. set (m := qmid lo2 hi2) in *. clearbody m.
      assert (Hm' : inject_Z ny * (2 * m) == inject_Z ny * (lo2 + hi2)) by (rewrite Hm; reflexivity).
      split; [reflexivity|]. split; [destruct b; cbn [b2z]; lia|]. split; [split; assumption|].
      rewrite !inject_Z_plus, !inject_Z_mult. change (inject_Z 2) with 2.
      set (n := inject_Z ny) in *. set (jj := inject_Z j) in *.
      destruct b; cbn [b2z fst snd]; [change (inject_Z 1) with 1|change (inject_Z 0) with 0]; split; lra.
  Qed.

  Lemma gi_inv_run bl : forall g s, gi_inv g s -> gi_inv (gi_run bl g) (run_bits bl s).
  Proof. induction bl as [|b bl IH]; intros g s H; cbn; [exact H|]. apply IH, gi_inv_step, H. Qed.

  Let b := length (bits c).
  Definition gi_of (s : list Z) : gi := gi_run (str_bits c s) gi0.
  (* (column, row) of the cell in the grid of its length: the lon bits (even positions of the
     interleaved bit string) and the lat bits (odd positions) read as binary numbers *)
  Definition cell_index (s : list Z) : Z * Z := (gx (gi_of s), gy (gi_of s)).
  Definition grid_nx (n : nat) : Z := (2 ^ ((Z.of_nat (n * length (bits c)) + 1) / 2))%Z.
  Definition grid_ny (n : nat) : Z := (2 ^ (Z.of_nat (n * length (bits c)) / 2))%Z.

  Lemma str_bits_length s : valid c s -> length (str_bits c s) = (length s * b)%nat.
  Proof.
    induction s as [|ch s IH]; intro V; [reflexivity|].
    unfold str_bits in *. cbn [flat_map length]. rewrite app_length, IH by (intros x Hx; apply V; now right).
    destruct (char_bits_ok c OK ch (V ch (or_introl eq_refl))) as [L _]. rewrite L. fold b. lia.
  Qed.

  Lemma gi_of_dims s : valid c s ->
    gnx (gi_of s) = grid_nx (length s) /\ gny (gi_of s) = grid_ny (length s).
  Proof.
    intro V. unfold gi_of, grid_nx, grid_ny. destruct (gi_run_dims (str_bits c s) gi0) as [A B].
    rewrite A, B, (str_bits_length s V). cbn [gi0 glc gnx gny]. fold b. lia.
  Qed.

  Lemma gi_of_inv s : gi_inv (gi_of s) (cell_st c s).
  Proof. apply gi_inv_run, gi_inv_init. Qed.

  Lemma cell_index_range s : valid c s ->
    (0 <= fst (cell_index s) < grid_nx (length s))%Z /\ (0 <= snd (cell_index s) < grid_ny (length s))%Z.
  Proof.
    intro V. destruct (gi_of_dims s V) as [<- <-]. destruct (gi_of_inv s) as (_ & R & _). exact R.
  Qed.

  Lemma range_pos : 0 < maxx c - minx c /\ 0 < maxy c - miny c.
  Proof. destruct (cfg_ok_parts c OK) as (_ & _ & _ & Hx & Hy & Px & Py). lra. Qed.

  (* the cell of a point that sits d cell widths east and e cell heights north of the centre of
     the cell [gh] (and is inside the configuration's range) has index (i + d, j + e) *)
  Lemma nbr_cell_index gh x y ex ey d e p :
    decode c gh = Ok (x, y, ex, ey) -> in_range c p ->
    fst p == x + inject_Z d * (ex * 2) -> snd p == y + inject_Z e * (ey * 2) ->
    cell_index (encode c p (length gh)) = (fst (cell_index gh) + d, snd (cell_index gh) + e)%Z.
  Proof.
    intros D R Px Py. destruct (decode_ok c OK _ _ D) as [V C].
    destruct (enc_loop_bits c OK (length gh) p (init_cs c)) as [V2 B2].
    fold (encode c p (length gh)) in V2, B2.
    assert (L2 : length (encode c p (length gh)) = length gh) by apply enc_loop_length.
    assert (In2 : in_cs p (cell_st c (encode c p (length gh)))).
    { unfold cell_st. rewrite B2. apply enc_bits_in. exact R. }
    pose proof (gi_of_inv gh) as (_ & (R1x & R1y) & (A1 & B1) & (A1' & B1')).
    pose proof (gi_of_inv (encode c p (length gh))) as (_ & _ & (A2 & B2') & (A2' & B2'')).
    destruct (gi_of_dims gh V) as [N1 N1']. destruct (gi_of_dims _ V2) as [N2 N2'].
    rewrite L2, <- N1 in N2. rewrite L2, <- N1' in N2'. rewrite N2 in A2, B2'. rewrite N2' in A2', B2''.
    destruct C as (_ & C1 & C2 & C3 & C4). destruct In2 as [[I1 I2] [I3 I4]].
    destruct range_pos as [Wx Wy].
    unfold cell_index. cbn [fst snd]. f_equal.
    - eapply idx1 with (N := gnx (gi_of gh)); [lia|exact Wx|exact A1|exact B1|exact A2|exact B2'|exact I1|exact I2|].
      set (dd := inject_Z d) in *.
      assert (X : dd * (snd (lonI (cell_st c gh)) - fst (lonI (cell_st c gh))) == dd * (2 * ex))
        by (rewrite <- C1, <- C2; ring).
      lra.
    - eapply idx1 with (N := gny (gi_of gh)); [lia|exact Wy|exact A1'|exact B1'|exact A2'|exact B2''|exact I3|exact I4|].
      set (dd := inject_Z e) in *.
      assert (X : dd * (snd (latI (cell_st c gh)) - fst (latI (cell_st c gh))) == dd * (2 * ey))
        by (rewrite <- C3, <- C4; ring).
      lra.
  Qed.

  (* the 3 x 3 block of cells around the cell lies inside the configuration's range and inside
     the range in which Coordinate(...) keeps its arguments *)
  Definition interior3 (r : Q * Q * Q * Q) : Prop :=
    let '(x, y, ex, ey) := r in
    (minx c <= x - 3 * ex /\ x + 3 * ex <= maxx c /\ miny c <= y - 3 * ey /\ y + 3 * ey <= maxy c) /\
    (-180 <= x - 3 * ex /\ x + 3 * ex <= 180 /\ -90 <= y - 3 * ey /\ y + 3 * ey <= 90).

  Lemma decode_err_pos gh x y ex ey : decode c gh = Ok (x, y, ex, ey) -> 0 < ex /\ 0 < ey.
  Proof.
    intro D. destruct (decode_ok c OK _ _ D) as [V C]. destruct (cell_st_swf c OK gh) as [S1 S2].
    destruct C as (_ & C1 & C2 & C3 & C4). lra.
  Qed.

  Theorem surrounding_index gh x y ex ey :
    decode c gh = Ok (x, y, ex, ey) -> interior3 (x, y, ex, ey) ->
    map cell_index (get_surrounding c gh) = nbr8 (cell_index gh).
  Proof.
    intros D ((G1 & G2 & G3 & G4) & (G5 & G6 & G7 & G8)). destruct (decode_err_pos _ _ _ _ _ D) as [Ex Ey].
    unfold get_surrounding. rewrite D. cbn [map].
    rewrite !coordinate_id by lra.
    rewrite (nbr_cell_index gh x y ex ey 0 1 _ D), (nbr_cell_index gh x y ex ey 1 1 _ D),
            (nbr_cell_index gh x y ex ey 1 0 _ D), (nbr_cell_index gh x y ex ey 1 (-1) _ D),
            (nbr_cell_index gh x y ex ey 0 (-1) _ D), (nbr_cell_index gh x y ex ey (-1) (-1) _ D),
            (nbr_cell_index gh x y ex ey (-1) 0 _ D), (nbr_cell_index gh x y ex ey (-1) 1 _ D);
      try (unfold in_range; cbn [fst snd]; lra);
      try (cbn [fst snd]; change (inject_Z 0) with 0; change (inject_Z 1) with 1; change (inject_Z (-1)) with (-1 # 1); lra).
    destruct (cell_index gh) as [i j]. cbn [fst snd nbr8]. repeat (f_equal; try lia).
  Qed.

  (* ---------------------------------------------------------------- index-only interior *)
  Definition cfg_geo : Prop := -180 <= minx c /\ maxx c <= 180 /\ -90 <= miny c /\ maxy c <= 90.

  Lemma interior3_of_index gh r :
    cfg_geo -> decode c gh = Ok r ->
    (0 < fst (cell_index gh) < grid_nx (length gh) - 1)%Z ->
    (0 < snd (cell_index gh) < grid_ny (length gh) - 1)%Z -> interior3 r.
  Proof.
    intros (G1 & G2 & G3 & G4) D Hi Hj. destruct r as [[[x y] ex] ey].
    destruct (decode_ok c OK _ _ D) as [V C]. destruct C as (_ & C1 & C2 & C3 & C4).
    destruct (gi_of_dims gh V) as [N1 N2]. rewrite <- N1 in Hi. rewrite <- N2 in Hj.
    pose proof (gi_of_inv gh) as (_ & (R1x & R1y) & (A1 & B1) & (A2 & B2)).
    destruct range_pos as [Wx Wy]. unfold cell_index in Hi, Hj. cbn [fst snd] in Hi, Hj.
    assert (P1 : (0 < gnx (gi_of gh))%Z) by lia. assert (P2 : (0 < gny (gi_of gh))%Z) by lia.
    assert (P3 : (0 < gx (gi_of gh))%Z) by lia. assert (P4 : (0 < gy (gi_of gh))%Z) by lia.
    assert (P5 : (gx (gi_of gh) + 1 < gnx (gi_of gh))%Z) by lia.
    assert (P6 : (gy (gi_of gh) + 1 < gny (gi_of gh))%Z) by lia.
    pose proof (border_lo _ _ _ _ _ _ P1 Wx P3 A1 B1) as L1.
    pose proof (border_hi _ _ _ _ (maxx c) _ _ P1 Wx P5 (Qeq_refl _) A1 B1) as L2.
    pose proof (border_lo _ _ _ _ _ _ P2 Wy P4 A2 B2) as L3.
    pose proof (border_hi _ _ _ _ (maxy c) _ _ P2 Wy P6 (Qeq_refl _) A2 B2) as L4.
    unfold interior3. lra.
  Qed.

  (* ---------------------------------------------------------------- the index determines the cell *)
  Lemma cell_index_inj s t :
    valid c s -> valid c t -> length s = length t -> cell_index s = cell_index t -> s = t.
  Proof.
    intros Vs Vt L E.
    destruct (decode_valid c OK s Vs) as ([[[x1 y1] ex1] ey1] & D1 & C1).
    destruct (decode_valid c OK t Vt) as (r2 & D2 & C2).
    transitivity (encode c (x1, y1) (length s)); [symmetry; eapply reencode_centre; eauto|].
    rewrite L. apply (reencode_halfopen c OK t r2 (x1, y1) D2).
    apply (hin_cell_cs _ _ (x1, y1) C2).
    destruct C1 as (Ec & _). rewrite Ec.
    pose proof (centre_oin _ (cell_st_swf c OK s)) as O.
    pose proof (gi_of_inv s) as (_ & (R1x & R1y) & (A1 & B1) & (A1' & B1')).
    pose proof (gi_of_inv t) as (_ & _ & (A2 & B2) & (A2' & B2')).
    destruct (gi_of_dims s Vs) as [N1 N1']. destruct (gi_of_dims t Vt) as [N2 N2'].
    rewrite <- L, <- N1 in N2. rewrite <- L, <- N1' in N2'.
    unfold cell_index in E. injection E as E1 E2.
    rewrite N2 in A2, B2. rewrite <- E1 in A2. rewrite N2' in A2', B2'. rewrite <- E2 in A2'.
    assert (P1 : (0 < gnx (gi_of s))%Z) by lia. assert (P2 : (0 < gny (gi_of s))%Z) by lia.
    destruct (same_itv _ _ _ _ _ _ _ _ P1 A1 B1 A2 B2) as [X1 X2].
    destruct (same_itv _ _ _ _ _ _ _ _ P2 A1' B1' A2' B2') as [X3 X4].
    unfold hin_cs, oin_cs in *. lra.
  Qed.

  Lemma surrounding_valid gh n :
    In n (get_surrounding c gh) -> length n = length gh /\ valid c n.
  Proof.
    unfold get_surrounding. destruct (decode c gh) as [[[[lon lat] elon] elat]|]; [|intros []].
    cbn [In]. intro H.
    repeat (destruct H as [H|H]; [subst n; apply encode_len_alphabet, OK|]). destruct H.
  Qed.

  (* ---------------------------------------------------------------- the flood on a rectangle of cells *)
  Section RectFlood.
    Variable len : nat.
    Definition valid_len (s : list Z) : Prop := length s = len /\ valid c s.
    Variable touch : list Z -> bool.
    Variables x0 x1 y0 y1 : Z.
    Hypothesis touch_is_rect :
      forall gh, valid_len gh -> touch gh = touch_rect x0 x1 y0 y1 (cell_index gh).
    Hypothesis rect_interior :
      forall gh r, valid_len gh -> touch_rect x0 x1 y0 y1 (cell_index gh) = true ->
                   decode c gh = Ok r -> interior3 r.
    Variable start : Q * Q.
    Hypothesis start_in : touch_rect x0 x1 y0 y1 (cell_index (encode c start len)) = true.

    Lemma start_valid : valid_len (encode c start len).
    Proof. apply encode_len_alphabet, OK. Qed.

    Lemma reach_start_or_touch {cell} nbr tch (a x : cell) :
      reach cell nbr tch a x -> x = a \/ tch x = true.
    Proof. intros []; [now left|now right]. Qed.

    Lemma lift_reach k :
      reach gcell nbr8 (touch_rect x0 x1 y0 y1) (cell_index (encode c start len)) k ->
      exists u, valid_len u /\ cell_index u = k /\ nreach c touch (encode c start len) u.
    Proof.
      induction 1 as [|c0 n R IH Hn Ht].
      - exists (encode c start len). split; [apply start_valid|]. split; [reflexivity|constructor].
      - destruct IH as (u' & Vu & Iu & Ru).
        assert (T0 : touch_rect x0 x1 y0 y1 c0 = true).
        { destruct (reach_start_or_touch _ _ _ _ R) as [->|T]; [exact start_in|exact T]. }
        destruct (decode_valid c OK u' (proj2 Vu)) as ([[[x y] ex] ey] & D & _).
        assert (I3 : interior3 (x, y, ex, ey)) by (apply (rect_interior u'); [exact Vu|now rewrite Iu|exact D]).
        pose proof (surrounding_index u' x y ex ey D I3) as S. rewrite Iu in S.
        rewrite <- S in Hn. apply in_map_iff in Hn. destruct Hn as (u & Eu & Hu).
        destruct (surrounding_valid _ _ Hu) as [Lu Vu2].
        assert (Vu' : valid_len u) by (split; [destruct Vu; congruence|exact Vu2]).
        exists u. split; [exact Vu'|]. split; [exact Eu|].
        eapply reach_step; [exact Ru|exact Hu|]. rewrite (touch_is_rect u Vu'), Eu. exact Ht.
    Qed.

    Lemma niemeyer_rect_reach gh :
      valid_len gh -> touch_rect x0 x1 y0 y1 (cell_index gh) = true ->
      nreach c touch (encode c start len) gh.
    Proof.
      intros V T.
      destruct (lift_reach (cell_index gh)) as (u & Vu & Iu & Ru).
      - apply rect_reach; [exact nbr4_in_nbr8|exact start_in|exact T].
      - assert (u = gh).
        { apply cell_index_inj; [exact (proj2 Vu)|exact (proj2 V)|destruct Vu, V; congruence|exact Iu]. }
        subst u. exact Ru.
    Qed.

    Lemma nreach_valid_rect x :
      nreach c touch (encode c start len) x ->
      valid_len x /\ touch_rect x0 x1 y0 y1 (cell_index x) = true.
    Proof.
      induction 1 as [|c0 n R IH Hn Ht].
      - split; [apply start_valid|exact start_in].
      - destruct IH as [[L0 V0] _]. destruct (surrounding_valid _ _ Hn) as [Ln Vn].
        assert (V : valid_len n) by (split; [congruence|exact Vn]).
        split; [exact V|]. now rewrite <- (touch_is_rect n V).
    Qed.

    Theorem niemeyer_rect_exact fuel r :
      niemeyer_flood c len start touch fuel = Some r ->
      forall gh, In gh r <-> valid_len gh /\ touch_rect x0 x1 y0 y1 (cell_index gh) = true.
    Proof.
      intros H gh. rewrite (proj1 (niemeyer_flood_result c len touch start fuel r H) gh). split.
      - apply nreach_valid_rect.
      - intros [V T]. now apply niemeyer_rect_reach.
    Qed.

    Theorem niemeyer_rect_terminates fuel :
      (length (all_strs (charset c) len) + 2 <= fuel)%nat ->
      exists r, niemeyer_flood c len start touch fuel = Some r /\
                forall gh, In gh r <-> valid_len gh /\ touch_rect x0 x1 y0 y1 (cell_index gh) = true.
    Proof.
      intro F. destruct (niemeyer_flood_terminates c OK len touch start fuel F) as (r & Hr & _).
      exists r. split; [exact Hr|]. now apply niemeyer_rect_exact with (fuel := fuel).
    Qed.
  End RectFlood.
End Idx.

(* ------------------------------------------------------------------ index-only statements *)
Lemma cfg32_geo : cfg_geo cfg32.
Proof. unfold cfg_geo. cbn. lra. Qed.

(* configurations inside the coordinate range (base 32): interior INDEX is enough *)
Theorem surrounding_index_geo c : cfg_ok c -> cfg_geo c -> forall gh,
  valid c gh ->
  (0 < fst (cell_index c gh) < grid_nx c (length gh) - 1)%Z ->
  (0 < snd (cell_index c gh) < grid_ny c (length gh) - 1)%Z ->
  map (cell_index c) (get_surrounding c gh) = nbr8 (cell_index c gh).
Proof.
  intros OK G gh V Hi Hj. destruct (decode_valid c OK gh V) as ([[[x y] ex] ey] & D & _).
  apply (surrounding_index c OK gh x y ex ey D). exact (interior3_of_index c OK gh _ G D Hi Hj).
Qed.

Theorem niemeyer_rect_exact_geo c : cfg_ok c -> cfg_geo c ->
  forall len touch x0 x1 y0 y1 start fuel r,
  (forall gh, valid_len c len gh -> touch gh = touch_rect x0 x1 y0 y1 (cell_index c gh)) ->
  (0 < x0 /\ x1 < grid_nx c len - 1)%Z -> (0 < y0 /\ y1 < grid_ny c len - 1)%Z ->
  touch_rect x0 x1 y0 y1 (cell_index c (encode c start len)) = true ->
  niemeyer_flood c len start touch fuel = Some r ->
  forall gh, In gh r <-> valid_len c len gh /\ touch_rect x0 x1 y0 y1 (cell_index c gh) = true.
Proof.
  intros OK G len touch x0 x1 y0 y1 start fuel r T Hx Hy S.
  apply (niemeyer_rect_exact c OK len touch x0 x1 y0 y1 T); [|exact S].
  intros gh r' [L V] Tr D. destruct (cell_index c gh) as [i j] eqn:E.
  apply touch_rect_spec in Tr.
  apply (interior3_of_index c OK gh r' G D); rewrite E, L; cbn [fst snd]; lia.
Qed.

Theorem niemeyer_rect_terminates_geo c : cfg_ok c -> cfg_geo c ->
  forall len touch x0 x1 y0 y1 start fuel,
  (forall gh, valid_len c len gh -> touch gh = touch_rect x0 x1 y0 y1 (cell_index c gh)) ->
  (0 < x0 /\ x1 < grid_nx c len - 1)%Z -> (0 < y0 /\ y1 < grid_ny c len - 1)%Z ->
  touch_rect x0 x1 y0 y1 (cell_index c (encode c start len)) = true ->
  (length (all_strs (charset c) len) + 2 <= fuel)%nat ->
  exists r, niemeyer_flood c len start touch fuel = Some r /\
    forall gh, In gh r <-> valid_len c len gh /\ touch_rect x0 x1 y0 y1 (cell_index c gh) = true.
Proof.
  intros OK G len touch x0 x1 y0 y1 start fuel T Hx Hy S F.
  destruct (niemeyer_flood_terminates c OK len touch start fuel F) as (r & Hr & _).
  exists r. split; [exact Hr|]. exact (niemeyer_rect_exact_geo c OK G len touch x0 x1 y0 y1 start fuel r T Hx Hy S Hr).
Qed.
