(* Proofs about the attribute side of ArchiveM.v: shapefile records (time columns, field typing),
   the GeoPandas row and WKT path, the KML placemark path.  Codecs are Section variables
   constrained by the contract each lemma needs; the reference codecs of ArchiveM.v satisfy them. *)
From Coq Require Import String Ascii.
From GV Require Import Prelude RingM RingP GeoJsonM GeoJsonP WktM WktP ArchiveM ArchiveP1.
Open Scope string_scope.
Open Scope list_scope.
Open Scope Z_scope.

(* ====================== dictionaries ====================== *)

Lemma jget_app : forall k a b,
  jget k (a ++ b) = match jget k a with Some v => Some v | None => jget k b end.
Proof.
  intros k a b. induction a as [|[h x] a IH]; cbn; [reflexivity|].
  destruct (String.eqb k h); [reflexivity|exact IH].
Qed.

Lemma jget_in : forall k d v, jget k d = Some v -> In k (map fst d).
Proof.
  intros k. induction d as [|[h x] d IH]; cbn; intros v H; [discriminate|].
  destruct (String.eqb k h) eqn:E; [left; symmetry; apply String.eqb_eq; exact E|right; eapply IH; exact H].
Qed.

Lemma jget_keyed : forall (name : string -> string) (f : string -> json) keys k,
  In k keys -> (forall k', In k' keys -> name k' = name k -> k' = k) ->
  jget (name k) (map (fun k => (name k, f k)) keys) = Some (f k).
Proof.
  intros name f. induction keys as [|h keys IH]; intros k Hin Hinj; [destruct Hin|].
  cbn. destruct (String.eqb (name k) (name h)) eqn:E.
  - apply String.eqb_eq in E. rewrite (Hinj h (or_introl eq_refl) (eq_sym E)). reflexivity.
  - destruct Hin as [->|Hin]; [rewrite String.eqb_refl in E; discriminate|].
    apply IH; [exact Hin|]. intros k' H1 H2. apply Hinj; [right; exact H1|exact H2].
Qed.

Lemma jget_keyed_none : forall (name : string -> string) (f : string -> json) keys x,
  (forall k', In k' keys -> name k' <> x) -> jget x (map (fun k => (name k, f k)) keys) = None.
Proof.
  intros name f. induction keys as [|h keys IH]; intros x H; [reflexivity|].
  cbn. destruct (String.eqb x (name h)) eqn:E.
  - apply String.eqb_eq in E. exfalso. apply (H h (or_introl eq_refl)). symmetry. exact E.
  - apply IH. intros k' Hk. apply H. right. exact Hk.
Qed.

Lemma jget_filter : forall (q : string -> bool) k d,
  jget k (filter (fun kv => q (fst kv)) d) = if q k then jget k d else None.
Proof.
  intros q k. induction d as [|[h x] d IH]; cbn; [destruct (q k); reflexivity|].
  destruct (q h) eqn:Q; cbn; destruct (String.eqb k h) eqn:E.
  - apply String.eqb_eq in E. subst. rewrite Q. reflexivity.
  - exact IH.
  - apply String.eqb_eq in E. subst. rewrite Q. rewrite IH, Q. reflexivity.
  - exact IH.
Qed.

Lemma props_dt_start : forall s a b, sdt s = Some (a, b) ->
  jget "datetime_start" (properties s) = Some (JDt a) /\ jget "datetime_end" (properties s) = Some (JDt b).
Proof.
  intros [g dt p] a b H. cbn in H. subst dt. apply props_dt_fields.
Qed.

Lemma props_nodt : forall s k, sdt s = None -> jget k (properties s) = jget k (sprops s).
Proof. intros [g dt p] k H. cbn in H. subst. reflexivity. Qed.

(* ====================== (d, e) shapefile records ====================== *)

Section Dbf.
Variable dbf_name : string -> string.
Variable dbf_cell : ftype -> option json -> json.

(* CONTRACT used by the time columns: names cut as the reader's defaults expect; an ISO text
   survives a 'C' field; a missing value of a 'C' field reads back falsy *)
Hypothesis name_start : dbf_name "datetime_start" = "datetime_s".
Hypothesis name_end : dbf_name "datetime_end" = "datetime_e".
Hypothesis cell_time : forall t, dbf_cell FC (Some (JTime t)) = JTime t.
Hypothesis cell_missing : falsy (dbf_cell FC None) = true.

Definition rec_of := shp_record dbf_name dbf_cell.

(* the field list covers this member's keys, no user key lands on a time column or on 'ID' *)
Definition keys_ok (keys : list string) (s : shape) : Prop :=
  (forall k, In k (map fst (properties s)) -> In k keys) /\
  (forall k, In k keys -> dbf_name k = "datetime_s" -> k = "datetime_start") /\
  (forall k, In k keys -> dbf_name k = "datetime_e" -> k = "datetime_end").

Lemma rec_time_col : forall keys ty s idx k col,
  dbf_name k = col -> col <> "ID" ->
  (forall k', In k' keys -> dbf_name k' = col -> k' = k) ->
  jget col (rec_of keys ty s idx) =
  if in_dec string_dec k keys
  then Some (dbf_cell (ty k) (option_map convert_dt (jget k (properties s))))
  else None.
Proof.
  intros keys ty s idx k col Hn Hid Hinj. unfold rec_of, shp_record. rewrite jget_app.
  destruct (in_dec string_dec k keys) as [Hin|Hnot].
  - rewrite <- Hn.
    rewrite (jget_keyed dbf_name (fun k => dbf_cell (ty k) (option_map convert_dt (jget k (properties s))))).
    + reflexivity.
    + exact Hin.
    + intros k' H1 H2. apply Hinj; [exact H1|rewrite H2; exact Hn].
  - rewrite jget_keyed_none.
    + cbn. destruct (String.eqb col "ID") eqn:E; [apply String.eqb_eq in E; contradiction|reflexivity].
    + intros k' Hk E. apply Hnot. rewrite <- (Hinj k' Hk E). exact Hk.
Qed.

(* the reader's _get_dt inverts the writer's time columns: no dt / instant / interval *)
Lemma shp_dt_roundtrip : forall keys ty s idx,
  dt_wf (sdt s) -> no_reserved (sprops s) -> keys_ok keys s ->
  ty "datetime_start" = FC -> ty "datetime_end" = FC ->
  shp_get_dt "datetime_s" "datetime_e" (rec_of keys ty s idx) = Ok (sdt s).
Proof.
  intros keys ty s idx Hw [Rs Re] (Hcov & Hs & He) Ts Te. unfold shp_get_dt.
  rewrite (rec_time_col keys ty s idx "datetime_start" "datetime_s" name_start) by (try discriminate; exact Hs).
  rewrite (rec_time_col keys ty s idx "datetime_end" "datetime_e" name_end) by (try discriminate; exact He).
  rewrite Ts, Te.
  destruct (sdt s) as [[a b]|] eqn:D.
  - destruct (props_dt_start s a b D) as [Pa Pb].
    destruct (in_dec string_dec "datetime_start" keys) as [_|N]; [|exfalso; apply N, Hcov; eapply jget_in; exact Pa].
    destruct (in_dec string_dec "datetime_end" keys) as [_|N]; [|exfalso; apply N, Hcov; eapply jget_in; exact Pb].
    rewrite Pa, Pb. cbn [option_map convert_dt]. rewrite !cell_time. cbn [conv falsy].
    cbn in Hw. destruct (a =? b) eqn:E; [f_equal; f_equal; f_equal; lia|].
    destruct (b <? a) eqn:F; [lia|reflexivity].
  - rewrite !(props_nodt s _ D). rewrite Rs, Re. cbn [option_map].
    destruct (in_dec string_dec "datetime_start" keys); destruct (in_dec string_dec "datetime_end" keys);
      cbn [conv]; rewrite ?cell_missing; reflexivity.
Qed.

(* instants come back as the zero-length interval (BaseShape turns the datetime _get_dt returns
   into TimeInterval(d, d)): the case a = b of the above, stated on its own *)
Lemma shp_instant_roundtrip : forall keys ty g p a idx,
  no_reserved p -> keys_ok keys (mkshape g (Some (a, a)) p) ->
  ty "datetime_start" = FC -> ty "datetime_end" = FC ->
  shp_get_dt "datetime_s" "datetime_e" (rec_of keys ty (mkshape g (Some (a, a)) p) idx) = Ok (Some (a, a)).
Proof. intros. apply shp_dt_roundtrip; try assumption. cbn. lia. Qed.

(* a user property whose value the DBF cell keeps exactly is read back, under its (cut) name *)
Definition user_key (k : string) : Prop :=
  String.eqb k "datetime_start" = false /\ String.eqb k "datetime_end" = false.

Lemma shp_prop_survives : forall keys ty s idx k v,
  jget k (sprops s) = Some v -> user_key k -> In k keys ->
  (forall k', In k' keys -> dbf_name k' = dbf_name k -> k' = k) ->
  dbf_name k <> "ID" -> dbf_name k <> "datetime_s" -> dbf_name k <> "datetime_e" ->
  dbf_cell (ty k) (Some (convert_dt v)) = v ->
  jget (dbf_name k)
       (filter (fun kv => negb (is_time_col "datetime_s" "datetime_e" (fst kv))) (rec_of keys ty s idx)) = Some v.
Proof.
  intros keys ty s idx k v Hv [U1 U2] Hin Hinj Hid H1 H2 Hc.
  rewrite (jget_filter (fun x => negb (is_time_col "datetime_s" "datetime_e" x))).
  unfold is_time_col.
  destruct (String.eqb (dbf_name k) "datetime_s") eqn:E1; [apply String.eqb_eq in E1; contradiction|].
  destruct (String.eqb (dbf_name k) "datetime_e") eqn:E2; [apply String.eqb_eq in E2; contradiction|].
  cbn [orb negb].
  rewrite (rec_time_col keys ty s idx k (dbf_name k) eq_refl Hid) by (intros k' A B; apply Hinj; assumption).
  destruct (in_dec string_dec k keys) as [_|N]; [|contradiction].
  destruct s as [g dt p]. rewrite (props_user_fields g dt p k U1 U2). cbn [sprops] in Hv. rewrite Hv.
  cbn [option_map]. rewrite Hc. reflexivity.
Qed.

(* every record gains an 'ID' entry: the index within the layer *)
Lemma shp_id_added : forall keys ty s idx,
  (forall k, In k keys -> dbf_name k <> "ID") ->
  jget "ID" (filter (fun kv => negb (is_time_col "datetime_s" "datetime_e" (fst kv))) (rec_of keys ty s idx))
  = Some (JInt idx).
Proof.
  intros keys ty s idx H.
  rewrite (jget_filter (fun x => negb (is_time_col "datetime_s" "datetime_e" x))). cbn [is_time_col].
  change (negb (is_time_col "datetime_s" "datetime_e" "ID")) with true. cbn iota.
  unfold rec_of, shp_record. rewrite jget_app, jget_keyed_none by exact H. reflexivity.
Qed.

(* one (shape, record) pair, composed with the geometry path *)
Lemma shp_shape_roundtrip : forall half keys ty s idx g z,
  dt_wf (sdt s) -> no_reserved (sprops s) -> keys_ok keys s ->
  ty "datetime_start" = FC -> ty "datetime_end" = FC ->
  from_pyshp half g z = Ok (sgeom s) ->
  exists s', shp_read_shape half g z (rec_of keys ty s idx) = Ok s' /\
             sgeom s' = sgeom s /\ sdt s' = sdt s /\
             sprops s' = filter (fun kv => negb (is_time_col "datetime_s" "datetime_e" (fst kv))) (rec_of keys ty s idx).
Proof.
  intros half keys ty s idx g z Hw Hr Hk Ts Te Hg. unfold shp_read_shape.
  rewrite shp_dt_roundtrip by assumption. rewrite Hg. eexists. split; [reflexivity|]. repeat split.
Qed.
End Dbf.

(* the reference DBF codec meets every clause of the contract *)
Lemma dbf_ref_contract : forall scale,
  trunc10 "datetime_start" = "datetime_s" /\ trunc10 "datetime_end" = "datetime_e" /\
  (forall t, dbf_cell_ref scale FC (Some (JTime t)) = JTime t) /\
  falsy (dbf_cell_ref scale FC None) = true /\
  (forall s, dbf_cell_ref scale FC (Some (JStr s)) = JStr s) /\
  (forall n, dbf_cell_ref scale FN (Some (JInt n)) = JInt n) /\
  (forall b, dbf_cell_ref scale FL (Some (JBool b)) = JBool b).
Proof. intros. repeat split. Qed.

(* values of the three property types the format keeps have the field type that keeps them *)
Lemma ftype_keeps : forall scale v,
  (exists s, v = JStr s) \/ (exists n, v = JInt n) \/ (exists b, v = JBool b) ->
  dbf_cell_ref scale (ftype_of v) (Some (convert_dt v)) = v.
Proof. intros scale v [[s ->]|[[n ->]|[b ->]]]; reflexivity. Qed.

Lemma time_columns_text : forall t, ftype_of (JDt t) = FC.
Proof. reflexivity. Qed.

Definition pt0 : geom := GPoint (mkc 4 8 None).

(* D38: a float property is written into an 'N' field declared with decimal 0: 1.5 comes back as 1 *)
Lemma shp_float_refuted :
  exists s, jget "f" (sprops s) = Some (JFloat 6) /\
    jget "f" (shp_record trunc10 (dbf_cell_ref 4) (group_keys [s]) (group_type [s]) s 0) = Some (JInt 1).
Proof. exists (mkshape pt0 None [("f", JFloat 6)]). vm_compute. split; reflexivity. Qed.

(* D39: a shape without properties comes back with {'ID': index} *)
Lemma shp_id_refuted :
  exists s, sprops s = [] /\
    filter (fun kv => negb (is_time_col "datetime_s" "datetime_e" (fst kv)))
           (shp_record trunc10 (dbf_cell_ref 4) (group_keys [s]) (group_type [s]) s 0) = [("ID", JInt 0)].
Proof. exists (mkshape pt0 None []). vm_compute. split; reflexivity. Qed.

(* D40: a key present on another member of the layer comes back as '' (string) / None (number, bool) *)
Lemma shp_missing_key_refuted :
  exists a b, let grp := [a; b] in
    jget "s" (sprops b) = None /\ jget "n" (sprops b) = None /\
    jget "s" (shp_record trunc10 (dbf_cell_ref 4) (group_keys grp) (group_type grp) b 1) = Some (JStr "") /\
    jget "n" (shp_record trunc10 (dbf_cell_ref 4) (group_keys grp) (group_type grp) b 1) = Some JNull.
Proof.
  exists (mkshape pt0 None [("s", JStr "x"); ("n", JInt 3)]), (mkshape pt0 None []).
  vm_compute. repeat split; reflexivity.
Qed.

(* ====================== (f) GeoPandas ====================== *)

Lemma pget_keyed : forall (f : string -> pcell) keys k, In k keys ->
  pget k (map (fun k => (k, f k)) keys) = Some (f k).
Proof.
  intros f. induction keys as [|h keys IH]; intros k Hin; [destruct Hin|].
  cbn. destruct (String.eqb k h) eqn:E; [apply String.eqb_eq in E; subst; reflexivity|].
  destruct Hin as [->|Hin]; [rewrite String.eqb_refl in E; discriminate|apply IH; exact Hin].
Qed.

Lemma pget_keyed_none : forall (f : string -> pcell) keys k, ~ In k keys ->
  pget k (map (fun k => (k, f k)) keys) = None.
Proof.
  intros f. induction keys as [|h keys IH]; intros k Hn; [reflexivity|].
  cbn. destruct (String.eqb k h) eqn:E; [apply String.eqb_eq in E; subst; exfalso; apply Hn; left; reflexivity|].
  apply IH. intros H. apply Hn. right. exact H.
Qed.

Lemma gpd_record_map : forall pd keys s,
  gpd_record pd keys s = map (fun k => (k, pd k (jget k (properties s)))) keys.
Proof. intros. unfold gpd_record, gpd_row. rewrite map_map. reflexivity. Qed.

Section Pandas.
Variable pd_cell : string -> option json -> pcell.
(* CONTRACT (pandas): a datetime cell comes back as a Timestamp of the same instant; a missing
   cell does not come back as a Timestamp *)
Hypothesis pd_dt : forall k t, pd_cell k (Some (JDt t)) = PDt t.
Hypothesis pd_missing : forall k, is_pdt (Some (pd_cell k None)) = false.

Lemma gpd_dt_roundtrip : forall keys s,
  dt_wf (sdt s) -> no_reserved (sprops s) ->
  (forall k, In k (map fst (properties s)) -> In k keys) ->
  gpd_get_dt "datetime_start" "datetime_end" (gpd_record pd_cell keys s) = Ok (sdt s).
Proof.
  intros keys s Hw [Rs Re] Hcov. unfold gpd_get_dt. rewrite gpd_record_map.
  destruct (sdt s) as [[a b]|] eqn:D.
  - destruct (props_dt_start s a b D) as [Pa Pb].
    rewrite !pget_keyed by (apply Hcov; eapply jget_in; eassumption).
    rewrite Pa, Pb, !pd_dt. cbn [is_pdt orb negb]. cbn in Hw.
    destruct (a =? b) eqn:E; [f_equal; f_equal; f_equal; lia|].
    destruct (b <? a) eqn:F; [lia|reflexivity].
  - assert (H : forall k, jget k (properties s) = None ->
               is_pdt (pget k (map (fun k => (k, pd_cell k (jget k (properties s)))) keys)) = false).
    { intros k Hk. destruct (in_dec string_dec k keys) as [I|N].
      - rewrite pget_keyed by exact I. rewrite Hk. apply pd_missing.
      - rewrite pget_keyed_none by exact N. reflexivity. }
    rewrite (H "datetime_start") by (rewrite (props_nodt s _ D); exact Rs).
    rewrite (H "datetime_end") by (rewrite (props_nodt s _ D); exact Re). reflexivity.
Qed.

Lemma pget_filter : forall (q : string -> bool) k d,
  pget k (filter (fun kv => q (fst kv)) d) = if q k then pget k d else None.
Proof.
  intros q k. induction d as [|[h x] d IH]; cbn; [destruct (q k); reflexivity|].
  destruct (q h) eqn:Q; cbn; destruct (String.eqb k h) eqn:E.
  - apply String.eqb_eq in E. subst. rewrite Q. reflexivity.
  - exact IH.
  - apply String.eqb_eq in E. subst. rewrite Q. rewrite IH, Q. reflexivity.
  - exact IH.
Qed.

(* a user property whose cell pandas keeps as the same Python value is read back *)
Lemma gpd_prop_survives : forall keys s k v,
  jget k (sprops s) = Some v -> user_key k -> String.eqb k "geometry" = false -> In k keys ->
  pd_cell k (Some v) = PV v ->
  pget k (gpd_props "datetime_start" "datetime_end" (gpd_record pd_cell keys s)) = Some (PV v).
Proof.
  intros keys s k v Hv [U1 U2] Ug Hin Hc. unfold gpd_props.
  rewrite (pget_filter (fun x => negb (is_time_col "datetime_start" "datetime_end" x || String.eqb x "geometry"))).
  unfold is_time_col. rewrite U1, U2, Ug. cbn [orb negb].
  rewrite gpd_record_map, pget_keyed by exact Hin.
  destruct s as [g dt p]. rewrite (props_user_fields g dt p k U1 U2). cbn [sprops] in Hv. rewrite Hv, Hc. reflexivity.
Qed.
End Pandas.

Lemma pd_ref_contract : forall scale,
  (forall t, pd_cell_ref scale CKDt (Some (JDt t)) = PDt t) /\
  (forall ck, is_pdt (Some (pd_cell_ref scale ck None)) = false) /\
  (forall s, pd_cell_ref scale CKStr (Some (JStr s)) = PV (JStr s)) /\
  (forall b, pd_cell_ref scale CKObj (Some (JBool b)) = PV (JBool b)) /\
  (forall n, pd_cell_ref scale (CKNum false) (Some (JInt n)) = PV (JInt n)) /\
  (forall z m, pd_cell_ref scale (CKNum m) (Some (JFloat z)) = PV (JFloat z)).
Proof.
  intros. repeat split; try reflexivity.
  - intros [|m| |]; try reflexivity. destruct m; reflexivity.
  - intros z m. destruct m; reflexivity.
Qed.

(* D42: a key missing on a member comes back as nan (NaN is a value: the member gains the key) *)
Lemma gpd_missing_key_refuted :
  exists a b, jget "n" (sprops b) = None /\
    pget "n" (gpd_props "datetime_start" "datetime_end"
               (gpd_record (fun _ => pd_cell_ref 4 (CKNum true)) (group_keys [a; b]) b)) = Some PNaN.
Proof.
  exists (mkshape pt0 None [("n", JInt 3)]), (mkshape pt0 None []). vm_compute. split; reflexivity.
Qed.

(* geometry: from_wkt of what Shapely writes, RELATIVE to C13: if Shapely's text has the
   token tree of the library's own to_wkt, the shape is read back *)
Section Shapely.
Variable shapely : wkt -> wkt.

Lemma gpd_geometry_roundtrip : forall half orc g t,
  kind_tag g = Some t -> wkt_wf half g ->
  shapely (write orc None g) = write orc None g ->
  WktM.read half t (shapely (write orc None g)) = Ok g.
Proof. intros half orc g t K W E. rewrite E. apply wkt_roundtrip; assumption. Qed.

Lemma write_tag : forall orc g t, kind_tag g = Some t -> w_tag (write orc None g) = Some t.
Proof. intros orc g t K. destruct g; cbn in K; inversion K; reflexivity. Qed.

(* one whole record *)
Lemma gpd_shape_roundtrip : forall half orc pd keys s t,
  (forall k u, pd k (Some (JDt u)) = PDt u) -> (forall k, is_pdt (Some (pd k None)) = false) ->
  kind_tag (sgeom s) = Some t -> wkt_wf half (sgeom s) ->
  shapely (write orc None (sgeom s)) = write orc None (sgeom s) ->
  dt_wf (sdt s) -> no_reserved (sprops s) ->
  (forall k, In k (map fst (properties s)) -> In k keys) ->
  gpd_read_shape half (shapely (write orc None (sgeom s))) (gpd_record pd keys s) =
  Ok (mkgshape (sgeom s) (sdt s) (gpd_props "datetime_start" "datetime_end" (gpd_record pd keys s))).
Proof.
  intros half orc pd keys s t P1 P2 K W E Hw Hr Hc. unfold gpd_read_shape.
  rewrite E, (write_tag orc _ t K). rewrite (gpd_dt_roundtrip pd P1 P2) by assumption.
  rewrite wkt_roundtrip by assumption. reflexivity.
Qed.
End Shapely.

(* Shapely marks three-dimensional geometries with a Z after the keyword (POINT Z (1 2 3.5));
   the library's own to_wkt never does.  The reader assigns the third number to z either way. *)
Definition with_zm (zm : list zml) (w : wkt) : wkt := mkwkt (w_tag w) (w_upper w) zm (w_body w).

Lemma coord_of_LZ : forall c, coord_of [LZ] (tuple_of c) = coord_of [] (tuple_of c).
Proof. intros [x y z]. unfold tuple_of. cbn. destruct (truthy_z z); reflexivity. Qed.

Lemma mapR_ring_LZ : forall r, mapR (coord_of [LZ]) (wring r) = mapR (coord_of []) (wring r).
Proof.
  induction r as [|c r IH]; [reflexivity|]. unfold wring in *. cbn [map mapR].
  rewrite coord_of_LZ, IH. reflexivity.
Qed.

Lemma mapR_rings_LZ : forall rs,
  mapR (mapR (coord_of [LZ])) (map wring rs) = mapR (mapR (coord_of [])) (map wring rs).
Proof.
  induction rs as [|r rs IH]; [reflexivity|]. cbn [map mapR]. rewrite mapR_ring_LZ, IH. reflexivity.
Qed.

Lemma mapR_polys_LZ : forall pss,
  mapR (mapR (mapR (coord_of [LZ]))) (map (map wring) pss) = mapR (mapR (mapR (coord_of []))) (map (map wring) pss).
Proof.
  induction pss as [|p pss IH]; [reflexivity|]. cbn [map mapR]. rewrite mapR_rings_LZ, IH. reflexivity.
Qed.

Lemma parse_body_LZ : forall orc g,
  parse_body [LZ] (w_body (write orc None g)) = parse_body [] (w_body (write orc None g)).
Proof.
  intros orc g. destruct g; cbn [write w_body parse_body].
  - change [tuple_of c] with (wring [c]). rewrite mapR_ring_LZ. reflexivity.
  - rewrite mapR_ring_LZ. reflexivity.
  - rewrite mapR_rings_LZ. reflexivity.
  - rewrite mapR_ring_LZ. reflexivity.
  - rewrite mapR_rings_LZ. reflexivity.
  - rewrite <- (map_map linear_rings (map wring)). rewrite mapR_polys_LZ. reflexivity.
  - rewrite mapR_rings_LZ. reflexivity.
  - rewrite mapR_rings_LZ. reflexivity.
  - rewrite mapR_rings_LZ. reflexivity.
  - rewrite mapR_rings_LZ. reflexivity.
Qed.

Lemma read_LZ : forall half orc g t,
  WktM.read half t (with_zm [LZ] (write orc None g)) = WktM.read half t (write orc None g).
Proof.
  intros half orc g t. unfold WktM.read.
  assert (G : gate t (with_zm [LZ] (write orc None g)) = gate t (write orc None g)) by reflexivity.
  rewrite G. destruct (gate t (write orc None g)); [|reflexivity].
  change (w_zm (with_zm [LZ] (write orc None g))) with [LZ].
  change (w_body (with_zm [LZ] (write orc None g))) with (w_body (write orc None g)).
  rewrite parse_body_LZ. destruct g; reflexivity.
Qed.

Section ShapelyZ.
Variable shapely : wkt -> wkt.
(* geometry with Z: CONTRACT premise = same keyword and coordinate tuples, Z marker added *)
Lemma gpd_geometry_roundtrip_z : forall half orc g t,
  kind_tag g = Some t -> wkt_wf half g ->
  shapely (write orc None g) = with_zm [LZ] (write orc None g) ->
  WktM.read half t (shapely (write orc None g)) = Ok g.
Proof. intros half orc g t K W E. rewrite E, read_LZ. apply wkt_roundtrip; assumption. Qed.
End ShapelyZ.

(* D41 (repaired): Shapely 2 writes MULTIPOINT ((x y), (x y)) - one parenthesised coordinate per point -
   (with the Z marker for three-dimensional points); after the repair the reader accepts that form
   and returns the same multipoint as for the library's own flat text *)
Lemma gpd_multipoint_roundtrip : forall half (orc : oracle) cs zm,
  zm = [] \/ zm = [LZ] -> wkt_wf half (GMPoint cs) ->
  WktM.read half TMPoint (mkwkt (Some TMPoint) true zm (W2 (map (fun c => [tuple_of c]) cs))) = Ok (GMPoint cs).
Proof.
  intros half orc cs zm Hz W.
  replace (map (fun c => [tuple_of c]) cs) with (map (fun t : tuple => [t]) (wring cs))
    by (unfold wring; rewrite map_map; reflexivity).
  rewrite multipoint_nested_reads.
  destruct Hz as [-> | ->].
  - change (mkwkt (Some TMPoint) true [] (W1 (wring cs))) with (write orc None (GMPoint cs)).
    apply wkt_roundtrip; [reflexivity|exact W].
  - change (mkwkt (Some TMPoint) true [LZ] (W1 (wring cs))) with (with_zm [LZ] (write orc None (GMPoint cs))).
    rewrite read_LZ. apply wkt_roundtrip; [reflexivity|exact W].
Qed.

Lemma shapely_multipoint_reads : forall half (orc : oracle) cs,
  wkt_wf half (GMPoint cs) -> WktM.read half TMPoint (shapely_multipoint cs) = Ok (GMPoint cs).
Proof. intros half orc cs W. unfold shapely_multipoint. apply (gpd_multipoint_roundtrip half orc); [left; reflexivity|exact W]. Qed.

(* ====================== (g) KML ====================== *)

Lemma kml_time_roundtrip : forall a b, a <= b ->
  from_fastkml_time (to_fastkml_time (a, b)) = Ok (a, b).
Proof.
  intros a b H. unfold to_fastkml_time. cbn [fst snd].
  destruct (a =? b) eqn:E; cbn.
  - f_equal. f_equal. lia.
  - destruct (b <? a) eqn:F; [lia|reflexivity].
Qed.

(* instants are written as TimeStamp, proper intervals as TimeSpan *)
Lemma kml_time_kind : forall a b,
  (a = b -> to_fastkml_time (a, b) = KStamp a) /\ (a <> b -> to_fastkml_time (a, b) = KSpan a b).
Proof.
  intros a b. unfold to_fastkml_time. cbn [fst snd]. split; intros H.
  - subst. rewrite Z.eqb_refl. reflexivity.
  - destruct (a =? b) eqn:E; [lia|reflexivity].
Qed.

Definition clean_strings (p : dict) : Prop :=
  Forall (fun kv => exists s, snd kv = JStr s /\ s <> EmptyString) p.

Lemma kml_data_clean : forall p, clean_strings p -> kml_data p = Ok p.
Proof.
  induction p as [|[k v] p IH]; intros H; [reflexivity|].
  inversion H as [|? ? (s & E & N) Hr]; subst. cbn in E. subst v.
  specialize (IH Hr). destruct s as [|c s]; [contradiction|].
  cbn [kml_data kml_value falsy]. rewrite IH. reflexivity.
Qed.

(* a property value that is not a string (and not falsy) makes the writer raise *)
Lemma kml_nonstring_refuted : forall orc g dt k n, n <> 0 ->
  to_placemark orc (mkshape g dt [(k, JInt n)]) = Err OtherError.
Proof.
  intros orc g dt k n H. unfold to_placemark. cbn [sprops kml_data]. unfold kml_value. cbn [falsy].
  destruct (n =? 0) eqn:E; [lia|reflexivity].
Qed.

Lemma pre_geom_coords : forall half kd d C, jget "coordinates" d = Some C ->
  pre_geom half kd d = pre_geom half kd [("type", JNull); ("coordinates", C)].
Proof.
  intros half kd d C H. destruct kd; unfold pre_geom, coords_or_empty; rewrite H; reflexivity.
Qed.

Lemma from_bare_geometry : forall half kd d t C,
  jget "type" d = Some (JStr t) -> jget "coordinates" d = Some C -> jget "properties" d = None ->
  String.eqb t (kind_name kd) = true ->
  from_geojson half kd (JObj d) =
  match pre_geom half kd [("type", JStr t); ("coordinates", C)] with
  | Err e => Err e
  | Ok gm => match post_geom half kd gm with
             | Err e => Err e
             | Ok gm' => Ok (mkshape gm' None [], JObj d)
             end
  end.
Proof.
  intros half kd d t C Ht Hc Hp Hk. unfold from_geojson, from_geojson_gen, geom_member, has_key.
  rewrite Hc, Ht, Hk. cbn [negb]. rewrite Hp.
  rewrite (pre_geom_coords half kd d C Hc).
  rewrite (pre_geom_coords half kd [("type", JStr t); ("coordinates", C)] C) by reflexivity.
  destruct (pre_geom half kd [("type", JNull); ("coordinates", C)]); [|reflexivity].
  cbn. destruct (post_geom half kd g); reflexivity.
Qed.

Lemma kind_of_name_type : forall g kd, kind_of g = Some kd -> kind_of_name (geom_type g) = Some kd.
Proof. intros g kd K. destruct g; cbn in K; inversion K; subst; vm_compute; reflexivity. Qed.

Section KmlCodec.
(* fastkml / pygeoif as a black box: the geo-interface document the placemark's geometry
   returns (pygeoif adds a 'bbox' member), the time object, the extended data *)
Variable geo_of : json -> json.
Variable time_of : ktime -> ktime.
Variable data_of : dict -> dict.

Definition kml_codec (pm : placemark) : placemark :=
  mkpm (geo_of (pm_geo pm)) (option_map time_of (pm_times pm)) (data_of (pm_data pm)).

(* CONTRACT on one placemark: the geometry document keeps type and coordinates and has no
   'properties' member; times and data are unchanged *)
Definition kml_contract (pm : placemark) : Prop :=
  (exists d d0, pm_geo pm = JObj d0 /\ geo_of (pm_geo pm) = JObj d /\
     jget "type" d = jget "type" d0 /\ jget "coordinates" d = jget "coordinates" d0 /\
     jget "properties" d = None) /\
  (forall k, pm_times pm = Some k -> time_of k = k) /\
  data_of (pm_data pm) = pm_data pm.

Lemma kml_roundtrip : forall half orc folder s kd pm,
  kind_of (sgeom s) = Some kd -> geom_wf half (sgeom s) -> dt_wf (sdt s) -> clean_strings (sprops s) ->
  to_placemark orc s = Ok pm -> kml_contract pm ->
  kml_read_placemark half folder (kml_codec pm) =
  Ok (mkshape (sgeom s) (sdt s)
              (match sprops s with [] => [] | _ => dset "sub_folder_0" (JStr folder) (sprops s) end)).
Proof.
  intros half orc folder [g dt p] kd pm K W Hw Hc Hpm ((d & d0 & G0 & G & Gt & Gc & Gp) & Tm & Dt).
  cbn [sgeom sdt sprops] in *. unfold to_placemark in Hpm. cbn [sprops sgeom sdt] in Hpm.
  rewrite kml_data_clean in Hpm by exact Hc. inversion Hpm; subst pm; clear Hpm.
  cbn [pm_geo pm_times pm_data] in *.
  destruct (pre_post_geom half orc None g kd K W) as (C & EG & gm & Epre & Epost).
  rewrite EG in G0. inversion G0; subst d0; clear G0.
  cbn [jget String.eqb Ascii.eqb Bool.eqb] in Gt, Gc.
  unfold kml_read_placemark, kml_codec. cbn [pm_geo pm_times pm_data]. rewrite G, Gt.
  rewrite (kind_of_name_type g kd K).
  assert (Et : match option_map time_of (option_map to_fastkml_time dt) with
               | None => Ok None
               | Some k => match from_fastkml_time k with Ok d1 => Ok (Some d1) | Err e => Err e end
               end = Ok dt).
  { destruct dt as [[a b]|]; [|reflexivity]. cbn [option_map].
    rewrite (Tm (to_fastkml_time (a, b)) eq_refl). rewrite kml_time_roundtrip by exact Hw. reflexivity. }
  rewrite Et.
  rewrite (from_bare_geometry half kd d (geom_type g) C Gt Gc Gp)
    by (rewrite (geom_type_kind g kd K); apply String.eqb_refl).
  rewrite Epre, Epost. cbn [sgeom]. rewrite Dt. reflexivity.
Qed.
End KmlCodec.

(* D43: the folder name is injected as 'sub_folder_0', but only into shapes that already have a property *)
Lemma kml_subfolder_refuted :
  exists pm s, kml_read_placemark 720 "f" pm = Ok s /\ pm_data pm = [("a", JStr "x")] /\
               sprops s = [("a", JStr "x"); ("sub_folder_0", JStr "f")].
Proof.
  exists (mkpm (geometry noorc None pt0) None [("a", JStr "x")]). eexists. vm_compute. repeat split.
Qed.

(* the folder level keeps the order of the collection: both directions are maps *)
Lemma mapM_length {A B} (f : A -> res B) : forall l l', mapM f l = Ok l' -> length l' = length l.
Proof.
  induction l as [|a l IH]; intros l' H; cbn in H.
  - inversion H. reflexivity.
  - destruct (f a); [|discriminate]. destruct (mapM f l) eqn:E; [|discriminate].
    inversion H. cbn. f_equal. apply IH. reflexivity.
Qed.

Lemma mapM_nth {A B} (f : A -> res B) : forall l l' n a, mapM f l = Ok l' -> nth_error l n = Some a ->
  exists b, nth_error l' n = Some b /\ f a = Ok b.
Proof.
  induction l as [|x l IH]; intros l' n a H Hn; [destruct n; discriminate|].
  cbn in H. destruct (f x) eqn:Fx; [|discriminate]. destruct (mapM f l) eqn:E; [|discriminate].
  inversion H; subst l'. destruct n as [|n]; cbn in *.
  - inversion Hn; subst. eexists. split; [reflexivity|exact Fx].
  - eapply IH; [reflexivity|exact Hn].
Qed.

Lemma folder_order_kept : forall orc l pms n s,
  to_folder orc l = Ok pms -> nth_error l n = Some s ->
  exists pm, nth_error pms n = Some pm /\ to_placemark orc s = Ok pm.
Proof. intros orc l pms n s H Hn. eapply mapM_nth; eassumption. Qed.
