(* Proofs about the model of the text formats (FormatM.v): rounding, DMS split/join. *)
From Coq Require Import QArith Qround Qabs Lqa String Ascii.
From GV Require Import Prelude CoordM CoordP FormatM.
Open Scope Q_scope.

(* ------------------------------------------------------------------ rounding *)
Lemma floor_bounds s : inject_Z (Qfloor s) <= s /\ s < inject_Z (Qfloor s) + 1.
Proof.
  split; [apply Qfloor_le|]. pose proof (Qlt_floor s) as H.
  rewrite inject_Z_plus in H. exact H.
Qed.

(* round(v, p) is within half a unit of v * 10^p *)
Lemma round_even_k_spec v p :
  inject_Z (round_even_k v p) - (1 # 2) <= v * p10 p /\
  v * p10 p <= inject_Z (round_even_k v p) + (1 # 2).
Proof.
  unfold round_even_k. set (s := v * p10 p).
  destruct (floor_bounds s) as [L U].
  destruct (Qcompare_spec (s - inject_Z (Qfloor s)) (1 # 2)) as [E|E|E].
  - destruct (Z.even (Qfloor s)); [|rewrite inject_Z_plus; change (inject_Z 1) with 1]; lra.
  - lra.
  - rewrite inject_Z_plus. change (inject_Z 1) with 1. lra.
Qed.

Lemma inject_Z_le_inv a b : inject_Z a <= inject_Z b -> (a <= b)%Z.
Proof. intro H. now rewrite Zle_Qle. Qed.

Lemma inject_Z_lt_inv a b : inject_Z a < inject_Z b -> (a < b)%Z.
Proof. intro H. now rewrite Zlt_Qlt. Qed.

(* an integer within half a unit below/above rational bounds *)
Lemma int_between k (lo hi : Z) x :
  inject_Z k - (1 # 2) <= x -> x <= inject_Z k + (1 # 2) ->
  inject_Z lo - (1 # 2) < x -> x < inject_Z hi + (1 # 2) -> (lo <= k <= hi)%Z.
Proof.
  intros A B C D. split.
  - assert (inject_Z lo < inject_Z k + 1) as H by lra.
    change 1 with (inject_Z 1) in H. rewrite <- inject_Z_plus in H.
    apply inject_Z_lt_inv in H. lia.
  - assert (inject_Z k < inject_Z hi + 1) as H by lra.
    change 1 with (inject_Z 1) in H. rewrite <- inject_Z_plus in H.
    apply inject_Z_lt_inv in H. lia.
Qed.

Lemma p10_5 : p10 5 == 100000.   Proof. reflexivity. Qed.
Lemma p10_2 : p10 2 == 100.      Proof. reflexivity. Qed.
Lemma p10_6 : p10 6 == 1000000.  Proof. reflexivity. Qed.
Lemma ip10_17 : / p10 (5 + 12) == 1 # 100000000000000000.  Proof. reflexivity. Qed.
Lemma ip10_14 : / p10 (2 + 12) == 1 # 100000000000000.     Proof. reflexivity. Qed.
Lemma ip10_18 : / p10 (6 + 12) == 1 # 1000000000000000000. Proof. reflexivity. Qed.

(* round_half_up(v, 5): the chosen decimal k/10^5 is within 0.5e-5 + 1e-17 of v *)
Lemma rhu5_spec v :
  inject_Z (rhu_k v 5) - (1 # 2) <= (v + (1 # 100000000000000000)) * 100000 /\
  (v + (1 # 100000000000000000)) * 100000 <= inject_Z (rhu_k v 5) + (1 # 2).
Proof.
  unfold rhu_k. pose proof (round_even_k_spec (v + / p10 (5 + 12)) 5) as H.
  exact H.
Qed.

Lemma rhu2_spec v :
  inject_Z (rhu_k v 2) - (1 # 2) <= (v + (1 # 100000000000000)) * 100 /\
  (v + (1 # 100000000000000)) * 100 <= inject_Z (rhu_k v 2) + (1 # 2).
Proof.
  unfold rhu_k. pose proof (round_even_k_spec (v + / p10 (2 + 12)) 2) as H.
  exact H.
Qed.

Lemma rhu6_spec v :
  inject_Z (rhu_k v 6) - (1 # 2) <= (v + (1 # 1000000000000000000)) * 1000000 /\
  (v + (1 # 1000000000000000000)) * 1000000 <= inject_Z (rhu_k v 6) + (1 # 2).
Proof.
  unfold rhu_k. pose proof (round_even_k_spec (v + / p10 (6 + 12)) 6) as H.
  exact H.
Qed.

(* ------------------------------------------------------------------ DMS split *)
(* the split of x = |dd| * 3600 seconds is exact: x = 3600 d + 60 m + sec, 0 <= sec < 60,
   0 <= m < 60, and the reported seconds are round_half_up(sec, 5) *)
Lemma dms_of_x_decomp x ps : 0 <= x ->
  exists sec, 0 <= sec /\ sec < 60 /\
    x == 3600 * inject_Z (dg (dms_of_x x ps)) + 60 * inject_Z (mn (dms_of_x x ps)) + sec /\
    s5 (dms_of_x x ps) = rhu_k sec 5 /\
    (0 <= dg (dms_of_x x ps))%Z /\ (0 <= mn (dms_of_x x ps) < 60)%Z /\ pos (dms_of_x x ps) = ps.
Proof.
  intro Hx. unfold dms_of_x. cbn [dg mn s5 pos].
  set (y := x / 60). assert (Hy : x == 60 * y) by (unfold y; field).
  set (mt := Qfloor y).
  destruct (floor_bounds y) as [L U]. fold mt in L, U.
  assert (Hmt : (0 <= mt)%Z).
  { change 0%Z with (Qfloor 0). apply Qfloor_resp_le. lra. }
  pose proof (Z.div_mod mt 60 ltac:(lia)) as DM.
  pose proof (Z.mod_pos_bound mt 60 ltac:(lia)) as MB.
  assert (HQ : inject_Z mt == 60 * inject_Z (mt / 60) + inject_Z (mt mod 60)).
  { rewrite DM at 1. rewrite inject_Z_plus, inject_Z_mult. reflexivity. }
  exists (x - 60 * inject_Z mt). repeat split; try lra; try lia.
Qed.

Lemma s5_range sec : 0 <= sec -> sec < 60 -> (0 <= rhu_k sec 5 <= 6000000)%Z.
Proof.
  intros A B. destruct (rhu5_spec sec) as [L U].
  eapply int_between; [exact L|exact U| |]; unfold inject_Z; lra.
Qed.

(* to_dms, one axis: ranges, the degrees are the integer part of |dd|, hemisphere <-> sign *)
Lemma dms_ranges dd :
  let t := to_dms_axis dd in
  (0 <= mn t < 60)%Z /\ (0 <= s5 t <= 6000000)%Z /\
  (inject_Z (dg t) <= Qabs dd /\ Qabs dd < inject_Z (dg t) + 1) /\
  (pos t = true <-> 0 <= dd).
Proof.
  cbv zeta. unfold to_dms_axis.
  assert (Hx : 0 <= Qabs dd * 3600).
  { pose proof (Qabs_nonneg dd). lra. }
  destruct (dms_of_x_decomp _ (Qle_bool 0 dd) Hx) as (sec & S0 & S1 & E & ES & D0 & M & P).
  set (t := dms_of_x (Qabs dd * 3600) (Qle_bool 0 dd)) in *.
  split; [exact M|]. split; [rewrite ES; now apply s5_range|].
  assert (M1 : 0 <= inject_Z (mn t) /\ inject_Z (mn t) <= 59).
  { split; [change 0 with (inject_Z 0)|change 59 with (inject_Z 59)]; rewrite <- Zle_Qle; lia. }
  split; [split; lra|]. rewrite P. apply Qle_bool_iff.
Qed.

(* the seconds value 60.0 does occur (rounding up is not carried into the minutes) *)
Lemma dms_seconds_60_reachable : exists dd, s5 (to_dms_axis dd) = 6000000%Z /\ mn (to_dms_axis dd) = 59%Z.
Proof. exists (9999999999 # 10000000000). split; reflexivity. Qed.

(* ------------------------------------------------------------------ DMS join and round trip *)
(* half a unit of the fifth decimal of a second plus round_half_up's own nudge, in degrees *)
Definition dms_eps : Q := (1 # 720000000) + (1 # 360000000000000000000).
Lemma dms_eps_is : dms_eps == ((1 # 200000) + (1 # 100000000000000000)) / 3600.
Proof. reflexivity. Qed.

Lemma dms_num_unfold t :
  dms_num t * 3600 ==
  (if pos t then 1 else -1) *
  (3600 * inject_Z (dg t) + 60 * inject_Z (mn t) + inject_Z (s5 t) / 100000).
Proof.
  unfold dms_num, dms_value. change (p10 5) with 100000. destruct (pos t); field.
Qed.

Lemma Qabs_cases x : (0 <= x /\ Qabs x == x) \/ (x < 0 /\ Qabs x == - x).
Proof.
  destruct (Qlt_le_dec x 0) as [L|L].
  - right. split; [exact L|]. apply Qabs_neg. lra.
  - left. split; [exact L|]. now apply Qabs_pos.
Qed.

Lemma Qle_bool_0_cases dd :
  (0 <= dd /\ Qle_bool 0 dd = true) \/ (dd < 0 /\ Qle_bool 0 dd = false).
Proof.
  destruct (Qle_bool 0 dd) eqn:E.
  - left. split; [now apply Qle_bool_iff|reflexivity].
  - right. split; [now apply Qle_bool_false|reflexivity].
Qed.

(* from_dms's number for to_dms's tuple is within dms_eps of the value, on each axis, for
   every rational value *)
Lemma dms_axis_roundtrip dd :
  - dms_eps <= dms_num (to_dms_axis dd) - dd /\ dms_num (to_dms_axis dd) - dd <= dms_eps.
Proof.
  unfold to_dms_axis.
  assert (Hx : 0 <= Qabs dd * 3600).
  { pose proof (Qabs_nonneg dd). lra. }
  destruct (dms_of_x_decomp _ (Qle_bool 0 dd) Hx) as (sec & S0 & S1 & E & ES & D0 & M & P).
  pose proof (dms_num_unfold (dms_of_x (Qabs dd * 3600) (Qle_bool 0 dd))) as U.
  set (t := dms_of_x (Qabs dd * 3600) (Qle_bool 0 dd)) in *.
  rewrite P in U. destruct (rhu5_spec sec) as [RL RU]. rewrite <- ES in RL, RU.
  set (k := inject_Z (s5 t)) in *. set (s' := k / 100000) in *.
  assert (Hs : s' * 100000 == k) by (unfold s'; field).
  unfold dms_eps.
  destruct (Qabs_cases dd) as [[A EA]|[A EA]];
    destruct (Qle_bool_0_cases dd) as [[B EB]|[B EB]]; try lra;
    rewrite EB in U; rewrite EA in E; split; lra.
Qed.

(* |dd| <= B (an integer number of degrees) keeps from_dms's number within [-B, B]:
   rounding the seconds up to 60 never carries past the next whole degree *)
Lemma dms_num_bound dd (B : Z) : Qabs dd <= inject_Z B ->
  - inject_Z B <= dms_num (to_dms_axis dd) /\ dms_num (to_dms_axis dd) <= inject_Z B.
Proof.
  intro HB. unfold to_dms_axis.
  assert (Hx : 0 <= Qabs dd * 3600).
  { pose proof (Qabs_nonneg dd). lra. }
  destruct (dms_of_x_decomp _ (Qle_bool 0 dd) Hx) as (sec & S0 & S1 & E & ES & D0 & M & P).
  pose proof (dms_num_unfold (dms_of_x (Qabs dd * 3600) (Qle_bool 0 dd))) as U.
  set (t := dms_of_x (Qabs dd * 3600) (Qle_bool 0 dd)) in *.
  pose proof (s5_range sec S0 S1) as KR. rewrite <- ES in KR.
  destruct (rhu5_spec sec) as [RL RU]. rewrite <- ES in RL, RU.
  assert (M1 : 0 <= inject_Z (mn t) /\ inject_Z (mn t) <= 59).
  { split; [change 0 with (inject_Z 0)|change 59 with (inject_Z 59)]; rewrite <- Zle_Qle; lia. }
  assert (K1 : 0 <= inject_Z (s5 t) /\ inject_Z (s5 t) <= 6000000).
  { split; [change 0 with (inject_Z 0)|change 6000000 with (inject_Z 6000000)]; rewrite <- Zle_Qle; lia. }
  assert (D1 : 0 <= inject_Z (dg t)).
  { change 0 with (inject_Z 0). rewrite <- Zle_Qle. exact D0. }
  (* the non-negative magnitude V = d + m/60 + s'/3600 is at most B *)
  assert (HV : 3600 * inject_Z (dg t) + 60 * inject_Z (mn t) + inject_Z (s5 t) / 100000
               <= 3600 * inject_Z B).
  { set (k := inject_Z (s5 t)) in *. set (s' := k / 100000).
    assert (Hs : s' * 100000 == k) by (unfold s'; field).
    assert (DB : (dg t <= B)%Z).
    { apply inject_Z_le_inv. lra. }
    destruct (Z.eq_dec (dg t) B) as [EQ|NE].
    - (* d = B: then m = 0 and sec = 0, so the rounded seconds are 0 *)
      rewrite EQ in *.
      assert (M0 : inject_Z (mn t) == 0) by lra.
      assert (S00 : sec == 0) by lra.
      assert (K0 : (0 <= s5 t <= 0)%Z).
      { eapply int_between; [exact RL|exact RU| |]; unfold inject_Z; lra. }
      assert (k == 0) as K00. { unfold k. replace (s5 t) with 0%Z by lia. reflexivity. }
      lra.
    - assert (DB' : (dg t + 1 <= B)%Z) by lia.
      rewrite Zle_Qle in DB'. rewrite inject_Z_plus in DB'. change (inject_Z 1) with 1 in DB'.
      lra. }
  assert (HV0 : 0 <= 3600 * inject_Z (dg t) + 60 * inject_Z (mn t) + inject_Z (s5 t) / 100000).
  { set (k := inject_Z (s5 t)) in *. set (s' := k / 100000).
    assert (Hs : s' * 100000 == k) by (unfold s'; field). lra. }
  destruct (pos t); split; lra.
Qed.

Lemma Qabs_le_of x b : - b <= x -> x <= b -> Qabs x <= b.
Proof. intros A B. apply Qabs_Qle_condition. split; assumption. Qed.

Definition canonical (c : coord) : Prop :=
  (-180 <= clon c /\ clon c < 180) /\ (-90 <= clat c /\ clat c <= 90).

Definition within (eps a b : Q) : Prop := - eps <= a - b /\ a - b <= eps.

(* from_dms (to_dms c) for a stored (canonical) coordinate: never fails, latitude within
   dms_eps, longitude within dms_eps - modulo the full turn when the seconds round up to
   180 degrees exactly and the constructor maps 180 to -180 *)
Lemma dms_roundtrip c : canonical c ->
  exists c', from_dms (fst (to_dms c)) (snd (to_dms c)) = Ok c' /\
    within dms_eps (clat c') (clat c) /\
    (within dms_eps (clon c') (clon c) \/ within dms_eps (clon c' + 360) (clon c)).
Proof.
  intros [[L1 L2] [B1 B2]]. unfold to_dms, from_dms, mk. cbn [fst snd].
  destruct (dms_num_bound (clon c) 180) as [A1 A2].
  { apply Qabs_le_of; unfold inject_Z; lra. }
  destruct (dms_num_bound (clat c) 90) as [A3 A4].
  { apply Qabs_le_of; unfold inject_Z; lra. }
  unfold inject_Z in A1, A2, A3, A4.
  rewrite norm_closed_range by lra.
  eexists. split; [reflexivity|]. cbn [clon clat].
  destruct (dms_axis_roundtrip (clon c)) as [R1 R2].
  destruct (dms_axis_roundtrip (clat c)) as [R3 R4].
  split; [split; assumption|].
  destruct (canon180_cases (dms_num (to_dms_axis (clon c))) A2) as [[H ->]|[H ->]].
  - left. split; assumption.
  - right. split; lra.
Qed.

(* the same bound stated on the seconds count x itself (x is what the float code actually
   splits: the float product abs(dd)*3600, within half an ulp of the exact product) *)
Lemma dms_of_x_roundtrip x : 0 <= x ->
  - dms_eps <= dms_num (dms_of_x x true) - x / 3600 /\
  dms_num (dms_of_x x true) - x / 3600 <= dms_eps.
Proof.
  intro Hx.
  destruct (dms_of_x_decomp _ true Hx) as (sec & S0 & S1 & E & ES & D0 & M & P).
  pose proof (dms_num_unfold (dms_of_x x true)) as U.
  set (t := dms_of_x x true) in *.
  rewrite P in U. destruct (rhu5_spec sec) as [RL RU]. rewrite <- ES in RL, RU.
  set (k := inject_Z (s5 t)) in *. set (s' := k / 100000) in *.
  assert (Hs : s' * 100000 == k) by (unfold s'; field).
  set (y := x / 3600). assert (Hy : y * 3600 == x) by (unfold y; field).
  unfold dms_eps. split; lra.
Qed.
