(* Proofs about the model of the text formats (FormatM.v): rounding, DMS split/join. *)
From Coq Require Import QArith Qround Qabs Lqa String Ascii.
From GV Require Import Prelude CoordM CoordP FormatM.
Open Scope Q_scope.

(* ------------------------------------------------------------------ rounding *)
Lemma floor_bounds s : inject_Z (Qfloor s) <= s /\ s < inject_Z (Qfloor s) + 1.
Proof.
  split; [apply Qfloor_le|]. pose proof (Qlt_floor s) as H.
  rewrite inject_Z_plus in H. exact H.
Qed.

(* round(v, p) is within half a unit of v * 10^p *)
Lemma round_even_k_spec v p :
  inject_Z (round_even_k v p) - (1 # 2) <= v * p10 p /\
  v * p10 p <= inject_Z (round_even_k v p) + (1 # 2).
Proof.
  unfold round_even_k. set (s := v * p10 p).
  destruct (floor_bounds s) as [L U].
  destruct (Qcompare_spec (s - inject_Z (Qfloor s)) (1 # 2)) as [E|E|E].
  - destruct (Z.even (Qfloor s)); [|rewrite inject_Z_plus; change (inject_Z 1) with 1]; lra.
  - lra.
  - rewrite inject_Z_plus. change (inject_Z 1) with 1. lra.
Qed.

Lemma inject_Z_le_inv a b : inject_Z a <= inject_Z b -> (a <= b)%Z.
Proof. intro H. now rewrite Zle_Qle. Qed.

Lemma inject_Z_lt_inv a b : inject_Z a < inject_Z b -> (a < b)%Z.
Proof. intro H. now rewrite Zlt_Qlt. Qed.

(* an integer within half a unit below/above rational bounds *)
Lemma int_between k (lo hi : Z) x :
  inject_Z k - (1 # 2) <= x -> x <= inject_Z k + (1 # 2) ->
  inject_Z lo - (1 # 2) < x -> x < inject_Z hi + (1 # 2) -> (lo <= k <= hi)%Z.
Proof.
  intros A B C D. split.
  - assert (inject_Z lo < inject_Z k + 1) as H by lra.
    change 1 with (inject_Z 1) in H. rewrite <- inject_Z_plus in H.
    apply inject_Z_lt_inv in H. lia.
  - assert (inject_Z k < inject_Z hi + 1) as H by lra.
    change 1 with (inject_Z 1) in H. rewrite <- inject_Z_plus in H.
    apply inject_Z_lt_inv in H. lia.
Qed.

Lemma p10_5 : p10 5 == 100000.   Proof. reflexivity. Qed.
Lemma p10_2 : p10 2 == 100.      Proof. reflexivity. Qed.
Lemma p10_6 : p10 6 == 1000000.  Proof. reflexivity. Qed.
Lemma ip10_17 : / p10 (5 + 12) == 1 # 100000000000000000.  Proof. reflexivity. Qed.
Lemma ip10_14 : / p10 (2 + 12) == 1 # 100000000000000.     Proof. reflexivity. Qed.
Lemma ip10_18 : / p10 (6 + 12) == 1 # 1000000000000000000. Proof. reflexivity. Qed.

(* round_half_up(v, 5): the chosen decimal k/10^5 is within 0.5e-5 + 1e-17 of v *)
Lemma rhu5_spec v :
  inject_Z (rhu_k v 5) - (1 # 2) <= (v + (1 # 100000000000000000)) * 100000 /\
  (v + (1 # 100000000000000000)) * 100000 <= inject_Z (rhu_k v 5) + (1 # 2).
Proof.
  unfold rhu_k. pose proof (round_even_k_spec (v + / p10 (5 + 12)) 5) as H.
  rewrite p10_5, ip10_17 in H. exact H.
Qed.

Lemma rhu2_spec v :
  inject_Z (rhu_k v 2) - (1 # 2) <= (v + (1 # 100000000000000)) * 100 /\
  (v + (1 # 100000000000000)) * 100 <= inject_Z (rhu_k v 2) + (1 # 2).
Proof.
  unfold rhu_k. pose proof (round_even_k_spec (v + / p10 (2 + 12)) 2) as H.
  rewrite p10_2, ip10_14 in H. exact H.
Qed.

Lemma rhu6_spec v :
  inject_Z (rhu_k v 6) - (1 # 2) <= (v + (1 # 1000000000000000000)) * 1000000 /\
  (v + (1 # 1000000000000000000)) * 1000000 <= inject_Z (rhu_k v 6) + (1 # 2).
Proof.
  unfold rhu_k. pose proof (round_even_k_spec (v + / p10 (6 + 12)) 6) as H.
  rewrite p10_6, ip10_18 in H. exact H.
Qed.
