(* C01, part C: the even-odd interior is the geometric interior for EVERY strictly convex
   counter-clockwise ring (all integers, any number of vertices).

   Convexity hypothesis [ccw3 r]: every three vertices taken in list order turn strictly left
   (0 < cross a b c) - the order-type definition of "in strictly convex position, listed
   counter-clockwise"; it is inherited by sub-lists, which is what the induction needs.

   Main theorem [convex_par], for EVERY query point p (boundary included):
       par (east_z p) (cyc_edges r) = forallb (lpos p) (cyc_edges r)
   i.e. the half-open crossing count says "inside" exactly when the infinitesimally shifted point
   p + (d, e) (0 < e << d) is strictly left of every edge.  Proof: ear removal
   a::b::c::rest -> a::c::rest; the diagonal (a,c) is counted in the triangle and in the rest
   and cancels (east_z is symmetric), the triangle is GeomP6.tri_par, and the two geometric facts
   "shifted p in the rest => left of ab and bc" / "shifted p in the ear => left of the rest's
   edges" are barycentric identities, used lexicographically on (value, d-part, e-part).
   Corollary [convex_strict_in]: strict_in p r <-> p strictly left of every edge. *)
From Coq Require Import Permutation.
From GV Require Import Prelude GeomM GeomP GeomP2 GeomP3 GeomP4 GeomP6.
Open Scope Z_scope.

(* ------------------------------------------------------------------ lexicographic positivity *)

(* the sign of  s + m*d + n*e  for infinitesimals 0 < e << d << 1 *)
Definition Lp3 (s m n : Z) : Prop := 0 < s \/ (s = 0 /\ (0 < m \/ (m = 0 /\ 0 < n))).

Lemma comb_nonneg K s k1 s1 k2 s2 k3 s3 : 0 < K -> K * s = k1 * s1 + k2 * s2 + k3 * s3 ->
  0 <= k1 -> 0 < k2 -> 0 <= k3 -> 0 <= s1 -> 0 <= s2 -> 0 <= s3 ->
  0 <= s /\ (0 < s2 -> 0 < s) /\ (s = 0 -> k1 * s1 = 0 /\ s2 = 0 /\ k3 * s3 = 0).
Proof.
  intros HK E H1 H2 H3 G1 G2 G3.
  assert (0 <= k1 * s1) by (apply Z.mul_nonneg_nonneg; lia).
  assert (0 <= k2 * s2) by (apply Z.mul_nonneg_nonneg; lia).
  assert (0 <= k3 * s3) by (apply Z.mul_nonneg_nonneg; lia).
  assert (0 <= K * s) by lia.
  assert (0 <= s) by nia.
  split; [assumption|]. split.
  - intros. assert (0 < k2 * s2) by (apply Z.mul_pos_pos; lia). nia.
  - intros ->. rewrite Z.mul_0_r in E. assert (k2 * s2 = 0) by lia. nia.
Qed.

Lemma lex_comb3 K k1 k2 k3 s m n s1 m1 n1 s2 m2 n2 s3 m3 n3 :
  0 < K -> 0 <= k1 -> 0 < k2 -> 0 <= k3 ->
  K * s = k1 * s1 + k2 * s2 + k3 * s3 ->
  K * m = k1 * m1 + k2 * m2 + k3 * m3 ->
  K * n = k1 * n1 + k2 * n2 + k3 * n3 ->
  Lp3 s1 m1 n1 -> Lp3 s2 m2 n2 -> Lp3 s3 m3 n3 -> Lp3 s m n.
Proof.
  intros HK H1 H2 H3 Es Em En L1 L2 L3.
  (* a zero coefficient makes its vector irrelevant: replace it by the second one *)
  assert (W : forall k' s' m' n', 0 <= k' -> Lp3 s' m' n' ->
            exists s'' m'' n'', Lp3 s'' m'' n'' /\ k' * s' = k' * s'' /\ k' * m' = k' * m'' /\ k' * n' = k' * n'' /\
                                (k' = 0 -> s'' = s2 /\ m'' = m2 /\ n'' = n2)).
  { intros k' s' m' n' Hk HL. destruct (Z.eq_dec k' 0) as [->|Hne].
    - exists s2, m2, n2. repeat split; auto.
    - exists s', m', n'. repeat split; auto; lia. }
  destruct (W k1 s1 m1 n1 H1 L1) as (s1' & m1' & n1' & L1' & A1 & A2 & A3 & A4).
  destruct (W k3 s3 m3 n3 H3 L3) as (s3' & m3' & n3' & L3' & B1 & B2 & B3 & B4).
  rewrite A1, B1 in Es. rewrite A2, B2 in Em. rewrite A3, B3 in En.
  clear L1 L3 A1 A2 A3 B1 B2 B3 W s1 m1 n1 s3 m3 n3.
  unfold Lp3 in *.
  assert (0 <= s1') by lia. assert (0 <= s2) by lia. assert (0 <= s3') by lia.
  destruct (comb_nonneg K s k1 s1' k2 s2 k3 s3' HK Es) as (P1 & P2 & P3); [lia..|].
  destruct (Z.eq_dec s 0) as [Z0|]; [|left; lia]. right. split; [assumption|].
  destruct (P3 Z0) as (Q1 & Q2 & Q3).
  assert (S1 : k1 = 0 \/ s1' = 0) by (apply Z.mul_eq_0; assumption).
  assert (S3 : k3 = 0 \/ s3' = 0) by (apply Z.mul_eq_0; assumption).
  assert (s1' = 0) by (destruct S1 as [S1|S1]; [apply A4 in S1|]; lia).
  assert (s3' = 0) by (destruct S3 as [S3|S3]; [apply B4 in S3|]; lia).
  assert (0 <= m1') by lia. assert (0 <= m2) by lia. assert (0 <= m3') by lia.
  destruct (comb_nonneg K m k1 m1' k2 m2 k3 m3' HK Em) as (P1' & P2' & P3'); [lia..|].
  destruct (Z.eq_dec m 0) as [Z1|]; [|left; lia]. right. split; [assumption|].
  destruct (P3' Z1) as (Q1' & Q2' & Q3').
  assert (S1' : k1 = 0 \/ m1' = 0) by (apply Z.mul_eq_0; assumption).
  assert (S3' : k3 = 0 \/ m3' = 0) by (apply Z.mul_eq_0; assumption).
  assert (m1' = 0) by (destruct S1' as [S|S]; [apply A4 in S|]; lia).
  assert (m3' = 0) by (destruct S3' as [S|S]; [apply B4 in S|]; lia).
  destruct (comb_nonneg K n k1 n1' k2 n2 k3 n3' HK En) as (P1'' & P2'' & P3''); [lia..|]. apply P2''. lia.
Qed.

Lemma lpos_Lp3 p u v :
  lpos p (u, v) = true <-> Lp3 (cross u v p) (py u - py v) (px v - px u).
Proof. unfold lpos, Lp3. lia. Qed.

(* barycentric identities: value, d-part (shift east), e-part (shift north) *)
Lemma bary_s a b c x y p : cross a b c * cross x y p =
  cross x y a * cross b c p + cross x y b * cross c a p + cross x y c * cross a b p.
Proof. unfold cross. ring. Qed.
Lemma bary_m a b c x y : cross a b c * (py x - py y) =
  cross x y a * (py b - py c) + cross x y b * (py c - py a) + cross x y c * (py a - py b).
Proof. unfold cross. ring. Qed.
Lemma bary_n a b c x y : cross a b c * (px y - px x) =
  cross x y a * (px c - px b) + cross x y b * (px a - px c) + cross x y c * (px b - px a).
Proof. unfold cross. ring. Qed.

(* the shifted point inside the ear a b c is left of every edge that has a, b, c on its left *)
Lemma ear_left p a b c x y : 0 < cross a b c ->
  0 <= cross x y a -> 0 < cross x y b -> 0 <= cross x y c ->
  lpos p (b, c) = true -> lpos p (c, a) = true -> lpos p (a, b) = true -> lpos p (x, y) = true.
Proof.
  intros HD Ka Kb Kc Lb Lc La. apply lpos_Lp3 in Lb, Lc, La. apply lpos_Lp3.
  eapply (lex_comb3 (cross a b c) (cross x y a) (cross x y b) (cross x y c));
    [exact HD|exact Ka|exact Kb|exact Kc|apply bary_s|apply bary_m|apply bary_n|exact Lb|exact Lc|exact La].
Qed.

(* the shifted point in the cone at o between the directions o->u' (edge (o,u') on its left)
   and u->o (edge (u,o) on its left) is left of every line through o that has u and u' on its
   left: the two instances used are the cone at a and the cone at c *)
Lemma cone_a p a b c z : 0 < cross a c z -> 0 < cross a b c -> 0 < cross a b z ->
  lpos p (z, a) = true -> lpos p (a, c) = true -> lpos p (a, b) = true.
Proof.
  intros HK H1 H2 Lz Lc. apply lpos_Lp3 in Lz, Lc. apply lpos_Lp3.
  eapply (lex_comb3 (cross a c z) (cross a b c) (cross a b z) 0);
    [exact HK|lia|exact H2|lia| | | |exact Lz|exact Lc|exact Lc]; unfold cross; ring.
Qed.

Lemma cone_c p a b c d : 0 < cross a c d -> 0 < cross a b c -> 0 < cross b c d ->
  lpos p (c, d) = true -> lpos p (a, c) = true -> lpos p (b, c) = true.
Proof.
  intros HK H1 H2 Ld Lc. apply lpos_Lp3 in Ld, Lc. apply lpos_Lp3.
  eapply (lex_comb3 (cross a c d) (cross a b c) (cross b c d) 0);
    [exact HK|lia|exact H2|lia| | | |exact Ld|exact Lc|exact Lc]; unfold cross; ring.
Qed.

(* ------------------------------------------------------------------ strictly convex position *)

Fixpoint ccw2 (a : pt) (t : list pt) : Prop :=
  match t with
  | [] => True
  | b :: t' => (forall c, In c t' -> 0 < cross a b c) /\ ccw2 a t'
  end.
Fixpoint ccw3 (r : list pt) : Prop :=
  match r with
  | [] => True
  | a :: t => ccw2 a t /\ ccw3 t
  end.

(* what the definition means: every triple in list order turns strictly left *)
Definition ordered_triples_left (r : list pt) : Prop :=
  forall l1 a l2 b l3 c l4, r = l1 ++ a :: l2 ++ b :: l3 ++ c :: l4 -> 0 < cross a b c.

Lemma ccw2_sub a t : ccw2 a t -> forall l2 b l3 c l4, t = l2 ++ b :: l3 ++ c :: l4 -> 0 < cross a b c.
Proof.
  induction t as [|x t IH]; intros H l2 b l3 c l4 E.
  - destruct l2; discriminate.
  - destruct H as [H1 H2]. destruct l2 as [|y l2]; cbn [app] in E; injection E as -> ->.
    + apply H1. apply in_or_app. right. left. reflexivity.
    + eapply IH; eauto.
Qed.

Lemma ccw3_sub r : ccw3 r -> ordered_triples_left r.
Proof.
  unfold ordered_triples_left. induction r as [|x r IH]; intros H l1 a l2 b l3 c l4 E.
  - destruct l1; discriminate.
  - destruct H as [H1 H2]. destruct l1 as [|y l1]; cbn [app] in E; injection E as -> ->.
    + eapply ccw2_sub; eauto.
    + eapply IH; eauto.
Qed.

Lemma ccw2_of_sub a t :
  (forall l2 b l3 c l4, t = l2 ++ b :: l3 ++ c :: l4 -> 0 < cross a b c) -> ccw2 a t.
Proof.
  induction t as [|x t IH]; intros H; [exact I|]. split.
  - intros c Hc. apply in_split in Hc. destruct Hc as (l3 & l4 & ->). apply (H [] x l3 c l4). reflexivity.
  - apply IH. intros l2 b l3 c l4 ->. apply (H (x :: l2) b l3 c l4). reflexivity.
Qed.

Lemma ccw3_of_sub r : ordered_triples_left r -> ccw3 r.
Proof.
  unfold ordered_triples_left. induction r as [|x r IH]; intros H; [exact I|]. split.
  - apply ccw2_of_sub. intros l2 b l3 c l4 ->. apply (H [] x l2 b l3 c l4). reflexivity.
  - apply IH. intros l1 a l2 b l3 c l4 ->. apply (H (x :: l1) a l2 b l3 c l4). reflexivity.
Qed.

Theorem ccw3_spec r : ccw3 r <-> ordered_triples_left r.
Proof. split; [apply ccw3_sub|apply ccw3_of_sub]. Qed.

(* removing the second vertex keeps the ring strictly convex *)
Lemma ccw3_ear a b t : ccw3 (a :: b :: t) -> ccw3 (a :: t).
Proof. cbn [ccw3 ccw2]. tauto. Qed.

(* boolean form, for concrete rings *)
Fixpoint ccw2b (a : pt) (t : list pt) : bool :=
  match t with
  | [] => true
  | b :: t' => forallb (fun c => 0 <? cross a b c) t' && ccw2b a t'
  end.
Fixpoint ccw3b (r : list pt) : bool :=
  match r with
  | [] => true
  | a :: t => ccw2b a t && ccw3b t
  end.
Lemma ccw2b_spec a t : ccw2b a t = true <-> ccw2 a t.
Proof.
  induction t as [|b t IH]; cbn [ccw2b ccw2]; [tauto|].
  rewrite andb_true_iff, forallb_forall, IH.
  split; intros [H1 H2]; (split; [|assumption]); intros c Hc; specialize (H1 c Hc); lia.
Qed.
Lemma ccw3b_spec r : ccw3b r = true <-> ccw3 r.
Proof.
  induction r as [|a t IH]; cbn [ccw3b ccw3]; [tauto|]. rewrite andb_true_iff, ccw2b_spec, IH. tauto.
Qed.

(* ------------------------------------------------------------------ the chain c -> ... -> a *)

Lemma combine_cases (tl : list pt) : forall (v u x y : pt), In (x, y) (combine (v :: tl) (tl ++ [u])) ->
  (exists l1 l2, v :: tl = l1 ++ x :: y :: l2) \/ (exists l1, v :: tl = l1 ++ [x] /\ y = u).
Proof.
  induction tl as [|w tl IH]; intros v u x y H.
  - cbn in H. destruct H as [H|[]]. injection H as <- <-. right. exists []. split; reflexivity.
  - change (combine (v :: w :: tl) ((w :: tl) ++ [u])) with ((v, w) :: combine (w :: tl) (tl ++ [u])) in H.
    destruct H as [H|H].
    + injection H as <- <-. left. exists [], tl. reflexivity.
    + destruct (IH w u x y H) as [(l1 & l2 & E)|(l1 & E & ->)].
      * left. exists (v :: l1), l2. rewrite E. reflexivity.
      * right. exists (v :: l1). rewrite E. split; reflexivity.
Qed.

Lemma last_ne (l : list pt) : forall x d d', last (x :: l) d = last (x :: l) d'.
Proof.
  induction l as [|y l IH]; intros x d d'; [reflexivity|].
  change (last (x :: y :: l) d) with (last (y :: l) d).
  change (last (x :: y :: l) d') with (last (y :: l) d'). apply IH.
Qed.

Lemma combine_last (tl : list pt) : forall (v u : pt), In (last (v :: tl) v, u) (combine (v :: tl) (tl ++ [u])).
Proof.
  induction tl as [|w tl IH]; intros v u.
  - left. reflexivity.
  - change (combine (v :: w :: tl) ((w :: tl) ++ [u])) with ((v, w) :: combine (w :: tl) (tl ++ [u])).
    right. change (last (v :: w :: tl) v) with (last (w :: tl) v).
    rewrite (last_ne tl w v w). apply IH.
Qed.

Lemma cross_aba a b : cross a b a = 0.
Proof. unfold cross. ring. Qed.
Lemma cross_abb a b : cross a b b = 0.
Proof. unfold cross. ring. Qed.

(* every edge of the chain c -> ... -> a has b strictly, a and c weakly, on its left *)
Lemma chain_left a b c rest x y : ccw3 (a :: b :: c :: rest) ->
  In (x, y) (combine (c :: rest) (rest ++ [a])) ->
  0 <= cross x y a /\ 0 < cross x y b /\ 0 <= cross x y c.
Proof.
  intros H Hin. pose proof (ccw3_sub _ H) as T.
  destruct (combine_cases rest c a x y Hin) as [(l1 & l2 & E)|(l1 & E & ->)].
  - assert (Hb : 0 < cross b x y) by (apply (T [a] b l1 x [] y l2); cbn [app]; rewrite E; reflexivity).
    assert (Ha : 0 < cross a x y) by (apply (T [] a (b :: l1) x [] y l2); cbn [app]; rewrite E; reflexivity).
    rewrite <- (cross_cyc b x y), <- (cross_cyc a x y) in *. split; [lia|]. split; [lia|].
    destruct l1 as [|c' l1]; cbn [app] in E; injection E as <- E.
    + rewrite cross_aba. lia.
    + assert (0 < cross c x y) by (apply (T [a; b] c l1 x [] y l2); cbn [app]; rewrite E; reflexivity).
      rewrite <- (cross_cyc c x y) in *. lia.
  - rewrite cross_abb. split; [lia|].
    assert (Hb : 0 < cross a b x) by (apply (T [] a [] b l1 x []); cbn [app]; rewrite E; reflexivity).
    rewrite <- (cross_cyc x a b). split; [lia|].
    destruct l1 as [|c' l1]; cbn [app] in E; injection E as <- E.
    + rewrite cross_aba. lia.
    + assert (0 < cross a c x) by (apply (T [] a [b] c l1 x []); cbn [app]; rewrite E; reflexivity).
      rewrite <- (cross_cyc x a c). lia.
Qed.

Lemma east_z_sym p a c : east_z p (c, a) = east_z p (a, c).
Proof. apply (east_z_swap p (a, c)). Qed.

Lemma cyc_edges_ear (a b c : pt) rest :
  cyc_edges (a :: b :: c :: rest) = (a, b) :: (b, c) :: combine (c :: rest) (rest ++ [a]) /\
  cyc_edges (a :: c :: rest) = (a, c) :: combine (c :: rest) (rest ++ [a]).
Proof. split; reflexivity. Qed.

(* the shifted point in the rest a::c::... is left of the ear's two outer edges *)
Lemma rest_to_ear p a b c rest : ccw3 (a :: b :: c :: rest) ->
  lpos p (a, c) = true -> forallb (lpos p) (combine (c :: rest) (rest ++ [a])) = true ->
  lpos p (a, b) = true /\ lpos p (b, c) = true.
Proof.
  intros H Lac HR. pose proof (ccw3_sub _ H) as T.
  destruct rest as [|d rest'].
  - cbn [combine app forallb] in HR. pose proof (lpos_not_both p a c) as N. rewrite Lac in N.
    destruct (lpos p (c, a)); cbn in *; discriminate.
  - change (combine (c :: d :: rest') ((d :: rest') ++ [a]))
      with ((c, d) :: combine (d :: rest') (rest' ++ [a])) in HR.
    cbn [forallb] in HR. apply andb_true_iff in HR. destruct HR as [Lcd HR].
    rewrite forallb_forall in HR.
    pose proof (HR _ (combine_last rest' d a)) as Lza. set (z := last (d :: rest') d) in *.
    assert (E : d :: rest' = removelast (d :: rest') ++ [z]) by (apply app_removelast_last; discriminate).
    set (l1 := removelast (d :: rest')) in *. clearbody l1 z.
    assert (Habc : 0 < cross a b c) by (apply (T [] a [] b [] c (d :: rest')); reflexivity).
    assert (Hacz : 0 < cross a c z) by (apply (T [] a [b] c l1 z []); cbn [app]; rewrite E; reflexivity).
    assert (Habz : 0 < cross a b z) by (apply (T [] a [] b (c :: l1) z []); cbn [app]; rewrite E; reflexivity).
    assert (Hacd : 0 < cross a c d) by (apply (T [] a [b] c [] d rest'); reflexivity).
    assert (Hbcd : 0 < cross b c d) by (apply (T [a] b [] c [] d rest'); reflexivity).
    split; [apply (cone_a p a b c z)|apply (cone_c p a b c d)]; assumption.
Qed.

(* the shifted point in the ear is left of all the other edges *)
Lemma ear_to_rest p a b c rest : ccw3 (a :: b :: c :: rest) ->
  lpos p (a, b) = true -> lpos p (b, c) = true -> lpos p (c, a) = true ->
  forallb (lpos p) (combine (c :: rest) (rest ++ [a])) = true.
Proof.
  intros H La Lb Lc. apply forallb_forall. intros [x y] Hin.
  destruct (chain_left a b c rest x y H Hin) as (Ka & Kb & Kc).
  assert (Habc : 0 < cross a b c) by (apply (ccw3_sub _ H [] a [] b [] c rest); reflexivity).
  apply (ear_left p a b c x y); assumption.
Qed.

(* THE CONVEX RING, every p (boundary included) *)
Theorem convex_par_cons p : forall tl a, ccw3 (a :: tl) ->
  par (east_z p) (cyc_edges (a :: tl)) = forallb (lpos p) (cyc_edges (a :: tl)).
Proof.
  induction tl as [|b tl IH]; intros a H.
  - change (cyc_edges [a]) with [(a, a)]. cbn [par fold_right forallb].
    pose proof (lpos_not_both p a a) as N. unfold east_z, straddles.
    destruct (py p <? py a), (lpos p (a, a)); cbn in *; congruence.
  - destruct tl as [|c rest].
    + change (cyc_edges [a; b]) with [(a, b); (b, a)]. cbn [par fold_right forallb].
      rewrite (east_z_sym p a b). pose proof (lpos_not_both p a b) as N.
      destruct (east_z p (a, b)), (lpos p (a, b)), (lpos p (b, a)); cbn in *; congruence.
    + specialize (IH a (ccw3_ear _ _ _ H)).
      destruct (cyc_edges_ear a b c rest) as [E1 E2]. rewrite E1. rewrite E2 in IH. clear E1 E2.
      assert (HD : 0 < cross a b c) by (apply (ccw3_sub _ H [] a [] b [] c rest); reflexivity).
      assert (Hac : a <> c) by (intros ->; rewrite cross_aba in HD; lia).
      pose proof (tri_par p a b c HD) as HT.
      change (cyc_edges [a; b; c]) with [(a, b); (b, c); (c, a)] in HT.
      pose proof (rest_to_ear p a b c rest H) as F1.
      pose proof (ear_to_rest p a b c rest H) as F2.
      set (chain := combine (c :: rest) (rest ++ [a])) in *. clearbody chain.
      cbn [par fold_right forallb] in *. fold (par (east_z p) chain) in *.
      rewrite xorb_false_r, (east_z_sym p a c), (lpos_swap p a c Hac) in HT.
      rewrite (lpos_swap p a c Hac) in F2.
      destruct (lpos p (a, c)), (forallb (lpos p) chain), (lpos p (a, b)), (lpos p (b, c));
        cbn [negb] in *;
        try (destruct F1 as [? ?]; [reflexivity|reflexivity|]; discriminate);
        try (specialize (F2 eq_refl eq_refl eq_refl); discriminate);
        destruct (east_z p (a, b)), (east_z p (b, c)), (east_z p (a, c)), (par (east_z p) chain);
        cbn in *; congruence.
Qed.

Theorem convex_par p r : r <> [] -> ccw3 r ->
  par (east_z p) (cyc_edges r) = forallb (lpos p) (cyc_edges r).
Proof. destruct r as [|a tl]; [congruence|]. intros _. apply convex_par_cons. Qed.

(* ------------------------------------------------------------------ strict interior = left of every edge *)

Definition left_of_all (p : pt) (r : list pt) : Prop :=
  forall e, In e (cyc_edges r) -> 0 < cross (fst e) (snd e) p.

Theorem convex_left_in p r : r <> [] -> ccw3 r -> left_of_all p r -> strict_in p r.
Proof.
  intros Hr Hc Hl. split.
  - intros (e & He & (H0 & _)). specialize (Hl e He). lia.
  - apply evenodd_par. rewrite convex_par by assumption. apply forallb_forall.
    intros [x y] He. apply lpos_pos. apply (Hl _ He).
Qed.

(* rotations keep strict convexity *)
Lemma ccw3_rot1 a t : ccw3 (a :: t) -> ccw3 (t ++ [a]).
Proof.
  intros H. pose proof (ccw3_sub _ H) as T. apply ccw3_of_sub.
  intros l1 x l2 y l3 z l4 E.
  destruct (exists_last (l := l1 ++ x :: l2 ++ y :: l3 ++ z :: l4)) as (m & w & Em).
  { destruct l1; discriminate. }
  rewrite Em in E. apply app_inj_tail in E. destruct E as [-> <-].
  destruct l4 as [|u l4] using rev_ind.
  - (* z is the moved vertex *)
    replace (l1 ++ x :: l2 ++ y :: l3 ++ [z]) with ((l1 ++ x :: l2 ++ y :: l3) ++ [z]) in Em
      by (rewrite <- !app_assoc; cbn [app]; rewrite <- !app_assoc; reflexivity).
    apply app_inj_tail in Em. destruct Em as [<- <-].
    rewrite (cross_cyc z x y). apply (T [] z l1 x l2 y l3). reflexivity.
  - clear IHl4.
    replace (l1 ++ x :: l2 ++ y :: l3 ++ z :: l4 ++ [u]) with ((l1 ++ x :: l2 ++ y :: l3 ++ z :: l4) ++ [u]) in Em
      by (rewrite <- !app_assoc; cbn [app]; rewrite <- !app_assoc; cbn [app]; rewrite <- !app_assoc; reflexivity).
    apply app_inj_tail in Em. destruct Em as [<- <-].
    apply (T (u :: l1) x l2 y l3 z l4). reflexivity.
Qed.

Lemma ccw3_app_comm l1 : forall l2, ccw3 (l1 ++ l2) -> ccw3 (l2 ++ l1).
Proof.
  induction l1 as [|x l1 IH]; intros l2 H.
  - rewrite app_nil_r. exact H.
  - cbn [app] in H. apply ccw3_rot1 in H. rewrite <- app_assoc in H. apply IH in H.
    rewrite <- app_assoc in H. exact H.
Qed.

Lemma ccw3_rot k r : ccw3 r -> ccw3 (rot k r).
Proof. intros H. unfold rot. apply ccw3_app_comm. rewrite firstn_skipn. exact H. Qed.

(* every edge of a ring with at least two vertices is the first edge of a rotation *)
Lemma edge_rot (r : list pt) x y : (2 <= length r)%nat -> In (x, y) (cyc_edges r) ->
  exists l1 l2 tl, r = l1 ++ l2 /\ l2 ++ l1 = x :: y :: tl.
Proof.
  destruct r as [|v tl0]; [intros _ []|]. intros Hlen Hin. cbn [cyc_edges] in Hin.
  destruct (combine_cases tl0 v v x y Hin) as [(l1 & l2 & E)|(l1 & E & ->)].
  - exists l1, (x :: y :: l2), (l2 ++ l1). split; [exact E|reflexivity].
  - destruct l1 as [|v' l1].
    + cbn [app] in E. injection E as -> ->. cbn in Hlen. lia.
    + cbn [app] in E. injection E as <- E.
      exists (v :: l1), [x], l1. split; [rewrite E; reflexivity|reflexivity].
Qed.

Lemma between_from D D' u v A B P : 0 < D -> 0 < D' -> 0 <= u -> 0 <= v ->
  (P - B) * D = u * (A - B) -> (P - A) * D' = v * (B - A) -> Z.min A B <= P <= Z.max A B.
Proof.
  intros HD HD' Hu Hv E1 E2.
  destruct (Z.le_ge_cases A B) as [L|L].
  - assert (u * (A - B) <= 0) by (apply Z.mul_nonneg_nonpos; lia).
    assert (0 <= v * (B - A)) by (apply Z.mul_nonneg_nonneg; lia).
    assert (P - B <= 0) by nia. assert (0 <= P - A) by nia. lia.
  - assert (0 <= u * (A - B)) by (apply Z.mul_nonneg_nonneg; lia).
    assert (v * (B - A) <= 0) by (apply Z.mul_nonneg_nonpos; lia).
    assert (0 <= P - B) by nia. assert (P - A <= 0) by nia. lia.
Qed.

(* p on the line of the edge (a,b) and weakly left of both neighbouring edges: on the edge *)
Lemma on_seg_nbrs a b c z p : cross a b p = 0 -> 0 <= cross b c p -> 0 <= cross z a p ->
  0 < cross a b c -> 0 < cross a b z -> on_seg p a b.
Proof.
  intros H0 Hu Hv HD HD'. unfold on_seg. split; [exact H0|].
  split.
  - apply (between_from (cross a b c) (cross a b z) (cross b c p) (cross z a p)); try assumption.
    + transitivity (cross b c p * (px a - px b) + cross a b p * (px c - px b)); [unfold cross; ring|].
      rewrite H0. ring.
    + transitivity (cross z a p * (px b - px a) + cross a b p * (px z - px a)); [unfold cross; ring|].
      rewrite H0. ring.
  - apply (between_from (cross a b c) (cross a b z) (cross b c p) (cross z a p)); try assumption.
    + transitivity (cross b c p * (py a - py b) + cross a b p * (py c - py b)); [unfold cross; ring|].
      rewrite H0. ring.
    + transitivity (cross z a p * (py b - py a) + cross a b p * (py z - py a)); [unfold cross; ring|].
      rewrite H0. ring.
Qed.

Lemma forallb_perm {A} (f : A -> bool) l l' : Permutation l l' -> forallb f l = forallb f l'.
Proof.
  induction 1; cbn [forallb]; try congruence.
  destruct (f x), (f y); reflexivity.
Qed.

(* on a strictly convex ring, the shifted point inside and p on the line of an edge: p on the edge *)
Lemma convex_on_line p a b c rest : ccw3 (a :: b :: c :: rest) ->
  forallb (lpos p) (cyc_edges (a :: b :: c :: rest)) = true -> cross a b p = 0 -> on_seg p a b.
Proof.
  intros H HL H0. pose proof (ccw3_sub _ H) as T.
  destruct (cyc_edges_ear a b c rest) as [E1 _]. rewrite E1 in HL. clear E1.
  cbn [forallb] in HL. apply andb_true_iff in HL. destruct HL as [La HL].
  apply andb_true_iff in HL. destruct HL as [Lb HL]. rewrite forallb_forall in HL.
  pose proof (HL _ (combine_last rest c a)) as Lz. set (z := last (c :: rest) c) in *.
  assert (E : c :: rest = removelast (c :: rest) ++ [z]) by (apply app_removelast_last; discriminate).
  set (l1 := removelast (c :: rest)) in *. clearbody l1 z.
  assert (Habc : 0 < cross a b c) by (apply (T [] a [] b [] c rest); reflexivity).
  assert (Habz : 0 < cross a b z) by (apply (T [] a [] b l1 z []); cbn [app]; rewrite E; reflexivity).
  apply lpos_nonneg in Lb, Lz. apply (on_seg_nbrs a b c z); assumption.
Qed.

Theorem convex_in_left p r : r <> [] -> ccw3 r -> strict_in p r -> left_of_all p r.
Proof.
  intros Hr Hc [Hn He]. apply evenodd_par in He. rewrite convex_par in He by assumption.
  assert (Hlen : (3 <= length r)%nat).
  { destruct r as [|a [|b [|c rest]]]; [congruence| | |cbn; lia]; exfalso.
    - change (cyc_edges [a]) with [(a, a)] in He. cbn [forallb] in He.
      pose proof (lpos_not_both p a a). destruct (lpos p (a, a)); cbn in *; discriminate.
    - change (cyc_edges [a; b]) with [(a, b); (b, a)] in He. cbn [forallb] in He.
      pose proof (lpos_not_both p a b). destruct (lpos p (a, b)), (lpos p (b, a)); cbn in *; discriminate. }
  intros [x y] Hin. cbn [fst snd].
  pose proof (proj1 (forallb_forall _ _) He _ Hin) as Lxy. apply lpos_nonneg in Lxy.
  destruct (Z.eq_dec (cross x y p) 0) as [E0|]; [exfalso|lia].
  destruct (edge_rot r x y ltac:(lia) Hin) as (l1 & l2 & tl & Er & Erot).
  assert (Hc' : ccw3 (l2 ++ l1)) by (apply ccw3_app_comm; rewrite <- Er; exact Hc).
  assert (HL' : forallb (lpos p) (cyc_edges (l2 ++ l1)) = true).
  { rewrite (forallb_perm _ _ _ (cyc_edges_app_comm l1 l2)), <- Er. exact He. }
  assert (Hl' : length (l2 ++ l1) = length r) by (rewrite Er, !app_length; lia).
  rewrite Erot in *. destruct tl as [|c rest]; [cbn in Hl'; lia|].
  apply Hn. exists (x, y). split; [exact Hin|]. cbn [fst snd].
  apply (convex_on_line p x y c rest); assumption.
Qed.

(* THE CONVEX RING: the strict even-odd interior is the set of points strictly left of every edge *)
Theorem convex_strict_in p r : r <> [] -> ccw3 r -> (strict_in p r <-> left_of_all p r).
Proof. intros Hr Hc. split; [apply convex_in_left|apply convex_left_in]; assumption. Qed.

(* ccw3 rings are convex in the vertex-against-edge sense, strictly *)
Theorem ccw3_vertex_left r : ccw3 r -> forall e v, In e (cyc_edges r) -> In v r ->
  0 <= cross (fst e) (snd e) v /\ (v <> fst e -> v <> snd e -> 0 < cross (fst e) (snd e) v).
Proof.
  intros Hc [x y] v Hin Hv. cbn [fst snd].
  destruct (le_lt_dec 2 (length r)) as [Hlen|Hlen].
  - destruct (edge_rot r x y Hlen Hin) as (l1 & l2 & tl & Er & Erot).
    assert (Hc' : ccw3 (l2 ++ l1)) by (apply ccw3_app_comm; rewrite <- Er; exact Hc).
    assert (Hv' : In v (l2 ++ l1)) by (rewrite Er in Hv; apply in_app_or in Hv; apply in_or_app; tauto).
    rewrite Erot in *. destruct Hv' as [<-|[<-|Hv']].
    + rewrite cross_aba. split; [lia|congruence].
    + rewrite cross_abb. split; [lia|congruence].
    + apply in_split in Hv'. destruct Hv' as (m1 & m2 & ->).
      pose proof (ccw3_sub _ Hc' [] x [] y m1 v m2 eq_refl). split; [lia|intros; assumption].
  - destruct r as [|a [|b r]]; [destruct Hin| |cbn in Hlen; lia].
    cbn in Hin. destruct Hin as [Hin|[]]. injection Hin as <- <-.
    destruct Hv as [<-|[]]. rewrite cross_abb. split; [lia|congruence].
Qed.

(* every consecutive triple of a ccw3 ring turns strictly left *)
Theorem ccw3_turns_left r a b c l1 l2 : ccw3 r -> r = l1 ++ a :: b :: c :: l2 -> 0 < cross a b c.
Proof. intros H E. apply (ccw3_sub _ H l1 a [] b [] c l2). exact E. Qed.

(* ------------------------------------------------------------------ the code on convex rings *)

Lemma left_of_all_iff_rev p r : r <> [] -> ccw3 r -> (strict_in p (rev r) <-> left_of_all p r).
Proof. intros. rewrite strict_in_rev. apply convex_strict_in; assumption. Qed.

Theorem pip_convex w p r k h : r <> [] -> ccw3 r -> west_ok w r -> w <= px p ->
  (pip w p (norm_outline h (reclose (rot k r))) = true <-> left_of_all p r) /\
  (pip w p (norm_outline h (reclose (rot k (rev r)))) = true <-> left_of_all p r).
Proof.
  intros Hr Hc W Hp.
  split; rewrite pip_norm; auto using west_ok_rot, west_ok_rev;
    rewrite strict_in_rot, ?strict_in_rev; apply convex_strict_in; assumption.
Qed.

Theorem poly_contains_convex w p r k h : r <> [] -> ccw3 r -> west_ok w r -> w <= px p ->
  (poly_contains w (norm_outline h (reclose (rot k r))) [] p = true <-> left_of_all p r).
Proof.
  intros Hr Hc W Hp. rewrite poly_contains_norm; auto using west_ok_rot; try (intros ? []).
  rewrite strict_in_rot, convex_strict_in by assumption.
  split; [tauto|]. intros H; split; [exact H|intros ? []].
Qed.

(* non-vacuity: an octagon-like strictly convex ring; its centre lies on four diagonals
   (so on fan diagonals from every vertex) and is level with two vertices *)
Definition ex_convex : list pt := [(4, 0); (8, 0); (12, 4); (12, 8); (8, 12); (4, 12); (0, 8); (0, 4)].

Lemma nonvacuous_convex :
  ccw3 ex_convex /\ west_ok (-360) ex_convex /\
  left_of_all (6, 6) ex_convex /\ pip (-360) (6, 6) (norm_outline false (reclose ex_convex)) = true /\
  left_of_all (1, 4) ex_convex /\ pip (-360) (1, 4) (norm_outline false (reclose ex_convex)) = true /\
  ~ left_of_all (10, 2) ex_convex /\ pip (-360) (10, 2) (norm_outline false (reclose ex_convex)) = false /\
  ~ left_of_all (0, 4) ex_convex /\ pip (-360) (0, 4) (norm_outline false (reclose ex_convex)) = false /\
  ~ left_of_all (13, 6) ex_convex /\ pip (-360) (13, 6) (norm_outline false (reclose ex_convex)) = false.
Proof.
  assert (Hc : ccw3 ex_convex) by (apply ccw3b_spec; vm_compute; reflexivity).
  assert (W : west_ok (-360) ex_convex) by west_ok_tac.
  assert (Hne : ex_convex <> []) by discriminate.
  assert (Q : forall q, -360 <= px q ->
            (left_of_all q ex_convex <-> pip (-360) q (norm_outline false (reclose (rot 0 ex_convex))) = true)).
  { intros q Hq. symmetry. apply (pip_convex (-360) q ex_convex 0%nat false Hne Hc W Hq). }
  split; [exact Hc|]. split; [exact W|].
  repeat match goal with
  | |- left_of_all ?q _ /\ _ => split; [apply Q; [cbn; lia|vm_compute; reflexivity]|]
  | |- ~ left_of_all ?q _ /\ _ => split; [rewrite Q by (cbn; lia); vm_compute; discriminate|]
  | |- _ = _ /\ _ => split; [vm_compute; reflexivity|]
  end.
  vm_compute; reflexivity.
Qed.

(* ------------------------------------------------------------------ the classical hypothesis *)

(* "strictly convex polygon, listed counter-clockwise": no repeated vertex, and every vertex
   lies strictly left of every edge it is not an endpoint of.  It implies ccw3 (and, by
   ccw3_vertex_left, is implied by it when there are at least three vertices). *)
Definition strictly_convex (r : list pt) : Prop :=
  NoDup r /\
  forall e v, In e (cyc_edges r) -> In v r -> v <> fst e -> v <> snd e ->
              0 < cross (fst e) (snd e) v.

(* seen from a, points in the open half-plane left of a->b: "u before v" is transitive *)
Lemma fan_trans a b u v w : 0 <= cross a b u -> 0 < cross a b v -> 0 < cross a b w ->
  0 < cross a u v -> 0 < cross a v w -> 0 < cross a u w.
Proof.
  intros Hu Hv Hw H1 H2.
  assert (E : cross a b v * cross a u w = cross a b u * cross a v w + cross a b w * cross a u v)
    by (unfold cross; ring).
  assert (0 <= cross a b u * cross a v w) by (apply Z.mul_nonneg_nonneg; lia).
  assert (0 < cross a b w * cross a u v) by (apply Z.mul_pos_pos; lia).
  nia.
Qed.

Lemma fan_sorted a b : forall t x,
  (forall c, In c (x :: t) -> 0 < cross a b c) ->
  (forall l1 u v l2, x :: t = l1 ++ u :: v :: l2 -> 0 < cross a u v) ->
  forall c, In c t -> 0 < cross a x c.
Proof.
  induction t as [|y t IH]; intros x Hl Hp c Hc; [destruct Hc|].
  assert (Hxy : 0 < cross a x y) by (apply (Hp [] x y t); reflexivity).
  destruct Hc as [<-|Hc]; [exact Hxy|].
  assert (Hyc : 0 < cross a y c).
  { apply (IH y); [intros d Hd; apply Hl; right; exact Hd| |exact Hc].
    intros l1 u v l2 E. apply (Hp (x :: l1) u v l2). rewrite E. reflexivity. }
  apply (fan_trans a b x y c); try assumption.
  - assert (0 < cross a b x) by (apply Hl; left; reflexivity). lia.
  - apply Hl. right; left; reflexivity.
  - apply Hl. right; right; exact Hc.
Qed.

Lemma ccw2_fan a b : forall t,
  (forall c, In c t -> 0 < cross a b c) ->
  (forall l1 u v l2, t = l1 ++ u :: v :: l2 -> 0 < cross a u v) -> ccw2 a t.
Proof.
  induction t as [|x t IH]; intros Hl Hp; [exact I|]. split.
  - apply (fan_sorted a b t x Hl Hp).
  - apply IH; [intros c Hc; apply Hl; right; exact Hc|].
    intros l1 u v l2 E. apply (Hp (x :: l1) u v l2). rewrite E. reflexivity.
Qed.

Lemma combine_consec (l1 : list pt) : forall (x y : pt) l2 s,
  In (x, y) (combine (l1 ++ x :: y :: l2) (tl (l1 ++ x :: y :: l2) ++ s)).
Proof.
  induction l1 as [|z l1 IH]; intros x y l2 s.
  - left. reflexivity.
  - cbn [app tl]. specialize (IH x y l2 s).
    destruct (l1 ++ x :: y :: l2) as [|w M] eqn:E; [destruct l1; discriminate|].
    cbn [tl] in IH. cbn [app combine]. right. exact IH.
Qed.

Lemma cyc_edges_consec (r : list pt) l1 x y l2 : r = l1 ++ x :: y :: l2 -> In (x, y) (cyc_edges r).
Proof.
  intros ->. pose proof (combine_consec l1 x y l2) as H.
  destruct (l1 ++ x :: y :: l2) as [|v t] eqn:E; [destruct l1; discriminate|].
  cbn [cyc_edges]. apply (H [v]).
Qed.

Theorem strictly_convex_ccw3 r : strictly_convex r -> ccw3 r.
Proof.
  intros [Hnd Hl].
  (* only the list-consecutive edges are needed *)
  assert (Hc : forall l1 x y l2 v, r = l1 ++ x :: y :: l2 -> In v r -> v <> x -> v <> y -> 0 < cross x y v).
  { intros l1 x y l2 v E Hv Hx Hy. apply (Hl (x, y) v); auto. apply (cyc_edges_consec r l1 x y l2 E). }
  clear Hl. induction r as [|a t IH]; [exact I|].
  assert (Ha : ~ In a t) by (inversion Hnd; assumption).
  assert (Hnd' : NoDup t) by (inversion Hnd; assumption).
  split.
  - destruct t as [|b t']; [exact I|]. cbn [ccw2].
    assert (Hb : ~ In b t') by (inversion Hnd'; assumption).
    assert (Hab : forall c, In c t' -> 0 < cross a b c).
    { intros c Hc'. apply (Hc [] a b t' c); [reflexivity|right; right; exact Hc'| |];
        intros ->; [apply Ha; right; exact Hc'|apply Hb; exact Hc']. }
    split; [exact Hab|]. apply (ccw2_fan a b t' Hab).
    intros l1 u v l2 E. rewrite <- (cross_cyc a u v).
    apply (Hc (a :: b :: l1) u v l2 a); [rewrite E; reflexivity|left; reflexivity| |].
    + intros ->. apply Ha. right. rewrite E. apply in_or_app. right. left. reflexivity.
    + intros ->. apply Ha. right. rewrite E. apply in_or_app. right. right. left. reflexivity.
  - apply IH; [exact Hnd'|]. intros l1 x y l2 v E Hv Hx Hy.
    apply (Hc (a :: l1) x y l2 v); [rewrite E; reflexivity|right; exact Hv|exact Hx|exact Hy].
Qed.

Lemma ccw3_nodup r : (3 <= length r)%nat -> ccw3 r -> NoDup r.
Proof.
  intros Hlen Hc. pose proof (ccw3_sub _ Hc) as T.
  (* two equal entries and any third vertex give a degenerate ordered triple *)
  destruct (ListDec.NoDup_dec (fun a b : pt => ltac:(decide equality; apply Z.eq_dec)) r) as [H|H]; [exact H|].
  exfalso. revert Hlen T. clear Hc.
  assert (G : forall l1 a l2 l3, r = l1 ++ a :: l2 ++ a :: l3 -> (3 <= length r)%nat ->
              ordered_triples_left r -> False).
  { intros l1 a l2 l3 E Hlen T.
    destruct l1 as [|x l1].
    - destruct l2 as [|y l2].
      + destruct l3 as [|z l3]; [subst r; cbn in Hlen; lia|].
        pose proof (T [] a [] a [] z l3 E) as Hx. unfold cross in Hx. nia.
      + pose proof (T [] a [] y l2 a l3 E) as Hx. rewrite cross_aba in Hx. lia.
    - pose proof (T [] x l1 a l2 a l3 E) as Hx. rewrite cross_abb in Hx. lia. }
  intros Hlen T. apply H. clear H.
  induction r as [|a t IH]; [constructor|]. constructor.
  - intros Hin. apply in_split in Hin. destruct Hin as (l2 & l3 & E).
    apply (G [] a l2 l3); [rewrite E; reflexivity|exact Hlen|exact T].
  - (* a repeat inside t is a repeat inside r *)
    clear IH. 
    assert (Gt : forall l1 b l2 l3, t = l1 ++ b :: l2 ++ b :: l3 -> False).
    { intros l1 b l2 l3 E. apply (G (a :: l1) b l2 l3); [rewrite E; reflexivity|exact Hlen|exact T]. }
    clear G T Hlen. induction t as [|b t IH]; [constructor|]. constructor.
    + intros Hin. apply in_split in Hin. destruct Hin as (l2 & l3 & E).
      apply (Gt [] b l2 l3). rewrite E. reflexivity.
    + apply IH. intros l1 c l2 l3 E. apply (Gt (b :: l1) c l2 l3). rewrite E. reflexivity.
Qed.

(* the two convexity hypotheses coincide on rings with at least three vertices *)
Theorem strictly_convex_iff r : (3 <= length r)%nat -> (strictly_convex r <-> ccw3 r).
Proof.
  intros Hlen. split; [apply strictly_convex_ccw3|]. intros Hc. split; [apply ccw3_nodup; assumption|].
  intros e v He Hv H1 H2. apply (proj2 (ccw3_vertex_left r Hc e v He Hv)); assumption.
Qed.

Theorem strictly_convex_strict_in p r : r <> [] -> strictly_convex r ->
  (strict_in p r <-> left_of_all p r).
Proof. intros Hr H. apply convex_strict_in; [exact Hr|apply strictly_convex_ccw3; exact H]. Qed.
