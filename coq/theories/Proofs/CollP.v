(* Proofs about the stable sort and Track construction (C17, part 1). *)
From Coq Require Import QArith Permutation Sorted.
From GV Require Import Prelude CollM.
Open Scope Z_scope.

(* ------------------------------------------------------------------ generic list facts *)
Section SortP.
  Context {A : Type} (key : A -> Z).

  Definition le_key (x y : A) : Prop := key x <= key y.
  (* every earlier element has a key <= every later element *)
  Definition sorted (l : list A) : Prop := StronglySorted le_key l.
  Definition keyis (k : Z) (x : A) : bool := key x =? k.

  Lemma sorted_nil : sorted []. Proof. constructor. Qed.

  Lemma sorted_cons x l : sorted (x :: l) <-> sorted l /\ Forall (le_key x) l.
  Proof.
    split.
    - intros H. inversion H; subst. split; assumption.
    - intros [H1 H2]. constructor; assumption.
  Qed.

  Lemma sorted_adjacent l : sorted l -> Sorted le_key l.
  Proof. apply StronglySorted_Sorted. Qed.

  Lemma adjacent_sorted l : Sorted le_key l -> sorted l.
  Proof.
    apply Sorted_StronglySorted. intros x y z. unfold le_key. lia.
  Qed.

  Lemma insert_perm x l : Permutation (insert key x l) (x :: l).
  Proof.
    induction l as [|y l IH]; cbn; [reflexivity|].
    destruct (key x <=? key y); [reflexivity|].
    rewrite IH. apply perm_swap.
  Qed.

  Lemma isort_perm l : Permutation (isort key l) l.
  Proof.
    induction l as [|x l IH]; cbn; [reflexivity|].
    rewrite insert_perm. constructor. exact IH.
  Qed.

  Lemma insert_sorted x l : sorted l -> sorted (insert key x l).
  Proof.
    induction l as [|y l IH]; cbn; intros H.
    - constructor; constructor.
    - destruct (key x <=? key y) eqn:E.
      + constructor; [exact H|]. apply sorted_cons in H. destruct H as [_ H].
        constructor; [unfold le_key; lia|].
        eapply Forall_impl; [|exact H]. unfold le_key. intros; lia.
      + apply sorted_cons in H. destruct H as [H1 H2].
        apply sorted_cons. split; [apply IH; exact H1|].
        eapply Permutation_Forall; [symmetry; apply insert_perm|].
        constructor; [unfold le_key; lia|exact H2].
  Qed.

  Lemma isort_sorted l : sorted (isort key l).
  Proof.
    induction l as [|x l IH]; cbn; [constructor|]. apply insert_sorted. exact IH.
  Qed.

  (* stability: elements of equal key keep their relative order *)
  Lemma insert_stable k x l :
    filter (keyis k) (insert key x l) = filter (keyis k) (x :: l).
  Proof.
    induction l as [|y l IH]; [reflexivity|].
    cbn [insert]. destruct (key x <=? key y) eqn:E; [reflexivity|].
    cbn [filter] in *. rewrite IH. unfold keyis.
    destruct (key y =? k) eqn:Ey, (key x =? k) eqn:Ex; try reflexivity. lia.
  Qed.

  Lemma isort_stable k l : filter (keyis k) (isort key l) = filter (keyis k) l.
  Proof.
    induction l as [|x l IH]; [reflexivity|].
    cbn [isort]. rewrite insert_stable. cbn [filter]. rewrite IH. reflexivity.
  Qed.

  (* a sorted list is a fixed point: re-wrapping an already chronological list changes nothing *)
  Lemma insert_head x l : Forall (le_key x) l -> insert key x l = x :: l.
  Proof.
    destruct l as [|y l]; [reflexivity|]. intros H. inversion H; subst.
    cbn. unfold le_key in *. destruct (key x <=? key y) eqn:E; [reflexivity|lia].
  Qed.

  Lemma isort_id l : sorted l -> isort key l = l.
  Proof.
    induction l as [|x l IH]; [reflexivity|]. intros H. apply sorted_cons in H.
    destruct H as [H1 H2]. cbn. rewrite (IH H1). apply insert_head. exact H2.
  Qed.

  Lemma sorted_filter p l : sorted l -> sorted (filter p l).
  Proof.
    induction l as [|x l IH]; [intros; constructor|]. intros H. apply sorted_cons in H.
    destruct H as [H1 H2]. cbn. destruct (p x); [|apply IH; exact H1].
    apply sorted_cons. split; [apply IH; exact H1|].
    apply Forall_forall. intros y Hy. apply filter_In in Hy.
    rewrite Forall_forall in H2. apply H2. tauto.
  Qed.

  (* the stable sorted arrangement is unique: Sorted + same per-key subsequences *)
  Lemma filter_keyis_head k x l : key x = k -> filter (keyis k) (x :: l) = x :: filter (keyis k) l.
  Proof. intros H. cbn. unfold keyis. destruct (key x =? k) eqn:E; [reflexivity|lia]. Qed.

  Lemma stable_sorted_unique l1 : forall l2, sorted l1 -> sorted l2 ->
    (forall k, filter (keyis k) l1 = filter (keyis k) l2) -> l1 = l2.
  Proof.
    induction l1 as [|a l1 IH]; intros l2 S1 S2 H.
    - destruct l2 as [|b l2]; [reflexivity|].
      specialize (H (key b)). rewrite filter_keyis_head in H by reflexivity. discriminate.
    - destruct l2 as [|b l2].
      + specialize (H (key a)). rewrite filter_keyis_head in H by reflexivity. discriminate.
      + apply sorted_cons in S1. destruct S1 as [S1 F1].
        apply sorted_cons in S2. destruct S2 as [S2 F2].
        rewrite Forall_forall in F1, F2.
        assert (Kab : key a = key b).
        { assert (key a <= key b).
          { pose proof (H (key b)) as Hb. rewrite (filter_keyis_head (key b) b) in Hb by reflexivity.
            assert (In b (filter (keyis (key b)) (a :: l1))) by (rewrite Hb; left; reflexivity).
            apply filter_In in H0. destruct H0 as [[->|Hin] _]; [lia|]. apply F1. exact Hin. }
          assert (key b <= key a).
          { pose proof (H (key a)) as Ha. rewrite (filter_keyis_head (key a) a) in Ha by reflexivity.
            assert (In a (filter (keyis (key a)) (b :: l2))) by (rewrite <- Ha; left; reflexivity).
            apply filter_In in H1. destruct H1 as [[->|Hin] _]; [lia|]. apply F2. exact Hin. }
          lia. }
        pose proof (H (key a)) as Ha.
        rewrite (filter_keyis_head (key a) a) in Ha by reflexivity.
        rewrite (filter_keyis_head (key a) b) in Ha by (symmetry; exact Kab).
        injection Ha as Hab Ht. subst b. f_equal. apply IH; [exact S1|exact S2|].
        intros k. specialize (H k). cbn in H. destruct (keyis k a); [injection H; auto|exact H].
  Qed.

  Lemma isort_unique l l' : sorted l' ->
    (forall k, filter (keyis k) l' = filter (keyis k) l) -> l' = isort key l.
  Proof.
    intros S H. apply stable_sorted_unique; [exact S|apply isort_sorted|].
    intros k. rewrite isort_stable. apply H.
  Qed.
End SortP.

(* ------------------------------------------------------------------ Track construction *)
Definition chron (t : list item) : Prop := sorted st t.

Lemma rewrap_chron l : chron (rewrap l).
Proof. apply isort_sorted. Qed.

Lemma rewrap_id t : chron t -> rewrap t = t.
Proof. apply isort_id. Qed.

Lemma all_timed_map l : all_timed (map Timed l) = Some l.
Proof. induction l as [|x l IH]; cbn; [reflexivity|]. rewrite IH. reflexivity. Qed.

Lemma all_timed_some raws l : all_timed raws = Some l -> raws = map Timed l.
Proof.
  revert l. induction raws as [|r raws IH]; cbn; intros l H.
  - injection H as <-. reflexivity.
  - destruct r as [x|i p]; [|discriminate].
    destruct (all_timed raws) as [r'|]; [|discriminate]. injection H as <-.
    cbn. f_equal. apply IH. reflexivity.
Qed.

Lemma all_timed_none raws : all_timed raws = None <-> exists i p, In (Untimed i p) raws.
Proof.
  induction raws as [|r raws IH]; cbn.
  - split; [discriminate|]. intros (i & p & []).
  - destruct r as [x|i p].
    + destruct (all_timed raws) as [r'|].
      * split; [discriminate|]. intros (i & p & [H|H]); [discriminate|].
        assert (Some r' = None) by (apply IH; eauto). discriminate.
      * split; [|reflexivity]. intros _. destruct IH as [IH _].
        destruct (IH eq_refl) as (i & p & H). exists i, p. right. exact H.
    + split; [|reflexivity]. intros _. exists i, p. left. reflexivity.
Qed.

Lemma mk_track_timed l : mk_track (map Timed l) = Ok (isort st l).
Proof. unfold mk_track. rewrite all_timed_map. reflexivity. Qed.

Lemma mk_sorted raws t : mk_track raws = Ok t -> chron t.
Proof.
  unfold mk_track. destruct (all_timed raws); [|discriminate].
  intros H. injection H as <-. apply rewrap_chron.
Qed.

Lemma mk_perm raws t : mk_track raws = Ok t -> Permutation (map Timed t) raws.
Proof.
  unfold mk_track. destruct (all_timed raws) as [l|] eqn:E; [|discriminate].
  intros H. injection H as <-. apply all_timed_some in E. subst raws.
  apply Permutation_map. apply isort_perm.
Qed.

Lemma mk_stable l t : mk_track (map Timed l) = Ok t ->
  forall k, filter (keyis st k) t = filter (keyis st k) l.
Proof.
  rewrite mk_track_timed. intros H. injection H as <-. intros k. apply isort_stable.
Qed.

Lemma mk_unique l t t' : mk_track (map Timed l) = Ok t ->
  chron t' -> (forall k, filter (keyis st k) t' = filter (keyis st k) l) -> t' = t.
Proof.
  rewrite mk_track_timed. intros H. injection H as <-. apply isort_unique.
Qed.

Lemma mk_rejects_nodt raws :
  (mk_track raws = Err ValueError <-> exists i p, In (Untimed i p) raws) /\
  ((~ exists i p, In (Untimed i p) raws) -> exists l, raws = map Timed l /\ mk_track raws = Ok (isort st l)).
Proof.
  unfold mk_track. split.
  - rewrite <- all_timed_none. destruct (all_timed raws); split; congruence.
  - intros H. destruct (all_timed raws) as [l|] eqn:E.
    + exists l. apply all_timed_some in E. split; [exact E|reflexivity].
    + exfalso. apply H. apply all_timed_none. exact E.
Qed.
