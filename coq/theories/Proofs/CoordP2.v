(* What [same_pt] relates, concretely, and uniqueness of the canonical representative. *)
From Coq Require Import QArith Lqa.
From GV Require Import Prelude CoordM CoordP.
Open Scope Q_scope.

Definition iz := inject_Z.

(* the orbit of (l, f): an even number of pole reflections shifts the latitude by a multiple of
   360 (longitude by a multiple of 360); an odd number reflects it about an odd multiple of 90
   and turns the longitude by 180 *)
Definition orbit (p q : Q * Q) : Prop :=
  exists m j : Z,
    (snd q == snd p + 360 * iz m /\ fst q == fst p + 360 * iz j) \/
    (snd q == 180 * (2 * iz m + 1) - snd p /\ fst q == fst p + 180 + 360 * iz j).

Lemma iz_plus a b : iz (a + b) == iz a + iz b.
Proof. unfold iz. now rewrite inject_Z_plus. Qed.
Lemma iz_opp a : iz (- a) == - iz a.
Proof. unfold iz. now rewrite inject_Z_opp. Qed.
Lemma iz_1 : iz 1 == 1. Proof. reflexivity. Qed.
Lemma iz_0 : iz 0 == 0. Proof. reflexivity. Qed.

Ltac izs := unfold Z.sub; repeat (rewrite iz_plus || rewrite iz_opp || rewrite iz_1 || rewrite iz_0).

Lemma orbit_refl_eq p q : fst p == fst q -> snd p == snd q -> orbit p q.
Proof.
  intros A B. exists 0%Z, 0%Z. left. rewrite iz_0. split; lra.
Qed.

Lemma orbit_sym p q : orbit p q -> orbit q p.
Proof.
  intros (m & j & [[A B]|[A B]]).
  - exists (- m)%Z, (- j)%Z. left. rewrite !iz_opp. split; lra.
  - exists m, (- j - 1)%Z. right. izs. split; lra.
Qed.

Lemma orbit_trans p q r : orbit p q -> orbit q r -> orbit p r.
Proof.
  intros (m1 & j1 & H1) (m2 & j2 & H2).
  destruct H1 as [[A1 B1]|[A1 B1]], H2 as [[A2 B2]|[A2 B2]].
  - exists (m1 + m2)%Z, (j1 + j2)%Z. left. rewrite !iz_plus. split; lra.
  - exists (m2 - m1)%Z, (j1 + j2)%Z. right. izs. split; lra.
  - exists (m1 + m2)%Z, (j1 + j2)%Z. right. rewrite !iz_plus. split; lra.
  - exists (m2 - m1)%Z, (j1 + j2 + 1)%Z. left. izs. split; lra.
Qed.

(* [same_pt] relates exactly the pairs of one orbit *)
Lemma same_pt_orbit p q : same_pt p q -> orbit p q.
Proof.
  induction 1 as [p q H1 H2|p q _ IH|p q r _ IH1 _ IH2|l f|l f|l f].
  - now apply orbit_refl_eq.
  - now apply orbit_sym.
  - eapply orbit_trans; eassumption.
  - exists 0%Z, 1%Z. left. cbn [fst snd]. rewrite iz_0, iz_1. split; lra.
  - exists 0%Z, 0%Z. right. cbn [fst snd]. rewrite iz_0. split; lra.
  - exists (-1)%Z, 0%Z. right. cbn [fst snd]. rewrite iz_0.
    change (iz (-1)) with (-1). split; lra.
Qed.

Lemma same_pt_turns l f (j : Z) : same_pt (l, f) (l + 360 * iz j, f).
Proof.
  assert (P : forall n : nat, forall l, same_pt (l, f) (l + 360 * iz (Z.of_nat n), f)).
  { induction n as [|n IH]; intro l0.
    - apply sp_eq; cbn [fst snd]; [rewrite iz_0|]; lra.
    - eapply sp_trans; [apply sp_turn|]. eapply sp_trans; [apply IH|].
      apply sp_eq; cbn [fst snd]; [|reflexivity].
      rewrite Nat2Z.inj_succ. unfold Z.succ. rewrite iz_plus, iz_1. lra. }
  destruct (Z_le_gt_dec 0 j) as [H|H].
  - rewrite <- (Z2Nat.id j H). apply P.
  - apply sp_sym. eapply sp_trans; [apply (P (Z.to_nat (- j)))|].
    rewrite Z2Nat.id by lia. apply sp_eq; cbn [fst snd]; [|reflexivity].
    rewrite iz_opp. lra.
Qed.

Lemma same_pt_lat360 l f (m : Z) : same_pt (l, f) (l, f + 360 * iz m).
Proof.
  assert (S1 : forall l f, same_pt (l, f) (l, f + 360)).
  { intros l0 f0. apply sp_sym.
    eapply sp_trans; [apply sp_north|]. eapply sp_trans; [apply sp_south|].
    eapply sp_trans; [apply sp_turn_back|]. apply sp_eq; cbn [fst snd]; lra. }
  assert (P : forall n : nat, forall f, same_pt (l, f) (l, f + 360 * iz (Z.of_nat n))).
  { induction n as [|n IH]; intro f0.
    - apply sp_eq; cbn [fst snd]; [|rewrite iz_0]; lra.
    - eapply sp_trans; [apply S1|]. eapply sp_trans; [apply IH|].
      apply sp_eq; cbn [fst snd]; [reflexivity|].
      rewrite Nat2Z.inj_succ. unfold Z.succ. rewrite iz_plus, iz_1. lra. }
  destruct (Z_le_gt_dec 0 m) as [H|H].
  - rewrite <- (Z2Nat.id m H). apply P.
  - apply sp_sym. eapply sp_trans; [apply (P (Z.to_nat (- m)))|].
    rewrite Z2Nat.id by lia. apply sp_eq; cbn [fst snd]; [reflexivity|].
    rewrite iz_opp. lra.
Qed.

Lemma orbit_same_pt p q : orbit p q -> same_pt p q.
Proof.
  destruct p as [l f], q as [l' f']. intros (m & j & [[A B]|[A B]]); cbn [fst snd] in *.
  - eapply sp_trans; [apply (same_pt_turns l f j)|].
    eapply sp_trans; [apply (same_pt_lat360 _ f m)|]. apply sp_eq; cbn [fst snd]; lra.
  - eapply sp_trans; [apply sp_north|].
    eapply sp_trans; [apply (same_pt_turns _ _ j)|].
    eapply sp_trans; [apply (same_pt_lat360 _ _ m)|]. apply sp_eq; cbn [fst snd]; lra.
Qed.

Lemma same_pt_iff_orbit p q : same_pt p q <-> orbit p q.
Proof. split; [apply same_pt_orbit|apply orbit_same_pt]. Qed.

(* ------------------------------------------------------------------ uniqueness *)
Lemma iz_small_zero (m : Z) : -1 < iz m -> iz m < 1 -> m = 0%Z.
Proof.
  unfold iz. intros A B. change (-1) with (inject_Z (-1)) in A. change 1 with (inject_Z 1) in B.
  rewrite <- Zlt_Qlt in A, B. lia.
Qed.

(* two canonical pairs of one orbit, away from the poles, are equal: the canonical form is
   unique, so the stored pair is determined by the point alone *)
Lemma canonical_unique a b a' b' :
  -180 <= a -> a < 180 -> -90 < b -> b < 90 ->
  -180 <= a' -> a' < 180 -> -90 <= b' -> b' <= 90 ->
  same_pt (a, b) (a', b') -> a' == a /\ b' == b.
Proof.
  intros A1 A2 B1 B2 A1' A2' B1' B2' H. apply same_pt_orbit in H.
  destruct H as (m & j & [[E F]|[E F]]); cbn [fst snd] in *.
  - assert (m = 0%Z) by (apply iz_small_zero; lra). subst m.
    assert (j = 0%Z) by (apply iz_small_zero; lra). subst j.
    rewrite iz_0 in *. split; lra.
  - exfalso.
    (* b + b' = 180 (2m+1) with |b + b'| < 180 forces 2m+1 strictly between -1 and 1 *)
    assert (L : -1 < iz (2 * m + 1)).
    { rewrite iz_plus, iz_1. unfold iz. rewrite inject_Z_mult. change (inject_Z 2) with 2. fold (iz m). lra. }
    assert (U : iz (2 * m + 1) < 1).
    { rewrite iz_plus, iz_1. unfold iz. rewrite inject_Z_mult. change (inject_Z 2) with 2. fold (iz m). lra. }
    pose proof (iz_small_zero _ L U). lia.
Qed.

(* whatever raw pair denotes the same point as a canonical pair away from the poles is
   normalised to exactly that pair *)
Lemma norm_unique lon lat a b :
  -180 <= a -> a < 180 -> -90 < b -> b < 90 -> same_pt (lon, lat) (a, b) ->
  exists a' b', norm lon lat = Ok (a', b') /\ a' == a /\ b' == b.
Proof.
  intros A1 A2 B1 B2 H. destruct (norm_total lon lat) as [[a' b'] E].
  exists a', b'. split; [exact E|].
  pose proof (norm_range _ _ _ _ E) as [[R1 R2] [R3 R4]].
  apply (canonical_unique a b a' b'); try assumption.
  eapply sp_trans; [apply sp_sym; exact H|]. now apply norm_same_pt.
Qed.

(* same_pt is not the trivial relation *)
Lemma same_pt_nontrivial : ~ same_pt (0, 0) (1, 0).
Proof.
  intro H.
  destruct (canonical_unique 0 0 1 0 ltac:(lra) ltac:(lra) ltac:(lra) ltac:(lra)
              ltac:(lra) ltac:(lra) ltac:(lra) ltac:(lra) H) as [E _].
  lra.
Qed.

(* ------------------------------------------------------------------ the budget does not matter *)
(* a loop that finishes within one budget finishes with the same value within any other budget
   that lets it finish: the value is the loop's, not the budget's *)
Lemma pole_loop_det f : forall f' p q q',
  pole_loop f p = Ok q -> pole_loop f' p = Ok q' -> q = q'.
Proof.
  induction f as [|f IH]; intros f' p q q'; cbn [pole_loop].
  - destruct (lat_ok (snd p)) eqn:E; [|discriminate].
    intros H1 H2. rewrite pole_loop_fix in H2 by exact E. congruence.
  - destruct (lat_ok (snd p)) eqn:E.
    + intros H1 H2. rewrite pole_loop_fix in H2 by exact E. congruence.
    + intros H1 H2. destruct f' as [|f']; cbn [pole_loop] in H2; rewrite E in H2; [discriminate|].
      eapply IH; eassumption.
Qed.

Lemma wrap_loop_det f : forall f' l r r',
  wrap_loop f l = Ok r -> wrap_loop f' l = Ok r' -> r = r'.
Proof.
  induction f as [|f IH]; intros f' l r r'; cbn [wrap_loop].
  - destruct (lon_ok l) eqn:E; [|discriminate].
    intros H1 H2. rewrite wrap_loop_fix in H2 by exact E. congruence.
  - destruct (lon_ok l) eqn:E.
    + intros H1 H2. rewrite wrap_loop_fix in H2 by exact E. congruence.
    + intros H1 H2. destruct f' as [|f']; cbn [wrap_loop] in H2; rewrite E in H2; [discriminate|].
      eapply IH; eassumption.
Qed.

Lemma norm_fuel_irrelevant lon lat f1 f2 lon1 lat1 lon2 :
  pole_loop f1 (lon, lat) = Ok (lon1, lat1) -> wrap_loop f2 lon1 = Ok lon2 ->
  norm lon lat = Ok (canon180 lon2, lat1).
Proof.
  intros H1 H2. destruct (norm_total lon lat) as [[a b] E]. rewrite E.
  destruct (norm_inv _ _ _ _ E) as (l1 & l2 & G1 & G2 & ->).
  pose proof (pole_loop_det _ _ _ _ _ H1 G1) as X. injection X as <- <-.
  pose proof (wrap_loop_det _ _ _ _ _ H2 G2) as <-. reflexivity.
Qed.
