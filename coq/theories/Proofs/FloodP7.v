(* C12, an axis-aligned query box: the per-cell test "the closed box of the cell shares a point
   with the closed query box [a, b] x [ya, yb]" (geometric truth for a box; the implementation's
   intersects_shape is NOT modelled) has a RECTANGLE of grid indices as its truth set, with
   explicit bounds (floor / ceiling of the box edges in cell units).  With FloodP6 this gives:
   the flood fill of _hash_polygon on that test returns exactly the cells that share a point
   with the box - no connectivity hypothesis left.  Stdlib only; no axioms. *)
From Coq Require Import QArith Qreduction Qround Lqa.
From GV Require Import Prelude GeohashM GeohashP GeohashP2 GeohashP3 FloodM FloodP FloodP3 FloodP4 FloodP5 FloodP6.
Open Scope Q_scope.

Lemma floor_iff (z : Z) (t : Q) : (z <= Qfloor t)%Z <-> inject_Z z <= t.
Proof.
  split; intro H.
  - apply Qle_trans with (inject_Z (Qfloor t)); [now rewrite <- Zle_Qle|apply Qfloor_le].
  - pose proof (Qlt_floor t) as F.
    assert (X : inject_Z z < inject_Z (Qfloor t + 1)) by (eapply Qle_lt_trans; eauto).
    rewrite <- Zlt_Qlt in X. lia.
Qed.

Lemma ceil_iff (z : Z) (t : Q) : (Qceiling t <= z)%Z <-> t <= inject_Z z.
Proof.
  split; intro H.
  - apply Qle_trans with (inject_Z (Qceiling t)); [apply Qle_ceiling|now rewrite <- Zle_Qle].
  - pose proof (Qceiling_lt t) as F.
    assert (X : inject_Z (Qceiling t - 1) < inject_Z z) by (eapply Qlt_le_trans; eauto).
    rewrite <- Zlt_Qlt in X. lia.
Qed.

(* one axis: the cell [lo, hi] with index I of an N-cell grid over [mn, mn + W] meets [a, b]
   exactly when ceil((a - mn) N / W) - 1 <= I <= floor((b - mn) N / W) *)
Lemma ovl1 (N I : Z) (W mn lo hi a b : Q) :
  (0 < N)%Z -> 0 < W ->
  inject_Z N * (lo - mn) == inject_Z I * W -> inject_Z N * (hi - lo) == W ->
  (a <= hi /\ lo <= b) <->
  ((Qceiling ((a - mn) * inject_Z N / W) - 1 <= I)%Z /\ (I <= Qfloor ((b - mn) * inject_Z N / W))%Z).
Proof.
  intros HN HW A B.
  assert (Hn : 0 < inject_Z N) by (change 0 with (inject_Z 0); now rewrite <- Zlt_Qlt).
  rewrite floor_iff.
  assert (C : (Qceiling ((a - mn) * inject_Z N / W) - 1 <= I)%Z <-> (a - mn) * inject_Z N / W <= inject_Z (I + 1)).
  { rewrite <- ceil_iff. lia. }
  rewrite C. rewrite inject_Z_plus. change (inject_Z 1) with 1.
  set (n := inject_Z N) in *. set (i := inject_Z I) in *.
  assert (Ta : (a - mn) * n / W * W == (a - mn) * n) by (field; lra).
  assert (Tb : (b - mn) * n / W * W == (b - mn) * n) by (field; lra).
  rewrite <- (Qmult_le_l a hi n Hn), <- (Qmult_le_l lo b n Hn).
  split; intros [H1 H2]; split.
  - apply Qle_shift_div_r; [exact HW|]. lra.
  - apply Qle_shift_div_l; [exact HW|]. lra.
  - apply (Qmult_le_compat_r _ _ W) in H1; [|lra]. rewrite Ta in H1. lra.
  - apply (Qmult_le_compat_r _ _ W) in H2; [|lra]. rewrite Tb in H2. lra.
Qed.

Section Box.
  Variable c : cfg.
  Hypothesis OK : cfg_ok c.
  Variable len : nat.
  Variables a b ya yb : Q.       (* the query box: a <= lon <= b, ya <= lat <= yb *)

  (* closed cell box meets closed query box (interval overlap on each axis) *)
  Definition box_touch (gh : list Z) : bool :=
    match decode c gh with
    | Ok (x, y, ex, ey) =>
        qleb a (x + ex) && qleb (x - ex) b && qleb ya (y + ey) && qleb (y - ey) yb
    | Err _ => false
    end.

  Definition in_box (p : Q * Q) : Prop := (a <= fst p /\ fst p <= b) /\ (ya <= snd p /\ snd p <= yb).

  (* what the test means: some point lies in both *)
  Lemma box_touch_spec gh : a <= b -> ya <= yb ->
    (box_touch gh = true <-> exists r, decode c gh = Ok r /\ exists p, in_cell p r /\ in_box p).
  Proof.
    intros Hab Hy. unfold box_touch. split.
    - destruct (decode c gh) as [[[[x y] ex] ey]|] eqn:D; [|discriminate].
      destruct (decode_err_pos c OK _ _ _ _ _ D) as [Ex Ey].
      rewrite !andb_true_iff, !qleb_true. intros [[[H1 H2] H3] H4].
      exists (x, y, ex, ey). split; [reflexivity|].
      exists (if qleb a (x - ex) then x - ex else a, if qleb ya (y - ey) then y - ey else ya).
      unfold in_cell, in_box. cbn [fst snd].
      destruct (qleb a (x - ex)) eqn:E1; [apply qleb_true in E1|apply qle_bool_false in E1];
        (destruct (qleb ya (y - ey)) eqn:E2; [apply qleb_true in E2|apply qle_bool_false in E2]); lra.
    - intros ([[[x y] ex] ey] & D & [px py] & I & B). rewrite D.
      unfold in_cell, in_box in *. cbn [fst snd] in *.
      rewrite !andb_true_iff, !qleb_true. lra.
  Qed.

  Definition box_x0 : Z := (Qceiling ((a - minx c) * inject_Z (grid_nx c len) / (maxx c - minx c)) - 1)%Z.
  Definition box_x1 : Z := Qfloor ((b - minx c) * inject_Z (grid_nx c len) / (maxx c - minx c)).
  Definition box_y0 : Z := (Qceiling ((ya - miny c) * inject_Z (grid_ny c len) / (maxy c - miny c)) - 1)%Z.
  Definition box_y1 : Z := Qfloor ((yb - miny c) * inject_Z (grid_ny c len) / (maxy c - miny c)).

  (* the truth set of the box test is a rectangle of indices *)
  Theorem box_touch_is_rect gh : valid_len c len gh ->
    box_touch gh = touch_rect box_x0 box_x1 box_y0 box_y1 (cell_index c gh).
  Proof.
    intros [L V]. unfold box_touch.
    destruct (decode_valid c OK gh V) as ([[[x y] ex] ey] & D & C). rewrite D.
    destruct C as (_ & C1 & C2 & C3 & C4).
    pose proof (gi_of_inv c gh) as (_ & (R1x & R1y) & (A1 & B1) & (A2 & B2)).
    destruct (gi_of_dims c OK gh V) as [N1 N2]. rewrite L in N1, N2.
    destruct (range_pos c OK) as [Wx Wy].
    assert (P1 : (0 < gnx (gi_of c gh))%Z) by lia. assert (P2 : (0 < gny (gi_of c gh))%Z) by lia.
    pose proof (ovl1 _ _ _ _ _ _ a b P1 Wx A1 B1) as Ox.
    pose proof (ovl1 _ _ _ _ _ _ ya yb P2 Wy A2 B2) as Oy.
    rewrite N1 in Ox. rewrite N2 in Oy. fold box_x0 box_x1 in Ox. fold box_y0 box_y1 in Oy.
    apply Bool.eq_iff_eq_true. unfold cell_index, touch_rect. cbn [fst snd].
    rewrite !andb_true_iff, !qleb_true, !Z.leb_le.
    rewrite C1, C2, C3, C4. tauto.
  Qed.

  Variable start : Q * Q.

  Lemma start_touched : in_range c start -> in_box start -> box_touch (encode c start len) = true.
  Proof.
    intros R B. destruct (decode_encode_contains c OK start len R) as ([[[x y] ex] ey] & D & I).
    unfold box_touch. rewrite D. unfold in_cell, in_box in *.
    rewrite !andb_true_iff, !qleb_true. lra.
  Qed.

  (* hashing an axis-aligned box: exactly the cells (strings of the hasher's length over the
     alphabet) whose closed box shares a point with the closed query box - provided the per-cell
     test is that geometric truth, the start point (a corner of the box in the implementation) is
     in the box, and every touched cell is interior *)
  Theorem niemeyer_box_exact fuel r :
    in_range c start -> in_box start ->
    (forall gh r', valid_len c len gh -> box_touch gh = true -> decode c gh = Ok r' -> interior3 c r') ->
    niemeyer_flood c len start box_touch fuel = Some r ->
    forall gh, In gh r <-> valid_len c len gh /\ box_touch gh = true.
  Proof.
    intros R B I3 H gh.
    assert (E : forall g, valid_len c len g ->
                  box_touch g = touch_rect box_x0 box_x1 box_y0 box_y1 (cell_index c g))
      by apply box_touch_is_rect.
    rewrite (niemeyer_rect_exact c OK len box_touch box_x0 box_x1 box_y0 box_y1 E) with (start := start) (fuel := fuel) (r := r).
    - split; intros [V T]; (split; [exact V|]); [now rewrite E|now rewrite <- E].
    - intros g r' Vg Tg. apply I3; [exact Vg|now rewrite E].
    - rewrite <- E by (apply encode_len_alphabet, OK). now apply start_touched.
    - exact H.
  Qed.

  (* base 32: it is enough that the index rectangle of the box stays off the outermost ring *)
  Theorem niemeyer_box_exact_geo fuel r :
    cfg_geo c -> in_range c start -> in_box start ->
    (0 < box_x0 /\ box_x1 < grid_nx c len - 1)%Z -> (0 < box_y0 /\ box_y1 < grid_ny c len - 1)%Z ->
    niemeyer_flood c len start box_touch fuel = Some r ->
    forall gh, In gh r <-> valid_len c len gh /\ box_touch gh = true.
  Proof.
    intros G R B Hx Hy. apply niemeyer_box_exact; [exact R|exact B|].
    intros gh r' [L V] T D. rewrite (box_touch_is_rect gh (conj L V)) in T.
    destruct (cell_index c gh) as [i j] eqn:E. apply touch_rect_spec in T.
    apply (interior3_of_index c OK gh r' G D); rewrite E, L; cbn [fst snd]; lia.
  Qed.

  Theorem niemeyer_box_terminates_geo fuel :
    cfg_geo c -> in_range c start -> in_box start ->
    (0 < box_x0 /\ box_x1 < grid_nx c len - 1)%Z -> (0 < box_y0 /\ box_y1 < grid_ny c len - 1)%Z ->
    (length (all_strs (charset c) len) + 2 <= fuel)%nat ->
    exists r, niemeyer_flood c len start box_touch fuel = Some r /\
              forall gh, In gh r <-> valid_len c len gh /\ box_touch gh = true.
  Proof.
    intros G R B Hx Hy F.
    destruct (niemeyer_flood_terminates c OK len box_touch start fuel F) as (r & Hr & _).
    exists r. split; [exact Hr|]. now apply niemeyer_box_exact_geo with (fuel := fuel).
  Qed.
End Box.
