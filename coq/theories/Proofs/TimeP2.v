(* Algebra of the TimeInterval model (family C06b): the order and lattice-like laws that follow
   from the set semantics of TimeP.v.  Everything is over all well-formed intervals. *)
From Coq Require Import QArith Lqa.
From GV Require Import Prelude TimeM TimeP.
Open Scope Z_scope.

(* two well-formed intervals denoting the same set are the same value *)
Lemma mem_ext a b : wf a -> wf b -> (forall t, mem t a <-> mem t b) -> a = b.
Proof.
  intros Wa Wb H. apply mutual_subset_eq; try assumption.
  - apply issubset_spec; try assumption. intros t Ht. apply H. exact Ht.
  - apply issubset_spec; try assumption. intros t Ht. apply H. exact Ht.
Qed.

Lemma issubset_trans a b c : wf a -> wf b -> wf c ->
  issubset a b = true -> issubset b c = true -> issubset a c = true.
Proof.
  intros Wa Wb Wc H1 H2.
  apply issubset_spec; try assumption. intros t Ht.
  apply (proj1 (issubset_spec b c Wb Wc) H2).
  apply (proj1 (issubset_spec a b Wa Wb) H1). exact Ht.
Qed.

Lemma issubset_antisym a b : wf a -> wf b ->
  issubset a b = true -> issubset b a = true -> iv_eqb a b = true.
Proof. intros Wa Wb H1 H2. apply iv_eqb_eq. apply mutual_subset_eq; assumption. Qed.

(* an instant is a subset exactly when its moment is a member *)
Lemma issubset_instant t b : issubset (mkiv t t) b = contains_dt b t.
Proof. unfold issubset, is_instant. cbn. rewrite Z.eqb_refl. reflexivity. Qed.

Lemma intersects_instant a t : wf a -> intersects a (mkiv t t) = contains_dt a t.
Proof.
  intros Wa. rewrite intersects_negb; [|exact Wa|unfold wf; cbn; lia].
  unfold isdisjoint, is_instant. cbn [st en]. rewrite Z.eqb_refl.
  destruct (st a =? en a) eqn:E.
  - unfold contains_dt, is_instant. cbn [st en]. rewrite Z.eqb_refl, E.
    rewrite negb_involutive. apply Z.eqb_sym.
  - rewrite negb_involutive. reflexivity.
Qed.

(* ---- intersection ---- *)
Lemma intersection_comm a b : wf a -> wf b -> intersection a b = intersection b a.
Proof.
  intros Wa Wb. unfold intersection. rewrite (isdisjoint_sym a b Wa Wb).
  rewrite (Z.max_comm (st a)), (Z.min_comm (en a)). reflexivity.
Qed.

Lemma intersection_idem a : wf a -> intersection a a = Ok (Some a).
Proof.
  intros Wa. pose proof (intersection_spec a a Wa Wa) as H.
  destruct (intersection a a) as [[c|]|e]; try contradiction.
  - destruct H as [Wc Hc]. f_equal. f_equal. apply mem_ext; try assumption.
    intros t. rewrite Hc. tauto.
  - exfalso. apply H. destruct (nonempty a Wa) as [t Ht]. exists t. tauto.
Qed.

Lemma intersection_none_iff a b : wf a -> wf b ->
  (intersection a b = Ok None <-> isdisjoint a b = true).
Proof.
  intros Wa Wb. pose proof (intersection_spec a b Wa Wb) as H.
  rewrite isdisjoint_spec by assumption.
  destruct (intersection a b) as [[c|]|e]; try contradiction.
  - destruct H as [Wc Hc]. split; [discriminate|].
    intros N. exfalso. apply N. destruct (nonempty c Wc) as [t Ht]. exists t. apply Hc. exact Ht.
  - tauto.
Qed.

Lemma intersection_some_iff a b : wf a -> wf b ->
  ((exists c, intersection a b = Ok (Some c)) <-> intersects a b = true).
Proof.
  intros Wa Wb. rewrite intersects_negb by assumption. rewrite negb_true_iff.
  pose proof (intersection_none_iff a b Wa Wb) as N.
  pose proof (intersection_spec a b Wa Wb) as H.
  destruct (intersection a b) as [[c|]|e]; try contradiction.
  - split; [|eauto]. intros _. destruct (isdisjoint a b); [|reflexivity].
    destruct N as [_ N]. discriminate (N eq_refl).
  - split; [intros [c Hc]; discriminate|]. intros D.
    destruct N as [N _]. rewrite (N eq_refl) in D. discriminate.
Qed.

(* the intersection is a lower bound ... *)
Lemma intersection_lower a b c : wf a -> wf b -> intersection a b = Ok (Some c) ->
  wf c /\ issubset c a = true /\ issubset c b = true.
Proof.
  intros Wa Wb E. pose proof (intersection_spec a b Wa Wb) as H. rewrite E in H.
  destruct H as [Wc Hc]. split; [exact Wc|].
  split; apply issubset_spec; try assumption; intros t Ht; apply Hc in Ht; tauto.
Qed.

(* ... and the greatest one *)
Lemma intersection_greatest a b d : wf a -> wf b -> wf d ->
  issubset d a = true -> issubset d b = true ->
  exists c, intersection a b = Ok (Some c) /\ issubset d c = true.
Proof.
  intros Wa Wb Wd Ha Hb. pose proof (intersection_spec a b Wa Wb) as H.
  destruct (intersection a b) as [[c|]|e]; try contradiction.
  - destruct H as [Wc Hc]. exists c. split; [reflexivity|].
    apply issubset_spec; try assumption. intros t Ht. apply Hc. split.
    + apply (proj1 (issubset_spec d a Wd Wa) Ha). exact Ht.
    + apply (proj1 (issubset_spec d b Wd Wb) Hb). exact Ht.
  - exfalso. apply H. destruct (nonempty d Wd) as [t Ht]. exists t. split.
    + apply (proj1 (issubset_spec d a Wd Wa) Ha). exact Ht.
    + apply (proj1 (issubset_spec d b Wd Wb) Hb). exact Ht.
Qed.

Lemma issubset_iff_intersection a b : wf a -> wf b ->
  (issubset a b = true <-> intersection a b = Ok (Some a)).
Proof.
  intros Wa Wb. split.
  - intros S. pose proof (intersection_spec a b Wa Wb) as H.
    destruct (intersection a b) as [[c|]|e]; try contradiction.
    + destruct H as [Wc Hc]. f_equal. f_equal. apply mem_ext; try assumption.
      intros t. rewrite Hc. split; [tauto|]. intros Ht. split; [exact Ht|].
      apply (proj1 (issubset_spec a b Wa Wb) S). exact Ht.
    + exfalso. apply H. destruct (nonempty a Wa) as [t Ht]. exists t. split; [exact Ht|].
      apply (proj1 (issubset_spec a b Wa Wb) S). exact Ht.
  - intros E. apply (intersection_lower a b a Wa Wb E).
Qed.

(* option-lifted intersection, for associativity: None absorbs *)
Definition inter_opt (x : res (option iv)) (c : iv) : res (option iv) :=
  match x with
  | Ok (Some ab) => intersection ab c
  | Ok None => Ok None
  | Err e => Err e
  end.

Definition omem (t : Q) (x : res (option iv)) : Prop :=
  match x with Ok (Some c) => mem t c | _ => False end.

Definition owf (x : res (option iv)) : Prop :=
  match x with Ok (Some c) => wf c | Ok None => True | Err _ => False end.

Lemma omem_intersection a b t : wf a -> wf b ->
  owf (intersection a b) /\ (omem t (intersection a b) <-> mem t a /\ mem t b).
Proof.
  intros Wa Wb. pose proof (intersection_spec a b Wa Wb) as H.
  destruct (intersection a b) as [[c|]|e]; cbn; try contradiction.
  - destruct H as [Wc Hc]. split; [exact Wc|apply Hc].
  - split; [exact I|]. split; [tauto|]. intros [H1 H2]. apply H. exists t. tauto.
Qed.

Lemma omem_inter_opt x c t : owf x -> wf c ->
  owf (inter_opt x c) /\ (omem t (inter_opt x c) <-> omem t x /\ mem t c).
Proof.
  intros Wx Wc. destruct x as [[ab|]|e]; cbn in *; try contradiction.
  - apply omem_intersection; assumption.
  - split; [exact I|tauto].
Qed.

Lemma ores_ext x y : owf x -> owf y -> (forall t, omem t x <-> omem t y) -> x = y.
Proof.
  intros Wx Wy H. destruct x as [[c|]|e], y as [[d|]|e']; cbn in *; try contradiction.
  - f_equal. f_equal. apply mem_ext; assumption.
  - exfalso. destruct (nonempty c Wx) as [t Ht]. apply (H t). exact Ht.
  - exfalso. destruct (nonempty d Wy) as [t Ht]. apply (H t). exact Ht.
  - reflexivity.
Qed.

Lemma intersection_assoc a b c : wf a -> wf b -> wf c ->
  inter_opt (intersection a b) c =
  match intersection b c with
  | Ok (Some bc) => intersection a bc
  | Ok None => Ok None
  | Err e => Err e
  end.
Proof.
  intros Wa Wb Wc.
  assert (L : forall t, owf (inter_opt (intersection a b) c) /\
              (omem t (inter_opt (intersection a b) c) <-> (mem t a /\ mem t b) /\ mem t c)).
  { intros t. destruct (omem_intersection a b t Wa Wb) as [W1 M1].
    destruct (omem_inter_opt (intersection a b) c t W1 Wc) as [W2 M2].
    split; [exact W2|]. rewrite M2, M1. tauto. }
  set (rhs := match intersection b c with
              | Ok (Some bc) => intersection a bc | Ok None => Ok None | Err e => Err e end).
  assert (R : forall t, owf rhs /\ (omem t rhs <-> mem t a /\ (mem t b /\ mem t c))).
  { intros t. subst rhs. destruct (omem_intersection b c t Wb Wc) as [W1 M1].
    destruct (intersection b c) as [[bc|]|e]; cbn in *; try contradiction.
    - destruct (omem_intersection a bc t Wa W1) as [W2 M2]. split; [exact W2|].
      rewrite M2, M1. tauto.
    - split; [exact I|]. tauto. }
  apply ores_ext.
  - apply (L 0%Q).
  - apply (R 0%Q).
  - intros t. rewrite (proj2 (L t)), (proj2 (R t)). tauto.
Qed.

(* ---- union (the hull) ---- *)
Lemma union_comm a b : union a b = union b a.
Proof. unfold union. rewrite Z.min_comm, Z.max_comm. reflexivity. Qed.

Lemma union_idem a : wf a -> union a a = Ok a.
Proof.
  intros Wa. rewrite union_ok by assumption. rewrite Z.min_id, Z.max_id. destruct a; reflexivity.
Qed.

Lemma union_wf a b : wf a -> wf b -> wf (mkiv (Z.min (st a) (st b)) (Z.max (en a) (en b))).
Proof. unfold wf. cbn. lia. Qed.

Lemma union_assoc a b c ab bc : wf a -> wf b -> wf c ->
  union a b = Ok ab -> union b c = Ok bc -> union ab c = union a bc.
Proof.
  intros Wa Wb Wc. rewrite !union_ok by assumption. intros E1 E2.
  injection E1 as <-. injection E2 as <-.
  rewrite !union_ok; try assumption; try (apply union_wf; assumption).
  cbn [st en]. rewrite Z.min_assoc, Z.max_assoc. reflexivity.
Qed.

Lemma issubset_union a b : wf a -> wf b -> issubset a b = true -> union a b = Ok b.
Proof.
  intros Wa Wb S. rewrite union_ok by assumption.
  unfold issubset, contains_dt, is_instant, wf in *.
  destruct b as [sb eb], a as [sa ea]. cbn [st en] in *.
  destruct (sa =? ea) eqn:Ea; [destruct (sb =? eb) eqn:Eb|]; bools; subst;
    f_equal; f_equal; lia.
Qed.

(* absorption: a joined with (a meet b) is a *)
Lemma absorb_union_intersection a b c : wf a -> wf b ->
  intersection a b = Ok (Some c) -> union a c = Ok a.
Proof.
  intros Wa Wb E. destruct (intersection_lower a b c Wa Wb E) as [Wc [S _]].
  rewrite union_comm. apply issubset_union; assumption.
Qed.

(* when neither operand is an instant sitting at the hull's end, the hull contains both
   operands as subsets (the exception is D8, see union_covers_refuted) *)
Lemma union_upper_proper a b c : wf a -> wf b -> st a < en a -> st b < en b ->
  union a b = Ok c -> issubset a c = true /\ issubset b c = true.
Proof.
  intros Wa Wb La Lb. rewrite union_ok by assumption. intros E. injection E as <-.
  unfold issubset, is_instant. cbn [st en].
  destruct (st a =? en a) eqn:Ea; [bools; lia|].
  destruct (st b =? en b) eqn:Eb; [bools; lia|].
  split; apply andb_true_intro; split; apply Z.leb_le; lia.
Qed.

(* monotonicity of the predicates *)
Lemma intersects_mono a b c : wf a -> wf b -> wf c ->
  issubset a b = true -> intersects a c = true -> intersects b c = true.
Proof.
  intros Wa Wb Wc S H. apply intersects_spec; try assumption.
  apply (proj1 (intersects_spec a c Wa Wc)) in H. destruct H as [t [H1 H2]].
  exists t. split; [|exact H2]. apply (proj1 (issubset_spec a b Wa Wb) S). exact H1.
Qed.

Lemma intersects_sym a b : wf a -> wf b -> intersects a b = intersects b a.
Proof.
  intros Wa Wb. rewrite !intersects_negb by assumption. f_equal. apply isdisjoint_sym; assumption.
Qed.

Lemma issubset_intersects a b : wf a -> wf b -> issubset a b = true -> intersects a b = true.
Proof.
  intros Wa Wb S. apply intersects_spec; try assumption.
  destruct (nonempty a Wa) as [t Ht]. exists t. split; [exact Ht|].
  apply (proj1 (issubset_spec a b Wa Wb) S). exact Ht.
Qed.

Lemma contains_dt_mono a b t : wf a -> wf b ->
  issubset a b = true -> contains_dt a t = true -> contains_dt b t = true.
Proof.
  intros Wa Wb S H. apply contains_dt_mem. apply contains_dt_mem in H.
  apply (proj1 (issubset_spec a b Wa Wb) S). exact H.
Qed.
