(* C09, last clause, longitude part: the west and east bounds of GeoCircle.bounds (and of a full
   GeoRing) are within 1 % of the radius of the true longitude extents of the curve, measured in
   metres along the centre's parallel (as harness/c09.py does), for every centre within 75 degrees
   of the equator and every radius up to 10 km.

   With phi the centre latitude, s = sin phi, c = cos phi, e = r / Rearth, d = sqrt 2 * e,
   P = sin d / sqrt 2 and D = c cos d - s P (west; + s P east) the code's longitude offset is
       atan2 (-+ P c) (c D) = -+ atan (P / D),
   and the true half-extent in longitude of the circle is asin (sin e / c) = atan (b),
   b = u / sqrt (1 - u^2), u = sin e / c  (BoundsCurveP4.circle_lon_extent).  Since atan is
   1-Lipschitz it suffices that  c |P/D - b| <= e/100, which follows from
       0.992 e <= c P / D <= 1.008 e    and    0.9999 e <= c b <= 1.00011 e,
   all obtained from x - x^3/6 <= sin x <= x and 1 - x^2/2 <= cos x <= 1 (no derivative). *)
From GV Require Import Prelude SphereM SphereP1 SphereP2 SphereP3 SphereP5 CurveM BoundsCurveM BoundsCurveP2.
From Coq Require Import Reals Lra Machin.
Open Scope R_scope.

(* ------------------------------------------------------------------ atan is 1-Lipschitz on [0, oo) *)
Lemma atan_lip_ordered v u : 0 <= v <= u -> 0 <= atan u - atan v <= u - v.
Proof.
  intros [Hv Hvu].
  assert (Hp : 0 <= u * v) by (apply Rmult_le_pos; lra).
  assert (Hz : 0 <= atan_sub u v <= u - v).
  { unfold atan_sub. split.
    - apply div_pos_nonneg; lra.
    - apply (Rmult_le_reg_r (1 + u * v)); [lra|]. unfold Rdiv. rewrite Rmult_assoc, Rinv_l, Rmult_1_r by lra. nra. }
  pose proof (atan_bound u) as Bu. pose proof (atan_bound v) as Bv.
  pose proof (atan_nonneg v Hv) as Nv.
  assert (Hm : atan v <= atan u).
  { destruct Hvu as [L| ->]; [left; apply atan_increasing; exact L|right; reflexivity]. }
  rewrite (atan_sub_correct u v); [| lra | lra | apply atan_bound].
  pose proof (atan_nonneg _ (proj1 Hz)). pose proof (atan_le_x _ (proj1 Hz)). lra.
Qed.

Lemma atan_lip x y : 0 <= x -> 0 <= y -> Rabs (atan x - atan y) <= Rabs (x - y).
Proof.
  intros Hx Hy. destruct (Rle_or_lt y x) as [L|L].
  - destruct (atan_lip_ordered y x (conj Hy L)). rewrite !Rabs_right by lra. lra.
  - destruct (atan_lip_ordered x y (conj Hx (Rlt_le _ _ L))).
    rewrite (Rabs_left1 (atan x - atan y)), (Rabs_left1 (x - y)) by lra. lra.
Qed.

(* ------------------------------------------------------------------ the core estimate *)
Section Lon.
  Variables s c e : R.
  Hypothesis Hs : -1 <= s <= 1.
  Hypothesis Hc : cmin <= c <= 1.
  Hypothesis He : 0 <= e <= emax.
  Let d := sqrt 2 * e.
  Let P := sin d / sqrt 2.
  Let D := c * cos d - s * P.
  Let u := sin e / c.
  Let b := u / sqrt (1 - u²).

  Let He' : 0 <= e <= 157 / 100000. Proof. exact He. Qed.
  Let Hc' : 2588 / 10000 <= c <= 1. Proof. exact Hc. Qed.

  Lemma P_bounds : e - e * e * e / 3 <= P <= e.
  Proof. apply sinP_bounds. lra. Qed.

  Lemma P_nonneg : 0 <= P.
  Proof. pose proof P_bounds. assert (0 <= e - e * e * e / 3) by nra. lra. Qed.

  Lemma D_bounds : c * (1 - e * e) - e <= D <= c + e.
  Proof.
    pose proof P_bounds as [_ HP]. pose proof P_nonneg as HP0.
    pose proof (cosd_bounds e) as [C1 C2]. fold d in C1, C2.
    assert (- e <= s * P <= e) by nra.
    assert (c * (1 - e * e) <= c * cos d <= c) by nra.
    unfold D. lra.
  Qed.

  Lemma D_pos : 1 / 4 < D.
  Proof. pose proof D_bounds as [L _]. assert (1 / 4 < c * (1 - e * e) - e) by nra. lra. Qed.

  (* 0.992 e <= c P / D <= 1.008 e *)
  Lemma cq_bounds : 992 / 1000 * e <= c * (P / D) <= 1008 / 1000 * e.
  Proof.
    pose proof P_bounds as [P1 P2]. pose proof P_nonneg as P0. pose proof D_bounds as [D1 D2]. pose proof D_pos as D0.
    assert (E : c * (P / D) = c * P / D) by (unfold Rdiv; ring). rewrite E.
    split.
    - apply (Rmult_le_reg_r D); [lra|]. unfold Rdiv. rewrite (Rmult_assoc (c * P)), Rinv_l, Rmult_1_r by lra.
      (* 0.992 e D <= 0.992 e (c + e) <= c (e - e^3/3) <= c P *)
      assert (992 / 1000 * e * D <= 992 / 1000 * e * (c + e)) by nra.
      assert (992 / 1000 * e * (c + e) <= c * (e - e * e * e / 3)).
      { assert (0 <= e * (c * (1 - e * e / 3 - 992 / 1000) - 992 / 1000 * e)).
        { apply Rmult_le_pos; [lra|]. nra. }
        nra. }
      assert (c * (e - e * e * e / 3) <= c * P) by nra.
      lra.
    - apply (Rmult_le_reg_r D); [lra|]. unfold Rdiv. rewrite (Rmult_assoc (c * P)), Rinv_l, Rmult_1_r by lra.
      (* c P <= c e <= 1.008 e (c (1 - e^2) - e) <= 1.008 e D *)
      assert (c * P <= c * e) by nra.
      assert (c * e <= 1008 / 1000 * e * (c * (1 - e * e) - e)).
      { assert (0 <= e * (c * (1008 / 1000 * (1 - e * e) - 1) - 1008 / 1000 * e)).
        { apply Rmult_le_pos; [lra|]. nra. }
        nra. }
      assert (1008 / 1000 * e * (c * (1 - e * e) - e) <= 1008 / 1000 * e * D) by nra.
      lra.
  Qed.

  Lemma u_bounds : 0 <= u <= 607 / 100000.
  Proof.
    assert (Q0 : 0 <= sin e) by (apply sin_ge_0; pose proof PI_gt_3; lra).
    pose proof (sin_le_x e (proj1 He')) as Q1.
    unfold u. split.
    - apply div_pos_nonneg; lra.
    - apply (Rmult_le_reg_r c); [lra|]. unfold Rdiv. rewrite Rmult_assoc, Rinv_l, Rmult_1_r by lra. nra.
  Qed.

  Lemma sqrt_u_bounds : 9999 / 10000 <= sqrt (1 - u²) <= 1.
  Proof.
    pose proof u_bounds as Hu. split.
    - (* sqrt y >= y for y in [0, 1] *)
      assert (Hy : 9999 / 10000 <= 1 - u² <= 1) by (unfold Rsqr; nra).
      pose proof (sqrt_sqrt (1 - u²) ltac:(lra)) as Q. pose proof (sqrt_pos (1 - u²)) as Q0.
      assert (sqrt (1 - u²) <= 1).
      { apply Rle_trans with (sqrt 1); [apply sqrt_le_1_alt; lra|rewrite sqrt_1; lra]. }
      nra.
    - apply Rle_trans with (sqrt 1); [apply sqrt_le_1_alt; pose proof (Rle_0_sqr u); lra|rewrite sqrt_1; lra].
  Qed.

  (* 0.9999 e <= c b <= 1.00011 e *)
  Lemma cb_bounds : 9999 / 10000 * e <= c * b <= 100011 / 100000 * e.
  Proof.
    pose proof sqrt_u_bounds as [R1 R2].
    assert (Q0 : 0 <= sin e) by (apply sin_ge_0; pose proof PI_gt_3; lra).
    pose proof (sin_le_x e (proj1 He')) as Q1.
    pose proof (sin_ge_cubic e ltac:(lra)) as Q2.
    assert (Ecu : c * u = sin e) by (unfold u; field; lra).
    assert (E : c * b = sin e / sqrt (1 - u²)) by (rewrite <- Ecu; unfold b, Rdiv; ring). rewrite E.
    set (k := sqrt (1 - u²)) in *.
    assert (Qk : sin e / k * k = sin e) by (field; lra).
    split.
    - apply (Rmult_le_reg_r k); [lra|]. rewrite Qk.
      assert (9999 / 10000 * e * k <= 9999 / 10000 * e) by nra.
      assert (9999 / 10000 * e <= e - e * e * e / 6) by nra.
      lra.
    - apply (Rmult_le_reg_r k); [lra|]. rewrite Qk.
      assert (e <= 100011 / 100000 * e * k) by nra.
      lra.
  Qed.

  Lemma q_nonneg : 0 <= P / D.
  Proof. apply div_pos_nonneg; [pose proof D_pos; lra|apply P_nonneg]. Qed.

  Lemma b_nonneg : 0 <= b.
  Proof. unfold b. apply div_pos_nonneg; [pose proof sqrt_u_bounds; lra|apply u_bounds]. Qed.

  Lemma lon_core : c * Rabs (atan (P / D) - atan b) <= e / 100.
  Proof.
    pose proof (atan_lip _ _ q_nonneg b_nonneg) as L.
    pose proof cq_bounds as [A1 A2]. pose proof cb_bounds as [B1 B2].
    assert (K : c * Rabs (P / D - b) <= 82 / 10000 * e).
    { rewrite <- (Rabs_right c) at 1 by lra. rewrite <- Rabs_mult.
      replace (c * (P / D - b)) with (c * (P / D) - c * b) by ring. apply Rabs_le. lra. }
    assert (c * Rabs (atan (P / D) - atan b) <= c * Rabs (P / D - b)) by (apply Rmult_le_compat_l; lra).
    lra.
  Qed.

  Lemma asin_u : asin u = atan b.
  Proof. unfold b. apply asin_atan. pose proof u_bounds. lra. Qed.
End Lon.

(* ------------------------------------------------------------------ the longitude offsets of the two corners *)
Lemma centre_facts' x : Rabs x <= 75 -> cmin <= cos (rad x) <= 1 /\ -1 <= sin (rad x) <= 1.
Proof.
  intros H. destruct (centre_facts x H) as (_ & C & S). split; [split; [exact C|apply COS_bound]|exact S].
Qed.

Section Corner.
  Variables phi e : R.
  Hypothesis Hc : cmin <= cos phi <= 1.
  Hypothesis He : 0 <= e <= emax.
  Let d := sqrt 2 * e.
  Let s := sin phi.
  Let c := cos phi.
  Let P := sin d / sqrt 2.

  Let Hs : -1 <= s <= 1. Proof. apply SIN_bound. Qed.
  Let Hs' : -1 <= - s <= 1. Proof. pose proof Hs. lra. Qed.
  Let sc : s * s + c * c = 1. Proof. apply sc1. Qed.
  Let Hc' : 2588 / 10000 <= c <= 1. Proof. exact Hc. Qed.

  Lemma west_offset :
    atan2 (sin (rad 315) * sin d * cos phi) (cos d - sin phi * s2_of phi d (rad 315))
    = - atan (P / (c * cos d - s * P)).
  Proof.
    pose proof (D_pos s c e Hs Hc He) as D0. fold d P in D0.
    unfold s2_of. rewrite sin_rad_315, cos_rad_315. fold s c.
    set (D := c * cos d - s * P) in *.
    assert (EX : cos d - s * (s * cos d + c * sin d * (1 / sqrt 2)) = c * D).
    { unfold D, P. replace (s * (s * cos d + c * sin d * (1 / sqrt 2)))
        with (s * s * cos d + s * c * (sin d / sqrt 2)) by (unfold Rdiv; ring).
      replace (s * s) with (1 - c * c) by lra. ring. }
    rewrite EX. rewrite atan2_pos by nra.
    replace (- (1 / sqrt 2) * sin d * c / (c * D)) with (- (P / D)).
    - apply atan_opp.
    - unfold P. pose proof sqrt2_bounds. field. repeat split; lra.
  Qed.

  Lemma east_offset :
    atan2 (sin (rad 135) * sin d * cos phi) (cos d - sin phi * s2_of phi d (rad 135))
    = atan (P / (c * cos d - - s * P)).
  Proof.
    pose proof (D_pos (- s) c e Hs' Hc He) as D0. fold d P in D0.
    unfold s2_of. rewrite sin_rad_135, cos_rad_135. fold s c.
    set (D := c * cos d - - s * P) in *.
    assert (EX : cos d - s * (s * cos d + c * sin d * - (1 / sqrt 2)) = c * D).
    { unfold D, P. replace (s * (s * cos d + c * sin d * - (1 / sqrt 2)))
        with (s * s * cos d - s * c * (sin d / sqrt 2)) by (unfold Rdiv; ring).
      replace (s * s) with (1 - c * c) by lra. ring. }
    rewrite EX. rewrite atan2_pos by nra.
    f_equal. unfold P. pose proof sqrt2_bounds. field. repeat split; lra.
  Qed.
End Corner.

(* ------------------------------------------------------------------ the statements about circle_bounds *)
(* the true longitude extents of the circle of radius r about c are
   rad (lon c) -+ asin (sin (r / Rearth) / cos (rad (lat c)))  (radians, before any wrap at +-180):
   BoundsCurveP4.circle_lon_extent.  The error is measured in metres along the centre's parallel:
   Rearth * cos (centre latitude) * (difference in radians). *)
Theorem circle_bounds_west c r :
  Rabs (lat c) <= 75 -> 0 <= r <= 10000 ->
  Rearth * cos (rad (lat c)) *
    Rabs (rad (rb_minlon (circle_bounds c r)) - (rad (lon c) - asin (sin (r / Rearth) / cos (rad (lat c)))))
  <= r / 100.
Proof.
  intros Hl Hr. destruct (centre_facts' _ Hl) as (Hc & Hs). pose proof (radius_facts r Hr) as He.
  unfold circle_bounds, rb_minlon; cbn [fst snd]. unfold dest_deg. rewrite lon_of_dest, corner_distance.
  rewrite (west_offset _ _ Hc He).
  rewrite (asin_u _ _ Hc He).
  pose proof (lon_core _ _ _ Hs Hc He) as K.
  set (e := r / Rearth) in *. set (A := atan (_ / _)) in *. set (B := atan _) in K |- *.
  replace (rad (lon c) + - A - (rad (lon c) - B)) with (- (A - B)) by ring. rewrite Rabs_Ropp.
  replace (r / 100) with (Rearth * (e / 100)) by (unfold e, Rearth; field).
  rewrite Rmult_assoc. apply Rmult_le_compat_l; [unfold Rearth; lra|exact K].
Qed.

Theorem circle_bounds_east c r :
  Rabs (lat c) <= 75 -> 0 <= r <= 10000 ->
  Rearth * cos (rad (lat c)) *
    Rabs (rad (rb_maxlon (circle_bounds c r)) - (rad (lon c) + asin (sin (r / Rearth) / cos (rad (lat c)))))
  <= r / 100.
Proof.
  intros Hl Hr. destruct (centre_facts' _ Hl) as (Hc & Hs). pose proof (radius_facts r Hr) as He.
  assert (Hs' : -1 <= - sin (rad (lat c)) <= 1) by lra.
  unfold circle_bounds, rb_maxlon; cbn [fst snd]. unfold dest_deg. rewrite lon_of_dest, corner_distance.
  rewrite (east_offset _ _ Hc He).
  rewrite (asin_u _ _ Hc He).
  pose proof (lon_core _ _ _ Hs' Hc He) as K.
  set (e := r / Rearth) in *. set (A := atan (_ / _)) in *. set (B := atan _) in K |- *.
  replace (rad (lon c) + A - (rad (lon c) + B)) with (A - B) by ring.
  replace (r / 100) with (Rearth * (e / 100)) by (unfold e, Rearth; field).
  rewrite Rmult_assoc. apply Rmult_le_compat_l; [unfold Rearth; lra|exact K].
Qed.
