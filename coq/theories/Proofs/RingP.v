(* Proofs about the ring machinery (RingM.v): the orientation test of the code is the sign of
   the shoelace area; what the GeoPolygon constructor establishes; reflexivity of `==`. *)
From GV Require Import Prelude RingM.
Open Scope Z_scope.

(* ---------- small facts ---------- *)

Lemma option_eqb_Z_refl : forall o, option_eqb Z.eqb o o = true.
Proof. destruct o; cbn; [apply Z.eqb_refl|reflexivity]. Qed.

Lemma coord_eqb_refl : forall c, coord_eqb c c = true.
Proof. intros c. unfold coord_eqb. rewrite !Z.eqb_refl, option_eqb_Z_refl. reflexivity. Qed.

Lemma option_eqb_Z_eq : forall a b, option_eqb Z.eqb a b = true -> a = b.
Proof. intros [a|] [b|]; cbn; try discriminate; intros H; [apply Z.eqb_eq in H; subst|]; reflexivity. Qed.

Lemma coord_eqb_eq : forall a b, coord_eqb a b = true -> a = b.
Proof.
  intros [x y z] [x' y' z']; unfold coord_eqb; cbn. intros H.
  apply andb_true_iff in H as [H Hz]. apply andb_true_iff in H as [Hy Hx].
  apply Z.eqb_eq in Hx, Hy. apply option_eqb_Z_eq in Hz. subst. reflexivity.
Qed.

Lemma list_eqb_refl {A} (eqb : A -> A -> bool) : forall l,
  (forall a, In a l -> eqb a a = true) -> list_eqb eqb l l = true.
Proof.
  induction l as [|a l IH]; intros H; cbn; [reflexivity|].
  rewrite (H a (or_introl eq_refl)), IH; [reflexivity|]. intros b Hb. apply H. right. exact Hb.
Qed.

Lemma ring_eqb_refl : forall r, ring_eqb r r = true.
Proof. intros r. apply list_eqb_refl. intros a _. apply coord_eqb_refl. Qed.

Lemma list_eqb_eq {A} (eqb : A -> A -> bool) :
  (forall a b, eqb a b = true -> a = b) -> forall x y, list_eqb eqb x y = true -> x = y.
Proof.
  intros E. induction x as [|a x IH]; intros [|b y]; cbn; try discriminate; [reflexivity|].
  intros H. apply andb_true_iff in H as [H1 H2]. apply E in H1. apply IH in H2. subst. reflexivity.
Qed.

Lemma ring_eqb_eq : forall x y, ring_eqb x y = true -> x = y.
Proof. apply list_eqb_eq. exact coord_eqb_eq. Qed.

(* ---------- closed rings ---------- *)

(* first and last vertex have the same longitude and latitude *)
Definition xy_closed (r : ring) : Prop :=
  match r with
  | [] => True
  | a :: _ => lon (last r a) = lon a /\ lat (last r a) = lat a
  end.

Lemma closedb_xy : forall r, closedb r = true -> xy_closed r.
Proof.
  intros [|a t]; cbn; [trivial|]. intros H. apply coord_eqb_eq in H.
  cbn in H. rewrite <- H. split; reflexivity.
Qed.

Lemma last_app_single {A} : forall (l : list A) x d, last (l ++ [x]) d = x.
Proof. induction l as [|a l IH]; intros x d; [reflexivity|]. cbn -[last]. change (last (a :: l ++ [x]) d) with (last ((a :: l) ++ [x]) d).
  destruct l; [reflexivity|]. cbn. cbn in IH. apply IH. Qed.

Lemma closedb_close_ring : forall r, closedb (close_ring r) = true.
Proof.
  intros [|a t]; [reflexivity|]. unfold close_ring.
  destruct (closedb (a :: t)) eqn:E; [exact E|].
  change ((a :: t) ++ [a]) with (a :: (t ++ [a])). unfold closedb.
  change (a :: t ++ [a]) with ((a :: t) ++ [a]). rewrite last_app_single. apply coord_eqb_refl.
Qed.

Lemma close_ring_closed : forall r, closedb r = true -> close_ring r = r.
Proof. intros [|a t] H; [reflexivity|]. unfold close_ring. rewrite H. reflexivity. Qed.

Lemma last_rev {A} : forall (l : list A) a d, last (rev (a :: l)) d = a.
Proof. intros. cbn [rev]. apply last_app_single. Qed.

Lemma hd_rev_last {A} : forall (l : list A) d, hd d (rev l) = last l d.
Proof.
  induction l as [|a l IH]; intros d; [reflexivity|].
  cbn [rev]. destruct l as [|b l]; [reflexivity|].
  specialize (IH d). cbn [rev] in *.
  destruct (rev l ++ [b]) eqn:E; [destruct (rev l); discriminate|].
  cbn. cbn in IH. exact IH.
Qed.

Lemma closedb_rev : forall r, closedb r = true -> closedb (rev r) = true.
Proof.
  intros [|a t] H; [reflexivity|].
  pose proof (coord_eqb_eq _ _ H) as E.
  destruct (rev (a :: t)) as [|b u] eqn:R.
  - reflexivity.
  - unfold closedb. rewrite <- R. rewrite last_rev.
    assert (Hb : b = last (a :: t) a).
    { pose proof (hd_rev_last (a :: t) a) as Hh. rewrite R in Hh. exact Hh. }
    rewrite Hb, <- E. apply coord_eqb_refl.
Qed.

(* ---------- the shoelace identity ---------- *)

Definition plain_term (a b : coord) : Z := (lon b - lon a) * (lat b + lat a).
Definition psum (l : ring) : Z := zsum (map (fun p => plain_term (fst p) (snd p)) (edges l)).

Lemma edges_cons2 : forall a b t, edges (a :: b :: t) = (a, b) :: edges (b :: t).
Proof. reflexivity. Qed.

Lemma last_cons_default {A} : forall (t : list A) b a, last (b :: t) a = last t b.
Proof.
  induction t as [|c t IH]; intros b a; [reflexivity|].
  change (last (b :: c :: t) a) with (last (c :: t) a). rewrite (IH c a), (IH c b). reflexivity.
Qed.

(* telescoping: sum (x2-x1)(y2+y1) = x_last*y_last - x_first*y_first - 2*area *)
Lemma psum_telescope : forall t a,
  psum (a :: t) = lon (last t a) * lat (last t a) - lon a * lat a - area2 (a :: t).
Proof.
  induction t as [|b t IH]; intros a.
  - unfold psum, area2; cbn. lia.
  - unfold psum, area2 in *. rewrite edges_cons2. cbn [map zsum fold_right fst snd].
    specialize (IH b). unfold zsum in *. rewrite IH.
    rewrite (last_cons_default t b a).
    unfold plain_term, cross. lia.
Qed.

Lemma combine_app_l {A B} : forall (l : list A) (m : list B) x,
  (length m <= length l)%nat -> combine (l ++ [x]) m = combine l m.
Proof.
  induction l as [|a l IH]; intros [|b m] x H; cbn in *; try reflexivity; try lia.
  f_equal. apply IH. lia.
Qed.

Lemma cyc_pairs_edges : forall a t, cyc_pairs (a :: t) = edges ((a :: t) ++ [a]).
Proof.
  intros a t. unfold cyc_pairs, edges. cbn [app tl].
  change (a :: t ++ [a]) with ((a :: t) ++ [a]).
  rewrite combine_app_l; [reflexivity|]. rewrite app_length. cbn. lia.
Qed.

(* all vertices lie within half a turn of longitude of each other: no edge is re-bounded *)
Definition span_ok (half : Z) (r : ring) : Prop :=
  forall a b, In a r -> In b r -> Z.abs (lon a - lon b) <= half.

Lemma adj_lon_nowrap : forall half a b, Z.abs (lon a - lon b) <= half -> adj_lon half a b = lon b.
Proof. intros. unfold adj_lon. destruct (Z.abs (lon a - lon b) >? half) eqn:E; [lia|reflexivity]. Qed.

Lemma ccw_sum_plain : forall half r, span_ok half r ->
  ccw_sum half r = psum (r ++ firstn 1 r).
Proof.
  intros half [|a t] H; [reflexivity|].
  unfold ccw_sum, psum. rewrite cyc_pairs_edges. cbn [firstn].
  f_equal. apply map_ext_in. intros [x y] Hin. cbn [fst snd].
  unfold edge_term, plain_term. rewrite adj_lon_nowrap; [reflexivity|].
  unfold edges in Hin.
  pose proof (in_combine_l _ _ _ _ Hin) as Hx. pose proof (in_combine_r _ _ _ _ Hin) as Hy.
  assert (Hsub : forall c, In c ((a :: t) ++ [a]) -> In c (a :: t)).
  { intros c Hc. apply in_app_or in Hc as [Hc|[Hc|[]]]; [exact Hc|subst; left; reflexivity]. }
  apply H; apply Hsub; [exact Hx|].
  cbn [app tl] in Hy. right. exact Hy.
Qed.

Lemma area2_app_last : forall l b, area2 (l ++ [b]) = area2 l + cross (last l b) b.
Proof.
  induction l as [|a l IH]; intros b.
  - unfold area2, cross; cbn. lia.
  - destruct l as [|c l].
    + unfold area2; cbn. lia.
    + change ((a :: c :: l) ++ [b]) with (a :: c :: (l ++ [b])).
      unfold area2 in *. rewrite !edges_cons2. cbn [map zsum fold_right fst snd].
      specialize (IH b). change (c :: l ++ [b]) with ((c :: l) ++ [b]). unfold zsum in *. rewrite IH.
      replace (last (a :: c :: l) b) with (last (c :: l) b) by reflexivity. lia.
Qed.

(* the sum the code computes, for ANY ring (it closes the ring implicitly) *)
Lemma shoelace_general : forall half r, span_ok half r ->
  ccw_sum half r = - area2 (r ++ firstn 1 r).
Proof.
  intros half r H. rewrite ccw_sum_plain by exact H.
  destruct r as [|a t]; [reflexivity|]. cbn [firstn].
  change ((a :: t) ++ [a]) with (a :: (t ++ [a])).
  rewrite psum_telescope. rewrite last_app_single. lia.
Qed.

Lemma shoelace : forall half r, span_ok half r -> xy_closed r ->
  ccw_sum half r = - area2 r.
Proof.
  intros half r H C. rewrite shoelace_general by exact H.
  destruct r as [|a t]; [reflexivity|]. cbn [firstn]. rewrite area2_app_last.
  destruct C as [Cx Cy]. unfold cross. rewrite Cx, Cy. lia.
Qed.

Lemma is_ccw_area : forall half r, span_ok half r -> xy_closed r ->
  (is_ccw half r = true <-> 0 <= area2 r).
Proof. intros half r H C. unfold is_ccw. rewrite shoelace by assumption. lia. Qed.

Lemma area2_cons : forall a l, area2 (a :: l) = cross a (hd a l) + area2 l.
Proof.
  intros a [|b l]; unfold area2, cross; cbn; [lia|]. reflexivity.
Qed.

Lemma area2_rev : forall r, area2 (rev r) = - area2 r.
Proof.
  induction r as [|a l IH]; [reflexivity|].
  cbn [rev]. rewrite area2_app_last, IH, area2_cons.
  rewrite <- hd_rev_last. rewrite rev_involutive. unfold cross. lia.
Qed.

Lemma span_ok_rev : forall half r, span_ok half r -> span_ok half (rev r).
Proof. intros half r H a b Ha Hb. apply H; apply in_rev; assumption. Qed.

Lemma span_ok_close : forall half r, span_ok half r -> span_ok half (close_ring r).
Proof.
  intros half [|a t] H; [exact H|]. unfold close_ring. destruct (closedb (a :: t)); [exact H|].
  intros x y Hx Hy. apply H.
  - apply in_app_or in Hx as [Hx|[Hx|[]]]; [exact Hx|subst; left; reflexivity].
  - apply in_app_or in Hy as [Hy|[Hy|[]]]; [exact Hy|subst; left; reflexivity].
Qed.

(* ---------- what GeoPolygon.__init__ establishes ---------- *)

Lemma length_close_ring : forall r, (length r <= length (close_ring r))%nat.
Proof.
  intros [|a t]; [cbn; lia|]. unfold close_ring. destruct (closedb (a :: t)); [lia|].
  rewrite app_length. lia.
Qed.

(* outline (is_hole = false): closed, counter-clockwise for the code's own test, area >= 0;
   _is_hole = true: closed, area <= 0 *)
Lemma norm_ring_spec : forall half is_hole r, span_ok half r ->
  let o := norm_ring half is_hole r in
  closedb o = true /\ span_ok half o /\ (length r <= length o)%nat /\
  (if is_hole then area2 o <= 0 else (0 <= area2 o /\ is_ccw half o = true)).
Proof.
  intros half is_hole r H. cbn zeta. unfold norm_ring.
  pose proof (closedb_close_ring r) as Hc. pose proof (span_ok_close _ _ H) as Hs.
  pose proof (length_close_ring r) as Hl.
  set (c := close_ring r) in *.
  pose proof (is_ccw_area half c Hs (closedb_xy _ Hc)) as Ha.
  pose proof (is_ccw_area half (rev c) (span_ok_rev _ _ Hs) (closedb_xy _ (closedb_rev _ Hc))) as Hr.
  rewrite area2_rev in Hr.
  destruct (is_ccw half c) eqn:E; destruct is_hole; cbn [xorb negb].
  - (* ccw, hole: reversed *) repeat split; [apply closedb_rev; exact Hc|apply span_ok_rev; exact Hs|rewrite rev_length; exact Hl|].
    rewrite area2_rev. destruct Ha as [Ha _]. specialize (Ha eq_refl). lia.
  - repeat split; try assumption. apply Ha. reflexivity.
  - repeat split; try assumption.
    destruct (Z_le_gt_dec 0 (area2 c)) as [L|L]; [|lia]. apply Ha in L. discriminate.
  - assert (area2 c < 0).
    { destruct (Z_le_gt_dec 0 (area2 c)) as [L|L]; [|lia]. apply Ha in L. discriminate. }
    repeat split; [apply closedb_rev; exact Hc|apply span_ok_rev; exact Hs|rewrite rev_length; exact Hl| |].
    + rewrite area2_rev. lia.
    + apply Hr. lia.
Qed.

(* a ring that is already closed and counter-clockwise (for the code's test) is left alone *)
Lemma norm_ring_fix : forall half r, closedb r = true -> is_ccw half r = true ->
  norm_ring half false r = r.
Proof.
  intros half r C O. unfold norm_ring. rewrite close_ring_closed by exact C. rewrite O. reflexivity.
Qed.

(* a strictly counter-clockwise closed ring, handed over reversed, is turned back *)
Lemma norm_ring_rev : forall half r, closedb r = true -> is_ccw half (rev r) = false ->
  norm_ring half false (rev r) = r.
Proof.
  intros half r C O. unfold norm_ring. rewrite close_ring_closed by (apply closedb_rev; exact C).
  rewrite O. cbn. apply rev_involutive.
Qed.

Lemma strict_ccw_rev : forall half r, span_ok half r -> closedb r = true -> 0 < area2 r ->
  is_ccw half (rev r) = false.
Proof.
  intros half r H C A.
  pose proof (is_ccw_area half (rev r) (span_ok_rev _ _ H) (closedb_xy _ (closedb_rev _ C))) as Hr.
  rewrite area2_rev in Hr. destruct (is_ccw half (rev r)); [|reflexivity].
  destruct Hr as [Hr _]. specialize (Hr eq_refl). lia.
Qed.

(* orientation of what is exported: linear_rings of a constructed polygon *)
Definition ring_in_span (half : Z) (r : ring) : Prop := span_ok half r.

Lemma exterior_ccw_holes_cw : forall half o hs,
  span_ok half o -> Forall (span_ok half) hs ->
  let p := mk_polygon half o (map (mk_hole half) hs) in
  match linear_rings p with
  | [] => False
  | shell :: holes =>
      closedb shell = true /\ 0 <= area2 shell /\
      Forall (fun h => closedb h = true /\ area2 h <= 0) holes
  end.
Proof.
  intros half o hs Ho Hh. cbn.
  destruct (norm_ring_spec half false o Ho) as (C & _ & _ & A & _).
  repeat split; [exact C|exact A|].
  rewrite map_map. apply Forall_forall. intros h Hin. apply in_map_iff in Hin as (r & <- & Hr).
  rewrite Forall_forall in Hh. specialize (Hh r Hr).
  destruct (norm_ring_spec half false r Hh) as (C' & _ & _ & A' & _).
  unfold mk_hole. split; [apply closedb_rev; exact C'|rewrite area2_rev; lia].
Qed.

(* GeoBox: NW, SW, SE, NE, NW is closed and counter-clockwise when nw really is north-west of se *)
Lemma box_ring_ccw : forall nw se, lon nw <= lon se -> lat se <= lat nw ->
  closedb (box_ring nw se) = true /\ 0 <= area2 (box_ring nw se).
Proof.
  intros nw se Hx Hy. split.
  - unfold box_ring, closedb. cbn. apply coord_eqb_refl.
  - unfold box_ring, area2, cross; cbn. nia.
Qed.

(* ---------- reflexivity of == ---------- *)

Lemma incl_b_refl {A} (eqb : A -> A -> bool) : forall x,
  (forall a, In a x -> eqb a a = true) -> incl_b eqb x x = true.
Proof.
  intros x H. unfold incl_b. apply forallb_forall. intros a Ha.
  apply existsb_exists. exists a. split; [exact Ha|apply H; exact Ha].
Qed.

Lemma seteq_b_refl {A} (eqb : A -> A -> bool) : forall x,
  (forall a, In a x -> eqb a a = true) -> seteq_b eqb x x = true.
Proof. intros x H. unfold seteq_b. rewrite incl_b_refl by exact H. reflexivity. Qed.

Lemma edge_eqb_refl : forall e, edge_eqb e e = true.
Proof. intros [a b]. unfold edge_eqb. cbn. rewrite !coord_eqb_refl. reflexivity. Qed.

Lemma hole_eqb_refl : forall h, hole_eqb h h = true.
Proof. intros h. apply seteq_b_refl. intros e _. apply edge_eqb_refl. Qed.

Lemma outline_eqb_refl : forall o, (2 <= length o)%nat -> outline_eqb o o = true.
Proof.
  intros o H. unfold outline_eqb. rewrite Nat.eqb_refl. cbn [andb].
  destruct (length (removelast o)) eqn:E.
  - destruct o as [|a [|b t]]; cbn in H; try lia. cbn in E. destruct t; discriminate.
  - cbn. rewrite ring_eqb_refl. reflexivity.
Qed.

Lemma polygon_eqb_refl : forall p, (2 <= length (outline p))%nat -> polygon_eqb p p = true.
Proof.
  intros p H. unfold polygon_eqb. rewrite outline_eqb_refl by exact H. rewrite Nat.eqb_refl.
  rewrite seteq_b_refl; [reflexivity|]. intros h _. apply hole_eqb_refl.
Qed.

(* ---------- more about the constructor ---------- *)

Lemma norm_ring_area : forall half h r,
  area2 (norm_ring half h r) = area2 (close_ring r) \/ area2 (norm_ring half h r) = - area2 (close_ring r).
Proof.
  intros half h r. unfold norm_ring. destruct (negb _); [right; apply area2_rev|left; reflexivity].
Qed.

Lemma norm_ring_In : forall half h r c, In c (norm_ring half h r) -> In c r.
Proof.
  intros half h r c. unfold norm_ring.
  assert (Hc : forall x, In x (close_ring r) -> In x r).
  { intros x. destruct r as [|a t]; [auto|]. unfold close_ring. destruct (closedb (a :: t)); [auto|].
    intros Hx. apply in_app_or in Hx as [Hx|[Hx|[]]]; [exact Hx|subst; left; reflexivity]. }
  destruct (negb _); intros H; apply Hc; [apply in_rev|]; exact H.
Qed.

(* closed rings built by appending the first vertex (GeoRing.linear_rings) *)
Lemma closedb_cons_app : forall a u, closedb ((a :: u) ++ [a]) = true.
Proof.
  intros a u. change ((a :: u) ++ [a]) with (a :: (u ++ [a])). unfold closedb.
  change (a :: u ++ [a]) with ((a :: u) ++ [a]). rewrite last_app_single. apply coord_eqb_refl.
Qed.

Lemma closedb_app_first : forall o, closedb (o ++ firstn 1 o) = true.
Proof. intros [|a t]; [reflexivity|]. cbn [firstn]. apply closedb_cons_app. Qed.

Lemma closedb_wedge : forall o i, o <> [] -> closedb (o ++ rev i ++ firstn 1 o) = true.
Proof.
  intros [|a t] i H; [contradiction|]. cbn [firstn]. rewrite app_assoc.
  change ((a :: t) ++ rev i) with (a :: (t ++ rev i)). apply closedb_cons_app.
Qed.

(* ---------- well-formed (constructed) rings and polygons; shared by C13 and C14 ---------- *)

(* z = 0 is dropped by the writers (finding D14) *)
Definition z_ok (c : coord) : Prop := cz c <> Some 0.


Definition ring_zok (r : ring) : Prop := Forall z_ok r.


(* what GeoPolygon.__init__ establishes for an outline (RingP.norm_ring_spec) *)
Definition ring_wf (half : Z) (r : ring) : Prop :=
  (2 <= length r)%nat /\ closedb r = true /\ is_ccw half r = true.

(* a hole that GeoPolygon.from_geojson can turn back: strictly oriented *)
Definition hole_wf (half : Z) (h : ring) : Prop := ring_wf half h /\ is_ccw half (rev h) = false.

Definition polygon_wf (half : Z) (strict : bool) (p : polygon) : Prop :=
  ring_wf half (outline p) /\ ring_zok (outline p) /\
  Forall (fun h => (if strict then hole_wf half h else ring_wf half h) /\ ring_zok h) (pholes p).


Lemma ring_wf_nonempty : forall half r, ring_wf half r -> r <> [].
Proof. intros half [|a t] (L & _); cbn in L; [lia|discriminate]. Qed.


(* ---------- the constructor establishes well-formedness ---------- *)

Lemma norm_ring_zok : forall half h r, ring_zok r -> ring_zok (norm_ring half h r).
Proof.
  intros half h r H. unfold ring_zok in *. rewrite Forall_forall in *.
  intros c Hc. apply H. eapply norm_ring_In. exact Hc.
Qed.

Lemma mk_ring_wf : forall half r, span_ok half r -> (2 <= length r)%nat ->
  ring_wf half (norm_ring half false r).
Proof.
  intros half r H L. destruct (norm_ring_spec half false r H) as (C & _ & Ln & _ & O).
  repeat split; [lia|exact C|exact O].
Qed.

Lemma mk_hole_wf : forall half r, span_ok half r -> (2 <= length r)%nat ->
  area2 (close_ring r) <> 0 -> hole_wf half (mk_hole half r).
Proof.
  intros half r H L A. split; [apply mk_ring_wf; assumption|]. unfold mk_hole.
  destruct (norm_ring_spec half false r H) as (C & Sp & _ & A0 & _).
  apply strict_ccw_rev; [exact Sp|exact C|].
  destruct (norm_ring_area half false r) as [E|E]; lia.
Qed.

(* every GeoPolygon built from in-span vertex lists with non-degenerate holes is well-formed *)
Lemma constructed_polygon_wf : forall half o hs,
  span_ok half o -> (2 <= length o)%nat -> ring_zok o ->
  Forall (fun h => span_ok half h /\ (2 <= length h)%nat /\ ring_zok h /\ area2 (close_ring h) <> 0) hs ->
  polygon_wf half true (mk_polygon half o (map (mk_hole half) hs)).
Proof.
  intros half o hs So Lo Zo Hh. unfold polygon_wf, mk_polygon. cbn [outline pholes].
  repeat split; try (apply mk_ring_wf; assumption); [apply norm_ring_zok; exact Zo|].
  rewrite Forall_forall in *. intros h Hin. apply in_map_iff in Hin as (r & <- & Hr).
  destruct (Hh r Hr) as (S & L & Z & A). split; [apply mk_hole_wf; assumption|].
  apply norm_ring_zok. exact Z.
Qed.

Lemma hole_wf_ring_wf : forall half h, hole_wf half h -> ring_wf half h.
Proof. intros half h [H _]. exact H. Qed.

(* members of a MultiGeoPolygon need no area condition on their holes *)
Lemma constructed_member_wf : forall half o hs,
  span_ok half o -> (2 <= length o)%nat -> ring_zok o ->
  Forall (fun h => span_ok half h /\ (2 <= length h)%nat /\ ring_zok h) hs ->
  polygon_wf half false (mk_polygon half o (map (mk_hole half) hs)).
Proof.
  intros half o hs So Lo Zo Hh. unfold polygon_wf, mk_polygon. cbn [outline pholes].
  repeat split; try (apply mk_ring_wf; assumption); [apply norm_ring_zok; exact Zo|].
  rewrite Forall_forall in *. intros h Hin. apply in_map_iff in Hin as (r & <- & Hr).
  destruct (Hh r Hr) as (S & L & Z). split; [apply mk_ring_wf; assumption|].
  apply norm_ring_zok. exact Z.
Qed.

