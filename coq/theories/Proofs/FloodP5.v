(* C12, the connectivity hypothesis of [hash_exact_partial] discharged on the abstract integer
   grid for the most common touched sets.
     cells = Z * Z (column index, row index), [nbr8] = the eight neighbours in the order
     NiemeyerHasher._get_surrounding produces them (N, NE, E, SE, S, SW, W, NW), [nbr4] = N, E, S, W.
   Proved for EVERY neighbour function that contains the four orthogonal neighbours (so neither
   result relies on diagonal contact):
     lpath_reach   : a touched cell whose L-shaped path from the start cell (along the start row,
                     then along the cell's column) is touched is reachable;
     rect_reach    : a rectangle of cells is reachable from any of its cells;
     flood_lconvex_exact / flood_rect_exact : the flood fill returns EXACTLY the touched cells,
                     for every pop order and every fuel that suffices - unconditional;
     flood_rect_terminates : fuel (w+2)*(h+2)+2 suffices for a w x h rectangle (the flood only
                     ever expands touched cells, so the rectangle plus its one-cell rim is a
                     big enough universe although the grid is infinite).
   Stdlib only; no axioms. *)
From GV Require Import Prelude FloodM FloodP.
Open Scope Z_scope.

Definition gcell := (Z * Z)%type.

Definition gcell_eqb (a b : gcell) : bool := (fst a =? fst b) && (snd a =? snd b).

Lemma gcell_eqb_spec a b : gcell_eqb a b = true <-> a = b.
Proof.
  destruct a as [a1 a2], b as [b1 b2]. unfold gcell_eqb. cbn [fst snd].
  rewrite andb_true_iff, !Z.eqb_eq. split; [intros [-> ->]; reflexivity|intros [= -> ->]; auto].
Qed.

(* from directly above, then clockwise *)
Definition nbr8 (c : gcell) : list gcell :=
  let '(x, y) := c in
  [(x, y + 1); (x + 1, y + 1); (x + 1, y); (x + 1, y - 1);
   (x, y - 1); (x - 1, y - 1); (x - 1, y); (x - 1, y + 1)].

Definition nbr4 (c : gcell) : list gcell :=
  let '(x, y) := c in [(x, y + 1); (x + 1, y); (x, y - 1); (x - 1, y)].

Definition touch_rect (x0 x1 y0 y1 : Z) (c : gcell) : bool :=
  (x0 <=? fst c) && (fst c <=? x1) && (y0 <=? snd c) && (snd c <=? y1).

Lemma touch_rect_spec x0 x1 y0 y1 x y :
  touch_rect x0 x1 y0 y1 (x, y) = true <-> x0 <= x <= x1 /\ y0 <= y <= y1.
Proof. unfold touch_rect. cbn [fst snd]. lia. Qed.

Lemma nbr4_in_nbr8 c n : In n (nbr4 c) -> In n (nbr8 c).
Proof. destruct c as [x y]. cbn. intuition. Qed.

(* x lies between a and b (in either order) *)
Definition between (a b x : Z) : Prop := Z.min a b <= x <= Z.max a b.

Section Grid.
  Variable nbr : gcell -> list gcell.
  Hypothesis nbr_has4 : forall c n, In n (nbr4 c) -> In n (nbr c).
  Variable touch : gcell -> bool.

  Notation greach := (reach gcell nbr touch).

  (* walking along a row *)
  Lemma walk_row start y : forall (n : nat) x0 x,
    Z.abs_nat (x - x0) = n -> greach start (x0, y) ->
    (forall x', between x0 x x' -> touch (x', y) = true) -> greach start (x, y).
  Proof.
    induction n as [|n IH]; intros x0 x D R T.
    - assert (x = x0) by lia. subst x. exact R.
    - assert (Hc : x0 < x \/ x < x0) by lia. destruct Hc as [Hc|Hc].
      + apply reach_step with (c := (x - 1, y)).
        * apply (IH x0 (x - 1)); [lia|exact R|]. intros x' B. apply T. unfold between in *. lia.
        * apply nbr_has4. cbn. right. left. f_equal. lia.
        * apply T. unfold between. lia.
      + apply reach_step with (c := (x + 1, y)).
        * apply (IH x0 (x + 1)); [lia|exact R|]. intros x' B. apply T. unfold between in *. lia.
        * apply nbr_has4. cbn. right. right. right. left. f_equal. lia.
        * apply T. unfold between. lia.
  Qed.

  (* walking along a column *)
  Lemma walk_col start x : forall (n : nat) y0 y,
    Z.abs_nat (y - y0) = n -> greach start (x, y0) ->
    (forall y', between y0 y y' -> touch (x, y') = true) -> greach start (x, y).
  Proof.
    induction n as [|n IH]; intros y0 y D R T.
    - assert (y = y0) by lia. subst y. exact R.
    - assert (Hc : y0 < y \/ y < y0) by lia. destruct Hc as [Hc|Hc].
      + apply reach_step with (c := (x, y - 1)).
        * apply (IH y0 (y - 1)); [lia|exact R|]. intros y' B. apply T. unfold between in *. lia.
        * apply nbr_has4. cbn. left. f_equal. lia.
        * apply T. unfold between. lia.
      + apply reach_step with (c := (x, y + 1)).
        * apply (IH y0 (y + 1)); [lia|exact R|]. intros y' B. apply T. unfold between in *. lia.
        * apply nbr_has4. cbn. right. right. left. f_equal. lia.
        * apply T. unfold between. lia.
  Qed.

  (* the L-shaped (monotone staircase with one corner) path: along the start row to the cell's
     column, then along that column *)
  Definition lpath_touched (start c : gcell) : Prop :=
    (forall x', between (fst start) (fst c) x' -> touch (x', snd start) = true) /\
    (forall y', between (snd start) (snd c) y' -> touch (fst c, y') = true).

  Lemma lpath_reach start c : lpath_touched start c -> greach start c.
  Proof.
    destruct start as [sx sy], c as [cx cy]. unfold lpath_touched. cbn [fst snd]. intros [Hr Hc].
    apply (walk_col (sx, sy) cx (Z.abs_nat (cy - sy)) sy cy eq_refl); [|exact Hc].
    apply (walk_row (sx, sy) sy (Z.abs_nat (cx - sx)) sx cx eq_refl); [constructor|exact Hr].
  Qed.

  (* a touched set that is "L-convex seen from the start cell": every touched cell has its L-path
     touched.  Rectangles are; so is every union of columns standing on a common touched row
     segment that contains the start (histogram-like sets), whatever the column heights. *)
  Definition lconvex_from (start : gcell) : Prop :=
    forall c, touch c = true -> lpath_touched start c.

  Lemma lconvex_connected start :
    lconvex_from start -> forall c, touch c = true -> greach start c.
  Proof. intros H c Hc. apply lpath_reach, H, Hc. Qed.

  Section Pop.
    Variable pop : list gcell -> option (gcell * list gcell).
    Hypothesis pop_none : forall q, pop q = None -> q = [].
    Hypothesis pop_some : forall q x q', pop q = Some (x, q') ->
      In x q /\ (forall y, In y q -> y = x \/ In y q') /\ (forall y, In y q' -> In y q) /\
      (length q' < length q)%nat.

    Lemma flood_lconvex_exact start fuel r :
      lconvex_from start -> touch start = true ->
      flood gcell gcell_eqb nbr touch pop start fuel = Some r ->
      forall c, In c r <-> touch c = true.
    Proof.
      intros L S. apply (hash_exact_partial gcell gcell_eqb gcell_eqb_spec nbr touch pop pop_none pop_some).
      - apply lconvex_connected, L.
      - exact S.
    Qed.
  End Pop.
End Grid.

(* ------------------------------------------------------------------ rectangles *)
Lemma rect_lconvex x0 x1 y0 y1 start :
  touch_rect x0 x1 y0 y1 start = true -> lconvex_from (touch_rect x0 x1 y0 y1) start.
Proof.
  destruct start as [sx sy]. intros S [cx cy] C.
  apply touch_rect_spec in S. apply touch_rect_spec in C.
  unfold lpath_touched, between. cbn [fst snd]. split; intros z B; apply touch_rect_spec; lia.
Qed.

Section Rect.
  Variable nbr : gcell -> list gcell.
  Hypothesis nbr_has4 : forall c n, In n (nbr4 c) -> In n (nbr c).
  Variables x0 x1 y0 y1 : Z.

  Theorem rect_reach start c :
    touch_rect x0 x1 y0 y1 start = true -> touch_rect x0 x1 y0 y1 c = true ->
    reach gcell nbr (touch_rect x0 x1 y0 y1) start c.
  Proof. intros S C. apply lpath_reach; [exact nbr_has4|]. now apply rect_lconvex. Qed.

  Variable pop : list gcell -> option (gcell * list gcell).
  Hypothesis pop_none : forall q, pop q = None -> q = [].
  Hypothesis pop_some : forall q x q', pop q = Some (x, q') ->
    In x q /\ (forall y, In y q -> y = x \/ In y q') /\ (forall y, In y q' -> In y q) /\
    (length q' < length q)%nat.

  Theorem flood_rect_exact start fuel r :
    touch_rect x0 x1 y0 y1 start = true ->
    flood gcell gcell_eqb nbr (touch_rect x0 x1 y0 y1) pop start fuel = Some r ->
    forall c, In c r <-> touch_rect x0 x1 y0 y1 c = true.
  Proof.
    intros S. apply (flood_lconvex_exact nbr nbr_has4 _ pop pop_none pop_some); [|exact S].
    now apply rect_lconvex.
  Qed.
End Rect.

(* ------------------------------------------------------------------ fuel on an infinite grid *)
(* FloodP.flood_complete wants a finite universe closed under the neighbour function; the integer
   grid has none.  But the loop only ever expands the start cell and touched cells, so closure is
   needed there only. *)
Section Fuel.
  Variable cell : Type.
  Variable ceqb : cell -> cell -> bool.
  Hypothesis ceqb_spec : forall a b, ceqb a b = true <-> a = b.
  Variable nbr : cell -> list cell.
  Variable touch : cell -> bool.
  Variable pop : list cell -> option (cell * list cell).
  Hypothesis pop_none : forall q, pop q = None -> q = [].
  Hypothesis pop_some : forall q x q', pop q = Some (x, q') ->
    In x q /\ (forall y, In y q -> y = x \/ In y q') /\ (forall y, In y q' -> In y q) /\
    (length q' < length q)%nat.
  Variable start : cell.
  Variable U : list cell.
  Hypothesis U_closed : forall c, In c U -> c = start \/ touch c = true ->
                                  forall n, In n (nbr c) -> In n U.

  Lemma flood_loop_fuel_touched : forall fuel v c q,
    (forall x, In x q -> In x U /\ (x = start \/ touch x = true)) ->
    (remaining cell ceqb U c + length q < fuel)%nat ->
    exists r, flood_loop cell ceqb nbr touch pop fuel (v, c, q) = Some r.
  Proof.
    induction fuel as [|f IH]; intros v c q Hq M; [lia|]. cbn.
    destruct (pop q) as [[gh q0]|] eqn:P; [|eauto].
    destruct (pop_some _ _ _ P) as (P1 & P2 & P3 & P4).
    destruct (scan cell ceqb touch (nbr gh) (v, c, q0)) as [[v' c'] q'] eqn:S.
    destruct (Hq gh P1) as [HgU Hgt].
    assert (Hn : forall n, In n (nbr gh) -> In n U) by (apply U_closed; assumption).
    pose proof (scan_measure cell ceqb ceqb_spec nbr touch pop pop_none pop_some U _ _ _ _ _ _ _ Hn S) as SM.
    apply IH; [|lia].
    intros x Hx. destruct (scan_spec cell ceqb ceqb_spec nbr touch _ _ _ _ _ _ _ S) as (_ & _ & C).
    apply C in Hx. destruct Hx as [Hx|(Hx & _ & Ht)]; [apply Hq, P3, Hx|].
    split; [now apply Hn|now right].
  Qed.

  Theorem flood_complete_touched fuel :
    In start U -> (length U + 2 <= fuel)%nat ->
    exists r, flood cell ceqb nbr touch pop start fuel = Some r /\
              forall c, In c r <-> reach cell nbr touch start c.
  Proof.
    intros HS F.
    destruct (flood_loop_fuel_touched fuel [start] [] [start]) as [r Hr].
    - intros x [<-|[]]. split; [exact HS|now left].
    - unfold remaining. cbn [length].
      pose proof (filter_length_le (fun _ => true) (fun u => negb (cmem cell ceqb u [])) U (fun _ _ => eq_refl)) as L.
      assert (E : length (filter (fun _ : cell => true) U) = length U).
      { clear. induction U as [|a l IH]; cbn; [reflexivity|now rewrite IH]. }
      lia.
    - exists r. split; [exact Hr|].
      apply (flood_result cell ceqb ceqb_spec nbr touch pop pop_none pop_some start fuel r Hr).
  Qed.
End Fuel.

(* the cells a..a+n-1 *)
Definition zrange (a : Z) (n : nat) : list Z := map (fun i => a + Z.of_nat i) (seq 0 n).

Lemma zrange_In a n x : In x (zrange a n) <-> a <= x < a + Z.of_nat n.
Proof.
  unfold zrange. rewrite in_map_iff. split.
  - intros (i & <- & Hi). apply in_seq in Hi. lia.
  - intro H. exists (Z.to_nat (x - a)). split; [lia|]. apply in_seq. lia.
Qed.

Lemma zrange_length a n : length (zrange a n) = n.
Proof. unfold zrange. now rewrite map_length, seq_length. Qed.

(* the rectangle with a one-cell rim *)
Definition rect_rim (x0 x1 y0 y1 : Z) : list gcell :=
  list_prod (zrange (x0 - 1) (Z.to_nat (x1 - x0 + 3))) (zrange (y0 - 1) (Z.to_nat (y1 - y0 + 3))).

Lemma rect_rim_In x0 x1 y0 y1 x y : x0 <= x1 -> y0 <= y1 ->
  (In (x, y) (rect_rim x0 x1 y0 y1) <-> x0 - 1 <= x <= x1 + 1 /\ y0 - 1 <= y <= y1 + 1).
Proof. intros Hx Hy. unfold rect_rim. rewrite in_prod_iff, !zrange_In. lia. Qed.

Lemma rect_rim_length x0 x1 y0 y1 :
  length (rect_rim x0 x1 y0 y1) = (Z.to_nat (x1 - x0 + 3) * Z.to_nat (y1 - y0 + 3))%nat.
Proof. unfold rect_rim. etransitivity; [apply prod_length|]. now rewrite !zrange_length. Qed.

Section RectFuel.
  Variables x0 x1 y0 y1 : Z.
  Variable pop : list gcell -> option (gcell * list gcell).
  Hypothesis pop_none : forall q, pop q = None -> q = [].
  Hypothesis pop_some : forall q x q', pop q = Some (x, q') ->
    In x q /\ (forall y, In y q -> y = x \/ In y q') /\ (forall y, In y q' -> In y q) /\
    (length q' < length q)%nat.

  (* termination + exactness, 8 neighbours: (w+2)*(h+2)+2 iterations are enough for a w x h
     rectangle, whatever the pop order *)
  Theorem flood_rect_terminates start fuel :
    touch_rect x0 x1 y0 y1 start = true ->
    (Z.to_nat (x1 - x0 + 3) * Z.to_nat (y1 - y0 + 3) + 2 <= fuel)%nat ->
    exists r, flood gcell gcell_eqb nbr8 (touch_rect x0 x1 y0 y1) pop start fuel = Some r /\
              forall c, In c r <-> touch_rect x0 x1 y0 y1 c = true.
  Proof.
    intros S F. destruct start as [sx sy]. pose proof (proj1 (touch_rect_spec _ _ _ _ _ _) S) as S'.
    assert (Hx : x0 <= x1) by lia. assert (Hy : y0 <= y1) by lia.
    destruct (flood_complete_touched gcell gcell_eqb gcell_eqb_spec nbr8 (touch_rect x0 x1 y0 y1)
                pop pop_none pop_some (sx, sy) (rect_rim x0 x1 y0 y1)) with (fuel := fuel) as (r & Hr & _).
    - intros [cx cy] Hc Ht n Hn.
      assert (T : x0 <= cx <= x1 /\ y0 <= cy <= y1).
      { destruct Ht as [Ht|Ht]; [injection Ht as -> ->; exact S'|now apply touch_rect_spec]. }
      destruct n as [nx ny]. apply rect_rim_In; [exact Hx|exact Hy|].
      cbn in Hn. repeat (destruct Hn as [Hn|Hn]; [injection Hn as <- <-; lia|]). destruct Hn.
    - apply rect_rim_In; [exact Hx|exact Hy|]. lia.
    - rewrite rect_rim_length. exact F.
    - exists r. split; [exact Hr|].
      apply (flood_rect_exact nbr8 nbr4_in_nbr8 x0 x1 y0 y1 pop pop_none pop_some (sx, sy) fuel r S Hr).
  Qed.

  (* the same with the four orthogonal neighbours only *)
  Theorem flood_rect_terminates4 start fuel :
    touch_rect x0 x1 y0 y1 start = true ->
    (Z.to_nat (x1 - x0 + 3) * Z.to_nat (y1 - y0 + 3) + 2 <= fuel)%nat ->
    exists r, flood gcell gcell_eqb nbr4 (touch_rect x0 x1 y0 y1) pop start fuel = Some r /\
              forall c, In c r <-> touch_rect x0 x1 y0 y1 c = true.
  Proof.
    intros S F. destruct start as [sx sy]. pose proof (proj1 (touch_rect_spec _ _ _ _ _ _) S) as S'.
    assert (Hx : x0 <= x1) by lia. assert (Hy : y0 <= y1) by lia.
    destruct (flood_complete_touched gcell gcell_eqb gcell_eqb_spec nbr4 (touch_rect x0 x1 y0 y1)
                pop pop_none pop_some (sx, sy) (rect_rim x0 x1 y0 y1)) with (fuel := fuel) as (r & Hr & _).
    - intros [cx cy] Hc Ht n Hn.
      assert (T : x0 <= cx <= x1 /\ y0 <= cy <= y1).
      { destruct Ht as [Ht|Ht]; [injection Ht as -> ->; exact S'|now apply touch_rect_spec]. }
      destruct n as [nx ny]. apply rect_rim_In; [exact Hx|exact Hy|].
      cbn in Hn. repeat (destruct Hn as [Hn|Hn]; [injection Hn as <- <-; lia|]). destruct Hn.
    - apply rect_rim_In; [exact Hx|exact Hy|]. lia.
    - rewrite rect_rim_length. exact F.
    - exists r. split; [exact Hr|].
      apply (flood_rect_exact nbr4 (fun _ _ H => H) x0 x1 y0 y1 pop pop_none pop_some (sx, sy) fuel r S Hr).
  Qed.
End RectFuel.
