(* C09, last clause, GeoEllipse.bounds (any rotation): the code takes the destinations at bearings
   0 / 180 at distance dy = sqrt (a^2 cos^2 w + b^2 sin^2 w) and at bearings 90 / 270 at distance
   dx = sqrt (a^2 sin^2 w + b^2 cos^2 w)  (a, b the semi-axes, w the rotation): the planar bounding box of
   the rotated ellipse laid out from the centre.  The curve is  t |-> dest_rad centre (t + w) (radius_at t).

   Part A (planar): for every unit direction (al, be), max_t radius_at t * (al cos t + be sin t)
                    = sqrt (a^2 al^2 + b^2 be^2)  (Cauchy-Schwarz; attained).
   Part B (sphere, latitude): | lat (dest phi rho beta) - (phi + rho cos beta) | <= rho / 100.
   Part C (sphere, longitude): one-sided comparisons of the offset atan z with the code's atan (tan dx / cos phi).
   Part D: the closed forms of the four numbers of ellipse_bounds.
   Part E: every curve point is at most 1 % of the semi-major axis outside each bound, and some curve point
           comes within 1 % of it; hence each bound is within 1 % of the supremum / infimum over the curve. *)
From GV Require Import Prelude SphereM SphereP1 SphereP2 SphereP3 SphereP5 CurveM CurveP BoundsCurveM BoundsCurveP2 BoundsCurveP3 BoundsCurveP4.
From Coq Require Import Reals Lra.
Open Scope R_scope.

(* ------------------------------------------------------------------ Part A: the planar ellipse *)
Section Support.
  Variable el : ellipse.
  Hypothesis Hb : 0 < e_minor el.
  Hypothesis Hab : e_minor el <= e_major el.
  Let a := e_major el.
  Let b := e_minor el.
  Let Ha : 0 < a. Proof. unfold a. lra. Qed.
  Let Hb' : 0 < b. Proof. exact Hb. Qed.

  Lemma polar_on_ellipse t :
    b * (radius_at el t * cos t) * (b * (radius_at el t * cos t))
    + a * (radius_at el t * sin t) * (a * (radius_at el t * sin t)) = a * b * (a * b).
  Proof.
    unfold radius_at. fold a b.
    destruct (radius_den_bounds el Hb Hab t) as [L U]. fold a b in L, U.
    set (Dn := a * a * (sin t * sin t) + b * b * (cos t * cos t)) in *.
    assert (HD : 0 < Dn) by nra.
    assert (Hq : 0 < sqrt Dn) by (apply sqrt_lt_R0; exact HD).
    assert (Eq : sqrt Dn * sqrt Dn = Dn) by (apply sqrt_sqrt; lra).
    set (q := sqrt Dn) in *.
    replace (b * (a * b / q * cos t) * (b * (a * b / q * cos t)) + a * (a * b / q * sin t) * (a * (a * b / q * sin t)))
      with (a * b * (a * b) * Dn / (q * q)) by (unfold Dn; field; repeat split; lra).
    rewrite Eq. field. lra.
  Qed.

  Lemma support al be t :
    al * al + be * be = 1 ->
    radius_at el t * (al * cos t + be * sin t) <= sqrt (a * a * (al * al) + b * b * (be * be)).
  Proof.
    intros H1. set (rho := radius_at el t).
    pose proof (polar_on_ellipse t) as E. fold rho in E.
    set (h := sqrt _).
    assert (Hh : (a * al) * (a * al) + (b * be) * (b * be) = h * h).
    { unfold h. rewrite sqrt_sqrt; [ring|]. nra. }
    assert (Hh0 : 0 <= h) by apply sqrt_pos.
    assert (Exy : rho * cos t / a * (rho * cos t / a) + rho * sin t / b * (rho * sin t / b) = 1).
    { replace (rho * cos t / a * (rho * cos t / a) + rho * sin t / b * (rho * sin t / b))
        with ((b * (rho * cos t) * (b * (rho * cos t)) + a * (rho * sin t) * (a * (rho * sin t))) / (a * b * (a * b)))
        by (field; repeat split; lra).
      rewrite E. field. repeat split; lra. }
    pose proof (cauchy_schwarz_unit _ _ _ _ _ Exy Hh Hh0) as CS.
    replace (rho * (al * cos t + be * sin t)) with (rho * cos t / a * (a * al) + rho * sin t / b * (b * be)) by (field; repeat split; lra).
    exact CS.
  Qed.

  Lemma support_attained al be :
    al * al + be * be = 1 ->
    exists t, radius_at el t * (al * cos t + be * sin t) = sqrt (a * a * (al * al) + b * b * (be * be)).
  Proof.
    intros H1. set (h := sqrt _).
    assert (Hpos : 0 < a * a * (al * al) + b * b * (be * be)).
    { assert (Hba : b <= a) by exact Hab.
      assert (b * b <= a * a) by nra. assert (0 <= al * al) by nra.
      assert (b * b * (al * al + be * be) <= a * a * (al * al) + b * b * (be * be)) by nra.
      rewrite H1 in H2. nra. }
    assert (Hh : h * h = a * a * (al * al) + b * b * (be * be)) by (unfold h; apply sqrt_sqrt; lra).
    assert (Hh0 : 0 < h) by (unfold h; apply sqrt_lt_R0; exact Hpos).
    set (p := a * a * al / h). set (q := b * b * be / h).
    assert (Epq : a * a * (q * q) + b * b * (p * p) = a * b * (a * b)).
    { unfold p, q.
      replace (a * a * (b * b * be / h * (b * b * be / h)) + b * b * (a * a * al / h * (a * a * al / h)))
        with (a * b * (a * b) * (a * a * (al * al) + b * b * (be * be)) / (h * h)) by (field; repeat split; lra).
      rewrite Hh. field. repeat split; lra. }
    assert (Hn : 0 < p * p + q * q).
    { destruct (Rle_or_lt (p * p + q * q) 0) as [Z|Z]; [exfalso|exact Z].
      assert (P0 : p = 0) by nra. assert (Q0 : q = 0) by nra.
      rewrite P0, Q0 in Epq. assert (0 < a * b) by nra. nra. }
    assert (Hnz : p <> 0 \/ q <> 0).
    { destruct (Req_dec p 0) as [P0|P0]; [right; intros Q0; rewrite P0, Q0 in Hn; lra|left; exact P0]. }
    exists (atan2 q p). unfold radius_at. fold a b.
    rewrite (cos_atan2 q p Hnz), (sin_atan2 q p Hnz).
    set (n := sqrt (p * p + q * q)).
    assert (Hn0 : 0 < n) by (unfold n; apply sqrt_lt_R0; exact Hn).
    assert (Enn : n * n = p * p + q * q) by (unfold n; apply sqrt_sqrt; lra).
    replace (a * a * (q / n * (q / n)) + b * b * (p / n * (p / n)))
      with ((a * a * (q * q) + b * b * (p * p)) / (n * n)) by (field; repeat split; lra).
    rewrite Epq.
    replace (a * b * (a * b) / (n * n)) with ((a * b / n) * (a * b / n)) by (field; repeat split; lra).
    rewrite sqrt_square by (apply div_pos_nonneg; nra).
    replace (a * b / (a * b / n) * (al * (p / n) + be * (q / n))) with (al * p + be * q) by (field; repeat split; lra).
    unfold p, q.
    replace (al * (a * a * al / h) + be * (b * b * be / h)) with ((a * a * (al * al) + b * b * (be * be)) / h) by (field; repeat split; lra).
    rewrite <- Hh. field. lra.
  Qed.
End Support.

(* ------------------------------------------------------------------ Part B: latitude of a destination *)
Lemma cube_le x m : 0 <= x <= m -> x * x * x <= m * m * m.
Proof. intros [H0 H1]. assert (x * x <= m * m) by nra. assert (0 <= x * x) by nra. nra. Qed.

Lemma sin_abs_cubic x m : - m <= x <= m -> m <= 3 -> x - m * m * m / 6 <= sin x <= x + m * m * m / 6.
Proof.
  intros Hx Hm. assert (Hm0 : 0 <= m) by lra.
  assert (0 <= m * m * m) by (assert (0 <= m * m) by nra; nra).
  destruct (Rle_or_lt 0 x) as [P|N].
  - pose proof (sin_ge_cubic x ltac:(lra)). pose proof (sin_le_x x P). pose proof (cube_le x m ltac:(lra)). lra.
  - pose proof (sin_ge_cubic (- x) ltac:(lra)) as A. pose proof (sin_le_x (- x) ltac:(lra)) as B.
    pose proof (cube_le (- x) m ltac:(lra)) as C. rewrite sin_neg in A, B. lra.
Qed.

Lemma core_lat s c ka rho :
  -1 <= s <= 1 -> cmin <= c -> -1 <= ka <= 1 -> 0 <= rho <= emax ->
  s * cos rho + c * (sin rho * ka) <= s * cos (rho * (ka + 1 / 100)) + c * sin (rho * (ka + 1 / 100)).
Proof.
  unfold cmin, emax. intros Hs Hc Hk Hr.
  set (x := rho * (ka + 1 / 100)). set (m := 101 / 100 * rho).
  assert (Hx : - m <= x <= m) by (unfold x, m; nra).
  assert (Hm : m <= 3) by (unfold m; lra).
  destruct (sin_abs_cubic x m Hx Hm) as [SX _].
  pose proof (cos_ge_quad x) as CX. pose proof (cos_le_1 x) as CX1.
  pose proof (cos_ge_quad rho) as CR. pose proof (cos_le_1 rho) as CR1.
  pose proof (sin_ge_cubic rho ltac:(lra)) as SR. pose proof (sin_le_x rho ltac:(lra)) as SR1.
  assert (Hxx : x * x <= m * m) by nra.
  assert (Dc : - (52 / 100 * (rho * rho)) <= s * (cos x - cos rho)).
  { assert (- (52 / 100 * (rho * rho)) <= cos x - cos rho <= 52 / 100 * (rho * rho)) by (unfold m in Hxx; nra). nra. }
  assert (SK : sin rho * ka <= rho * ka + rho * rho * rho / 6).
  { assert (- (rho * rho * rho / 6) <= sin rho - rho <= 0) by lra. nra. }
  set (Ds := sin x - sin rho * ka).
  assert (HDs : rho / 100 - m * m * m / 6 - rho * rho * rho / 6 <= Ds) by (unfold Ds, x in *; lra).
  assert (H0 : 0 <= rho / 100 - m * m * m / 6 - rho * rho * rho / 6) by (unfold m; nra).
  assert (K2 : 2588 / 10000 * (rho / 100 - m * m * m / 6 - rho * rho * rho / 6) <= c * Ds) by nra.
  assert (K3 : 52 / 100 * (rho * rho) <= 2588 / 10000 * (rho / 100 - m * m * m / 6 - rho * rho * rho / 6)) by (unfold m; nra).
  unfold Ds in K2. lra.
Qed.

(* latitude of the destination at bearing beta and angular distance rho, within rho/100 of phi + rho cos beta *)
Section LatAny.
  Variables phi rho beta : R.
  Hypothesis Hphi : - (5 * (PI / 12)) <= phi <= 5 * (PI / 12).
  Hypothesis Hc : cmin <= cos phi.
  Hypothesis Hr : 0 <= rho <= emax.

  Lemma lat_any_upper : asin (s2_of phi rho beta) <= phi + rho * cos beta + rho / 100.
  Proof.
    pose proof half_pi_gt as HP. pose proof (SIN_bound phi) as Hs. pose proof (COS_bound beta) as Hk.
    assert (Hr' : 0 <= rho <= 157 / 100000) by exact Hr.
    replace (phi + rho * cos beta + rho / 100) with (phi + rho * (cos beta + 1 / 100)) by field.
    assert (- (16 / 10000) <= rho * (cos beta + 1 / 100) <= 16 / 10000) by nra.
    apply asin_le_of; [lra|apply s2_range|]. rewrite sin_plus. unfold s2_of.
    pose proof (core_lat (sin phi) (cos phi) (cos beta) rho Hs Hc Hk Hr). lra.
  Qed.

  Lemma lat_any_lower : phi + rho * cos beta - rho / 100 <= asin (s2_of phi rho beta).
  Proof.
    pose proof half_pi_gt as HP. pose proof (SIN_bound phi) as Hs. pose proof (COS_bound beta) as Hk.
    assert (Hr' : 0 <= rho <= 157 / 100000) by exact Hr.
    assert (Hs' : -1 <= - sin phi <= 1) by lra. assert (Hk' : -1 <= - cos beta <= 1) by lra.
    replace (phi + rho * cos beta - rho / 100) with (phi + - (rho * (- cos beta + 1 / 100))) by field.
    assert (- (16 / 10000) <= rho * (- cos beta + 1 / 100) <= 16 / 10000) by nra.
    apply asin_ge_of; [lra|apply s2_range|]. rewrite sin_plus, sin_neg, cos_neg. unfold s2_of.
    pose proof (core_lat (- sin phi) (cos phi) (- cos beta) rho Hs' Hc Hk' Hr). lra.
  Qed.
End LatAny.

(* ------------------------------------------------------------------ Part C: longitude of a destination *)
Section LonAny.
  Variables phi X a' : R.
  Hypothesis Hc : cmin <= cos phi <= 1.
  Hypothesis HX : 0 < X <= a'.
  Hypothesis Ha : a' <= emax.
  Let s := sin phi.
  Let c := cos phi.
  Let Hs : -1 <= s <= 1. Proof. apply SIN_bound. Qed.
  Let Hc' : 2588 / 10000 <= c <= 1. Proof. exact Hc. Qed.
  Let Ha' : a' <= 157 / 100000. Proof. exact Ha. Qed.
  Let HXe : 0 <= X <= emax. Proof. unfold emax in *. lra. Qed.

  (* the tangent of the code's offset: the destination at bearing 90 degrees and angular distance X *)
  Definition zc : R := sin X / (cos phi * cos X).

  Let cosX : 999 / 1000 <= cos X <= 1.
  Proof. pose proof (cos_ge_quad X). pose proof (cos_le_1 X). split; [nra|lra]. Qed.

  Lemma code_east : lon_offset phi X (PI / 2) = atan zc.
  Proof.
    rewrite (lon_offset_eq phi X Hc HXe). f_equal. rewrite sin_PI2, cos_PI2. unfold zc. fold c. field. split; lra.
  Qed.

  Lemma code_west : lon_offset phi X (3 * (PI / 2)) = - atan zc.
  Proof.
    rewrite (lon_offset_eq phi X Hc HXe), <- atan_opp. f_equal. rewrite sin_3PI2, cos_3PI2. unfold zc. fold c. field. split; lra.
  Qed.

  Lemma czc_bounds : 9999 / 10000 * X <= c * zc <= 100001 / 100000 * X.
  Proof.
    pose proof (sin_ge_cubic X ltac:(lra)) as S1. pose proof (sin_le_x X ltac:(lra)) as S2.
    pose proof (cos_ge_quad X) as C1.
    assert (E : c * zc = sin X / cos X) by (unfold zc; fold c; field; split; lra). rewrite E.
    assert (Q : sin X / cos X * cos X = sin X) by (field; lra).
    split; (apply (Rmult_le_reg_r (cos X)); [lra|]); rewrite Q; nra.
  Qed.

  Lemma zc_nonneg : 0 <= zc.
  Proof.
    unfold zc. apply div_pos_nonneg; [fold c; nra|]. apply sin_ge_0; pose proof PI_gt_3; lra.
  Qed.

  Section Point.
    Variables rho beta : R.
    Hypothesis Hr : 0 <= rho <= a'.
    Let Hre : 0 <= rho <= emax. Proof. unfold emax in *. lra. Qed.
    Let G := c * cos rho - s * sin rho * cos beta.
    Let z := sin beta * sin rho / G.

    Let G0 : 1 / 4 < G. Proof. exact (G_pos phi rho Hc Hre beta). Qed.
    Let zG : z * G = sin beta * sin rho. Proof. unfold z. field. lra. Qed.
    Let Hsr : 0 <= sin rho <= rho.
    Proof. split; [apply sin_ge_0; pose proof PI_gt_3; lra|apply sin_le_x; lra]. Qed.
    Let G_bounds : c * (1 - rho * rho / 2) - rho <= G <= c + rho.
    Proof.
      pose proof (cos_ge_quad rho). pose proof (cos_le_1 rho). pose proof (COS_bound beta) as [K1 K2].
      assert (- rho <= s * sin rho <= rho) by nra.
      assert (- rho <= s * sin rho * cos beta <= rho) by nra.
      unfold G. nra.
    Qed.

    Lemma off_eq : lon_offset phi rho beta = atan z.
    Proof. apply (lon_offset_eq phi rho Hc Hre). Qed.

    (* no curve point whose east component is at most X lies more than a'/100 east of the code's bound *)
    Lemma lon_any_upper : rho * sin beta <= X -> c * (lon_offset phi rho beta - atan zc) <= a' / 100.
    Proof.
      intros HX'. rewrite off_eq. pose proof zc_nonneg as Z0. pose proof czc_bounds as [B1 B2].
      destruct (Rle_or_lt z zc) as [L|L].
      - pose proof (atan_le _ _ L). nra.
      - destruct (atan_lip_ordered zc z ltac:(lra)) as [_ Lip].
        assert (Hz : 0 < z) by lra.
        assert (Hp : 0 < sin beta * sin rho) by (rewrite <- zG; nra).
        assert (Hsb : 0 < sin beta) by nra.
        assert (Hnum : sin beta * sin rho <= X) by nra.
        assert (Hcz : c * z <= 1007 / 1000 * X).
        { destruct G_bounds as [GL _].
          assert (c <= 1007 / 1000 * (c * (1 - rho * rho / 2) - rho)) by nra.
          assert (c <= 1007 / 1000 * G) by lra.
          assert (c * (z * G) <= 1007 / 1000 * X * G) by (rewrite zG; nra).
          apply (Rmult_le_reg_r G); [lra|]. lra. }
        nra.
    Qed.

    (* a curve point whose east component is X lies at most a'/100 west of the code's bound *)
    Lemma lon_any_lower : rho * sin beta = X -> c * (atan zc - lon_offset phi rho beta) <= a' / 100.
    Proof.
      intros HX'. rewrite off_eq. pose proof zc_nonneg as Z0. pose proof czc_bounds as [B1 B2].
      assert (Hsb : 0 < sin beta) by nra.
      assert (Hz0 : 0 <= z).
      { unfold z. apply div_pos_nonneg; [lra|]. apply Rmult_le_pos; lra. }
      destruct (Rle_or_lt zc z) as [L|L].
      - pose proof (atan_le _ _ L). nra.
      - destruct (atan_lip_ordered z zc ltac:(lra)) as [_ Lip].
        pose proof (sin_ge_cubic rho ltac:(lra)) as S1.
        assert (Hnum : X * (1 - rho * rho / 6) <= sin beta * sin rho).
        { rewrite <- HX'. assert (rho * (1 - rho * rho / 6) <= sin rho) by lra. nra. }
        assert (Hcz : 993 / 1000 * X <= c * z).
        { destruct G_bounds as [_ GU].
          assert (993 / 1000 * (c + rho) <= c * (1 - rho * rho / 6)) by nra.
          assert (993 / 1000 * G <= c * (1 - rho * rho / 6)) by lra.
          assert (993 / 1000 * X * G <= c * (z * G)) by (rewrite zG; nra).
          apply (Rmult_le_reg_r G); [lra|]. lra. }
        nra.
    Qed.
  End Point.
End LonAny.

Lemma lon_offset_neg phi rho beta :
  cmin <= cos phi <= 1 -> 0 <= rho <= emax -> lon_offset phi rho (- beta) = - lon_offset phi rho beta.
Proof.
  intros Hc Hr. rewrite !(lon_offset_eq phi rho Hc Hr), <- atan_opp, sin_neg, cos_neg.
  pose proof (G_pos phi rho Hc Hr beta). f_equal. field. lra.
Qed.

(* ------------------------------------------------------------------ Part D/E: the ellipse *)
(* latitude / longitude (radians, longitude un-wrapped) of the ellipse's curve point of parameter t
   (CurveM.ellipse_pt takes t = 2 pi i / k) *)
Definition ecurve_lat (s : ellipse) (t : R) : R :=
  rad (lat (dest_rad (e_center s) (t + rad (e_rotation s)) (radius_at s t))).
Definition ecurve_lon (s : ellipse) (t : R) : R :=
  rad (lon (dest_rad (e_center s) (t + rad (e_rotation s)) (radius_at s t))).

Lemma ellipse_pt_is_curve_point s k i :
  rad (lat (ellipse_pt s k i)) = ecurve_lat s (ellipse_angle k i) /\
  rad (lon (ellipse_pt s k i)) = ecurve_lon s (ellipse_angle k i).
Proof. split; reflexivity. Qed.

Lemma rad_0 : rad 0 = 0. Proof. unfold rad; ring. Qed.
Lemma rad_90 : rad 90 = PI / 2. Proof. unfold rad; field. Qed.
Lemma rad_180 : rad 180 = PI. Proof. unfold rad; field. Qed.
Lemma rad_270 : rad 270 = 3 * (PI / 2). Proof. unfold rad; field. Qed.

Lemma lon_of_dest' p theta D :
  rad (lon (dest_rad p theta D)) = rad (lon p) + lon_offset (rad (lat p)) (D / Rearth) theta.
Proof. rewrite lon_of_dest. reflexivity. Qed.

Section Ellipse.
  Variable el : ellipse.
  Hypothesis Hlat : Rabs (lat (e_center el)) <= 75.
  Hypothesis Hb : 0 < e_minor el.
  Hypothesis Hab : e_minor el <= e_major el.
  Hypothesis Ha : e_major el <= 10000.
  Let a := e_major el.
  Let b := e_minor el.
  Let w := rad (e_rotation el).
  Let phi := rad (lat (e_center el)).
  Let dx := ellipse_dx el.
  Let dy := ellipse_dy el.
  Let a' := a / Rearth.

  Let Hphi : - (5 * (PI / 12)) <= phi <= 5 * (PI / 12). Proof. apply (centre_facts _ Hlat). Qed.
  Let Hc : cmin <= cos phi <= 1. Proof. apply (centre_facts' _ Hlat). Qed.
  Let Hc' : 2588 / 10000 <= cos phi <= 1. Proof. exact Hc. Qed.
  Let Hba : 0 < b <= a. Proof. unfold a, b. lra. Qed.
  Let Ha10 : a <= 10000. Proof. exact Ha. Qed.
  Let Ha' : 0 < a' <= emax.
  Proof. unfold a', Rearth, emax. split; [apply Rdiv_lt_0_compat; lra|lra]. Qed.
  Let Re0 : 0 < Rearth. Proof. unfold Rearth; lra. Qed.

  Lemma dxy_eq :
    dy = sqrt (a * a * (cos w * cos w) + b * b * (sin w * sin w)) /\
    dx = sqrt (a * a * (sin w * sin w) + b * b * (cos w * cos w)).
  Proof. split; reflexivity. Qed.

  Lemma mix_bounds x y : x * x + y * y = 1 -> b <= sqrt (a * a * (x * x) + b * b * (y * y)) <= a.
  Proof.
    intros E. assert (0 <= x * x) by nra. assert (0 <= y * y) by nra. assert (b * b <= a * a) by nra.
    split.
    - apply Rle_trans with (sqrt (b * b)); [rewrite sqrt_square by lra; lra|]. apply sqrt_le_1_alt.
      replace (y * y) with (1 - x * x) by lra. nra.
    - apply Rle_trans with (sqrt (a * a)); [|rewrite sqrt_square by lra; lra]. apply sqrt_le_1_alt.
      replace (x * x) with (1 - y * y) by lra. nra.
  Qed.

  Lemma dy_bounds : b <= dy <= a.
  Proof. destruct dxy_eq as [E _]. rewrite E. apply mix_bounds. pose proof (sc1 w). lra. Qed.
  Lemma dx_bounds : b <= dx <= a.
  Proof. destruct dxy_eq as [_ E]. rewrite E. apply mix_bounds. pose proof (sc1 w). lra. Qed.

  Let rho t := radius_at el t.
  Let Hrho t : b <= rho t <= a. Proof. apply radius_at_bounds; assumption. Qed.

  Lemma angular x : 0 <= x <= a -> 0 <= x / Rearth <= a' /\ 0 <= x / Rearth <= emax.
  Proof.
    intros Hx. destruct Ha' as [_ Ha2]. unfold a' in *.
    assert (x / Rearth <= a / Rearth) by (apply Rmult_le_compat_r; [left; apply Rinv_0_lt_compat; lra|lra]).
    assert (0 <= x / Rearth) by (apply div_pos_nonneg; lra).
    lra.
  Qed.

  (* planar extents of the rotated ellipse, from Part A *)
  Lemma north_le t : rho t * cos (t + w) <= dy.
  Proof.
    destruct dxy_eq as [E _]. rewrite E.
    pose proof (support el Hb Hab (cos w) (- sin w) t ltac:(pose proof (sc1 w) as SC; nra)) as K.
    fold a b in K. unfold rho. rewrite cos_plus.
    replace (- sin w * - sin w) with (sin w * sin w) in K by ring. lra.
  Qed.
  Lemma south_le t : - (rho t * cos (t + w)) <= dy.
  Proof.
    destruct dxy_eq as [E _]. rewrite E.
    pose proof (support el Hb Hab (- cos w) (sin w) t ltac:(pose proof (sc1 w) as SC; nra)) as K.
    fold a b in K. unfold rho. rewrite cos_plus.
    replace (- cos w * - cos w) with (cos w * cos w) in K by ring. lra.
  Qed.
  Lemma east_le t : rho t * sin (t + w) <= dx.
  Proof.
    destruct dxy_eq as [_ E]. rewrite E.
    pose proof (support el Hb Hab (sin w) (cos w) t ltac:(pose proof (sc1 w) as SC; nra)) as K.
    fold a b in K. unfold rho. rewrite sin_plus. lra.
  Qed.
  Lemma west_le t : - (rho t * sin (t + w)) <= dx.
  Proof.
    destruct dxy_eq as [_ E]. rewrite E.
    pose proof (support el Hb Hab (- sin w) (- cos w) t ltac:(pose proof (sc1 w) as SC; nra)) as K.
    fold a b in K. unfold rho. rewrite sin_plus.
    replace (- sin w * - sin w) with (sin w * sin w) in K by ring.
    replace (- cos w * - cos w) with (cos w * cos w) in K by ring. lra.
  Qed.
  Lemma north_at : exists t, rho t * cos (t + w) = dy.
  Proof.
    destruct dxy_eq as [E _]. rewrite E.
    destruct (support_attained el Hb Hab (cos w) (- sin w) ltac:(pose proof (sc1 w) as SC; nra)) as [t K].
    fold a b in K. unfold rho. exists t. rewrite cos_plus.
    replace (- sin w * - sin w) with (sin w * sin w) in K by ring. lra.
  Qed.
  Lemma south_at : exists t, - (rho t * cos (t + w)) = dy.
  Proof.
    destruct dxy_eq as [E _]. rewrite E.
    destruct (support_attained el Hb Hab (- cos w) (sin w) ltac:(pose proof (sc1 w) as SC; nra)) as [t K].
    fold a b in K. unfold rho. exists t. rewrite cos_plus.
    replace (- cos w * - cos w) with (cos w * cos w) in K by ring. lra.
  Qed.
  Lemma east_at : exists t, rho t * sin (t + w) = dx.
  Proof.
    destruct dxy_eq as [_ E]. rewrite E.
    destruct (support_attained el Hb Hab (sin w) (cos w) ltac:(pose proof (sc1 w) as SC; nra)) as [t K].
    fold a b in K. unfold rho. exists t. rewrite sin_plus. lra.
  Qed.
  Lemma west_at : exists t, - (rho t * sin (t + w)) = dx.
  Proof.
    destruct dxy_eq as [_ E]. rewrite E.
    destruct (support_attained el Hb Hab (- sin w) (- cos w) ltac:(pose proof (sc1 w) as SC; nra)) as [t K].
    fold a b in K. unfold rho. exists t. rewrite sin_plus.
    replace (- sin w * - sin w) with (sin w * sin w) in K by ring.
    replace (- cos w * - cos w) with (cos w * cos w) in K by ring. lra.
  Qed.

  (* Part D: the four numbers of ellipse_bounds, in radians *)
  Lemma ellipse_maxlat : rad (rb_maxlat (ellipse_bounds el)) = phi + dy / Rearth.
  Proof.
    unfold ellipse_bounds, rb_maxlat; cbn [snd]. unfold dest_deg. rewrite rad_0, lat_of_dest. fold dy phi.
    destruct (angular dy ltac:(pose proof dy_bounds; lra)) as [_ E].
    destruct (lat_bounds_pi _ Hlat _ E) as [B1 B2]. fold phi in B1, B2. apply lat_top; lra.
  Qed.
  Lemma ellipse_minlat : rad (rb_minlat (ellipse_bounds el)) = phi - dy / Rearth.
  Proof.
    unfold ellipse_bounds, rb_minlat; cbn [fst snd]. unfold dest_deg. rewrite rad_180, lat_of_dest. fold dy phi.
    destruct (angular dy ltac:(pose proof dy_bounds; lra)) as [_ E].
    destruct (lat_bounds_pi _ Hlat _ E) as [B1 B2]. fold phi in B1, B2. apply lat_bottom; lra.
  Qed.

  Let X := dx / Rearth.
  Let HX : 0 < X <= a'.
  Proof.
    pose proof dx_bounds. destruct (angular dx ltac:(lra)) as [[_ E] _]. split; [|exact E].
    unfold X. apply Rdiv_lt_0_compat; lra.
  Qed.
  Let HXe : 0 <= X <= emax. Proof. destruct Ha'. lra. Qed.

  Lemma ellipse_maxlon : rad (rb_maxlon (ellipse_bounds el)) = rad (lon (e_center el)) + atan (zc phi X).
  Proof.
    unfold ellipse_bounds, rb_maxlon; cbn [fst snd]. unfold dest_deg. rewrite rad_90, lon_of_dest'. fold dx phi X.
    rewrite (code_east phi X a' Hc HX (proj2 Ha')). reflexivity.
  Qed.
  Lemma ellipse_minlon : rad (rb_minlon (ellipse_bounds el)) = rad (lon (e_center el)) - atan (zc phi X).
  Proof.
    unfold ellipse_bounds, rb_minlon; cbn [fst snd]. unfold dest_deg. rewrite rad_270, lon_of_dest'. fold dx phi X.
    rewrite (code_west phi X a' Hc HX (proj2 Ha')). ring.
  Qed.

  (* the curve points *)
  Lemma ecurve_lat_eq t : ecurve_lat el t = asin (s2_of phi (rho t / Rearth) (t + w)).
  Proof. unfold ecurve_lat. rewrite lat_of_dest. reflexivity. Qed.
  Lemma ecurve_lon_eq t : ecurve_lon el t = rad (lon (e_center el)) + lon_offset phi (rho t / Rearth) (t + w).
  Proof. unfold ecurve_lon. rewrite lon_of_dest'. reflexivity. Qed.

  Lemma scale_m x : Rearth * x <= a / 100 <-> x <= a' / 100.
  Proof.
    unfold a'. split; intros H.
    - apply (Rmult_le_reg_l Rearth); [lra|]. replace (Rearth * (a / Rearth / 100)) with (a / 100) by (field; lra). exact H.
    - replace (a / 100) with (Rearth * (a / Rearth / 100)) by (field; lra). apply Rmult_le_compat_l; lra.
  Qed.

  (* Part E *)
  Theorem ellipse_north :
    (forall t, Rearth * (ecurve_lat el t - rad (rb_maxlat (ellipse_bounds el))) <= a / 100) /\
    (exists t, Rearth * (rad (rb_maxlat (ellipse_bounds el)) - ecurve_lat el t) <= a / 100).
  Proof.
    rewrite ellipse_maxlat. split.
    - intros t. apply scale_m. rewrite ecurve_lat_eq.
      destruct (angular (rho t) ltac:(pose proof (Hrho t); lra)) as [[R0 R1] R2].
      pose proof (lat_any_upper phi _ (t + w) Hphi (proj1 Hc) R2) as U.
      pose proof (north_le t) as P.
      assert (rho t / Rearth * cos (t + w) <= dy / Rearth).
      { replace (rho t / Rearth * cos (t + w)) with (rho t * cos (t + w) / Rearth) by (field; lra).
        apply Rmult_le_compat_r; [left; apply Rinv_0_lt_compat; lra|exact P]. }
      lra.
    - destruct north_at as [t P]. exists t. apply scale_m. rewrite ecurve_lat_eq.
      destruct (angular (rho t) ltac:(pose proof (Hrho t); lra)) as [[R0 R1] R2].
      pose proof (lat_any_lower phi _ (t + w) Hphi (proj1 Hc) R2) as L.
      assert (rho t / Rearth * cos (t + w) = dy / Rearth) by (rewrite <- P; field; lra).
      lra.
  Qed.

  Theorem ellipse_south :
    (forall t, Rearth * (rad (rb_minlat (ellipse_bounds el)) - ecurve_lat el t) <= a / 100) /\
    (exists t, Rearth * (ecurve_lat el t - rad (rb_minlat (ellipse_bounds el))) <= a / 100).
  Proof.
    rewrite ellipse_minlat. split.
    - intros t. apply scale_m. rewrite ecurve_lat_eq.
      destruct (angular (rho t) ltac:(pose proof (Hrho t); lra)) as [[R0 R1] R2].
      pose proof (lat_any_lower phi _ (t + w) Hphi (proj1 Hc) R2) as L.
      pose proof (south_le t) as P.
      assert (- (rho t / Rearth * cos (t + w)) <= dy / Rearth).
      { replace (- (rho t / Rearth * cos (t + w))) with (- (rho t * cos (t + w)) / Rearth) by (field; lra).
        apply Rmult_le_compat_r; [left; apply Rinv_0_lt_compat; lra|exact P]. }
      lra.
    - destruct south_at as [t P]. exists t. apply scale_m. rewrite ecurve_lat_eq.
      destruct (angular (rho t) ltac:(pose proof (Hrho t); lra)) as [[R0 R1] R2].
      pose proof (lat_any_upper phi _ (t + w) Hphi (proj1 Hc) R2) as U.
      assert (- (rho t / Rearth * cos (t + w)) = dy / Rearth) by (rewrite <- P; field; lra).
      lra.
  Qed.

  Theorem ellipse_east :
    (forall t, Rearth * cos phi * (ecurve_lon el t - rad (rb_maxlon (ellipse_bounds el))) <= a / 100) /\
    (exists t, Rearth * cos phi * (rad (rb_maxlon (ellipse_bounds el)) - ecurve_lon el t) <= a / 100).
  Proof.
    rewrite ellipse_maxlon. split.
    - intros t. rewrite Rmult_assoc. apply scale_m. rewrite ecurve_lon_eq.
      destruct (angular (rho t) ltac:(pose proof (Hrho t); lra)) as [R1 R2].
      pose proof (east_le t) as P.
      assert (Q : rho t / Rearth * sin (t + w) <= X).
      { unfold X. replace (rho t / Rearth * sin (t + w)) with (rho t * sin (t + w) / Rearth) by (field; lra).
        apply Rmult_le_compat_r; [left; apply Rinv_0_lt_compat; lra|exact P]. }
      pose proof (lon_any_upper phi X a' Hc HX (proj2 Ha') _ (t + w) R1 Q) as K.
      replace (rad (lon (e_center el)) + lon_offset phi (rho t / Rearth) (t + w) - (rad (lon (e_center el)) + atan (zc phi X)))
        with (lon_offset phi (rho t / Rearth) (t + w) - atan (zc phi X)) by ring.
      exact K.
    - destruct east_at as [t P]. exists t. rewrite Rmult_assoc. apply scale_m. rewrite ecurve_lon_eq.
      destruct (angular (rho t) ltac:(pose proof (Hrho t); lra)) as [R1 R2].
      assert (Q : rho t / Rearth * sin (t + w) = X) by (unfold X; rewrite <- P; field; lra).
      pose proof (lon_any_lower phi X a' Hc HX (proj2 Ha') _ (t + w) R1 Q) as K.
      replace (rad (lon (e_center el)) + atan (zc phi X) - (rad (lon (e_center el)) + lon_offset phi (rho t / Rearth) (t + w)))
        with (atan (zc phi X) - lon_offset phi (rho t / Rearth) (t + w)) by ring.
      exact K.
  Qed.

  Theorem ellipse_west :
    (forall t, Rearth * cos phi * (rad (rb_minlon (ellipse_bounds el)) - ecurve_lon el t) <= a / 100) /\
    (exists t, Rearth * cos phi * (ecurve_lon el t - rad (rb_minlon (ellipse_bounds el))) <= a / 100).
  Proof.
    rewrite ellipse_minlon. split.
    - intros t. rewrite Rmult_assoc. apply scale_m. rewrite ecurve_lon_eq.
      destruct (angular (rho t) ltac:(pose proof (Hrho t); lra)) as [R1 R2].
      pose proof (west_le t) as P.
      assert (Q : rho t / Rearth * sin (- (t + w)) <= X).
      { unfold X. rewrite sin_neg.
        replace (rho t / Rearth * - sin (t + w)) with (- (rho t * sin (t + w)) / Rearth) by (field; lra).
        apply Rmult_le_compat_r; [left; apply Rinv_0_lt_compat; lra|exact P]. }
      pose proof (lon_any_upper phi X a' Hc HX (proj2 Ha') _ (- (t + w)) R1 Q) as K.
      rewrite (lon_offset_neg phi _ (t + w) Hc R2) in K.
      replace (rad (lon (e_center el)) - atan (zc phi X) - (rad (lon (e_center el)) + lon_offset phi (rho t / Rearth) (t + w)))
        with (- lon_offset phi (rho t / Rearth) (t + w) - atan (zc phi X)) by ring.
      exact K.
    - destruct west_at as [t P]. exists t. rewrite Rmult_assoc. apply scale_m. rewrite ecurve_lon_eq.
      destruct (angular (rho t) ltac:(pose proof (Hrho t); lra)) as [R1 R2].
      assert (Q : rho t / Rearth * sin (- (t + w)) = X) by (unfold X; rewrite sin_neg, <- P; field; lra).
      pose proof (lon_any_lower phi X a' Hc HX (proj2 Ha') _ (- (t + w)) R1 Q) as K.
      rewrite (lon_offset_neg phi _ (t + w) Hc R2) in K.
      replace (rad (lon (e_center el)) + lon_offset phi (rho t / Rearth) (t + w) - (rad (lon (e_center el)) - atan (zc phi X)))
        with (atan (zc phi X) - - lon_offset phi (rho t / Rearth) (t + w)) by ring.
      exact K.
  Qed.
End Ellipse.

(* ------------------------------------------------------------------ Part F: against the supremum / infimum over the curve *)
(* m is the least upper bound (greatest lower bound) of f over all parameters: the "true extent" *)
Definition is_sup_of (f : R -> R) (m : R) : Prop := is_lub (fun y => exists t, y = f t) m.
Definition is_inf_of (f : R -> R) (m : R) : Prop := is_lub (fun y => exists t, y = - f t) (- m).

Lemma is_max_is_sup f m : is_max_of f m -> is_sup_of f m.
Proof.
  intros [U [t E]]. split.
  - intros y [t' ->]. apply U.
  - intros b Hb. rewrite <- E. apply Hb. exists t. reflexivity.
Qed.
Lemma is_min_is_inf f m : is_min_of f m -> is_inf_of f m.
Proof.
  intros [U [t E]]. split.
  - intros y [t' ->]. pose proof (U t'). lra.
  - intros b Hb. rewrite <- E. apply Hb. exists t. reflexivity.
Qed.

Lemma sup_within f code k T m :
  0 < k -> (forall t, k * (f t - code) <= T) -> (exists t, k * (code - f t) <= T) ->
  is_sup_of f m -> k * Rabs (code - m) <= T.
Proof.
  intros Hk HU [t0 HL] [UB LB].
  assert (A : m <= code + T / k).
  { apply LB. intros y [t ->]. pose proof (HU t) as H.
    apply (Rmult_le_reg_l k); [exact Hk|]. replace (k * (code + T / k)) with (k * code + T) by (field; lra). lra. }
  assert (B : code - T / k <= m).
  { apply Rle_trans with (f t0); [|apply UB; exists t0; reflexivity].
    apply (Rmult_le_reg_l k); [exact Hk|]. replace (k * (code - T / k)) with (k * code - T) by (field; lra). lra. }
  assert (C : Rabs (code - m) <= T / k) by (apply Rabs_le; lra).
  apply Rle_trans with (k * (T / k)); [apply Rmult_le_compat_l; lra|right; field; lra].
Qed.

Lemma inf_within f code k T m :
  0 < k -> (forall t, k * (code - f t) <= T) -> (exists t, k * (f t - code) <= T) ->
  is_inf_of f m -> k * Rabs (code - m) <= T.
Proof.
  intros Hk HU HL Hm.
  assert (K : k * Rabs (- code - - m) <= T).
  { apply (sup_within (fun t => - f t)); [exact Hk| | |exact Hm].
    - intros t. pose proof (HU t). lra.
    - destruct HL as [t H]. exists t. lra. }
  replace (- code - - m) with (- (code - m)) in K by ring. rewrite Rabs_Ropp in K. exact K.
Qed.

Lemma sup_exists f code k T :
  0 < k -> (forall t, k * (f t - code) <= T) -> exists m, is_sup_of f m.
Proof.
  intros Hk HU.
  destruct (completeness (fun y => exists t, y = f t)) as [m Hm].
  - exists (code + T / k). intros y [t ->]. pose proof (HU t).
    apply (Rmult_le_reg_l k); [exact Hk|]. replace (k * (code + T / k)) with (k * code + T) by (field; lra). lra.
  - exists (f 0), 0. reflexivity.
  - exists m. exact Hm.
Qed.

Lemma inf_exists f code k T :
  0 < k -> (forall t, k * (code - f t) <= T) -> exists m, is_inf_of f m.
Proof.
  intros Hk HU.
  destruct (sup_exists (fun t => - f t) (- code) k T Hk) as [m Hm].
  - intros t. pose proof (HU t). lra.
  - exists (- m). unfold is_inf_of. rewrite Ropp_involutive. exact Hm.
Qed.

(* C09, last sentence, for GeoEllipse (any rotation): N, S, E, W are the suprema / infima of latitude and
   longitude over the curve; tolerance 1 % of the semi-major axis, in metres *)
Theorem ellipse_bounds_match_extents el N S E W :
  Rabs (lat (e_center el)) <= 75 -> 0 < e_minor el -> e_minor el <= e_major el -> e_major el <= 10000 ->
  is_sup_of (ecurve_lat el) N -> is_inf_of (ecurve_lat el) S ->
  is_sup_of (ecurve_lon el) E -> is_inf_of (ecurve_lon el) W ->
  let b := ellipse_bounds el in
  Rearth * Rabs (rad (rb_maxlat b) - N) <= e_major el / 100 /\
  Rearth * Rabs (rad (rb_minlat b) - S) <= e_major el / 100 /\
  Rearth * cos (rad (lat (e_center el))) * Rabs (rad (rb_maxlon b) - E) <= e_major el / 100 /\
  Rearth * cos (rad (lat (e_center el))) * Rabs (rad (rb_minlon b) - W) <= e_major el / 100.
Proof.
  intros Hl Hb Hab Ha HN HS HE HW b.
  destruct (ellipse_north el Hl Hb Hab Ha) as [N1 N2]. destruct (ellipse_south el Hl Hb Hab Ha) as [S1 S2].
  destruct (ellipse_east el Hl Hb Hab Ha) as [E1 E2]. destruct (ellipse_west el Hl Hb Hab Ha) as [W1 W2].
  assert (R0 : 0 < Rearth) by (unfold Rearth; lra).
  assert (C0 : 0 < Rearth * cos (rad (lat (e_center el)))).
  { destruct (centre_facts' _ Hl) as [[C _] _]. unfold cmin in C. apply Rmult_lt_0_compat; lra. }
  unfold b. repeat split.
  - apply (sup_within (ecurve_lat el)); assumption.
  - apply (inf_within (ecurve_lat el)); assumption.
  - apply (sup_within (ecurve_lon el)); assumption.
  - apply (inf_within (ecurve_lon el)); assumption.
Qed.

(* the four extents exist (completeness of R), so the theorem above is not vacuous *)
Theorem ellipse_extents_exist el :
  Rabs (lat (e_center el)) <= 75 -> 0 < e_minor el -> e_minor el <= e_major el -> e_major el <= 10000 ->
  exists N S E W,
    is_sup_of (ecurve_lat el) N /\ is_inf_of (ecurve_lat el) S /\
    is_sup_of (ecurve_lon el) E /\ is_inf_of (ecurve_lon el) W.
Proof.
  intros Hl Hb Hab Ha.
  destruct (ellipse_north el Hl Hb Hab Ha) as [N1 _]. destruct (ellipse_south el Hl Hb Hab Ha) as [S1 _].
  destruct (ellipse_east el Hl Hb Hab Ha) as [E1 _]. destruct (ellipse_west el Hl Hb Hab Ha) as [W1 _].
  assert (R0 : 0 < Rearth) by (unfold Rearth; lra).
  assert (C0 : 0 < Rearth * cos (rad (lat (e_center el)))).
  { destruct (centre_facts' _ Hl) as [[C _] _]. unfold cmin in C. apply Rmult_lt_0_compat; lra. }
  destruct (sup_exists _ _ _ _ R0 N1) as [N HN]. destruct (inf_exists _ _ _ _ R0 S1) as [S HS].
  destruct (sup_exists _ _ _ _ C0 E1) as [E HE]. destruct (inf_exists _ _ _ _ C0 W1) as [W HW].
  exists N, S, E, W. split; [exact HN|]. split; [exact HS|]. split; [exact HE|exact HW].
Qed.

(* ------------------------------------------------------------------ the hypotheses are satisfiable *)
Lemma nonvacuous_curved_bounds :
  let c : coord := (10, 60) in
  let el := mkellipse c 5000 2500 25 [] in
  Rabs (lat c) <= 75 /\ 0 <= 5000 <= 10000 /\
  (exists N S E W, is_max_of (curve_lat c 5000) N /\ is_min_of (curve_lat c 5000) S /\
                   is_max_of (curve_lon c 5000) E /\ is_min_of (curve_lon c 5000) W) /\
  Rabs (lat (e_center el)) <= 75 /\ 0 < e_minor el /\ e_minor el <= e_major el /\ e_major el <= 10000 /\
  (exists N S E W, is_sup_of (ecurve_lat el) N /\ is_inf_of (ecurve_lat el) S /\
                   is_sup_of (ecurve_lon el) E /\ is_inf_of (ecurve_lon el) W).
Proof.
  intros c el.
  assert (L : Rabs (lat c) <= 75) by (unfold c, lat; cbn [snd]; rewrite Rabs_right; lra).
  assert (Hr : 0 <= 5000 <= 10000) by lra.
  split; [exact L|]. split; [exact Hr|]. split.
  { destruct (circle_true_extents c 5000 L Hr) as (A & B & C & D). do 4 eexists. split; [exact A|]. split; [exact B|]. split; [exact C|exact D]. }
  assert (H1 : 0 < e_minor el) by (unfold el; cbn; lra).
  assert (H2 : e_minor el <= e_major el) by (unfold el; cbn; lra).
  assert (H3 : e_major el <= 10000) by (unfold el; cbn; lra).
  split; [exact L|]. split; [exact H1|]. split; [exact H2|]. split; [exact H3|].
  exact (ellipse_extents_exist el L H1 H2 H3).
Qed.
