(* Proofs about the monotone-chain model (HullM.v): uniqueness.  A ring that satisfies the
   clauses of property C10 (closed, vertices among the inputs, no repeated vertex, strict left
   turns all the way round, every input on or left of every edge, starting at the
   lexicographically smallest input) is determined by the SET of inputs; since [hull l] is such a
   ring (HullP4.v), it is the only one: "the" convex hull.
   The argument: in such a ring the successor of a vertex a is the input b <> a that has every
   input on or left of a -> b and no input further out on that ray - and that b is unique.
   Stdlib only; no axioms. *)
From Coq Require Import Sorted.
From GV Require Import Prelude HullM HullP HullP2 HullP3 HullP4.
Open Scope Z_scope.

Definition dot (u v : pt) : Z := fst u * fst v + snd u * snd v.

Lemma dot_cross_id u v w : dot u u * vx w v - dot u v * vx w u = dot w u * vx u v.
Proof. unfold dot, vx. ring. Qed.

Lemma lagrange u v : dot u v * dot u v = dot u u * dot v v - vx u v * vx u v.
Proof. unfold dot, vx. ring. Qed.

Lemma dot_pos u : u <> (0, 0) -> dot u u > 0.
Proof.
  destruct u as [x y]. unfold dot. cbn. intros H.
  assert (x <> 0 \/ y <> 0) as [?|?].
  { destruct (Z.eq_dec x 0); [|auto]. right. intros ->. apply H. congruence. }
  - nia.
  - nia.
Qed.

(* same direction, neither beyond the other: equal *)
Lemma same_dir_eq u u' : u <> (0, 0) -> u' <> (0, 0) -> vx u u' = 0 -> dot u u' > 0 ->
  dot u u' - dot u u <= 0 -> dot u u' - dot u' u' <= 0 -> u = u'.
Proof.
  intros Hu Hu' Hx Hd H1 H2.
  pose proof (lagrange u u') as Lg. rewrite Hx in Lg.
  pose proof (dot_pos u Hu). pose proof (dot_pos u' Hu').
  remember (dot u u') as d. remember (dot u u) as A. remember (dot u' u') as B.
  assert (E2 : d = B).
  { assert (d * d <= A * d) by nia. assert (A * d <= A * B) by nia.
    assert (A * d = A * B) by lia. nia. }
  assert (E1 : d = A).
  { assert (d * d <= B * d) by nia. assert (B * d <= B * A) by nia.
    assert (B * d = B * A) by lia. nia. }
  subst d A B.
  destruct u as [x y], u' as [x' y']. unfold dot in *. cbn in *.
  assert ((x - x') * (x - x') + (y - y') * (y - y') = 0) by lia.
  assert ((x - x') * (x - x') >= 0) by nia. assert ((y - y') * (y - y') >= 0) by nia.
  assert ((x - x') * (x - x') = 0) by lia. assert ((y - y') * (y - y') = 0) by lia.
  assert (x - x' = 0) by nia. assert (y - y' = 0) by nia.
  f_equal; lia.
Qed.

(* opposite directions: a point on the left of both is on the line *)
Lemma opp_dir_line u u' w : u <> (0, 0) -> vx u u' = 0 -> dot u u' < 0 ->
  vx u w >= 0 -> vx u' w >= 0 -> vx u w = 0.
Proof.
  intros Hu Hx Hd H1 H2.
  pose proof (dot_cross_id u u' w) as I. rewrite Hx in I.
  pose proof (dot_pos u Hu).
  assert (vx w u' = - vx u' w) by (unfold vx; ring).
  assert (vx w u = - vx u w) by (unfold vx; ring).
  nia.
Qed.

(* a point beyond b on the ray a -> b is strictly right of the next edge b -> c *)
Lemma beyond_right u v w : u <> (0, 0) -> vx u v = 0 -> dot v u > 0 -> vx u w > 0 -> vx w v < 0.
Proof.
  intros Hu Hx Hd H1.
  pose proof (dot_cross_id u v w) as I. rewrite Hx in I.
  pose proof (dot_pos u Hu).
  assert (vx w u = - vx u w) by (unfold vx; ring).
  assert (dot u v = dot v u) by (unfold dot; ring).
  nia.
Qed.

Definition vsub (a b : pt) : pt := (fst a - fst b, snd a - snd b).

Lemma cross_vx o a b : cross o a b = vx (vsub a o) (vsub b o).
Proof. unfold cross, vx, vsub. cbn. ring. Qed.

Lemma vsub_nz a b : b <> a -> vsub b a <> (0, 0).
Proof.
  intros H E. apply H. unfold vsub in E. injection E as E1 E2.
  destruct a, b; cbn in *. f_equal; lia.
Qed.

Lemma vsub_inj a b b' : vsub b a = vsub b' a -> b = b'.
Proof.
  unfold vsub. intros E. injection E as E1 E2. destruct b, b'; cbn in *. f_equal; lia.
Qed.

Definition noncollinear (l : list pt) : Prop :=
  exists p q r, In p l /\ In q l /\ In r l /\ cross p q r <> 0.

(* b is the next vertex after a, said with the inputs only *)
Definition Succ (l : list pt) (a b : pt) : Prop :=
  In b l /\ b <> a /\ (forall p, In p l -> cross a b p >= 0) /\
  (forall p, In p l -> cross a b p = 0 -> dot (vsub p b) (vsub b a) <= 0).

Lemma succ_unique l a b b' : noncollinear l -> Succ l a b -> Succ l a b' -> b = b'.
Proof.
  intros (p0 & q0 & r0 & Hp0 & Hq0 & Hr0 & Hnc) (Hb & Hne & Hc & Hf) (Hb' & Hne' & Hc' & Hf').
  set (u := vsub b a). set (u' := vsub b' a).
  assert (Hu : u <> (0, 0)) by (apply vsub_nz; exact Hne).
  assert (Hu' : u' <> (0, 0)) by (apply vsub_nz; exact Hne').
  assert (X1 : vx u u' >= 0) by (unfold u, u'; rewrite <- cross_vx; apply Hc, Hb').
  assert (X2 : vx u' u >= 0) by (unfold u, u'; rewrite <- cross_vx; apply Hc', Hb).
  assert (X0 : vx u u' = 0) by (unfold vx in *; lia).
  destruct (Z.lt_trichotomy (dot u u') 0) as [Hd|[Hd|Hd]].
  - (* opposite directions: every input is on the line a b *)
    exfalso. apply Hnc. apply (collinear_with_base a b); auto.
    + assert (forall p, In p l -> cross a b p = 0) as Hl; [|auto].
      intros p Hp. rewrite cross_vx. apply (opp_dir_line u u' (vsub p a) Hu X0 Hd).
      * unfold u. rewrite <- cross_vx. apply Hc, Hp.
      * unfold u'. rewrite <- cross_vx. apply Hc', Hp.
    + rewrite cross_vx. apply (opp_dir_line u u' (vsub q0 a) Hu X0 Hd).
      * unfold u. rewrite <- cross_vx. apply Hc, Hq0.
      * unfold u'. rewrite <- cross_vx. apply Hc', Hq0.
    + rewrite cross_vx. apply (opp_dir_line u u' (vsub r0 a) Hu X0 Hd).
      * unfold u. rewrite <- cross_vx. apply Hc, Hr0.
      * unfold u'. rewrite <- cross_vx. apply Hc', Hr0.
  - exfalso. pose proof (lagrange u u') as Lg. rewrite X0, Hd in Lg.
    pose proof (dot_pos u Hu). pose proof (dot_pos u' Hu'). nia.
  - apply (vsub_inj a). fold u u'. apply same_dir_eq; try assumption; try lia.
    + assert (E : cross a b b' = 0) by (rewrite cross_vx; exact X0).
      pose proof (Hf b' Hb' E) as G. unfold u, u', dot, vsub in *. cbn in *. lia.
    + assert (E : cross a b' b = 0) by (rewrite cross_vx; fold u u'; unfold vx in *; lia).
      pose proof (Hf' b Hb E) as G. unfold u, u', dot, vsub in *. cbn in *. lia.
Qed.

(* a strict left turn a -> b -> c with all inputs left of both edges makes b the successor of a *)
Lemma succ_of_triple l a b c : In b l -> cross a b c > 0 ->
  (forall p, In p l -> cross a b p >= 0) -> (forall p, In p l -> cross b c p >= 0) -> Succ l a b.
Proof.
  intros Hb Ht H1 H2. split; [exact Hb|]. split; [|split; [exact H1|]].
  - intros ->. rewrite cross_rep1 in Ht. lia.
  - intros p Hp E.
    destruct (Z_le_gt_dec (dot (vsub p b) (vsub b a)) 0) as [?|Hd]; [assumption|]. exfalso.
    assert (Hne : b <> a) by (intros ->; rewrite cross_rep1 in Ht; lia).
    pose proof (beyond_right (vsub b a) (vsub p b) (vsub c b) (vsub_nz a b Hne)) as G.
    assert (cross b c p >= 0) by (apply H2, Hp).
    unfold vx, dot, vsub, cross in *. cbn in *.
    assert (((fst c - fst b) * (snd p - snd b) - (snd c - snd b) * (fst p - fst b)) < 0); [|lia].
    apply G; lia.
Qed.

(* ------------------------------------------------------------------ a ring that satisfies the property *)
Section Spec.
  Variable l r : list pt.
  Variable v0 : pt.
  Variable mid : list pt.
  Variable Hshape : r = v0 :: mid ++ [v0].
  Variable Hmem : forall v, In v r -> In v l.
  Variable Hturns : forall l1 a b c l2, r ++ [nth 1 r (0, 0)] = l1 ++ a :: b :: c :: l2 -> cross a b c > 0.
  Variable Hedges : forall p, In p l -> forall l1 a b l2, r = l1 ++ a :: b :: l2 -> cross a b p >= 0.

  Lemma ring_succ : Consec2 (Succ l) r.
  Proof.
    intros l1 a b l2 E.
    assert (Hb : In b l).
    { apply Hmem. rewrite E. apply in_or_app. right. right. left. reflexivity. }
    destruct (app_last_cons mid v0) as (sec & rest & Esec).
    assert (Enth : nth 1 r (0, 0) = sec) by (rewrite Hshape; cbn; rewrite Esec; reflexivity).
    destruct (nil_or_cons l2) as [E2|(c & l2' & E2)]; subst l2.
    - (* (a, b) is the closing edge: b = v0, the next vertex is the second one *)
      assert (b = v0).
      { rewrite Hshape in E. change (l1 ++ [a; b]) with (l1 ++ [a] ++ [b]) in E.
        rewrite app_comm_cons, app_assoc in E. apply app_inj_tail in E. symmetry. apply E. }
      subst b. apply (succ_of_triple l a v0 sec Hb).
      + apply (Hturns l1 a v0 sec []). rewrite Enth, E, <- app_assoc. reflexivity.
      + intros p Hp. apply (Hedges p Hp l1 a v0 [] E).
      + intros p Hp. apply (Hedges p Hp [] v0 sec rest). rewrite Hshape. cbn. rewrite Esec. reflexivity.
    - apply (succ_of_triple l a b c Hb).
      + apply (Hturns l1 a b c (l2' ++ [nth 1 r (0, 0)])). rewrite E, <- app_assoc. reflexivity.
      + intros p Hp. apply (Hedges p Hp l1 a b (c :: l2') E).
      + intros p Hp. apply (Hedges p Hp (l1 ++ [a]) b c l2'). rewrite E, <- app_assoc. reflexivity.
  Qed.
End Spec.

(* two successor walks from the same vertex to the first occurrence of z coincide *)
Lemma walk_unique l z : noncollinear l -> forall Y Y' a,
  Consec2 (Succ l) (a :: Y ++ [z]) -> Consec2 (Succ l) (a :: Y' ++ [z]) ->
  ~ In z Y -> ~ In z Y' -> Y = Y'.
Proof.
  intros Hnc. induction Y as [|b Y IH]; intros Y' a H1 H2 N1 N2.
  - destruct Y' as [|b' Y']; [reflexivity|]. exfalso.
    assert (z = b').
    { apply (succ_unique l a); [exact Hnc| |].
      - apply (H1 [] a z []). reflexivity.
      - apply (H2 [] a b' (Y' ++ [z])). reflexivity. }
    apply N2. left. auto.
  - destruct Y' as [|b' Y'].
    + exfalso. assert (b = z).
      { apply (succ_unique l a); [exact Hnc| |].
        - apply (H1 [] a b (Y ++ [z])). reflexivity.
        - apply (H2 [] a z []). reflexivity. }
      apply N1. left. auto.
    + assert (b = b').
      { apply (succ_unique l a); [exact Hnc| |].
        - apply (H1 [] a b (Y ++ [z])). reflexivity.
        - apply (H2 [] a b' (Y' ++ [z])). reflexivity. }
      subst b'. f_equal. apply (IH Y' b).
      * apply (Consec2_tail _ a). exact H1.
      * apply (Consec2_tail _ a). exact H2.
      * intros H. apply N1. right. exact H.
      * intros H. apply N2. right. exact H.
Qed.

Lemma le2_antisym a b : le2 a b -> le2 b a -> a = b.
Proof.
  intros [H1|H1] [H2|H2]; auto. exfalso. apply (lt2_asym a b H1 H2).
Qed.

(* any ring with the properties of C10 is the one [hull] returns *)
Lemma hull_unique l r v0 mid :
  noncollinear l ->
  r = v0 :: mid ++ [v0] -> NoDup (v0 :: mid) ->
  (forall v, In v r -> In v l) ->
  (forall p, In p l -> le2 v0 p) ->
  (forall l1 a b c l2, r ++ [nth 1 r (0, 0)] = l1 ++ a :: b :: c :: l2 -> cross a b c > 0) ->
  (forall p, In p l -> forall l1 a b l2, r = l1 ++ a :: b :: l2 -> cross a b p >= 0) ->
  r = hull l.
Proof.
  intros Hnc Hshape Hnd Hmem Hmin Hturns Hedges.
  pose proof (ring_succ l r v0 mid Hshape Hmem Hturns Hedges) as HS.
  assert (Hnc' := Hnc). destruct Hnc' as (p0 & q0 & r0 & Hp0 & Hq0 & Hr0 & Hc0).
  assert (Hab : exists a b, In a l /\ In b l /\ a <> b).
  { destruct (pt_eqb p0 q0) eqn:E.
    - apply pt_eqb_spec in E. subst q0. exfalso. apply Hc0. apply cross_rep1.
    - exists p0, q0. split; [assumption|]. split; [assumption|].
      intros ->. assert (pt_eqb q0 q0 = true) by (apply pt_eqb_spec; reflexivity). congruence. }
  destruct Hab as (a & b & Ha & Hb & Hab).
  destruct (hull_ring l a b Ha Hb Hab) as (x0 & xm & L & U & HR & E).
  assert (Hshape' : hull l = x0 :: (L ++ xm :: U) ++ [x0]).
  { rewrite E. unfold ring. rewrite <- app_assoc. reflexivity. }
  assert (HS' : Consec2 (Succ l) (hull l)).
  { apply (ring_succ l (hull l) x0 (L ++ xm :: U) Hshape').
    - apply hull_subset.
    - apply (hull_strict_left l Hnc).
    - intros p Hp. apply (hull_contains l p Hp). }
  assert (x0 = v0).
  { apply le2_antisym.
    - destruct (ir_min _ _ _ _ _ HR v0) as [->|H]; [|right; reflexivity|left; exact H].
      apply Hmem. rewrite Hshape. left. reflexivity.
    - apply Hmin. apply (ir_0 _ _ _ _ _ HR). }
  subst x0. rewrite Hshape, Hshape'. f_equal. f_equal.
  apply (walk_unique l v0 Hnc mid (L ++ xm :: U) v0).
  - rewrite <- Hshape. exact HS.
  - rewrite <- Hshape'. exact HS'.
  - inversion Hnd; assumption.
  - pose proof (ring_nodup _ v0 xm L U (ir_L _ _ _ _ _ HR) (ir_U _ _ _ _ _ HR) (ir_0 _ _ _ _ _ HR)
                  (ir_m _ _ _ _ _ HR) (ir_lt _ _ _ _ _ HR) (ir_min _ _ _ _ _ HR) (ir_max _ _ _ _ _ HR)) as Hn.
    inversion Hn; assumption.
Qed.

Lemma noncollinear_two l : noncollinear l -> exists a b, In a l /\ In b l /\ a <> b.
Proof.
  intros (p0 & q0 & r0 & Hp0 & Hq0 & Hr0 & Hc0).
  destruct (pt_eqb p0 q0) eqn:E.
  - apply pt_eqb_spec in E. subst q0. exfalso. apply Hc0. apply cross_rep1.
  - exists p0, q0. split; [assumption|]. split; [assumption|].
    intros ->. assert (pt_eqb q0 q0 = true) by (apply pt_eqb_spec; reflexivity). congruence.
Qed.

(* and [hull l] is such a ring: all clauses of the property at once *)
Lemma hull_meets_spec l : noncollinear l ->
  exists v0 mid,
    hull l = v0 :: mid ++ [v0] /\ NoDup (v0 :: mid) /\
    (forall v, In v (hull l) -> In v l) /\
    (forall p, In p l -> le2 v0 p) /\
    (forall l1 a b c l2, hull l ++ [nth 1 (hull l) (0, 0)] = l1 ++ a :: b :: c :: l2 -> cross a b c > 0) /\
    (forall p, In p l -> forall l1 a b l2, hull l = l1 ++ a :: b :: l2 -> cross a b p >= 0).
Proof.
  intros Hnc. destruct (noncollinear_two l Hnc) as (a & b & Ha & Hb & Hab).
  destruct (hull_ring l a b Ha Hb Hab) as (x0 & xm & L & U & HR & E).
  exists x0, (L ++ xm :: U). split; [|split; [|split; [|split; [|split]]]].
  - rewrite E. unfold ring. rewrite <- app_assoc. reflexivity.
  - apply (ring_nodup _ x0 xm L U (ir_L _ _ _ _ _ HR) (ir_U _ _ _ _ _ HR) (ir_0 _ _ _ _ _ HR)
             (ir_m _ _ _ _ _ HR) (ir_lt _ _ _ _ _ HR) (ir_min _ _ _ _ _ HR) (ir_max _ _ _ _ _ HR)).
  - apply hull_subset.
  - intros p Hp. destruct (ir_min _ _ _ _ _ HR p Hp) as [->|H]; [right; reflexivity|left; exact H].
  - apply (hull_strict_left l Hnc).
  - intros p Hp. apply (hull_contains l p Hp).
Qed.
