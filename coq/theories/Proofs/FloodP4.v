(* Termination of the Niemeyer flood fill: the strings of the hasher's length over the alphabet
   form a finite universe that contains the start cell and is closed under _get_surrounding, so
   the generic completeness theorem applies to the real instance. *)
From Coq Require Import QArith.
From GV Require Import Prelude GeohashM GeohashP GeohashP2 FloodM FloodP FloodP2 FloodP3.
Open Scope nat_scope.

Fixpoint all_strs (cs : list Z) (n : nat) : list (list Z) :=
  match n with
  | O => [[]]
  | S n' => flat_map (fun ch => map (cons ch) (all_strs cs n')) cs
  end.

Lemma all_strs_In cs n : forall s,
  In s (all_strs cs n) <-> length s = n /\ forall ch, In ch s -> In ch cs.
Proof.
  induction n as [|n IH]; intro s; cbn.
  - split.
    + intros [<-|[]]. split; [reflexivity|intros ch []].
    + intros [L _]. destruct s; [now left|discriminate].
  - rewrite in_flat_map. split.
    + intros (ch & Hc & Hs). apply in_map_iff in Hs. destruct Hs as (t & <- & Ht).
      apply IH in Ht. destruct Ht as [L V]. split; [cbn; now rewrite L|].
      intros x [<-|Hx]; auto.
    + intros [L V]. destruct s as [|ch t]; [discriminate|]. exists ch. split; [apply V; now left|].
      apply in_map. apply IH. split; [now injection L|]. intros x Hx. apply V. now right.
Qed.

Section Term.
  Variable c : cfg.
  Hypothesis OK : cfg_ok c.
  Variable len : nat.
  Variable touch : list Z -> bool.

  Lemma surrounding_closed gh x :
    In gh (all_strs (charset c) len) -> In x (get_surrounding c gh) -> In x (all_strs (charset c) len).
  Proof.
    intros Hg Hx. apply all_strs_In in Hg. destruct Hg as [L _].
    unfold get_surrounding in Hx. destruct (decode c gh) as [[[[lon lat] elon] elat]|]; [|destruct Hx].
    rewrite L in Hx. cbn [In] in Hx.
    repeat (destruct Hx as [Hx|Hx]; [subst x; apply all_strs_In; apply encode_len_alphabet, OK|]).
    destruct Hx.
  Qed.

  (* the while-loop of _hash_polygon/_hash_linestring terminates (for a fuel that depends only on
     base and length), and returns exactly the reachable cells *)
  Lemma niemeyer_flood_terminates start fuel :
    length (all_strs (charset c) len) + 2 <= fuel ->
    exists r, niemeyer_flood c len start touch fuel = Some r /\
              forall x, In x r <-> nreach c touch (encode c start len) x.
  Proof.
    intro F. unfold niemeyer_flood.
    destruct (flood_complete (list Z) str_eqb str_eqb_spec (get_surrounding c) touch pop_head
                (@pop_head_none _) (@pop_head_some _) (all_strs (charset c) len) (encode c start len) fuel)
      as (r & Hr & _).
    - apply all_strs_In. apply encode_len_alphabet, OK.
    - intros gh Hg n Hn. eapply surrounding_closed; eauto.
    - exact F.
    - exists r. split; [exact Hr|]. apply (niemeyer_flood_result c len touch start fuel r Hr).
  Qed.
End Term.
