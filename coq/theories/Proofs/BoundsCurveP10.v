(* C09, last clause, WEDGES, for what the code RETURNS: every sample of bounding_coords() is rounded to 7
   decimals by inverse_haversine_radians (SphereM.dest_rad_rounded), so each of the four numbers of
   BoundsWedgeM.wedge_bounds_rounded differs from the corresponding number of wedge_bounds by at most the
   rounding step 5e-8 + 1e-19 degrees (SphereP3.dest_rounding), i.e. at most 5.6 mm on the ground
   (BoundsCurveP6.round_step_metres).  Hence the rounded bounds lie at most 5.6 mm outside the true extents and
   fall short of them by at most outer_radius / 100 + 5.6 mm. *)
From GV Require Import Prelude SphereM SphereP1 SphereP2 SphereP3 SphereP5 CurveM CurveP BoundsCurveM
  BoundsCurveP2 BoundsCurveP3 BoundsCurveP4 BoundsCurveP5 BoundsCurveP6 BoundsWedgeM BoundsCurveP7 BoundsCurveP8
  BoundsCurveP9.
From Coq Require Import Reals Lra Lia.
Open Scope R_scope.

Lemma in_wedge_pts_rounded s k p :
  ring_is_full s = false ->
  (In p (ring_pts_rounded s k) <->
   exists i, (i <= k)%nat /\ (p = ring_outer_pt_rounded s k i \/ p = ring_inner_pt_rounded s k i)).
Proof.
  intros E. unfold ring_pts_rounded. rewrite E.
  assert (O : forall q, In q (ring_outer_pts_rounded s k) <-> exists i, (i <= k)%nat /\ q = ring_outer_pt_rounded s k i).
  { intros q. unfold ring_outer_pts_rounded. rewrite in_map_iff. split.
    - intros (i & <- & Hi). exists i. split; [apply in_schedule, Hi|reflexivity].
    - intros (i & Hi & ->). exists i. split; [reflexivity|apply in_schedule, Hi]. }
  assert (I : forall q, In q (ring_inner_pts_rounded s k) <-> exists i, (i <= k)%nat /\ q = ring_inner_pt_rounded s k i).
  { intros q. unfold ring_inner_pts_rounded. rewrite in_map_iff. split.
    - intros (i & <- & Hi). exists i. split; [apply in_schedule, Hi|reflexivity].
    - intros (i & Hi & ->). exists i. split; [reflexivity|apply in_schedule, Hi]. }
  rewrite !in_app_iff, <- in_rev. split.
  - intros [H|[H|H]].
    + apply O in H as (i & Hi & ->). exists i. split; [exact Hi|left; reflexivity].
    + apply I in H as (i & Hi & ->). exists i. split; [exact Hi|right; reflexivity].
    + destruct H as [H|[]]. subst p.
      assert (In (hd (0, 0) (ring_outer_pts_rounded s k)) (ring_outer_pts_rounded s k)) as H.
      { destruct (ring_outer_pts_rounded s k) eqn:F; [|left; reflexivity].
        unfold ring_outer_pts_rounded in F. apply (f_equal (@length _)) in F.
        rewrite map_length, schedule_length in F. discriminate. }
      apply O in H as (i & Hi & ->). exists i. split; [exact Hi|left; reflexivity].
  - intros (i & Hi & [->| ->]).
    + left. apply O. exists i. split; [exact Hi|reflexivity].
    + right; left. apply I. exists i. split; [exact Hi|reflexivity].
Qed.

Section Rounded.
  Variable s : ring.
  Variable k : nat.
  Hypothesis Hfull : ring_is_full s = false.

  (* a coordinate projection that the rounding moves by at most the rounding step (lat and lon both are) *)
  Variable pr : coord -> R.
  Hypothesis Hpr : forall p theta d,
    Rabs (rad (pr (dest_rad_rounded p theta d)) - rad (pr (dest_rad p theta d))) <= rad round_step.

  Let l := map pr (ring_pts s k).
  Let lr := map pr (ring_pts_rounded s k).

  Lemma l_nonempty : l <> [].
  Proof.
    intros F. apply (f_equal (@length _)) in F. unfold l in F. rewrite map_length in F.
    pose proof (wedge_pts_nonempty s k) as NE. destruct (ring_pts s k); [contradiction|discriminate].
  Qed.
  Lemma lr_nonempty : lr <> [].
  Proof.
    intros F. apply (f_equal (@length _)) in F. unfold lr in F. rewrite map_length in F.
    assert (In (ring_outer_pt_rounded s k 0) (ring_pts_rounded s k)) as H.
    { apply (in_wedge_pts_rounded s k _ Hfull). exists 0%nat. split; [lia|left; reflexivity]. }
    destruct (ring_pts_rounded s k); [contradiction|discriminate].
  Qed.

  (* every rounded value has an unrounded partner within the step, and conversely *)
  Lemma partner_of_rounded x : In x lr -> exists x0, In x0 l /\ Rabs (rad x - rad x0) <= rad round_step.
  Proof.
    intros H. apply in_map_iff in H as (p & <- & Hp).
    apply (in_wedge_pts_rounded s k p Hfull) in Hp as (i & Hi & [-> | ->]).
    - exists (pr (ring_outer_pt s k i)). split; [|apply Hpr].
      apply in_map, (in_wedge_pts s k _ Hfull). exists i. split; [exact Hi|left; reflexivity].
    - exists (pr (ring_inner_pt s k i)). split; [|apply Hpr].
      apply in_map, (in_wedge_pts s k _ Hfull). exists i. split; [exact Hi|right; reflexivity].
  Qed.
  Lemma partner_of_unrounded x0 : In x0 l -> exists x, In x lr /\ Rabs (rad x - rad x0) <= rad round_step.
  Proof.
    intros H. apply in_map_iff in H as (p & <- & Hp).
    apply (in_wedge_pts s k p Hfull) in Hp as (i & Hi & [-> | ->]).
    - exists (pr (ring_outer_pt_rounded s k i)). split; [|apply Hpr].
      apply in_map, (in_wedge_pts_rounded s k _ Hfull). exists i. split; [exact Hi|left; reflexivity].
    - exists (pr (ring_inner_pt_rounded s k i)). split; [|apply Hpr].
      apply in_map, (in_wedge_pts_rounded s k _ Hfull). exists i. split; [exact Hi|right; reflexivity].
  Qed.

  Lemma max_rounding : Rabs (rad (rmax_list lr) - rad (rmax_list l)) <= rad round_step.
  Proof.
    destruct (partner_of_rounded _ (rmax_list_in lr lr_nonempty)) as (x0 & H0 & D0).
    destruct (partner_of_unrounded _ (rmax_list_in l l_nonempty)) as (x & H1 & D1).
    pose proof (rad_le _ _ (rmax_list_ge l x0 H0)). pose proof (rad_le _ _ (rmax_list_ge lr x H1)).
    apply Rabs_le_inv in D0, D1. apply Rabs_le. lra.
  Qed.
  Lemma min_rounding : Rabs (rad (rmin_list lr) - rad (rmin_list l)) <= rad round_step.
  Proof.
    destruct (partner_of_rounded _ (rmin_list_in lr lr_nonempty)) as (x0 & H0 & D0).
    destruct (partner_of_unrounded _ (rmin_list_in l l_nonempty)) as (x & H1 & D1).
    pose proof (rad_le _ _ (rmin_list_le l x0 H0)). pose proof (rad_le _ _ (rmin_list_le lr x H1)).
    apply Rabs_le_inv in D0, D1. apply Rabs_le. lra.
  Qed.
End Rounded.

Lemma wedge_bounds_rounding s k :
  ring_is_full s = false ->
  let b := wedge_bounds s k in let br := wedge_bounds_rounded s k in
  Rabs (rad (rb_minlon br) - rad (rb_minlon b)) <= rad round_step /\
  Rabs (rad (rb_minlat br) - rad (rb_minlat b)) <= rad round_step /\
  Rabs (rad (rb_maxlon br) - rad (rb_maxlon b)) <= rad round_step /\
  Rabs (rad (rb_maxlat br) - rad (rb_maxlat b)) <= rad round_step.
Proof.
  intros Hf. cbv zeta. unfold wedge_bounds, wedge_bounds_rounded, rb_minlon, rb_minlat, rb_maxlon, rb_maxlat; cbn [fst snd].
  assert (Hlon : forall p theta d, Rabs (rad (lon (dest_rad_rounded p theta d)) - rad (lon (dest_rad p theta d))) <= rad round_step)
    by (intros p theta d; exact (proj1 (dest_rounding_rad p theta d))).
  assert (Hlat : forall p theta d, Rabs (rad (lat (dest_rad_rounded p theta d)) - rad (lat (dest_rad p theta d))) <= rad round_step)
    by (intros p theta d; exact (proj2 (dest_rounding_rad p theta d))).
  split; [exact (min_rounding s k Hf lon Hlon)|]. split; [exact (min_rounding s k Hf lat Hlat)|].
  split; [exact (max_rounding s k Hf lon Hlon)|exact (max_rounding s k Hf lat Hlat)].
Qed.

(* moving a bound by the rounding step costs at most 5.6 mm on either side *)
Lemma shift_two_sided K x xr N T :
  0 <= K <= Rearth -> Rabs (rad xr - rad x) <= rad round_step ->
  0 <= K * (N - rad x) <= T -> - (56 / 10000) <= K * (N - rad xr) <= T + 56 / 10000.
Proof.
  intros HK Hr HT. pose proof round_step_metres as M. apply Rabs_le_inv in Hr.
  assert (0 <= rad round_step) by lra.
  assert (K * rad round_step <= Rearth * rad round_step) by (apply Rmult_le_compat_r; lra).
  assert (K * (rad xr - rad x) <= K * rad round_step) by (apply Rmult_le_compat_l; lra).
  assert (K * - rad round_step <= K * (rad xr - rad x)) by (apply Rmult_le_compat_l; lra).
  replace (K * (N - rad xr)) with (K * (N - rad x) - K * (rad xr - rad x)) by ring. lra.
Qed.
Lemma shift_two_sided' K x xr S T :
  0 <= K <= Rearth -> Rabs (rad xr - rad x) <= rad round_step ->
  0 <= K * (rad x - S) <= T -> - (56 / 10000) <= K * (rad xr - S) <= T + 56 / 10000.
Proof.
  intros HK Hr HT. pose proof round_step_metres as M. apply Rabs_le_inv in Hr.
  assert (0 <= rad round_step) by lra.
  assert (K * rad round_step <= Rearth * rad round_step) by (apply Rmult_le_compat_r; lra).
  assert (K * (rad xr - rad x) <= K * rad round_step) by (apply Rmult_le_compat_l; lra).
  assert (K * - rad round_step <= K * (rad xr - rad x)) by (apply Rmult_le_compat_l; lra).
  replace (K * (rad xr - S)) with (K * (rad x - S) + K * (rad xr - rad x)) by ring. lra.
Qed.

Theorem wedge_bounds_rounded_match_outline_extents s k :
  Rabs (lat (r_center s)) <= 75 -> 0 <= r_inner s <= r_outer s -> r_outer s <= 10000 ->
  0 < r_amax s - r_amin s < 360 -> (1 <= k)%nat -> (r_amax s - r_amin s) / INR k <= 10 ->
  forall N S E W,
  is_lub (wedge_outline_lats s) N -> is_glb (wedge_outline_lats s) S ->
  is_lub (wedge_outline_lons s) E -> is_glb (wedge_outline_lons s) W ->
  let b := wedge_bounds_rounded s k in
  - (56 / 10000) <= Rearth * (N - rad (rb_maxlat b)) <= r_outer s / 100 + 56 / 10000 /\
  - (56 / 10000) <= Rearth * (rad (rb_minlat b) - S) <= r_outer s / 100 + 56 / 10000 /\
  - (56 / 10000) <= Rearth * cos (rad (lat (r_center s))) * (E - rad (rb_maxlon b)) <= r_outer s / 100 + 56 / 10000 /\
  - (56 / 10000) <= Rearth * cos (rad (lat (r_center s))) * (rad (rb_minlon b) - W) <= r_outer s / 100 + 56 / 10000.
Proof.
  intros Hl Hr Ho Hs Hk Hst N S E W HN HS HE HW b.
  destruct (wedge_bounds_match_outline_extents s k Hl Hr Ho Hs Hk Hst N S E W HN HS HE HW) as (A & B & C & D).
  destruct (wedge_bounds_rounding s k (wedge_not_full s (proj2 Hs))) as (R1 & R2 & R3 & R4).
  unfold b. split; [|split; [|split]].
  - exact (shift_two_sided _ _ _ _ _ k_lat R4 A).
  - exact (shift_two_sided' _ _ _ _ _ k_lat R2 B).
  - exact (shift_two_sided _ _ _ _ _ (k_lon _ Hl) R3 C).
  - exact (shift_two_sided' _ _ _ _ _ (k_lon _ Hl) R1 D).
Qed.

(* GeoRing.bounds as returned, wedge branch, default k *)
Theorem ring_bounds_rounded_wedge_match_outline_extents s N S E W :
  Rabs (lat (r_center s)) <= 75 -> 0 <= r_inner s <= r_outer s -> r_outer s <= 10000 ->
  0 < r_amax s - r_amin s < 360 ->
  is_lub (wedge_outline_lats s) N -> is_glb (wedge_outline_lats s) S ->
  is_lub (wedge_outline_lons s) E -> is_glb (wedge_outline_lons s) W ->
  let b := ring_bounds_rounded s in
  - (56 / 10000) <= Rearth * (N - rad (rb_maxlat b)) <= r_outer s / 100 + 56 / 10000 /\
  - (56 / 10000) <= Rearth * (rad (rb_minlat b) - S) <= r_outer s / 100 + 56 / 10000 /\
  - (56 / 10000) <= Rearth * cos (rad (lat (r_center s))) * (E - rad (rb_maxlon b)) <= r_outer s / 100 + 56 / 10000 /\
  - (56 / 10000) <= Rearth * cos (rad (lat (r_center s))) * (rad (rb_minlon b) - W) <= r_outer s / 100 + 56 / 10000.
Proof.
  intros Hl Hr Ho Hs HN HS HE HW. destruct (ring_default_k_ok s) as [K1 K2].
  unfold ring_bounds_rounded, rleb. destruct (Rle_dec 360 (r_amax s - r_amin s)) as [F|_]; [lra|].
  apply wedge_bounds_rounded_match_outline_extents; try assumption. lia.
Qed.
