(* Proofs about collection filters, bounds and the list protocol (C18). *)
From Coq Require Import QArith Permutation Sorted.
From GV Require Import Prelude CollM CollP CollP2 FilterM.
From GV Require TimeM TimeP.
Open Scope Z_scope.

(* a collection as the constructors leave it: a Track holds only shapes with dt, by start *)
Definition wf_coll (c : coll) : Prop :=
  match ckind c with
  | FC => True
  | TR => forallb has_dt (members c) = true /\ sorted sstart (members c)
  end.

Lemma forallb_filter {A} (p q : A -> bool) l : forallb p l = true -> forallb p (filter q l) = true.
Proof.
  induction l as [|x l IH]; cbn; [reflexivity|]. intros H. apply andb_true_iff in H.
  destruct H as [H1 H2]. destruct (q x); cbn; [rewrite H1|]; auto.
Qed.

Lemma rewrap_as_ok k l : (k = TR -> forallb has_dt l = true /\ sorted sstart l) ->
  rewrap_as k l = Ok (mkcoll k l).
Proof.
  destruct k; cbn; [reflexivity|]. intros H. destruct (H eq_refl) as [H1 H2].
  rewrite H1. rewrite isort_id by exact H2. reflexivity.
Qed.

(* the filtered collection: same class, exactly List.filter of the members *)
Lemma filter_with_ok p c : wf_coll c ->
  filter_with p c = Ok (mkcoll (ckind c) (filter p (members c))).
Proof.
  intros W. unfold filter_with. apply rewrap_as_ok. intros K. unfold wf_coll in W. rewrite K in W.
  destruct W as [W1 W2]. split; [apply forallb_filter; exact W1|apply sorted_filter; exact W2].
Qed.

Lemma filter_exact p c out : wf_coll c -> filter_with p c = Ok out ->
  forall x, In x (members out) <-> In x (members c) /\ p x = true.
Proof.
  intros W H. rewrite (filter_with_ok p c W) in H. apply ok_inj in H. subst out. cbn.
  intros x. apply filter_In.
Qed.

Lemma filter_order p c out : wf_coll c -> filter_with p c = Ok out ->
  sublist (members out) (members c).
Proof.
  intros W H. rewrite (filter_with_ok p c W) in H. apply ok_inj in H. subst out. cbn.
  apply filter_sublist.
Qed.

Lemma filter_kind p c out : wf_coll c -> filter_with p c = Ok out ->
  ckind out = ckind c /\ wf_coll out.
Proof.
  intros W H. rewrite (filter_with_ok p c W) in H. apply ok_inj in H. subst out. cbn.
  split; [reflexivity|]. unfold wf_coll in *. cbn. destruct (ckind c); [exact I|].
  destruct W as [W1 W2]. split; [apply forallb_filter; exact W1|apply sorted_filter; exact W2].
Qed.

Lemma filter_total p c : wf_coll c -> exists out, filter_with p c = Ok out.
Proof. intros W. eexists. apply filter_with_ok. exact W. Qed.

(* a Track that lost a dt (mutated after construction) makes the re-wrap raise *)
Lemma filter_track_nodt p l : forallb has_dt (filter p l) = false ->
  filter_with p (mkcoll TR l) = Err ValueError.
Proof. intros H. unfold filter_with. cbn. rewrite H. reflexivity. Qed.

Section Delegated.
  Variable query : Type.
  Variable prop_test : Z -> shape -> option bool.

  Definition prop_keep (key : Z) (x : shape) : bool :=
    match prop_test key x with Some b => b | None => false end.

  Lemma prop_loop_ok key : forall l acc, (forall x, In x l -> prop_test key x <> None) ->
    prop_loop prop_test key l acc = Ok (rev acc ++ filter (prop_keep key) l).
  Proof.
    induction l as [|x l IH]; intros acc H; cbn.
    - rewrite app_nil_r. reflexivity.
    - unfold prop_keep at 1. destruct (prop_test key x) as [b|] eqn:E.
      + rewrite IH by (intros y Hy; apply H; right; exact Hy).
        destruct b; cbn; [rewrite <- app_assoc|]; reflexivity.
      + exfalso. apply (H x); [left; reflexivity|exact E].
  Qed.

  Lemma prop_loop_err key : forall l acc, (exists x, In x l /\ prop_test key x = None) ->
    prop_loop prop_test key l acc = Err KeyError.
  Proof.
    induction l as [|x l IH]; intros acc (y & Hy & E); [destruct Hy|]. cbn.
    destruct (prop_test key x) as [b|] eqn:Ex; [|reflexivity].
    apply IH. destruct Hy as [->|Hy]; [congruence|]. exists y. split; assumption.
  Qed.

  Lemma filter_by_property_spec c key :
    ((exists x, In x (members c) /\ prop_test key x = None) ->
       filter_by_property prop_test c key = Err KeyError) /\
    ((forall x, In x (members c) -> prop_test key x <> None) ->
       filter_by_property prop_test c key = filter_with (prop_keep key) c).
  Proof.
    unfold filter_by_property. split; intros H.
    - rewrite prop_loop_err by exact H. reflexivity.
    - rewrite prop_loop_ok by exact H. reflexivity.
  Qed.

End Delegated.

Section Contains.
  Variable sh_eq : shape -> shape -> bool.
  Lemma coll_contains_spec c x :
    coll_contains sh_eq c x = true <->
    exists y, In y (members c) /\ (sid y = sid x \/ sh_eq y x = true).
  Proof.
    unfold coll_contains. rewrite existsb_exists. split; intros (y & Hy & H); exists y; (split; [exact Hy|]).
    - apply orb_true_iff in H. destruct H; [left; lia|right; assumption].
    - apply orb_true_iff. destruct H; [left; lia|right; assumption].
  Qed.
End Contains.

(* ------------------------------------------------------------------ list protocol *)
Lemma coll_len_spec c : coll_len c = Z.of_nat (length (members c)) /\ 0 <= coll_len c.
Proof. unfold coll_len. split; [reflexivity|lia]. Qed.

Lemma coll_bool_spec c : coll_bool c = true <-> members c <> [].
Proof.
  unfold coll_bool, coll_len. destruct (members c); cbn; split; try congruence; try discriminate.
Qed.

Lemma nth_error_nth {A} (l : list A) n d : (n < length l)%nat -> nth_error l n = Some (nth n l d).
Proof.
  revert n. induction l as [|x l IH]; intros n H; cbn in H; [lia|].
  destruct n; cbn; [reflexivity|]. apply IH. lia.
Qed.

Lemma fc_getitem_spec c i d :
  let n := Z.of_nat (length (members c)) in
  (0 <= i < n -> fc_getitem c i = Ok (nth (Z.to_nat i) (members c) d)) /\
  (- n <= i < 0 -> fc_getitem c i = Ok (nth (Z.to_nat (n + i)) (members c) d)) /\
  (i < - n \/ n <= i -> fc_getitem c i = Err IndexError).
Proof.
  cbv zeta. unfold fc_getitem, coll_len. set (n := Z.of_nat (length (members c))).
  split; [|split]; intros H.
  - replace ((- n <=? i) && (i <? n)) with true by lia. replace (i <? 0) with false by lia.
    rewrite (nth_error_nth _ _ d) by lia. reflexivity.
  - replace ((- n <=? i) && (i <? n)) with true by lia. replace (i <? 0) with true by lia.
    rewrite (nth_error_nth _ _ d) by lia. replace (i + n) with (n + i) by lia. reflexivity.
  - replace ((- n <=? i) && (i <? n)) with false by lia. reflexivity.
Qed.

Lemma coll_add_spec a b :
  (ckind a = FC -> ckind b = FC -> coll_add a b = Ok (mkcoll FC (members a ++ members b))) /\
  (ckind a <> ckind b -> coll_add a b = Err ValueError) /\
  (ckind a = TR -> ckind b = TR -> wf_coll a -> wf_coll b ->
     exists l, coll_add a b = Ok (mkcoll TR l) /\ sorted sstart l /\
               Permutation l (members a ++ members b) /\
               forall k, filter (keyis sstart k) l =
                         filter (keyis sstart k) (members a) ++ filter (keyis sstart k) (members b)).
Proof.
  unfold coll_add. split; [|split].
  - intros -> ->. reflexivity.
  - destruct (ckind a), (ckind b); congruence.
  - intros Ka Kb Wa Wb. unfold wf_coll in *. rewrite Ka in *. rewrite Kb in *.
    destruct Wa as [Wa _]. destruct Wb as [Wb _]. cbn.
    rewrite forallb_app, Wa, Wb. cbn. eexists. split; [reflexivity|].
    split; [apply isort_sorted|]. split; [apply isort_perm|].
    intros k. rewrite isort_stable. apply filter_app.
Qed.

(* ------------------------------------------------------------------ bounds *)
Definition is_min (m : Q) (l : list Q) : Prop := In m l /\ forall x, In x l -> (m <= x)%Q.
Definition is_max (m : Q) (l : list Q) : Prop := In m l /\ forall x, In x l -> (x <= m)%Q.

Lemma qmin_cases a b : (qmin a b = a /\ (a <= b)%Q) \/ (qmin a b = b /\ (b <= a)%Q).
Proof.
  unfold qmin. destruct (Qle_bool a b) eqn:E.
  - left. split; [reflexivity|]. apply Qle_bool_iff. exact E.
  - right. split; [reflexivity|]. apply Qlt_le_weak. apply Qnot_le_lt. intros H.
    apply Qle_bool_iff in H. congruence.
Qed.

Lemma qmax_cases a b : (qmax a b = a /\ (b <= a)%Q) \/ (qmax a b = b /\ (a <= b)%Q).
Proof.
  unfold qmax. destruct (Qle_bool b a) eqn:E.
  - left. split; [reflexivity|]. apply Qle_bool_iff. exact E.
  - right. split; [reflexivity|]. apply Qlt_le_weak. apply Qnot_le_lt. intros H.
    apply Qle_bool_iff in H. congruence.
Qed.

Lemma fold_qmin_is_min : forall l a, is_min (fold_left qmin l a) (a :: l).
Proof.
  induction l as [|b l IH]; intros a; cbn [fold_left].
  - split; [left; reflexivity|]. intros x [<-|[]]. apply Qle_refl.
  - destruct (IH (qmin a b)) as [Hin Hle]. split.
    + destruct Hin as [E|Hin]; [|right; right; exact Hin].
      rewrite <- E. destruct (qmin_cases a b) as [[-> _]|[-> _]]; [left|right; left]; reflexivity.
    + assert (Hm : (fold_left qmin l (qmin a b) <= qmin a b)%Q) by (apply Hle; left; reflexivity).
      intros x [<-|[<-|Hx]].
      * eapply Qle_trans; [exact Hm|]. destruct (qmin_cases a b) as [[-> H]|[-> H]]; [apply Qle_refl|exact H].
      * eapply Qle_trans; [exact Hm|]. destruct (qmin_cases a b) as [[-> H]|[-> H]]; [exact H|apply Qle_refl].
      * apply Hle. right. exact Hx.
Qed.

Lemma fold_qmax_is_max : forall l a, is_max (fold_left qmax l a) (a :: l).
Proof.
  induction l as [|b l IH]; intros a; cbn [fold_left].
  - split; [left; reflexivity|]. intros x [<-|[]]. apply Qle_refl.
  - destruct (IH (qmax a b)) as [Hin Hle]. split.
    + destruct Hin as [E|Hin]; [|right; right; exact Hin].
      rewrite <- E. destruct (qmax_cases a b) as [[-> _]|[-> _]]; [left|right; left]; reflexivity.
    + assert (Hm : (qmax a b <= fold_left qmax l (qmax a b))%Q) by (apply Hle; left; reflexivity).
      intros x [<-|[<-|Hx]].
      * eapply Qle_trans; [|exact Hm]. destruct (qmax_cases a b) as [[-> H]|[-> H]]; [apply Qle_refl|exact H].
      * eapply Qle_trans; [|exact Hm]. destruct (qmax_cases a b) as [[-> H]|[-> H]]; [exact H|apply Qle_refl].
      * apply Hle. right. exact Hx.
Qed.

Lemma is_min_unique m m' l : is_min m l -> is_min m' l -> (m == m')%Q.
Proof. intros [H1 H2] [H3 H4]. apply Qle_antisym; auto. Qed.
Lemma is_max_unique m m' l : is_max m l -> is_max m' l -> (m == m')%Q.
Proof. intros [H1 H2] [H3 H4]. apply Qle_antisym; auto. Qed.

Lemma is_min_app m1 m2 l1 l2 : is_min m1 l1 -> is_min m2 l2 -> is_min (qmin m1 m2) (l1 ++ l2).
Proof.
  intros [H1 H2] [H3 H4]. split.
  - apply in_or_app. destruct (qmin_cases m1 m2) as [[-> _]|[-> _]]; [left|right]; assumption.
  - intros x Hx. apply in_app_or in Hx.
    destruct (qmin_cases m1 m2) as [[-> H]|[-> H]], Hx as [Hx|Hx]; auto;
      (eapply Qle_trans; [exact H|auto]).
Qed.
Lemma is_max_app m1 m2 l1 l2 : is_max m1 l1 -> is_max m2 l2 -> is_max (qmax m1 m2) (l1 ++ l2).
Proof.
  intros [H1 H2] [H3 H4]. split.
  - apply in_or_app. destruct (qmax_cases m1 m2) as [[-> _]|[-> _]]; [left|right]; assumption.
  - intros x Hx. apply in_app_or in Hx.
    destruct (qmax_cases m1 m2) as [[-> H]|[-> H]], Hx as [Hx|Hx]; auto;
      (eapply Qle_trans; [|exact H]; auto).
Qed.

Definition comp (f : box -> Q) (c : coll) : list Q := map f (map sbounds (members c)).

Lemma coll_bounds_spec c :
  (members c = [] -> coll_bounds c = Err ValueError) /\
  (members c <> [] -> exists B, coll_bounds c = Ok B /\
     is_min (b0 B) (comp b0 c) /\ is_min (b1 B) (comp b1 c) /\
     is_max (b2 B) (comp b2 c) /\ is_max (b3 B) (comp b3 c)).
Proof.
  unfold coll_bounds, comp. destruct (members c) as [|x l]; cbn [map].
  - split; [reflexivity|congruence].
  - split; [discriminate|]. intros _. eexists. split; [reflexivity|].
    unfold b0 at 1, b1 at 1, b2 at 1, b3 at 1. cbn [fst snd].
    repeat split; try apply fold_qmin_is_min; try apply fold_qmax_is_max;
      try (apply (fold_qmin_is_min _ _)); try (apply (fold_qmax_is_max _ _)).
Qed.

(* every member's bounds lie inside the collection's bounds *)
Lemma coll_bounds_cover c B m : coll_bounds c = Ok B -> In m (members c) ->
  (b0 B <= b0 (sbounds m) /\ b1 B <= b1 (sbounds m) /\
   b2 (sbounds m) <= b2 B /\ b3 (sbounds m) <= b3 B)%Q.
Proof.
  intros H Hm. destruct (coll_bounds_spec c) as [_ S].
  destruct S as (B' & E & M0 & M1 & M2 & M3); [intros E; rewrite E in Hm; destruct Hm|].
  rewrite E in H. apply ok_inj in H. subst B'.
  unfold comp in *. repeat split;
    [apply M0|apply M1|apply M2|apply M3]; rewrite map_map; apply in_map_iff; exists m; auto.
Qed.

(* bounds of a concatenation = componentwise min/min/max/max of the operands' bounds *)
Lemma coll_bounds_union k a b A B C :
  coll_bounds a = Ok A -> coll_bounds b = Ok B ->
  coll_bounds (mkcoll k (members a ++ members b)) = Ok C ->
  (b0 C == qmin (b0 A) (b0 B) /\ b1 C == qmin (b1 A) (b1 B) /\
   b2 C == qmax (b2 A) (b2 B) /\ b3 C == qmax (b3 A) (b3 B))%Q.
Proof.
  intros HA HB HC.
  assert (Na : members a <> []) by (intros E; destruct (coll_bounds_spec a) as [S _]; rewrite (S E) in HA; discriminate).
  assert (Nb : members b <> []) by (intros E; destruct (coll_bounds_spec b) as [S _]; rewrite (S E) in HB; discriminate).
  destruct (coll_bounds_spec a) as [_ Sa]. destruct (Sa Na) as (A' & EA & A0 & A1 & A2 & A3).
  destruct (coll_bounds_spec b) as [_ Sb]. destruct (Sb Nb) as (B' & EB & B0 & B1 & B2 & B3).
  destruct (coll_bounds_spec (mkcoll k (members a ++ members b))) as [_ Sc].
  destruct Sc as (C' & EC & C0 & C1 & C2 & C3).
  { cbn. intros E. apply app_eq_nil in E. tauto. }
  rewrite EA in HA. rewrite EB in HB. rewrite EC in HC.
  apply ok_inj in HA. apply ok_inj in HB. apply ok_inj in HC. subst A' B' C'.
  unfold comp in *. cbn [members] in *. rewrite !map_app in *.
  repeat split.
  - eapply is_min_unique; [exact C0|apply is_min_app; assumption].
  - eapply is_min_unique; [exact C1|apply is_min_app; assumption].
  - eapply is_max_unique; [exact C2|apply is_max_app; assumption].
  - eapply is_max_unique; [exact C3|apply is_max_app; assumption].
Qed.

(* ------------------------------------------------------------------ convex hull *)
Section Hull.
  Variable pt : Type.
  Variable verts : shape -> list pt.
  Variable hull : list pt -> list pt.
  Variable inside : pt -> list pt -> Prop.
  (* the containment theorem of C10 (every input point lies in the closed hull polygon) *)
  Variable hull_contains : forall l p, In p l -> inside p (hull l).

  Lemma hull_contains_members c m v :
    In m (members c) -> In v (verts m) -> inside v (coll_hull pt verts hull c).
  Proof.
    intros Hm Hv. unfold coll_hull, coll_vertices. apply hull_contains.
    apply in_flat_map. exists m. split; assumption.
  Qed.
End Hull.

(* ------------------------------------------------------------------ constructors give wf_coll *)
Lemma rewrap_as_wf k l c : rewrap_as k l = Ok c ->
  ckind c = k /\ wf_coll c /\ Permutation (members c) l /\
  (k = FC -> members c = l) /\
  (k = TR -> forall s, filter (keyis sstart s) (members c) = filter (keyis sstart s) l).
Proof.
  destruct k; cbn; intros H.
  - apply ok_inj in H. subst c. cbn. repeat split; auto; discriminate.
  - destruct (forallb has_dt l) eqn:E; [|discriminate]. apply ok_inj in H. subst c. cbn.
    split; [reflexivity|]. split; [|split; [apply isort_perm|split; [discriminate|]]].
    + unfold wf_coll. cbn. split; [|apply isort_sorted].
      apply forallb_forall. intros x Hx. rewrite forallb_forall in E. apply E.
      eapply Permutation_in; [apply isort_perm|exact Hx].
    + intros _ s. apply isort_stable.
Qed.

Lemma rewrap_as_err k l : rewrap_as k l = Err ValueError <-> k = TR /\ exists x, In x l /\ sdt x = None.
Proof.
  destruct k; cbn.
  - split; [discriminate|intros [? _]; discriminate].
  - destruct (forallb has_dt l) eqn:E.
    + split; [discriminate|]. intros [_ (x & Hx & N)]. rewrite forallb_forall in E.
      specialize (E x Hx). unfold has_dt in E. rewrite N in E. discriminate.
    + split; [|reflexivity]. intros _. split; [reflexivity|].
      assert (H : ~ (forall x, In x l -> has_dt x = true)) by (rewrite <- forallb_forall; congruence).
      clear E. induction l as [|y l IH]; [exfalso; apply H; intros ? []|].
      destruct (sdt y) eqn:Ey.
      * destruct IH as (x & Hx & N).
        { intros A. apply H. intros x [<-|Hx]; [unfold has_dt; rewrite Ey; reflexivity|auto]. }
        exists x. split; [right; exact Hx|exact N].
      * exists y. split; [left; reflexivity|exact Ey].
Qed.

(* the per-shape time predicate of filter_by_dt(TimeInterval): the shape has dt and the two
   time sets (C06 semantics) share an instant *)
Lemma p_dt_interval_spec a b x : a <= b ->
  (forall s e, sdt x = Some (s, e) -> s <= e) ->
  (p_dt_interval a b x = true <->
   exists s e, sdt x = Some (s, e) /\
     exists t : Q, TimeP.mem t (TimeM.mkiv a b) /\ TimeP.mem t (TimeM.mkiv s e)).
Proof.
  intros Hab W. unfold p_dt_interval. destruct (sdt x) as [[s e]|].
  - specialize (W s e eq_refl). rewrite (TimeP.intersects_spec (TimeM.mkiv a b) (TimeM.mkiv s e) Hab W).
    split; [intros H; exists s, e; split; [reflexivity|exact H]|].
    intros (s' & e' & E & H). injection E as <- <-. exact H.
  - split; [discriminate|]. intros (s & e & E & _). discriminate.
Qed.

Lemma p_dt_instant_spec d x : p_dt_instant d x = true <-> sdt x = Some (d, d).
Proof.
  unfold p_dt_instant. destruct (sdt x) as [[s e]|]; [|split; discriminate].
  split; [intros H; f_equal; f_equal; lia|]. intros H. injection H as -> ->. lia.
Qed.
