(* Proofs about the TimeInterval model: it behaves as the set [st,en) of a dense timeline
   (Q), or {st} when st = en.  The timeline is Q, not Z, on purpose: over the integers
   [s, s+1) and the instant {s} would be the same set. *)
From Coq Require Import QArith Lqa.
From GV Require Import Prelude TimeM.
Open Scope Z_scope.

Definition q (z : Z) : Q := inject_Z z.

(* the set denoted by an interval *)
Definition mem (t : Q) (i : iv) : Prop :=
  if is_instant i then (t == q (st i))%Q else (q (st i) <= t /\ t < q (en i))%Q.

Definition qmid (a b : Z) : Q := ((q a + q b) * (1 # 2))%Q.

Lemma q_le a b : a <= b <-> (q a <= q b)%Q.   Proof. unfold q. rewrite Zle_Qle. tauto. Qed.
Lemma q_lt a b : a < b <-> (q a < q b)%Q.     Proof. unfold q. rewrite Zlt_Qlt. tauto. Qed.
Lemma q_eq a b : a = b <-> (q a == q b)%Q.
Proof. split; [intros ->; reflexivity | apply inject_Z_injective]. Qed.

Lemma q_le_of a b : a <= b -> (q a <= q b)%Q.  Proof. apply q_le. Qed.
Lemma q_lt_of a b : a < b -> (q a < q b)%Q.    Proof. apply q_lt. Qed.
Lemma q_eq_of a b : a = b -> (q a == q b)%Q.   Proof. apply q_eq. Qed.
Lemma of_q_le a b : (q a <= q b)%Q -> a <= b.  Proof. apply q_le. Qed.
Lemma of_q_lt a b : (q a < q b)%Q -> a < b.    Proof. apply q_lt. Qed.
Lemma of_q_eq a b : (q a == q b)%Q -> a = b.   Proof. apply q_eq. Qed.

(* move every integer order fact of the context to Q, for lra *)
Ltac z2q :=
  repeat match goal with
  | H : (_ <= _)%Z |- _ => apply q_le_of in H
  | H : (_ < _)%Z |- _ => apply q_lt_of in H
  | H : @eq Z _ _ |- _ => apply q_eq_of in H
  | H : ~ (_ <= _)%Z |- _ => apply Z.nle_gt in H
  | H : ~ (_ < _)%Z |- _ => apply Z.nlt_ge in H
  | H : (_ > _)%Z |- _ => apply Z.gt_lt in H
  | H : (_ >= _)%Z |- _ => apply Z.ge_le in H
  end.

Ltac bools :=
  repeat match goal with
  | H : (_ =? _) = true |- _ => apply Z.eqb_eq in H
  | H : (_ =? _) = false |- _ => apply Z.eqb_neq in H
  | H : (_ <=? _) = true |- _ => apply Z.leb_le in H
  | H : (_ <=? _) = false |- _ => apply Z.leb_gt in H
  | H : (_ <? _) = true |- _ => apply Z.ltb_lt in H
  | H : (_ <? _) = false |- _ => apply Z.ltb_ge in H
  | H : (_ && _) = true |- _ => apply andb_prop in H; destruct H
  | H : (_ && _) = false |- _ => apply andb_false_iff in H; destruct H
  | H : (_ || _) = true |- _ => apply orb_prop in H; destruct H
  | H : (_ || _) = false |- _ => apply orb_false_iff in H; destruct H
  | H : negb _ = true |- _ => apply negb_true_iff in H
  | H : negb _ = false |- _ => apply negb_false_iff in H
  end.

Lemma mem_instant i t : st i = en i -> (mem t i <-> (t == q (st i))%Q).
Proof. unfold mem, is_instant. intros H. rewrite (proj2 (Z.eqb_eq _ _) H). tauto. Qed.

Lemma mem_proper i t : st i < en i -> (mem t i <-> (q (st i) <= t /\ t < q (en i))%Q).
Proof.
  unfold mem, is_instant. intros H.
  destruct (st i =? en i) eqn:E; [apply Z.eqb_eq in E; lia | tauto].
Qed.

Lemma wf_cases i : wf i -> st i = en i \/ st i < en i.
Proof. unfold wf. lia. Qed.

(* ---- membership ---- *)
Lemma contains_dt_mem i t : contains_dt i t = true <-> mem (q t) i.
Proof.
  unfold contains_dt, mem. destruct (is_instant i).
  - rewrite Z.eqb_eq. split; intros H; [apply q_eq_of in H; symmetry; exact H|].
    apply of_q_eq. symmetry. exact H.
  - rewrite andb_true_iff, Z.leb_le, Z.ltb_lt. rewrite (q_le (st i) t), (q_lt t (en i)). tauto.
Qed.

Lemma mem_start i : wf i -> mem (q (st i)) i.
Proof.
  intros W. destruct (wf_cases i W) as [E|L].
  - apply mem_instant; [exact E|reflexivity].
  - apply mem_proper; [exact L|]. z2q. split; lra.
Qed.

Lemma nonempty i : wf i -> exists t, mem t i.
Proof. intros W. exists (q (st i)). apply mem_start, W. Qed.

(* ---- subset ---- *)
Lemma issubset_spec a b : wf a -> wf b ->
  (issubset a b = true <-> forall t, mem t a -> mem t b).
Proof.
  intros Wa Wb. unfold issubset, is_instant.
  destruct (st a =? en a) eqn:Ea; bools.
  - (* a is the instant {st a} *)
    rewrite contains_dt_mem. split.
    + intros H t Ht. apply mem_instant in Ht; [|exact Ea].
      destruct (wf_cases b Wb) as [Eb|Lb].
      * apply mem_instant in H; [|exact Eb]. apply mem_instant; [exact Eb|]. lra.
      * apply mem_proper in H; [|exact Lb]. apply mem_proper; [exact Lb|]. lra.
    + intros H. apply H. apply mem_start, Wa.
  - assert (La : st a < en a) by (unfold wf in Wa; lia).
    split.
    + intros H. bools. intros t Ht. apply mem_proper in Ht; [|exact La].
      assert (Lb : st b < en b) by lia.
      apply mem_proper; [exact Lb|]. z2q. lra.
    + intros H.
      pose proof (H _ (mem_start a Wa)) as H0.
      destruct (wf_cases b Wb) as [Eb|Lb].
      * (* b an instant cannot hold two distinct points of a *)
        exfalso.
        assert (Hm : mem (qmid (st a) (en a)) a).
        { apply mem_proper; [exact La|]. unfold qmid. z2q. split; lra. }
        apply H in Hm. apply mem_instant in Hm; [|exact Eb].
        apply mem_instant in H0; [|exact Eb]. unfold qmid in Hm. z2q. lra.
      * apply mem_proper in H0; [|exact Lb].
        apply andb_true_iff; split; [apply Z.leb_le, of_q_le; lra|].
        apply Z.leb_le. destruct (Z.le_gt_cases (en a) (en b)) as [L|G]; [exact L|exfalso].
        (* en b < en a: the point max (st a) (en b) is in a but not in b *)
        assert (Hm : mem (q (Z.max (st a) (en b))) a).
        { apply mem_proper; [exact La|]. split; [apply q_le_of|apply q_lt_of]; lia. }
        apply H in Hm. apply mem_proper in Hm; [|exact Lb].
        destruct Hm as [_ Hm]. apply of_q_lt in Hm. lia.
Qed.

Lemma issuperset_flip a b : issuperset a b = issubset b a.
Proof. reflexivity. Qed.

(* ---- disjointness ---- *)
Lemma isdisjoint_spec a b : wf a -> wf b ->
  (isdisjoint a b = true <-> ~ exists t, mem t a /\ mem t b).
Proof.
  intros Wa Wb. unfold isdisjoint, is_instant.
  destruct (st a =? en a) eqn:Ea; bools.
  - rewrite negb_true_iff, <- not_true_iff_false, contains_dt_mem.
    split; intros H.
    + intros [t [Ha Hb]]. apply H. apply mem_instant in Ha; [|exact Ea].
      destruct (wf_cases b Wb) as [Eb|Lb].
      * apply mem_instant in Hb; [|exact Eb]. apply mem_instant; [exact Eb|]. lra.
      * apply mem_proper in Hb; [|exact Lb]. apply mem_proper; [exact Lb|]. lra.
    + intros Hb. apply H. exists (q (st a)). split; [apply mem_start, Wa|exact Hb].
  - assert (La : st a < en a) by (unfold wf in Wa; lia).
    destruct (st b =? en b) eqn:Eb; bools.
    + rewrite negb_true_iff, <- not_true_iff_false, contains_dt_mem.
      split; intros H.
      * intros [t [Ha Hb]]. apply H. apply mem_instant in Hb; [|exact Eb].
        apply mem_proper in Ha; [|exact La]. apply mem_proper; [exact La|]. lra.
      * intros Ha. apply H. exists (q (st b)). split; [exact Ha|apply mem_start, Wb].
    + assert (Lb : st b < en b) by (unfold wf in Wb; lia).
      rewrite orb_true_iff, !Z.leb_le. split.
      * intros H [t [Ha Hb]].
        apply mem_proper in Ha; [|exact La]. apply mem_proper in Hb; [|exact Lb].
        destruct H as [H|H]; z2q; lra.
      * intros H.
        destruct (Z.le_gt_cases (en a) (st b)) as [L|G]; [left; exact L|].
        destruct (Z.le_gt_cases (en b) (st a)) as [L'|G']; [right; exact L'|].
        exfalso. apply H. exists (q (Z.max (st a) (st b))).
        split; (apply mem_proper; [assumption|]); split;
          try (apply q_le_of; lia); apply q_lt_of; lia.
Qed.

Lemma isdisjoint_sym a b : wf a -> wf b -> isdisjoint a b = isdisjoint b a.
Proof.
  intros Wa Wb.
  destruct (isdisjoint a b) eqn:E1, (isdisjoint b a) eqn:E2; try reflexivity; exfalso.
  - apply isdisjoint_spec in E1; [|assumption..].
    apply not_true_iff_false in E2. apply E2. apply isdisjoint_spec; [assumption..|].
    intros [t [H1 H2]]. apply E1. exists t. tauto.
  - apply isdisjoint_spec in E2; [|assumption..].
    apply not_true_iff_false in E1. apply E1. apply isdisjoint_spec; [assumption..|].
    intros [t [H1 H2]]. apply E2. exists t. tauto.
Qed.

Lemma intersects_negb a b : wf a -> wf b -> intersects a b = negb (isdisjoint a b).
Proof. intros Wa Wb. unfold intersects. rewrite (isdisjoint_sym b a); auto. Qed.

Lemma intersects_spec a b : wf a -> wf b ->
  (intersects a b = true <-> exists t, mem t a /\ mem t b).
Proof.
  intros Wa Wb. rewrite intersects_negb by assumption.
  destruct (isdisjoint a b) eqn:E; cbn.
  - apply isdisjoint_spec in E; [|assumption..]. split; [discriminate|tauto].
  - split; [intros _|reflexivity].
    (* decidable: the witnesses are computed as in isdisjoint_spec *)
    apply not_true_iff_false in E.
    unfold isdisjoint, is_instant in E.
    destruct (st a =? en a) eqn:Ea; bools.
    + exists (q (st a)). split; [apply mem_start, Wa|].
      apply contains_dt_mem. destruct (contains_dt b (st a)); [reflexivity|].
      exfalso; apply E; reflexivity.
    + destruct (st b =? en b) eqn:Eb; bools.
      * exists (q (st b)). split; [|apply mem_start, Wb].
        apply contains_dt_mem. destruct (contains_dt a (st b)); [reflexivity|].
        exfalso; apply E; reflexivity.
      * assert (La : st a < en a) by (unfold wf in Wa; lia).
        assert (Lb : st b < en b) by (unfold wf in Wb; lia).
        exists (q (Z.max (st a) (st b))).
        destruct (en a <=? st b) eqn:E1; [exfalso; apply E; reflexivity|].
        destruct (en b <=? st a) eqn:E2; [exfalso; apply E; reflexivity|]. bools.
        split; (apply mem_proper; [assumption|]); split;
          try (apply q_le_of; lia); apply q_lt_of; lia.
Qed.

Lemma intersects_dt_is_mem a t : intersects_dt a t = true <-> mem (q t) a.
Proof. apply contains_dt_mem. Qed.

(* ---- intersection ---- *)
Lemma intersection_spec a b : wf a -> wf b ->
  match intersection a b with
  | Ok None => ~ exists t, mem t a /\ mem t b
  | Ok (Some c) => wf c /\ forall t, mem t c <-> (mem t a /\ mem t b)
  | Err _ => False
  end.
Proof.
  intros Wa Wb. unfold intersection.
  destruct (isdisjoint a b) eqn:E.
  - apply isdisjoint_spec in E; assumption.
  - assert (NE : exists t, mem t a /\ mem t b).
    { apply intersects_spec; [assumption..|]. rewrite intersects_negb, E by assumption.
      reflexivity. }
    clear E. unfold mk.
    destruct (wf_cases a Wa) as [Ea|La]; destruct (wf_cases b Wb) as [Eb|Lb].
    + destruct NE as [t [Ha Hb]].
      apply mem_instant in Ha; [|exact Ea]. apply mem_instant in Hb; [|exact Eb].
      assert (st a = st b) by (apply of_q_eq; lra).
      destruct (Z.min (en a) (en b) <? Z.max (st a) (st b)) eqn:C; bools; [lia|].
      split; [unfold wf; cbn; lia|]. intros u.
      rewrite (mem_instant a u Ea), (mem_instant b u Eb).
      rewrite mem_instant by (cbn; lia). cbn.
      replace (Z.max (st a) (st b)) with (st a) by lia.
      apply q_eq_of in H. split; [intros; split; lra|tauto].
    + destruct NE as [t [Ha Hb]].
      apply mem_instant in Ha; [|exact Ea]. apply mem_proper in Hb; [|exact Lb].
      assert (st b <= st a < en b) by (split; [apply of_q_le|apply of_q_lt]; lra).
      destruct (Z.min (en a) (en b) <? Z.max (st a) (st b)) eqn:C; bools; [lia|].
      split; [unfold wf; cbn; lia|]. intros u.
      rewrite (mem_instant a u Ea), (mem_proper b u Lb).
      rewrite mem_instant by (cbn; lia). cbn.
      replace (Z.max (st a) (st b)) with (st a) by lia.
      destruct H as [H1 H2]. z2q. split; [intros; repeat split; lra|tauto].
    + destruct NE as [t [Ha Hb]].
      apply mem_instant in Hb; [|exact Eb]. apply mem_proper in Ha; [|exact La].
      assert (st a <= st b < en a) by (split; [apply of_q_le|apply of_q_lt]; lra).
      destruct (Z.min (en a) (en b) <? Z.max (st a) (st b)) eqn:C; bools; [lia|].
      split; [unfold wf; cbn; lia|]. intros u.
      rewrite (mem_instant b u Eb), (mem_proper a u La).
      rewrite mem_instant by (cbn; lia). cbn.
      replace (Z.max (st a) (st b)) with (st b) by lia.
      destruct H as [H1 H2]. z2q. split; [intros; repeat split; lra|tauto].
    + destruct NE as [t [Ha Hb]].
      apply mem_proper in Ha; [|exact La]. apply mem_proper in Hb; [|exact Lb].
      assert (Z.max (st a) (st b) < Z.min (en a) (en b)).
      { destruct Ha as [A1 A2], Hb as [B1 B2].
        assert (st a < en b) by (apply of_q_lt; lra).
        assert (st b < en a) by (apply of_q_lt; lra). lia. }
      destruct (Z.min (en a) (en b) <? Z.max (st a) (st b)) eqn:C; bools; [lia|].
      split; [unfold wf; cbn; lia|]. intros u.
      rewrite (mem_proper a u La), (mem_proper b u Lb).
      rewrite mem_proper by (cbn; lia). cbn.
      destruct (Z.max_spec (st a) (st b)) as [[M1 ->]|[M1 ->]];
      destruct (Z.min_spec (en a) (en b)) as [[M2 ->]|[M2 ->]]; z2q; split; intros; repeat split; lra.
Qed.

(* ---- union ---- *)
Lemma union_ok a b : wf a -> wf b ->
  union a b = Ok (mkiv (Z.min (st a) (st b)) (Z.max (en a) (en b))).
Proof.
  unfold union, mk, wf. intros Wa Wb.
  destruct (Z.max (en a) (en b) <? Z.min (st a) (st b)) eqn:C; bools; [lia|reflexivity].
Qed.

(* smallest covering interval, in the library's own order: both operands are subsets
   according to issubset whenever the union is not an instant-at-the-end case, and any
   well-formed interval with both operands as (set) subsets contains the union's span *)
Lemma union_hull a b c : wf a -> wf b -> union a b = Ok c ->
  wf c /\ st c = Z.min (st a) (st b) /\ en c = Z.max (en a) (en b) /\
  (forall d, wf d -> (forall t, mem t a -> mem t d) -> (forall t, mem t b -> mem t d) ->
             st d <= st c /\ en c <= en d).
Proof.
  intros Wa Wb U. rewrite union_ok in U by assumption. injection U as <-. cbn.
  split; [unfold wf in *; cbn; lia|]. split; [reflexivity|]. split; [reflexivity|].
  intros d Wd Ha Hb.
  apply issubset_spec in Ha; [|assumption..]. apply issubset_spec in Hb; [|assumption..].
  unfold issubset, contains_dt, is_instant in Ha, Hb. unfold wf in *.
  destruct (st a =? en a) eqn:Ea, (st b =? en b) eqn:Eb, (st d =? en d) eqn:Ed;
    bools; lia.
Qed.

(* every instant of either operand is in the union, except that an operand which is an
   instant sitting exactly at the union's end is not (defect D8, kept as a finding) *)
Lemma covers_one a c t : wf a -> wf c -> st c <= st a -> en a <= en c ->
  mem t a -> ~ (st a = en a /\ en a = en c /\ st c < en c) -> mem t c.
Proof.
  intros Wa Wc Hs He H N.
  destruct (wf_cases c Wc) as [Ec|Lc].
  - (* the union is an instant: so is the operand, at the same point *)
    unfold wf in *. assert (Ea : st a = en a) by lia.
    apply mem_instant in H; [|exact Ea]. apply mem_instant; [exact Ec|].
    assert (st a = st c) by lia. z2q. lra.
  - apply mem_proper; [exact Lc|].
    destruct (wf_cases a Wa) as [Ea|La].
    + apply mem_instant in H; [|exact Ea].
      assert (en a < en c) by (destruct (Z.eq_dec (en a) (en c)); [exfalso; apply N; auto|lia]).
      z2q. split; lra.
    + apply mem_proper in H; [|exact La]. z2q. split; lra.
Qed.

Lemma union_covers_partial a b c t : wf a -> wf b -> union a b = Ok c ->
  (mem t a /\ ~ (st a = en a /\ en a = en c /\ st c < en c)) \/
  (mem t b /\ ~ (st b = en b /\ en b = en c /\ st c < en c)) ->
  mem t c.
Proof.
  intros Wa Wb U H. rewrite union_ok in U by assumption. injection U as <-.
  assert (Wc : wf (mkiv (Z.min (st a) (st b)) (Z.max (en a) (en b))))
    by (unfold wf in *; cbn; lia).
  destruct H as [[H N]|[H N]].
  - apply (covers_one a); auto; cbn; lia.
  - apply (covers_one b); auto; cbn; lia.
Qed.

Lemma union_covers_refuted :
  exists a b c t, wf a /\ wf b /\ union a b = Ok c /\ mem t b /\ ~ mem t c.
Proof.
  exists (mkiv 0 5), (mkiv 10 10), (mkiv 0 10), (q 10).
  split; [unfold wf; cbn; lia|]. split; [unfold wf; cbn; lia|].
  split; [reflexivity|]. split.
  - unfold mem; cbn. reflexivity.
  - unfold mem; cbn. intros [_ H]. revert H. apply Qlt_irrefl.
Qed.

(* ---- order facts ---- *)
Lemma mutual_subset_eq a b : wf a -> wf b ->
  issubset a b = true -> issubset b a = true -> a = b.
Proof.
  unfold wf, issubset, contains_dt, is_instant. intros Wa Wb H1 H2.
  destruct a as [sa ea], b as [sb eb]; cbn in *.
  destruct (sa =? ea) eqn:Ea, (sb =? eb) eqn:Eb; bools; f_equal; lia.
Qed.

Lemma iv_eqb_eq a b : iv_eqb a b = true <-> a = b.
Proof.
  unfold iv_eqb. destruct a, b; cbn. rewrite andb_true_iff, !Z.eqb_eq.
  split; [intros [-> ->]; reflexivity|intros H; injection H; auto].
Qed.

Lemma eq_hashkey a b : iv_eqb a b = true -> hkey a = hkey b.
Proof. intros H. apply iv_eqb_eq in H. subst. reflexivity. Qed.

Lemma issubset_refl a : wf a -> issubset a a = true.
Proof. intros W. apply issubset_spec; auto. Qed.

Lemma mk_rejects s e : e < s -> mk s e = Err ValueError.
Proof. unfold mk. intros H. destruct (e <? s) eqn:C; bools; [reflexivity|lia]. Qed.

Lemma mk_accepts s e : s <= e -> mk s e = Ok (mkiv s e) /\ wf (mkiv s e).
Proof. unfold mk, wf. intros H. destruct (e <? s) eqn:C; bools; [lia|]. cbn. auto. Qed.

Lemma mk_wf s e c : mk s e = Ok c -> wf c.
Proof. unfold mk. destruct (e <? s) eqn:C; [discriminate|]. intros H. injection H as <-.
  bools. unfold wf; cbn; lia. Qed.
