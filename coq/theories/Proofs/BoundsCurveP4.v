(* C09, last clause: what the "true extents of the curve" are, and the combined statement.

   The circle of radius r about c is the set of destinations dest_rad c theta r over all bearings theta
   (SphereP3.dest_dist: each is exactly r away from c; CurveM.circle_pt takes theta = 2 pi i / k).
   For a centre within 75 degrees of the equator and r <= 10 km, with phi = rad (lat c), e = r / Rearth:
     * the latitude (radians) of a curve point lies in [phi - e, phi + e]; both ends are attained (theta = pi, 0);
     * the longitude (radians, un-wrapped) of a curve point lies within T = asin (sin e / cos phi) of the
       centre's; both ends are attained (Cauchy-Schwarz; theta = -+ acos (tan phi tan e)).
   Hence: whatever the maximum / minimum of latitude and longitude over the curve are, the four numbers of
   GeoCircle.bounds are within r/100 metres of them (circle_bounds_match_extents). *)
From GV Require Import Prelude SphereM SphereP1 SphereP2 SphereP3 SphereP5 CurveM BoundsCurveM BoundsCurveP2 BoundsCurveP3.
From Coq Require Import Reals Lra.
Open Scope R_scope.

(* ------------------------------------------------------------------ latitude *)
Section LatExtent.
  Variables phi e : R.
  Hypothesis He : 0 <= e.
  Hypothesis Hlo : - (PI / 2) <= phi - e.
  Hypothesis Hhi : phi + e <= PI / 2.

  Let Hc : 0 <= cos phi. Proof. apply cos_ge_0; lra. Qed.
  Let Hse : 0 <= sin e. Proof. pose proof PI_RGT_0. apply sin_ge_0; lra. Qed.
  Let Hcs : 0 <= cos phi * sin e. Proof. apply Rmult_le_pos; assumption. Qed.

  Lemma lat_le theta : asin (s2_of phi e theta) <= phi + e.
  Proof.
    apply asin_le_of; [lra|apply s2_range|]. rewrite sin_plus. unfold s2_of.
    pose proof (COS_bound theta) as [_ C]. nra.
  Qed.

  Lemma lat_ge theta : phi - e <= asin (s2_of phi e theta).
  Proof.
    apply asin_ge_of; [lra|apply s2_range|]. rewrite sin_minus. unfold s2_of.
    pose proof (COS_bound theta) as [C _]. nra.
  Qed.

  Lemma lat_top : asin (s2_of phi e 0) = phi + e.
  Proof.
    unfold s2_of. rewrite cos_0, Rmult_1_r, <- sin_plus. apply asin_sin. lra.
  Qed.

  Lemma lat_bottom : asin (s2_of phi e PI) = phi - e.
  Proof.
    unfold s2_of. rewrite cos_PI.
    replace (sin phi * cos e + cos phi * sin e * -1) with (sin phi * cos e - cos phi * sin e) by ring.
    rewrite <- sin_minus. apply asin_sin. lra.
  Qed.
End LatExtent.

(* ------------------------------------------------------------------ longitude *)
Lemma cauchy_schwarz_unit x y A B M :
  x * x + y * y = 1 -> A * A + B * B = M * M -> 0 <= M -> x * A + y * B <= M.
Proof.
  intros H1 H2 HM.
  assert (E : (x * A + y * B) * (x * A + y * B) + (x * B - y * A) * (x * B - y * A) = M * M).
  { rewrite <- H2. replace (A * A + B * B) with ((x * x + y * y) * (A * A + B * B)) by (rewrite H1; ring). ring. }
  destruct (Rle_or_lt (x * A + y * B) M) as [L|L]; [exact L|exfalso].
  pose proof (Rle_0_sqr (x * B - y * A)) as Q. unfold Rsqr in Q. nra.
Qed.

Lemma atan_le a b : a <= b -> atan a <= atan b.
Proof. intros [H| ->]; [left; apply atan_increasing; exact H|right; reflexivity]. Qed.

Section LonExtent.
  Variables phi e : R.
  Hypothesis Hc : cmin <= cos phi <= 1.
  Hypothesis He : 0 <= e <= emax.
  Let s := sin phi.
  Let c := cos phi.
  Let u := sin e / c.
  Let k := sqrt (1 - u²).
  Let A := c * k.
  Let B := s * sin e.
  Let M := c * cos e.
  Let G theta := c * cos e - s * sin e * cos theta.

  Let Hs : -1 <= s <= 1. Proof. apply SIN_bound. Qed.
  Let sc : s * s + c * c = 1. Proof. apply sc1. Qed.
  Let Hc' : 2588 / 10000 <= c <= 1. Proof. exact Hc. Qed.
  Let He' : 0 <= e <= 157 / 100000. Proof. exact He. Qed.
  Let Hse : 0 <= sin e <= e.
  Proof. split; [apply sin_ge_0; pose proof PI_gt_3; lra|apply sin_le_x; lra]. Qed.
  Let Hce : 999 / 1000 <= cos e <= 1.
  Proof. pose proof (cos_ge_quad e). pose proof (cos_le_1 e). split; [nra|lra]. Qed.
  Let Hk : 9999 / 10000 <= k <= 1. Proof. exact (sqrt_u_bounds c e Hc He). Qed.
  Let Hu : 0 <= u <= 607 / 100000. Proof. exact (u_bounds c e Hc He). Qed.

  Let cu : c * u = sin e. Proof. unfold u. field. lra. Qed.
  Let kk : k * k = 1 - u * u.
  Proof. unfold k. rewrite sqrt_sqrt; [reflexivity|]. unfold Rsqr. nra. Qed.
  Let AA : A * A = c * c - sin e * sin e.
  Proof. unfold A. replace (c * k * (c * k)) with (c * c * (k * k)) by ring. rewrite kk, <- cu. ring. Qed.
  Let A_pos : 1 / 4 < A. Proof. unfold A. nra. Qed.
  Let M_pos : 1 / 4 < M. Proof. unfold M. nra. Qed.
  Let ABM : A * A + B * B = M * M.
  Proof.
    rewrite AA. unfold B, M. pose proof (sc1 e) as E.
    assert (Ece : cos e * cos e = 1 - sin e * sin e) by lra.
    assert (Ess : s * s = 1 - c * c) by lra.
    replace (c * cos e * (c * cos e)) with (c * c * (cos e * cos e)) by ring.
    replace (s * sin e * (s * sin e)) with (s * s * (sin e * sin e)) by ring.
    rewrite Ece, Ess. ring.
  Qed.

  Lemma G_pos theta : 1 / 4 < G theta.
  Proof.
    unfold G. pose proof (COS_bound theta) as [C1 C2].
    assert (- e <= s * sin e * cos theta <= e).
    { assert (- e <= s * sin e <= e) by nra. nra. }
    nra.
  Qed.

  (* the tangent of the half-extent *)
  Let b := u / k.

  Lemma b_eq : b = sin e / A.
  Proof. unfold b, A. rewrite <- cu. field. lra. Qed.

  Lemma asin_u' : asin u = atan b.
  Proof. unfold b, k. apply asin_atan. lra. Qed.

  (* the code's longitude offset at bearing theta *)
  Definition lon_offset theta : R :=
    atan2 (sin theta * sin e * cos phi) (cos e - sin phi * s2_of phi e theta).

  Lemma lon_offset_eq theta : lon_offset theta = atan (sin theta * sin e / G theta).
  Proof.
    pose proof (G_pos theta) as G0. unfold lon_offset, s2_of. fold s c.
    assert (EX : cos e - s * (s * cos e + c * sin e * cos theta) = c * G theta).
    { unfold G. replace (s * (s * cos e + c * sin e * cos theta))
        with (s * s * cos e + s * c * sin e * cos theta) by ring.
      replace (s * s) with (1 - c * c) by lra. ring. }
    rewrite EX, atan2_pos by nra. f_equal. field. lra.
  Qed.

  Lemma z_le_b theta : sin theta * sin e / G theta <= b.
  Proof.
    pose proof (G_pos theta) as G0. rewrite b_eq.
    pose proof (cauchy_schwarz_unit (sin theta) (cos theta) A B M (sc1 theta) ABM ltac:(lra)) as CS.
    assert (K : sin theta * A <= G theta) by (unfold G; unfold B, M in CS; lra).
    apply (Rmult_le_reg_r (G theta)); [lra|].
    replace (sin theta * sin e / G theta * G theta) with (sin theta * sin e) by (field; lra).
    apply (Rmult_le_reg_r A); [lra|].
    replace (sin e / A * G theta * A) with (sin e * G theta) by (field; lra).
    nra.
  Qed.

  Lemma z_ge_mb theta : - b <= sin theta * sin e / G theta.
  Proof.
    pose proof (G_pos theta) as G0. rewrite b_eq.
    assert (sc' : - sin theta * - sin theta + cos theta * cos theta = 1) by (pose proof (sc1 theta); lra).
    pose proof (cauchy_schwarz_unit (- sin theta) (cos theta) A B M sc' ABM ltac:(lra)) as CS.
    assert (K : - sin theta * A <= G theta) by (unfold G; unfold B, M in CS; lra).
    apply (Rmult_le_reg_r (G theta)); [lra|].
    replace (sin theta * sin e / G theta * G theta) with (sin theta * sin e) by (field; lra).
    apply (Rmult_le_reg_r A); [lra|].
    replace (- (sin e / A) * G theta * A) with (- (sin e * G theta)) by (field; lra).
    nra.
  Qed.

  Lemma lon_offset_range theta : - asin u <= lon_offset theta <= asin u.
  Proof.
    rewrite lon_offset_eq, asin_u'. split.
    - rewrite <- atan_opp. apply atan_le, z_ge_mb.
    - apply atan_le, z_le_b.
  Qed.

  (* the bearing of the easternmost point *)
  Definition theta_east : R := acos (B / M).

  Let x_range : -1 <= B / M <= 1.
  Proof.
    assert (- e <= B <= e) by (unfold B; nra).
    split.
    - apply (Rmult_le_reg_r M); [lra|]. replace (B / M * M) with B by (field; lra). nra.
    - apply (Rmult_le_reg_r M); [lra|]. replace (B / M * M) with B by (field; lra). nra.
  Qed.

  Lemma cos_theta_east : cos theta_east = B / M.
  Proof. apply cos_acos, x_range. Qed.

  Lemma sin_theta_east : sin theta_east = A / M.
  Proof.
    unfold theta_east. rewrite sin_acos by apply x_range.
    apply sqrt_lem_1.
    - pose proof x_range. unfold Rsqr. nra.
    - apply div_pos_nonneg; lra.
    - unfold Rsqr. replace (A / M * (A / M)) with (A * A / (M * M)) by (field; lra).
      replace (A * A) with (M * M - B * B) by lra. field. lra.
  Qed.

  Lemma G_theta_east : G theta_east = A * A / M.
  Proof.
    unfold G. rewrite cos_theta_east. fold B M.
    replace (A * A) with (M * M - B * B) by lra. field. lra.
  Qed.

  Lemma lon_offset_east : lon_offset theta_east = asin u.
  Proof.
    rewrite lon_offset_eq, asin_u', G_theta_east, sin_theta_east, b_eq. f_equal. field. lra.
  Qed.

  Lemma lon_offset_west : lon_offset (- theta_east) = - asin u.
  Proof.
    rewrite lon_offset_eq, asin_u'.
    assert (EG : G (- theta_east) = A * A / M) by (unfold G; rewrite cos_neg; apply G_theta_east).
    rewrite EG, sin_neg, sin_theta_east, b_eq, <- atan_opp. f_equal. field. lra.
  Qed.
End LonExtent.

(* ------------------------------------------------------------------ on coordinates *)
Lemma lat_bounds_pi x : Rabs x <= 75 -> forall e, 0 <= e <= emax ->
  - (PI / 2) <= rad x - e /\ rad x + e <= PI / 2.
Proof.
  intros H e He. destruct (centre_facts x H) as (B & _). pose proof half_pi_gt.
  assert (0 <= e <= 157 / 100000) by exact He. lra.
Qed.

Theorem circle_lat_extent c r theta :
  Rabs (lat c) <= 75 -> 0 <= r <= 10000 ->
  rad (lat c) - r / Rearth <= rad (lat (dest_rad c theta r)) <= rad (lat c) + r / Rearth.
Proof.
  intros Hl Hr. pose proof (radius_facts r Hr) as He.
  destruct (lat_bounds_pi _ Hl _ He) as [L U].
  rewrite lat_of_dest. split; [apply lat_ge|apply lat_le]; lra.
Qed.

Theorem circle_lat_extent_attained c r :
  Rabs (lat c) <= 75 -> 0 <= r <= 10000 ->
  rad (lat (dest_rad c 0 r)) = rad (lat c) + r / Rearth /\
  rad (lat (dest_rad c PI r)) = rad (lat c) - r / Rearth.
Proof.
  intros Hl Hr. pose proof (radius_facts r Hr) as He.
  destruct (lat_bounds_pi _ Hl _ He) as [L U].
  rewrite !lat_of_dest. split; [apply lat_top|apply lat_bottom]; lra.
Qed.

Theorem circle_lon_extent c r theta :
  Rabs (lat c) <= 75 -> 0 <= r <= 10000 ->
  rad (lon c) - asin (sin (r / Rearth) / cos (rad (lat c))) <= rad (lon (dest_rad c theta r))
  <= rad (lon c) + asin (sin (r / Rearth) / cos (rad (lat c))).
Proof.
  intros Hl Hr. destruct (centre_facts' _ Hl) as (Hc & _). pose proof (radius_facts r Hr) as He.
  rewrite lon_of_dest. pose proof (lon_offset_range _ _ Hc He theta) as K. unfold lon_offset in K. lra.
Qed.

Theorem circle_lon_extent_attained c r :
  Rabs (lat c) <= 75 -> 0 <= r <= 10000 ->
  exists te tw,
    rad (lon (dest_rad c te r)) = rad (lon c) + asin (sin (r / Rearth) / cos (rad (lat c))) /\
    rad (lon (dest_rad c tw r)) = rad (lon c) - asin (sin (r / Rearth) / cos (rad (lat c))).
Proof.
  intros Hl Hr. destruct (centre_facts' _ Hl) as (Hc & _). pose proof (radius_facts r Hr) as He.
  exists (theta_east (rad (lat c)) (r / Rearth)), (- theta_east (rad (lat c)) (r / Rearth)).
  rewrite !lon_of_dest.
  pose proof (lon_offset_east _ _ Hc He) as E. pose proof (lon_offset_west _ _ Hc He) as W.
  unfold lon_offset in E, W. rewrite E, W. split; ring.
Qed.

(* ------------------------------------------------------------------ the combined statement *)
(* m is the maximum (minimum) of f over all bearings *)
Definition is_max_of (f : R -> R) (m : R) : Prop := (forall t, f t <= m) /\ exists t, f t = m.
Definition is_min_of (f : R -> R) (m : R) : Prop := (forall t, m <= f t) /\ exists t, f t = m.

Lemma is_max_unique f m m' : is_max_of f m -> is_max_of f m' -> m = m'.
Proof.
  intros [U1 [t1 E1]] [U2 [t2 E2]]. pose proof (U1 t2). pose proof (U2 t1). lra.
Qed.
Lemma is_min_unique f m m' : is_min_of f m -> is_min_of f m' -> m = m'.
Proof.
  intros [U1 [t1 E1]] [U2 [t2 E2]]. pose proof (U1 t2). pose proof (U2 t1). lra.
Qed.

(* latitude / longitude (radians; longitude un-wrapped, as inverse_haversine computes it before the
   Coordinate constructor) of the curve point at bearing t *)
Definition curve_lat (c : coord) (r t : R) : R := rad (lat (dest_rad c t r)).
Definition curve_lon (c : coord) (r t : R) : R := rad (lon (dest_rad c t r)).

Theorem circle_true_extents c r :
  Rabs (lat c) <= 75 -> 0 <= r <= 10000 ->
  is_max_of (curve_lat c r) (rad (lat c) + r / Rearth) /\
  is_min_of (curve_lat c r) (rad (lat c) - r / Rearth) /\
  is_max_of (curve_lon c r) (rad (lon c) + asin (sin (r / Rearth) / cos (rad (lat c)))) /\
  is_min_of (curve_lon c r) (rad (lon c) - asin (sin (r / Rearth) / cos (rad (lat c)))).
Proof.
  intros Hl Hr.
  destruct (circle_lat_extent_attained c r Hl Hr) as [T Bt].
  destruct (circle_lon_extent_attained c r Hl Hr) as (te & tw & E & W).
  unfold is_max_of, is_min_of, curve_lat, curve_lon. repeat split.
  - intros t. apply (circle_lat_extent c r t Hl Hr).
  - exists 0. exact T.
  - intros t. apply (circle_lat_extent c r t Hl Hr).
  - exists PI. exact Bt.
  - intros t. apply (circle_lon_extent c r t Hl Hr).
  - exists te. exact E.
  - intros t. apply (circle_lon_extent c r t Hl Hr).
  - exists tw. exact W.
Qed.

(* C09, last sentence, for GeoCircle: whatever the extreme latitudes N, S and longitudes E, W of the
   curve are, the computed bounds are within 1 % of the radius of them, in metres (north-south along
   the meridian, east-west along the centre's parallel) *)
Theorem circle_bounds_match_extents c r N S E W :
  Rabs (lat c) <= 75 -> 0 <= r <= 10000 ->
  is_max_of (curve_lat c r) N -> is_min_of (curve_lat c r) S ->
  is_max_of (curve_lon c r) E -> is_min_of (curve_lon c r) W ->
  let b := circle_bounds c r in
  Rearth * Rabs (rad (rb_maxlat b) - N) <= r / 100 /\
  Rearth * Rabs (rad (rb_minlat b) - S) <= r / 100 /\
  Rearth * cos (rad (lat c)) * Rabs (rad (rb_maxlon b) - E) <= r / 100 /\
  Rearth * cos (rad (lat c)) * Rabs (rad (rb_minlon b) - W) <= r / 100.
Proof.
  intros Hl Hr HN HS HE HW b.
  destruct (circle_true_extents c r Hl Hr) as (TN & TS & TE & TW).
  rewrite (is_max_unique _ _ _ HN TN), (is_min_unique _ _ _ HS TS),
          (is_max_unique _ _ _ HE TE), (is_min_unique _ _ _ HW TW).
  unfold b. repeat split.
  - apply circle_bounds_north; assumption.
  - apply circle_bounds_south; assumption.
  - apply circle_bounds_east; assumption.
  - apply circle_bounds_west; assumption.
Qed.

(* ------------------------------------------------------------------ full ring: the same formula with the outer radius *)
Theorem ring_full_bounds_match_extents (s : ring) N S E W :
  Rabs (lat (r_center s)) <= 75 -> 0 <= r_outer s <= 10000 ->
  is_max_of (curve_lat (r_center s) (r_outer s)) N -> is_min_of (curve_lat (r_center s) (r_outer s)) S ->
  is_max_of (curve_lon (r_center s) (r_outer s)) E -> is_min_of (curve_lon (r_center s) (r_outer s)) W ->
  let b := ring_full_bounds s in
  Rearth * Rabs (rad (rb_maxlat b) - N) <= r_outer s / 100 /\
  Rearth * Rabs (rad (rb_minlat b) - S) <= r_outer s / 100 /\
  Rearth * cos (rad (lat (r_center s))) * Rabs (rad (rb_maxlon b) - E) <= r_outer s / 100 /\
  Rearth * cos (rad (lat (r_center s))) * Rabs (rad (rb_minlon b) - W) <= r_outer s / 100.
Proof. intros. apply circle_bounds_match_extents; assumption. Qed.

(* the generated vertices of the circle and of the ring's outer arc are curve points *)
Lemma circle_pt_is_curve_point s k i :
  rad (lat (circle_pt s k i)) = curve_lat (c_center s) (c_radius s) (circle_angle k i) /\
  rad (lon (circle_pt s k i)) = curve_lon (c_center s) (c_radius s) (circle_angle k i).
Proof. split; reflexivity. Qed.
Lemma ring_outer_pt_is_curve_point s k i :
  rad (lat (ring_outer_pt s k i)) = curve_lat (r_center s) (r_outer s) (ring_angle s k i) /\
  rad (lon (ring_outer_pt s k i)) = curve_lon (r_center s) (r_outer s) (ring_angle s k i).
Proof. split; reflexivity. Qed.
