(* Proofs about the QDMS strings of FormatM.v: widths, and that from_qdms reads back exactly
   the numbers to_qdms wrote.  Facts about decimal text on the finite domains that occur
   (degrees < 1000, minutes < 100, hundredths of a second < 10000) are established by
   exhaustive computation over the whole domain (a proof by enumeration, not a sample). *)
From Coq Require Import QArith Qround Qabs Lqa String Ascii.
From GV Require Import Prelude CoordM CoordP FormatM FormatP.
Open Scope Z_scope.

(* ------------------------------------------------------------------ finite enumeration *)
Fixpoint zrange (lo : Z) (n : nat) : list Z :=
  match n with O => [] | S k => lo :: zrange (lo + 1) k end.

Lemma zrange_in n : forall lo z, lo <= z < lo + Z.of_nat n -> In z (zrange lo n).
Proof.
  induction n as [|n IH]; intros lo z H; [lia|]. cbn [zrange].
  destruct (Z.eq_dec z lo) as [->|NE]; [left; reflexivity|right].
  apply IH. lia.
Qed.

Lemma forall_range (P : Z -> bool) (n : Z) :
  forallb P (zrange 0 (Z.to_nat n)) = true -> forall z, 0 <= z < n -> P z = true.
Proof.
  intros H z Hz. rewrite forallb_forall in H. apply H. apply zrange_in. lia.
Qed.

Definition oz_eqb (a : option Z) (b : Z) : bool :=
  match a with Some x => x =? b | None => false end.

Lemma oz_eqb_true a b : oz_eqb a b = true -> a = Some b.
Proof. destruct a; cbn; [intro H; f_equal; lia|discriminate]. Qed.

(* zero_pad(int, width) has exactly `width` characters and reads back as the int *)
Definition pad_ok (w : nat) (n : Z) : bool :=
  (String.length (pad w (digits n)) =? w)%nat && oz_eqb (parse_nat (pad w (digits n))) n.

Lemma pad3_ok : forall d, 0 <= d < 1000 -> pad_ok 3 d = true.
Proof. apply forall_range. vm_compute. reflexivity. Qed.

Lemma pad2_ok : forall d, 0 <= d < 100 -> pad_ok 2 d = true.
Proof. apply forall_range. vm_compute. reflexivity. Qed.

(* zero_pad(float hundredths, 4): four characters SSHH, SS = h / 100 and HH = h mod 100 *)
Definition pad4_okb (h : Z) : bool :=
  let s := pad 4 (str2_nodot h) in
  (String.length s =? 4)%nat && oz_eqb (parse_nat (substring 0 2 s)) (h / 100) &&
  oz_eqb (parse_nat (substring 2 2 s)) (h mod 100).

Lemma pad4_ok : forall h, 0 <= h < 10000 -> pad4_okb h = true.
Proof. apply forall_range. vm_compute. reflexivity. Qed.

(* ------------------------------------------------------------------ widths *)
Lemma length_app (a b : string) : String.length (a ++ b) = (String.length a + String.length b)%nat.
Proof. induction a as [|c a IH]; cbn; [reflexivity|now rewrite IH]. Qed.

Definition dms_small (deglen : nat) (t : dms) : Prop :=
  0 <= dg t < (if Nat.eqb deglen 3 then 1000 else 100) /\ 0 <= mn t < 100 /\ 0 <= hund (s5 t) < 10000.

Lemma qdms_axis_length3 letters t : dms_small 3 t -> String.length (qdms_axis 3 letters t) = 10%nat.
Proof.
  intros (D & M & H). cbn [Nat.eqb] in D. unfold qdms_axis, qdms_axis_with. cbn [String.length].
  rewrite !length_app. rewrite Z.abs_eq by lia.
  pose proof (pad3_ok _ D) as A. pose proof (pad2_ok _ M) as B. pose proof (pad4_ok _ H) as C.
  unfold pad_ok in A, B. unfold pad4_okb in C.
  apply andb_true_iff in A, B. destruct A as [A _], B as [B _].
  apply andb_true_iff in C. destruct C as [C _]. apply andb_true_iff in C. destruct C as [C _].
  apply Nat.eqb_eq in A, B, C. rewrite A, B, C. reflexivity.
Qed.

Lemma qdms_axis_length2 letters t : dms_small 2 t -> String.length (qdms_axis 2 letters t) = 9%nat.
Proof.
  intros (D & M & H). cbn [Nat.eqb] in D. unfold qdms_axis, qdms_axis_with. cbn [String.length].
  rewrite !length_app. rewrite Z.abs_eq by lia.
  pose proof (pad2_ok _ D) as A. pose proof (pad2_ok _ M) as B. pose proof (pad4_ok _ H) as C.
  unfold pad_ok in A, B. unfold pad4_okb in C.
  apply andb_true_iff in A, B. destruct A as [A _], B as [B _].
  apply andb_true_iff in C. destruct C as [C _]. apply andb_true_iff in C. destruct C as [C _].
  apply Nat.eqb_eq in A, B, C. rewrite A, B, C. reflexivity.
Qed.

(* ------------------------------------------------------------------ reading back *)
Open Scope Q_scope.

Definition qv (d m ss hh : Z) : Q :=
  inject_Z d + inject_Z m / 60 + (inject_Z ss + inject_Z hh / 100) / 3600.

Definition signed (L : ascii) (v : Q) : Q :=
  if (Ascii.eqb L "W" || Ascii.eqb L "S")%bool then v * -1 else v * 1.

Lemma qdms_value_parts3 L A B C d m ss hh :
  String.length A = 3%nat -> String.length B = 2%nat -> String.length C = 4%nat ->
  parse_nat A = Some d -> parse_nat B = Some m ->
  parse_nat (substring 0 2 C) = Some ss -> parse_nat (substring 2 2 C) = Some hh ->
  qdms_value 3 (String L (A ++ B ++ C)) = Some (signed L (qv d m ss hh)).
Proof.
  intros LA LB LC PA PB PS PH.
  destruct A as [|a1 [|a2 [|a3 [|]]]]; try discriminate LA.
  destruct B as [|b1 [|b2 [|]]]; try discriminate LB.
  destruct C as [|c1 [|c2 [|c3 [|c4 [|]]]]]; try discriminate LC.
  unfold qdms_value.
  cbn [String.length append Nat.eqb Nat.add negb substring get] in *.
  rewrite PA, PB, PS, PH. reflexivity.
Qed.

Lemma qdms_value_parts2 L A B C d m ss hh :
  String.length A = 2%nat -> String.length B = 2%nat -> String.length C = 4%nat ->
  parse_nat A = Some d -> parse_nat B = Some m ->
  parse_nat (substring 0 2 C) = Some ss -> parse_nat (substring 2 2 C) = Some hh ->
  qdms_value 2 (String L (A ++ B ++ C)) = Some (signed L (qv d m ss hh)).
Proof.
  intros LA LB LC PA PB PS PH.
  destruct A as [|a1 [|a2 [|]]]; try discriminate LA.
  destruct B as [|b1 [|b2 [|]]]; try discriminate LB.
  destruct C as [|c1 [|c2 [|c3 [|c4 [|]]]]]; try discriminate LC.
  unfold qdms_value.
  cbn [String.length append Nat.eqb Nat.add negb substring get] in *.
  rewrite PA, PB, PS, PH. reflexivity.
Qed.

Lemma pad_ok_inv w n : pad_ok w n = true ->
  String.length (pad w (digits n)) = w /\ parse_nat (pad w (digits n)) = Some n.
Proof.
  unfold pad_ok. intro H. apply andb_true_iff in H. destruct H as [A B].
  apply Nat.eqb_eq in A. apply oz_eqb_true in B. split; assumption.
Qed.

Lemma pad4_ok_inv h : pad4_okb h = true ->
  String.length (pad 4 (str2_nodot h)) = 4%nat /\
  parse_nat (substring 0 2 (pad 4 (str2_nodot h))) = Some (h / 100)%Z /\
  parse_nat (substring 2 2 (pad 4 (str2_nodot h))) = Some (h mod 100)%Z.
Proof.
  unfold pad4_okb. intro H. apply andb_true_iff in H. destruct H as [H C].
  apply andb_true_iff in H. destruct H as [A B].
  apply Nat.eqb_eq in A. apply oz_eqb_true in B, C. repeat split; assumption.
Qed.

(* the number from_qdms's convert() reads from the string to_qdms wrote for one axis *)
Definition axis_read (t : dms) : Q :=
  let h := hund (s5 t) in
  let v := qv (dg t) (mn t) (h / 100) (h mod 100) in
  if pos t then v * 1 else v * -1.

Lemma qdms_value_axis3 t : dms_small 3 t -> qdms_value 3 (qdms_axis 3 EW t) = Some (axis_read t).
Proof.
  intros (D & M & H). cbn [Nat.eqb] in D.
  destruct (pad_ok_inv _ _ (pad3_ok _ D)) as [LA PA].
  destruct (pad_ok_inv _ _ (pad2_ok _ M)) as [LB PB].
  destruct (pad4_ok_inv _ (pad4_ok _ H)) as (LC & PS & PH).
  unfold qdms_axis, qdms_axis_with. rewrite Z.abs_eq by lia.
  rewrite (qdms_value_parts3 _ _ _ _ _ _ _ _ LA LB LC PA PB PS PH).
  unfold axis_read, signed, EW. cbn [fst snd]. destruct (pos t); reflexivity.
Qed.

Lemma qdms_value_axis2 t : dms_small 2 t -> qdms_value 2 (qdms_axis 2 NS t) = Some (axis_read t).
Proof.
  intros (D & M & H). cbn [Nat.eqb] in D.
  destruct (pad_ok_inv _ _ (pad2_ok _ D)) as [LA PA].
  destruct (pad_ok_inv _ _ (pad2_ok _ M)) as [LB PB].
  destruct (pad4_ok_inv _ (pad4_ok _ H)) as (LC & PS & PH).
  unfold qdms_axis, qdms_axis_with. rewrite Z.abs_eq by lia.
  rewrite (qdms_value_parts2 _ _ _ _ _ _ _ _ LA LB LC PA PB PS PH).
  unfold axis_read, signed, NS. cbn [fst snd]. destruct (pos t); reflexivity.
Qed.

(* ------------------------------------------------------------------ numbers *)
Lemma inj_bounds (z lo hi : Z) : (lo <= z <= hi)%Z -> inject_Z lo <= inject_Z z /\ inject_Z z <= inject_Z hi.
Proof. intros [A B]. split; rewrite <- Zle_Qle; assumption. Qed.

(* same with the bounds as literals, the form lra reads as numerals *)
Lemma inj_bounds_c (z lo hi : Z) : (lo <= z <= hi)%Z -> (lo # 1) <= inject_Z z /\ inject_Z z <= (hi # 1).
Proof. exact (inj_bounds z lo hi). Qed.

(* everything the later steps need to know about one axis of to_dms when |dd| <= B degrees *)
Lemma axis_facts dd (B : Z) : Qabs dd <= inject_Z B ->
  exists sec,
    let t := to_dms_axis dd in
    0 <= sec /\ sec < 60 /\
    Qabs dd * 3600 == 3600 * inject_Z (dg t) + 60 * inject_Z (mn t) + sec /\
    inject_Z (s5 t) - (1 # 2) <= (sec + (1 # 100000000000000000)) * 100000 /\
    (sec + (1 # 100000000000000000)) * 100000 <= inject_Z (s5 t) + (1 # 2) /\
    (0 <= dg t <= B)%Z /\ (0 <= mn t < 60)%Z /\ (0 <= s5 t <= 6000000)%Z /\
    pos t = Qle_bool 0 dd /\
    (dg t = B -> mn t = 0%Z /\ s5 t = 0%Z).
Proof.
  intro HB. unfold to_dms_axis.
  assert (Hx : 0 <= Qabs dd * 3600).
  { pose proof (Qabs_nonneg dd). lra. }
  destruct (dms_of_x_decomp _ (Qle_bool 0 dd) Hx) as (sec & S0 & S1 & E & ES & D0 & M & P).
  exists sec. cbv zeta.
  set (t := dms_of_x (Qabs dd * 3600) (Qle_bool 0 dd)) in *.
  pose proof (s5_range sec S0 S1) as KR. rewrite <- ES in KR.
  destruct (rhu5_spec sec) as [RL RU]. rewrite <- ES in RL, RU.
  destruct (inj_bounds_c (mn t) 0 59 ltac:(lia)) as [M1 M2].
  assert (D1 : 0 <= inject_Z (dg t)).
  { change 0 with (inject_Z 0). rewrite <- Zle_Qle. exact D0. }
  assert (DB : (dg t <= B)%Z).
  { apply inject_Z_le_inv. lra. }
  repeat (split; [first [assumption|lia]|]).
  intro EQ. rewrite EQ in E. split.
  - assert (M0 : inject_Z (mn t) <= inject_Z 0) by (unfold inject_Z at 2; lra).
    apply inject_Z_le_inv in M0. lia.
  - assert (S00 : sec == 0) by lra.
    assert (K0 : (0 <= s5 t <= 0)%Z).
    { eapply int_between; [exact RL|exact RU| |]; unfold inject_Z; lra. }
    lia.
Qed.

Lemma hund_spec k5 :
  inject_Z (hund k5) - (1 # 2) <= (inject_Z k5 / 100000 + (1 # 100000000000000)) * 100 /\
  (inject_Z k5 / 100000 + (1 # 100000000000000)) * 100 <= inject_Z (hund k5) + (1 # 2).
Proof. unfold hund. exact (rhu2_spec (inject_Z k5 / p10 5)). Qed.

Lemma hund_range k5 : (0 <= k5 <= 6000000)%Z -> (0 <= hund k5 <= 6000)%Z.
Proof.
  intro H. destruct (hund_spec k5) as [L U]. destruct (inj_bounds_c _ _ _ H) as [A B].
  set (k := inject_Z k5) in *. set (s' := k / 100000) in *.
  assert (Hs : s' * 100000 == k) by (unfold s'; field).
  eapply int_between; [exact L|exact U| |]; unfold inject_Z; lra.
Qed.

Lemma hund_0 : hund 0 = 0%Z.
Proof. reflexivity. Qed.

(* the number read back, times 3600, in terms of the whole hundredths h *)
Lemma axis_read_unfold t :
  axis_read t * 3600 ==
  (if pos t then 1 else -1) *
  (3600 * inject_Z (dg t) + 60 * inject_Z (mn t) + inject_Z (hund (s5 t)) / 100).
Proof.
  unfold axis_read, qv. set (h := hund (s5 t)).
  assert (Hh : inject_Z h == 100 * inject_Z (h / 100) + inject_Z (h mod 100)).
  { rewrite (Z.div_mod h 100) at 1 by lia. rewrite inject_Z_plus, inject_Z_mult. reflexivity. }
  rewrite Hh. destruct (pos t); field.
Qed.

(* resolution of the string on one axis, in degrees:
   (0.005 + 1e-14 [second rounding] + 0.5e-5 + 1e-17 [first rounding]) / 3600 *)
Definition qdms_str_eps : Q :=
  (1 # 720000) + (1 # 360000000000000000) + (1 # 720000000) + (1 # 360000000000000000000).

Lemma qdms_str_eps_is : qdms_str_eps ==
  ((1 # 200) + (1 # 100000000000000) + (1 # 200000) + (1 # 100000000000000000)) / 3600.
Proof. reflexivity. Qed.

(* the string written for |dd| <= B degrees denotes a number within qdms_str_eps of dd and
   still within [-B, B] *)
Lemma axis_read_close dd (B : Z) : Qabs dd <= inject_Z B ->
  let v := axis_read (to_dms_axis dd) in
  (- qdms_str_eps <= v - dd /\ v - dd <= qdms_str_eps) /\ (- inject_Z B <= v /\ v <= inject_Z B).
Proof.
  intro HB. cbv zeta.
  destruct (axis_facts dd B HB) as (sec & S0 & S1 & E & RL & RU & D & M & K & P & TOP).
  cbv zeta in *. pose proof (axis_read_unfold (to_dms_axis dd)) as U.
  set (t := to_dms_axis dd) in *.
  pose proof (hund_spec (s5 t)) as [HL HU]. pose proof (hund_range _ K) as HR.
  destruct (inj_bounds_c _ _ _ HR) as [H1 H2].
  destruct (inj_bounds_c _ _ _ K) as [K1 K2].
  destruct (inj_bounds_c (mn t) 0 59 ltac:(lia)) as [M1 M2].
  destruct (inj_bounds _ _ _ D) as [D1 D2]. unfold inject_Z at 1 in D1.
  set (k := inject_Z (s5 t)) in *. set (s' := k / 100000) in *.
  assert (Hs : s' * 100000 == k) by (unfold s'; field).
  set (h := inject_Z (hund (s5 t))) in *. set (h' := h / 100) in *.
  assert (Hh : h' * 100 == h) by (unfold h'; field).
  (* magnitude bound *)
  assert (HV : 3600 * inject_Z (dg t) + 60 * inject_Z (mn t) + h' <= 3600 * inject_Z B).
  { destruct (Z.eq_dec (dg t) B) as [EQ|NE].
    - destruct (TOP EQ) as [M0 K0].
      assert (H0 : h == 0) by (unfold h; rewrite K0, hund_0; reflexivity).
      assert (M00 : inject_Z (mn t) == 0) by (rewrite M0; reflexivity).
      rewrite EQ. lra.
    - assert (DB' : (dg t + 1 <= B)%Z) by lia.
      rewrite Zle_Qle in DB'. rewrite inject_Z_plus in DB'. change (inject_Z 1) with 1 in DB'.
      lra. }
  unfold qdms_str_eps. rewrite P in U.
  destruct (Qabs_cases dd) as [[A EA]|[A EA]];
    destruct (Qle_bool_0_cases dd) as [[A' EB]|[A' EB]]; try lra;
    rewrite EB in U; rewrite EA in E; repeat split; lra.
Qed.

(* ------------------------------------------------------------------ from_qdms's own rounding *)
Definition r6_eps : Q := (1 # 2000000) + (1 # 1000000000000000000).

Lemma rhu6_close a (B : Z) : - inject_Z B <= a -> a <= inject_Z B ->
  (- r6_eps <= rhu a 6 - a /\ rhu a 6 - a <= r6_eps) /\
  (- inject_Z B <= rhu a 6 /\ rhu a 6 <= inject_Z B).
Proof.
  intros A1 A2. destruct (rhu6_spec a) as [L U]. unfold rhu. change (p10 6) with 1000000.
  assert (KB : (- (B * 1000000) <= rhu_k a 6 <= B * 1000000)%Z).
  { eapply int_between; [exact L|exact U| |];
      rewrite ?inject_Z_opp, inject_Z_mult; unfold inject_Z at 2; lra. }
  destruct (inj_bounds _ _ _ KB) as [K1 K2].
  rewrite inject_Z_opp, inject_Z_mult in K1. rewrite inject_Z_mult in K2.
  unfold inject_Z at 2 in K1. unfold inject_Z at 3 in K2.
  set (k := inject_Z (rhu_k a 6)) in *. set (r := k / 1000000).
  assert (Hr : r * 1000000 == k) by (unfold r; field).
  unfold r6_eps. repeat split; lra.
Qed.

Lemma canonical_abs c : canonical c -> Qabs (clon c) <= inject_Z 180 /\ Qabs (clat c) <= inject_Z 90.
Proof.
  intros [[L1 L2] [B1 B2]]. split; apply Qabs_le_of; unfold inject_Z; lra.
Qed.

Lemma canonical_small c : canonical c ->
  dms_small 3 (to_dms_axis (clon c)) /\ dms_small 2 (to_dms_axis (clat c)).
Proof.
  intro Hc. destruct (canonical_abs c Hc) as [HA HB].
  destruct (axis_facts _ _ HA) as (s1 & _ & _ & _ & _ & _ & D1 & M1 & K1 & _).
  destruct (axis_facts _ _ HB) as (s2 & _ & _ & _ & _ & _ & D2 & M2 & K2 & _).
  cbv zeta in *. pose proof (hund_range _ K1). pose proof (hund_range _ K2).
  split; unfold dms_small; cbn [Nat.eqb]; repeat split; lia.
Qed.

(* QDDDMMSSHH is always 10 characters and QDDMMSSHH always 9, in either order *)
Lemma qdms_lengths c rev : canonical c ->
  let (a, b) := to_qdms c rev in
  if rev then String.length a = 9%nat /\ String.length b = 10%nat
  else String.length a = 10%nat /\ String.length b = 9%nat.
Proof.
  intro Hc. destruct (canonical_small c Hc) as [S3 S2].
  unfold to_qdms, to_dms.
  pose proof (qdms_axis_length3 EW _ S3). pose proof (qdms_axis_length2 NS _ S2).
  destruct rev; split; assumption.
Qed.

(* resolution of the whole round trip on one axis, in degrees *)
Definition qdms_eps : Q := qdms_str_eps + r6_eps.

(* from_qdms (to_qdms c) for a stored coordinate: defined, never fails, each axis within
   qdms_eps (longitude modulo the full turn when the text reaches 180 degrees) *)
Lemma qdms_roundtrip c : canonical c ->
  exists c', from_qdms (fst (to_qdms c false)) (snd (to_qdms c false)) = Some (Ok c') /\
    within qdms_eps (clat c') (clat c) /\
    (within qdms_eps (clon c') (clon c) \/ within qdms_eps (clon c' + 360) (clon c)).
Proof.
  intro Hc. destruct (canonical_small c Hc) as [S3 S2].
  destruct (canonical_abs c Hc) as [HA HB].
  unfold to_qdms, to_dms. cbn [fst snd]. unfold from_qdms.
  rewrite (qdms_value_axis3 _ S3), (qdms_value_axis2 _ S2).
  destruct (axis_read_close _ _ HA) as [[E1 E2] [R1 R2]].
  destruct (axis_read_close _ _ HB) as [[E3 E4] [R3 R4]]. cbv zeta in *.
  set (a := axis_read (to_dms_axis (clon c))) in *.
  set (b := axis_read (to_dms_axis (clat c))) in *.
  destruct (rhu6_close a 180 R1 R2) as [[F1 F2] [G1 G2]].
  destruct (rhu6_close b 90 R3 R4) as [[F3 F4] [G3 G4]].
  unfold inject_Z in G1, G2, G3, G4.
  unfold mk. rewrite norm_closed_range by lra.
  eexists. split; [reflexivity|]. cbn [clon clat]. unfold within, qdms_eps.
  split; [split; lra|].
  destruct (canon180_cases (rhu a 6) G2) as [[H ->]|[H ->]].
  - left. split; lra.
  - right. split; lra.
Qed.

(* ------------------------------------------------------------------ inputs on the 1e-6 degree grid *)
(* two multiples of 1e-6 that are within qdms_eps (< 2e-6) of each other differ by at most one step *)
Lemma grid_snap (k n : Z) x y :
  x == inject_Z k / 1000000 -> y == inject_Z n / 1000000 ->
  within qdms_eps x y -> within (1 # 1000000) x y.
Proof.
  intros Hx Hy [A B]. unfold qdms_eps, qdms_str_eps, r6_eps in A, B.
  set (a := inject_Z k / 1000000) in *. set (b := inject_Z n / 1000000) in *.
  assert (Ha : a * 1000000 == inject_Z k) by (unfold a; field).
  assert (Hb : b * 1000000 == inject_Z n) by (unfold b; field).
  assert (H1 : inject_Z k < inject_Z (n + 2)).
  { rewrite inject_Z_plus. unfold inject_Z at 3. lra. }
  assert (H2 : inject_Z n < inject_Z (k + 2)).
  { rewrite inject_Z_plus. unfold inject_Z at 3. lra. }
  apply inject_Z_lt_inv in H1, H2.
  assert (H3 : (k <= n + 1)%Z) by lia. assert (H4 : (n <= k + 1)%Z) by lia.
  rewrite Zle_Qle, inject_Z_plus in H3, H4. unfold inject_Z at 3 in H3. unfold inject_Z at 3 in H4.
  split; lra.
Qed.

(* for a stored coordinate with at most 6 decimals the round trip returns the coordinate itself
   or its neighbour on the 1e-6 degree grid: error at most 1e-6 degrees = 0.0036 arc-seconds *)
Lemma qdms_roundtrip_6dec c (nlon nlat : Z) : canonical c ->
  clon c == inject_Z nlon / 1000000 -> clat c == inject_Z nlat / 1000000 ->
  exists c', from_qdms (fst (to_qdms c false)) (snd (to_qdms c false)) = Some (Ok c') /\
    within (1 # 1000000) (clat c') (clat c) /\
    (within (1 # 1000000) (clon c') (clon c) \/ within (1 # 1000000) (clon c' + 360) (clon c)).
Proof.
  intros Hc Elon Elat. destruct (canonical_small c Hc) as [S3 S2].
  destruct (canonical_abs c Hc) as [HA HB].
  unfold to_qdms, to_dms. cbn [fst snd]. unfold from_qdms.
  rewrite (qdms_value_axis3 _ S3), (qdms_value_axis2 _ S2).
  destruct (axis_read_close _ _ HA) as [[E1 E2] [R1 R2]].
  destruct (axis_read_close _ _ HB) as [[E3 E4] [R3 R4]]. cbv zeta in *.
  set (a := axis_read (to_dms_axis (clon c))) in *.
  set (b := axis_read (to_dms_axis (clat c))) in *.
  destruct (rhu6_close a 180 R1 R2) as [[F1 F2] [G1 G2]].
  destruct (rhu6_close b 90 R3 R4) as [[F3 F4] [G3 G4]].
  unfold inject_Z in G1, G2, G3, G4.
  unfold mk. rewrite norm_closed_range by lra.
  eexists. split; [reflexivity|]. cbn [clon clat].
  assert (Ra : rhu a 6 == inject_Z (rhu_k a 6) / 1000000) by reflexivity.
  assert (Rb : rhu b 6 == inject_Z (rhu_k b 6) / 1000000) by reflexivity.
  split.
  - apply (grid_snap _ _ _ _ Rb Elat). unfold within, qdms_eps. split; lra.
  - destruct (canon180_cases (rhu a 6) G2) as [[H ->]|[H ->]].
    + left. apply (grid_snap _ _ _ _ Ra Elon). unfold within, qdms_eps. split; lra.
    + right. assert (Ra' : -180 + 360 == inject_Z (rhu_k a 6) / 1000000) by (rewrite <- Ra, H; reflexivity).
      apply (grid_snap _ _ _ _ Ra' Elon). unfold within, qdms_eps. split; lra.
Qed.

(* ------------------------------------------------------------------ witnesses *)
(* the text alone can be more than 0.005 arc-seconds from the value: seconds 12.004996 are first
   rounded to 12.00500 and then to 12.01 (double rounding), 0.005004 arc-seconds away *)
Lemma qdms_text_0005_refuted : exists dd,
  (1 # 200) / 3600 < axis_read (to_dms_axis dd) - dd.
Proof. exists (10 + (12004996 # 1000000) / 3600). vm_compute. reflexivity. Qed.

(* before repair D19 (trailing zeros of the hundredths stripped before padding) a coordinate
   with 12.00 seconds was written as ..0120 and read back as 1.20 seconds: 10.8 arc-seconds off *)
Lemma qdms_trailing_zero_refuted : exists c c',
  canonical c /\
  from_qdms (fst (to_qdms_preD19 c)) (snd (to_qdms_preD19 c)) = Some (Ok c') /\
  (10 # 1) / 3600 < clon c - clon c'.
Proof.
  exists (mkc (36012 # 3600) 20 None None). eexists. split; [|split].
  - unfold canonical. cbn [clon clat]. repeat split; lra.
  - vm_compute. reflexivity.
  - vm_compute. reflexivity.
Qed.

(* the repaired writer on the same coordinate *)
Lemma qdms_trailing_zero_fixed :
  to_qdms (mkc (36012 # 3600) 20 None None) false = ("E010001200", "N20000000")%string.
Proof. vm_compute. reflexivity. Qed.

(* ------------------------------------------------------------------ projections (finding D20) *)
(* whatever the third-party transform returns: when its rounded output happens to lie inside
   the degree ranges it is stored as is (and z holds False, i.e. 0) *)
Lemma projection_as_is_partial (T : Q -> Q -> Q * Q) c :
  let x := fst (T (clat c) (clon c)) in
  let y := snd (T (clat c) (clon c)) in
  -180 <= rhu y 6 -> rhu y 6 < 180 -> -90 <= rhu x 6 -> rhu x 6 <= 90 ->
  to_projection T c = Ok (mkc (rhu y 6) (rhu x 6) (Some 0) None).
Proof.
  cbv zeta. intros A1 A2 B1 B2. unfold to_projection.
  destruct (T (clat c) (clon c)) as [x y]. cbn [fst snd] in *.
  unfold mk. rewrite norm_fix by assumption. reflexivity.
Qed.

(* "projected values are returned as-is" is false: metres outside the degree ranges are
   wrapped by the normalising constructor.  Witness: London in EPSG:3857. *)
Lemma projection_as_is_refuted :
  exists (T : Q -> Q -> Q * Q) c c',
    canonical c /\ to_projection T c = Ok c' /\
    ~ (clon c' == rhu (snd (T (clat c) (clon c))) 6 /\ clat c' == rhu (fst (T (clat c) (clon c))) 6).
Proof.
  exists (fun _ _ => ((-17153442975) # 1000000, 6717350953866 # 1000000)).
  exists (mkc ((-154092) # 1000000) (51539865 # 1000000) None None).
  eexists. split; [|split].
  - unfold canonical. cbn [clon clat]. repeat split; lra.
  - vm_compute. reflexivity.
  - intros [A _]. vm_compute in A. discriminate A.
Qed.

(* ------------------------------------------------------------------ hemisphere letters *)
(* the first character of each string is E/N exactly when the value is >= 0, W/S otherwise *)
Lemma qdms_letters c :
  String.get 0 (fst (to_qdms c false)) = Some (if Qle_bool 0 (clon c) then "E"%char else "W"%char) /\
  String.get 0 (snd (to_qdms c false)) = Some (if Qle_bool 0 (clat c) then "N"%char else "S"%char).
Proof. split; reflexivity. Qed.
