(* Proofs about the monotone-chain model (HullM.v): the stack invariant of one chain.
   For points arriving in increasing order R (lexicographic for the lower chain, reverse
   lexicographic for the upper chain) the stack is, after every iteration,
     - a strictly R-decreasing list of processed points from the last one down to the first,
     - whose consecutive triples are strict left turns,
     - and every processed point lies on or to the left of every edge.
   Stdlib only; no axioms. *)
From Coq Require Import Sorted.
From GV Require Import Prelude HullM HullP.
Open Scope Z_scope.

(* ------------------------------------------------------------------ vectors *)
Definition vx (u v : pt) : Z := fst u * snd v - snd u * fst v.
Definition lexpos (u : pt) : Prop := fst u > 0 \/ (fst u = 0 /\ snd u > 0).

Lemma vx_id u v w : fst v * vx u w = fst u * vx v w + fst w * vx u v.
Proof. unfold vx. ring. Qed.
Lemma vy_id u v w : snd v * vx u w = snd u * vx v w + snd w * vx u v.
Proof. unfold vx. ring. Qed.

(* directions in the half plane "lexicographically positive" are linearly ordered by angle *)
Lemma half_plane_trans u v w : lexpos u -> lexpos v -> lexpos w ->
  vx u v >= 0 -> vx v w >= 0 -> vx u w >= 0.
Proof.
  intros Hu Hv Hw H1 H2.
  pose proof (vx_id u v w) as I. pose proof (vy_id u v w) as J.
  unfold lexpos in *.
  destruct Hv as [Hv|[Hv1 Hv2]].
  - assert (fst u >= 0) by lia. assert (fst w >= 0) by lia. nia.
  - unfold vx in *. nia.
Qed.

(* v is a positive multiple of u *)
Lemma ray_ext u v w : lexpos u -> lexpos v -> vx u v = 0 -> vx w u < 0 -> vx w v < 0.
Proof.
  intros Hu Hv H0 H1.
  pose proof (vx_id w u v) as I. pose proof (vy_id w u v) as J.
  unfold lexpos in *. rewrite H0 in I, J.
  destruct Hu as [Hu|[Hu1 Hu2]].
  - assert (fst v > 0) by (unfold vx in H0; nia). nia.
  - assert (fst v = 0) by (unfold vx in H0; nia).
    assert (snd v > 0) by lia. nia.
Qed.

(* two vectors parallel to a non-zero third are parallel *)
Lemma parallel_trans d u v : d <> (0, 0) -> vx d u = 0 -> vx d v = 0 -> vx u v = 0.
Proof.
  intros Hd H1 H2.
  pose proof (vx_id u d v) as I. pose proof (vy_id u d v) as J.
  assert (vx u d = 0) by (unfold vx in *; lia).
  rewrite H, H2 in I, J.
  destruct d as [d1 d2]. cbn in *.
  assert (d1 <> 0 \/ d2 <> 0) as [?|?].
  { destruct (Z.eq_dec d1 0); [|auto]. right. intros ->. apply Hd. congruence. }
  - nia.
  - nia.
Qed.

(* ------------------------------------------------------------------ the three orientation facts *)
Definition gt2 (a b : pt) : Prop := lt2 b a.

Ltac geo_setup :=
  repeat match goal with p : pt |- _ => destruct p as [? ?] end;
  unfold gt2 in *; unfold lt2, cross in *; cbn [fst snd] in *.
Ltac geo_close V := first [apply V; lia | (assert (V' := V); clear V; nia)].

(* T: b and c after o, p not before o, p left of o->b, c right of o->b: p left of o->c *)
Lemma geoT_lt o b c p : lt2 o b -> lt2 o c -> (p = o \/ lt2 o p) ->
  cross o b p >= 0 -> cross o b c <= 0 -> cross o c p >= 0.
Proof.
  intros Hb Hc [->|Hp] H1 H2; [unfold cross; lia|].
  pose proof (half_plane_trans (fst c - fst o, snd c - snd o) (fst b - fst o, snd b - snd o)
                (fst p - fst o, snd p - snd o)) as V.
  unfold lexpos, vx in V. geo_setup. geo_close V.
Qed.

Lemma geoT_gt o b c p : gt2 o b -> gt2 o c -> (p = o \/ gt2 o p) ->
  cross o b p >= 0 -> cross o b c <= 0 -> cross o c p >= 0.
Proof.
  intros Hb Hc [->|Hp] H1 H2; [unfold cross; lia|].
  pose proof (half_plane_trans (fst o - fst c, snd o - snd c) (fst o - fst b, snd o - snd b)
                (fst o - fst p, snd o - snd p)) as V.
  unfold lexpos, vx in V. geo_setup. geo_close V.
Qed.

(* A: four points in order; a left turn followed by a non-right turn *)
Lemma geoA_lt p q r s : lt2 p q -> lt2 q r -> lt2 r s ->
  cross p q r > 0 -> cross q r s >= 0 -> cross p q s > 0.
Proof.
  intros H1 H2 H3 C1 C2.
  pose proof (half_plane_trans (fst q - fst p, snd q - snd p) (fst r - fst q, snd r - snd q)
                (fst s - fst r, snd s - snd r)) as V.
  unfold lexpos, vx in V. geo_setup. geo_close V.
Qed.

Lemma geoA_gt p q r s : gt2 p q -> gt2 q r -> gt2 r s ->
  cross p q r > 0 -> cross q r s >= 0 -> cross p q s > 0.
Proof.
  intros H1 H2 H3 C1 C2.
  pose proof (half_plane_trans (fst p - fst q, snd p - snd q) (fst q - fst r, snd q - snd r)
                (fst r - fst s, snd r - snd s)) as V.
  unfold lexpos, vx in V. geo_setup. geo_close V.
Qed.

(* B: p before b, left of a->b; c after b, strictly left of a->b: p left of b->c *)
Lemma geoB_lt a b c p : lt2 a b -> lt2 b c -> lt2 p b ->
  cross a b p >= 0 -> cross a b c > 0 -> cross b c p >= 0.
Proof.
  intros H1 H2 H3 C1 C2.
  pose proof (half_plane_trans (fst b - fst p, snd b - snd p) (fst b - fst a, snd b - snd a)
                (fst c - fst b, snd c - snd b)) as V.
  unfold lexpos, vx in V. geo_setup. geo_close V.
Qed.

Lemma geoB_gt a b c p : gt2 a b -> gt2 b c -> gt2 p b ->
  cross a b p >= 0 -> cross a b c > 0 -> cross b c p >= 0.
Proof.
  intros H1 H2 H3 C1 C2.
  pose proof (half_plane_trans (fst p - fst b, snd p - snd b) (fst a - fst b, snd a - snd b)
                (fst b - fst c, snd b - snd c)) as V.
  unfold lexpos, vx in V. geo_setup. geo_close V.
Qed.

(* ------------------------------------------------------------------ consecutive elements *)
(* stack-side (top at the head) and list-side statements are given by decomposition, so that
   reversal and suffixes are immediate *)
Definition STurns (st : list pt) : Prop :=
  forall l1 c b a l2, st = l1 ++ c :: b :: a :: l2 -> cross a b c > 0.
Definition SEdges (P : pt -> Prop) (st : list pt) : Prop :=
  forall l1 b a l2, st = l1 ++ b :: a :: l2 -> forall p, P p -> cross a b p >= 0.

Lemma STurns_suffix pre st : STurns (pre ++ st) -> STurns st.
Proof. intros H l1 c b a l2 E. apply (H (pre ++ l1) c b a l2). rewrite E, app_assoc. reflexivity. Qed.

Lemma SEdges_suffix P pre st : SEdges P (pre ++ st) -> SEdges P st.
Proof. intros H l1 b a l2 E. apply (H (pre ++ l1) b a l2). rewrite E, app_assoc. reflexivity. Qed.

Lemma SSorted_suffix {A} (R : A -> A -> Prop) pre st :
  StronglySorted R (pre ++ st) -> StronglySorted R st.
Proof.
  induction pre; cbn; [auto|]. intros H. inversion H; subst. auto.
Qed.

Section Chain.
  (* the order in which the points arrive *)
  Variable R : pt -> pt -> Prop.
  Variable R_trans : forall a b c, R a b -> R b c -> R a c.
  Variable R_irrefl : forall a, ~ R a a.
  Variable R_total : forall a b, R a b \/ a = b \/ R b a.
  Variable geoT : forall o b c p, R o b -> R o c -> (p = o \/ R o p) ->
    cross o b p >= 0 -> cross o b c <= 0 -> cross o c p >= 0.
  Variable geoA : forall p q r s, R p q -> R q r -> R r s ->
    cross p q r > 0 -> cross q r s >= 0 -> cross p q s > 0.
  Variable geoB : forall a b c p, R a b -> R b c -> R p b ->
    cross a b p >= 0 -> cross a b c > 0 -> cross b c p >= 0.

  Definition desc (st : list pt) : Prop := StronglySorted (fun x y => R y x) st.
  Definition d0 : pt := (0, 0).

  (* P: the points processed so far; st: the stack *)
  Record Inv (P : pt -> Prop) (st : list pt) : Prop := {
    inv_ne : st <> [];
    inv_turns : STurns st;
    inv_desc : desc st;
    inv_edges : SEdges P st;
    inv_top : forall p, P p -> p = hd d0 st \/ R p (hd d0 st);
    inv_bot : forall p, P p -> p = last st d0 \/ R (last st d0) p;
    inv_mem : forall x, In x st -> P x
  }.

  Lemma desc_head2 b a t : desc (b :: a :: t) -> R a b.
  Proof.
    intros H. inversion H as [|? ? _ Hf]; subst. inversion Hf; assumption.
  Qed.

  (* what the while loop guarantees on exit *)
  Definition exit_ok (c : pt) (st : list pt) : Prop :=
    forall b a t, st = b :: a :: t -> cross a b c > 0.

  Lemma pop_while_exit c st : exit_ok c (pop_while c st).
  Proof.
    induction st as [|b st IH]; [intros ? ? ? E; discriminate|].
    cbn. destruct st as [|a st'].
    - intros ? ? ? E; discriminate.
    - destruct (cross a b c <=? 0) eqn:E; [exact IH|].
      intros b' a' t Et. injection Et as -> -> _. lia.
  Qed.

  Lemma pop_while_ne c st : st <> [] -> pop_while c st <> [].
  Proof.
    induction st as [|b st IH]; [tauto|]. intros _. cbn.
    destruct st as [|a st']; [discriminate|].
    destruct (cross a b c <=? 0); [apply IH; discriminate|discriminate].
  Qed.

  Lemma pop_while_last c st : last (pop_while c st) d0 = last st d0.
  Proof.
    induction st as [|b st IH]; [reflexivity|]. cbn [pop_while].
    destruct st as [|a st']; [reflexivity|].
    destruct (cross a b c <=? 0); [|reflexivity].
    rewrite IH. reflexivity.
  Qed.

  (* every processed point not before the top of the stack is left of top -> c *)
  Definition Above (c : pt) (P : pt -> Prop) (a : pt) : Prop :=
    forall p, P p -> (p = a \/ R a p) -> cross a c p >= 0.

  Lemma pop_while_above c P st :
    st <> [] -> desc st -> SEdges P st -> (forall x, In x st -> R x c) ->
    Above c P (hd d0 st) -> Above c P (hd d0 (pop_while c st)).
  Proof.
    induction st as [|b st IH]; [tauto|]. intros _ Hd He Hc Hab.
    cbn [pop_while]. destruct st as [|a st']; [exact Hab|].
    destruct (cross a b c <=? 0) eqn:E; [|exact Hab].
    apply IH.
    - discriminate.
    - inversion Hd; assumption.
    - apply (SEdges_suffix P [b]). exact He.
    - intros x Hx. apply Hc. right. exact Hx.
    - cbn [hd]. intros p Hp Hap.
      apply (geoT a b c p).
      + inversion Hd as [|? ? _ Hf]; subst. inversion Hf; assumption.
      + apply Hc. right; left; reflexivity.
      + exact Hap.
      + apply (He [] b a st' eq_refl p Hp).
      + lia.
  Qed.

  (* c is strictly left of every edge that stays on the stack *)
  Lemma edges_new_point c : forall l1 st,
    STurns st -> desc st -> (forall x, In x st -> R x c) -> exit_ok c st ->
    forall b a l2, st = l1 ++ b :: a :: l2 -> cross a b c > 0.
  Proof.
    induction l1 as [|x l1 IH]; intros st Ht Hd Hc Hex b a l2 E.
    - apply (Hex b a l2). exact E.
    - destruct st as [|x' st']; [discriminate|]. injection E as Ex E. subst x'.
      refine (IH st' _ _ _ _ b a l2 E).
      + apply (STurns_suffix [x]). exact Ht.
      + inversion Hd; assumption.
      + intros y Hy. apply Hc. right; exact Hy.
      + intros b' a' t Et. clear E. subst st'.
        assert (Hd' := Hd). inversion Hd' as [|? ? Hd1 Hf1]; subst.
        inversion Hd1 as [|? ? Hd2 Hf2]; subst.
        apply (geoA a' b' x c).
        * inversion Hf2; assumption.
        * inversion Hf1; assumption.
        * apply Hc. left; reflexivity.
        * apply (Ht [] x b' a' t eq_refl).
        * assert (cross b' x c > 0) by (apply (Hex x b' (a' :: t)); reflexivity). lia.
  Qed.

  Lemma desc_top_max st x : desc st -> In x st -> x = hd d0 st \/ R x (hd d0 st).
  Proof.
    intros Hd Hx. destruct st as [|t st]; [destruct Hx|]. cbn [hd].
    destruct Hx as [->|Hx]; [auto|]. right.
    inversion Hd as [|? ? _ Hf]; subst. rewrite Forall_forall in Hf. auto.
  Qed.

  Lemma last_In (st : list pt) : st <> [] -> In (last st d0) st.
  Proof.
    induction st as [|a st IH]; [tauto|]. intros _. destruct st as [|b st'].
    - left; reflexivity.
    - right. apply IH. discriminate.
  Qed.

  (* one iteration of the for loop *)
  Lemma push_inv P st c :
    Inv P st -> (forall p, P p -> R p c) ->
    Inv (fun p => p = c \/ P p) (push st c).
  Proof.
    intros [Hne Ht Hd He Htop Hbot Hmem] Hc.
    unfold push.
    destruct (pop_while_suffix c st) as [pre Epre].
    set (st' := pop_while c st) in *.
    assert (Hne' : st' <> []) by (apply pop_while_ne; assumption).
    assert (Ht' : STurns st') by (apply (STurns_suffix pre); rewrite <- Epre; assumption).
    assert (Hd' : desc st') by (apply (SSorted_suffix _ pre); rewrite <- Epre; assumption).
    assert (He' : SEdges P st') by (apply (SEdges_suffix P pre); rewrite <- Epre; assumption).
    assert (Hmem' : forall x, In x st' -> P x).
    { intros x Hx. apply Hmem. rewrite Epre. apply in_or_app. auto. }
    assert (Hc' : forall x, In x st' -> R x c) by (intros; apply Hc, Hmem'; assumption).
    assert (Hex : exit_ok c st') by apply pop_while_exit.
    assert (Hab : Above c P (hd d0 st')).
    { apply pop_while_above; try assumption.
      - intros x Hx. apply Hc, Hmem, Hx.
      - intros p Hp [->|Hr]; [unfold cross; lia|].
        destruct (Htop p Hp) as [->|Hr']; [unfold cross; lia|].
        exfalso. apply (R_irrefl p). eapply R_trans; eauto. }
    assert (Hlast : last st' d0 = last st d0) by apply pop_while_last.
    constructor.
    - discriminate.
    - (* turns *)
      intros l1 c' b a l2 E. destruct l1 as [|y l1]; cbn in E.
      + injection E as <- E. apply (Hex b a l2 E).
      + injection E as _ E. apply (Ht' l1 c' b a l2 E).
    - (* order *)
      constructor; [exact Hd'|]. apply Forall_forall. exact Hc'.
    - (* edges *)
      intros l1 b a l2 E p [->|Hp].
      + (* the new point against every edge *)
        destruct l1 as [|y l1]; cbn in E.
        * injection E as <- E. unfold cross; lia.
        * injection E as _ E.
          assert (cross a b c > 0); [|lia].
          apply (edges_new_point c l1 st' Ht' Hd' Hc' Hex b a l2 E).
      + destruct l1 as [|y l1]; cbn in E.
        * (* the new edge (top of st', c) against an old point *)
          injection E as <- E.
          assert (Hab' : Above c P a) by (rewrite E in Hab; exact Hab).
          destruct (R_total a p) as [Hr|[Hr|Hr]].
          -- apply Hab'; auto.
          -- apply Hab'; auto.
          -- destruct l2 as [|a' l2].
             ++ exfalso. assert (last st' d0 = a) by (rewrite E; reflexivity).
                destruct (Hbot p Hp) as [Hq|Hq]; rewrite <- Hlast, H in Hq.
                ** subst p. apply (R_irrefl a Hr).
                ** apply (R_irrefl a). eapply R_trans; eauto.
             ++ apply (geoB a' a c p).
                ** apply (desc_head2 a a' l2). rewrite <- E. exact Hd'.
                ** apply Hc'. rewrite E. left; reflexivity.
                ** exact Hr.
                ** apply (He' [] a a' l2 E p Hp).
                ** apply (Hex a a' l2 E).
        * injection E as _ E. apply (He' l1 b a l2 E p Hp).
    - (* top *)
      cbn [hd]. intros p [->|Hp]; auto.
    - (* bottom *)
      intros p Hp.
      assert (El : last (c :: st') d0 = last st d0).
      { rewrite <- Hlast. destruct st'; [tauto|reflexivity]. }
      rewrite El. destruct Hp as [->|Hp]; [|auto].
      right. apply Hc, Hmem, last_In, Hne.
    - intros x [->|Hx]; auto.
  Qed.

  (* the whole loop over an R-increasing list *)
  Lemma fold_push_inv : forall l P st,
    Inv P st -> StronglySorted R l -> (forall x p, In x l -> P p -> R p x) ->
    Inv (fun p => P p \/ In p l) (fold_left push l st).
  Proof.
    induction l as [|c l IH]; intros P st HI Hs Hlt; cbn [fold_left].
    - destruct HI as [H1 H2 H3 H4 H5 H6 H7]. constructor; try assumption.
      + intros l1 b a l2 E p [Hp|[]]. eapply H4; eauto.
      + intros p [Hp|[]]. auto.
      + intros p [Hp|[]]. auto.
      + intros x Hx. left. auto.
    - inversion Hs as [|? ? Hs' Hf]; subst. rewrite Forall_forall in Hf.
      assert (HI' : Inv (fun p => p = c \/ P p) (push st c)).
      { apply push_inv; [exact HI|]. intros p Hp. apply (Hlt c p); [left; reflexivity|exact Hp]. }
      specialize (IH _ _ HI' Hs').
      assert (Inv (fun p => (p = c \/ P p) \/ In p l) (fold_left push l (push st c))).
      { apply IH. intros x p Hx [->|Hp]; [apply Hf, Hx|]. apply Hlt; [right; exact Hx|exact Hp]. }
      destruct H. constructor; try assumption.
      + intros l1 b a l2 E p Hp. eapply inv_edges0; [exact E|]. cbn in Hp. intuition.
      + intros p Hp. apply inv_top0. cbn in Hp. intuition.
      + intros p Hp. apply inv_bot0. cbn in Hp. intuition.
      + intros x Hx. apply inv_mem0 in Hx. cbn. intuition.
  Qed.

  Lemma chain_stack_inv x l :
    StronglySorted R (x :: l) ->
    Inv (fun p => In p (x :: l)) (chain_stack (x :: l)).
  Proof.
    intros Hs. unfold chain_stack. cbn [fold_left]. change (push [] x) with [x].
    inversion Hs as [|? ? Hs' Hf]; subst. rewrite Forall_forall in Hf.
    assert (H0 : Inv (fun p => p = x) [x]).
    { constructor.
      - discriminate.
      - intros [|? [|? [|? ?]]] ? ? ? ? E; discriminate.
      - constructor; constructor.
      - intros [|? [|? ?]] ? ? ? E; discriminate.
      - cbn. auto.
      - cbn. auto.
      - intros y [->|[]]. reflexivity. }
    pose proof (fold_push_inv l _ _ H0 Hs') as H.
    assert (HI : Inv (fun p => p = x \/ In p l) (fold_left push l [x])).
    { apply H. intros y p Hy ->. apply Hf, Hy. }
    destruct HI. constructor; try assumption.
    - intros l1 b a l2 E p Hp. eapply inv_edges0; [exact E|]. cbn in Hp. intuition.
    - intros p Hp. apply inv_top0. cbn in Hp. intuition.
    - intros p Hp. apply inv_bot0. cbn in Hp. intuition.
    - intros y Hy. apply inv_mem0 in Hy. cbn. intuition.
  Qed.
End Chain.
