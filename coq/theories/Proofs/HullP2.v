(* Proofs about the monotone-chain model (HullM.v): the stack invariant of one chain.
   For points arriving in increasing order R (lexicographic for the lower chain, reverse
   lexicographic for the upper chain) the stack is, after every iteration,
     - a strictly R-decreasing list of processed points from the last one down to the first,
     - whose consecutive triples are strict left turns,
     - and every processed point lies on or to the left of every edge.
   Stdlib only; no axioms. *)
From Coq Require Import Sorted.
From GV Require Import Prelude HullM HullP.
Open Scope Z_scope.

(* ------------------------------------------------------------------ vectors *)
Definition vx (u v : pt) : Z := fst u * snd v - snd u * fst v.
Definition lexpos (u : pt) : Prop := fst u > 0 \/ (fst u = 0 /\ snd u > 0).

Lemma vx_id u v w : fst v * vx u w = fst u * vx v w + fst w * vx u v.
Proof. unfold vx. ring. Qed.
Lemma vy_id u v w : snd v * vx u w = snd u * vx v w + snd w * vx u v.
Proof. unfold vx. ring. Qed.

(* directions in the half plane "lexicographically positive" are linearly ordered by angle *)
Lemma half_plane_trans u v w : lexpos u -> lexpos v -> lexpos w ->
  vx u v >= 0 -> vx v w >= 0 -> vx u w >= 0.
Proof.
  intros Hu Hv Hw H1 H2.
  pose proof (vx_id u v w) as I. pose proof (vy_id u v w) as J.
  unfold lexpos in *.
  destruct Hv as [Hv|[Hv1 Hv2]].
  - assert (fst u >= 0) by lia. assert (fst w >= 0) by lia. nia.
  - unfold vx in *. nia.
Qed.

(* v is a positive multiple of u *)
Lemma ray_ext u v w : lexpos u -> lexpos v -> vx u v = 0 -> vx w u < 0 -> vx w v < 0.
Proof.
  intros Hu Hv H0 H1.
  pose proof (vx_id w u v) as I. pose proof (vy_id w u v) as J.
  unfold lexpos in *. rewrite H0 in I, J.
  destruct Hu as [Hu|[Hu1 Hu2]].
  - assert (fst v > 0) by (unfold vx in H0; nia). nia.
  - assert (fst v = 0) by (unfold vx in H0; nia).
    assert (snd v > 0) by lia. nia.
Qed.

(* two vectors parallel to a non-zero third are parallel *)
Lemma parallel_trans d u v : d <> (0, 0) -> vx d u = 0 -> vx d v = 0 -> vx u v = 0.
Proof.
  intros Hd H1 H2.
  pose proof (vx_id u d v) as I. pose proof (vy_id u d v) as J.
  assert (vx u d = 0) by (unfold vx in *; lia).
  rewrite H, H2 in I, J.
  destruct d as [d1 d2]. cbn in *.
  assert (d1 <> 0 \/ d2 <> 0) as [?|?].
  { destruct (Z.eq_dec d1 0); [|auto]. right. intros ->. apply Hd. congruence. }
  - nia.
  - nia.
Qed.

(* ------------------------------------------------------------------ the three orientation facts *)
Definition gt2 (a b : pt) : Prop := lt2 b a.

Ltac geo_setup :=
  repeat match goal with p : pt |- _ => destruct p as [? ?] end;
  unfold lt2, gt2, cross in *; cbn [fst snd] in *.

(* T: b and c after o, p not before o, p left of o->b, c right of o->b: p left of o->c *)
Lemma geoT_lt o b c p : lt2 o b -> lt2 o c -> (p = o \/ lt2 o p) ->
  cross o b p >= 0 -> cross o b c <= 0 -> cross o c p >= 0.
Proof.
  intros Hb Hc [->|Hp] H1 H2; [unfold cross; lia|].
  pose proof (half_plane_trans (fst c - fst o, snd c - snd o) (fst b - fst o, snd b - snd o)
                (fst p - fst o, snd p - snd o)) as V.
  unfold lexpos, vx in V. geo_setup. lia.
Qed.

Lemma geoT_gt o b c p : gt2 o b -> gt2 o c -> (p = o \/ gt2 o p) ->
  cross o b p >= 0 -> cross o b c <= 0 -> cross o c p >= 0.
Proof.
  intros Hb Hc [->|Hp] H1 H2; [unfold cross; lia|].
  pose proof (half_plane_trans (fst o - fst c, snd o - snd c) (fst o - fst b, snd o - snd b)
                (fst o - fst p, snd o - snd p)) as V.
  unfold lexpos, vx in V. geo_setup. lia.
Qed.

(* A: four points in order; a left turn followed by a non-right turn *)
Lemma geoA_lt p q r s : lt2 p q -> lt2 q r -> lt2 r s ->
  cross p q r > 0 -> cross q r s >= 0 -> cross p q s > 0.
Proof.
  intros H1 H2 H3 C1 C2.
  pose proof (half_plane_trans (fst q - fst p, snd q - snd p) (fst r - fst q, snd r - snd q)
                (fst s - fst r, snd s - snd r)) as V.
  unfold lexpos, vx in V. geo_setup. lia.
Qed.

Lemma geoA_gt p q r s : gt2 p q -> gt2 q r -> gt2 r s ->
  cross p q r > 0 -> cross q r s >= 0 -> cross p q s > 0.
Proof.
  intros H1 H2 H3 C1 C2.
  pose proof (half_plane_trans (fst p - fst q, snd p - snd q) (fst q - fst r, snd q - snd r)
                (fst r - fst s, snd r - snd s)) as V.
  unfold lexpos, vx in V. geo_setup. lia.
Qed.

(* B: p before b, left of a->b; c after b, strictly left of a->b: p left of b->c *)
Lemma geoB_lt a b c p : lt2 a b -> lt2 b c -> lt2 p b ->
  cross a b p >= 0 -> cross a b c > 0 -> cross b c p >= 0.
Proof.
  intros H1 H2 H3 C1 C2.
  pose proof (half_plane_trans (fst b - fst p, snd b - snd p) (fst b - fst a, snd b - snd a)
                (fst c - fst b, snd c - snd b)) as V.
  unfold lexpos, vx in V. geo_setup. lia.
Qed.

Lemma geoB_gt a b c p : gt2 a b -> gt2 b c -> gt2 p b ->
  cross a b p >= 0 -> cross a b c > 0 -> cross b c p >= 0.
Proof.
  intros H1 H2 H3 C1 C2.
  pose proof (half_plane_trans (fst p - fst b, snd p - snd b) (fst a - fst b, snd a - snd b)
                (fst b - fst c, snd b - snd c)) as V.
  unfold lexpos, vx in V. geo_setup. lia.
Qed.
