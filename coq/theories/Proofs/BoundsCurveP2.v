(* C09, last clause, latitude part: the north and south bounds of GeoCircle.bounds (and of a full
   GeoRing) are within 1 % of the radius of the true latitude extents of the curve, for every
   centre within 75 degrees of the equator and every radius up to 10 km.

   The code takes the latitude of the destination at bearing 315 (135) degrees and distance r*sqrt 2.
   With phi the centre latitude (radians), e = r / Rearth and d = sqrt 2 * e:
       sin (lat_nw) = sin phi cos d + cos phi sin d / sqrt 2,
   and the true northern extent of the circle is phi + e.  We show
       sin (phi + 0.99 e) <= sin (lat_nw) <= sin (phi + 1.01 e)
   from the elementary bounds  x - x^3/6 <= sin x <= x,  1 - x^2/2 <= cos x <= 1  (no derivative needed:
   the inequalities are expanded with the addition formulas and divided by e by hand). *)
From GV Require Import Prelude SphereM SphereP1 SphereP2 SphereP3 SphereP5 CurveM BoundsCurveM.
From Coq Require Import Reals Lra.
Open Scope R_scope.

(* ------------------------------------------------------------------ elementary bounds *)
Lemma PI_gt_3 : 3 < PI.
Proof. pose proof PI2_3_2. lra. Qed.

Lemma sin_le_x x : 0 <= x -> sin x <= x.
Proof. intros [H|<-]; [left; apply sin_lt_x; exact H|rewrite sin_0; lra]. Qed.

Lemma sin_ge_cubic x : 0 <= x <= 3 -> x - x * x * x / 6 <= sin x.
Proof.
  intros [H0 H3]. pose proof PI_gt_3.
  destruct (sin_bound x 0 H0 ltac:(lra)) as [L _].
  unfold sin_approx, sin_term in L. simpl in L. lra.
Qed.

Lemma cos_ge_quad x : 1 - x * x / 2 <= cos x.
Proof.
  replace (cos x) with (cos (2 * (x / 2))) by (f_equal; field). rewrite cos_2a_sin.
  pose proof (sin_sq_le (x / 2)). lra.
Qed.

Lemma cos_le_1 x : cos x <= 1.
Proof. apply COS_bound. Qed.

Lemma sqrt2_sq : sqrt 2 * sqrt 2 = 2.
Proof. apply sqrt_sqrt; lra. Qed.

(* square roots located by squaring *)
Lemma sqrt_gt_of a x : 0 <= a -> a * a < x -> a < sqrt x.
Proof. intros Ha H. apply Rle_lt_trans with (sqrt (a * a)); [rewrite sqrt_square by exact Ha; lra|apply sqrt_lt_1_alt; nra]. Qed.
Lemma sqrt_lt_of b x : 0 <= b -> 0 <= x < b * b -> sqrt x < b.
Proof. intros Hb H. apply Rlt_le_trans with (sqrt (b * b)); [apply sqrt_lt_1_alt; lra|rewrite sqrt_square by exact Hb; lra]. Qed.

Lemma sqrt2_bounds : 1414 / 1000 < sqrt 2 < 1415 / 1000.
Proof. split; [apply sqrt_gt_of|apply sqrt_lt_of]; lra. Qed.

(* P = sin (sqrt 2 * e) / sqrt 2 lies in [e - e^3/3, e] *)
Lemma sinP_bounds e : 0 <= e <= 1 ->
  e - e * e * e / 3 <= sin (sqrt 2 * e) / sqrt 2 <= e.
Proof.
  intros He. pose proof sqrt2_bounds as W. pose proof sqrt2_sq as W2.
  set (w := sqrt 2) in *.
  assert (Hd : 0 <= w * e <= 3) by nra.
  pose proof (sin_ge_cubic (w * e) Hd) as L. pose proof (sin_le_x (w * e) (proj1 Hd)) as U.
  assert (E : w * e * (w * e) * (w * e) = (w * w) * w * e * e * e) by ring.
  rewrite E, W2 in L.
  assert (Q : sin (w * e) / w * w = sin (w * e)) by (field; lra).
  split; (apply (Rmult_le_reg_r w); [lra|]); rewrite ?Q; lra.
Qed.

(* cos (sqrt 2 * e) lies in [1 - e^2, 1] *)
Lemma cosd_bounds e : 1 - e * e <= cos (sqrt 2 * e) <= 1.
Proof.
  pose proof (cos_ge_quad (sqrt 2 * e)) as L. pose proof sqrt2_sq as W2.
  assert (E : sqrt 2 * e * (sqrt 2 * e) = sqrt 2 * sqrt 2 * e * e) by ring.
  rewrite E, W2 in L. split; [lra|apply cos_le_1].
Qed.

(* ------------------------------------------------------------------ the two core inequalities *)
(* emax = 0.00157 > 10000 / 6371000;  cmin = 0.2588 < cos (75 degrees) *)
Definition emax : R := 157 / 100000.
Definition cmin : R := 2588 / 10000.

(* sin (phi + 1.01 e) - S(e) >= 0, written with s = sin phi, c = cos phi as free parameters *)
Lemma core_upper s c e :
  -1 <= s <= 1 -> cmin <= c -> 0 <= e <= emax ->
  0 <= s * (cos (101 / 100 * e) - cos (sqrt 2 * e)) + c * (sin (101 / 100 * e) - sin (sqrt 2 * e) / sqrt 2).
Proof.
  unfold emax, cmin. intros Hs Hc He.
  pose proof sqrt2_bounds as W.
  pose proof PI_gt_3 as P3.
  set (a := 101 / 100 * e). set (d := sqrt 2 * e).
  assert (Ha : 0 <= a <= 3) by (unfold a; lra).
  assert (Had : a <= d) by (unfold a, d; nra).
  assert (Hd : 0 <= d <= PI) by (unfold d; nra).
  (* the cosine difference *)
  assert (C1 : cos d <= cos a) by (apply cos_decr_1; lra).
  pose proof (cosd_bounds e) as [C2 _]. fold d in C2.
  pose proof (cos_le_1 a) as C3.
  (* the sine difference *)
  pose proof (sin_ge_cubic a Ha) as S1.
  destruct (sinP_bounds e ltac:(lra)) as [_ S2]. fold d in S2.
  set (Dc := cos a - cos d) in *. set (Ds := sin a - sin d / sqrt 2) in *.
  assert (HDc : 0 <= Dc <= e * e) by (unfold Dc; lra).
  assert (HDs : e / 100 - a * a * a / 6 <= Ds) by (unfold Ds, a in *; lra).
  assert (HDs0 : 0 <= e / 100 - a * a * a / 6) by (unfold a; nra).
  assert (K1 : - (e * e) <= s * Dc) by nra.
  assert (K2 : 2588 / 10000 * (e / 100 - a * a * a / 6) <= c * Ds) by nra.
  assert (K3 : e * e <= 2588 / 10000 * (e / 100 - a * a * a / 6)) by (unfold a; nra).
  lra.
Qed.

(* S(e) - sin (phi + 0.99 e) >= 0 *)
Lemma core_lower s c e :
  -1 <= s <= 1 -> cmin <= c -> 0 <= e <= emax ->
  0 <= s * (cos (sqrt 2 * e) - cos (99 / 100 * e)) + c * (sin (sqrt 2 * e) / sqrt 2 - sin (99 / 100 * e)).
Proof.
  unfold emax, cmin. intros Hs Hc He.
  pose proof sqrt2_bounds as W.
  pose proof PI_gt_3 as P3.
  set (b := 99 / 100 * e). set (d := sqrt 2 * e).
  assert (Hb : 0 <= b <= 3) by (unfold b; lra).
  assert (Hbd : b <= d) by (unfold b, d; nra).
  assert (Hd : 0 <= d <= PI) by (unfold d; nra).
  assert (C1 : cos d <= cos b) by (apply cos_decr_1; lra).
  pose proof (cosd_bounds e) as [C2 _]. fold d in C2.
  pose proof (cos_le_1 b) as C3.
  pose proof (sin_le_x b (proj1 Hb)) as S1.
  destruct (sinP_bounds e ltac:(lra)) as [S2 _]. fold d in S2.
  set (Dc := cos d - cos b) in *. set (Ds := sin d / sqrt 2 - sin b) in *.
  assert (HDc : - (e * e) <= Dc <= 0) by (unfold Dc; lra).
  assert (HDs : e / 100 - e * e * e / 3 <= Ds) by (unfold Ds, b in *; lra).
  assert (HDs0 : 0 <= e / 100 - e * e * e / 3) by nra.
  assert (K1 : - (e * e) <= s * Dc) by nra.
  assert (K2 : 2588 / 10000 * (e / 100 - e * e * e / 3) <= c * Ds) by nra.
  assert (K3 : e * e <= 2588 / 10000 * (e / 100 - e * e * e / 3)) by nra.
  lra.
Qed.

(* ------------------------------------------------------------------ the destination in radians *)
Lemma lat_of_dest p theta D :
  rad (lat (dest_rad p theta D)) = asin (s2_of (rad (lat p)) (D / Rearth) theta).
Proof.
  unfold dest_rad, lat; cbn [snd]. rewrite !rad_alt, deg_alt, rad_deg_id. reflexivity.
Qed.

Lemma lon_of_dest p theta D :
  rad (lon (dest_rad p theta D)) =
  rad (lon p) + atan2 (sin theta * sin (D / Rearth) * cos (rad (lat p)))
                      (cos (D / Rearth) - sin (rad (lat p)) * s2_of (rad (lat p)) (D / Rearth) theta).
Proof.
  unfold dest_rad, lon, lat; cbn [fst snd]. rewrite !rad_alt, deg_alt, rad_deg_id.
  fold (s2_of (rad (snd p)) (D / Rearth) theta).
  rewrite sin_asin by apply s2_range. reflexivity.
Qed.

(* asin against a sine *)
Lemma asin_le_of x y : - (PI / 2) <= y <= PI / 2 -> -1 <= x <= 1 -> x <= sin y -> asin x <= y.
Proof.
  intros Hy Hx H. destruct (Rle_or_lt (asin x) y) as [L|L]; [exact L|exfalso].
  pose proof (asin_bound x) as B.
  assert (sin y < sin (asin x)) by (apply sin_increasing_1; lra).
  rewrite sin_asin in H0 by exact Hx. lra.
Qed.

Lemma asin_ge_of x y : - (PI / 2) <= y <= PI / 2 -> -1 <= x <= 1 -> sin y <= x -> y <= asin x.
Proof.
  intros Hy Hx H. destruct (Rle_or_lt y (asin x)) as [L|L]; [exact L|exfalso].
  pose proof (asin_bound x) as B.
  assert (sin (asin x) < sin y) by (apply sin_increasing_1; lra).
  rewrite sin_asin in H0 by exact Hx. lra.
Qed.

(* the bearings 315 and 135 degrees *)
Lemma cos_rad_315 : cos (rad 315) = 1 / sqrt 2.
Proof.
  replace (rad 315) with (- (PI / 4) + 2 * INR 1 * PI) by (unfold rad; simpl; field).
  rewrite cos_period, cos_neg. apply cos_PI4.
Qed.
Lemma sin_rad_315 : sin (rad 315) = - (1 / sqrt 2).
Proof.
  replace (rad 315) with (- (PI / 4) + 2 * INR 1 * PI) by (unfold rad; simpl; field).
  rewrite sin_period, sin_neg, sin_PI4. reflexivity.
Qed.
Lemma cos_rad_135 : cos (rad 135) = - (1 / sqrt 2).
Proof.
  replace (rad 135) with (- (PI / 4) + PI) by (unfold rad; field).
  rewrite neg_cos, cos_neg, cos_PI4. reflexivity.
Qed.
Lemma sin_rad_135 : sin (rad 135) = 1 / sqrt 2.
Proof.
  replace (rad 135) with (- (PI / 4) + PI) by (unfold rad; field).
  rewrite neg_sin, sin_neg, sin_PI4. ring.
Qed.

(* cos (75 degrees) = (sqrt 3 - 1) / (2 sqrt 2) = 0.25881... *)
Lemma cos_75 : cmin <= cos (5 * (PI / 12)).
Proof.
  replace (5 * (PI / 12)) with (PI / 4 + PI / 6) by field.
  rewrite cos_plus, cos_PI4, sin_PI4, cos_PI6, sin_PI6. unfold cmin.
  assert (W2 : 0 < sqrt 2 < 141422 / 100000).
  { split; [apply sqrt_lt_R0; lra|apply sqrt_lt_of; lra]. }
  assert (W3 : 173205 / 100000 < sqrt 3) by (apply sqrt_gt_of; lra).
  replace (1 / sqrt 2 * (sqrt 3 / 2) - 1 / sqrt 2 * (1 / 2)) with ((sqrt 3 - 1) / (2 * sqrt 2)) by (field; lra).
  apply (Rmult_le_reg_r (2 * sqrt 2)); [lra|].
  replace ((sqrt 3 - 1) / (2 * sqrt 2) * (2 * sqrt 2)) with (sqrt 3 - 1) by (field; lra). lra.
Qed.

(* the hypotheses of the clause, in radians *)
Lemma centre_facts x : Rabs x <= 75 ->
  - (5 * (PI / 12)) <= rad x <= 5 * (PI / 12) /\ cmin <= cos (rad x) /\ -1 <= sin (rad x) <= 1.
Proof.
  intros H. apply Rabs_le_inv in H. pose proof PI_RGT_0 as P0. pose proof PI_gt_3 as P3.
  assert (B : - (5 * (PI / 12)) <= rad x <= 5 * (PI / 12)).
  { unfold rad. replace (5 * (PI / 12)) with (75 * (PI / 180)) by field.
    assert (0 <= PI / 180) by lra. split; nra. }
  split; [exact B|]. split; [|apply SIN_bound].
  apply Rle_trans with (1 := cos_75).
  destruct (Rle_or_lt 0 (rad x)) as [N|N].
  - apply cos_decr_1; lra.
  - rewrite <- (cos_neg (rad x)). apply cos_decr_1; lra.
Qed.

Lemma radius_facts r : 0 <= r <= 10000 -> 0 <= r / Rearth <= emax.
Proof. unfold Rearth, emax. intros H. split; lra. Qed.

Lemma corner_distance r : r * sqrt 2 / Rearth = sqrt 2 * (r / Rearth).
Proof. unfold Rearth. field. Qed.

Lemma half_pi_gt : 15 / 10 < PI / 2.
Proof. pose proof PI2_3_2. lra. Qed.

(* ------------------------------------------------------------------ north and south, in radians *)
Section Lat.
  Variables phi e : R.
  Hypothesis Hphi : - (5 * (PI / 12)) <= phi <= 5 * (PI / 12).
  Hypothesis Hc : cmin <= cos phi.
  Hypothesis He : 0 <= e <= emax.
  Let d := sqrt 2 * e.

  Lemma north_sandwich :
    phi + 99 / 100 * e <= asin (s2_of phi d (rad 315)) <= phi + 101 / 100 * e.
  Proof.
    pose proof half_pi_gt as HP. pose proof (SIN_bound phi) as Hs.
    assert (He' : 0 <= e <= 157 / 100000) by exact He.
    unfold s2_of. rewrite cos_rad_315.
    pose proof (s2_range phi d (rad 315)) as Rg. unfold s2_of in Rg. rewrite cos_rad_315 in Rg.
    replace (sin phi * cos d + cos phi * sin d * (1 / sqrt 2))
      with (sin phi * cos d + cos phi * (sin d / sqrt 2)) in * by (unfold Rdiv; ring).
    split.
    - apply asin_ge_of; [lra|exact Rg|]. rewrite sin_plus.
      pose proof (core_lower (sin phi) (cos phi) e Hs Hc He) as K. fold d in K. lra.
    - apply asin_le_of; [lra|exact Rg|]. rewrite sin_plus.
      pose proof (core_upper (sin phi) (cos phi) e Hs Hc He) as K. fold d in K. lra.
  Qed.

  Lemma south_sandwich :
    phi - 101 / 100 * e <= asin (s2_of phi d (rad 135)) <= phi - 99 / 100 * e.
  Proof.
    pose proof half_pi_gt as HP. pose proof (SIN_bound phi) as Hs.
    assert (He' : 0 <= e <= 157 / 100000) by exact He.
    assert (Hs' : -1 <= - sin phi <= 1) by lra.
    unfold s2_of. rewrite cos_rad_135.
    pose proof (s2_range phi d (rad 135)) as Rg. unfold s2_of in Rg. rewrite cos_rad_135 in Rg.
    replace (sin phi * cos d + cos phi * sin d * - (1 / sqrt 2))
      with (sin phi * cos d - cos phi * (sin d / sqrt 2)) in * by (unfold Rdiv; ring).
    split.
    - apply asin_ge_of; [lra|exact Rg|]. rewrite sin_minus.
      pose proof (core_upper (- sin phi) (cos phi) e Hs' Hc He) as K. fold d in K. lra.
    - apply asin_le_of; [lra|exact Rg|]. rewrite sin_minus.
      pose proof (core_lower (- sin phi) (cos phi) e Hs' Hc He) as K. fold d in K. lra.
  Qed.
End Lat.

(* ------------------------------------------------------------------ the statements about circle_bounds *)
(* the true latitude extents of the circle of radius r about c are rad (lat c) +- r / Rearth (radians):
   see BoundsCurveP4.circle_lat_extent.  The error is measured in metres along the meridian, as the
   harness does: Rearth * (difference in radians). *)
Theorem circle_bounds_north c r :
  Rabs (lat c) <= 75 -> 0 <= r <= 10000 ->
  Rearth * Rabs (rad (rb_maxlat (circle_bounds c r)) - (rad (lat c) + r / Rearth)) <= r / 100.
Proof.
  intros Hl Hr. destruct (centre_facts _ Hl) as (Hphi & Hc & _). pose proof (radius_facts r Hr) as He.
  unfold circle_bounds, rb_maxlat; cbn [snd]. unfold dest_deg. rewrite lat_of_dest, corner_distance.
  pose proof (north_sandwich _ _ Hphi Hc He) as [A B].
  set (L := asin _) in *. set (e := r / Rearth) in *.
  assert (K : Rabs (L - (rad (lat c) + e)) <= e / 100) by (apply Rabs_le; lra).
  replace (r / 100) with (Rearth * (e / 100)) by (unfold e, Rearth; field).
  apply Rmult_le_compat_l; [unfold Rearth; lra|exact K].
Qed.

Theorem circle_bounds_south c r :
  Rabs (lat c) <= 75 -> 0 <= r <= 10000 ->
  Rearth * Rabs (rad (rb_minlat (circle_bounds c r)) - (rad (lat c) - r / Rearth)) <= r / 100.
Proof.
  intros Hl Hr. destruct (centre_facts _ Hl) as (Hphi & Hc & _). pose proof (radius_facts r Hr) as He.
  unfold circle_bounds, rb_minlat; cbn [fst snd]. unfold dest_deg. rewrite lat_of_dest, corner_distance.
  pose proof (south_sandwich _ _ Hphi Hc He) as [A B].
  set (L := asin _) in *. set (e := r / Rearth) in *.
  assert (K : Rabs (L - (rad (lat c) - e)) <= e / 100) by (apply Rabs_le; lra).
  replace (r / 100) with (Rearth * (e / 100)) by (unfold e, Rearth; field).
  apply Rmult_le_compat_l; [unfold Rearth; lra|exact K].
Qed.
