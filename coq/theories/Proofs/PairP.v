(* C02 -- proofs about the pairwise predicates (PairM.v) and about GeomM.hit as used by the sweep.
   Part 1: GeomM.hit is symmetric, blind to segment direction, and implies overlapping latitude
   ranges; hence the sweep instance theorem.  Part 2: shape-level theorems. *)
From Coq Require Import Btauto.
From GV Require Import Prelude TimeM GeomM SweepM SweepP PairM.
Open Scope Z_scope.

(* [hit] as a Boolean formula over the x-ordered endpoints *)
Definition hitc (a1 a2 b1 b2 : pt) : bool :=
  let l1xlo := Z.min (px a1) (px a2) in let l1xhi := Z.max (px a1) (px a2) in
  let l1ylo := Z.min (py a1) (py a2) in let l1yhi := Z.max (py a1) (py a2) in
  let l2xlo := Z.min (px b1) (px b2) in let l2xhi := Z.max (px b1) (px b2) in
  let l2ylo := Z.min (py b1) (py b2) in let l2yhi := Z.max (py b1) (py b2) in
  bounds_overlap l1xlo l1xhi l2xlo l2xhi && bounds_overlap l1ylo l1yhi l2ylo l2yhi &&
  (let xd0 := px a1 - px a2 in let xd1 := px b1 - px b2 in
   let yd0 := py a1 - py a2 in let yd1 := py b1 - py b2 in
   let div := xd0 * yd1 - xd1 * yd0 in
   negb (div =? 0) &&
   (let d0 := det2 a1 a2 in let d1 := det2 b1 b2 in
    let xn := sgn_fix div (d0 * xd1 - d1 * xd0) in
    let yn := sgn_fix div (d0 * yd1 - d1 * yd0) in
    let dv := Z.abs div in
    (l1xlo * dv <=? xn) && (xn <=? l1xhi * dv) &&
    (l2xlo * dv <=? xn) && (xn <=? l2xhi * dv) &&
    (l1ylo * dv <=? yn) && (yn <=? l1yhi * dv) &&
    (l2ylo * dv <=? yn) && (yn <=? l2yhi * dv))).

Lemma hit_hitc s1 s2 :
  hit s1 s2 = hitc (fst (ordx s1)) (snd (ordx s1)) (fst (ordx s2)) (snd (ordx s2)).
Proof.
  unfold hit, fli, fliZ.
  destruct (ordx s1) as [a1 a2], (ordx s2) as [b1 b2]. cbn [fst snd].
  unfold fli_core, hitc. cbv zeta.
  destruct (bounds_overlap (Z.min (px a1) (px a2)) _ _ _ && bounds_overlap _ _ _ _);
    cbn [negb andb]; [|reflexivity].
  destruct (_ =? 0); cbn [negb andb]; [reflexivity|].
  match goal with |- _ = ?c => destruct c end; reflexivity.
Qed.

Lemma sgn_fix_opp d v : d <> 0 -> sgn_fix (- d) (- v) = sgn_fix d v.
Proof. unfold sgn_fix. intros. destruct (d <? 0) eqn:E1, (- d <? 0) eqn:E2; lia. Qed.

Lemma bounds_overlap_sym a b c d : bounds_overlap a b c d = bounds_overlap c d a b.
Proof. unfold bounds_overlap. rewrite Z.max_comm, Z.min_comm. reflexivity. Qed.

(* exchanging the two segments *)
Lemma hitc_sym a1 a2 b1 b2 : hitc a1 a2 b1 b2 = hitc b1 b2 a1 a2.
Proof.
  unfold hitc, det2. cbv zeta.
  rewrite (bounds_overlap_sym (Z.min (px a1) (px a2))), (bounds_overlap_sym (Z.min (py a1) (py a2))).
  set (D := (px a1 - px a2) * (py b1 - py b2) - (px b1 - px b2) * (py a1 - py a2)).
  replace ((px b1 - px b2) * (py a1 - py a2) - (px a1 - px a2) * (py b1 - py b2)) with (- D) by (unfold D; ring).
  set (N := (px a1 * py a2 - py a1 * px a2) * (px b1 - px b2) - (px b1 * py b2 - py b1 * px b2) * (px a1 - px a2)).
  replace ((px b1 * py b2 - py b1 * px b2) * (px a1 - px a2) - (px a1 * py a2 - py a1 * px a2) * (px b1 - px b2)) with (- N) by (unfold N; ring).
  set (M := (px a1 * py a2 - py a1 * px a2) * (py b1 - py b2) - (px b1 * py b2 - py b1 * px b2) * (py a1 - py a2)).
  replace ((px b1 * py b2 - py b1 * px b2) * (py a1 - py a2) - (px a1 * py a2 - py a1 * px a2) * (py b1 - py b2)) with (- M) by (unfold M; ring).
  clearbody D N M.
  destruct (Z.eq_dec D 0) as [-> | HD].
  - cbn. rewrite !andb_false_r. reflexivity.
  - rewrite !(sgn_fix_opp D) by exact HD. rewrite Z.abs_opp.
    replace (- D =? 0) with (D =? 0) by lia.
    btauto.
Qed.

(* reversing the first segment *)
Lemma hitc_swap1 a1 a2 b1 b2 : hitc a2 a1 b1 b2 = hitc a1 a2 b1 b2.
Proof.
  unfold hitc, det2. cbv zeta.
  rewrite !(Z.min_comm (px a2)), !(Z.max_comm (px a2)), !(Z.min_comm (py a2)), !(Z.max_comm (py a2)).
  set (D := (px a1 - px a2) * (py b1 - py b2) - (px b1 - px b2) * (py a1 - py a2)).
  replace ((px a2 - px a1) * (py b1 - py b2) - (px b1 - px b2) * (py a2 - py a1)) with (- D) by (unfold D; ring).
  set (N := (px a1 * py a2 - py a1 * px a2) * (px b1 - px b2) - (px b1 * py b2 - py b1 * px b2) * (px a1 - px a2)).
  replace ((px a2 * py a1 - py a2 * px a1) * (px b1 - px b2) - (px b1 * py b2 - py b1 * px b2) * (px a2 - px a1)) with (- N) by (unfold N; ring).
  set (M := (px a1 * py a2 - py a1 * px a2) * (py b1 - py b2) - (px b1 * py b2 - py b1 * px b2) * (py a1 - py a2)).
  replace ((px a2 * py a1 - py a2 * px a1) * (py b1 - py b2) - (px b1 * py b2 - py b1 * px b2) * (py a2 - py a1)) with (- M) by (unfold M; ring).
  clearbody D N M.
  destruct (Z.eq_dec D 0) as [-> | HD].
  - cbn. rewrite !andb_false_r. reflexivity.
  - rewrite !(sgn_fix_opp D) by exact HD. rewrite Z.abs_opp.
    replace (- D =? 0) with (D =? 0) by lia.
    reflexivity.
Qed.

Lemma ordx_cases s : ordx s = s \/ ordx s = swap_sg s.
Proof. destruct s as [a b]. unfold ordx, swap_sg. cbn. destruct (px b <? px a); auto. Qed.

Lemma ordx_swap s : ordx (swap_sg s) = ordx s \/ (ordx (swap_sg s) = swap_sg (ordx s)).
Proof.
  destruct s as [a b]. unfold ordx, swap_sg. cbn [fst snd].
  destruct (px a <? px b) eqn:E1, (px b <? px a) eqn:E2; cbn [fst snd]; auto.
Qed.

Theorem hit_sym a b : hit a b = hit b a.
Proof. rewrite !hit_hitc. apply hitc_sym. Qed.

Theorem hit_swap a b : hit (swap_sg a) b = hit a b.
Proof.
  rewrite !hit_hitc. destruct (ordx_swap a) as [-> | ->]; [reflexivity|].
  unfold swap_sg. cbn [fst snd]. apply hitc_swap1.
Qed.

Theorem hit_lat a b : hit a b = true ->
  Z.max (lat_lo a) (lat_lo b) <= Z.min (lat_hi a) (lat_hi b).
Proof.
  rewrite hit_hitc. unfold hitc. cbv zeta. intros H.
  apply andb_true_iff in H as [H _]. apply andb_true_iff in H as [_ H].
  unfold bounds_overlap in H. apply Z.leb_le in H.
  assert (L : forall s, Z.min (py (fst (ordx s))) (py (snd (ordx s))) = lat_lo s /\
                        Z.max (py (fst (ordx s))) (py (snd (ordx s))) = lat_hi s).
  { intros [[x1 y1] [x2 y2]]. unfold lat_lo, lat_hi, lat, py, ordx, px.
    cbn [fst snd]. destruct (x2 <? x1); cbn [fst snd]; lia. }
  destruct (L a) as [<- <-], (L b) as [<- <-]. exact H.
Qed.

(* ------------------------------------------------------------------ the sweep with GeomM.hit *)
Theorem sweep_hit_brute ea eb : sweep hit ea eb = Ok (brute hit ea eb).
Proof. exact (sweep_brute hit hit_sym hit_swap hit_lat ea eb). Qed.

Theorem sweep_hit_never_err ea eb : exists r, sweep hit ea eb = Ok r.
Proof. rewrite sweep_hit_brute. eauto. Qed.

Theorem sweep_hit_sym ea eb : sweep hit ea eb = sweep hit eb ea.
Proof. exact (sweep_sym hit hit_sym hit_swap hit_lat ea eb). Qed.

(* ------------------------------------------------------------------ small facts *)
Lemma pt_eqb_eq a b : pt_eqb a b = true <-> a = b.
Proof.
  destruct a as [a1 a2], b as [b1 b2]. unfold pt_eqb, px, py. cbn. split.
  - intros H. apply andb_true_iff in H as [H1 H2]. f_equal; lia.
  - intros [= -> ->]. rewrite !Z.eqb_refl. reflexivity.
Qed.

Lemma pt_eqb_sym a b : pt_eqb a b = pt_eqb b a.
Proof. unfold pt_eqb. rewrite (Z.eqb_sym (px a)), (Z.eqb_sym (py a)). reflexivity. Qed.

Lemma pt_eqb_refl a : pt_eqb a a = true.
Proof. apply pt_eqb_eq. reflexivity. Qed.

Lemma pts_eqb_eq a b : list_eqb pt_eqb a b = true <-> a = b.
Proof.
  revert b. induction a as [|x a IH]; intros [|y b]; cbn; split; try congruence; auto.
  - intros H. apply andb_true_iff in H as [H1 H2]. apply pt_eqb_eq in H1. apply IH in H2. congruence.
  - intros [= -> ->]. rewrite pt_eqb_refl. apply IH. reflexivity.
Qed.

Lemma existsb_pt_In p vs : existsb (pt_eqb p) vs = true <-> In p vs.
Proof.
  rewrite existsb_exists. split.
  - intros [x [Hx E]]. apply pt_eqb_eq in E. subst. exact Hx.
  - intros H. exists p. split; [exact H | apply pt_eqb_refl].
Qed.

(* ------------------------------------------------------------------ is_sub_list *)
Theorem sublist_spec a b : is_sub_list a b = true <-> exists p s, b = p ++ a ++ s.
Proof.
  unfold is_sub_list. split.
  - destruct (length b <? length a)%nat eqn:E; [discriminate|].
    intros H. apply existsb_exists in H as [i [Hi H]]. apply pts_eqb_eq in H.
    exists (firstn i b), (skipn (length a) (skipn i b)).
    pose proof (firstn_skipn i b) as E1.
    pose proof (firstn_skipn (length a) (skipn i b)) as E2. rewrite H in E2.
    rewrite E2. symmetry. exact E1.
  - intros [p [s ->]].
    assert (L : length (p ++ a ++ s) = (length p + length a + length s)%nat)
      by (rewrite !app_length; lia).
    destruct (length (p ++ a ++ s) <? length a)%nat eqn:E.
    + apply Nat.ltb_lt in E. lia.
    + apply existsb_exists. exists (length p). split.
      * apply in_seq. lia.
      * apply pts_eqb_eq.
        rewrite skipn_app, skipn_all, Nat.sub_diag. cbn [app skipn].
        rewrite firstn_app, firstn_all, Nat.sub_diag. cbn [firstn]. apply app_nil_r.
Qed.

(* ------------------------------------------------------------------ shape level *)
Definition is_pt (s : shape) : bool := match s with Pt _ _ => true | _ => false end.

Definition hd0 (r : list pt) : pt := hd (0, 0) r.

(* the vertex the fallback looks at: `edges[0][0][0]` of a valid shape *)
Definition first_pt (s : shape) : pt :=
  match s with
  | Pt p _ => p
  | Ln vs _ => hd0 vs
  | Poly o _ _ => hd0 o
  | Box nw _ _ _ => nw
  end.

Lemma first_vertex_valid s : valid s -> is_pt s = false ->
  first_vertex (edge_rings s) = Ok (first_pt s).
Proof.
  destruct s as [p d | vs d | o hs d | nw se hs d]; cbn; intros V N; try discriminate.
  - destruct vs as [|a [|b t]]; cbn in V; try lia. reflexivity.
  - destruct o as [|a [|b t]]; cbn in V; try lia. reflexivity.
  - reflexivity.
Qed.

Section Shapes.
  Variable w : Z.

  Lemma edges_cross_spec se oe : edges_cross se oe = Ok (brute hit (concat se) (concat oe)).
  Proof. apply sweep_hit_brute. Qed.

  Lemma edges_cross_shapes a b : edges_cross (edge_rings a) (edge_rings b) = Ok (edge_part a b).
  Proof. apply edges_cross_spec. Qed.

  Lemma tail_spec self other se oe v u :
    first_vertex oe = Ok v -> first_vertex se = Ok u ->
    intersects_tail w self other se oe =
      Ok (brute hit (concat se) (concat oe) || in_coord w self v || in_coord w other u).
  Proof.
    intros Hv Hu. unfold intersects_tail. rewrite edges_cross_spec, Hv, Hu.
    destruct (brute hit (concat se) (concat oe)); [reflexivity|].
    destruct (in_coord w self v); reflexivity.
  Qed.

  Lemma intersects_nonpt a b : is_pt a = false -> is_pt b = false ->
    intersects_shape w a b = intersects_tail w a b (edge_rings a) (edge_rings b).
  Proof. destruct a, b; cbn; intros; try discriminate; reflexivity. Qed.

  (* "equal to edge-pair truth": for shapes that are not points the answer is
       some edge pair hits  \/  first vertex of B in A  \/  first vertex of A in B *)
  Theorem intersects_edge_truth a b :
    valid a -> valid b -> is_pt a = false -> is_pt b = false ->
    intersects_shape w a b =
      Ok (edge_part a b || contains_coordinate w a (first_pt b) || contains_coordinate w b (first_pt a)).
  Proof.
    intros Va Vb Na Nb. rewrite intersects_nonpt by assumption.
    apply tail_spec; apply first_vertex_valid; assumption.
  Qed.

  Definition is_area (s : shape) : bool :=
    match s with Poly _ _ _ | Box _ _ _ _ => true | _ => false end.

  Theorem contains_edge_truth a b :
    valid b -> is_area a = true -> is_pt b = false ->
    contains_shape w a b = Ok (negb (edge_part a b) && contains_coordinate w a (first_pt b)).
  Proof.
    intros Vb Aa Nb.
    assert (E : contains_shape w a b =
      match edges_cross (edge_rings a) (edge_rings b) with
      | Err e => Err e
      | Ok true => Ok false
      | Ok false => match first_vertex (edge_rings b) with
                    | Err e => Err e | Ok v => Ok (in_coord w a v) end
      end).
    { destruct a, b; cbn in *; try discriminate; reflexivity. }
    rewrite E, edges_cross_shapes, (first_vertex_valid b Vb Nb).
    destruct (edge_part a b); reflexivity.
  Qed.

  (* point relations reduce to C01's membership functions *)
  Theorem point_rel_spec :
    (forall o hs d p d', intersects_shape w (Poly o hs d) (Pt p d') = Ok (poly_contains w o hs p) /\
                         intersects_shape w (Pt p d') (Poly o hs d) = Ok (poly_contains w o hs p) /\
                         contains_shape w (Poly o hs d) (Pt p d') = Ok (poly_contains w o hs p)) /\
    (forall nw se hs d p d', intersects_shape w (Box nw se hs d) (Pt p d') = Ok (box_contains w nw se hs p) /\
                             intersects_shape w (Pt p d') (Box nw se hs d) = Ok (box_contains w nw se hs p) /\
                             contains_shape w (Box nw se hs d) (Pt p d') = Ok (box_contains w nw se hs p)) /\
    (forall vs d p d', (intersects_shape w (Ln vs d) (Pt p d') = Ok true <-> In p vs) /\
                       (intersects_shape w (Pt p d') (Ln vs d) = Ok true <-> In p vs) /\
                       (contains_shape w (Ln vs d) (Pt p d') = Ok true <-> In p vs)) /\
    (forall p d q d', (intersects_shape w (Pt p d) (Pt q d') = Ok true <-> p = q) /\
                      (contains_shape w (Pt p d) (Pt q d') = Ok true <-> p = q)).
  Proof.
    repeat split; cbn; try reflexivity;
      try (intros [= H]; apply existsb_pt_In in H; exact H);
      try (intros H; f_equal; apply existsb_pt_In; exact H).
    - intros [= H]. apply pt_eqb_eq in H. exact H.
    - intros ->. rewrite pt_eqb_refl. reflexivity.
    - intros [= H]. apply pt_eqb_eq in H. congruence.
    - intros ->. rewrite pt_eqb_refl. reflexivity.
  Qed.

  (* ---------------------------------------------------------------- symmetry *)
  Theorem intersects_sym a b : valid a -> valid b ->
    intersects_shape w a b = intersects_shape w b a.
  Proof.
    intros Va Vb.
    destruct (is_pt a) eqn:Pa, (is_pt b) eqn:Pb.
    - destruct a, b; try discriminate. cbn. rewrite pt_eqb_sym. reflexivity.
    - destruct a, b; try discriminate; reflexivity.
    - destruct a, b; try discriminate; reflexivity.
    - rewrite !intersects_edge_truth by assumption. f_equal.
      unfold edge_part. rewrite (brute_sym hit hit_sym (all_edges b) (all_edges a)).
      destruct (brute hit (all_edges a) (all_edges b)); cbn; [reflexivity|]. apply orb_comm.
  Qed.

  (* ---------------------------------------------------------------- contains => intersects *)
  Theorem contains_imp_intersects a b : valid b ->
    contains_shape w a b = Ok true -> intersects_shape w a b = Ok true.
  Proof.
    intros Vb H.
    destruct (is_pt b) eqn:Pb.
    - destruct b as [q d'| | |]; try discriminate.
      destruct a as [p d | vs d | o hs d | nw se hs d]; cbn in *; try exact H.
      rewrite pt_eqb_sym. exact H.
    - destruct (is_area a) eqn:Aa.
      + rewrite contains_edge_truth in H by assumption.
        injection H as H. apply andb_true_iff in H as [H1 H2]. apply negb_true_iff in H1.
        assert (E : intersects_shape w a b =
                    intersects_tail w a b (edge_rings a) (edge_rings b))
          by (destruct a, b; try discriminate; reflexivity).
        rewrite E. unfold intersects_tail.
        rewrite edges_cross_shapes, H1, (first_vertex_valid b Vb Pb).
        unfold in_coord. rewrite H2. reflexivity.
      + destruct a as [p d | vs d | |]; try discriminate.
        * destruct b; cbn in H; discriminate.
        * destruct b as [ | us d' | |]; cbn in H; try discriminate.
          injection H as H. apply sublist_spec in H as [pre [suf ->]].
          change (intersects_shape w (Ln (pre ++ us ++ suf) d) (Ln us d')) with
            (intersects_tail w (Ln (pre ++ us ++ suf) d) (Ln us d')
               [ring_edges (pre ++ us ++ suf)] [ring_edges us]).
          unfold intersects_tail. rewrite edges_cross_spec.
          destruct (brute hit _ _); [reflexivity|].
          change [ring_edges us] with (edge_rings (Ln us d')).
          rewrite (first_vertex_valid _ Vb eq_refl). cbn [first_pt].
          assert (I : in_coord w (Ln (pre ++ us ++ suf) d) (hd0 us) = true).
          { cbn. apply existsb_pt_In. destruct us as [|u0 us']; [cbn in Vb; lia|].
            cbn. apply in_app_iff. right. left. reflexivity. }
          rewrite I. reflexivity.
  Qed.

  (* ---------------------------------------------------------------- no exception *)
  Theorem never_err a b : valid a -> valid b ->
    exists r1 r2, intersects_shape w a b = Ok r1 /\ contains_shape w a b = Ok r2.
  Proof.
    intros Va Vb.
    destruct (is_pt b) eqn:Pb.
    - destruct b; try discriminate. destruct a; cbn; eauto.
    - destruct (is_pt a) eqn:Pa.
      + destruct a; try discriminate. destruct b; try discriminate; cbn; eauto.
      + rewrite intersects_edge_truth by assumption.
        destruct (is_area a) eqn:Aa.
        * rewrite contains_edge_truth by assumption. eauto.
        * destruct a; try discriminate. destruct b; try discriminate; cbn; eauto.
  Qed.

  (* ---------------------------------------------------------------- time bounds are not read *)
  Theorem spatial_time_free a b d1 d2 :
    intersects_shape w (with_dt d1 a) (with_dt d2 b) = intersects_shape w a b /\
    contains_shape w (with_dt d1 a) (with_dt d2 b) = contains_shape w a b.
  Proof. destruct a, b; split; reflexivity. Qed.

  (* ---------------------------------------------------------------- linestring containment *)
  Theorem line_contains_spec vs d us d' :
    contains_shape w (Ln vs d) (Ln us d') = Ok true <-> exists p s, vs = p ++ us ++ s.
  Proof.
    cbn. rewrite <- sublist_spec. split; [intros [= H]; exact H | intros ->; reflexivity].
  Qed.
End Shapes.

(* ------------------------------------------------------------------ vertex order and the edge part *)
(* every edge of ea occurs in ea', possibly in the other direction *)
Definition edge_sub (ea ea' : list seg) : Prop :=
  forall e, In e ea -> In e ea' \/ In (swap_sg e) ea'.
Definition edge_equiv (ea ea' : list seg) : Prop := edge_sub ea ea' /\ edge_sub ea' ea.

Lemma swap_swap e : swap_sg (swap_sg e) = e.
Proof. destruct e; reflexivity. Qed.

Lemma hit_swap_r a b : hit a (swap_sg b) = hit a b.
Proof. rewrite hit_sym, hit_swap. apply hit_sym. Qed.

Lemma brute_mono ea ea' eb eb' : edge_sub ea ea' -> edge_sub eb eb' ->
  brute hit ea eb = true -> brute hit ea' eb' = true.
Proof.
  intros HA HB. apply brute_ext.
  - intros a Ha. destruct (HA a Ha) as [H | H].
    + exists a. auto.
    + exists (swap_sg a). split; [exact H|]. intros b. symmetry. apply hit_swap.
  - intros b Hb. destruct (HB b Hb) as [H | H].
    + exists b. auto.
    + exists (swap_sg b). split; [exact H|]. intros a. symmetry. apply hit_swap_r.
Qed.

Theorem brute_equiv ea ea' eb eb' : edge_equiv ea ea' -> edge_equiv eb eb' ->
  brute hit ea eb = brute hit ea' eb'.
Proof.
  intros [A1 A2] [B1 B2]. apply eq_true_iff_eq. split; apply brute_mono; assumption.
Qed.

Lemma edge_equiv_refl ea : edge_equiv ea ea.
Proof. split; intros e H; auto. Qed.

Lemma edge_equiv_sym ea eb : edge_equiv ea eb -> edge_equiv eb ea.
Proof. intros [A B]. split; assumption. Qed.

Lemma edge_sub_trans a b c : edge_sub a b -> edge_sub b c -> edge_sub a c.
Proof.
  intros H1 H2 e He. destruct (H1 e He) as [H | H].
  - apply H2. exact H.
  - destruct (H2 _ H) as [H' | H']; [right; exact H' | left; rewrite swap_swap in H'; exact H'].
Qed.

Lemma edge_equiv_trans a b c : edge_equiv a b -> edge_equiv b c -> edge_equiv a c.
Proof. intros [A1 A2] [B1 B2]. split; eapply edge_sub_trans; eauto. Qed.

Lemma edge_equiv_app a a' b b' : edge_equiv a a' -> edge_equiv b b' -> edge_equiv (a ++ b) (a' ++ b').
Proof.
  intros [A1 A2] [B1 B2]. split; intros e He; apply in_app_iff in He as [He | He];
    rewrite !in_app_iff;
    [destruct (A1 e He) | destruct (B1 e He) | destruct (A2 e He) | destruct (B2 e He)]; auto.
Qed.

(* edges of a vertex list *)
Lemma ring_edges_cons x y t : ring_edges (x :: y :: t) = (x, y) :: ring_edges (y :: t).
Proof. reflexivity. Qed.

Lemma ring_edges_snoc l z : l <> [] ->
  ring_edges (l ++ [z]) = ring_edges l ++ [(last l z, z)].
Proof.
  induction l as [|x l IH]; intros N; [contradiction|].
  destruct l as [|y t]; [reflexivity|].
  change ((x :: y :: t) ++ [z]) with (x :: y :: (t ++ [z])).
  rewrite !ring_edges_cons.
  change (y :: t ++ [z]) with ((y :: t) ++ [z]). rewrite IH by discriminate. reflexivity.
Qed.

(* reversing a vertex list reverses every edge *)
Lemma ring_edges_rev_in l : forall e, In e (ring_edges (rev l)) <-> In (swap_sg e) (ring_edges l).
Proof.
  induction l as [|x l IH]; intros e; [cbn; tauto|].
  destruct l as [|y t]; [cbn; tauto|].
  rewrite ring_edges_cons.
  change (rev (x :: y :: t)) with (rev (y :: t) ++ [x]).
  rewrite ring_edges_snoc by (cbn; intros H; apply app_eq_nil in H as [_ H]; discriminate).
  rewrite in_app_iff, IH.
  assert (L : last (rev (y :: t)) x = y) by (cbn; apply last_last).
  rewrite L. cbn [In]. split.
  - intros [H | [H | []]]; [right; exact H | left; subst e; reflexivity].
  - intros [H | H]; [right; left; destruct e; cbn in H; injection H as -> ->; reflexivity | left; exact H].
Qed.

Lemma ring_edges_rev l : edge_equiv (ring_edges (rev l)) (ring_edges l).
Proof.
  split; intros e He.
  - right. apply ring_edges_rev_in. exact He.
  - right. apply ring_edges_rev_in. rewrite swap_swap. exact He.
Qed.

(* a closed ring, and the same ring started one vertex later *)
Definition closed_ring (c : list pt) : Prop := exists x l, c = x :: l ++ [x].
Definition rot_closed (c : list pt) : list pt :=
  match c with x :: y :: t => y :: t ++ [y] | _ => c end.

Lemma rot_closed_closed c : closed_ring c -> closed_ring (rot_closed c).
Proof.
  intros [x [l ->]]. destruct l as [|y t].
  - exists x, []. reflexivity.
  - exists y, (t ++ [x]). reflexivity.
Qed.

Lemma rev_closed c : closed_ring c -> closed_ring (rev c).
Proof.
  intros [x [l ->]]. exists x, (rev l).
  change (x :: l ++ [x]) with ([x] ++ l ++ [x]). rewrite !rev_app_distr. reflexivity.
Qed.

Lemma ring_edges_rot c : closed_ring c -> edge_equiv (ring_edges (rot_closed c)) (ring_edges c).
Proof.
  intros [x [l ->]]. destruct l as [|y t]; [apply edge_equiv_refl|].
  change (rot_closed (x :: (y :: t) ++ [x])) with ((y :: t ++ [x]) ++ [y]).
  change (x :: (y :: t) ++ [x]) with (x :: y :: (t ++ [x])).
  rewrite ring_edges_cons, ring_edges_snoc by discriminate.
  assert (L : last (y :: t ++ [x]) y = x).
  { change (y :: t ++ [x]) with ((y :: t) ++ [x]). apply last_last. }
  rewrite L.
  split; intros e He.
  - left. apply in_app_iff in He as [He | [<- | []]]; [right; exact He | left; reflexivity].
  - left. destruct He as [<- | He]; apply in_app_iff; [right; left; reflexivity | left; exact He].
Qed.

Lemma close_ring_closed c : closed_ring c -> close_ring c = c.
Proof.
  intros [x [l ->]]. unfold close_ring.
  change (x :: l ++ [x]) with ((x :: l) ++ [x]). rewrite last_last.
  cbn. rewrite pt_eqb_refl. reflexivity.
Qed.

Lemma norm_outline_edges h raw :
  edge_equiv (ring_edges (norm_outline h raw)) (ring_edges (close_ring raw)).
Proof.
  unfold norm_outline. destruct (negb _); [apply ring_edges_rev | apply edge_equiv_refl].
Qed.

Lemma all_edges_poly o hs d :
  all_edges (Poly o hs d) = ring_edges o ++ concat (map ring_edges (map (fun h => rev (hole_coords h)) hs)).
Proof. reflexivity. Qed.

(* the edge part depends only on the undirected edge sets of the two shapes *)
Theorem edge_part_equiv a a' b b' :
  edge_equiv (all_edges a) (all_edges a') -> edge_equiv (all_edges b) (all_edges b') ->
  edge_part a b = edge_part a' b' /\
  edges_cross (edge_rings a) (edge_rings b) = edges_cross (edge_rings a') (edge_rings b').
Proof.
  intros Ha Hb. rewrite !edges_cross_shapes. unfold edge_part.
  rewrite (brute_equiv _ _ _ _ Ha Hb). auto.
Qed.

(* reversal / rotation (any number of steps) of the outline given to the GeoPolygon constructor *)
Inductive reorder : list pt -> list pt -> Prop :=
| ro_refl c : reorder c c
| ro_rev c c' : reorder c c' -> reorder c (rev c')
| ro_rot c c' : reorder c c' -> reorder c (rot_closed c').

Lemma reorder_edges c c' : closed_ring c -> reorder c c' ->
  closed_ring c' /\ edge_equiv (ring_edges c') (ring_edges c).
Proof.
  intros Hc R. induction R as [c | c c' R IH | c c' R IH].
  - split; [exact Hc | apply edge_equiv_refl].
  - destruct (IH Hc) as [C E]. split; [apply rev_closed; exact C|].
    eapply edge_equiv_trans; [apply ring_edges_rev | exact E].
  - destruct (IH Hc) as [C E]. split; [apply rot_closed_closed; exact C|].
    eapply edge_equiv_trans; [apply ring_edges_rot; exact C | exact E].
Qed.

Theorem edge_part_order_free c c' hs d b :
  closed_ring c -> reorder c c' ->
  edges_cross (edge_rings (mk_poly c' hs d)) (edge_rings b) =
    edges_cross (edge_rings (mk_poly c hs d)) (edge_rings b) /\
  edges_cross (edge_rings b) (edge_rings (mk_poly c' hs d)) =
    edges_cross (edge_rings b) (edge_rings (mk_poly c hs d)).
Proof.
  intros Hc R. destruct (reorder_edges c c' Hc R) as [Hc' E].
  assert (EE : edge_equiv (all_edges (mk_poly c' hs d)) (all_edges (mk_poly c hs d))).
  { unfold mk_poly. rewrite !all_edges_poly. apply edge_equiv_app; [|apply edge_equiv_refl].
    eapply edge_equiv_trans; [apply norm_outline_edges|].
    eapply edge_equiv_trans; [|apply edge_equiv_sym, norm_outline_edges].
    rewrite !close_ring_closed by assumption. exact E. }
  split.
  - apply (edge_part_equiv _ _ b b EE (edge_equiv_refl _)).
  - apply (edge_part_equiv b b _ _ (edge_equiv_refl _) EE).
Qed.

(* ------------------------------------------------------------------ refutations (finding D5) *)
(* p lies on the closed segment e (exact) *)
Definition on_segment (p : pt) (e : seg) : Prop :=
  cross (fst e) (snd e) p = 0 /\
  Z.min (px (fst e)) (px (snd e)) <= px p <= Z.max (px (fst e)) (px (snd e)) /\
  Z.min (py (fst e)) (py (snd e)) <= py p <= Z.max (py (fst e)) (py (snd e)).

Definition sq (x0 y0 x1 y1 : Z) : list pt := [(x0, y0); (x1, y0); (x1, y1); (x0, y1)].

(* a point on the boundary of a polygon belongs to both closed sets, yet "no intersection",
   in both argument orders *)
Theorem intersects_boundary_point_refuted :
  exists o p e, In e (all_edges (mk_poly o [] None)) /\ on_segment p e /\
    intersects_shape (-180) (mk_poly o [] None) (Pt p None) = Ok false /\
    intersects_shape (-180) (Pt p None) (mk_poly o [] None) = Ok false.
Proof.
  exists (sq 0 0 8 8), (8, 4), ((8, 0), (8, 8)).
  split; [vm_compute; tauto|]. split; [vm_compute; repeat split; discriminate|].
  split; vm_compute; reflexivity.
Qed.

(* a point strictly inside a segment of a linestring: "no intersection" *)
Theorem intersects_segment_interior_point_refuted :
  exists vs p e, In e (all_edges (Ln vs None)) /\ on_segment p e /\ p <> fst e /\ p <> snd e /\
    intersects_shape (-180) (Ln vs None) (Pt p None) = Ok false /\
    intersects_shape (-180) (Pt p None) (Ln vs None) = Ok false.
Proof.
  exists [(1, 1); (5, 3)], (3, 2), ((1, 1), (5, 3)).
  split; [vm_compute; tauto|]. split; [vm_compute; repeat split; discriminate|].
  repeat split; try discriminate; vm_compute; reflexivity.
Qed.

(* a polygon with a hole "contains" a polygon that covers the hole: q is a point of B (strictly
   inside it) that is not a point of A *)
Theorem contains_around_hole_refuted :
  exists a b q, valid a /\ valid b /\
    contains_shape (-180) a b = Ok true /\
    contains_coordinate (-180) b q = true /\ contains_coordinate (-180) a q = false.
Proof.
  exists (mk_poly (sq 0 0 8 8) [mk_hpoly (sq 2 2 6 6)] None), (mk_poly (sq 1 1 7 7) [] None), (4, 4).
  split; [vm_compute; lia|]. split; [vm_compute; lia|].
  repeat split; vm_compute; reflexivity.
Qed.

(* ------------------------------------------------------------------ the pre-repair code, refuted
   (shows that the theorems above are sensitive to exactly the repaired lines) *)
Definition diamond0 : list seg :=
  [((0, 1), (1, 0)); ((1, 0), (0, -1)); ((0, -1), (-1, 0)); ((-1, 0), (0, 1))].
Definition diamond_up : list seg :=
  [((0, 1), (1, 2)); ((1, 2), (0, 3)); ((0, 3), (-1, 2)); ((-1, 2), (0, 1))].

(* D2: without "starts before ends at equal latitude" the answer depends on the argument order *)
Theorem sweep_pre_D2_refuted :
  exists ea eb, brute hit ea eb = true /\
    sweep_gen hit false false ea eb = Ok false /\ sweep_gen hit false false eb ea = Ok true.
Proof. exists diamond0, diamond_up. repeat split; vm_compute; reflexivity. Qed.

(* D3: with set.remove an out-and-back path raises KeyError *)
Theorem sweep_pre_D3_refuted :
  exists ea eb, sweep_gen hit true true ea eb = Err KeyError.
Proof.
  exists [((5, 5), (6, 6)); ((6, 6), (5, 5))], [((0, 0), (1, 0)); ((1, 0), (1, 1))].
  vm_compute. reflexivity.
Qed.

(* D4: through `shape in self` the spatial test read the time bounds *)
Theorem time_free_pre_D4_refuted :
  exists a b d1 d2,
    intersects_shape_gen (-180) false (with_dt d1 a) (with_dt d2 b) <>
    intersects_shape_gen (-180) false a b.
Proof.
  exists (mk_poly (sq 0 0 8 8) [] None), (Pt (4, 4) None), (Some (mkiv 0 10)), (Some (mkiv 5 15)).
  vm_compute. discriminate.
Qed.

(* ------------------------------------------------------------------ what a hit means *)
(* the rational point (xn/dv, yn/dv), dv > 0, lies on the line through a1 a2 / in the bounding
   box of a1 a2; both together: on the closed segment *)
Definition on_line (a1 a2 : pt) (xn yn dv : Z) : Prop :=
  (px a2 - px a1) * (yn - py a1 * dv) - (py a2 - py a1) * (xn - px a1 * dv) = 0.
Definition in_box (a1 a2 : pt) (xn yn dv : Z) : Prop :=
  Z.min (px a1) (px a2) * dv <= xn <= Z.max (px a1) (px a2) * dv /\
  Z.min (py a1) (py a2) * dv <= yn <= Z.max (py a1) (py a2) * dv.
Definition on_seg_q (s : seg) (xn yn dv : Z) : Prop :=
  on_line (fst s) (snd s) xn yn dv /\ in_box (fst s) (snd s) xn yn dv.

(* direction vectors are not parallel *)
Definition nonparallel (s1 s2 : seg) : Prop :=
  (px (fst s1) - px (snd s1)) * (py (fst s2) - py (snd s2)) -
  (px (fst s2) - px (snd s2)) * (py (fst s1) - py (snd s1)) <> 0.

Lemma mul_le_cancel_pos a b t : 0 < t -> a * t <= b * t -> a <= b.
Proof. intros. nia. Qed.

Lemma hitc_spec a1 a2 b1 b2 :
  hitc a1 a2 b1 b2 = true <->
  nonparallel (a1, a2) (b1, b2) /\
  exists xn yn dv, 0 < dv /\ on_seg_q (a1, a2) xn yn dv /\ on_seg_q (b1, b2) xn yn dv.
Proof.
  destruct a1 as [x1 y1], a2 as [x2 y2], b1 as [x3 y3], b2 as [x4 y4].
  unfold hitc, nonparallel, on_seg_q, on_line, in_box, bounds_overlap, det2, px, py. cbn [fst snd]. cbv zeta.
  set (D := (x1 - x2) * (y3 - y4) - (x3 - x4) * (y1 - y2)).
  set (N := (x1 * y2 - y1 * x2) * (x3 - x4) - (x3 * y4 - y3 * x4) * (x1 - x2)).
  set (M := (x1 * y2 - y1 * x2) * (y3 - y4) - (x3 * y4 - y3 * x4) * (y1 - y2)).
  assert (L1 : (x2 - x1) * (M - y1 * D) - (y2 - y1) * (N - x1 * D) = 0) by (unfold D, N, M; ring).
  assert (L2 : (x4 - x3) * (M - y3 * D) - (y4 - y3) * (N - x3 * D) = 0) by (unfold D, N, M; ring).
  assert (C1 : forall u v t, (x2 - x1) * (v - y1 * t) - (y2 - y1) * (u - x1 * t) = 0 ->
                             (x4 - x3) * (v - y3 * t) - (y4 - y3) * (u - x3 * t) = 0 ->
                             u * D = t * N /\ v * D = t * M).
  { intros u v t E1 E2. split.
    - assert (X : u * D - t * N =
        ((x4 - x3) * (v - y3 * t) - (y4 - y3) * (u - x3 * t)) * (x1 - x2) -
        ((x2 - x1) * (v - y1 * t) - (y2 - y1) * (u - x1 * t)) * (x3 - x4)) by (unfold D, N; ring).
      rewrite E1, E2 in X. lia.
    - assert (X : v * D - t * M =
        ((x4 - x3) * (v - y3 * t) - (y4 - y3) * (u - x3 * t)) * (y1 - y2) -
        ((x2 - x1) * (v - y1 * t) - (y2 - y1) * (u - x1 * t)) * (y3 - y4)) by (unfold D, M; ring).
      rewrite E1, E2 in X. lia. }
  clearbody D N M.
  generalize dependent (Z.min x1 x2). generalize dependent (Z.max x1 x2).
  generalize dependent (Z.min y1 y2). generalize dependent (Z.max y1 y2).
  generalize dependent (Z.min x3 x4). generalize dependent (Z.max x3 x4).
  generalize dependent (Z.min y3 y4). generalize dependent (Z.max y3 y4).
  intros hy2 ly2 hx2 lx2 hy1 ly1 hx1 lx1.
  split.
  - intros H. repeat (apply andb_true_iff in H as [H ?]).
    assert (HD : D <> 0) by lia. split; [exact HD|].
    exists (sgn_fix D N), (sgn_fix D M), (Z.abs D).
    split; [lia|]. unfold sgn_fix in *.
    destruct (D <? 0) eqn:E.
    + replace (Z.abs D) with (- D) in * by lia.
      repeat split; lia.
    + replace (Z.abs D) with D in * by lia. repeat split; try lia.
  - intros [HD [u [v [t [Ht [[E1 [[Bx1 Bx1'] [By1 By1']]] [E2 [[Bx2 Bx2'] [By2 By2']]]]]]]]].
    destruct (C1 u v t E1 E2) as [Cu Cv].
    assert (Ov : Z.max lx1 lx2 <= Z.min hx1 hx2 /\ Z.max ly1 ly2 <= Z.min hy1 hy2).
    { split; apply Z.max_lub; apply Z.min_glb; apply (mul_le_cancel_pos _ _ t Ht); lia. }
    set (dv := Z.abs D). set (xn := sgn_fix D N). set (yn := sgn_fix D M).
    assert (Hdv : 0 < dv) by (unfold dv; lia).
    assert (Kx : u * dv = t * xn).
    { unfold dv, xn, sgn_fix. destruct (D <? 0) eqn:E; [replace (Z.abs D) with (- D) by lia | replace (Z.abs D) with D by lia]; lia. }
    assert (Ky : v * dv = t * yn).
    { unfold dv, yn, sgn_fix. destruct (D <? 0) eqn:E; [replace (Z.abs D) with (- D) by lia | replace (Z.abs D) with D by lia]; lia. }
    assert (LO : forall lo w z, lo * t <= w -> w * dv = t * z -> lo * dv <= z).
    { intros lo w0 z H1 H2. apply (mul_le_cancel_pos _ _ t Ht).
      assert (lo * t * dv <= w0 * dv) by (apply Z.mul_le_mono_nonneg_r; lia). lia. }
    assert (HI : forall hi w z, w <= hi * t -> w * dv = t * z -> z <= hi * dv).
    { intros hi w0 z H1 H2. apply (mul_le_cancel_pos _ _ t Ht).
      assert (w0 * dv <= hi * t * dv) by (apply Z.mul_le_mono_nonneg_r; lia). lia. }
    pose proof (LO _ _ _ Bx1 Kx). pose proof (HI _ _ _ Bx1' Kx).
    pose proof (LO _ _ _ Bx2 Kx). pose proof (HI _ _ _ Bx2' Kx).
    pose proof (LO _ _ _ By1 Ky). pose proof (HI _ _ _ By1' Ky).
    pose proof (LO _ _ _ By2 Ky). pose proof (HI _ _ _ By2' Ky).
    destruct Ov.
    repeat (apply andb_true_iff; split); lia.
Qed.

Lemma on_seg_q_swap s xn yn dv : on_seg_q (swap_sg s) xn yn dv <-> on_seg_q s xn yn dv.
Proof.
  destruct s as [[x1 y1] [x2 y2]]. unfold on_seg_q, on_line, in_box, swap_sg, px, py. cbn [fst snd].
  rewrite (Z.min_comm x2), (Z.max_comm x2), (Z.min_comm y2), (Z.max_comm y2).
  assert (E : (x1 - x2) * (yn - y2 * dv) - (y1 - y2) * (xn - x2 * dv) =
              - ((x2 - x1) * (yn - y1 * dv) - (y2 - y1) * (xn - x1 * dv))) by ring.
  rewrite E. split; intros [H1 H2]; (split; [lia | exact H2]).
Qed.

Lemma nonparallel_swap_l s1 s2 : nonparallel (swap_sg s1) s2 <-> nonparallel s1 s2.
Proof.
  destruct s1 as [[x1 y1] [x2 y2]], s2 as [[x3 y3] [x4 y4]].
  unfold nonparallel, swap_sg, px, py. cbn [fst snd].
  assert (E : (x2 - x1) * (y3 - y4) - (x3 - x4) * (y2 - y1) =
              - ((x1 - x2) * (y3 - y4) - (x3 - x4) * (y1 - y2))) by ring.
  rewrite E. lia.
Qed.

Lemma nonparallel_swap_r s1 s2 : nonparallel s1 (swap_sg s2) <-> nonparallel s1 s2.
Proof.
  destruct s1 as [[x1 y1] [x2 y2]], s2 as [[x3 y3] [x4 y4]].
  unfold nonparallel, swap_sg, px, py. cbn [fst snd].
  assert (E : (x1 - x2) * (y4 - y3) - (x4 - x3) * (y1 - y2) =
              - ((x1 - x2) * (y3 - y4) - (x3 - x4) * (y1 - y2))) by ring.
  rewrite E. lia.
Qed.

(* the meaning of "find_line_intersection returns something": the two closed segments are not
   parallel and share a point (with rational coordinates xn/dv, yn/dv) *)
Theorem hit_spec s1 s2 :
  hit s1 s2 = true <->
  nonparallel s1 s2 /\
  exists xn yn dv, 0 < dv /\ on_seg_q s1 xn yn dv /\ on_seg_q s2 xn yn dv.
Proof.
  rewrite hit_hitc, hitc_spec.
  rewrite <- !surjective_pairing.
  destruct (ordx_cases s1) as [-> | ->], (ordx_cases s2) as [-> | ->];
    rewrite ?nonparallel_swap_l, ?nonparallel_swap_r;
    try setoid_rewrite on_seg_q_swap; reflexivity.
Qed.

(* ------------------------------------------------------------------ soundness of intersects *)
Definition at_pt (p : pt) (xn yn dv : Z) : Prop := xn = px p * dv /\ yn = py p * dv.
Definition on_boundary_q (s : shape) (xn yn dv : Z) : Prop :=
  exists e, In e (all_edges s) /\ on_seg_q e xn yn dv.
(* the closed point set of a shape, as far as the code's own notions reach: a point, the
   segments of a path, the ring edges of a polygon/box together with the points the library's
   membership test (C01) accepts *)
Definition inset (w : Z) (s : shape) (xn yn dv : Z) : Prop :=
  match s with
  | Pt p _ => at_pt p xn yn dv
  | Ln _ _ => on_boundary_q s xn yn dv
  | _ => on_boundary_q s xn yn dv \/
         exists p, at_pt p xn yn dv /\ contains_coordinate w s p = true
  end.

Lemma endpoint_on_seg_l a b : on_seg_q (a, b) (px a) (py a) 1.
Proof.
  destruct a as [x1 y1], b as [x2 y2]. unfold on_seg_q, on_line, in_box, px, py. cbn [fst snd].
  repeat split; lia.
Qed.

Lemma endpoint_on_seg_r a b : on_seg_q (a, b) (px b) (py b) 1.
Proof.
  destruct a as [x1 y1], b as [x2 y2]. unfold on_seg_q, on_line, in_box, px, py. cbn [fst snd].
  repeat split; lia.
Qed.

Lemma vertex_on_edge vs p : (2 <= length vs)%nat -> In p vs ->
  exists e, In e (ring_edges vs) /\ on_seg_q e (px p) (py p) 1.
Proof.
  induction vs as [|a vs IH]; intros L Hp; [destruct Hp|].
  destruct vs as [|b t]; [cbn in L; lia|].
  rewrite ring_edges_cons.
  destruct Hp as [<- | Hp].
  - exists (a, b). split; [left; reflexivity | apply endpoint_on_seg_l].
  - destruct t as [|c t'].
    + destruct Hp as [<- | []]. exists (a, b). split; [left; reflexivity | apply endpoint_on_seg_r].
    + destruct (IH ltac:(cbn; lia) Hp) as [e [He Ho]]. exists e. split; [right; exact He | exact Ho].
Qed.

Lemma all_edges_ln vs d : all_edges (Ln vs d) = ring_edges vs.
Proof. unfold all_edges. cbn. apply app_nil_r. Qed.

Lemma first_pt_on_boundary s : valid s -> is_pt s = false ->
  on_boundary_q s (px (first_pt s)) (py (first_pt s)) 1.
Proof.
  destruct s as [p d | vs d | o hs d | nw se hs d]; cbn [valid is_pt first_pt]; intros V N; try discriminate.
  - destruct vs as [|a [|b t]]; cbn in V; try lia.
    exists (a, b). split; [rewrite all_edges_ln; left; reflexivity | apply endpoint_on_seg_l].
  - destruct o as [|a [|b t]]; cbn in V; try lia.
    exists (a, b). split; [rewrite all_edges_poly; left; reflexivity | apply endpoint_on_seg_l].
  - exists (nw, (px nw, py se)). split; [left; reflexivity | apply endpoint_on_seg_l].
Qed.

Lemma contained_inset w s p : valid s -> contains_coordinate w s p = true ->
  inset w s (px p) (py p) 1.
Proof.
  destruct s as [q d | vs d | o hs d | nw se hs d]; cbn [valid]; intros V H.
  - cbn in H. apply pt_eqb_eq in H. subst. cbn. unfold at_pt. lia.
  - cbn in H. apply existsb_pt_In in H. cbn [inset].
    destruct (vertex_on_edge vs p V H) as [e [He Ho]]. exists e. rewrite all_edges_ln. auto.
  - right. exists p. unfold at_pt. repeat split; try lia. exact H.
  - right. exists p. unfold at_pt. repeat split; try lia. exact H.
Qed.

Lemma boundary_inset w s xn yn dv : is_pt s = false -> on_boundary_q s xn yn dv -> inset w s xn yn dv.
Proof. destruct s; cbn; intros N H; try discriminate; auto. Qed.

Theorem intersects_sound w a b : valid a -> valid b ->
  intersects_shape w a b = Ok true ->
  exists xn yn dv, 0 < dv /\ inset w a xn yn dv /\ inset w b xn yn dv.
Proof.
  intros Va Vb H.
  destruct (is_pt a) eqn:Pa.
  - destruct a as [p d | | |]; try discriminate.
    exists (px p), (py p), 1. split; [lia|]. split; [cbn; unfold at_pt; lia|].
    destruct b as [q d' | vs d' | o hs d' | nw se hs d']; cbn in H; injection H as H.
    + apply pt_eqb_eq in H. subst. cbn. unfold at_pt. lia.
    + apply (contained_inset w (Ln vs d')); assumption.
    + apply (contained_inset w (Poly o hs d')); assumption.
    + apply (contained_inset w (Box nw se hs d')); assumption.
  - destruct (is_pt b) eqn:Pb.
    + destruct b as [q d' | | |]; try discriminate.
      exists (px q), (py q), 1. split; [lia|]. split; [|cbn; unfold at_pt; lia].
      apply contained_inset; [exact Va|].
      destruct a; try discriminate; cbn in H; injection H as H; exact H.
    + rewrite intersects_edge_truth in H by assumption. injection H as H.
      apply orb_true_iff in H as [H | H]; [apply orb_true_iff in H as [H | H]|].
      * unfold edge_part, brute in H. apply existsb_exists in H as [ea [Hea H]].
        apply existsb_exists in H as [eb [Heb H]].
        apply hit_spec in H as [_ [xn [yn [dv [Hdv [O1 O2]]]]]].
        exists xn, yn, dv. split; [exact Hdv|].
        split; apply boundary_inset; auto; [exists ea | exists eb]; auto.
      * exists (px (first_pt b)), (py (first_pt b)), 1. split; [lia|]. split.
        -- apply contained_inset; assumption.
        -- apply boundary_inset; [exact Pb | apply first_pt_on_boundary; assumption].
      * exists (px (first_pt a)), (py (first_pt a)), 1. split; [lia|]. split.
        -- apply boundary_inset; [exact Pa | apply first_pt_on_boundary; assumption].
        -- apply contained_inset; assumption.
Qed.

(* ------------------------------------------------------------------ corollaries / a new finding *)
Theorem edge_part_meaning a b :
  edge_part a b = true <->
  exists ea eb, In ea (all_edges a) /\ In eb (all_edges b) /\ nonparallel ea eb /\
    exists xn yn dv, 0 < dv /\ on_seg_q ea xn yn dv /\ on_seg_q eb xn yn dv.
Proof.
  unfold edge_part, brute. rewrite existsb_exists. split.
  - intros [ea [Ha H]]. apply existsb_exists in H as [eb [Hb H]]. apply hit_spec in H as [H1 H2].
    exists ea, eb. auto.
  - intros [ea [eb [Ha [Hb [H1 H2]]]]]. exists ea. split; [exact Ha|].
    apply existsb_exists. exists eb. split; [exact Hb|]. apply hit_spec. auto.
Qed.

(* NEW finding: two collinear paths meeting end to end -- the answer depends on which end of
   a path is listed first (the first-vertex fallback decides; no edge pair "hits") *)
Theorem line_reversal_refuted :
  exists vs us,
    intersects_shape (-180) (Ln vs None) (Ln us None) = Ok true /\
    intersects_shape (-180) (Ln vs None) (Ln (rev us) None) = Ok false.
Proof. exists [(0, 0); (4, 0)], [(4, 0); (8, 0)]. split; vm_compute; reflexivity. Qed.

(* do_edges_intersect in planar terms *)
Theorem sweep_meaning ea eb :
  sweep hit ea eb = Ok true <->
  exists a b, In a ea /\ In b eb /\ nonparallel a b /\
    exists xn yn dv, 0 < dv /\ on_seg_q a xn yn dv /\ on_seg_q b xn yn dv.
Proof.
  rewrite sweep_hit_brute. unfold brute. split.
  - intros [= H]. apply existsb_exists in H as [a [Ha H]]. apply existsb_exists in H as [b [Hb H]].
    apply hit_spec in H as [H1 H2]. exists a, b. auto.
  - intros [a [b [Ha [Hb [H1 H2]]]]]. f_equal. apply existsb_exists. exists a. split; [exact Ha|].
    apply existsb_exists. exists b. split; [exact Hb|]. apply hit_spec. auto.
Qed.
