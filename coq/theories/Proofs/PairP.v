(* C02 -- proofs about the pairwise predicates (PairM.v) and about GeomM.hit as used by the sweep.
   Part 1: GeomM.hit is symmetric, blind to segment direction, and implies overlapping latitude
   ranges; hence the sweep instance theorem.  Part 2: shape-level theorems. *)
From Coq Require Import Btauto.
From GV Require Import Prelude TimeM GeomM SweepM SweepP PairM.
Open Scope Z_scope.

(* [hit] as a Boolean formula over the x-ordered endpoints *)
Definition hitc (a1 a2 b1 b2 : pt) : bool :=
  let l1xlo := Z.min (px a1) (px a2) in let l1xhi := Z.max (px a1) (px a2) in
  let l1ylo := Z.min (py a1) (py a2) in let l1yhi := Z.max (py a1) (py a2) in
  let l2xlo := Z.min (px b1) (px b2) in let l2xhi := Z.max (px b1) (px b2) in
  let l2ylo := Z.min (py b1) (py b2) in let l2yhi := Z.max (py b1) (py b2) in
  bounds_overlap l1xlo l1xhi l2xlo l2xhi && bounds_overlap l1ylo l1yhi l2ylo l2yhi &&
  (let xd0 := px a1 - px a2 in let xd1 := px b1 - px b2 in
   let yd0 := py a1 - py a2 in let yd1 := py b1 - py b2 in
   let div := xd0 * yd1 - xd1 * yd0 in
   negb (div =? 0) &&
   (let d0 := det2 a1 a2 in let d1 := det2 b1 b2 in
    let xn := sgn_fix div (d0 * xd1 - d1 * xd0) in
    let yn := sgn_fix div (d0 * yd1 - d1 * yd0) in
    let dv := Z.abs div in
    (l1xlo * dv <=? xn) && (xn <=? l1xhi * dv) &&
    (l2xlo * dv <=? xn) && (xn <=? l2xhi * dv) &&
    (l1ylo * dv <=? yn) && (yn <=? l1yhi * dv) &&
    (l2ylo * dv <=? yn) && (yn <=? l2yhi * dv))).

Lemma hit_hitc s1 s2 :
  hit s1 s2 = hitc (fst (ordx s1)) (snd (ordx s1)) (fst (ordx s2)) (snd (ordx s2)).
Proof.
  unfold hit, fli, fliZ.
  destruct (ordx s1) as [a1 a2], (ordx s2) as [b1 b2]. cbn [fst snd].
  unfold fli_core, hitc. cbv zeta.
  destruct (bounds_overlap (Z.min (px a1) (px a2)) _ _ _ && bounds_overlap _ _ _ _);
    cbn [negb andb]; [|reflexivity].
  destruct (_ =? 0); cbn [negb andb]; [reflexivity|].
  match goal with |- _ = ?c => destruct c end; reflexivity.
Qed.

Lemma sgn_fix_opp d v : d <> 0 -> sgn_fix (- d) (- v) = sgn_fix d v.
Proof. unfold sgn_fix. intros. destruct (d <? 0) eqn:E1, (- d <? 0) eqn:E2; lia. Qed.

Lemma bounds_overlap_sym a b c d : bounds_overlap a b c d = bounds_overlap c d a b.
Proof. unfold bounds_overlap. rewrite Z.max_comm, Z.min_comm. reflexivity. Qed.

(* exchanging the two segments *)
Lemma hitc_sym a1 a2 b1 b2 : hitc a1 a2 b1 b2 = hitc b1 b2 a1 a2.
Proof.
  unfold hitc, det2. cbv zeta.
  rewrite (bounds_overlap_sym (Z.min (px a1) (px a2))), (bounds_overlap_sym (Z.min (py a1) (py a2))).
  set (D := (px a1 - px a2) * (py b1 - py b2) - (px b1 - px b2) * (py a1 - py a2)).
  replace ((px b1 - px b2) * (py a1 - py a2) - (px a1 - px a2) * (py b1 - py b2)) with (- D) by (unfold D; ring).
  set (N := (px a1 * py a2 - py a1 * px a2) * (px b1 - px b2) - (px b1 * py b2 - py b1 * px b2) * (px a1 - px a2)).
  replace ((px b1 * py b2 - py b1 * px b2) * (px a1 - px a2) - (px a1 * py a2 - py a1 * px a2) * (px b1 - px b2)) with (- N) by (unfold N; ring).
  set (M := (px a1 * py a2 - py a1 * px a2) * (py b1 - py b2) - (px b1 * py b2 - py b1 * px b2) * (py a1 - py a2)).
  replace ((px b1 * py b2 - py b1 * px b2) * (py a1 - py a2) - (px a1 * py a2 - py a1 * px a2) * (py b1 - py b2)) with (- M) by (unfold M; ring).
  clearbody D N M.
  destruct (Z.eq_dec D 0) as [-> | HD].
  - cbn. rewrite !andb_false_r. reflexivity.
  - rewrite !(sgn_fix_opp D) by exact HD. rewrite Z.abs_opp.
    replace (- D =? 0) with (D =? 0) by lia.
    btauto.
Qed.

(* reversing the first segment *)
Lemma hitc_swap1 a1 a2 b1 b2 : hitc a2 a1 b1 b2 = hitc a1 a2 b1 b2.
Proof.
  unfold hitc, det2. cbv zeta.
  rewrite !(Z.min_comm (px a2)), !(Z.max_comm (px a2)), !(Z.min_comm (py a2)), !(Z.max_comm (py a2)).
  set (D := (px a1 - px a2) * (py b1 - py b2) - (px b1 - px b2) * (py a1 - py a2)).
  replace ((px a2 - px a1) * (py b1 - py b2) - (px b1 - px b2) * (py a2 - py a1)) with (- D) by (unfold D; ring).
  set (N := (px a1 * py a2 - py a1 * px a2) * (px b1 - px b2) - (px b1 * py b2 - py b1 * px b2) * (px a1 - px a2)).
  replace ((px a2 * py a1 - py a2 * px a1) * (px b1 - px b2) - (px b1 * py b2 - py b1 * px b2) * (px a2 - px a1)) with (- N) by (unfold N; ring).
  set (M := (px a1 * py a2 - py a1 * px a2) * (py b1 - py b2) - (px b1 * py b2 - py b1 * px b2) * (py a1 - py a2)).
  replace ((px a2 * py a1 - py a2 * px a1) * (py b1 - py b2) - (px b1 * py b2 - py b1 * px b2) * (py a2 - py a1)) with (- M) by (unfold M; ring).
  clearbody D N M.
  destruct (Z.eq_dec D 0) as [-> | HD].
  - cbn. rewrite !andb_false_r. reflexivity.
  - rewrite !(sgn_fix_opp D) by exact HD. rewrite Z.abs_opp.
    replace (- D =? 0) with (D =? 0) by lia.
    reflexivity.
Qed.

Lemma ordx_cases s : ordx s = s \/ ordx s = swap_sg s.
Proof. destruct s as [a b]. unfold ordx, swap_sg. cbn. destruct (px b <? px a); auto. Qed.

Lemma ordx_swap s : ordx (swap_sg s) = ordx s \/ (ordx (swap_sg s) = swap_sg (ordx s)).
Proof.
  destruct s as [a b]. unfold ordx, swap_sg. cbn [fst snd].
  destruct (px a <? px b) eqn:E1, (px b <? px a) eqn:E2; cbn [fst snd]; auto.
Qed.

Theorem hit_sym a b : hit a b = hit b a.
Proof. rewrite !hit_hitc. apply hitc_sym. Qed.

Theorem hit_swap a b : hit (swap_sg a) b = hit a b.
Proof.
  rewrite !hit_hitc. destruct (ordx_swap a) as [-> | ->]; [reflexivity|].
  unfold swap_sg. cbn [fst snd]. apply hitc_swap1.
Qed.

Theorem hit_lat a b : hit a b = true ->
  Z.max (lat_lo a) (lat_lo b) <= Z.min (lat_hi a) (lat_hi b).
Proof.
  rewrite hit_hitc. unfold hitc. cbv zeta. intros H.
  apply andb_true_iff in H as [H _]. apply andb_true_iff in H as [_ H].
  unfold bounds_overlap in H. apply Z.leb_le in H.
  assert (L : forall s, Z.min (py (fst (ordx s))) (py (snd (ordx s))) = lat_lo s /\
                        Z.max (py (fst (ordx s))) (py (snd (ordx s))) = lat_hi s).
  { intros [[x1 y1] [x2 y2]]. unfold lat_lo, lat_hi, lat, py, ordx, px.
    cbn [fst snd]. destruct (x2 <? x1); cbn [fst snd]; lia. }
  destruct (L a) as [<- <-], (L b) as [<- <-]. exact H.
Qed.

(* ------------------------------------------------------------------ the sweep with GeomM.hit *)
Theorem sweep_hit_brute ea eb : sweep hit ea eb = Ok (brute hit ea eb).
Proof. exact (sweep_brute hit hit_sym hit_swap hit_lat ea eb). Qed.

Theorem sweep_hit_never_err ea eb : exists r, sweep hit ea eb = Ok r.
Proof. rewrite sweep_hit_brute. eauto. Qed.

Theorem sweep_hit_sym ea eb : sweep hit ea eb = sweep hit eb ea.
Proof. exact (sweep_sym hit hit_sym hit_swap hit_lat ea eb). Qed.

(* ------------------------------------------------------------------ small facts *)
Lemma pt_eqb_eq a b : pt_eqb a b = true <-> a = b.
Proof.
  destruct a as [a1 a2], b as [b1 b2]. unfold pt_eqb, px, py. cbn. split.
  - intros H. apply andb_true_iff in H as [H1 H2]. f_equal; lia.
  - intros [= -> ->]. rewrite !Z.eqb_refl. reflexivity.
Qed.

Lemma pt_eqb_sym a b : pt_eqb a b = pt_eqb b a.
Proof. unfold pt_eqb. rewrite (Z.eqb_sym (px a)), (Z.eqb_sym (py a)). reflexivity. Qed.

Lemma pt_eqb_refl a : pt_eqb a a = true.
Proof. apply pt_eqb_eq. reflexivity. Qed.

Lemma pts_eqb_eq a b : list_eqb pt_eqb a b = true <-> a = b.
Proof.
  revert b. induction a as [|x a IH]; intros [|y b]; cbn; split; try congruence; auto.
  - intros H. apply andb_true_iff in H as [H1 H2]. apply pt_eqb_eq in H1. apply IH in H2. congruence.
  - intros [= -> ->]. rewrite pt_eqb_refl. apply IH. reflexivity.
Qed.

Lemma existsb_pt_In p vs : existsb (pt_eqb p) vs = true <-> In p vs.
Proof.
  rewrite existsb_exists. split.
  - intros [x [Hx E]]. apply pt_eqb_eq in E. subst. exact Hx.
  - intros H. exists p. split; [exact H | apply pt_eqb_refl].
Qed.

(* ------------------------------------------------------------------ is_sub_list *)
Theorem sublist_spec a b : is_sub_list a b = true <-> exists p s, b = p ++ a ++ s.
Proof.
  unfold is_sub_list. split.
  - destruct (length b <? length a)%nat eqn:E; [discriminate|].
    intros H. apply existsb_exists in H as [i [Hi H]]. apply pts_eqb_eq in H.
    exists (firstn i b), (skipn (length a) (skipn i b)).
    pose proof (firstn_skipn i b) as E1.
    pose proof (firstn_skipn (length a) (skipn i b)) as E2. rewrite H in E2.
    rewrite E2. symmetry. exact E1.
  - intros [p [s ->]].
    assert (L : length (p ++ a ++ s) = (length p + length a + length s)%nat)
      by (rewrite !app_length; lia).
    destruct (length (p ++ a ++ s) <? length a)%nat eqn:E.
    + apply Nat.ltb_lt in E. lia.
    + apply existsb_exists. exists (length p). split.
      * apply in_seq. lia.
      * apply pts_eqb_eq.
        rewrite skipn_app, skipn_all, Nat.sub_diag. cbn [app skipn].
        rewrite firstn_app, firstn_all, Nat.sub_diag. cbn [firstn]. apply app_nil_r.
Qed.

(* ------------------------------------------------------------------ shape level *)
Definition is_pt (s : shape) : bool := match s with Pt _ _ => true | _ => false end.

Definition hd0 (r : list pt) : pt := hd (0, 0) r.

(* the vertex the fallback looks at: `edges[0][0][0]` of a valid shape *)
Definition first_pt (s : shape) : pt :=
  match s with
  | Pt p _ => p
  | Ln vs _ => hd0 vs
  | Poly o _ _ => hd0 o
  | Box nw _ _ _ => nw
  end.

Lemma first_vertex_valid s : valid s -> is_pt s = false ->
  first_vertex (edge_rings s) = Ok (first_pt s).
Proof.
  destruct s as [p d | vs d | o hs d | nw se hs d]; cbn; intros V N; try discriminate.
  - destruct vs as [|a [|b t]]; cbn in V; try lia. reflexivity.
  - destruct o as [|a [|b t]]; cbn in V; try lia. reflexivity.
  - reflexivity.
Qed.

Section Shapes.
  Variable w : Z.

  Lemma edges_cross_spec se oe : edges_cross se oe = Ok (brute hit (concat se) (concat oe)).
  Proof. apply sweep_hit_brute. Qed.

  Lemma edges_cross_shapes a b : edges_cross (edge_rings a) (edge_rings b) = Ok (edge_part a b).
  Proof. apply edges_cross_spec. Qed.

  Lemma tail_spec self other se oe v u :
    first_vertex oe = Ok v -> first_vertex se = Ok u ->
    intersects_tail w self other se oe =
      Ok (brute hit (concat se) (concat oe) || in_coord w self v || in_coord w other u).
  Proof.
    intros Hv Hu. unfold intersects_tail. rewrite edges_cross_spec, Hv, Hu.
    destruct (brute hit (concat se) (concat oe)); [reflexivity|].
    destruct (in_coord w self v); reflexivity.
  Qed.

  Lemma intersects_nonpt a b : is_pt a = false -> is_pt b = false ->
    intersects_shape w a b = intersects_tail w a b (edge_rings a) (edge_rings b).
  Proof. destruct a, b; cbn; intros; try discriminate; reflexivity. Qed.

  (* "equal to edge-pair truth": for shapes that are not points the answer is
       some edge pair hits  \/  first vertex of B in A  \/  first vertex of A in B *)
  Theorem intersects_edge_truth a b :
    valid a -> valid b -> is_pt a = false -> is_pt b = false ->
    intersects_shape w a b =
      Ok (edge_part a b || contains_coordinate w a (first_pt b) || contains_coordinate w b (first_pt a)).
  Proof.
    intros Va Vb Na Nb. rewrite intersects_nonpt by assumption.
    apply tail_spec; apply first_vertex_valid; assumption.
  Qed.

  Definition is_area (s : shape) : bool :=
    match s with Poly _ _ _ | Box _ _ _ _ => true | _ => false end.

  Theorem contains_edge_truth a b :
    valid b -> is_area a = true -> is_pt b = false ->
    contains_shape w a b = Ok (negb (edge_part a b) && contains_coordinate w a (first_pt b)).
  Proof.
    intros Vb Aa Nb.
    assert (E : contains_shape w a b =
      match edges_cross (edge_rings a) (edge_rings b) with
      | Err e => Err e
      | Ok true => Ok false
      | Ok false => match first_vertex (edge_rings b) with
                    | Err e => Err e | Ok v => Ok (in_coord w a v) end
      end).
    { destruct a, b; cbn in *; try discriminate; reflexivity. }
    rewrite E, edges_cross_shapes, (first_vertex_valid b Vb Nb).
    destruct (edge_part a b); reflexivity.
  Qed.

  (* point relations reduce to C01's membership functions *)
  Theorem point_rel_spec :
    (forall o hs d p d', intersects_shape w (Poly o hs d) (Pt p d') = Ok (poly_contains w o hs p) /\
                         intersects_shape w (Pt p d') (Poly o hs d) = Ok (poly_contains w o hs p) /\
                         contains_shape w (Poly o hs d) (Pt p d') = Ok (poly_contains w o hs p)) /\
    (forall nw se hs d p d', intersects_shape w (Box nw se hs d) (Pt p d') = Ok (box_contains w nw se hs p) /\
                             intersects_shape w (Pt p d') (Box nw se hs d) = Ok (box_contains w nw se hs p) /\
                             contains_shape w (Box nw se hs d) (Pt p d') = Ok (box_contains w nw se hs p)) /\
    (forall vs d p d', (intersects_shape w (Ln vs d) (Pt p d') = Ok true <-> In p vs) /\
                       (intersects_shape w (Pt p d') (Ln vs d) = Ok true <-> In p vs) /\
                       (contains_shape w (Ln vs d) (Pt p d') = Ok true <-> In p vs)) /\
    (forall p d q d', (intersects_shape w (Pt p d) (Pt q d') = Ok true <-> p = q) /\
                      (contains_shape w (Pt p d) (Pt q d') = Ok true <-> p = q)).
  Proof.
    repeat split; cbn; try reflexivity;
      try (intros [= H]; apply existsb_pt_In in H; exact H);
      try (intros H; f_equal; apply existsb_pt_In; exact H).
    - intros [= H]. apply pt_eqb_eq in H. exact H.
    - intros ->. rewrite pt_eqb_refl. reflexivity.
    - intros [= H]. apply pt_eqb_eq in H. congruence.
    - intros ->. rewrite pt_eqb_refl. reflexivity.
  Qed.

  (* ---------------------------------------------------------------- symmetry *)
  Theorem intersects_sym a b : valid a -> valid b ->
    intersects_shape w a b = intersects_shape w b a.
  Proof.
    intros Va Vb.
    destruct (is_pt a) eqn:Pa, (is_pt b) eqn:Pb.
    - destruct a, b; try discriminate. cbn. rewrite pt_eqb_sym. reflexivity.
    - destruct a, b; try discriminate; reflexivity.
    - destruct a, b; try discriminate; reflexivity.
    - rewrite !intersects_edge_truth by assumption. f_equal.
      unfold edge_part. rewrite (brute_sym hit hit_sym (all_edges b) (all_edges a)).
      destruct (brute hit (all_edges a) (all_edges b)); cbn; [reflexivity|]. apply orb_comm.
  Qed.

  (* ---------------------------------------------------------------- contains => intersects *)
  Theorem contains_imp_intersects a b : valid b ->
    contains_shape w a b = Ok true -> intersects_shape w a b = Ok true.
  Proof.
    intros Vb H.
    destruct (is_pt b) eqn:Pb.
    - destruct b as [q d'| | |]; try discriminate.
      destruct a as [p d | vs d | o hs d | nw se hs d]; cbn in *; try exact H.
      rewrite pt_eqb_sym. exact H.
    - destruct (is_area a) eqn:Aa.
      + rewrite contains_edge_truth in H by assumption.
        injection H as H. apply andb_true_iff in H as [H1 H2]. apply negb_true_iff in H1.
        assert (E : intersects_shape w a b =
                    intersects_tail w a b (edge_rings a) (edge_rings b))
          by (destruct a, b; try discriminate; reflexivity).
        rewrite E. unfold intersects_tail.
        rewrite edges_cross_shapes, H1, (first_vertex_valid b Vb Pb).
        unfold in_coord. rewrite H2. reflexivity.
      + destruct a as [p d | vs d | |]; try discriminate.
        * destruct b; cbn in H; discriminate.
        * destruct b as [ | us d' | |]; cbn in H; try discriminate.
          injection H as H. apply sublist_spec in H as [pre [suf ->]].
          change (intersects_shape w (Ln (pre ++ us ++ suf) d) (Ln us d')) with
            (intersects_tail w (Ln (pre ++ us ++ suf) d) (Ln us d')
               [ring_edges (pre ++ us ++ suf)] [ring_edges us]).
          unfold intersects_tail. rewrite edges_cross_spec.
          destruct (brute hit _ _); [reflexivity|].
          change [ring_edges us] with (edge_rings (Ln us d')).
          rewrite (first_vertex_valid _ Vb eq_refl). cbn [first_pt].
          assert (I : in_coord w (Ln (pre ++ us ++ suf) d) (hd0 us) = true).
          { cbn. apply existsb_pt_In. destruct us as [|u0 us']; [cbn in Vb; lia|].
            cbn. apply in_app_iff. right. left. reflexivity. }
          rewrite I. reflexivity.
  Qed.

  (* ---------------------------------------------------------------- no exception *)
  Theorem never_err a b : valid a -> valid b ->
    exists r1 r2, intersects_shape w a b = Ok r1 /\ contains_shape w a b = Ok r2.
  Proof.
    intros Va Vb.
    destruct (is_pt b) eqn:Pb.
    - destruct b; try discriminate. destruct a; cbn; eauto.
    - destruct (is_pt a) eqn:Pa.
      + destruct a; try discriminate. destruct b; try discriminate; cbn; eauto.
      + rewrite intersects_edge_truth by assumption.
        destruct (is_area a) eqn:Aa.
        * rewrite contains_edge_truth by assumption. eauto.
        * destruct a; try discriminate. destruct b; try discriminate; cbn; eauto.
  Qed.

  (* ---------------------------------------------------------------- time bounds are not read *)
  Theorem spatial_time_free a b d1 d2 :
    intersects_shape w (with_dt d1 a) (with_dt d2 b) = intersects_shape w a b /\
    contains_shape w (with_dt d1 a) (with_dt d2 b) = contains_shape w a b.
  Proof. destruct a, b; split; reflexivity. Qed.

  (* ---------------------------------------------------------------- linestring containment *)
  Theorem line_contains_spec vs d us d' :
    contains_shape w (Ln vs d) (Ln us d') = Ok true <-> exists p s, vs = p ++ us ++ s.
  Proof.
    cbn. rewrite <- sublist_spec. split; [intros [= H]; exact H | intros ->; reflexivity].
  Qed.
End Shapes.
