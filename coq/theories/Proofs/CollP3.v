(* Proofs about convolve_duplicate_timestamps (C17, part 3). *)
From Coq Require Import QArith Permutation Sorted.
From GV Require Import Prelude CollM CollP CollP2.
Open Scope Z_scope.

Lemma NoDup_snoc {A} (l : list A) a : NoDup l -> ~ In a l -> NoDup (l ++ [a]).
Proof.
  induction l as [|b l IH]; cbn; intros ND H.
  - constructor; [intros []|constructor].
  - inversion ND; subst. constructor.
    + intros Hin. apply in_app_or in Hin. destruct Hin as [Hin|[<-|[]]]; [contradiction|].
      apply H. left. reflexivity.
    + apply IH; [assumption|]. intros ?. apply H. right. assumption.
Qed.

Definition dtk (x : item) : Z * Z := (st x, en x).

Lemma same_dt_iff x y : same_dt x y = true <-> dtk x = dtk y.
Proof.
  unfold same_dt, dtk. split.
  - intros H. f_equal; lia.
  - intros H. injection H as H1 H2. lia.
Qed.

Lemma same_dt_false x y : same_dt x y = false <-> dtk x <> dtk y.
Proof.
  rewrite <- same_dt_iff. destruct (same_dt x y); split; congruence.
Qed.

Lemma same_dt_refl x : same_dt x x = true.
Proof. apply same_dt_iff. reflexivity. Qed.

Lemma same_dt_ext x y : dtk x = dtk y -> forall z, same_dt x z = same_dt y z.
Proof.
  intros H z. destruct (same_dt y z) eqn:E.
  - apply same_dt_iff. apply same_dt_iff in E. congruence.
  - apply same_dt_false. apply same_dt_false in E. congruence.
Qed.

(* ------------------------------------------------------------------ has_duplicate_timestamps *)
Lemma existsb_same_dt x l : existsb (same_dt x) l = true <-> In (dtk x) (map dtk l).
Proof.
  rewrite existsb_exists, in_map_iff. split.
  - intros (y & Hy & E). exists y. apply same_dt_iff in E. split; [congruence|exact Hy].
  - intros (y & E & Hy). exists y. split; [exact Hy|]. apply same_dt_iff. congruence.
Qed.

Lemma has_dup_from_false : forall l seen, has_dup_from seen l = false ->
  NoDup (map dtk l) /\ forall x, In x l -> ~ In (dtk x) (map dtk seen).
Proof.
  induction l as [|x l IH]; intros seen H; cbn in *.
  - split; [constructor|]. intros x [].
  - destruct (existsb (same_dt x) seen) eqn:E; [discriminate|].
    destruct (IH _ H) as [ND F]. split.
    + constructor; [|exact ND]. intros Hin. apply in_map_iff in Hin.
      destruct Hin as (y & Ey & Hy). apply (F y Hy). cbn. left. congruence.
    + intros y [->|Hy].
      * intros Hin. apply existsb_same_dt in Hin. congruence.
      * intros Hin. apply (F y Hy). cbn. right. exact Hin.
Qed.

Lemma has_dup_from_true : forall l seen, has_dup_from seen l = true ->
  ~ NoDup (map dtk l) \/ exists x, In x l /\ In (dtk x) (map dtk seen).
Proof.
  induction l as [|x l IH]; intros seen H; cbn in *; [discriminate|].
  destruct (existsb (same_dt x) seen) eqn:E.
  - right. exists x. split; [left; reflexivity|]. apply existsb_same_dt. exact E.
  - destruct (IH _ H) as [ND|(y & Hy & Hin)].
    + left. intros ND'. inversion ND'; subst. contradiction.
    + cbn in Hin. destruct Hin as [Hin|Hin].
      * left. intros ND'. inversion ND' as [|? ? Hx _]; subst. apply Hx.
        rewrite Hin. apply in_map. exact Hy.
      * right. exists y. split; [right; exact Hy|exact Hin].
Qed.

Lemma has_dup_spec l : has_dup l = false <-> NoDup (map dtk l).
Proof.
  unfold has_dup. split.
  - intros H. apply has_dup_from_false in H. tauto.
  - intros ND. destruct (has_dup_from [] l) eqn:E; [|reflexivity].
    apply has_dup_from_true in E. destruct E as [E|(x & _ & [])]. contradiction.
Qed.

(* ------------------------------------------------------------------ grouping *)
Definition gkey (g : group) : Z * Z := dtk (fst g).
Definition members (g : group) : list item := fst g :: snd g.

Lemma group_add_keys x gs :
  map gkey (group_add x gs) =
  if existsb (fun g => same_dt (fst g) x) gs then map gkey gs else map gkey gs ++ [dtk x].
Proof.
  induction gs as [|[y r] gs IH]; cbn; [reflexivity|].
  destruct (same_dt y x) eqn:E; cbn; [reflexivity|].
  rewrite IH. destruct (existsb (fun g => same_dt (fst g) x) gs); reflexivity.
Qed.

Lemma existsb_gkey x gs :
  existsb (fun g => same_dt (fst g) x) gs = true <-> In (dtk x) (map gkey gs).
Proof.
  rewrite existsb_exists, in_map_iff. split.
  - intros (g & Hg & E). exists g. apply same_dt_iff in E. split; [exact E|exact Hg].
  - intros (g & E & Hg). exists g. split; [exact Hg|]. apply same_dt_iff. exact E.
Qed.

(* what the groups look like after adding x *)
Lemma group_add_cases x : forall gs, NoDup (map gkey gs) ->
  forall g, In g (group_add x gs) ->
    (In g gs /\ gkey g <> dtk x) \/
    (exists r, g = (fst g, r ++ [x]) /\ In (fst g, r) gs /\ gkey g = dtk x) \/
    (g = (x, []) /\ ~ In (dtk x) (map gkey gs)).
Proof.
  induction gs as [|[y r] gs IH]; intros ND g Hg; cbn in Hg.
  - destruct Hg as [<-|[]]. right. right. split; [reflexivity|]. intros [].
  - cbn in ND. inversion ND as [|? ? Hy ND']; subst.
    destruct (same_dt y x) eqn:E.
    + apply same_dt_iff in E. destruct Hg as [<-|Hg].
      * right. left. exists r. cbn. split; [reflexivity|]. split; [left; reflexivity|exact E].
      * left. split; [right; exact Hg|]. intros Hk. apply Hy. unfold gkey at 1. cbn. rewrite E, <- Hk.
        apply in_map. exact Hg.
    + apply same_dt_false in E. destruct Hg as [<-|Hg].
      * left. split; [left; reflexivity|exact E].
      * destruct (IH ND' g Hg) as [[H1 H2]|[(r' & H1 & H2 & H3)|[H1 H2]]].
        -- left. split; [right; exact H1|exact H2].
        -- right. left. exists r'. split; [exact H1|]. split; [right; exact H2|exact H3].
        -- right. right. split; [exact H1|]. cbn. intros [H|H]; [apply E; exact H|contradiction].
Qed.

(* invariant of the grouping loop after the prefix [pre] *)
Definition ginv (pre : list item) (gs : list group) : Prop :=
  NoDup (map gkey gs) /\
  (forall g, In g gs -> members g = filter (same_dt (fst g)) pre) /\
  (forall x, In x pre -> In (dtk x) (map gkey gs)).

Lemma ginv_nil : ginv [] [].
Proof. split; [constructor|split]; intros ? []. Qed.

Lemma ginv_step pre gs x : ginv pre gs -> ginv (pre ++ [x]) (group_add x gs).
Proof.
  intros (ND & A & C). split; [|split].
  - rewrite group_add_keys. destruct (existsb (fun g => same_dt (fst g) x) gs) eqn:E; [exact ND|].
    apply NoDup_snoc; [exact ND|]. intros Hin. apply existsb_gkey in Hin. congruence.
  - intros g Hg. rewrite filter_app. cbn [filter].
    destruct (group_add_cases x gs ND g Hg) as [[H1 H2]|[(r & H1 & H2 & H3)|[H1 H2]]].
    + rewrite (A g H1). assert (same_dt (fst g) x = false) as -> by (apply same_dt_false; exact H2).
      rewrite app_nil_r. reflexivity.
    + destruct g as [y r0]. unfold gkey in H3. cbn [fst snd] in *. injection H1 as Hr. subst r0.
      assert (same_dt y x = true) as -> by (apply same_dt_iff; exact H3).
      specialize (A _ H2). unfold members in *. cbn [fst snd] in *. rewrite <- A. reflexivity.
    + subst g. cbn [fst]. rewrite same_dt_refl.
      assert (filter (same_dt x) pre = []) as ->; [|reflexivity].
      destruct (filter (same_dt x) pre) as [|z zs] eqn:F; [reflexivity|].
      exfalso. assert (Hz : In z (filter (same_dt x) pre)) by (rewrite F; left; reflexivity).
      apply filter_In in Hz. destruct Hz as [Hz1 Hz2]. apply same_dt_iff in Hz2.
      apply H2. rewrite Hz2. apply C. exact Hz1.
  - intros y Hy. rewrite group_add_keys. apply in_app_or in Hy.
    destruct (existsb (fun g => same_dt (fst g) x) gs) eqn:E.
    + destruct Hy as [Hy|[<-|[]]]; [apply C; exact Hy|]. apply existsb_gkey. exact E.
    + apply in_or_app. destruct Hy as [Hy|[<-|[]]]; [left; apply C; exact Hy|right; left; reflexivity].
Qed.

Lemma ginv_fold : forall l pre gs, ginv pre gs ->
  ginv (pre ++ l) (fold_left (fun gs x => group_add x gs) l gs).
Proof.
  induction l as [|x l IH]; intros pre gs H; cbn.
  - rewrite app_nil_r. exact H.
  - replace (pre ++ x :: l) with ((pre ++ [x]) ++ l) by (rewrite <- app_assoc; reflexivity).
    apply IH. apply ginv_step. exact H.
Qed.

Lemma grouping_inv l : ginv l (grouping l).
Proof. exact (ginv_fold l [] [] ginv_nil). Qed.

(* ------------------------------------------------------------------ convolve *)
Section Conv.
  Variable merge : list Z -> Z.

  Lemma conv_group_key g : dtk (conv_group merge g) = gkey g.
  Proof. destruct g as [y [|z r]]; reflexivity. Qed.

  (* what each output shape of a convolution is *)
  Definition conv_out_of (t : list item) (y : item) : Prop :=
    (In y t /\ filter (same_dt y) t = [y]) \/
    (exists f, In f t /\ (2 <= length (filter (same_dt f) t))%nat /\
       y = mkitem (newid (id f)) (st f) (en f) (ost f) (oen f)
                  (merge (map pl (filter (same_dt f) t)))).

  Lemma grouping_out t g : In g (grouping t) -> conv_out_of t (conv_group merge g).
  Proof.
    intros Hg. destruct (grouping_inv t) as (_ & A & _). specialize (A g Hg).
    destruct g as [y [|z r]]; unfold members in A; cbn [fst snd] in A.
    - left. cbn. split; [|symmetry; exact A].
      assert (In y (filter (same_dt y) t)) by (rewrite <- A; left; reflexivity).
      apply filter_In in H. tauto.
    - right. exists y. split; [|split].
      + assert (In y (filter (same_dt y) t)) by (rewrite <- A; left; reflexivity).
        apply filter_In in H. tauto.
      + rewrite <- A. cbn. lia.
      + cbn [conv_group]. rewrite <- A. reflexivity.
  Qed.

  Lemma convolve_spec t :
    let out := convolve merge t in
    chron out /\
    NoDup (map dtk out) /\
    (forall d, In d (map dtk t) <-> In d (map dtk out)) /\
    (forall x, In x t -> filter (same_dt x) t = [x] -> In x out) /\
    (forall y, In y out -> conv_out_of t y).
  Proof.
    cbv zeta. unfold convolve. destruct (has_dup t) eqn:HD.
    - set (gs := grouping t). destruct (grouping_inv t) as (ND & A & C). fold gs in ND, A, C.
      assert (P : Permutation (rewrap (map (conv_group merge) gs)) (map (conv_group merge) gs))
        by apply isort_perm.
      assert (K : map dtk (map (conv_group merge) gs) = map gkey gs).
      { rewrite map_map. apply map_ext. apply conv_group_key. }
      split; [apply rewrap_chron|]. split; [|split; [|split]].
      + eapply Permutation_NoDup; [symmetry; apply Permutation_map; exact P|]. rewrite K. exact ND.
      + intros d. split.
        * intros Hd. eapply Permutation_in; [symmetry; apply Permutation_map; exact P|].
          rewrite K. apply in_map_iff in Hd. destruct Hd as (x & <- & Hx). apply C. exact Hx.
        * intros Hd. eapply Permutation_in in Hd; [|apply Permutation_map; exact P].
          rewrite K in Hd. apply in_map_iff in Hd. destruct Hd as (g & <- & Hg).
          specialize (A g Hg). assert (In (fst g) (filter (same_dt (fst g)) t))
            by (rewrite <- A; left; reflexivity).
          apply filter_In in H. change (In (dtk (fst g)) (map dtk t)). apply in_map. tauto.
      + intros x Hx Hone. eapply Permutation_in; [symmetry; exact P|].
        specialize (C x Hx). apply in_map_iff in C. destruct C as (g & Eg & Hg).
        apply in_map_iff. exists g. split; [|exact Hg].
        specialize (A g Hg). rewrite (filter_ext _ _ (same_dt_ext _ _ Eg)) in A. rewrite Hone in A.
        destruct g as [y r]. unfold members in A. cbn [fst snd] in A. injection A as -> ->. reflexivity.
      + intros y Hy. eapply Permutation_in in Hy; [|exact P].
        apply in_map_iff in Hy. destruct Hy as (g & <- & Hg). apply grouping_out. exact Hg.
    - apply has_dup_spec in HD.
      assert (P : Permutation (rewrap t) t) by apply isort_perm.
      split; [apply rewrap_chron|]. split; [|split; [|split]].
      + eapply Permutation_NoDup; [symmetry; apply Permutation_map; exact P|exact HD].
      + intros d. split; intros Hd.
        * eapply Permutation_in; [symmetry; apply Permutation_map; exact P|exact Hd].
        * eapply Permutation_in; [apply Permutation_map; exact P|exact Hd].
      + intros x Hx _. eapply Permutation_in; [symmetry; exact P|exact Hx].
      + intros y Hy. eapply Permutation_in in Hy; [|exact P]. left. split; [exact Hy|].
        (* no duplicates: y is alone with its timestamp *)
        clear P. induction t as [|z t IH]; [destruct Hy|].
        cbn in HD. inversion HD as [|? ? Hz ND]; subst. cbn [filter].
        destruct Hy as [->|Hy].
        * rewrite same_dt_refl. f_equal.
          destruct (filter (same_dt y) t) as [|w ws] eqn:F; [reflexivity|]. exfalso.
          assert (Hw : In w (filter (same_dt y) t)) by (rewrite F; left; reflexivity).
          apply filter_In in Hw. destruct Hw as [Hw1 Hw2]. apply same_dt_iff in Hw2.
          apply Hz. fold (dtk y). rewrite Hw2. apply in_map. exact Hw1.
        * destruct (same_dt y z) eqn:E.
          -- exfalso. apply same_dt_iff in E. apply Hz. fold (dtk z). rewrite <- E. apply in_map. exact Hy.
          -- apply IH; assumption.
  Qed.
End Conv.
