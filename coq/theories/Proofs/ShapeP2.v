(* Family C05b: laws of the space-time predicates obtained by lifting a law of the spatial predicate through the
   time gate with the order laws of TimeInterval (C06b).  The spatial predicates stay universally quantified. *)
From Coq Require Import QArith.
From GV Require Import Prelude TimeM TimeP TimeP2 ShapeM ShapeP.
Open Scope Z_scope.

Section GateP2.
  Variables cs is_ : shp -> shp -> bool.

  Lemma time_int_sym a b : wf_shp a -> wf_shp b -> time_int a b = time_int b a.
  Proof.
    unfold time_int, wf_shp. destruct (sdt a) as [x|], (sdt b) as [y|]; try reflexivity.
    intros Wx Wy. apply intersects_sym; assumption.
  Qed.

  (* symmetric spatial test => symmetric space-time test *)
  Lemma st_intersects_sym a b : wf_shp a -> wf_shp b -> is_ a b = is_ b a ->
    ShapeM.intersects is_ a b = ShapeM.intersects is_ b a.
  Proof.
    intros Wa Wb S. rewrite !intersects_compose, S, (time_int_sym a b Wa Wb). reflexivity.
  Qed.

  Lemma time_sup_imp_int a b : wf_shp a -> wf_shp b -> time_sup a b = true -> time_int a b = true.
  Proof.
    unfold time_sup, time_int, wf_shp. destruct (sdt a) as [x|], (sdt b) as [y|]; try reflexivity.
    intros Wx Wy H. unfold issuperset in H.
    rewrite intersects_sym by assumption. apply issubset_intersects; assumption.
  Qed.

  (* spatial containment implies spatial intersection => the same in space-time *)
  Lemma st_contains_imp_intersects a b : wf_shp a -> wf_shp b ->
    (cs a b = true -> is_ a b = true) ->
    contains cs a b = true -> ShapeM.intersects is_ a b = true.
  Proof.
    intros Wa Wb Hs. rewrite contains_compose, intersects_compose, !andb_true_iff.
    intros [H1 H2]. split; [apply Hs; exact H1|apply time_sup_imp_int; assumption].
  Qed.

  (* transitivity of the temporal factor needs the middle shape to carry time bounds
     whenever both ends do *)
  Lemma time_sup_trans a b c : wf_shp a -> wf_shp b -> wf_shp c ->
    (sdt b = None -> sdt a = None \/ sdt c = None) ->
    time_sup a b = true -> time_sup b c = true -> time_sup a c = true.
  Proof.
    unfold time_sup, wf_shp.
    destruct (sdt a) as [x|], (sdt b) as [y|], (sdt c) as [z|]; try reflexivity.
    - intros Wx Wy Wz _ H1 H2. unfold issuperset in *. apply (issubset_trans z y x); assumption.
    - intros _ _ _ H. destruct (H eq_refl); discriminate.
  Qed.

  Lemma st_contains_trans a b c : wf_shp a -> wf_shp b -> wf_shp c ->
    (sdt b = None -> sdt a = None \/ sdt c = None) ->
    (cs a b = true -> cs b c = true -> cs a c = true) ->
    contains cs a b = true -> contains cs b c = true -> contains cs a c = true.
  Proof.
    intros Wa Wb Wc Hm Hs. rewrite !contains_compose, !andb_true_iff.
    intros [H1 H2] [H3 H4]. split; [apply Hs; assumption|].
    apply (time_sup_trans a b c); assumption.
  Qed.

  (* without that side condition transitivity fails for EVERY spatial predicate that says yes *)
  Lemma st_contains_trans_needs_middle_dt :
    exists a b c, wf_shp a /\ wf_shp b /\ wf_shp c /\
      contains (fun _ _ => true) a b = true /\ contains (fun _ _ => true) b c = true /\
      contains (fun _ _ => true) a c = false.
  Proof.
    exists (mkshp (Some (mkiv 0 1)) 1), (mkshp None 2), (mkshp (Some (mkiv 5 6)) 3).
    unfold wf_shp, wf. cbn. repeat split; lia.
  Qed.

  (* widening the receiver's time bounds (same spatial answer) keeps a yes *)
  Lemma st_contains_mono a a' b x x' : wf_shp b -> wf x -> wf x' ->
    sdt a = Some x -> sdt a' = Some x' -> issubset x x' = true -> cs a' b = cs a b ->
    contains cs a b = true -> contains cs a' b = true.
  Proof.
    intros Wb Wx Wx' Ea Ea' S Hs. rewrite !contains_compose, Hs, !andb_true_iff.
    intros [H1 H2]. split; [exact H1|]. unfold time_sup, wf_shp in *. rewrite Ea in H2. rewrite Ea'.
    destruct (sdt b) as [y|]; [|reflexivity]. unfold issuperset in *.
    apply (issubset_trans y x x'); assumption.
  Qed.

  Lemma st_intersects_mono a a' b x x' : wf_shp b -> wf x -> wf x' ->
    sdt a = Some x -> sdt a' = Some x' -> issubset x x' = true -> is_ a' b = is_ a b ->
    ShapeM.intersects is_ a b = true -> ShapeM.intersects is_ a' b = true.
  Proof.
    intros Wb Wx Wx' Ea Ea' S Hs. rewrite !intersects_compose, Hs, !andb_true_iff.
    intros [H1 H2]. split; [exact H1|]. unfold time_int, wf_shp in *. rewrite Ea in H2. rewrite Ea'.
    destruct (sdt b) as [y|]; [|reflexivity].
    apply (intersects_mono x x' y); assumption.
  Qed.

  (* two shapes whose time sets are disjoint never intersect and never contain one another *)
  Lemma st_disjoint_time a b x y : sdt a = Some x -> sdt b = Some y -> wf x -> wf y ->
    isdisjoint x y = true ->
    ShapeM.intersects is_ a b = false /\ contains cs a b = false.
  Proof.
    intros Ea Eb Wx Wy D. rewrite intersects_compose, contains_compose.
    unfold time_int, time_sup. rewrite Ea, Eb.
    assert (I : TimeM.intersects x y = false).
    { rewrite intersects_negb by assumption. rewrite D. reflexivity. }
    rewrite I, andb_false_r. split; [reflexivity|].
    destruct (issuperset x y) eqn:S; [|apply andb_false_r].
    unfold issuperset in S. apply (issubset_intersects y x Wy Wx) in S.
    rewrite intersects_sym in S by assumption. rewrite I in S. discriminate.
  Qed.

  (* the datetime forms of the time tests are the zero-length interval forms *)
  Lemma intersects_time_instant s t : wf_shp s ->
    intersects_time s (mkiv t t) = intersects_time_dt s t.
  Proof.
    unfold intersects_time, intersects_time_dt, wf_shp, intersects_dt. destruct (sdt s) as [d|]; [|reflexivity].
    intros W. apply intersects_instant. exact W.
  Qed.

  Lemma contains_time_instant s t : contains_time s (mkiv t t) = contains_time_dt s t.
  Proof.
    unfold contains_time, contains_time_dt, contains_iv, issuperset. destruct (sdt s) as [d|]; [|reflexivity].
    apply issubset_instant.
  Qed.
End GateP2.
