(* C01: the even-odd interior IS the geometric interior for the convex families the library
   builds all the time.  Part A: axis-aligned rectangles (GeoBox.bounding_coords / to_polygon,
   geohash cells, circumscribing rectangles).  Part B: triangles.  Over all integers.
   (The general polygonal Jordan curve theorem stays unproved; GeomP7.v extends Part B to
   every strictly convex counter-clockwise ring.) *)
From GV Require Import Prelude GeomM GeomP GeomP2 GeomP3 GeomP4.
Open Scope Z_scope.

(* ================================================================== A. rectangles *)

(* GeoBox.bounding_coords without its closing repeat: nw, sw, se, ne (counter-clockwise) *)
Definition rect (x0 y0 x1 y1 : Z) : list pt := [(x0, y1); (x0, y0); (x1, y0); (x1, y1)].

(* the self-closing list GeoBox.bounding_coords returns, from the two stored corners *)
Definition box_ring (nw se : pt) : list pt :=
  [nw; (px nw, py se); se; (px se, py nw); nw].

Lemma box_ring_rect nw se : box_ring nw se = reclose (rect (px nw) (py se) (px se) (py nw)).
Proof. destruct nw, se. reflexivity. Qed.

(* the geometric open rectangle and its frame *)
Definition open_box (x0 y0 x1 y1 : Z) (p : pt) : Prop := x0 < px p < x1 /\ y0 < py p < y1.
Definition on_frame (x0 y0 x1 y1 : Z) (p : pt) : Prop :=
  (x0 <= px p <= x1 /\ y0 <= py p <= y1) /\
  (px p = x0 \/ px p = x1 \/ py p = y0 \/ py p = y1).
Definition on_frameb (x0 y0 x1 y1 : Z) (p : pt) : bool :=
  (x0 <=? px p) && (px p <=? x1) && (y0 <=? py p) && (py p <=? y1) &&
  ((px p =? x0) || (px p =? x1) || (py p =? y0) || (py p =? y1)).

Lemma on_frameb_spec x0 y0 x1 y1 p : on_frameb x0 y0 x1 y1 p = true <-> on_frame x0 y0 x1 y1 p.
Proof. unfold on_frameb, on_frame. lia. Qed.

(* closed box = open box + frame, disjointly *)
Lemma closed_open_frame x0 y0 x1 y1 p :
  box_closed (x0, y1) (x1, y0) p <-> open_box x0 y0 x1 y1 p \/ on_frame x0 y0 x1 y1 p.
Proof. unfold box_closed, open_box, on_frame. cbn [px py fst snd]. lia. Qed.

Lemma open_not_frame x0 y0 x1 y1 p : open_box x0 y0 x1 y1 p -> ~ on_frame x0 y0 x1 y1 p.
Proof. unfold open_box, on_frame. lia. Qed.

(* ------------------------------------------------------------------ axis-parallel edges *)

Lemma on_seg_vert p x ya yb :
  on_seg p (x, ya) (x, yb) <-> px p = x /\ Z.min ya yb <= py p <= Z.max ya yb.
Proof.
  unfold on_seg, cross. cbn [px py fst snd]. rewrite Z.min_id, Z.max_id. split.
  - intros (_ & Hx & Hy). lia.
  - intros (Hx & Hy). rewrite Hx. split; [ring|lia].
Qed.

Lemma on_seg_horiz p xa xb y :
  on_seg p (xa, y) (xb, y) <-> py p = y /\ Z.min xa xb <= px p <= Z.max xa xb.
Proof.
  unfold on_seg, cross. cbn [px py fst snd]. rewrite Z.min_id, Z.max_id. split.
  - intros (_ & Hx & Hy). lia.
  - intros (Hy & Hx). rewrite Hy. split; [ring|lia].
Qed.

(* a vertical edge is crossed east of p iff it straddles p's latitude and lies east of p *)
Lemma east_z_vert p x ya yb :
  east_z p ((x, ya), (x, yb)) = straddles p (x, ya) (x, yb) && (px p <? x).
Proof.
  unfold east_z. destruct (straddles p (x, ya) (x, yb)) eqn:Es; [|reflexivity]. cbn [andb].
  apply straddles_cases in Es. unfold cross. cbn [px py fst snd] in *.
  replace (((x - x) * (py p - ya) - (yb - ya) * (px p - x)) * (yb - ya))
    with ((x - px p) * ((yb - ya) * (yb - ya))) by ring.
  assert (Hsq : 0 < (yb - ya) * (yb - ya)) by (destruct Es; [apply Z.mul_pos_pos|apply Z.mul_neg_neg]; lia).
  destruct (px p <? x) eqn:E.
  - assert (0 < (x - px p) * ((yb - ya) * (yb - ya))) by (apply Z.mul_pos_pos; lia). lia.
  - assert ((x - px p) * ((yb - ya) * (yb - ya)) <= 0) by (apply Z.mul_nonpos_nonneg; lia). lia.
Qed.

Lemma east_z_horiz p xa xb y : east_z p ((xa, y), (xb, y)) = false.
Proof.
  unfold east_z, straddles. cbn [px py fst snd]. destruct (py p <? y); reflexivity.
Qed.

(* ------------------------------------------------------------------ the rectangle ring *)

Lemma cyc_edges_rect x0 y0 x1 y1 : cyc_edges (rect x0 y0 x1 y1) =
  [((x0, y1), (x0, y0)); ((x0, y0), (x1, y0)); ((x1, y0), (x1, y1)); ((x1, y1), (x0, y1))].
Proof. reflexivity. Qed.

Theorem on_boundary_rect x0 y0 x1 y1 p : x0 <= x1 -> y0 <= y1 ->
  (on_boundary p (rect x0 y0 x1 y1) <-> on_frame x0 y0 x1 y1 p).
Proof.
  intros Hx Hy. unfold on_boundary. rewrite cyc_edges_rect. unfold on_frame. split.
  - intros (e & He & Ho). cbn [In] in He.
    destruct He as [<-|[<-|[<-|[<-|[]]]]]; cbn [fst snd] in Ho;
      first [apply on_seg_vert in Ho|apply on_seg_horiz in Ho]; lia.
  - intros (Hin & Hon).
    destruct (Z.eq_dec (px p) x0) as [E0|N0].
    { exists ((x0, y1), (x0, y0)). split; [left; reflexivity|]. cbn [fst snd]. apply on_seg_vert. lia. }
    destruct (Z.eq_dec (px p) x1) as [E1|N1].
    { exists ((x1, y0), (x1, y1)). split; [right; right; left; reflexivity|]. cbn [fst snd].
      apply on_seg_vert. lia. }
    destruct (Z.eq_dec (py p) y0) as [E2|N2].
    { exists ((x0, y0), (x1, y0)). split; [right; left; reflexivity|]. cbn [fst snd].
      apply on_seg_horiz. lia. }
    exists ((x1, y1), (x0, y1)). split; [right; right; right; left; reflexivity|]. cbn [fst snd].
    apply on_seg_horiz. lia.
Qed.

(* the even-odd count of the rectangle: the half-open box [x0,x1) x [y0,y1) *)
Lemma evenodd_rect x0 y0 x1 y1 p : x0 <= x1 -> y0 <= y1 ->
  (evenodd p (rect x0 y0 x1 y1) <-> x0 <= px p < x1 /\ y0 <= py p < y1).
Proof.
  intros Hx Hy. rewrite evenodd_par, cyc_edges_rect. cbn [par fold_right].
  rewrite !east_z_vert, !east_z_horiz. unfold straddles. cbn [px py fst snd].
  destruct (py p <? y1) eqn:?, (py p <? y0) eqn:?, (px p <? x0) eqn:?, (px p <? x1) eqn:?;
    cbn; lia.
Qed.

(* the strict even-odd interior of the rectangle ring is the geometric open rectangle *)
Theorem strict_in_rect x0 y0 x1 y1 p : x0 < x1 -> y0 < y1 ->
  (strict_in p (rect x0 y0 x1 y1) <-> open_box x0 y0 x1 y1 p).
Proof.
  intros Hx Hy. unfold strict_in.
  rewrite on_boundary_rect, evenodd_rect by lia. unfold on_frame, open_box. lia.
Qed.

(* ... whatever vertex the outline starts from, whichever way it is wound, closed or not,
   and after the constructor's normalisation *)
Theorem strict_in_rect_any x0 y0 x1 y1 p k h : x0 < x1 -> y0 < y1 ->
  (strict_in p (rot k (rect x0 y0 x1 y1)) <-> open_box x0 y0 x1 y1 p) /\
  (strict_in p (rot k (rev (rect x0 y0 x1 y1))) <-> open_box x0 y0 x1 y1 p) /\
  (strict_in p (norm_outline h (reclose (rot k (rect x0 y0 x1 y1)))) <-> open_box x0 y0 x1 y1 p) /\
  (strict_in p (norm_outline h (reclose (rot k (rev (rect x0 y0 x1 y1))))) <-> open_box x0 y0 x1 y1 p).
Proof.
  intros Hx Hy. pose proof (strict_in_rect x0 y0 x1 y1 p Hx Hy) as H.
  split; [|split; [|split]]; rewrite ?strict_in_norm, ?strict_in_rot, ?strict_in_rev; apply H.
Qed.

Theorem on_boundary_rect_any x0 y0 x1 y1 p k : x0 <= x1 -> y0 <= y1 ->
  (on_boundary p (reclose (rot k (rect x0 y0 x1 y1))) <-> on_frame x0 y0 x1 y1 p) /\
  (on_boundary p (reclose (rot k (rev (rect x0 y0 x1 y1)))) <-> on_frame x0 y0 x1 y1 p).
Proof.
  intros Hx Hy. pose proof (on_boundary_rect x0 y0 x1 y1 p Hx Hy) as H.
  split; rewrite on_boundary_reclose, on_boundary_rot, ?on_boundary_rev; apply H.
Qed.

(* ------------------------------------------------------------------ the code on rectangles *)

Lemma west_ok_rect w x0 y0 x1 y1 : x0 <= x1 -> w <= x0 -> west_ok w (rect x0 y0 x1 y1).
Proof.
  intros Hx Hw v Hv. cbn in Hv. repeat (destruct Hv as [<-|Hv]; [cbn; lia|]). destruct Hv.
Qed.

Lemma west_ok_rot w k o : west_ok w o -> west_ok w (rot k o).
Proof. intros H v Hv. apply H. apply in_rot in Hv. exact Hv. Qed.
Lemma west_ok_rev w o : west_ok w o -> west_ok w (rev o).
Proof. intros H v Hv. apply H. apply in_rev in Hv. exact Hv. Qed.

(* GeoPolygon built from any rotation / either winding of the rectangle outline *)
Theorem pip_rect w x0 y0 x1 y1 p k h : x0 < x1 -> y0 < y1 -> w <= x0 -> w <= px p ->
  (pip w p (norm_outline h (reclose (rot k (rect x0 y0 x1 y1)))) = true <-> open_box x0 y0 x1 y1 p) /\
  (pip w p (norm_outline h (reclose (rot k (rev (rect x0 y0 x1 y1))))) = true <-> open_box x0 y0 x1 y1 p).
Proof.
  intros Hx Hy Hw Hp.
  assert (W : west_ok w (rect x0 y0 x1 y1)) by (apply west_ok_rect; lia).
  split; rewrite pip_norm; auto using west_ok_rot, west_ok_rev.
  - rewrite strict_in_rot. apply strict_in_rect; assumption.
  - rewrite strict_in_rot, strict_in_rev. apply strict_in_rect; assumption.
Qed.

(* the raw list GeoBox.bounding_coords returns, before and after GeoPolygon.__init__ *)
Theorem pip_box_ring w nw se p h : px nw < px se -> py se < py nw -> w <= px nw -> w <= px p ->
  (pip w p (box_ring nw se) = true <-> open_box (px nw) (py se) (px se) (py nw) p) /\
  (pip w p (norm_outline h (box_ring nw se)) = true <-> open_box (px nw) (py se) (px se) (py nw) p).
Proof.
  intros Hx Hy Hw Hp. rewrite box_ring_rect.
  assert (W : west_ok w (rect (px nw) (py se) (px se) (py nw))) by (apply west_ok_rect; lia).
  split.
  - rewrite pip_true_iff; [|intros v Hv; apply W; apply (proj1 (in_reclose _ _)) in Hv; exact Hv|assumption].
    rewrite strict_in_reclose. apply strict_in_rect; assumption.
  - rewrite pip_norm by assumption. apply strict_in_rect; assumption.
Qed.

Theorem poly_contains_rect w x0 y0 x1 y1 p k h : x0 < x1 -> y0 < y1 -> w <= x0 -> w <= px p ->
  (poly_contains w (norm_outline h (reclose (rot k (rect x0 y0 x1 y1)))) [] p = true
     <-> open_box x0 y0 x1 y1 p) /\
  (poly_contains w (norm_outline h (reclose (rot k (rev (rect x0 y0 x1 y1))))) [] p = true
     <-> open_box x0 y0 x1 y1 p).
Proof.
  intros Hx Hy Hw Hp.
  assert (W : west_ok w (rect x0 y0 x1 y1)) by (apply west_ok_rect; lia).
  split; rewrite poly_contains_norm; auto using west_ok_rot, west_ok_rev; try (intros ? []).
  - rewrite strict_in_rot, strict_in_rect by assumption. split; [tauto|]. intros H; split; [exact H|intros ? []].
  - rewrite strict_in_rot, strict_in_rev, strict_in_rect by assumption.
    split; [tauto|]. intros H; split; [exact H|intros ? []].
Qed.

(* GeoBox (closed) against the polygon made of its own outline (open): they agree on every
   coordinate off the frame and differ exactly on the frame (box: contained, polygon: not) *)
Theorem box_vs_polygon w nw se p h : px nw < px se -> py se < py nw -> w <= px nw -> w <= px p ->
  let x0 := px nw in let y0 := py se in let x1 := px se in let y1 := py nw in
  let poly := poly_contains w (norm_outline h (box_ring nw se)) [] p in
  let box := box_contains w nw se [] p in
  (~ on_frame x0 y0 x1 y1 p -> poly = box) /\
  (on_frame x0 y0 x1 y1 p -> box = true /\ poly = false) /\
  poly = box && negb (on_frameb x0 y0 x1 y1 p) /\
  (box = true <-> box_closed nw se p) /\ (poly = true <-> open_box x0 y0 x1 y1 p).
Proof.
  intros Hx Hy Hw Hp x0 y0 x1 y1 poly box.
  assert (W : west_ok w (rect x0 y0 x1 y1)) by (apply west_ok_rect; unfold x0, x1; lia).
  assert (Hpoly : poly = true <-> open_box x0 y0 x1 y1 p).
  { unfold poly. rewrite box_ring_rect. fold x0 y0 x1 y1.
    rewrite poly_contains_norm; [|assumption|intros ? []|assumption].
    rewrite strict_in_rect by assumption. split; [tauto|]. intros H; split; [exact H|intros ? []]. }
  assert (Hbox : box = true <-> box_closed nw se p).
  { unfold box. rewrite box_contains_spec; [|intros ? []|assumption].
    split; [tauto|]. intros H; split; [exact H|intros ? []]. }
  assert (Hc : box_closed nw se p <-> open_box x0 y0 x1 y1 p \/ on_frame x0 y0 x1 y1 p).
  { rewrite <- closed_open_frame. unfold x0, y0, x1, y1. destruct nw, se. reflexivity. }
  pose proof (open_not_frame x0 y0 x1 y1 p) as Hd.
  pose proof (on_frameb_spec x0 y0 x1 y1 p) as Hf.
  split; [|split; [|split; [|split; assumption]]].
  - intros Hn. apply bool_eq_iff. tauto.
  - intros Ho. split; [tauto|]. destruct poly; [|reflexivity]. tauto.
  - destruct poly, box, (on_frameb x0 y0 x1 y1 p); cbn; try reflexivity; exfalso; intuition congruence.
Qed.

(* non-vacuity *)
Lemma nonvacuous_rect :
  let nw := (2, 9) in let se := (7, 4) in
  px nw < px se /\ py se < py nw /\ -360 <= px nw /\
  pip (-360) (3, 5) (norm_outline false (box_ring nw se)) = true /\     (* inside *)
  pip (-360) (2, 5) (norm_outline false (box_ring nw se)) = false /\    (* west edge *)
  pip (-360) (7, 9) (norm_outline false (box_ring nw se)) = false /\    (* ne corner *)
  pip (-360) (4, 4) (norm_outline false (box_ring nw se)) = false /\    (* south edge *)
  pip (-360) (8, 5) (norm_outline false (box_ring nw se)) = false /\    (* outside *)
  box_contains (-360) nw se [] (2, 5) = true /\ box_contains (-360) nw se [] (7, 9) = true /\
  box_contains (-360) nw se [] (8, 5) = false.
Proof. cbn [px py fst snd]. repeat split; try lia; vm_compute; reflexivity. Qed.

(* ================================================================== B. triangles *)

(* In coordinates relative to the query point (X = vertex - p): the east-crossing test of an
   edge and the PERTURBED left test.  [Lz] says that the point p + (d, e), 0 < e << d << 1,
   is strictly left of the directed edge: strictly left, or on its line with the edge running
   downward, or horizontally eastward.  This is exactly what the half-open straddle rule of the
   crossing count computes on a convex ring, for EVERY p, boundary included. *)

Definition Ez (X2 Y2 s : Z) : bool := negb (Bool.eqb (0 <? X2) (0 <? Y2)) && (0 <? s * (Y2 - X2)).
Definition Lz (X1 X2 Y1 Y2 s : Z) : bool :=
  (0 <? s) || ((s =? 0) && ((Y2 <? X2) || ((Y2 =? X2) && (X1 <? Y1)))).
Definition Lp (X1 X2 Y1 Y2 s : Z) : Prop := 0 < s \/ (s = 0 /\ (Y2 < X2 \/ (Y2 = X2 /\ X1 < Y1))).
Lemma Lz_spec X1 X2 Y1 Y2 s : Lz X1 X2 Y1 Y2 s = true <-> Lp X1 X2 Y1 Y2 s.
Proof. unfold Lz, Lp. lia. Qed.

Lemma Ez_up X2 Y2 s : X2 <= 0 -> 0 < Y2 -> Ez X2 Y2 s = (0 <? s).
Proof.
  intros. unfold Ez. replace (0 <? X2) with false by lia. replace (0 <? Y2) with true by lia. cbn.
  destruct (0 <? s) eqn:E.
  - assert (0 < s * (Y2 - X2)) by (apply Z.mul_pos_pos; lia). lia.
  - assert (s * (Y2 - X2) <= 0) by (apply Z.mul_nonpos_nonneg; lia). lia.
Qed.
Lemma Ez_down X2 Y2 s : 0 < X2 -> Y2 <= 0 -> Ez X2 Y2 s = (s <? 0).
Proof.
  intros. unfold Ez. replace (0 <? X2) with true by lia. replace (0 <? Y2) with false by lia. cbn.
  destruct (s <? 0) eqn:E.
  - assert (0 < s * (Y2 - X2)) by (apply Z.mul_neg_neg; lia). lia.
  - assert (s * (Y2 - X2) <= 0) by (apply Z.mul_nonneg_nonpos; lia). lia.
Qed.
Lemma Ez_same X2 Y2 s : (0 < X2 <-> 0 < Y2) -> Ez X2 Y2 s = false.
Proof. intros. unfold Ez. destruct (0 <? X2) eqn:?, (0 <? Y2) eqn:?; cbn; try reflexivity; lia. Qed.

(* the triangle, one vertex on one side of p's latitude and two on the other (or all on one) *)
Section T.
  Variables A1 A2 B1 B2 C1 C2 : Z.
  Let sab := A1 * B2 - A2 * B1.
  Let sbc := B1 * C2 - B2 * C1.
  Let sca := C1 * A2 - C2 * A1.
  Hypothesis Hpos : 0 < sab + sbc + sca.

  Lemma idy : A2 * sbc + B2 * sca + C2 * sab = 0.
  Proof. unfold sab, sbc, sca. ring. Qed.

  Lemma c3_I : 0 < A2 -> B2 <= 0 -> C2 <= 0 -> 0 <= sab -> 0 < sca -> Lp B1 B2 C1 C2 sbc.
  Proof.
    intros. pose proof idy. unfold Lp.
    assert (0 <= (- B2) * sca) by (apply Z.mul_nonneg_nonneg; lia).
    assert (0 <= (- C2) * sab) by (apply Z.mul_nonneg_nonneg; lia).
    assert (0 <= A2 * sbc) by lia.
    assert (0 <= sbc) by nia.
    destruct (Z.eq_dec sbc 0) as [E|]; [|left; lia]. right. split; [assumption|].
    rewrite E in *. assert (B2 * sca = 0) by lia. assert (B2 = 0) by nia.
    destruct (Z.eq_dec C2 0) as [E2|]; [|left; lia]. right. split; [lia|].
    unfold sab, sca in *. subst B2 C2. nia.
  Qed.

  Lemma c3_II : 0 < A2 -> B2 <= 0 -> C2 <= 0 -> sab < 0 -> sca <= 0 -> False.
  Proof.
    intros. pose proof idy.
    assert (0 <= B2 * sca) by (apply Z.mul_nonpos_nonpos; lia).
    assert (0 <= C2 * sab) by (apply Z.mul_nonpos_nonpos; lia).
    assert (A2 * sbc <= 0) by lia. assert (sbc <= 0) by nia. lia.
  Qed.

  Lemma c4_I : A2 <= 0 -> 0 < B2 -> 0 < C2 -> 0 < sab -> 0 <= sca -> 0 < sbc.
  Proof.
    intros. pose proof idy.
    assert (0 <= B2 * sca) by (apply Z.mul_nonneg_nonneg; lia).
    assert (0 < C2 * sab) by (apply Z.mul_pos_pos; lia).
    assert (A2 * sbc < 0) by lia. nia.
  Qed.

  Lemma c4_II : A2 <= 0 -> 0 < B2 -> 0 < C2 -> sab <= 0 -> sca < 0 -> False.
  Proof.
    intros. pose proof idy.
    assert (B2 * sca < 0) by (apply Z.mul_pos_neg; lia).
    assert (C2 * sab <= 0) by (apply Z.mul_nonneg_nonpos; lia).
    assert (0 < A2 * sbc) by lia. assert (sbc < 0) by nia. lia.
  Qed.

  Lemma c1 : 0 < A2 -> 0 < B2 -> 0 < C2 -> 0 <= sab -> 0 <= sbc -> 0 <= sca -> False.
  Proof.
    intros. pose proof idy.
    assert (0 <= A2 * sbc) by (apply Z.mul_nonneg_nonneg; lia).
    assert (0 <= B2 * sca) by (apply Z.mul_nonneg_nonneg; lia).
    assert (0 <= C2 * sab) by (apply Z.mul_nonneg_nonneg; lia).
    assert (A2 * sbc = 0) by lia. assert (B2 * sca = 0) by lia. assert (C2 * sab = 0) by lia.
    assert (sbc = 0) by nia. assert (sca = 0) by nia. assert (sab = 0) by nia. lia.
  Qed.

  Lemma c2 : A2 <= 0 -> B2 <= 0 -> C2 <= 0 ->
    Lp A1 A2 B1 B2 sab -> Lp B1 B2 C1 C2 sbc -> Lp C1 C2 A1 A2 sca -> False.
  Proof.
    intros HA HB HC La Lb Lc. pose proof idy as I.
    assert (0 <= sab) by (destruct La; lia). assert (0 <= sbc) by (destruct Lb; lia).
    assert (0 <= sca) by (destruct Lc; lia).
    assert (A2 * sbc <= 0) by (apply Z.mul_nonpos_nonneg; lia).
    assert (B2 * sca <= 0) by (apply Z.mul_nonpos_nonneg; lia).
    assert (C2 * sab <= 0) by (apply Z.mul_nonpos_nonneg; lia).
    assert (E1 : A2 * sbc = 0) by lia. assert (E2 : B2 * sca = 0) by lia. assert (E3 : C2 * sab = 0) by lia.
    apply Z.mul_eq_0 in E1, E2, E3.
    unfold Lp in *. unfold sab, sbc, sca in *.
    destruct E1 as [E1|E1], E2 as [E2|E2], E3 as [E3|E3]; try subst A2; try subst B2; try subst C2;
      try (timeout 60 nia).
  Qed.

  Lemma Lp_nonneg X1 X2 Y1 Y2 s : Lp X1 X2 Y1 Y2 s -> 0 <= s.
  Proof. unfold Lp. lia. Qed.

  Lemma T_core_z : (0 < B2 <-> 0 < C2) ->
    xorb (Ez A2 B2 sab) (xorb (Ez B2 C2 sbc) (Ez C2 A2 sca)) =
    Lz A1 A2 B1 B2 sab && Lz B1 B2 C1 C2 sbc && Lz C1 C2 A1 A2 sca.
  Proof.
    intros Hbc. rewrite (Ez_same B2 C2) by assumption. cbn [xorb].
    pose proof (Lz_spec A1 A2 B1 B2 sab) as Sa. pose proof (Lz_spec B1 B2 C1 C2 sbc) as Sb.
    pose proof (Lz_spec C1 C2 A1 A2 sca) as Sc.
    destruct (Z.lt_ge_cases 0 A2) as [HA|HA]; destruct (Z.lt_ge_cases 0 B2) as [HB|HB].
    - (* all above *)
      rewrite !Ez_same by lia. cbn [xorb]. symmetry.
      destruct (Lz A1 A2 B1 B2 sab) eqn:Ea; [|reflexivity].
      destruct (Lz B1 B2 C1 C2 sbc) eqn:Eb; [|reflexivity].
      destruct (Lz C1 C2 A1 A2 sca) eqn:Ec; [|reflexivity]. exfalso.
      apply (c1 HA HB); [lia|eapply Lp_nonneg; apply Sa; reflexivity|
                          eapply Lp_nonneg; apply Sb; reflexivity|eapply Lp_nonneg; apply Sc; reflexivity].
    - (* a above; b, c not *)
      rewrite Ez_down, Ez_up by lia.
      pose proof (c3_I HA HB) as H1. pose proof (c3_II HA HB) as H2.
      assert (Ea : Lz A1 A2 B1 B2 sab = (0 <=? sab)) by (unfold Lz; lia).
      assert (Ec : Lz C1 C2 A1 A2 sca = (0 <? sca)) by (unfold Lz; lia).
      rewrite Ea, Ec. destruct (Lz B1 B2 C1 C2 sbc) eqn:Eb.
      + destruct (sab <? 0) eqn:?, (0 <? sca) eqn:?, (0 <=? sab) eqn:?; cbn; try reflexivity; exfalso; lia.
      + destruct (sab <? 0) eqn:?, (0 <? sca) eqn:?, (0 <=? sab) eqn:?; cbn; try reflexivity; exfalso;
          try lia.
        assert (Lp B1 B2 C1 C2 sbc) by (apply H1; lia). apply Sb in H. discriminate.
    - (* a not above; b, c above *)
      rewrite Ez_up, Ez_down by lia.
      pose proof (c4_I HA HB) as H1. pose proof (c4_II HA HB) as H2.
      assert (Ea : Lz A1 A2 B1 B2 sab = (0 <? sab)) by (unfold Lz; lia).
      assert (Ec : Lz C1 C2 A1 A2 sca = (0 <=? sca)) by (unfold Lz; lia).
      rewrite Ea, Ec. destruct (Lz B1 B2 C1 C2 sbc) eqn:Eb.
      + destruct (sca <? 0) eqn:?, (0 <? sab) eqn:?, (0 <=? sca) eqn:?; cbn; try reflexivity; exfalso; lia.
      + destruct (sca <? 0) eqn:?, (0 <? sab) eqn:?, (0 <=? sca) eqn:?; cbn; try reflexivity; exfalso;
          try lia.
        assert (0 < sbc) by (apply H1; lia). unfold Lz in Eb. lia.
    - (* none above *)
      rewrite !Ez_same by lia. cbn [xorb]. symmetry.
      destruct (Lz A1 A2 B1 B2 sab) eqn:Ea; [|reflexivity].
      destruct (Lz B1 B2 C1 C2 sbc) eqn:Eb; [|reflexivity].
      destruct (Lz C1 C2 A1 A2 sca) eqn:Ec; [|reflexivity]. exfalso.
      apply (c2 HA HB); [lia|apply Sa; reflexivity|apply Sb; reflexivity|apply Sc; reflexivity].
  Qed.
End T.

(* ------------------------------------------------------------------ point level *)

Definition lpos (p : pt) (e : seg) : bool :=
  let '(u, v) := e in
  (0 <? cross u v p) ||
  ((cross u v p =? 0) && ((py v <? py u) || ((py v =? py u) && (px u <? px v)))).

Lemma cross_rel a b p :
  cross a b p = (px a - px p) * (py b - py p) - (py a - py p) * (px b - px p).
Proof. unfold cross. ring. Qed.

Lemma cross_sum a b c p : cross a b p + cross b c p + cross c a p = cross a b c.
Proof. unfold cross. ring. Qed.

Lemma cross_cyc a b c : cross b c a = cross a b c.
Proof. unfold cross. ring. Qed.

Lemma east_z_Ez p a b : east_z p (a, b) = Ez (py a - py p) (py b - py p) (cross a b p).
Proof.
  unfold east_z, Ez, straddles.
  replace (py b - py p - (py a - py p)) with (py b - py a) by ring.
  replace (0 <? py a - py p) with (py p <? py a) by lia.
  replace (0 <? py b - py p) with (py p <? py b) by lia. reflexivity.
Qed.

Lemma lpos_Lz p a b :
  lpos p (a, b) = Lz (px a - px p) (py a - py p) (px b - px p) (py b - py p) (cross a b p).
Proof.
  unfold lpos, Lz.
  replace (py b - py p <? py a - py p) with (py b <? py a) by lia.
  replace (py b - py p =? py a - py p) with (py b =? py a) by lia.
  replace (px a - px p <? px b - px p) with (px a <? px b) by lia. reflexivity.
Qed.

Lemma lpos_pos p a b : 0 < cross a b p -> lpos p (a, b) = true.
Proof. intros. unfold lpos. lia. Qed.
Lemma lpos_nonneg p a b : lpos p (a, b) = true -> 0 <= cross a b p.
Proof. unfold lpos. lia. Qed.

(* the perturbed test is antisymmetric: exactly one of the two directions of a proper edge *)
Lemma lpos_swap p a b : a <> b -> lpos p (b, a) = negb (lpos p (a, b)).
Proof.
  intros H. unfold lpos. rewrite (cross_swap a b p).
  assert (px a <> px b \/ py a <> py b).
  { destruct a, b. cbn [px py fst snd]. destruct (Z.eq_dec z z1), (Z.eq_dec z0 z2); try lia.
    subst. congruence. }
  lia.
Qed.
Lemma lpos_not_both p a b : lpos p (a, b) && lpos p (b, a) = false.
Proof. unfold lpos. rewrite (cross_swap a b p). lia. Qed.

Lemma tri_core p a b c : 0 < cross a b c -> (py p < py b <-> py p < py c) ->
  xorb (east_z p (a, b)) (xorb (east_z p (b, c)) (east_z p (c, a))) =
  lpos p (a, b) && lpos p (b, c) && lpos p (c, a).
Proof.
  intros HD Hbc. rewrite !east_z_Ez, !lpos_Lz, !cross_rel.
  apply T_core_z; [|lia]. rewrite <- !cross_rel, cross_sum. exact HD.
Qed.

(* THE TRIANGLE, every p (boundary included): the crossing count of a counter-clockwise
   triangle is the perturbed membership test *)
Theorem tri_par p a b c : 0 < cross a b c ->
  par (east_z p) (cyc_edges [a; b; c]) = lpos p (a, b) && lpos p (b, c) && lpos p (c, a).
Proof.
  intros HD. change (cyc_edges [a; b; c]) with [(a, b); (b, c); (c, a)]. cbn [par fold_right].
  rewrite xorb_false_r.
  destruct (Z.ltb_spec (py p) (py a)) as [Ha|Ha]; destruct (Z.ltb_spec (py p) (py b)) as [Hb|Hb];
    destruct (Z.ltb_spec (py p) (py c)) as [Hc|Hc];
    first [ apply tri_core; [assumption|lia]
          | pose proof (tri_core p b c a ltac:(rewrite cross_cyc; exact HD) ltac:(lia)) as H;
            destruct (east_z p (a, b)), (east_z p (b, c)), (east_z p (c, a)),
                     (lpos p (a, b)), (lpos p (b, c)), (lpos p (c, a)); cbn in *; congruence
          | pose proof (tri_core p c a b ltac:(rewrite <- cross_cyc; exact HD) ltac:(lia)) as H;
            destruct (east_z p (a, b)), (east_z p (b, c)), (east_z p (c, a)),
                     (lpos p (a, b)), (lpos p (b, c)), (lpos p (c, a)); cbn in *; congruence ].
Qed.

Lemma opp_sign X Y u v : X * u + Y * v = 0 -> 0 <= u -> 0 <= v -> 0 < u + v -> X * Y <= 0.
Proof.
  intros E Hu Hv Huv.
  destruct (Z.lt_trichotomy X 0) as [HX|[HX|HX]]; destruct (Z.lt_trichotomy Y 0) as [HY|[HY|HY]];
    try (subst; lia); try (apply Z.mul_nonpos_nonneg; lia); try (apply Z.mul_nonneg_nonpos; lia).
  - assert (X * u <= 0) by (apply Z.mul_nonpos_nonneg; lia).
    assert (Y * v <= 0) by (apply Z.mul_nonpos_nonneg; lia).
    assert (E1 : X * u = 0) by lia. assert (E2 : Y * v = 0) by lia.
    apply Z.mul_eq_0 in E1, E2. lia.
  - assert (0 <= X * u) by (apply Z.mul_nonneg_nonneg; lia).
    assert (0 <= Y * v) by (apply Z.mul_nonneg_nonneg; lia).
    assert (E1 : X * u = 0) by lia. assert (E2 : Y * v = 0) by lia.
    apply Z.mul_eq_0 in E1, E2. lia.
Qed.

Lemma between_of_opp a b x : (a - x) * (b - x) <= 0 -> Z.min a b <= x <= Z.max a b.
Proof.
  intros H.
  destruct (Z.lt_trichotomy a x) as [Ha|[Ha|Ha]]; destruct (Z.lt_trichotomy b x) as [Hb|[Hb|Hb]]; try lia.
  - assert (0 < (a - x) * (b - x)) by (apply Z.mul_neg_neg; lia). lia.
  - assert (0 < (a - x) * (b - x)) by (apply Z.mul_pos_pos; lia). lia.
Qed.

(* p in the closed triangle and on the line of an edge: on that edge *)
Lemma on_seg_of_closed a b c p : 0 < cross a b c ->
  cross a b p = 0 -> 0 <= cross b c p -> 0 <= cross c a p -> on_seg p a b.
Proof.
  intros HD H0 H1 H2. pose proof (cross_sum a b c p) as Hs.
  assert (Ix : (px a - px p) * cross b c p + (px b - px p) * cross c a p + (px c - px p) * cross a b p = 0)
    by (unfold cross; ring).
  assert (Iy : (py a - py p) * cross b c p + (py b - py p) * cross c a p + (py c - py p) * cross a b p = 0)
    by (unfold cross; ring).
  unfold on_seg. split; [assumption|].
  rewrite H0 in *. rewrite Z.mul_0_r, Z.add_0_r in Ix, Iy.
  split; apply between_of_opp; eapply opp_sign; eauto; lia.
Qed.

Lemma on_boundary_tri p a b c :
  on_boundary p [a; b; c] <-> on_seg p a b \/ on_seg p b c \/ on_seg p c a.
Proof.
  unfold on_boundary. change (cyc_edges [a; b; c]) with [(a, b); (b, c); (c, a)]. split.
  - intros (e & [<-|[<-|[<-|[]]]] & H); cbn [fst snd] in H; tauto.
  - intros [H|[H|H]]; [exists (a, b)|exists (b, c)|exists (c, a)]; cbn [In fst snd]; tauto.
Qed.

(* the geometric open triangle: p strictly on the inner side of all three edge lines *)
Definition tri_open (a b c p : pt) : Prop :=
  (0 < cross a b c /\ 0 < cross a b p /\ 0 < cross b c p /\ 0 < cross c a p) \/
  (cross a b c < 0 /\ cross a b p < 0 /\ cross b c p < 0 /\ cross c a p < 0).

Theorem strict_in_tri_ccw p a b c : 0 < cross a b c ->
  (strict_in p [a; b; c] <-> 0 < cross a b p /\ 0 < cross b c p /\ 0 < cross c a p).
Proof.
  intros HD. unfold strict_in. rewrite evenodd_par, tri_par, on_boundary_tri by assumption. split.
  - intros [Hn Hl]. apply andb_true_iff in Hl. destruct Hl as [Hl Hc]. apply andb_true_iff in Hl.
    destruct Hl as [Ha Hb]. apply lpos_nonneg in Ha, Hb, Hc.
    destruct (Z.eq_dec (cross a b p) 0) as [E|].
    { exfalso. apply Hn. left. apply (on_seg_of_closed a b c); assumption. }
    destruct (Z.eq_dec (cross b c p) 0) as [E|].
    { exfalso. apply Hn. right; left. apply (on_seg_of_closed b c a); [rewrite cross_cyc| | |]; assumption. }
    destruct (Z.eq_dec (cross c a p) 0) as [E|].
    { exfalso. apply Hn. right; right. apply (on_seg_of_closed c a b); [rewrite <- (cross_cyc c a b)| | |]; assumption. }
    lia.
  - intros (Ha & Hb & Hc). split.
    + unfold on_seg. intros [H|[H|H]]; lia.
    + rewrite !lpos_pos by assumption. reflexivity.
Qed.

Lemma rev3 (a b c : pt) : rev [a; b; c] = [c; b; a].
Proof. reflexivity. Qed.

(* any non-degenerate triangle, either winding *)
Theorem strict_in_tri p a b c : cross a b c <> 0 -> (strict_in p [a; b; c] <-> tri_open a b c p).
Proof.
  intros HD. unfold tri_open. destruct (Z.lt_ge_cases 0 (cross a b c)) as [L|L].
  - rewrite strict_in_tri_ccw by assumption. lia.
  - rewrite <- strict_in_rev, rev3.
    pose proof (cross_swap a b c) as S1. pose proof (cross_cyc c b a) as S2.
    pose proof (cross_cyc a c b) as S3.
    assert (Hcba : 0 < cross c b a) by (pose proof (cross_swap b c a); pose proof (cross_cyc a b c); lia).
    rewrite strict_in_tri_ccw by assumption.
    rewrite (cross_swap b c p), (cross_swap a b p), (cross_swap c a p). lia.
Qed.

(* ... for every rotation, closed or open, and after the constructor's normalisation *)
Theorem strict_in_tri_any p a b c k h : cross a b c <> 0 ->
  (strict_in p (rot k [a; b; c]) <-> tri_open a b c p) /\
  (strict_in p (reclose [a; b; c]) <-> tri_open a b c p) /\
  (strict_in p (norm_outline h (reclose (rot k [a; b; c]))) <-> tri_open a b c p) /\
  (strict_in p (norm_outline h (reclose (rot k (rev [a; b; c])))) <-> tri_open a b c p).
Proof.
  intros HD. pose proof (strict_in_tri p a b c HD) as H.
  split; [|split; [|split]];
    rewrite ?strict_in_norm, ?strict_in_rot, ?strict_in_rev, ?strict_in_reclose; apply H.
Qed.

Lemma tri_open_rev a b c p : tri_open c b a p <-> tri_open a b c p.
Proof.
  unfold tri_open.
  rewrite (cross_swap b c p), (cross_swap a b p), (cross_swap c a p).
  pose proof (cross_swap b c a). pose proof (cross_cyc a b c). lia.
Qed.

Theorem pip_tri w p a b c k h : west_ok w [a; b; c] -> w <= px p -> cross a b c <> 0 ->
  (pip w p (norm_outline h (reclose (rot k [a; b; c]))) = true <-> tri_open a b c p) /\
  (pip w p (norm_outline h (reclose (rot k (rev [a; b; c])))) = true <-> tri_open a b c p).
Proof.
  intros W Hp HD.
  split; rewrite pip_norm; auto using west_ok_rot, west_ok_rev;
    rewrite strict_in_rot, ?strict_in_rev; apply strict_in_tri; assumption.
Qed.

Theorem poly_contains_tri w p a b c k h : west_ok w [a; b; c] -> w <= px p -> cross a b c <> 0 ->
  (poly_contains w (norm_outline h (reclose (rot k [a; b; c]))) [] p = true <-> tri_open a b c p).
Proof.
  intros W Hp HD. rewrite poly_contains_norm; auto using west_ok_rot; try (intros ? []).
  rewrite strict_in_rot, strict_in_tri by assumption. split; [tauto|]. intros H; split; [exact H|intros ? []].
Qed.

Lemma nonvacuous_tri :
  let a := (0, 0) in let b := (8, 2) in let c := (3, 9) in
  cross a b c <> 0 /\ west_ok (-360) [a; b; c] /\
  tri_open a b c (4, 4) /\ pip (-360) (4, 4) (norm_outline false (reclose [a; b; c])) = true /\
  tri_open a b c (3, 2) /\ pip (-360) (3, 2) (norm_outline false (reclose [c; b; a])) = true /\  (* level with b *)
  ~ tri_open a b c (4, 1) /\ pip (-360) (4, 1) (norm_outline false (reclose [a; b; c])) = false /\ (* on edge a-b *)
  ~ tri_open a b c (3, 9) /\ pip (-360) (3, 9) (norm_outline false (reclose [a; b; c])) = false /\ (* vertex c *)
  ~ tri_open a b c (7, 7) /\ pip (-360) (7, 7) (norm_outline false (reclose [a; b; c])) = false.   (* outside *)
Proof.
  cbv zeta. split; [vm_compute; discriminate|]. split; [west_ok_tac|].
  unfold tri_open. repeat split; try (vm_compute; reflexivity);
    try (left; vm_compute; repeat split; reflexivity); vm_compute; intuition discriminate.
Qed.
