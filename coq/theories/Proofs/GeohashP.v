(* Proofs about the Niemeyer codec model (GeohashM.v), part 1: arithmetic of one halving, the
   bit-level view of encode/decode, and what [cfg_ok] gives. Stdlib only; no axioms. *)
From Coq Require Import QArith Qreduction Lqa.
From GV Require Import Prelude GeohashM.
Open Scope Q_scope.

(* ------------------------------------------------------------------ arithmetic *)
Lemma qmid_spec lo hi : 2 * qmid lo hi == lo + hi.
Proof. unfold qmid. rewrite Qred_correct. field. Qed.

Lemma qhalf_spec e : 2 * qhalf e == e.
Proof. unfold qhalf. rewrite Qred_correct. field. Qed.

Lemma qle_bool_true a b : Qle_bool a b = true -> a <= b.
Proof. apply Qle_bool_iff. Qed.

Lemma qle_bool_false a b : Qle_bool a b = false -> b < a.
Proof.
  intro H. apply Qnot_le_lt. intro L. apply Qle_bool_iff in L. congruence.
Qed.

Lemma qgt_true a b : qgt a b = true -> b < a.
Proof. unfold qgt. destruct (Qle_bool a b) eqn:E; [discriminate|]. intros _. now apply qle_bool_false. Qed.

Lemma qgt_false a b : qgt a b = false -> a <= b.
Proof. unfold qgt. destruct (Qle_bool a b) eqn:E; [|discriminate]. intros _. now apply qle_bool_true. Qed.

Lemma qgt_of_lt a b : b < a -> qgt a b = true.
Proof.
  intro H. destruct (qgt a b) eqn:E; [reflexivity|]. apply qgt_false in E. lra.
Qed.

Lemma qgt_of_le a b : a <= b -> qgt a b = false.
Proof.
  intro H. destruct (qgt a b) eqn:E; [|reflexivity]. apply qgt_true in E. lra.
Qed.

Lemma qleb_true a b : qleb a b = true <-> a <= b.
Proof. apply Qle_bool_iff. Qed.

Lemma qltb_true a b : qltb a b = true <-> a < b.
Proof.
  unfold qltb. split; intro H.
  - destruct (Qle_bool b a) eqn:E; [discriminate|]. now apply qle_bool_false.
  - destruct (Qle_bool b a) eqn:E; [|reflexivity]. apply qle_bool_true in E. lra.
Qed.

Global Opaque qmid qhalf.

(* ------------------------------------------------------------------ bit-level view *)
(* narrowing by a list of bits / the bits the encoder chooses *)
Fixpoint run_bits (bl : list bool) (s : cs) : cs :=
  match bl with
  | [] => s
  | b :: bl' => run_bits bl' (narrow_cs b s)
  end.

Fixpoint enc_bits (k : nat) (p : Q * Q) (s : cs) : list bool :=
  match k with
  | O => []
  | S k' => let b := bit_of p s in b :: enc_bits k' p (narrow_cs b s)
  end.

Fixpoint run_dbits (bl : list bool) (d : ds) : ds :=
  match bl with
  | [] => d
  | b :: bl' => run_dbits bl' (dec_bit b d)
  end.

Lemma run_bits_app a b s : run_bits (a ++ b) s = run_bits b (run_bits a s).
Proof. revert s. induction a as [|x a IH]; intro s; cbn; [reflexivity|apply IH]. Qed.

Lemma run_dbits_app a b d : run_dbits (a ++ b) d = run_dbits b (run_dbits a d).
Proof. revert d. induction a as [|x a IH]; intro d; cbn; [reflexivity|apply IH]. Qed.

Lemma dcs_dec_bit b d : dcs (dec_bit b d) = narrow_cs b (dcs d).
Proof. unfold dec_bit. destruct (lonc (dcs d)); reflexivity. Qed.

Lemma dcs_run_dbits bl d : dcs (run_dbits bl d) = run_bits bl (dcs d).
Proof.
  revert d. induction bl as [|b bl IH]; intro d; cbn; [reflexivity|].
  rewrite IH, dcs_dec_bit. reflexivity.
Qed.

Lemma enc_bits_length k p s : length (enc_bits k p s) = k.
Proof. revert s. induction k as [|k IH]; intro s; cbn; [reflexivity|]. now rewrite IH. Qed.

Lemma enc_bits_app k j p s :
  enc_bits (k + j) p s = enc_bits k p s ++ enc_bits j p (run_bits (enc_bits k p s) s).
Proof.
  revert s. induction k as [|k IH]; intro s; cbn; [reflexivity|].
  f_equal. apply IH.
Qed.

Lemma enc_char_bits masks p s acc :
  enc_char masks p s acc =
  (or_bits masks (enc_bits (length masks) p s) acc, run_bits (enc_bits (length masks) p s) s).
Proof.
  revert s acc. induction masks as [|m ms IH]; intros s acc; cbn; [reflexivity|].
  apply IH.
Qed.

Lemma dec_char_bits c v d : dec_char c v d = run_dbits (val_bits c v) d.
Proof.
  unfold dec_char, val_bits. generalize (bits c) as ms. intro ms. revert d.
  induction ms as [|m ms IH]; intro d; cbn; [reflexivity|apply IH].
Qed.

(* ------------------------------------------------------------------ cells as sets *)
Definition wf_cs (s : cs) : Prop :=
  fst (lonI s) <= snd (lonI s) /\ fst (latI s) <= snd (latI s).
Definition swf_cs (s : cs) : Prop :=
  fst (lonI s) < snd (lonI s) /\ fst (latI s) < snd (latI s).
(* closed cell *)
Definition in_cs (p : Q * Q) (s : cs) : Prop :=
  (fst (lonI s) <= fst p /\ fst p <= snd (lonI s)) /\ (fst (latI s) <= snd p /\ snd p <= snd (latI s)).
(* half-open cell (lo, hi] x (lo, hi]: the points the strict [>] of the encoder sends into it *)
Definition hin_cs (p : Q * Q) (s : cs) : Prop :=
  (fst (lonI s) < fst p /\ fst p <= snd (lonI s)) /\ (fst (latI s) < snd p /\ snd p <= snd (latI s)).
(* open cell *)
Definition oin_cs (p : Q * Q) (s : cs) : Prop :=
  (fst (lonI s) < fst p /\ fst p < snd (lonI s)) /\ (fst (latI s) < snd p /\ snd p < snd (latI s)).
Definition sub_cs (s' s : cs) : Prop :=
  (fst (lonI s) <= fst (lonI s') /\ snd (lonI s') <= snd (lonI s)) /\
  (fst (latI s) <= fst (latI s') /\ snd (latI s') <= snd (latI s)).

Ltac cs_destr :=
  repeat match goal with
         | s : cs |- _ => destruct s as [[? ?] [? ?] []]
         | p : (Q * Q)%type |- _ => destruct p as [? ?]
         end;
  unfold wf_cs, swf_cs, in_cs, hin_cs, oin_cs, sub_cs, narrow_cs, narrow, bit_of in *; cbn [lonI latI lonc fst snd] in *.

Ltac mids :=
  repeat match goal with
         | |- context [qmid ?a ?b] =>
             let m := fresh "m" in let Hm := fresh "Hm" in
             pose proof (qmid_spec a b) as Hm; set (m := qmid a b) in *; clearbody m
         | H : context [qmid ?a ?b] |- _ =>
             let m := fresh "m" in let Hm := fresh "Hm" in
             pose proof (qmid_spec a b) as Hm; set (m := qmid a b) in *; clearbody m
         end.

Lemma narrow_wf b s : wf_cs s -> wf_cs (narrow_cs b s).
Proof. intros H. cs_destr; destruct b; cbn [fst snd]; mids; lra. Qed.

Lemma narrow_swf b s : swf_cs s -> swf_cs (narrow_cs b s).
Proof. intros H. cs_destr; destruct b; cbn [fst snd]; mids; lra. Qed.

Lemma narrow_sub b s : wf_cs s -> sub_cs (narrow_cs b s) s.
Proof. intros H. cs_destr; destruct b; cbn [fst snd]; mids; lra. Qed.

Lemma swf_wf s : swf_cs s -> wf_cs s.
Proof. intros H. cs_destr; lra. Qed.

Lemma sub_refl s : sub_cs s s.
Proof. cs_destr; lra. Qed.

Lemma sub_trans a b c : sub_cs a b -> sub_cs b c -> sub_cs a c.
Proof. unfold sub_cs. intros. lra. Qed.

Lemma run_bits_wf bl s : wf_cs s -> wf_cs (run_bits bl s).
Proof. revert s. induction bl as [|b bl IH]; intros s H; cbn; [exact H|]. apply IH, narrow_wf, H. Qed.

Lemma run_bits_swf bl s : swf_cs s -> swf_cs (run_bits bl s).
Proof. revert s. induction bl as [|b bl IH]; intros s H; cbn; [exact H|]. apply IH, narrow_swf, H. Qed.

Lemma run_bits_sub bl s : wf_cs s -> sub_cs (run_bits bl s) s.
Proof.
  revert s. induction bl as [|b bl IH]; intros s H; cbn; [apply sub_refl|].
  eapply sub_trans; [apply IH, narrow_wf, H|apply narrow_sub, H].
Qed.

Lemma hin_sub p s' s : hin_cs p s' -> sub_cs s' s -> hin_cs p s.
Proof. unfold hin_cs, sub_cs. intros. lra. Qed.

Lemma in_sub p s' s : in_cs p s' -> sub_cs s' s -> in_cs p s.
Proof. unfold in_cs, sub_cs. intros. lra. Qed.

Lemma oin_hin p s : oin_cs p s -> hin_cs p s.
Proof. unfold oin_cs, hin_cs. intros. lra. Qed.

Lemma hin_in p s : hin_cs p s -> in_cs p s.
Proof. unfold in_cs, hin_cs. intros. lra. Qed.

(* the encoder's bit keeps the point in the (closed) cell *)
Lemma enc_step_in p s : in_cs p s -> in_cs p (narrow_cs (bit_of p s) s).
Proof.
  intros H. cs_destr.
  - destruct (qgt q3 (qmid q q0)) eqn:E; [apply qgt_true in E|apply qgt_false in E];
      cbn [fst snd]; mids; lra.
  - destruct (qgt q4 (qmid q1 q2)) eqn:E; [apply qgt_true in E|apply qgt_false in E];
      cbn [fst snd]; mids; lra.
Qed.

Lemma enc_bits_in k p s : in_cs p s -> in_cs p (run_bits (enc_bits k p s) s).
Proof.
  revert s. induction k as [|k IH]; intros s H; cbn; [exact H|]. apply IH, enc_step_in, H.
Qed.

(* a point of the half-open sub-cell reached by [b] makes the encoder choose [b] *)
Lemma bit_of_hin b p s s' :
  wf_cs s -> sub_cs s' (narrow_cs b s) -> hin_cs p s' -> bit_of p s = b.
Proof.
  intros W S H. cs_destr; destruct b; cbn [fst snd] in *;
    (apply qgt_of_lt || apply qgt_of_le); mids; lra.
Qed.

Lemma reenc_bits bl p s :
  wf_cs s -> hin_cs p (run_bits bl s) -> enc_bits (length bl) p s = bl.
Proof.
  revert s. induction bl as [|b bl IH]; intros s W H; cbn; [reflexivity|].
  cbn in H.
  assert (E : bit_of p s = b).
  { eapply bit_of_hin; [exact W| |exact H]. apply run_bits_sub, narrow_wf, W. }
  rewrite E. f_equal. apply IH; [apply narrow_wf, W|exact H].
Qed.

(* the centre of a non-degenerate cell is in its half-open (indeed open) part *)
Lemma centre_oin s : swf_cs s -> oin_cs (centre s) s.
Proof. intros H. unfold centre. cs_destr; mids; lra. Qed.

(* ------------------------------------------------------------------ error margins *)
Definition err_inv (d : ds) : Prop :=
  snd (lonI (dcs d)) - fst (lonI (dcs d)) == 2 * lonE d /\
  snd (latI (dcs d)) - fst (latI (dcs d)) == 2 * latE d.

Lemma dec_bit_err b d : err_inv d -> err_inv (dec_bit b d).
Proof.
  unfold err_inv, dec_bit. destruct d as [[[a1 a2] [b1 b2] []] e1 e2]; cbn [dcs lonE latE lonc];
    unfold narrow_cs, narrow; cbn [lonI latI lonc fst snd]; intros [H1 H2]; destruct b; cbn [lonI latI fst snd].
  all: try (pose proof (qhalf_spec e1)); try (pose proof (qhalf_spec e2)); mids; lra.
Qed.

Lemma run_dbits_err bl d : err_inv d -> err_inv (run_dbits bl d).
Proof. revert d. induction bl as [|b bl IH]; intros d H; cbn; [exact H|]. apply IH, dec_bit_err, H. Qed.

(* ------------------------------------------------------------------ what cfg_ok gives *)
Open Scope Z_scope.

Lemma list_eqb_bool_eq (a b : list bool) : list_eqb Bool.eqb a b = true -> a = b.
Proof.
  revert b. induction a as [|x a IH]; intros [|y b] H; cbn in H; try discriminate; [reflexivity|].
  apply andb_true_iff in H. destruct H as [H1 H2]. apply eqb_prop in H1. subst. f_equal. now apply IH.
Qed.

Lemma in_charset_In ch l : in_charset ch l = true <-> In ch l.
Proof.
  unfold in_charset. rewrite existsb_exists. split.
  - intros (x & Hx & E). apply Z.eqb_eq in E. now subst.
  - intro H. exists ch. split; [exact H|apply Z.eqb_refl].
Qed.

Lemma all_bits_length k bl : In bl (all_bits k) <-> length bl = k.
Proof.
  revert bl. induction k as [|k IH]; intro bl; cbn.
  - split; [intros [<-|[]]; reflexivity|]. destruct bl; [now left|discriminate].
  - rewrite in_app_iff, !in_map_iff. split.
    + intros [(x & <- & Hx)|(x & <- & Hx)]; cbn; f_equal; now apply IH.
    + destruct bl as [|[] bl]; [discriminate| |]; intro H; injection H as H; apply IH in H.
      * right. now exists bl.
      * left. now exists bl.
Qed.

Lemma in_combine_l_ex {A B} (l : list A) (l' : list B) x :
  length l = length l' -> In x l -> exists y, In (x, y) (combine l l').
Proof.
  revert l'. induction l as [|a l IH]; intros [|b l'] E H; cbn in *; try discriminate; [destruct H|].
  destruct H as [->|H]; [exists b; now left|].
  injection E as E. destruct (IH l' E H) as [y Hy]. exists y. now right.
Qed.

Lemma in_combine_r_ex {A B} (l : list A) (l' : list B) y :
  length l = length l' -> In y l' -> exists x, In (x, y) (combine l l').
Proof.
  revert l'. induction l as [|a l IH]; intros [|b l'] E H; cbn in *; try discriminate; [destruct H|].
  destruct H as [->|H]; [exists a; now left|].
  injection E as E. destruct (IH l' E H) as [x Hx]. exists x. now right.
Qed.

Lemma nodupb_NoDup l : nodupb l = true -> NoDup l.
Proof.
  induction l as [|x l IH]; cbn; intro H; [constructor|].
  apply andb_true_iff in H. destruct H as [H1 H2]. constructor; [|now apply IH].
  intro Hin. apply in_charset_In in Hin. unfold in_charset in Hin. rewrite Hin in H1. discriminate.
Qed.

Section CfgOk.
  Variable c : cfg.
  Hypothesis OK : cfg_ok c.

  Let b := length (bits c).

  Definition pair_ok (ch : Z) (bl : list bool) : Prop :=
    In ch (charset c) /\
    (exists v, lookup ch (inverse c) = Some v /\ val_bits c v = bl) /\
    char_at c (or_bits (bits c) bl 0) = ch.

  Lemma cfg_ok_parts :
    length (charset c) = length (all_bits b) /\ NoDup (charset c) /\
    (forall ch bl, In (ch, bl) (combine (charset c) (all_bits b)) -> pair_ok ch bl) /\
    (minx c == - maxx c)%Q /\ (miny c == - maxy c)%Q /\ (0 < maxx c)%Q /\ (0 < maxy c)%Q.
  Proof.
    pose proof OK as K. unfold cfg_ok, cfg_okb in K. fold b in K.
    apply andb_true_iff in K. destruct K as [K Hy].
    apply andb_true_iff in K. destruct K as [K Hx].
    apply andb_true_iff in K. destruct K as [K Hmy].
    apply andb_true_iff in K. destruct K as [K Hmx].
    apply andb_true_iff in K. destruct K as [K HF].
    apply andb_true_iff in K. destruct K as [HL HN].
    split; [now apply Nat.eqb_eq|]. split; [now apply nodupb_NoDup|]. split.
    - intros ch bl Hin. rewrite forallb_forall in HF. specialize (HF _ Hin). cbn beta iota in HF.
      apply andb_true_iff in HF. destruct HF as [HF H4].
      apply andb_true_iff in HF. destruct HF as [HF H3].
      apply andb_true_iff in HF. destruct HF as [H1 H2].
      unfold pair_ok. split; [now apply in_charset_In|]. split.
      + destruct (lookup ch (inverse c)) as [v|]; [|discriminate]. exists v. split; [reflexivity|].
        now apply list_eqb_bool_eq.
      + unfold char_at. destruct (nth_error (charset c) (Z.to_nat (or_bits (bits c) bl 0))) as [ch'|] eqn:E;
          [|discriminate]. apply Z.eqb_eq in H4. subst ch'. now apply nth_error_nth.
    - repeat split; try (now apply Qeq_bool_iff); now apply qltb_true.
  Qed.

  (* every alphabet character has a bit list of the right length, and encodes back *)
  Lemma cfg_ok_char ch : In ch (charset c) -> exists bl, length bl = b /\ pair_ok ch bl.
  Proof.
    destruct cfg_ok_parts as (L & _ & P & _). intro H.
    destruct (in_combine_l_ex _ _ ch L H) as [bl Hb]. exists bl. split; [|now apply P].
    apply in_combine_r in Hb. now apply all_bits_length.
  Qed.

  (* every bit list of the right length has its character *)
  Lemma cfg_ok_bits bl : length bl = b -> exists ch, pair_ok ch bl.
  Proof.
    destruct cfg_ok_parts as (L & _ & P & _). intro H.
    apply all_bits_length in H. destruct (in_combine_r_ex _ _ bl L H) as [ch Hc]. exists ch. now apply P.
  Qed.

  Lemma charset_length : length (charset c) = Nat.pow 2 b.
  Proof.
    destruct cfg_ok_parts as (L & _). rewrite L. clear.
    induction b as [|k IH]; cbn; [reflexivity|]. rewrite app_length, !map_length, IH. lia.
  Qed.
End CfgOk.

Lemma cfg16_ok : cfg_ok cfg16. Proof. vm_compute. reflexivity. Qed.
Lemma cfg32_ok : cfg_ok cfg32. Proof. vm_compute. reflexivity. Qed.
Lemma cfg64_ok : cfg_ok cfg64. Proof. vm_compute. reflexivity. Qed.
