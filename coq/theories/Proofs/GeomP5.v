(* C01: the integer sign test used by [east_z] is the textbook comparison of the query
   longitude with the crossing abscissa, computed in Q. *)
From Coq Require Import QArith.
From GV Require Import Prelude GeomM GeomP.
Open Scope Z_scope.

(* textbook crossing abscissa of the line through a, b with the horizontal line through p *)
Definition abscissa (p a b : pt) : Q :=
  (inject_Z (px a) + inject_Z (py p - py a) * inject_Z (px b - px a) / inject_Z (py b - py a))%Q.

Lemma east_sign_textbook p a b : py a <> py b ->
  (0 < cross a b p * (py b - py a) <-> (inject_Z (px p) < abscissa p a b)%Q).
Proof.
  destruct p as [qx qy], a as [ax ay], b as [bx by_]. unfold abscissa, cross. cbn [px py fst snd].
  intros Hne. set (D := by_ - ay). set (u := qy - ay). set (dx := bx - ax).
  assert (HD : D <> 0) by (unfold D; lia).
  replace (qx - ax) with (qx - ax) by reflexivity.
  unfold Qlt, Qplus, Qmult, Qdiv, Qinv, inject_Z. cbn [Qnum Qden].
  destruct D as [|d|d] eqn:ED; [congruence| |].
  - cbn [Qnum Qden]. rewrite ?Pos.mul_1_l, ?Pos.mul_1_r, ?Z.mul_1_r.
    unfold Qmult; cbn [Qnum Qden]. rewrite ?Pos.mul_1_l, ?Pos.mul_1_r, ?Z.mul_1_r.
    clearbody u dx. clear ED. set (e := Z.pos d) in *. assert (0 < e) by (unfold e; lia). clearbody e.
    split; intros H1; nia.
  - cbn [Qnum Qden]. rewrite ?Pos.mul_1_l, ?Pos.mul_1_r, ?Z.mul_1_r.
    unfold Qmult; cbn [Qnum Qden]. rewrite ?Pos.mul_1_l, ?Pos.mul_1_r, ?Z.mul_1_r.
    clearbody u dx. clear ED. change (Z.neg d) with (- Z.pos d).
    set (e := Z.pos d) in *. assert (0 < e) by (unfold e; lia). clearbody e.
    split; intros H1; nia.
Qed.

(* an edge is counted by [evenodd] iff exactly one endpoint is strictly above the query
   latitude and the edge meets that latitude strictly east of the query *)
Lemma east_z_textbook p a b :
  east_z p (a, b) = true <->
  ~ (py p < py a <-> py p < py b) /\ (inject_Z (px p) < abscissa p a b)%Q.
Proof.
  unfold east_z. rewrite andb_true_iff, straddles_cases. split.
  - intros [Hs Hc]. split; [lia|]. apply east_sign_textbook; lia.
  - intros [Hs Hc]. split; [lia|]. apply east_sign_textbook in Hc; lia.
Qed.
